(* C12 driver: RTP packers, RtpPacker.Pack, reorder container + depacketisers *)
open Conv

let pinned = (try Sys.getenv "C12_PINNED" = "1" with Not_found -> false)
let fixed = not pinned

let site_name (s : BinNums.coq_N) : string =
  match int_of_n s with
  | 1 -> "panic@rtprtcp.(*RtpPackerPayloadAvcHevc).PackNal:index"
  | 2 -> "panic@rtprtcp.calcPositionIfNeededAvc:index"
  | 3 -> "panic@rtprtcp.calcPositionIfNeededHevc:index"
  | 4 -> "panic@rtprtcp.(*RtpUnpackerAvcHevc).TryUnpackOne:divide"
  | 5 -> "panic@rtprtcp.(*RtpUnpackerAvcHevc).TryUnpackOne:slice"
  | 6 -> "panic@rtprtcp.parseAu:index"
  | 7 -> "panic@rtprtcp.(*RtpUnpackerAac).TryUnpackOne:slice"
  | 8 -> "panic@rtprtcp.(*RtpUnpackerAac).TryUnpackOne:divide"
  | 9 -> "panic@rtprtcp.(*RtpUnpackerRaw).TryUnpackOne:divide"
  | 10 -> "panic@rtprtcp.(*RtpPacketList).PopFirst:nil"
  | n -> "panic " ^ string_of_int n

exception Model_res of string
let get = function
  | Res.Ok a -> a
  | Res.Err e -> raise (Model_res ("err " ^ token_of_n e))
  | Res.Panic s -> raise (Model_res (site_name s))

(* frames: ms@unit|unit;ms@unit *)
let parse_frames (s : string) =
  if s = "-" then [] else
  Stdlib.List.map (fun fs ->
      match String.index_opt fs '@' with
      | None -> failwith "bad frame"
      | Some i ->
        let ms = n_of_token (String.sub fs 0 i) in
        let us = String.sub fs (i + 1) (String.length fs - i - 1) in
        (ms, Stdlib.List.map bytes_of_token (String.split_on_char '|' us)))
    (String.split_on_char ';' s)

(* kind -> (payload list for one frame), payload type *)
let payloads kind maxp units =
  match kind with
  | "avc" -> get (RtpPacker.pack_video_frame fixed RtpPacker.Avc [Stdlib.List.hd units] maxp)
  | "hevc" -> get (RtpPacker.pack_video_frame fixed RtpPacker.Hevc [Stdlib.List.hd units] maxp)
  | "avcf" -> get (RtpPacker.pack_video_frame fixed RtpPacker.Avc units maxp)
  | "hevcf" -> get (RtpPacker.pack_video_frame fixed RtpPacker.Hevc units maxp)
  | "aac" -> RtpPacker.pack_aac (Stdlib.List.hd units) maxp
  | "pcma" | "pcmu" | "opus" -> RtpPacker.pack_raw (Stdlib.List.hd units) maxp
  | _ -> failwith "bad kind"

(* Pack in Nalu mode does not skip access unit delimiters: only one NAL, no
   filter.  pack_video_frame filters; so call pack_nal directly there. *)
let payloads kind maxp units =
  match kind with
  | "avc" | "hevc" ->
    if maxp = BinNums.N0 then []
    else get (RtpPacker.pack_nal fixed (if kind = "avc" then RtpPacker.Avc else RtpPacker.Hevc) (Stdlib.List.hd units) maxp)
  | _ -> payloads kind maxp units

let pt_of kind =
  n_of_int (match kind with
      | "avc" | "avcf" -> 96 | "hevc" | "hevcf" -> 98 | "aac" -> 97
      | "pcma" | "raw" -> 8 | "pcmu" -> 0 | "opus" -> 101 | _ -> failwith "bad kind")

let proto_of kind =
  match kind with
  | "avc" | "avcf" -> RtpUnpacker.PAvc
  | "hevc" | "hevcf" -> RtpUnpacker.PHevc
  | "aac" -> RtpUnpacker.PAac
  | "raw" | "pcma" | "pcmu" | "opus" -> RtpUnpacker.PRaw
  | _ -> failwith "bad proto"

let pack_all kind first rate ssrc maxp frames =
  let fr = Stdlib.List.map (fun (ms, units) -> (ms, payloads kind maxp units)) frames in
  RtpPacker.rtp_pack_stream (pt_of kind) rate ssrc first fr

let show_state ((st, outs) : RtpReorder.cstate * (BinNums.coq_N * BinNums.coq_N list) list) =
  let o = if outs = [] then "-" else
      String.concat "," (Stdlib.List.map (fun (ts, p) -> token_of_n ts ^ ":" ^ token_of_bytes p) outs) in
  let items = st.RtpReorder.c_items in
  let ss = if items = [] then "-" else
      String.concat "/" (Stdlib.List.map (fun p -> token_of_n p.RtpUnpacker.u_seq) items) in
  Printf.sprintf "%s %s %s %s %s" o ss (token_of_z st.RtpReorder.c_size)
    (token_of_bool st.RtpReorder.c_flag) (token_of_n st.RtpReorder.c_done)

let wrap f args = try f args with Model_res s -> s

let register () =
  Registry.register "c12.seq" (function
      | [a; b] ->
        let a = n_of_token a and b = n_of_token b in
        Printf.sprintf "%s %s" (token_of_z (RtpSeqArith.compare_seq a b)) (token_of_z (RtpSeqArith.sub_seq a b))
      | _ -> "bad-args");
  Registry.register "c12.pack" (wrap (function
      | [kind; first; rate; ssrc; maxp; frames] ->
        let first = n_of_token first in
        let (pk, next) = pack_all kind first (n_of_token rate) (n_of_token ssrc) (n_of_token maxp) (parse_frames frames) in
        let fs = Stdlib.List.map (fun f ->
            if f = [] then "_" else String.concat "," (Stdlib.List.map (fun p -> token_of_bytes (RtpPacker.rtp_raw p)) f)) pk in
        (if fs = [] then "-" else String.concat ";" fs) ^ " " ^ token_of_n next
      | _ -> "bad-args"));
  Registry.register "c12.unpack" (wrap (function
      | [proto; rate; w; arr] ->
        let arr = if arr = "-" then [] else
            Stdlib.List.map (fun it ->
                match String.split_on_char ':' it with
                | [s; t; b] -> ((n_of_token s, n_of_token t), bytes_of_token b)
                | _ -> failwith "bad arrival") (String.split_on_char ',' arr) in
        show_state (get (RtpReorder.feed_all (proto_of proto) (n_of_token rate) (z_of_token w) RtpReorder.c_init arr))
      | _ -> "bad-args"));
  Registry.register "c12.rt" (wrap (function
      | [kind; first; rate; maxp; w; frames; sched] ->
        let (pk, _) = pack_all kind (n_of_token first) (n_of_token rate) (n_of_int 0x11223344) (n_of_token maxp) (parse_frames frames) in
        let all = Array.of_list (Stdlib.List.concat pk) in
        let n = Array.length all in
        let idx = if sched = "*" then Stdlib.List.init n (fun i -> i)
          else if sched = "-" then []
          else Stdlib.List.filter (fun i -> i < n) (Stdlib.List.map int_of_token (String.split_on_char ',' sched)) in
        let arr = Stdlib.List.map (fun i -> RtpReorder.arrival_of all.(i)) idx in
        token_of_int n ^ " " ^
        show_state (get (RtpReorder.feed_all (proto_of kind) (n_of_token rate) (z_of_token w) RtpReorder.c_init arr))
      | _ -> "bad-args"))
