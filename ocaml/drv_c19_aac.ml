(* C19 driver, part C: AAC AudioSpecificConfig / ADTS header / sequence header *)
open Conv

let show_res (f : 'a -> string) (r : 'a Res.res) : string =
  match r with
  | Res.Err e when int_of_n e = 7 -> "err other"     (* base.ErrSamplingFrequencyIndex *)
  | _ -> Drv_c19.show_res f r

(* struct fields are uint8 *)
let u8_of_token s = n_of_int (int_of_n (n_of_token s) land 0xff)
let ctx_of a s c = { CodecAac.asc_aot = u8_of_token a; asc_sfi = u8_of_token s; asc_chan = u8_of_token c }
let show_ctx (c : CodecAac.asc_ctx) =
  Printf.sprintf "%s,%s,%s" (token_of_n c.CodecAac.asc_aot) (token_of_n c.CodecAac.asc_sfi) (token_of_n c.CodecAac.asc_chan)
let show_adts ((c, l) : CodecAac.asc_ctx * BinNums.coq_N) = show_ctx c ^ "," ^ token_of_n l

let register () =
  Registry.register "c19.asc_unpack" (function
      | [b] -> show_res show_ctx (CodecAac.asc_unpack (bytes_of_token b))
      | _ -> "bad-args");
  Registry.register "c19.asc_pack" (function
      | [a; s; c] -> token_of_bytes (CodecAac.asc_pack (ctx_of a s c))
      | _ -> "bad-args");
  Registry.register "c19.adts_pack" (function
      | [a; s; c; n] -> token_of_bytes (CodecAac.adts_pack (ctx_of a s c) (n_of_token n))
      | _ -> "bad-args");
  Registry.register "c19.adts_pack_to" (function
      | [a; s; c; n; out] -> show_res token_of_bytes (CodecAac.adts_pack_to (ctx_of a s c) (bytes_of_token out) (n_of_token n))
      | _ -> "bad-args");
  Registry.register "c19.adts_unpack" (function
      | [b] -> show_res show_adts (CodecAac.adts_unpack (bytes_of_token b))
      | _ -> "bad-args");
  Registry.register "c19.asc_of_adts" (function
      | [b] -> show_res token_of_bytes (CodecAac.asc_of_adts (bytes_of_token b))
      | _ -> "bad-args");
  Registry.register "c19.aac_freq" (function
      | [s] -> show_res token_of_n (CodecAac.asc_sampling_frequency (ctx_of "0" s "0"))
      | _ -> "bad-args");
  Registry.register "c19.aac_seqh_unpack" (function
      | [b] -> String.concat "," (Stdlib.List.map token_of_n (CodecAac.aac_seqh_unpack (bytes_of_token b)))
      | _ -> "bad-args");
  Registry.register "c19.aac_seqh_asc" (function
      | [b] -> show_res token_of_bytes (CodecAac.aac_seqh_of_asc (bytes_of_token b))
      | _ -> "bad-args");
  Registry.register "c19.aac_seqh_adts" (function
      | [b] -> show_res token_of_bytes (CodecAac.aac_seqh_of_adts (bytes_of_token b))
      | _ -> "bad-args");
  (* ASC -> context -> ADTS header -> context -> ASC -> sequence header *)
  Registry.register "c19.aac_rt" (function
      | [b; n] ->
        (match CodecAac.asc_unpack (bytes_of_token b) with
         | Res.Ok c ->
           let h = CodecAac.adts_pack c (n_of_token n) in
           Printf.sprintf "ok %s | %s | %s | %s | %s" (show_ctx c) (token_of_bytes h)
             (show_res show_adts (CodecAac.adts_unpack h))
             (show_res token_of_bytes (CodecAac.asc_of_adts h))
             (show_res token_of_bytes (CodecAac.aac_seqh_of_adts h))
         | r -> show_res show_ctx r)
      | _ -> "bad-args")
