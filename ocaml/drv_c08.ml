(* C08 driver: RTMP chunk divider (writer), chunk composer (reader), reference decoder *)
open Conv

(* C08_MODEL=pinned runs the model of the pinned snapshot (before the C08 repairs) *)
let pinned = (try Sys.getenv "C08_MODEL" = "pinned" with Not_found -> false)
let m2c c h prev p = if pinned then RtmpChunk.message2chunks_pinned c h prev p else RtmpChunk.message2chunks c h prev p
let runc st l = if pinned then RtmpComposer.run_composer_pinned st l else RtmpComposer.run_composer st l

let hdr_of csid mlen ty msid ts : RtmpChunk.rtmp_header =
  { RtmpChunk.h_csid = csid; h_len = mlen; h_type = ty; h_msid = msid; h_ts = ts }

(* prev header token: "-" or csid:mlen:type:msid:ts *)
let parse_prev (s : string) : RtmpChunk.rtmp_header option =
  if s = "-" then None else
  match String.split_on_char ':' s with
  | [c; l; t; m; ts] -> Some (hdr_of (n_of_token c) (n_of_token l) (n_of_token t) (n_of_token m) (n_of_token ts))
  | _ -> failwith "bad prev header"

let show_err (e : BinNums.coq_N) : string =
  match int_of_n e with
  | 1 -> "eof" | 2 -> "ueof" | 3 -> "agg-hdr" | 4 -> "agg-body" | 5 -> "agg-prev" | 6 -> "len-bigger"
  | 255 -> "fuel" | k -> Printf.sprintf "err%d" k

let show_hdr (h : RtmpChunk.rtmp_header) =
  Printf.sprintf "%s:%s:%s:%s:%s" (token_of_n h.RtmpChunk.h_csid) (token_of_n h.RtmpChunk.h_len)
    (token_of_n h.RtmpChunk.h_type) (token_of_n h.RtmpChunk.h_msid) (token_of_n h.RtmpChunk.h_ts)

let show_msg (m : RtmpComposer.rmsg) =
  Printf.sprintf "%s:%s:%s" (show_hdr m.RtmpComposer.m_hdr) (token_of_n m.RtmpComposer.m_rawts)
    (token_of_bytes m.RtmpComposer.m_payload)

let join = function [] -> "-" | l -> String.concat "," l

let show_stream ((csid, s) : BinNums.coq_N * RtmpComposer.stream) =
  Printf.sprintf "%s:%s:%s:%s:%s" (token_of_n csid) (show_hdr s.RtmpComposer.s_hdr)
    (token_of_n s.RtmpComposer.s_ts) (token_of_bool s.RtmpComposer.s_abs)
    (token_of_bytes (RtmpComposer.s_buf s))

let show_run ((st, msgs), e) =
  let streams = Stdlib.List.sort (fun (a, _) (b, _) -> compare (int_of_n a) (int_of_n b)) st.RtmpComposer.cs_streams in
  Printf.sprintf "%s %s %d %s %s" (show_err e) (token_of_n st.RtmpComposer.cs_chunk)
    (Stdlib.List.length msgs) (join (Stdlib.List.map show_msg msgs)) (join (Stdlib.List.map show_stream streams))

let show_smsg (m : RtmpChunkSpec.smsg) =
  Printf.sprintf "%s:%s:%s:%s:%s" (token_of_n m.RtmpChunkSpec.g_csid) (token_of_n m.RtmpChunkSpec.g_type)
    (token_of_n m.RtmpChunkSpec.g_msid) (token_of_n m.RtmpChunkSpec.g_ts) (token_of_bytes m.RtmpChunkSpec.g_payload)

(* message list token: csid:type:msid:ts:payload,... *)
let parse_msgs (s : string) =
  if s = "-" then [] else
  Stdlib.List.map (fun item ->
      match String.split_on_char ':' item with
      | [c; t; m; ts; p] -> (n_of_token c, n_of_token t, n_of_token m, n_of_token ts, bytes_of_token p)
      | _ -> failwith "bad message item") (String.split_on_char ',' s)

let panic_name (s : BinNums.coq_N) =
  match int_of_n s with
  | 1 -> "panic@rtmp.message2Chunks:divide"
  | 2 -> "panic@rtmp.writeSingleChunkHeader:explicit"
  | k -> Printf.sprintf "panic %d" k

(* ---- MessagePacker ------------------------------------------------------------- *)
let z_of_tok s = Conv.z_of_int (int_of_string (if String.length s > 2 && s.[1] = 'x' then string_of_int (int_of_string s) else s))

let pcmd_of (cmd : string) : RtmpMsgPacker.pcmd =
  let f = Array.of_list (String.split_on_char ':' cmd) in
  let n i = n_of_token f.(i) and z i = z_of_tok f.(i) and b i = bytes_of_token f.(i) in
  match f.(0) with
  | "cs" -> RtmpMsgPacker.PChunkSize (n 1)
  | "was" -> RtmpMsgPacker.PWinAckSize (n 1)
  | "pbw" -> RtmpMsgPacker.PPeerBandwidth (n 1, n 2)
  | "connect" -> RtmpMsgPacker.PConnect (b 1, b 2, b 3)
  | "cres" -> RtmpMsgPacker.PConnectResult (z 1, z 2, b 3)
  | "cstream" -> RtmpMsgPacker.PCreateStream
  | "csres" -> RtmpMsgPacker.PCreateStreamResult (z 1)
  | "play" -> RtmpMsgPacker.PPlay (b 1, n 2)
  | "publish" -> RtmpMsgPacker.PPublish (b 1, n 2)
  | "ospub" -> RtmpMsgPacker.POnStatusPublish (n 1)
  | "osplay" -> RtmpMsgPacker.POnStatusPlay (n 1)
  | "rec" -> RtmpMsgPacker.PStreamIsRecorded (n 1)
  | "begin" -> RtmpMsgPacker.PStreamBegin (n 1)
  | "pingreq" -> RtmpMsgPacker.PPingRequest (n 1)
  | "ack" -> RtmpMsgPacker.PAck (n 1)
  | "pingresp" -> RtmpMsgPacker.PPingResponse (n 1)
  | "raw" -> RtmpMsgPacker.PRaw (n 1, n 2, n 3, b 4)
  | _ -> failwith "bad packer cmd"

let register_packer () =
  Registry.register "c08.pk" (function
      | [cmds] ->
        let cs = Stdlib.List.map pcmd_of (String.split_on_char '|' cmds) in
        let rs = RtmpMsgPacker.packer_run RtmpMsgPacker.new_packer cs in
        let failed = Stdlib.List.exists (function Res.Ok _ -> false | _ -> true) rs in
        let outs = Stdlib.List.map (function
            | Res.Ok b -> token_of_bytes b
            | Res.Err _ -> "err"
            | Res.Panic s -> (match int_of_n s with 2 -> "panic@rtmp.writeSingleChunkHeader:explicit" | k -> Printf.sprintf "panic-buf %d" k)) rs in
        if failed then String.concat "," outs
        else begin
          let all = Stdlib.List.concat (Stdlib.List.map (function Res.Ok b -> b | _ -> []) rs) in
          Printf.sprintf "%s %s" (String.concat "," outs)
            (show_run (RtmpComposer.run_composer (RtmpComposer.init_cstate (n_of_int 4096)) all))
        end
      | _ -> "bad-args")

let register () =
  register_packer ();
  Registry.register "c08.w2c" (function
      | [chunk; csid; mlen; ty; msid; ts; p; prev] ->
        let p = bytes_of_token p in
        let mlen = if mlen = "-" then n_of_int (Stdlib.List.length p) else n_of_token mlen in
        (match m2c (n_of_token chunk)
                 (hdr_of (n_of_token csid) mlen (n_of_token ty) (n_of_token msid) (n_of_token ts)) (parse_prev prev) p with
         | Res.Ok b -> token_of_bytes b
         | Res.Err _ -> "err"
         | Res.Panic s -> panic_name s)
      | _ -> "bad-args");
  Registry.register "c08.rd" (function
      | [peer; _reuse; b] ->
        show_run (runc (RtmpComposer.init_cstate (n_of_token peer)) (bytes_of_token b))
      | _ -> "bad-args");
  Registry.register "c08.seq" (function
      | [chunk; msgs] ->
        let chunk = n_of_token chunk in
        let parts = Stdlib.List.map (fun (c, t, m, ts, p) ->
            match m2c chunk (hdr_of c (n_of_int (Stdlib.List.length p)) t m ts) None p with
            | Res.Ok b -> b
            | _ -> failwith "panic") (parse_msgs msgs) in
        let all = Stdlib.List.concat parts in
        Printf.sprintf "%s %s" (token_of_bytes all)
          (show_run (runc (RtmpComposer.init_cstate chunk) all))
      | _ -> "bad-args");
  Registry.register "c08.ref" (function
      | [peer; b] ->
        (match RtmpChunkSpec.ref_decode (n_of_token peer) (bytes_of_token b) with
         | Some ms -> Printf.sprintf "ok %d %s" (Stdlib.List.length ms) (join (Stdlib.List.map show_smsg ms))
         | None -> "none")
      | _ -> "bad-args");
  Registry.register "c08.sch" (function
      | [csid; len; ty; msid] ->
        (match RtmpChunk.single_chunk_header (n_of_token csid) (n_of_token len) (n_of_token ty) (n_of_token msid) with
         | Res.Ok b -> token_of_bytes b
         | Res.Err _ -> "err"
         | Res.Panic s -> panic_name s)
      | _ -> "bad-args")
