(* C10 driver: hls.Muxer model; prints the file-system operation list and the final directory *)
open Conv

let root = bytes_of_token "2f76"   (* "/v" *)

let str_of_bytes (l : BinNums.coq_N list) : string =
  String.concat "" (Stdlib.List.map (fun b -> String.make 1 (Char.chr (int_of_n b))) l)
let bytes_of_str (s : string) : BinNums.coq_N list =
  Stdlib.List.init (String.length s) (fun i -> byte_tab.(Char.code s.[i]))

let parse_event (s : string) : HlsMuxer.event =
  match String.split_on_char ':' s with
  | ["N"] -> HlsMuxer.EvNew
  | ["D"] -> HlsMuxer.EvDispose
  | ["C"] -> HlsMuxer.EvCleanup
  | ["P"; b] -> HlsMuxer.EvPatPmt (bytes_of_token b)
  | [k; pts; dts; b; now; pk] when k = "A" || k = "V" ->
    HlsMuxer.EvFeed (k = "A", z_of_token pts, z_of_token dts, b = "1", z_of_token now, bytes_of_token pk)
  | _ -> failwith ("bad event " ^ s)

let show_op (c : HlsMuxer.cfg) : HlsFs.op -> string =
        let p x = str_of_bytes (HlsMuxer.render_path root c x) in
        function
          | HlsFs.OMkdirAll x -> "mk:" ^ p x
          | HlsFs.OCreate x -> "cr:" ^ p x
          | HlsFs.OWrite (x, b) -> "wr:" ^ p x ^ ":" ^ hex_of_bytes b
          | HlsFs.OClose x -> "cl:" ^ p x
          | HlsFs.OWriteFile (x, b) -> "wf:" ^ p x ^ ":" ^ hex_of_bytes b
          | HlsFs.ORename (a, b) -> "rn:" ^ p a ^ ":" ^ p b
          | HlsFs.ORemove x -> "rm:" ^ p x
          | HlsFs.OReadFile (x, f) -> "rd:" ^ p x ^ ":" ^ (if f then "1" else "0")
          | HlsFs.ORemoveAll x -> "ra:" ^ p x

let run_show (c : HlsMuxer.cfg) (evs : HlsMuxer.event list) : string =
        let ops = HlsMuxer.run c evs in
        let p x = str_of_bytes (HlsMuxer.render_path root c x) in
        let show = show_op c in
        let fs = HlsFs.apply_all [] ops in
        let files = Stdlib.List.sort compare
            (Stdlib.List.map (fun (x, f) ->
                 Printf.sprintf "%s=%s:%s" (p x) (if f.HlsFs.fclosed then "c" else "o") (hex_of_bytes f.HlsFs.fdata)) fs) in
        Printf.sprintf "ops %s files %s"
          (if ops = [] then "-" else String.concat ";" (Stdlib.List.map show ops))
          (if files = [] then "-" else String.concat "," files)

let parse_sev (s : string) : HlsServer.sev =
  match String.split_on_char ':' s with
  | ["N"] -> HlsServer.SvPub
  | ["D"] -> HlsServer.SvStop
  | ["T"] -> HlsServer.SvTick
  | ["C"] -> HlsServer.SvFire
  | ["P"; b] -> HlsServer.SvPatPmt (bytes_of_token b)
  | [k; pts; dts; b; now; pk] when k = "A" || k = "V" ->
    HlsServer.SvFeed (k = "A", z_of_token pts, z_of_token dts, b = "1", z_of_token now, bytes_of_token pk)
  | _ -> failwith ("bad event " ^ s)

let show_files (c : HlsMuxer.cfg) (ops : HlsFs.op list) : string =
  let p x = str_of_bytes (HlsMuxer.render_path root c x) in
  let fs = HlsFs.apply_all [] ops in
  let files = Stdlib.List.sort compare
      (Stdlib.List.map (fun (x, f) ->
           Printf.sprintf "%s=%s:%s" (p x) (if f.HlsFs.fclosed then "c" else "o") (hex_of_bytes f.HlsFs.fdata)) fs) in
  if files = [] then "-" else String.concat "," files

let parse_cfg (stream : string) (cf : string) : HlsMuxer.cfg =
  match Stdlib.List.map z_of_token (String.split_on_char ':' cf) with
  | [ms; num; thr; mode] -> { HlsMuxer.c_stream = bytes_of_str stream; c_ms = ms; c_num = num; c_thr = thr; c_mode = mode }
  | _ -> failwith "bad cfg"

let register () =
  (* the server level (ServerManager / Group / delayed cleanup): calls per event *)
  Registry.register "c10.sm" (function
      | [stream; cf; evs] ->
        (* optional fifth field: hls.enable / hls.enable_https as two digits *)
        let cf, sw = match String.split_on_char ':' cf with
          | [a; b; c; d; sw] -> String.concat ":" [a; b; c; d], sw
          | _ -> cf, "10" in
        let g = { HlsServer.sw_http = (sw.[0] = '1'); sw_https = (sw.[1] = '1') } in
        let c = parse_cfg stream cf in
        let evs = if evs = "-" then [] else Stdlib.List.map parse_sev (String.split_on_char ',' evs) in
        let groups = HlsServer.srv_run_ev_sw g c evs in
        let show = show_op c in
        Printf.sprintf "ev %s files %s"
          (if groups = [] then "-" else
             String.concat "|" (Stdlib.List.map (fun g -> if g = [] then "-" else String.concat ";" (Stdlib.List.map show g)) groups))
          (show_files c (Stdlib.List.concat groups))
      | _ -> "bad-args");
  Registry.register "c10.run" (function
      | [stream; cf; evs] ->
        let c = match Stdlib.List.map z_of_token (String.split_on_char ':' cf) with
          | [ms; num; thr; mode] -> { HlsMuxer.c_stream = bytes_of_str stream; c_ms = ms; c_num = num; c_thr = thr; c_mode = mode }
          | _ -> failwith "bad cfg" in
        let evs = if evs = "-" then [] else Stdlib.List.map parse_event (String.split_on_char ',' evs) in
        run_show c evs
      | _ -> "bad-args");
  (* the real ServerManager.CleanupHlsIfNeeded: publisher attached (N), task fires (C), publisher leaves (D), second task (C) *)
  Registry.register "c10.cleanup" (function
      | [mode; alive] ->
        let c = { HlsMuxer.c_stream = bytes_of_str "s1"; c_ms = z_of_int 2; c_num = z_of_int 1; c_thr = z_of_int 0; c_mode = z_of_token mode } in
        let during = if alive = "1" then [HlsMuxer.EvNew; HlsMuxer.EvCleanup] else [HlsMuxer.EvCleanup] in
        let after = if alive = "1" then [HlsMuxer.EvDispose; HlsMuxer.EvCleanup] else [] in
        let o1 = HlsMuxer.run c during and o2 = HlsMuxer.run c (Stdlib.List.append during after) in
        let rec drop n l = if n = 0 then l else (match l with [] -> [] | _ :: t -> drop (n - 1) t) in
        let j l = if l = [] then "-" else String.concat ";" (Stdlib.List.map (show_op c) l) in
        Printf.sprintf "ops %s then %s" (j o1) (j (drop (Stdlib.List.length o1) o2))
      | _ -> "bad-args")
