(* C10 driver: hls.Muxer model; prints the file-system operation list and the final directory *)
open Conv

let root = bytes_of_token "2f76"   (* "/v" *)

let str_of_bytes (l : BinNums.coq_N list) : string =
  String.concat "" (Stdlib.List.map (fun b -> String.make 1 (Char.chr (int_of_n b))) l)
let bytes_of_str (s : string) : BinNums.coq_N list =
  Stdlib.List.init (String.length s) (fun i -> byte_tab.(Char.code s.[i]))

let parse_event (s : string) : HlsMuxer.event =
  match String.split_on_char ':' s with
  | ["N"] -> HlsMuxer.EvNew
  | ["D"] -> HlsMuxer.EvDispose
  | ["C"] -> HlsMuxer.EvCleanup
  | ["P"; b] -> HlsMuxer.EvPatPmt (bytes_of_token b)
  | [k; pts; dts; b; now; pk] when k = "A" || k = "V" ->
    HlsMuxer.EvFeed (k = "A", z_of_token pts, z_of_token dts, b = "1", z_of_token now, bytes_of_token pk)
  | _ -> failwith ("bad event " ^ s)

let register () =
  Registry.register "c10.run" (function
      | [stream; cf; evs] ->
        let c = match Stdlib.List.map z_of_token (String.split_on_char ':' cf) with
          | [ms; num; thr; mode] -> { HlsMuxer.c_stream = bytes_of_str stream; c_ms = ms; c_num = num; c_thr = thr; c_mode = mode }
          | _ -> failwith "bad cfg" in
        let evs = if evs = "-" then [] else Stdlib.List.map parse_event (String.split_on_char ',' evs) in
        let ops = HlsMuxer.run c evs in
        let p x = str_of_bytes (HlsMuxer.render_path root c x) in
        let show = function
          | HlsFs.OMkdirAll x -> "mk:" ^ p x
          | HlsFs.OCreate x -> "cr:" ^ p x
          | HlsFs.OWrite (x, b) -> "wr:" ^ p x ^ ":" ^ hex_of_bytes b
          | HlsFs.OClose x -> "cl:" ^ p x
          | HlsFs.OWriteFile (x, b) -> "wf:" ^ p x ^ ":" ^ hex_of_bytes b
          | HlsFs.ORename (a, b) -> "rn:" ^ p a ^ ":" ^ p b
          | HlsFs.ORemove x -> "rm:" ^ p x
          | HlsFs.OReadFile (x, f) -> "rd:" ^ p x ^ ":" ^ (if f then "1" else "0")
          | HlsFs.ORemoveAll x -> "ra:" ^ p x in
        let fs = HlsFs.apply_all [] ops in
        let files = Stdlib.List.sort compare
            (Stdlib.List.map (fun (x, f) ->
                 Printf.sprintf "%s=%s:%s" (p x) (if f.HlsFs.fclosed then "c" else "o") (hex_of_bytes f.HlsFs.fdata)) fs) in
        Printf.sprintf "ops %s files %s"
          (if ops = [] then "-" else String.concat ";" (Stdlib.List.map show ops))
          (if files = [] then "-" else String.concat "," files)
      | _ -> "bad-args")
