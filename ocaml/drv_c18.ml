(* C18 driver: AMF0 writers / readers and the metadata helpers.
   The model runs with RtmpAmf0.cfg_fixed (the tree after the two fix commits). *)
open Conv

let cfg = RtmpAmf0.cfg_fixed

(* bytes token with one extra part form: <count>*<hex> (repetition) *)
let rec c18_bytes (s : string) : BinNums.coq_N list =
  if String.contains s '+' then
    Stdlib.List.concat (Stdlib.List.map c18_bytes (String.split_on_char '+' s))
  else match String.index_opt s '*' with
    | Some i ->
      let n = int_of_string (String.sub s 0 i) in
      let unit_ = bytes_of_token (String.sub s (i + 1) (String.length s - i - 1)) in
      let rec go k acc = if k <= 0 then acc else go (k - 1) (Stdlib.List.rev_append (Stdlib.List.rev unit_) acc) in
      go n []
    | None -> bytes_of_token s

let str_tok (l : BinNums.coq_N list) : string =
  let n = Stdlib.List.length l in
  if n = 0 then "-"
  else if n <= 64 then hex_of_bytes l
  else Printf.sprintf "#%d.%016Lx" n (fnv1a64 l)

let pad16 (s : string) : string =
  (* token_of_n gives 0x...; numbers print as 16 hex digits *)
  let h = String.sub s 2 (String.length s - 2) in
  String.make (16 - String.length h) '0' ^ h

let rec show_val (v : RtmpAmf0.aval) : string =
  match v with
  | RtmpAmf0.ANum n -> "n" ^ pad16 (token_of_n n)
  | RtmpAmf0.ABool b -> if b then "b1" else "b0"
  | RtmpAmf0.AStr s -> "s" ^ str_tok s
  | RtmpAmf0.APairs l -> show_pairs l
and show_pairs l =
  "{" ^ String.concat "," (Stdlib.List.map (fun (k, v) -> str_tok k ^ ":" ^ show_val v) l) ^ "}"

let show_err (e : BinNums.coq_N) = "err " ^ token_of_n e

let show_dval = function
  | RtmpAmf0.DNone -> "_"
  | RtmpAmf0.DNum n -> "n" ^ pad16 (token_of_n n)
  | RtmpAmf0.DBool b -> if b then "b1" else "b0"
  | RtmpAmf0.DStr s -> "s" ^ str_tok s
  | RtmpAmf0.DPairs l -> show_pairs l

let entry_of = function
  | "strwo" -> RtmpAmf0.EStringWo | "lstrwo" -> RtmpAmf0.ELongStringWo | "str" -> RtmpAmf0.EString
  | "num" -> RtmpAmf0.ENumber | "bool" -> RtmpAmf0.EBoolean | "null" -> RtmpAmf0.ENull
  | "undef" -> RtmpAmf0.EUndefined | "obj" -> RtmpAmf0.EObject | "arr" -> RtmpAmf0.EArray
  | "sarr" -> RtmpAmf0.EStrictArray | "ooa" -> RtmpAmf0.EObjectOrArray
  | _ -> failwith "bad entry"

let show_decode (e : RtmpAmf0.entry) (b : BinNums.coq_N list) : string =
  match fst (RtmpAmf0.decode cfg e b) with
  | Res.Ok ((v, l), _) -> Printf.sprintf "ok %s %s" (show_dval v) (token_of_n l)
  | Res.Err e -> show_err e
  | Res.Panic s -> "panic " ^ token_of_n s

(* written value: n<hex64> | i<decimal> | b0 | b1 | s<bytes token> *)
let wval_of (s : string) : RtmpAmf0.wval =
  let rest = String.sub s 1 (String.length s - 1) in
  match s.[0] with
  | 'n' -> RtmpAmf0.WNum (n_of_token ("0x" ^ rest))
  | 'i' -> RtmpAmf0.WInt (z_of_token rest)
  | 'b' -> RtmpAmf0.WBool (rest = "1")
  | 's' -> RtmpAmf0.WStr (c18_bytes rest)
  | _ -> failwith "bad wval"

let wpairs_of (s : string) =
  if s = "-" then [] else
  Stdlib.List.map (fun item ->
      match String.index_opt item ':' with
      | Some i -> (c18_bytes (String.sub item 0 i), wval_of (String.sub item (i + 1) (String.length item - i - 1)))
      | None -> failwith "bad pair") (String.split_on_char ',' s)

let show_ensure = function
  | Res.Ok (b, None) -> token_of_bytes b
  | Res.Ok (b, Some e) -> token_of_bytes b ^ "!" ^ token_of_n e
  | Res.Err e -> show_err e
  | Res.Panic s -> "panic " ^ token_of_n s

let ens_bytes = function Res.Ok (b, _) -> b | _ -> []

let register () =
  Registry.register "c18.wnum" (function
      | [v; tr] ->
        let out = RtmpAmf0.write_number (n_of_token v) in
        Printf.sprintf "%s %s" (token_of_bytes out) (show_decode RtmpAmf0.ENumber (out @ c18_bytes tr))
      | _ -> "bad-args");
  Registry.register "c18.wstr" (function
      | [s; tr] ->
        let out = RtmpAmf0.write_string (c18_bytes s) in
        Printf.sprintf "%s %s" (token_of_bytes out) (show_decode RtmpAmf0.EString (out @ c18_bytes tr))
      | _ -> "bad-args");
  Registry.register "c18.wbool" (function
      | [v; tr] ->
        let out = RtmpAmf0.write_boolean (bool_of_token v) in
        Printf.sprintf "%s %s" (token_of_bytes out) (show_decode RtmpAmf0.EBoolean (out @ c18_bytes tr))
      | _ -> "bad-args");
  Registry.register "c18.wnull" (function
      | [tr] ->
        let out = RtmpAmf0.write_null in
        Printf.sprintf "%s %s" (token_of_bytes out) (show_decode RtmpAmf0.ENull (out @ c18_bytes tr))
      | _ -> "bad-args");
  Registry.register "c18.wobj" (function
      | [ps; tr] ->
        let out = RtmpAmf0.write_object (wpairs_of ps) in
        Printf.sprintf "%s %s" (token_of_bytes out) (show_decode RtmpAmf0.EObject (out @ c18_bytes tr))
      | _ -> "bad-args");
  Registry.register "c18.read" (function
      | ["meta"; b] ->
        (match fst (RtmpMetadata.parse_metadata cfg (c18_bytes b)) with
         | Res.Ok l -> "ok " ^ show_pairs l
         | Res.Err e -> show_err e
         | Res.Panic s -> "panic " ^ token_of_n s)
      | [e; b] -> show_decode (entry_of e) (c18_bytes b)
      | _ -> "bad-args");
  Registry.register "c18.sdf" (function
      | [b] ->
        let b = c18_bytes b in
        let w = RtmpMetadata.metadata_ensure_with_sdf b in
        let wo = RtmpMetadata.metadata_ensure_without_sdf b in
        let wow = RtmpMetadata.metadata_ensure_without_sdf (ens_bytes w) in
        let wwo = RtmpMetadata.metadata_ensure_with_sdf (ens_bytes wo) in
        let ww = RtmpMetadata.metadata_ensure_with_sdf (ens_bytes w) in
        let wowo = RtmpMetadata.metadata_ensure_without_sdf (ens_bytes wo) in
        Printf.sprintf "w=%s wo=%s wow=%s wwo=%s ww=%s wowo=%s" (show_ensure w) (show_ensure wo) (show_ensure wow)
          (show_ensure wwo) (show_ensure ww) (show_ensure wowo)
      | _ -> "bad-args");
  Registry.register "c18.build" (function
      | [w; h; a; v; enc; ver] ->
        let z s = z_of_token s in
        let out = RtmpMetadata.build_metadata (c18_bytes enc) (c18_bytes ver) (z w) (z h) (z a) (z v) in
        let rb = match fst (RtmpMetadata.parse_metadata cfg out) with
          | Res.Ok l -> "ok " ^ show_pairs l
          | Res.Err e -> show_err e
          | Res.Panic s -> "panic " ^ token_of_n s in
        Printf.sprintf "%s %s" (token_of_bytes out) rb
      | _ -> "bad-args")
