(* modelrun: reads one case per line "<op> <arg>...", prints one line per case.
   Lines starting with '#' and empty lines are echoed as "#". *)
let () = Drivers.init ()
let () =
  try
    while true do
      let line = input_line stdin in
      let line = String.trim line in
      if line = "" || line.[0] = '#' then print_endline "#"
      else begin
        let toks = Stdlib.List.filter (fun s -> s <> "") (String.split_on_char ' ' line) in
        match toks with
        | [] -> print_endline "#"
        | op :: args ->
          let out =
            match Hashtbl.find_opt Registry.ops op with
            | None -> "unknown-op " ^ op
            | Some f ->
              (try f args with
               | Stack_overflow -> "model-stack-overflow"
               | Failure m -> "model-failure " ^ (String.map (fun c -> if c = ' ' || c = '\n' then '_' else c) m)
               | Not_found -> "model-failure not_found"
               | Invalid_argument m -> "model-failure invalid_arg_" ^ (String.map (fun c -> if c = ' ' then '_' else c) m))
          in
          print_endline out
      end
    done
  with End_of_file -> ()
