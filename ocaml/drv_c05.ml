(* C05 driver: the fan-out of a published payload (checked helpers, dummy audio
   filter, mpegts / rtsp remuxers, Group.broadcastByRtmpMsg).  The model runs
   with MediaMsgChecked.fixes_all (the tree after the fix commits). *)
open Conv

let fx = MediaMsgChecked.fixes_all

(* panic site -> the name the Go side prints *)
let site_name (s : BinNums.coq_N) : string =
  match int_of_n s with
  | 1 -> "nazabits.(*BitReader).ReadBits32:index"
  | 2 -> "hevc.parseVpsSpsPpsFromRecord:index"
  | 3 -> "hevc.parseVpsSpsPpsAnnexbFromRecord:index"
  | 101 -> "base.RtmpMsg.IsAvcKeySeqHeader:index"
  | 102 -> "base.RtmpMsg.IsHevcKeySeqHeader:index"
  | 103 -> "base.RtmpMsg.IsEnhanced:index"
  | 104 -> "base.RtmpMsg.IsAvcKeyNalu:index"
  | 105 -> "base.RtmpMsg.IsHevcKeyNalu:index"
  | 106 -> "base.RtmpMsg.IsEnchanedHevcNalu:index"
  | 107 -> "base.RtmpMsg.GetEnchanedHevcNaluIndex:index"
  | 108 -> "base.RtmpMsg.IsAacSeqHeader:index"
  | 109 -> "base.RtmpMsg.VideoCodecId:index"
  | 110 -> "base.RtmpMsg.AudioCodecId:index"
  | 111 -> "base.RtmpMsg.Cts:slice"
  | 112 -> "base.RtmpMsg.Cts:index"
  | 113 -> "bele.BeUint24:index"
  | 114 -> "base.RtmpMsg.Pts:slice"
  | 115 -> "remux.(*Rtmp2MpegtsRemuxer).feedVideo:slice"
  | 116 -> "remux.(*Rtmp2RtspRemuxer).remux:slice"
  | 117 -> "remux.(*rtmp2MpegtsFilter).Push:index"
  | 118 -> "remux.(*Rtmp2MpegtsRemuxer).feedAudio:index"
  | 119 -> "remux.(*Rtmp2RtspRemuxer).remux:slice"
  | 120 -> "rtprtcp.IsAvcBoundary:index"
  | 121 -> "rtprtcp.IsHevcBoundary:index"
  | 122 -> "remux.(*Rtmp2RtspRemuxer).FeedRtmpMsg:explicit"
  | n -> Printf.sprintf "site%d:?" n

let panic_tok s = "panic@" ^ site_name s
let err_tok e = "err" ^ token_of_n e

let split_on c s = if s = "" then [] else String.split_on_char c s

let msg_of_fields = function
  | [_; t; ts; b] -> { MediaMsgChecked.mm_type = n_of_token t; mm_ts = n_of_token ts; mm_pay = bytes_of_token b }
  | _ -> failwith "bad P event"

let events (tok : string) : string list list =
  Stdlib.List.filter (fun f -> f <> [""] && f <> [])
    (Stdlib.List.map (fun e -> String.split_on_char ':' e) (split_on ';' tok))

let bool_tok b = if b then "1" else "0"

(* ---- c05.cls ---- *)
let show_rb = function
  | Res.Ok b -> bool_tok b
  | Res.Err e -> err_tok e
  | Res.Panic s -> panic_tok s
let show_rn = function
  | Res.Ok n -> token_of_n n
  | Res.Err e -> err_tok e
  | Res.Panic s -> panic_tok s
let show_rnat = function
  | Res.Ok n -> token_of_nat n
  | Res.Err e -> err_tok e
  | Res.Panic s -> panic_tok s

let cls fx typ pay =
  let m = { MediaMsgChecked.mm_type = n_of_token typ; mm_ts = BinNums.N0; mm_pay = bytes_of_token pay } in
  let open MediaMsgChecked in
  let parts = [
    "avcsh=" ^ show_rb (is_avc_key_seq_header fx m);
    "hevcsh=" ^ show_rb (is_hevc_key_seq_header fx m);
    "enh=" ^ show_rb (is_enhanced m);
    "vsh=" ^ show_rb (is_video_key_seq_header fx m);
    "avckn=" ^ show_rb (is_avc_key_nalu fx m);
    "hevckn=" ^ show_rb (is_hevc_key_nalu fx m);
    "enhn=" ^ show_rb (is_enhanced_hevc_nalu m);
    "enhi=" ^ show_rnat (enhanced_hevc_nalu_index m);
    "vkn=" ^ show_rb (is_video_key_nalu fx m);
    "aacsh=" ^ show_rb (is_aac_seq_header fx m);
    "vcid=" ^ show_rn (video_codec_id fx m);
    "acid=" ^ show_rn (audio_codec_id m);
    "cts=" ^ show_rn (cts m);
    "pts=" ^ show_rn (pts m) ] in
  String.concat "|" (Stdlib.List.sort compare parts)

(* ---- c05.dummy ---- *)
let hex_n n = let s = token_of_n n in String.sub s 2 (String.length s - 2)
let hex_int i = Printf.sprintf "%x" i

let dummy wait max_out evtok =
  let wait = n_of_token wait and max_out = int_of_string max_out in
  let rec go st evs acc =
    match evs with
    | [] -> Stdlib.List.rev acc
    | f :: rest ->
      if Stdlib.List.hd f <> "P" then Stdlib.List.rev (("bad-event " ^ String.concat ":" f) :: acc) else
      (match MediaDummyAudio.dummy_feed fx wait st (msg_of_fields f) with
       | Res.Panic s -> Stdlib.List.rev (panic_tok s :: acc)
       | Res.Err e -> Stdlib.List.rev (err_tok e :: acc)
       | Res.Ok (outs, st') ->
         let n = Stdlib.List.length outs in
         let shown = Stdlib.List.filteri (fun i _ -> i < max_out) outs in
         let strs = Stdlib.List.map (fun (m : MediaMsgChecked.mmsg) ->
             Printf.sprintf "%s.%s.%s" (hex_n m.MediaMsgChecked.mm_type) (hex_n m.MediaMsgChecked.mm_ts)
               (hex_int (Stdlib.List.length m.MediaMsgChecked.mm_pay))) shown in
         let s = if strs = [] then "-" else String.concat "+" strs in
         let s = if n > max_out then s ^ "..." ^ hex_int n else s in
         go st' rest (s :: acc))
  in
  match go MediaDummyAudio.dummy_init (events evtok) [] with
  | [] -> "-"
  | l -> String.concat "," l

(* ---- c05.ts ---- *)
let show_ts_ev = function
  | MediaTsRemux.EvPatPmt -> "H"
  | MediaTsRemux.EvFrame (video, dts, pts, key, boundary, rawlen) ->
    Printf.sprintf "%s/%s/%s/%s/%s/%s" (if video then "v" else "a") (hex_n dts) (hex_n pts)
      (bool_tok key) (bool_tok boundary) (hex_n rawlen)
let show_ts_evs l = if l = [] then "-" else String.concat "+" (Stdlib.List.map show_ts_ev l)

let ts evtok =
  let rec go st evs acc =
    match evs with
    | [] ->
      let (_, ev) = MediaTsRemux.ts_dispose st in
      Stdlib.List.rev (("D=" ^ show_ts_evs ev) :: acc)
    | f :: rest ->
      if Stdlib.List.hd f <> "P" then Stdlib.List.rev (("bad-event " ^ String.concat ":" f) :: acc) else
      (match MediaCodecGlue.m_ts_feed fx st (msg_of_fields f) with
       | Res.Panic s -> Stdlib.List.rev (panic_tok s :: acc)
       | Res.Err e -> Stdlib.List.rev (err_tok e :: acc)
       | Res.Ok (st', ev) -> go st' rest (show_ts_evs ev :: acc))
  in String.concat "," (go MediaTsRemux.ts_init (events evtok) [])

(* ---- c05.rtsp ---- *)
let rtsp flag evtok =
  let add = bool_of_token flag in
  let rec go st evs acc =
    match evs with
    | [] -> Stdlib.List.rev acc
    | f :: rest ->
      if Stdlib.List.hd f <> "P" then Stdlib.List.rev (("bad-event " ^ String.concat ":" f) :: acc) else
      (match MediaCodecGlue.m_rtsp_feed fx add st (msg_of_fields f) with
       | Res.Panic s -> Stdlib.List.rev (panic_tok s :: acc)
       | Res.Err e -> Stdlib.List.rev (err_tok e :: acc)
       | Res.Ok (st', ev) ->
         let sdp = Stdlib.List.exists (function MediaRtspRemux.RevSdp (_, _) -> true | _ -> false) ev in
         let n = Stdlib.List.fold_left (fun a e -> match e with MediaRtspRemux.RevRtp l -> a + Stdlib.List.length l | _ -> a) 0 ev in
         go st' rest (((if sdp then "S/" else "") ^ hex_int n) :: acc))
  in
  match go MediaRtspRemux.rtsp_init (events evtok) [] with
  | [] -> "-"
  | l -> String.concat "," l

(* ---- c05.bcast ---- *)
let parse_kv s =
  Stdlib.List.filter_map (fun kv ->
      match String.index_opt kv '=' with
      | Some i -> Some (String.sub kv 0 i, int_of_string (String.sub kv (i + 1) (String.length kv - i - 1)))
      | None -> None) (split_on ',' s)

let bcast fx cfgtok evtok =
  let kv = parse_kv cfgtok in
  let get k = try Stdlib.List.assoc k kv with Not_found -> 0 in
  let on k = get k <> 0 in
  (* the GOP caches exist whatever the enable flags; Feed is only called when the protocol is enabled *)
  let cfg = { MediaBroadcast.gc_rtmp = on "re"; gc_rtmp_gop = get "rg" > 0; gc_flv = on "fe"; gc_flv_gop = get "fg" > 0;
              gc_ts = on "te" || on "he" || on "rm"; gc_rtsp = on "se";
              gc_dummy = (if on "da" then Some (n_of_int (get "dw")) else None); gc_add = on "ak";
              gc_rtsp_wait = on "wk" } in
  let evs = Stdlib.List.map (fun f ->
      match Stdlib.List.hd f with
      | "P" -> MediaBroadcast.GPub (msg_of_fields f)
      | "Jr" -> MediaBroadcast.GJoinRtmp
      | "Jf" | "Jw" -> MediaBroadcast.GJoinFlv
      | "Js" -> MediaBroadcast.GJoinRtsp
      | "Jt" -> MediaBroadcast.GJoinOther
      | _ -> failwith "bad event") (events evtok) in
  let (oks, p) = MediaCodecGlue.m_grun fx cfg evs in
  let oks = int_of_n oks in
  let toks = Stdlib.List.init oks (fun _ -> "ok") in
  let toks = match p with
    | None -> toks
    | Some s -> let s = int_of_n s in
      toks @ [if s >= 1000 then Printf.sprintf "err0x%x" (s - 1000) else panic_tok (n_of_int s)] in
  let base = if toks = [] then "-" else String.concat "," toks in
  match p, MediaCodecGlue.m_gfinal fx cfg evs with
  | None, Some g ->
    let rs = Stdlib.List.map (fun (r : MediaBroadcast.rsub) ->
        bool_tok r.MediaBroadcast.rb_play ^ bool_tok r.MediaBroadcast.rb_wait) g.MediaBroadcast.g_rsubs in
    Printf.sprintf "%s s=%s/%s/%s/%s r=%s" base (bool_tok g.MediaBroadcast.g_acodec) (bool_tok g.MediaBroadcast.g_vcodec)
      (hex_n g.MediaBroadcast.g_w) (hex_n g.MediaBroadcast.g_h) (if rs = [] then "-" else String.concat "." rs)
  | _ -> base

let register () =
  Registry.register "c05.cls" (function [t; p] -> cls fx t p | _ -> "bad-args");
  (* the same two ops on the model of the pinned tree: used to replay _refuted witnesses against a lalprobe built from the pinned lal *)
  Registry.register "c05.cls0" (function [t; p] -> cls MediaMsgChecked.fixes_pinned t p | _ -> "bad-args");
  Registry.register "c05.bcast0" (function [c; e] -> bcast MediaMsgChecked.fixes_pinned c e | _ -> "bad-args");
  Registry.register "c05.dummy" (function [w; m; e] -> dummy w m e | _ -> "bad-args");
  Registry.register "c05.ts" (function [e] -> ts e | _ -> "bad-args");
  Registry.register "c05.rtsp" (function [f; e] -> rtsp f e | _ -> "bad-args");
  Registry.register "c05.bcast" (function [c; e] -> bcast fx c e | _ -> "bad-args")
