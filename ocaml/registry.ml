(* op name -> function from argument tokens to an output line *)
let ops : (string, string list -> string) Hashtbl.t = Hashtbl.create 64
let register (name : string) (f : string list -> string) = Hashtbl.replace ops name f
