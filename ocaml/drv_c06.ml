(* C06 driver: Rtmp2MpegtsRemuxer (c06.ts) and Rtmp2RtspRemuxer (c06.rtsp).
   base64 / hex (external code of sdp.Pack) are computed here and handed to the
   extracted model as functions. *)
open Conv

let b64_chars = "ABCDEFGHIJKLMNOPQRSTUVWXYZabcdefghijklmnopqrstuvwxyz0123456789+/"
let b64_enc (l : BinNums.coq_N list) : BinNums.coq_N list =
  let a = Array.of_list (Stdlib.List.map int_of_n l) in
  let n = Array.length a in
  let b = Buffer.create (4 * (n + 2) / 3) in
  let i = ref 0 in
  while !i + 2 < n do
    let v = (a.(!i) lsl 16) lor (a.(!i + 1) lsl 8) lor a.(!i + 2) in
    Buffer.add_char b b64_chars.[(v lsr 18) land 63]; Buffer.add_char b b64_chars.[(v lsr 12) land 63];
    Buffer.add_char b b64_chars.[(v lsr 6) land 63]; Buffer.add_char b b64_chars.[v land 63];
    i := !i + 3
  done;
  (match n - !i with
   | 1 -> let v = a.(!i) lsl 16 in
     Buffer.add_char b b64_chars.[(v lsr 18) land 63]; Buffer.add_char b b64_chars.[(v lsr 12) land 63];
     Buffer.add_string b "=="
   | 2 -> let v = (a.(!i) lsl 16) lor (a.(!i + 1) lsl 8) in
     Buffer.add_char b b64_chars.[(v lsr 18) land 63]; Buffer.add_char b b64_chars.[(v lsr 12) land 63];
     Buffer.add_char b b64_chars.[(v lsr 6) land 63]; Buffer.add_char b '='
   | _ -> ());
  Stdlib.List.map (fun c -> byte_tab.(Char.code c)) (Stdlib.List.of_seq (String.to_seq (Buffer.contents b)))

let hex_enc (l : BinNums.coq_N list) : BinNums.coq_N list =
  Stdlib.List.concat (Stdlib.List.map (fun x ->
      let s = Printf.sprintf "%02x" (int_of_n x) in
      [byte_tab.(Char.code s.[0]); byte_tab.(Char.code s.[1])]) l)

let tool = Stdlib.List.map (fun c -> byte_tab.(Char.code c)) (Stdlib.List.of_seq (String.to_seq "lal-c06"))

let mk_msg ty ts payload : GroupMsg.rmsg =
  { GroupMsg.rm_type = n_of_token ty; rm_ts = n_of_token ts; rm_payload = bytes_of_token payload }

let summary (l : BinNums.coq_N list) = Printf.sprintf "#%d.%016Lx" (Stdlib.List.length l) (fnv1a64 l)

let show_tsev (e : RemuxRtmp2Ts.tsev) =
  let f = e.RemuxRtmp2Ts.te_frame in
  Printf.sprintf "T:%s:%s:%s:%s:%s:%s:%s:%s:%s:%s:%s"
    (token_of_bool e.RemuxRtmp2Ts.te_nested) (token_of_n f.TsPack.f_pid) (token_of_n f.TsPack.f_sid)
    (token_of_bool f.TsPack.f_key) (token_of_n f.TsPack.f_dts) (token_of_n f.TsPack.f_pts)
    (token_of_n e.RemuxRtmp2Ts.te_cts) (token_of_n e.RemuxRtmp2Ts.te_cc) (token_of_bool e.RemuxRtmp2Ts.te_boundary)
    (summary f.TsPack.f_raw) (hex_of_bytes (Stdlib.List.concat e.RemuxRtmp2Ts.te_packets))

let show_tsout = function
  | RemuxTsFilter.OutPatPmt b -> "P:" ^ hex_of_bytes b
  | RemuxTsFilter.OutTs e -> show_tsev e

let join = function [] -> "-" | l -> String.concat ";" l

let parse_action (s : string) : RemuxTsFilter.action =
  match String.split_on_char ':' s with
  | ["M"; ty; ts; p] -> RemuxTsFilter.AMsg (mk_msg ty ts p)
  | ["F"] -> RemuxTsFilter.AFlush
  | ["D"] -> RemuxTsFilter.ADispose
  | _ -> failwith "bad action"

let opt_n s = if s = "-" then None else Some (n_of_token s)
let opt_z s = if s = "-" then None else Some (z_of_token s)

let parse_rin (s : string) : RemuxRtmp2Rtp.rin =
  match String.split_on_char ':' s with
  | ["M"; ty; ts; p] -> RemuxRtmp2Rtp.RMsg (mk_msg ty ts p)
  | ["I"; ac; rate; _] -> RemuxRtmp2Rtp.RMeta (opt_n ac, opt_z rate)
  | _ -> failwith "bad input"

let show_rout = function
  | RemuxRtmp2Rtp.RSdp None -> "S:-"
  | RemuxRtmp2Rtp.RSdp (Some b) -> "S:" ^ hex_of_bytes b
  | RemuxRtmp2Rtp.RRtp (audio, p) ->
    Printf.sprintf "R:%s:%s:%s:%s:%s:%s" (if audio then "a" else "v")
      (token_of_n p.RtpPacker.rp_pt) (token_of_n p.RtpPacker.rp_mark) (token_of_n p.RtpPacker.rp_seq)
      (token_of_n p.RtpPacker.rp_ts) (hex_of_bytes p.RtpPacker.rp_payload)

let register () =
  Registry.register "c06.ts" (function
      | [script; acts] ->
        let sc = if script = "-" then [] else
            Stdlib.List.map (fun c -> c = '1') (Stdlib.List.of_seq (String.to_seq script)) in
        let acts = if acts = "-" then [] else Stdlib.List.map parse_action (String.split_on_char ';' acts) in
        join (Stdlib.List.map show_tsout (RemuxTsFilter.run_scripted sc acts))
      | _ -> "bad-args");
  let rtsp_op run = (function
      | [ins] ->
        let ins = if ins = "-" then [] else Stdlib.List.map parse_rin (String.split_on_char ';' ins) in
        join (Stdlib.List.map show_rout (run b64_enc hex_enc tool ins))
      | _ -> "bad-args") in
  Registry.register "c06.rtsp" (rtsp_op RemuxRtmp2Rtp.run_rtsp);
  (* the pinned tree (Opus packer at the metadata rate); model side only *)
  Registry.register "c06.rtsp_pinned" (rtsp_op RemuxRtmp2Rtp.run_rtsp_pinned)
