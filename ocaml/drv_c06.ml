(* C06 driver: Rtmp2MpegtsRemuxer (c06.ts) and Rtmp2RtspRemuxer (c06.rtsp).
   base64 / hex (external code of sdp.Pack) are computed here and handed to the
   extracted model as functions. *)
open Conv

let b64_chars = "ABCDEFGHIJKLMNOPQRSTUVWXYZabcdefghijklmnopqrstuvwxyz0123456789+/"
let b64_enc (l : BinNums.coq_N list) : BinNums.coq_N list =
  let a = Array.of_list (Stdlib.List.map int_of_n l) in
  let n = Array.length a in
  let b = Buffer.create (4 * (n + 2) / 3) in
  let i = ref 0 in
  while !i + 2 < n do
    let v = (a.(!i) lsl 16) lor (a.(!i + 1) lsl 8) lor a.(!i + 2) in
    Buffer.add_char b b64_chars.[(v lsr 18) land 63]; Buffer.add_char b b64_chars.[(v lsr 12) land 63];
    Buffer.add_char b b64_chars.[(v lsr 6) land 63]; Buffer.add_char b b64_chars.[v land 63];
    i := !i + 3
  done;
  (match n - !i with
   | 1 -> let v = a.(!i) lsl 16 in
     Buffer.add_char b b64_chars.[(v lsr 18) land 63]; Buffer.add_char b b64_chars.[(v lsr 12) land 63];
     Buffer.add_string b "=="
   | 2 -> let v = (a.(!i) lsl 16) lor (a.(!i + 1) lsl 8) in
     Buffer.add_char b b64_chars.[(v lsr 18) land 63]; Buffer.add_char b b64_chars.[(v lsr 12) land 63];
     Buffer.add_char b b64_chars.[(v lsr 6) land 63]; Buffer.add_char b '='
   | _ -> ());
  Stdlib.List.map (fun c -> byte_tab.(Char.code c)) (Stdlib.List.of_seq (String.to_seq (Buffer.contents b)))

let hex_enc (l : BinNums.coq_N list) : BinNums.coq_N list =
  Stdlib.List.concat (Stdlib.List.map (fun x ->
      let s = Printf.sprintf "%02x" (int_of_n x) in
      [byte_tab.(Char.code s.[0]); byte_tab.(Char.code s.[1])]) l)

let tool = Stdlib.List.map (fun c -> byte_tab.(Char.code c)) (Stdlib.List.of_seq (String.to_seq "lal-c06"))

let mk_msg ty ts payload : GroupMsg.rmsg =
  { GroupMsg.rm_type = n_of_token ty; rm_ts = n_of_token ts; rm_payload = bytes_of_token payload }

let summary (l : BinNums.coq_N list) = Printf.sprintf "#%d.%016Lx" (Stdlib.List.length l) (fnv1a64 l)

let show_tsev (e : RemuxRtmp2Ts.tsev) =
  let f = e.RemuxRtmp2Ts.te_frame in
  Printf.sprintf "T:%s:%s:%s:%s:%s:%s:%s:%s:%s:%s:%s"
    (token_of_bool e.RemuxRtmp2Ts.te_nested) (token_of_n f.TsPack.f_pid) (token_of_n f.TsPack.f_sid)
    (token_of_bool f.TsPack.f_key) (token_of_n f.TsPack.f_dts) (token_of_n f.TsPack.f_pts)
    (token_of_n e.RemuxRtmp2Ts.te_cts) (token_of_n e.RemuxRtmp2Ts.te_cc) (token_of_bool e.RemuxRtmp2Ts.te_boundary)
    (summary f.TsPack.f_raw) (hex_of_bytes (Stdlib.List.concat e.RemuxRtmp2Ts.te_packets))

let show_tsout = function
  | RemuxTsFilter.OutPatPmt b -> "P:" ^ hex_of_bytes b
  | RemuxTsFilter.OutTs e -> show_tsev e

let join = function [] -> "-" | l -> String.concat ";" l

let parse_action (s : string) : RemuxTsFilter.action =
  match String.split_on_char ':' s with
  | ["M"; ty; ts; p] -> RemuxTsFilter.AMsg (mk_msg ty ts p)
  | ["F"] -> RemuxTsFilter.AFlush
  | ["D"] -> RemuxTsFilter.ADispose
  | _ -> failwith "bad action"

let opt_n s = if s = "-" then None else Some (n_of_token s)
let opt_z s = if s = "-" then None else Some (z_of_token s)

let parse_rin (s : string) : RemuxRtmp2Rtp.rin =
  match String.split_on_char ':' s with
  | ["M"; ty; ts; p] -> RemuxRtmp2Rtp.RMsg (mk_msg ty ts p)
  | ["I"; ac; rate; _] -> RemuxRtmp2Rtp.RMeta (opt_n ac, opt_z rate)
  | _ -> failwith "bad input"

let show_rout = function
  | RemuxRtmp2Rtp.RSdp None -> "S:-"
  | RemuxRtmp2Rtp.RSdp (Some b) -> "S:" ^ hex_of_bytes b
  | RemuxRtmp2Rtp.RRtp (audio, p) ->
    Printf.sprintf "R:%s:%s:%s:%s:%s:%s" (if audio then "a" else "v")
      (token_of_n p.RtpPacker.rp_pt) (token_of_n p.RtpPacker.rp_mark) (token_of_n p.RtpPacker.rp_seq)
      (token_of_n p.RtpPacker.rp_ts) (hex_of_bytes p.RtpPacker.rp_payload)

let register () =
  Registry.register "c06.ts" (function
      | [script; acts] ->
        let sc = if script = "-" then [] else
            Stdlib.List.map (fun c -> c = '1') (Stdlib.List.of_seq (String.to_seq script)) in
        let acts = if acts = "-" then [] else Stdlib.List.map parse_action (String.split_on_char ';' acts) in
        join (Stdlib.List.map show_tsout (RemuxTsFilter.run_scripted sc acts))
      | _ -> "bad-args");
  let rtsp_op run = (function
      | [ins] ->
        let ins = if ins = "-" then [] else Stdlib.List.map parse_rin (String.split_on_char ';' ins) in
        join (Stdlib.List.map show_rout (run b64_enc hex_enc tool ins))
      | _ -> "bad-args") in
  Registry.register "c06.rtsp" (rtsp_op RemuxRtmp2Rtp.run_rtsp);
  Registry.register "c06.e2e" (function
      | [cf; evs] ->
        let (frag_ms, hls, rtsp, wk, tsgop) = match String.split_on_char ':' cf with
          | [a; b; c] -> (z_of_token a, b = "1", c = "1", false, 0)
          | [a; b; c; d; e] -> (z_of_token a, b = "1", c = "1", d = "1", int_of_string e)
          | _ -> failwith "bad cfg" in
        let c = { HlsMuxer.c_stream = [byte_tab.(Char.code 's')]; c_ms = frag_ms; c_num = z_of_int 1000;
                  c_thr = z_of_int 1000; c_mode = z_of_int 0 } in
        let items = if evs = "-" then [] else String.split_on_char ';' evs in
        let fev = Stdlib.List.map (fun it ->
            match String.split_on_char ':' it with
            | ["M"; ty; ts; p] -> RemuxFanout.FMsg (mk_msg ty ts p)
            | ["I"; ac; rate; p] -> RemuxFanout.FMeta (opt_n ac, opt_z rate, mk_msg "18" "0" p)
            | ["Jt"; id] -> RemuxFanout.FJoinTs (n_of_token id)
            | ["Jr"; id] -> RemuxFanout.FJoinRtsp (n_of_token id)
            | _ -> failwith "bad event") items in
        (* the remuxers and hls.Muxer produce the history; the fan-out model of C01 / C02 runs on it *)
        let (g, outs) = RemuxFanout.fan_outs b64_enc hex_enc tool c rtsp hls fev in
        let cons = RemuxFanout.fan_consumers (RemuxFanout.fan_cfg (nat_of_int tsgop) wk) outs in
        let cons = Stdlib.List.sort (fun ((a, _), _) ((b, _), _) -> compare (int_of_n a) (int_of_n b)) cons in
        let parts = ref [] in
        Stdlib.List.iter (fun ((id, k), its) ->
            match k with
            | GroupFanout.KTs ->
              let b = Stdlib.List.concat (Stdlib.List.map (function
                  | RemuxFanout.ITs b | RemuxFanout.IPat b -> b | _ -> []) its) in
              parts := !parts @ [Printf.sprintf "ts%d=%s" (int_of_n id) (hex_of_bytes b)]
            | _ -> ()) cons;
        (match g.RemuxGroup.g_hls with
         | None -> ()
         | Some h ->
           (* every call hls.Muxer made on the file system layer, in order (segment writes, play lists, renames) *)
           let ops = h.RemuxGroup.h_ops in
           parts := !parts @ ["hlsops=" ^ (if ops = [] then "none" else String.concat ";" (Stdlib.List.map (Drv_c10.show_op c) ops))]);
        (* RTSP players: the SDP, then the packets with the sequence numbers relative to the first one of
           the track and the SSRC zeroed (both random in lal); players that never got an SDP last *)
        let rtsp_parts = ref [] in
        Stdlib.List.iter (fun ((id, k), its) ->
            match k with
            | GroupFanout.KRtsp ->
              let sdp = ref "-" and pk = ref [] and first = Hashtbl.create 2 in
              Stdlib.List.iter (function
                  | RemuxFanout.ISdp b -> sdp := hex_of_bytes b
                  | RemuxFanout.IRtp (audio, raw) ->
                    let a = Array.of_list (Stdlib.List.map int_of_n raw) in
                    let seq = (a.(2) lsl 8) lor a.(3) in
                    let f = match Hashtbl.find_opt first audio with
                      | Some f -> f | None -> Hashtbl.replace first audio seq; seq in
                    let rel = (seq - f) land 0xffff in
                    a.(2) <- rel lsr 8; a.(3) <- rel land 255;
                    a.(8) <- 0; a.(9) <- 0; a.(10) <- 0; a.(11) <- 0;
                    pk := !pk @ [Printf.sprintf "%d.%s" (if audio then 2 else 0)
                                   (hex_of_bytes (Stdlib.List.map (fun x -> byte_tab.(x)) (Array.to_list a)))]
                  | _ -> ()) its;
              rtsp_parts := !rtsp_parts @ [(int_of_n id, !sdp, !pk)]
            | _ -> ()) cons;
        (* players still waiting for an SDP when the publisher left are no consumers of the group *)
        Stdlib.List.iter (fun it ->
            match String.split_on_char ':' it with
            | ["Jr"; id] ->
              let id = int_of_token id in
              if not (Stdlib.List.exists (fun (i, _, _) -> i = id) !rtsp_parts) then rtsp_parts := !rtsp_parts @ [(id, "-", [])]
            | _ -> ()) items;
        Stdlib.List.iter (fun (id, sdp, pk) ->
              parts := !parts @ [Printf.sprintf "sdp%d=%s" id sdp;
                                 Printf.sprintf "rtp%d=%s" id (if pk = [] then "none" else String.concat "," pk)])
          (Stdlib.List.sort (fun (a, _, _) (b, _, _) -> compare a b) !rtsp_parts);
        if !parts = [] then "-" else String.concat "|" !parts
      | _ -> "bad-args");
  (* the pinned tree (Opus packer at the metadata rate); model side only *)
  Registry.register "c06.rtsp_pinned" (rtsp_op RemuxRtmp2Rtp.run_rtsp_pinned)
