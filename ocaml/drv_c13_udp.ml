(* C13 driver, part B: rtsp.BaseInSession with per-track transport state (Net/NetInSessSetup.v).
   c13.udpsess <acodec> <aclock> <apt> <vcodec> <vclock> <vpt> <ev,ev,...>  (see harness/cmd/lalprobe/c13_udp.go) *)
open Conv

let track_of c = if c = 'a' then NetInSessSetup.TA else NetInSessSetup.TV
let track_name = function NetInSessSetup.TA -> "a" | NetInSessSetup.TV -> "v"

let sev_of (it : string) : NetInSessSetup.sev =
  match String.index_opt it ':' with
  | None -> failwith "bad event"
  | Some i ->
    let head = String.sub it 0 i and arg = String.sub it (i + 1) (String.length it - i - 1) in
    if String.length head < 2 then failwith "bad event";
    if head = "sa" || head = "sv" then begin
      let t = track_of head.[1] in
      if arg = "u" then NetInSessSetup.SvSetupConn t
      else Scanf.sscanf arg "t%d.%d" (fun r c -> NetInSessSetup.SvSetupChan (t, n_of_int r, n_of_int c))
    end
    else if head.[0] = 'i' then
      NetInSessSetup.SvIlv (n_of_int (int_of_string (String.sub head 1 (String.length head - 1))), bytes_of_token arg)
    else begin
      let t = track_of head.[0] in
      if head.[1] = 'r' then NetInSessSetup.SvUdpRtp (t, bytes_of_token arg) else NetInSessSetup.SvUdpRtcp (t, bytes_of_token arg)
    end

let show_uev (e : NetInSessSetup.uev) : string =
  match e with
  | NetInSessSetup.UEv e -> Drv_c13.show_ev e
  | NetInSessSetup.URrUdp (t, b) -> Printf.sprintf "rru:%s:%s" (track_name t) (token_of_bytes b)
  | NetInSessSetup.UNoSock -> "nosock"
  | NetInSessSetup.UErrSetup -> "errsetup"
  | NetInSessSetup.USep -> "|"

let panic s = if int_of_n s = 24 then "panic@nazanet.(*UdpConnection).Write2Addr:nil" else Drv_c13.panic s

let register () =
  Registry.register "c13.udpsess" (function
      | [ac; aclk; apt; vc; vclk; vpt; evs] ->
        (match Drv_c13.z_of_dec aclk, Drv_c13.z_of_dec apt, Drv_c13.z_of_dec vclk, Drv_c13.z_of_dec vpt with
         | Some aclk, Some apt, Some vclk, Some vpt ->
           let l = if evs = "-" then [] else Stdlib.List.map sev_of (String.split_on_char ',' evs) in
           let ac' = if ac = "none" then 0 else Drv_c13.codec_of ac and vc' = if vc = "none" then 0 else Drv_c13.codec_of vc in
           (match NetInSessSetup.run_udpsess Drv_c13.fx (n_of_int ac') aclk apt (n_of_int vc') vclk vpt l with
            | Res.Ok out -> "ok " ^ (if out = [] then "-" else String.concat ";" (Stdlib.List.map show_uev out))
            | Res.Err _ -> "err"
            | Res.Panic s -> panic s)
         | _ -> "errsdp")
      | _ -> "bad-args");
  Registry.register "c13x.udpsess" (fun _ -> "alive");
  Registry.register "c13x.pulludp" (fun _ -> "alive")
