(* C09 driver: MPEG-TS packetisation (Frame.Pack), PAT/PMT, CRC-32 *)
open Conv

let mk_frame pid sid key pts dts cc raw : TsPack.frame =
  { TsPack.f_pts = n_of_token pts; f_dts = n_of_token dts; f_cc = n_of_token cc;
    f_pid = n_of_token pid; f_sid = n_of_token sid; f_key = bool_of_token key;
    f_raw = bytes_of_token raw }

let show_pack (pk, cc) =
  Printf.sprintf "%s %s" (token_of_n cc) (token_of_bytes (Stdlib.List.concat pk))

let register () =
  Registry.register "c09.pack" (function
      | [pid; sid; key; pts; dts; cc; raw] -> show_pack (TsPack.pack (mk_frame pid sid key pts dts cc raw))
      | _ -> "bad-args");
  (* the arithmetic of the pinned tree (before the two fix: commits); model side only *)
  Registry.register "c09.pack_pinned" (function
      | [pid; sid; key; pts; dts; cc; raw] -> show_pack (TsPack.pack_pinned (mk_frame pid sid key pts dts cc raw))
      | _ -> "bad-args");
  let seq_op packer = (function
      | [pid; sid; cc; frames] ->
        let fs =
          if frames = "-" then [] else
            Stdlib.List.map (fun item ->
                match String.split_on_char ':' item with
                | [key; pts; dts; raw] -> mk_frame pid sid key pts dts "0" raw
                | _ -> failwith "bad frame item") (String.split_on_char ',' frames) in
        let (pks, cc') = packer (n_of_token cc) fs in
        Printf.sprintf "%s %s %s" (token_of_n cc')
          (if pks = [] then "-" else String.concat "," (Stdlib.List.map (fun pk -> token_of_int (Stdlib.List.length pk)) pks))
          (token_of_bytes (Stdlib.List.concat (Stdlib.List.concat pks)))
      | _ -> "bad-args") in
  Registry.register "c09.seq" (seq_op TsPack.pack_seq);
  Registry.register "c09.seq_pinned" (seq_op TsPack.pack_seq_pinned);
  Registry.register "c09.pat" (function
      | [] -> token_of_bytes TsPsi.pack_pat
      | _ -> "bad-args");
  Registry.register "c09.pmt" (function
      | [v; a] -> token_of_bytes (TsPsi.pack_pmt (z_of_token v) (z_of_token a))
      | _ -> "bad-args");
  Registry.register "c09.crc" (function
      | [init; b] -> token_of_n (TsPsi.calc_crc32 (n_of_token init) (bytes_of_token b))
      | _ -> "bad-args")
