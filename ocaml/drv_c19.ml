(* C19 driver, part A/D: sequence headers and SPS/VPS parsing *)
open Conv

let err_name (e : BinNums.coq_N) =
  match int_of_n e with
  | 2 -> "short" | 3 -> "avc" | 4 -> "bits" | 5 -> "hevc" | 6 -> "sdp" | 255 -> "fuel"
  | k -> "e" ^ string_of_int k

(* print a res value; panics are printed as the single token "panic" (the Go
   side post-processes panic@site:kind to the same token) *)
let show_res (f : 'a -> string) (r : 'a Res.res) : string =
  match r with
  | Res.Ok a -> "ok " ^ f a
  | Res.Err e -> "err " ^ err_name e
  | Res.Panic _ -> "panic"

let show_fields (l : BinNums.coq_N list) = String.concat "," (Stdlib.List.map token_of_n l)

let show_avc_ctx (c : CodecSpsAvc.avc_ctx) =
  Printf.sprintf "%s %s %s %s %s"
    (token_of_n c.CodecSpsAvc.ac_profile) (token_of_n c.CodecSpsAvc.ac_level)
    (token_of_n c.CodecSpsAvc.ac_width) (token_of_n c.CodecSpsAvc.ac_height)
    (show_fields (CodecSpsAvc.avc_sps_fields c))

let register () =
  Registry.register "c19.avc_sps" (function
      | [b] -> show_res show_avc_ctx (CodecSpsAvc.parse_sps_avc (bytes_of_token b))
      | _ -> "bad-args");
  (* build, then lal's parser, then the Annex-B conversion, on the built header *)
  Registry.register "c19.avc_rt" (function
      | [s; p] ->
        let sps = bytes_of_token s and pps = bytes_of_token p in
        (match CodecAvcSeqHeader.avc_build_seq_header sps pps with
         | Res.Ok h ->
           Printf.sprintf "ok %s | %s | %s | %s" (token_of_bytes h)
             (show_res (fun (a, b) -> token_of_bytes a ^ " " ^ token_of_bytes b) (CodecAvcSeqHeader.avc_parse_seq_header h))
             (show_res token_of_bytes (CodecAvcSeqHeader.avc_seq_header2annexb h))
             (token_of_bytes (CodecAvcSeqHeader.avc_build_sps_pps2annexb sps pps))
         | r -> show_res token_of_bytes r)
      | _ -> "bad-args");
  Registry.register "c19.avc_parse" (function
      | [b] -> show_res (fun (a, b) -> token_of_bytes a ^ " " ^ token_of_bytes b)
                 (CodecAvcSeqHeader.avc_parse_seq_header (bytes_of_token b))
      | _ -> "bad-args");
  Registry.register "c19.avc_2annexb" (function
      | [b] -> show_res token_of_bytes (CodecAvcSeqHeader.avc_seq_header2annexb (bytes_of_token b))
      | _ -> "bad-args");
  Registry.register "c19.hevc_vps" (function
      | [b] -> show_res (fun c -> show_fields (CodecSpsHevc.hevc_ctx_fields c))
                 (CodecSpsHevc.hevc_parse_vps (bytes_of_token b) [])
      | _ -> "bad-args");
  Registry.register "c19.hevc_sps" (function
      | [b] -> show_res (fun c -> show_fields (CodecSpsHevc.hevc_ctx_fields c))
                 (CodecSpsHevc.hevc_parse_sps (bytes_of_token b) [])
      | _ -> "bad-args");
  let show3 ((v, s), p) = token_of_bytes v ^ " " ^ token_of_bytes s ^ " " ^ token_of_bytes p in
  Registry.register "c19.hevc_rt" (function
      | [v; s; p] ->
        let vps = bytes_of_token v and sps = bytes_of_token s and pps = bytes_of_token p in
        (match CodecHevcSeqHeader.hevc_build_seq_header vps sps pps with
         | Res.Ok h ->
           Printf.sprintf "ok %s | %s | %s" (token_of_bytes h)
             (show_res show3 (CodecHevcSeqHeader.hevc_parse_seq_header h))
             (show_res token_of_bytes (CodecHevcSeqHeader.hevc_seq_header2annexb h))
         | r -> show_res token_of_bytes r)
      | _ -> "bad-args");
  Registry.register "c19.hevc_parse" (function
      | [b] -> show_res show3 (CodecHevcSeqHeader.hevc_parse_seq_header (bytes_of_token b))
      | _ -> "bad-args");
  Registry.register "c19.hevc_parse_enh" (function
      | [b] -> show_res show3 (CodecHevcSeqHeader.hevc_parse_enhanced_seq_header (bytes_of_token b))
      | _ -> "bad-args");
  Registry.register "c19.hevc_2annexb" (function
      | [b] -> show_res token_of_bytes (CodecHevcSeqHeader.hevc_seq_header2annexb (bytes_of_token b))
      | _ -> "bad-args")
