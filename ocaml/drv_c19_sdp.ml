(* C19 driver, part E: SDP pack / parse.  base64 and hex are not part of the
   model: the case line carries a table  kind:text:ok:decoded  (computed by the
   python generator) from which the codec functions handed to the extracted
   model are built. *)
open Conv

exception Table_miss of string

type entry = { kind : string; text : BinNums.coq_N list; ok : bool; dec : BinNums.coq_N list }

let parse_table (s : string) : entry list =
  if s = "-" || s = "" then []
  else
    Stdlib.List.map (fun e ->
        match String.split_on_char ':' e with
        | [k; t; o; d] -> { kind = k; text = bytes_of_token t; ok = (o = "1"); dec = bytes_of_token d }
        | _ -> failwith "bad table entry") (String.split_on_char ',' s)

let dec_of (tab : entry list) (k : string) (text : BinNums.coq_N list) =
  match Stdlib.List.find_opt (fun e -> e.kind = k && e.text = text) tab with
  | Some e -> (e.dec, e.ok)
  | None -> raise (Table_miss (k ^ ":" ^ hex_of_bytes text))
let enc_of (tab : entry list) (k : string) (raw : BinNums.coq_N list) =
  match Stdlib.List.find_opt (fun e -> e.kind = k && e.ok && e.dec = raw) tab with
  | Some e -> e.text
  | None -> raise (Table_miss (k ^ "<-" ^ hex_of_bytes raw))

let err_name (e : BinNums.coq_N) =
  match int_of_n e with 6 -> "sdp" | 7 -> "other" | k -> "e" ^ string_of_int k
let show_res f = function
  | Res.Ok a -> "ok " ^ f a
  | Res.Err e -> "err " ^ err_name e
  | Res.Panic _ -> "panic"

let opt_bytes_of_token s = if s = "nil" then None else Some (bytes_of_token s)
let show_opt = function None -> "nil" | Some b -> token_of_bytes b

let show_track (t : CodecSdp.track) =
  Printf.sprintf "%s,%s,%s,%s,%s,%s" (token_of_bool t.CodecSdp.tk_has) (token_of_z t.CodecSdp.tk_rate)
    (token_of_z t.CodecSdp.tk_base) (token_of_z t.CodecSdp.tk_orig) (token_of_bytes t.CodecSdp.tk_ctl)
    (token_of_bytes (CodecSdp.make_setup_uri [n_of_int 88] t.CodecSdp.tk_ctl))

let show_ctx (c : CodecSdp.logic_ctx) =
  Printf.sprintf "raw=%s a=%s v=%s asc=%s vps=%s sps=%s pps=%s" (token_of_bytes c.CodecSdp.lc_raw)
    (show_track c.CodecSdp.lc_audio) (show_track c.CodecSdp.lc_video)
    (show_opt c.CodecSdp.lc_asc) (show_opt c.CodecSdp.lc_vps) (show_opt c.CodecSdp.lc_sps) (show_opt c.CodecSdp.lc_pps)

let show_fmtp = function
  | None -> "nil"
  | Some (f : CodecSdp.fmtp) ->
    let kv = Stdlib.List.map (fun (k, v) -> (hex_of_bytes k, hex_of_bytes v)) f.CodecSdp.fp_params in
    let kv = Stdlib.List.sort (fun (a, _) (b, _) -> compare a b) kv in
    Printf.sprintf "%s{%s}" (token_of_z f.CodecSdp.fp_format)
      (String.concat "&" (Stdlib.List.map (fun (k, v) -> k ^ "=" ^ v) kv))

let show_md (d : CodecSdp.media_desc) =
  let m = d.CodecSdp.md_m and r = d.CodecSdp.md_rtpmap in
  Printf.sprintf "%s/%s/%s/%s/%s/%s/%s/%s" (hex_of_bytes m.CodecSdp.m_media) (token_of_z m.CodecSdp.m_pt)
    (token_of_z r.CodecSdp.rm_pt) (hex_of_bytes r.CodecSdp.rm_name) (token_of_z r.CodecSdp.rm_rate)
    (hex_of_bytes r.CodecSdp.rm_params) (show_fmtp d.CodecSdp.md_fmtp) (hex_of_bytes d.CodecSdp.md_control)

let guard f = try f () with Table_miss s -> "table-miss " ^ s

let register () =
  Registry.register "c19.sdp_consts" (function
      | [] ->
        Printf.sprintf "pt %s names %s"
          (String.concat "," (Stdlib.List.map token_of_z
             [CodecSdp.pt_unknown; CodecSdp.pt_g711u; CodecSdp.pt_g711a; CodecSdp.pt_mp2;
              CodecSdp.pt_avc; CodecSdp.pt_hevc; CodecSdp.pt_aac; CodecSdp.pt_opus]))
          (String.concat "," (Stdlib.List.map hex_of_bytes
             [CodecSdp.k_h265; CodecSdp.k_h264; CodecSdp.k_aac; CodecSdp.k_pcma; CodecSdp.k_pcmu; CodecSdp.k_opus]))
      | _ -> "bad-args");
  Registry.register "c19.sdp_atoi" (function
      | [s] -> let (v, e) = CodecSdpText.atoi (bytes_of_token s) in
        Printf.sprintf "%s %s" (token_of_z v) (token_of_n e)
      | _ -> "bad-args");
  Registry.register "c19.sdp_fmtd" (function
      | [z] -> token_of_bytes (CodecSdpText.fmt_d (z_of_token z))
      | _ -> "bad-args");
  Registry.register "c19.sdp_pack" (function
      | [tool; vpt; vps; sps; pps; apt; rate; asc; tab] ->
        guard (fun () ->
            let tab = parse_table tab in
            let v = { CodecSdp.vi_pt = z_of_token vpt; vi_vps = opt_bytes_of_token vps;
                      vi_sps = opt_bytes_of_token sps; vi_pps = opt_bytes_of_token pps } in
            let a = { CodecSdp.ai_pt = z_of_token apt; ai_rate = z_of_token rate; ai_asc = opt_bytes_of_token asc } in
            show_res show_ctx
              (CodecSdp.sdp_pack (dec_of tab "b") (dec_of tab "h") (enc_of tab "b") (enc_of tab "h")
                 (bytes_of_token tool) v a))
      | _ -> "bad-args");
  Registry.register "c19.sdp_parse" (function
      | [raw; tab] ->
        guard (fun () ->
            let tab = parse_table tab in
            let b = bytes_of_token raw in
            match CodecSdp.parse_sdp_raw b with
            | Res.Ok mds ->
              Printf.sprintf "ok %d %s | %s" (Stdlib.List.length mds)
                (String.concat " " (Stdlib.List.map show_md mds))
                (show_res show_ctx (CodecSdp.parse_sdp_logic (dec_of tab "b") (dec_of tab "h") b))
            | r -> show_res (fun _ -> "") r)
      | _ -> "bad-args")
