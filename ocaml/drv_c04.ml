(* C04 driver: the RTMP server session model on arbitrary bytes.
   HMAC-SHA256 (a Section variable of the model) is instantiated here with a
   plain OCaml implementation (FIPS 180-4 / RFC 2104). *)
open Conv

(* C04_MODEL=pinned runs the model of the tree before the C04 repairs,
   C04_MODEL=premem the repaired tree with the composer's old memory rule *)
let model_env = (try Sys.getenv "C04_MODEL" with Not_found -> "")
let variant = if model_env = "pinned" then RtmpSession.sv_pinned
  else if model_env = "premem" then RtmpSession.sv_premem else RtmpSession.sv_fixed

(* ---- SHA-256 ---------------------------------------------------------- *)
let k256 = [|
  0x428a2f98; 0x71374491; 0xb5c0fbcf; 0xe9b5dba5; 0x3956c25b; 0x59f111f1; 0x923f82a4; 0xab1c5ed5;
  0xd807aa98; 0x12835b01; 0x243185be; 0x550c7dc3; 0x72be5d74; 0x80deb1fe; 0x9bdc06a7; 0xc19bf174;
  0xe49b69c1; 0xefbe4786; 0x0fc19dc6; 0x240ca1cc; 0x2de92c6f; 0x4a7484aa; 0x5cb0a9dc; 0x76f988da;
  0x983e5152; 0xa831c66d; 0xb00327c8; 0xbf597fc7; 0xc6e00bf3; 0xd5a79147; 0x06ca6351; 0x14292967;
  0x27b70a85; 0x2e1b2138; 0x4d2c6dfc; 0x53380d13; 0x650a7354; 0x766a0abb; 0x81c2c92e; 0x92722c85;
  0xa2bfe8a1; 0xa81a664b; 0xc24b8b70; 0xc76c51a3; 0xd192e819; 0xd6990624; 0xf40e3585; 0x106aa070;
  0x19a4c116; 0x1e376c08; 0x2748774c; 0x34b0bcb5; 0x391c0cb3; 0x4ed8aa4a; 0x5b9cca4f; 0x682e6ff3;
  0x748f82ee; 0x78a5636f; 0x84c87814; 0x8cc70208; 0x90befffa; 0xa4506ceb; 0xbef9a3f7; 0xc67178f2 |]

let m32 = 0xFFFFFFFF
let rotr x n = ((x lsr n) lor (x lsl (32 - n))) land m32

let sha256 (msg : string) : string =
  let len = String.length msg in
  let padlen = let r = (len + 9) mod 64 in if r = 0 then 0 else 64 - r in
  let total = len + 9 + padlen in
  let b = Bytes.make total '\000' in
  Bytes.blit_string msg 0 b 0 len;
  Bytes.set b len '\x80';
  let bits = len * 8 in
  for i = 0 to 7 do
    Bytes.set b (total - 1 - i) (Char.chr ((bits lsr (8 * i)) land 0xff))
  done;
  let h = [| 0x6a09e667; 0xbb67ae85; 0x3c6ef372; 0xa54ff53a; 0x510e527f; 0x9b05688c; 0x1f83d9ab; 0x5be0cd19 |] in
  let w = Array.make 64 0 in
  for blk = 0 to total / 64 - 1 do
    for t = 0 to 15 do
      let o = blk * 64 + t * 4 in
      w.(t) <- (Char.code (Bytes.get b o) lsl 24) lor (Char.code (Bytes.get b (o + 1)) lsl 16)
               lor (Char.code (Bytes.get b (o + 2)) lsl 8) lor Char.code (Bytes.get b (o + 3))
    done;
    for t = 16 to 63 do
      let s0 = rotr w.(t - 15) 7 lxor rotr w.(t - 15) 18 lxor (w.(t - 15) lsr 3) in
      let s1 = rotr w.(t - 2) 17 lxor rotr w.(t - 2) 19 lxor (w.(t - 2) lsr 10) in
      w.(t) <- (w.(t - 16) + s0 + w.(t - 7) + s1) land m32
    done;
    let a = ref h.(0) and bb = ref h.(1) and c = ref h.(2) and d = ref h.(3)
    and e = ref h.(4) and f = ref h.(5) and g = ref h.(6) and hh = ref h.(7) in
    for t = 0 to 63 do
      let s1 = rotr !e 6 lxor rotr !e 11 lxor rotr !e 25 in
      let ch = (!e land !f) lxor ((lnot !e) land m32 land !g) in
      let t1 = (!hh + s1 + ch + k256.(t) + w.(t)) land m32 in
      let s0 = rotr !a 2 lxor rotr !a 13 lxor rotr !a 22 in
      let mj = (!a land !bb) lxor (!a land !c) lxor (!bb land !c) in
      let t2 = (s0 + mj) land m32 in
      hh := !g; g := !f; f := !e; e := (!d + t1) land m32;
      d := !c; c := !bb; bb := !a; a := (t1 + t2) land m32
    done;
    h.(0) <- (h.(0) + !a) land m32; h.(1) <- (h.(1) + !bb) land m32;
    h.(2) <- (h.(2) + !c) land m32; h.(3) <- (h.(3) + !d) land m32;
    h.(4) <- (h.(4) + !e) land m32; h.(5) <- (h.(5) + !f) land m32;
    h.(6) <- (h.(6) + !g) land m32; h.(7) <- (h.(7) + !hh) land m32
  done;
  let out = Bytes.create 32 in
  for i = 0 to 7 do
    for j = 0 to 3 do
      Bytes.set out (i * 4 + j) (Char.chr ((h.(i) lsr (8 * (3 - j))) land 0xff))
    done
  done;
  Bytes.to_string out

let hmac_sha256 (key : string) (msg : string) : string =
  let key = if String.length key > 64 then sha256 key else key in
  let pad c = String.init 64 (fun i -> Char.chr ((if i < String.length key then Char.code key.[i] else 0) lxor c)) in
  sha256 (pad 0x5c ^ sha256 (pad 0x36 ^ msg))

let string_of_blist (l : BinNums.coq_N list) : string =
  let b = Buffer.create 64 in
  Stdlib.List.iter (fun x -> Buffer.add_char b (Char.chr (int_of_byte x land 0xff))) l;
  Buffer.contents b
let blist_of_string (s : string) : BinNums.coq_N list =
  let rec go i acc = if i < 0 then acc else go (i - 1) (byte_tab.(Char.code s.[i]) :: acc) in
  go (String.length s - 1) []

let hmac (key : BinNums.coq_N list) (msg : BinNums.coq_N list) : BinNums.coq_N list =
  blist_of_string (hmac_sha256 (string_of_blist key) (string_of_blist msg))

(* ---- printing ---------------------------------------------------------- *)
let str_tok (l : BinNums.coq_N list) : string =
  let n = Stdlib.List.length l in
  if n = 0 then "-"
  else if n <= 64 then hex_of_bytes l
  else Printf.sprintf "#%d.%016Lx" n (fnv1a64 l)

let site_name (s : BinNums.coq_N) : string =
  match int_of_n s with
  | 40 -> "panic@bele.BeUint16:index"
  | 41 -> "panic@bele.BeUint32:index"
  | 42 -> "panic@rtmp.(*ServerSession).doMsg:nil"
  | 43 -> "panic@connection.(*connection).ModWriteChanSize:explicit"
  | 44 -> "panic@connection.(*connection).ModReadTimeoutMs:explicit"
  | 45 -> "panic@connection.(*connection).ModWriteTimeoutMs:explicit"
  | 101 -> "panic@base.RtmpMsg.IsAvcKeySeqHeader:index"
  | 102 -> "panic@base.RtmpMsg.IsHevcKeySeqHeader:index"
  | 108 -> "panic@base.RtmpMsg.IsAacSeqHeader:index"
  | 110 -> "panic@base.RtmpMsg.AudioCodecId:index"
  | k -> Printf.sprintf "panic %d" k

let show_outcome = function
  | RtmpSession.OContinue e -> (match int_of_n e with 1 -> "eof" | 2 -> "ueof" | k -> Printf.sprintf "continue%d" k)
  | RtmpSession.OClose e -> "closed:" ^ token_of_n e
  | RtmpSession.OPanic s -> site_name s
  | RtmpSession.OFuel -> "fuel"

let role_name = function
  | RtmpSession.RUnknown -> "PUBSUB" | RtmpSession.RPub -> "PUB" | RtmpSession.RSub -> "SUB"

let show_ev = function
  | RtmpSession.EvConnect (n, app) -> Printf.sprintf "conn:%s:%s" (token_of_n n) (str_tok app)
  | RtmpSession.EvNewPub (seen, app, sn, rq, url, acc) ->
    Printf.sprintf "newpub:%s:%s:%s:%s:%s:%s" (role_name seen) (str_tok app) (str_tok sn) (str_tok rq) (str_tok url) (if acc then "a" else "r")
  | RtmpSession.EvNewSub (seen, app, sn, rq, url, acc) ->
    Printf.sprintf "newsub:%s:%s:%s:%s:%s:%s" (role_name seen) (str_tok app) (str_tok sn) (str_tok rq) (str_tok url) (if acc then "a" else "r")
  | RtmpSession.EvAv m ->
    let h = m.RtmpComposer.m_hdr in
    Printf.sprintf "av:%s:%s:%s:%s:%s:%s" (token_of_n h.RtmpChunk.h_csid) (token_of_n h.RtmpChunk.h_len)
      (token_of_n h.RtmpChunk.h_type) (token_of_n h.RtmpChunk.h_msid) (token_of_n h.RtmpChunk.h_ts)
      (str_tok m.RtmpComposer.m_payload)
  | RtmpSession.EvDelPub -> "delpub"
  | RtmpSession.EvDelSub -> "delsub"

let kind_of = function
  | RtmpSession.EvConnect _ -> "conn"
  | RtmpSession.EvNewPub (_, _, _, _, _, acc) -> if acc then "newpub:a" else "newpub:r"
  | RtmpSession.EvNewSub (_, _, _, _, _, acc) -> if acc then "newsub:a" else "newsub:r"
  | RtmpSession.EvAv _ -> "av"
  | RtmpSession.EvDelPub -> "delpub"
  | RtmpSession.EvDelSub -> "delsub"

let show_kinds (evs : RtmpSession.event list) : string =
  let out = ref [] and av = ref 0 in
  let flush () = if !av > 0 then (out := Printf.sprintf "av*%d" !av :: !out; av := 0) in
  Stdlib.List.iter (fun e ->
      let k = kind_of e in
      if k = "av" then incr av else (flush (); out := k :: !out)) evs;
  flush ();
  match !out with [] -> "-" | l -> String.concat "," (Stdlib.List.rev l)

let rec drop n l = if n <= 0 then l else match l with [] -> [] | _ :: t -> drop (n - 1) t
let rec take n l = if n <= 0 then [] else match l with [] -> [] | x :: t -> x :: take (n - 1) t

let show_hs (hs : BinNums.coq_N list) : string =
  if hs = [] then "-"
  else begin
    let s1 = take 1536 (drop 1 hs) and s2 = drop 1537 hs in
    let mode = if Stdlib.List.for_all (fun b -> int_of_byte b = 0) (take 4 (drop 4 s1)) then "s" else "c" in
    Printf.sprintf "%s:%d:%s" mode (int_of_byte (Stdlib.List.hd hs)) (str_tok s2)
  end

let session (args : string list) : string =
  match args with
  | [policy; cfg; data] ->
    let (ver, hack) = match String.split_on_char '.' cfg with
      | [a; b] -> (bytes_of_token a, bytes_of_token b)
      | _ -> failwith "bad cfg" in
    let hl = Stdlib.List.length hack in
    let rnd =
      if hl = 0 then Stdlib.List.init 1528 (fun _ -> byte_tab.(0))
      else begin
        let ha = Array.of_list hack in
        Stdlib.List.init 1528 (fun i -> ha.(i mod hl))
      end in
    let pol = String.sub policy 0 1 in
    let opts = String.sub policy 1 (String.length policy - 1) in
    let trace = String.length opts > 0 && opts.[0] = 't' in
    let opts = if trace then String.sub opts 1 (String.length opts - 1) else opts in
    let (lastack0, seq0) =
      if String.length opts > 0 && opts.[0] = '@' then
        (match String.split_on_char ':' (String.sub opts 1 (String.length opts - 1)) with
         | [a; b] -> (n_of_token a, n_of_token b)
         | _ -> failwith "bad ack preset")
      else (n_of_int 0, n_of_int 0) in
    let env = { RtmpSession.e_ver = ver; e_rnd = rnd; e_now = n_of_int 0;
                e_accept = (pol <> "R"); e_install = (pol = "A"); e_trace = trace;
                e_lastack0 = lastack0; e_seq0 = seq0 } in
    let input = bytes_of_token data in
    let r = RtmpSession.run_session hmac variant env input in
    let sh = match RtmpSession.handle_tcp_connect hmac variant env input with
      | Some evs -> show_kinds evs
      | None -> show_kinds r.RtmpSession.r_ev ^ "!" ^ show_outcome r.RtmpSession.r_out in
    let evs = match r.RtmpSession.r_ev with [] -> "-" | l -> String.concat ";" (Stdlib.List.map show_ev l) in
    Printf.sprintf "%s hs=%s ev=%s w=%s sh=%s mem=%s:%s" (show_outcome r.RtmpSession.r_out) (show_hs r.RtmpSession.r_hs)
      evs (token_of_bytes (Stdlib.List.concat r.RtmpSession.r_wr)) sh
      (token_of_n (RtmpSession.mem_reserved r.RtmpSession.r_mem)) (token_of_n (RtmpSession.mem_streams r.RtmpSession.r_mem))
  | _ -> failwith "c04.sess: policy cfg bytes"

let register () =
  Registry.register "c04.sess" session
