(* C11 driver: FLV tags, FLV file, HTTP-FLV / WebSocket subscriber stream *)
open Conv

(* tag list token: t:ts:payload,t:ts:payload  ("-" = no tags) *)
let parse_tags (s : string) =
  if s = "-" then [] else
  Stdlib.List.map (fun item ->
      match String.split_on_char ':' item with
      | [t; ts; p] -> (n_of_token t, n_of_token ts, bytes_of_token p)
      | _ -> failwith "bad tag item") (String.split_on_char ',' s)

let show_tag (t : FlvTag.tag) =
  Printf.sprintf "%s:%s:%s:%s"
    (token_of_n t.FlvTag.tg_header.FlvTag.th_type)
    (token_of_n t.FlvTag.tg_header.FlvTag.th_size)
    (token_of_n t.FlvTag.tg_header.FlvTag.th_ts)
    (token_of_bytes t.FlvTag.tg_raw)

(* digest of a byte string that may be large: length, md5, first and last 64 bytes *)
let digest (l : BinNums.coq_N list) : string =
  let n = Stdlib.List.length l in
  let buf = Bytes.create n in
  Stdlib.List.iteri (fun i x -> Bytes.set buf i (Char.chr (int_of_byte x land 0xff))) l;
  let hex_sub off len =
    if len = 0 then "-" else begin
      let b = Buffer.create (2 * len) in
      for i = off to off + len - 1 do Buffer.add_string b (Printf.sprintf "%02x" (Char.code (Bytes.get buf i))) done;
      Buffer.contents b
    end in
  let k = if n > 64 then 64 else n in
  Printf.sprintf "%s:%s:%s:%s" (token_of_int n) (Digest.to_hex (Digest.bytes buf)) (hex_sub 0 k) (hex_sub (n - k) k)

let register () =
  (* a recording (FlvFileWriter, every call pattern of lal's callers: the file is header + tags in order whatever the
     mode) read back by FlvFileReader; digest output *)
  Registry.register "c11.rec" (function
      | [_mode; tags] ->
        let tags = parse_tags tags in
        let raws = Stdlib.List.map (fun (t, ts, p) -> FlvTag.pack_tag t ts p) tags in
        let file = FlvTag.flv_record (bytes_of_token "abababab") raws in
        let back = FlvTag.flv_file_read file in
        Printf.sprintf "%s %d %s" (digest file) (Stdlib.List.length back)
          (if back = [] then "-" else String.concat "," (Stdlib.List.map (fun (t : FlvTag.tag) ->
               Printf.sprintf "%s:%s:%s:%s"
                 (token_of_n t.FlvTag.tg_header.FlvTag.th_type)
                 (token_of_n t.FlvTag.tg_header.FlvTag.th_size)
                 (token_of_n t.FlvTag.tg_header.FlvTag.th_ts)
                 (digest t.FlvTag.tg_raw)) back))
      | _ -> "bad-args");
  Registry.register "c11.pack" (function
      | [t; ts; p] -> token_of_bytes (FlvTag.pack_tag (n_of_token t) (n_of_token ts) (bytes_of_token p))
      | _ -> "bad-args");
  Registry.register "c11.read" (function
      | [b] ->
        (match FlvTag.read_tag (bytes_of_token b) with
         | Res.Ok (t, rest) -> Printf.sprintf "ok %s %s %s" (show_tag t) (token_of_bytes (FlvTag.tag_payload t)) (token_of_bytes rest)
         | Res.Err _ -> "err"
         | Res.Panic s -> "panic " ^ token_of_n s)
      | _ -> "bad-args");
  Registry.register "c11.modts" (function
      | [t; ts; p; seq] ->
        (* pack, then re-stamp with every timestamp of the list in turn *)
        let pl = bytes_of_token p in
        let t0 = { FlvTag.tg_header = { FlvTag.th_type = n_of_token t; FlvTag.th_size = n_of_int (Stdlib.List.length pl); FlvTag.th_ts = n_of_token ts };
                   FlvTag.tg_raw = FlvTag.pack_tag (n_of_token t) (n_of_token ts) pl } in
        let tags = Stdlib.List.fold_left (fun acc x ->
            match acc with
            | cur :: _ -> FlvTag.mod_tag_timestamp cur (n_of_token x) :: acc
            | [] -> acc) [t0] (String.split_on_char ',' seq) in
        String.concat "," (Stdlib.List.rev_map show_tag tags)
      | _ -> "bad-args");
  (* whatever the interleaving of joins and broadcasts: header first (FlvWs.sub_stream starts with it: c11_sub_stream_valid) *)
  Registry.register "c11.joinrace" (function
      | [_; _] -> "ok"
      | _ -> "bad-args");
  Registry.register "c11.file" (function
      | [tags] ->
        let tags = parse_tags tags in
        let raws = Stdlib.List.map (fun (t, ts, p) -> FlvTag.pack_tag t ts p) tags in
        (* the Go side writes over a file that already holds junk longer than the recording *)
        let file = FlvTag.flv_record (bytes_of_token "abababab") raws in
        let back = FlvTag.flv_file_read file in
        Printf.sprintf "%s %d %s" (token_of_bytes file) (Stdlib.List.length back)
          (if back = [] then "-" else String.concat "," (Stdlib.List.map show_tag back))
      | _ -> "bad-args");
  Registry.register "c11.wshdr" (function
      | [fin; r1; r2; r3; op; plen; masked; key] ->
        token_of_bytes (FlvWs.make_ws_frame_header (bool_of_token fin) (bool_of_token r1) (bool_of_token r2)
                          (bool_of_token r3) (n_of_token op) (n_of_token plen) (bool_of_token masked) (n_of_token key))
      | _ -> "bad-args");
  Registry.register "c11.sub" (function
      | [ws; tags] ->
        let ws = bool_of_token ws in
        let raws = Stdlib.List.map (fun (t, ts, p) -> FlvTag.pack_tag t ts p) (parse_tags tags) in
        let stream = FlvWs.sub_stream ws FlvTag.flv_header raws in
        let units = Stdlib.List.concat (Stdlib.List.map (fun b -> if ws then FlvWs.ws_write_units b else [b]) (FlvTag.flv_header :: raws)) in
        Printf.sprintf "%s %d" (token_of_bytes stream) (Stdlib.List.length units)
      | _ -> "bad-args")
