(* C03 / C17 driver: runs the extracted admission / relay state machine on an
   event history and prints, per event, result / state view / notifications in
   the same format as harness/cmd/lalprobe/c03.go. *)
open Conv
module G = GroupAdmission
module S = GroupRtspShell
module A = GroupApiRequest
module D = GroupInputContent
module W = GroupShellWrites

let int_tok s = (* n5 = -5 *)
  if String.length s > 0 && s.[0] = 'n' then - (int_of_string (String.sub s 1 (String.length s - 1)))
  else int_of_string s
let n_of s = n_of_int (int_of_string s)
let z_of s = z_of_int (int_tok s)
let dec_n n = string_of_int (int_of_n n)

let conn_name n = "c" ^ dec_n n
let att_name s i = "p" ^ dec_n s ^ "_" ^ dec_n i
let opt_conn = function None -> "-" | Some n -> conn_name n
let opt_att s = function None -> "-" | Some i -> att_name s i
let bit b = if b then "1" else "0"

let parse_event (op : string) : G.event option =
  let f = Array.of_list (String.split_on_char '.' op) in
  let len = Array.length f in
  let deny = len > 3 && f.(3) = "deny" in
  try
    Some (match f.(0) with
      | "rp" -> G.ERtmpPub (n_of f.(1), n_of f.(2), deny)
      | "rs" -> G.ERtmpSub (n_of f.(1), n_of f.(2), deny)
      | "ap" -> G.ERtspPub (n_of f.(1), n_of f.(2), deny)
      | "ds" -> G.ERtspSub (n_of f.(1), n_of f.(2), deny)
      | "pl" -> G.ERtspPlay (n_of f.(1))
      | "fs" -> G.EFlvSub (n_of f.(1), n_of f.(2), deny)
      | "ts" -> G.ETsSub (n_of f.(1), n_of f.(2), deny)
      | "cp" -> G.ECustPub (n_of f.(1), n_of f.(2))
      | "pp" -> G.EPsPub (n_of f.(1), n_of f.(2), not (len > 3 && f.(3) = "b"))   (* pp.S.N.b: a port that cannot be bound *)
      | "gone" -> G.EGone (n_of f.(1))
      | "kick" ->
        let name = f.(2) in
        let body = String.sub name 1 (String.length name - 1) in
        if name.[0] = 'p' then
          (match String.split_on_char '_' body with
           | [s; i] -> G.EKick (n_of f.(1), G.KAtt (n_of s, n_of i))
           | _ -> failwith "bad attempt name")
        else G.EKick (n_of f.(1), G.KConn (n_of body))
      (* spull.S.R.A[.rtsp | .bad | .badrtsp | .http]: bad = a malformed rtmp url, badrtsp = a malformed rtsp url, http = a scheme
         lal has no pull session for (handed to the rtsp session); the attempt starts and fails by itself (run_case adds EPullFail) *)
      | "spull" -> G.EStartPull (n_of f.(1), z_of f.(2), z_of f.(3), not (len > 4 && (f.(4) = "rtsp" || f.(4) = "badrtsp" || f.(4) = "http")))
      | "xpull" -> G.EStopPull (n_of f.(1))
      | "psucc" -> G.EPullSucc (n_of f.(1), n_of f.(2))
      | "pfail" -> G.EPullFail (n_of f.(1), n_of f.(2))
      | "pdone" -> G.EPullDone (n_of f.(1), n_of f.(2))
      | "pushok" -> G.EPushOk (n_of f.(1), nat_of_int (int_of_string f.(2)))
      | "pushfail" -> G.EPushFail (n_of f.(1), nat_of_int (int_of_string f.(2)))
      | "pushdone" -> G.EPushDone (n_of f.(1), nat_of_int (int_of_string f.(2)))
      | "tick" -> G.ETick (n_of f.(1))
      | "adv" -> G.EAdvance (z_of f.(1))
      | "dispose" -> G.EDispose
      | "media" -> G.EMedia (n_of f.(1))
      | _ -> raise Not_found)
  with Not_found -> None

let reason_tok = function
  | G.RsNone -> "none" | G.RsDup -> "dup" | G.RsNotEnable -> "notenable"
  | G.RsAutoStop -> "autostop" | G.RsRetry -> "retry"

let show_result (e : G.event) (r : G.result) : string =
  match r with
  | G.RNone ->
    (match e with
     | G.EPullSucc (s, i) | G.EPullFail (s, i) | G.EPullDone (s, i) -> att_name s i
     | _ -> "-")
  | G.RAcc -> "a" | G.RRef -> "r" | G.RBad -> "x" | G.RPanic -> "panic"
  | G.RMedia l ->
    let names = Stdlib.List.sort compare (Stdlib.List.map conn_name l) in
    "m" ^ String.concat "+" names
  | G.RCode (code, why, a) ->
    let c = dec_n code in
    (match e, a with
     | _, Some (s, i) -> c ^ ":" ^ att_name s i
     | G.EStartPull _, None -> c ^ ":" ^ reason_tok why
     | _, None -> c)

let show_group ((s, g) : BinNums.coq_N * G.group) : string =
  let p = g.G.g_pp in
  let subs = Stdlib.List.sort compare (Stdlib.List.map conn_name (G.stat_subs g)) in
  let push = Stdlib.List.map (fun q -> bit q.G.pu_pushing ^ (if q.G.pu_att then "a" else "")) g.G.g_push in
  let or_dash l = if l = [] then "-" else String.concat "+" l in
  let spub = match G.stat_pub g with None -> "-" | Some n -> conn_name n in
  let spull = match G.stat_pull g with None -> "-" | Some i -> att_name s i in
  Printf.sprintf "s%s:%s,%s,%s,%s,%s,%s:%s:%d:%s:%s:%s:%s:%s:%s" (dec_n s)
    (opt_conn g.G.g_rtmp) (opt_conn g.G.g_rtsp) (opt_conn g.G.g_cust) (opt_conn g.G.g_ps)
    (opt_att s p.G.pp_rtmp) (opt_att s p.G.pp_rtsp)
    (bit p.G.pp_pulling) (int_of_z p.G.pp_count) (bit p.G.pp_api)
    (match g.G.g_pipe with None -> "-" | Some k -> "k" ^ dec_n k)
    spub spull (or_dash subs) (or_dash push)

let show_view (st : G.state) : string =
  let gs = Stdlib.List.map (fun (s, g) -> ("s" ^ dec_n s, show_group (s, g))) st.G.st_groups in
  let gs = Stdlib.List.sort (fun (a, _) (b, _) -> compare a b) gs in
  if gs = [] then "-" else String.concat "|" (Stdlib.List.map snd gs)

let show_notif (n : G.notif) : string =
  let k = match n.G.n_kind with
    | G.NPubStart -> "PS" | G.NPubStop -> "PE" | G.NSubStart -> "SS" | G.NSubStop -> "SE"
    | G.NPullStart -> "RS" | G.NPullStop -> "RE" in
  let w = match n.G.n_who with G.WConn c -> conn_name c | G.WAtt (s, i) -> att_name s i in
  Printf.sprintf "%s:%s:%s%s" k w (bit n.G.n_in) (bit n.G.n_out)

let parse_cfg (s : string) : G.config * G.fixes =
  let kv = if s = "-" then [] else
      Stdlib.List.filter_map (fun x -> match String.split_on_char '=' x with [k; v] -> Some (k, v) | _ -> None)
        (String.split_on_char ',' s) in
  let get k d = try Stdlib.List.assoc k kv with Not_found -> d in
  let cf = { G.cf_static = (get "static" "0" = "1"); G.cf_npush = nat_of_int (int_of_string (get "push" "0")) } in
  (* the model follows the repaired tree; "tree=pinned" selects the pinned one (replay of the refutation witnesses) *)
  let fx = if get "tree" "fixed" = "pinned" then G.pinned_tree else G.fixed_tree in
  (cf, fx)

(* ap2.S.N.M[.deny] / ds2.S.N.M[.deny]: a further ANNOUNCE / DESCRIBE on the command connection of session N *)
let parse_cevent (op : string) : S.cevent option =
  let f = Array.of_list (String.split_on_char '.' op) in
  let deny = Array.length f > 4 && f.(4) = "deny" in
  match f.(0) with
  | "ap2" -> Some (S.CAnnounce (n_of f.(1), n_of f.(2), n_of f.(3), deny))
  | "ds2" -> Some (S.CDescribe (n_of f.(1), n_of f.(2), n_of f.(3), deny))
  | _ -> (match parse_event op with Some e -> Some (S.CE e) | None -> None)

(* rp2.S.N / rs2.S.N: a further publish / play command naming stream S on the connection of RTMP session N *)
let parse_cevent (op : string) : S.cevent option =
  let f = Array.of_list (String.split_on_char '.' op) in
  match f.(0) with
  | "rp2" -> Some (S.CRtmpCmd (n_of f.(1), n_of f.(2), true))
  | "rs2" -> Some (S.CRtmpCmd (n_of f.(1), n_of f.(2), false))
  | _ -> parse_cevent op

(* ---- requests through the HTTP API: a numeric field is a (absent), z (null), q (not a number) or an integer token ---- *)
let jfield (t : string) : A.jfield =
  match t with "a" -> A.JAbsent | "z" -> A.JNull | "q" -> A.JBad | _ -> A.JInt (z_of t)
let z_tok z = let i = int_of_z z in if i < 0 then "n" ^ string_of_int (- i) else string_of_int i
let opt_n t = if t = "a" then None else Some (n_of t)
let has_flag (fl : string) (c : char) = String.contains fl c

(* hpull.S.T.R.A.M.FLAGS   start_relay_pull, body fields pull_timeout_ms / pull_retry_num / auto_stop_pull_after_no_out_ms /
                           rtsp_mode; FLAGS: - or letters r (rtsp:// url) u (no url key) n (no stream_name key)
   hxpull.S|a              stop_relay_pull (a: no stream_name parameter)
   hkick.S|a.NAME|a        kick_session
   hpp.S|a.SID.P.T.F       start_rtp_pub, body fields port / timeout_ms / is_tcp_flag
   result: the call's result, then ~ and the settings the group took; 1002 = param missing, nothing called *)
let parse_api (op : string) : (A.api_call * string) option =
  let f = Array.of_list (String.split_on_char '.' op) in
  try
    match f.(0) with
    | "hpull" ->
      let fl = f.(6) in
      let b = { A.pb_url = not (has_flag fl 'u'); A.pb_name = not (has_flag fl 'n');
                A.pb_timeout = jfield f.(2); A.pb_retry = jfield f.(3); A.pb_autostop = jfield f.(4); A.pb_mode = jfield f.(5) } in
      let suffix = match A.pull_request b with
        | Some r -> "~" ^ String.concat ":" [z_tok r.A.pr_timeout; z_tok r.A.pr_retry; z_tok r.A.pr_autostop; z_tok r.A.pr_mode]
        | None -> "" in
      Some (A.AStartPull (n_of f.(1), b, not (has_flag fl 'r')), suffix)
    | "hxpull" -> Some (A.AStopPull (opt_n f.(1)), "")
    | "hkick" ->
      let t = if f.(2) = "a" then None else
          let name = f.(2) in
          let body = String.sub name 1 (String.length name - 1) in
          if name.[0] = 'p' then
            (match String.split_on_char '_' body with
             | [s; i] -> Some (G.KAtt (n_of s, n_of i))
             | _ -> failwith "bad attempt name")
          else Some (G.KConn (n_of body)) in
      Some (A.AKick (opt_n f.(1), t), "")
    | "hpp" ->
      let suffix = match A.rtp_request (if f.(3) = "b" then A.JInt (z_of_int 1) else jfield f.(3)) (jfield f.(4)) (jfield f.(5)) with
        | Some r -> "~" ^ string_of_int (int_of_z r.A.rr_timeout / 1000) ^ ":" ^ (if int_of_z r.A.rr_tcp <> 0 then "1" else "0")
        | None -> "" in
      (* port token b: an explicit port that the harness holds bound (udp, or tcp when is_tcp_flag asks for tcp): Listen fails *)
      let busy = f.(3) = "b" in
      let port = if busy then A.JInt (z_of_int 1) else jfield f.(3) in
      Some (A.AStartRtpPub (opt_n f.(1), n_of f.(2), port, jfield f.(4), jfield f.(5), not busy), suffix)
    | _ -> None
  with Invalid_argument _ -> None

let run_case cfg ops =
  let (cf, fx) = parse_cfg cfg in
  (* the RTSP shell follows the repaired tree unless the pinned one (or shell=old) is asked for *)
  let fsh = not (fx == G.pinned_tree) && not (String.length cfg >= 9 &&
              (let rec has i = i + 9 <= String.length cfg && (String.sub cfg i 9 = "shell=old" || has (i + 1)) in has 0)) in
  (* the SDP of a refused RTSP relay pull reaches the group on the pinned tree (or with sdp=old) only *)
  let has_cfg k = let n = String.length k in
    let rec has i = i + n <= String.length cfg && (String.sub cfg i n = k || has (i + 1)) in has 0 in
  let fsdp = not (fx == G.pinned_tree) && not (has_cfg "sdp=old") in
  let ds = ref D.init_dstate in
  let owner_name = function None -> "-" | Some (D.OConn n) -> conn_name n | Some (D.OAtt (s, i)) -> att_name s i in
  let outs = Stdlib.List.map (fun op ->
      let st = ref !ds.D.ds_shell in
      (* a request through the HTTP API is the event the handler turns it into, or nothing at all *)
      let api = parse_api op in
      let f = Array.of_list (String.split_on_char '.' op) in
      let pd = match f.(0) with
        | "sdp" -> Some (D.DSdp (n_of f.(1)))                              (* sdp.S: whose SDP does the group of S hold *)
        | "psuccm" -> Some (D.DPullSuccMedia (n_of f.(1), n_of f.(2)))      (* psucc where the origin sends media right behind its answer *)
        | _ ->
          (match api with
           | Some (c, _) -> (match A.api_event c with Some e -> Some (D.DE (S.CE e)) | None -> None)
           | None -> (match parse_cevent op with Some ce -> Some (D.DE ce) | None -> None)) in
      match pd with
      | None -> if api <> None then "1002/" ^ show_view !st.S.cs_base ^ "/-" else "unknown-op"
      | Some de ->
        (* attempt index 0 = the latest attempt of that stream *)
        let latest s i = if int_of_n i <> 0 then i else
            (match G.lookup s !st.S.cs_base.G.st_cnt with Some c -> c | None -> i) in
        let de = match de with
          | D.DE (S.CE (G.EPullSucc (s, i))) -> D.DE (S.CE (G.EPullSucc (s, latest s i)))
          | D.DE (S.CE (G.EPullFail (s, i))) -> D.DE (S.CE (G.EPullFail (s, latest s i)))
          | D.DE (S.CE (G.EPullDone (s, i))) -> D.DE (S.CE (G.EPullDone (s, latest s i)))
          | D.DPullSuccMedia (s, i) -> D.DPullSuccMedia (s, latest s i)
          | _ -> de in
        let shown = match de with
          | D.DE (S.CE e) -> e
          | D.DE (S.CAnnounce (s, _, n, d)) -> G.ERtspPub (s, n, d)
          | D.DE (S.CDescribe (s, _, n, d)) -> G.ERtspSub (s, n, d)
          | D.DE (S.CRtmpCmd (s, n, _)) -> G.ERtmpPub (s, n, false)
          | D.DPullSuccMedia (s, i) -> G.EPullSucc (s, i)
          | D.DSdp _ -> G.EDispose in
        let suffix = match api with
          | Some (_, sfx) -> sfx
          | None -> "" in
        (* rp.S.N.wK / rs.S.N.wK / ap.S.N.w1 / pl.N.w: the K-th write of the server shell fails (and every later one):
           the arrival amounts to the events write_fail_events gives; the result shown is that of the first one *)
        let wfail =
          let is_w t = String.length t > 1 && t.[0] = 'w' in
          let num t = nat_of_int (int_of_string (String.sub t 1 (String.length t - 1))) in
          let base_st = !ds.D.ds_shell.S.cs_base in
          match f.(0) with
          | "rp" when Array.length f > 3 && is_w f.(3) -> Some (W.write_fail_events base_st W.WRtmpPub (n_of f.(1)) (n_of f.(2)) (num f.(3)))
          | "rs" when Array.length f > 3 && is_w f.(3) -> Some (W.write_fail_events base_st W.WRtmpSub (n_of f.(1)) (n_of f.(2)) (num f.(3)))
          | "ap" when Array.length f > 3 && is_w f.(3) -> Some (W.write_fail_events base_st W.WRtspAnnounce (n_of f.(1)) (n_of f.(2)) (num f.(3)))
          | "pl" when Array.length f > 2 && f.(2) = "w" -> Some (W.write_fail_events base_st W.WRtspPlay (n_of "0") (n_of f.(1)) (nat_of_int 1))
          | _ -> None in
        let (de, shown, rest) = match wfail with
          | Some (S.CE e :: rest) -> (D.DE (S.CE e), e, rest)
          | _ -> (de, shown, []) in
        let ((ds1, dr), ns) = D.dstep fsdp fsh fx cf !ds de in
        let (ds1, ns) = match dr with
          | D.DR (G.RAcc) ->
            (* the command went through: the failed write closes the connection *)
            Stdlib.List.fold_left (fun (d, acc) ce -> let ((d2, _), n2) = D.dstep fsdp fsh fx cf d (D.DE ce) in (d2, acc @ n2)) (ds1, ns) rest
          | _ -> (ds1, ns) in
        (* a relay pull whose url cannot even be parsed / dialled: the attempt that was started reports its failure at once *)
        let self_failing = f.(0) = "spull" && Array.length f > 4 && (f.(4) = "bad" || f.(4) = "badrtsp" || f.(4) = "http") in
        let (ds1, ns) = match dr with
          | D.DR (G.RCode (_, _, Some (s, i))) when self_failing ->
            let ((ds2, _), ns2) = D.dstep fsdp fsh fx cf ds1 (D.DE (S.CE (G.EPullFail (s, i)))) in (ds2, ns @ ns2)
          | _ -> (ds1, ns) in
        ds := ds1;
        let st1 = ds1.D.ds_shell in
        let ev = if ns = [] then "-" else String.concat "+" (Stdlib.List.map show_notif ns) in
        let res = match dr with
          | D.DR r -> show_result shown r
          | D.DRMedia (G.RBad, _) -> "x"
          | D.DRMedia (r, l) ->
            show_result shown r ^ "~m" ^ String.concat "+" (Stdlib.List.sort compare (Stdlib.List.map conn_name l))
          | D.DRSdp o -> owner_name o in
        (* the settings suffix of start_rtp_pub is there only when the publisher was accepted *)
        let suffix = match api with
          | Some (A.AStartRtpPub _, _) when res <> "0" -> ""
          | _ -> suffix in
        res ^ suffix ^ "/" ^ show_view st1.S.cs_base ^ "/" ^ ev)
      (String.split_on_char ',' ops) in
  String.concat ";" outs

let register () =
  Registry.register "c03.run" (function [cfg; ops] -> run_case cfg ops | _ -> "bad-args");
  Registry.register "c17.run" (function [cfg; ops] -> run_case cfg ops | _ -> "bad-args")
