(* C15 driver: connection write queue, session write units, fan-out, sweep *)
open Conv
open QueueWrite

(* rtsp set-up state: "rtp" = both tracks interleaved; "rtp.<v><a>" with one
   letter per track: n = not set up, u = UDP sockets, t = interleaved channel,
   b = both transports *)
let setup_of (s : string) : setup =
  if String.length s <> 2 then failwith "bad setup" else
  let udp c = (c = 'u' || c = 'b') and tcp c = (c = 't' || c = 'b') in
  String.iter (fun c -> if not (String.contains "nutb" c) then failwith "bad setup") s;
  { su_vudp = udp s.[0]; su_vtcp = tcp s.[0]; su_audp = udp s.[1]; su_atcp = tcp s.[1] }

let kind_of (k : string) = match String.split_on_char '.' k with
  | ["rtmp"] -> KRtmp | ["rtmpv"] -> KRtmpV | ["flv"] -> KFlv | ["wsflv"] -> KWsFlv
  | ["ts"] -> KTs | ["wsts"] -> KWsTs
  | ["rtp"] -> KRtp (setup_of "tt") | ["wsrtp"] -> KWsRtp (setup_of "tt")
  | ["rtp"; su] -> KRtp (setup_of su) | ["wsrtp"; su] -> KWsRtp (setup_of su)
  | _ -> failwith "bad kind"

let parse_bufs (s : string) = Stdlib.List.map bytes_of_token (String.split_on_char '|' s)

let split2 c s = match String.split_on_char c s with [a; b] -> (a, b) | _ -> failwith "bad op"

let rest s = String.sub s 1 (String.length s - 1)

let dgrams (t : track) (s : sess) : string =
  match Stdlib.List.filter_map (fun (t', b) -> if t' = t then Some (token_of_bytes b) else None) s.s_udp with
  | [] -> "-"
  | l -> String.concat "," l

(* 7th field: connection write calls; rtsp kinds also the session's byte
   counter and the datagrams each UDP socket was given *)
let extra (s : sess) : string =
  match s.s_kind with
  | KRtp _ | KWsRtp _ ->
    Printf.sprintf "%s/%s/%s/%s/%s/%s" (token_of_n s.s_att) (token_of_n s.s_acc) (dgrams TVideo s) (dgrams TAudio s)
      (token_of_n s.s_crd) (token_of_n s.s_rd)
  | _ -> Printf.sprintf "%s/%s" (token_of_n s.s_att) (token_of_n s.s_crd)

(* per consumer: codes;pre;q;h;state;wire;extra *)
let report (codes : string list) (st : sess list) : string =
  String.concat " "
    (Stdlib.List.map2 (fun cd s ->
         let c = s.s_conn in
         let d = (drain s).s_conn in
         Printf.sprintf "%s;%s;%s;%d;%s;%s;%s"
           (if cd = "" then "-" else cd)
           (token_of_int (Stdlib.List.length c.c_wire))
           (token_of_int (Stdlib.List.length c.c_chan))
           (match c.c_hand with Some _ -> 1 | None -> 0)
           (if d.c_closed then "c" else "o")
           (token_of_bytes d.c_wire) (extra s)) codes st)

let ops_of (s : string) = if s = "-" then [] else String.split_on_char ',' s

(* inbound ops: i<consumer>.<what>[.<arg>]   (what the player sends; see harness c15in.go)
     c<ch>.<n>        interleaved packet of n bytes on channel ch          ($ ch len16 data: 4+n bytes read)
     u<v|a><p|c>.<n>  datagram of n bytes to lal's RTP (p) / RTCP (c) socket of the video / audio track
     o<cseq>.<resp>   OPTIONS keep-alive; <resp> = the reply lal writes
     g<cseq>          GET_PARAMETER keep-alive
     a                rtmp Acknowledgement (16 bytes)      k<ts>  rtmp ping request (18 bytes)
     b<n>             n bytes on an http-flv / http-ts subscription (RunLoop reads at most 128)
   followed by the eager dequeue of the writer goroutine *)
let inbound_events n specs (s : string) =
  match String.split_on_char '.' s with
  | [] -> failwith "bad inbound"
  | is :: what ->
    let i = int_of_string is in
    if i >= n then [] else
    let (k, _) = Stdlib.List.nth specs i in
    let ws = (match k with KWsRtp _ -> 6 | _ -> 0) in
    let tail w = String.sub w 1 (String.length w - 1) in
    let (size, x) = match what with
      | [w; nn] when w.[0] = 'c' -> let nn = int_of_string nn in (4 + nn, InIlv (n_of_int (int_of_string (tail w)), n_of_int nn))
      | [w; nn] when w.[0] = 'u' ->
        (0, InUdp ((if w.[1] = 'v' then TVideo else TAudio), w.[2] = 'c', n_of_int (int_of_string nn)))
      | [w; resp] when w.[0] = 'o' -> (44 + String.length (tail w) + ws, InOptions (bytes_of_token resp))
      | [w] when w.[0] = 'g' -> (50 + String.length (tail w) + ws, InRequest)
      | ["a"] -> (16, InRtmpAck)
      | [w] when w.[0] = 'k' -> (18, InRtmpPing (n_of_token (tail w)))
      | [w] when w.[0] = 'b' -> (Stdlib.min 128 (int_of_string (tail w)), InBytes)
      | _ -> failwith "bad inbound" in
    [EvIn (nat_of_int i, n_of_int size, x); EvTake (nat_of_int i)]

let run_op = (function
      | cons :: sched :: _ ->
        let specs = Stdlib.List.map (fun kc -> let (k, c) = split2 ':' kc in (kind_of k, int_of_string c))
            (String.split_on_char ',' cons) in
        if Stdlib.List.exists (fun (_, c) -> c < 1) specs then "bad-args" else
        let n = Stdlib.List.length specs in
        let st0 = Stdlib.List.mapi (fun i (k, c) -> sess_new (nat_of_int i) k (nat_of_int c)) specs in
        let evs = Stdlib.List.concat (Stdlib.List.map (fun op ->
            match op.[0] with
            | 'p' -> [EvPub (true, parse_bufs (rest op))]
            | 'r' -> let (i, k) = split2 '.' (rest op) in
              let i = int_of_string i in
              if i >= n then [] else release (nat_of_int i) (nat_of_int (int_of_string k))
            | 'f' -> let (i, k) = split2 '.' (rest op) in
              let i = int_of_string i in
              if i >= n then [] else [EvFail (nat_of_int i, nat_of_int (int_of_string k))]
            | 'd' -> let i = int_of_string (rest op) in if i >= n then [] else [EvClose (nat_of_int i)]
            | 's' -> [EvSweep]
            | 'i' -> inbound_events n specs (rest op)
            | 'I' -> []      (* the kind of INPUT the group has: no event of the consumers' machine *)
            | _ -> failwith "bad op") (ops_of sched)) in
        let (st, obs) = run evs st0 in
        let codes = Array.make n "" in
        Stdlib.List.iter2 (fun ev row ->
            match ev with
            | EvPub _ -> Stdlib.List.iteri (fun i r -> codes.(i) <- codes.(i) ^ string_of_int (int_of_n r)) row
            | _ -> ()) evs obs;
        report (Array.to_list codes) st
      | _ -> "bad-args")

let register () =
  Registry.register "c15.run" run_op;
  (* rtsp subscribers of a real Group: same machine, every consumer has the capacity of the first argument *)
  Registry.register "c15.rgroup" (function
      | cap :: kinds :: sched :: _ ->
        run_op [String.concat "," (Stdlib.List.map (fun k -> k ^ ":" ^ cap) (String.split_on_char ',' kinds)); sched]
      | _ -> "bad-args");
  Registry.register "c15.group" (function
      | cap :: subs :: sched :: _ ->
        let cap = int_of_string cap in
        if cap < 1 then "bad-args" else
        let n = String.length subs in
        let st0 = Stdlib.List.init n (fun i ->
            let k = match subs.[i] with 'f' -> KFlv | 'w' -> KWsFlv | 'r' -> KRtmp | _ -> failwith "bad sub" in
            group_join true (sess_new (nat_of_int i) k (nat_of_int cap))) in
        let codes = Array.make n "" in
        let st = Stdlib.List.fold_left (fun st op ->
            match op.[0] with
            | 'p' ->
              (match String.split_on_char ':' (rest op) with
               | [t; ts; p] ->
                 let t = n_of_token t and ts = n_of_token ts and p = bytes_of_token p in
                 Stdlib.List.map (group_msg true t ts p) st
               | _ -> failwith "bad p")
            | 'r' -> let (i, k) = split2 '.' (rest op) in
              let i = int_of_string i in
              if i >= n then st else fst (run (release (nat_of_int i) (nat_of_int (int_of_string k))) st)
            | 'd' -> let i = int_of_string (rest op) in
              if i >= n then st else fst (run [EvClose (nat_of_int i)] st)
            | 's' -> fst (run [EvSweep] st)
            | 'i' -> fst (run (inbound_events n (Stdlib.List.map (fun s -> (s.s_kind, 0)) st) (rest op)) st)
            | 'I' -> st
            | _ -> failwith "bad op") st0 (ops_of sched) in
        report (Array.to_list codes) st
      | _ -> "bad-args")
