(* C19 driver, part B: NAL unit framing (Annex B start codes <-> AVCC lengths) *)
open Conv

let show_err (e : BinNums.coq_N option) =
  match e with None -> "ok" | Some e -> "err " ^ Drv_c19.err_name e

let show_units (us : BinNums.coq_N list list) =
  "[" ^ String.concat "," (Stdlib.List.map token_of_bytes us) ^ "]"

let show_framed ((us, e) : BinNums.coq_N list list * BinNums.coq_N option) = show_units us ^ " " ^ show_err e
let show_conv ((b, e) : BinNums.coq_N list * BinNums.coq_N option) = token_of_bytes b ^ " " ^ show_err e

(* unit list argument: "." = no unit, otherwise byte tokens joined by "," *)
let units_of_token (s : string) =
  if s = "." then [] else Stdlib.List.map bytes_of_token (split_on ',' s)

let register () =
  Registry.register "c19.startcode" (function
      | [b; s] ->
        (match CodecNalFraming.iterate_nalu_start_code (bytes_of_token b) (n_of_token s) with
         | Some (p, l) -> token_of_n p ^ " " ^ token_of_n l
         | None -> "none")
      | _ -> "bad-args");
  Registry.register "c19.split_annexb" (function
      | [b] -> show_framed (CodecNalFraming.iterate_nalu_annexb (bytes_of_token b))
      | _ -> "bad-args");
  Registry.register "c19.split_avcc" (function
      | [b] -> show_framed (CodecNalFraming.iterate_nalu_avcc (bytes_of_token b))
      | _ -> "bad-args");
  Registry.register "c19.avcc2annexb" (function
      | [b] -> show_conv (CodecNalFraming.avcc2annexb (bytes_of_token b))
      | _ -> "bad-args");
  Registry.register "c19.annexb2avcc" (function
      | [b] -> show_conv (CodecNalFraming.annexb2avcc (bytes_of_token b))
      | _ -> "bad-args");
  Registry.register "c19.join_avcc" (function
      | [u] -> token_of_bytes (CodecNalFraming.join_nalu_avcc (units_of_token u))
      | _ -> "bad-args");
  (* Annex B -> AVCC -> units / Annex B (4-byte codes) -> units *)
  Registry.register "c19.framing_rt" (function
      | [b] ->
        let x = bytes_of_token b in
        let (a, e1) = CodecNalFraming.annexb2avcc x in
        let (y, e3) = CodecNalFraming.avcc2annexb a in
        Printf.sprintf "%s | %s | %s | %s" (show_conv (a, e1))
          (show_framed (CodecNalFraming.iterate_nalu_avcc a)) (show_conv (y, e3))
          (show_framed (CodecNalFraming.iterate_nalu_annexb y))
      | _ -> "bad-args");
  Registry.register "c19.capture_avcc" (function
      | [b] -> Drv_c19.show_res token_of_bytes (CodecNalFraming.capture_avcc2annexb (bytes_of_token b))
      | _ -> "bad-args")
