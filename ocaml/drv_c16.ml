(* C16, idle part: same text format as harness/cmd/lalprobe/c16.go *)
open Conv
open GroupIdle

let kind_of = function
  | "pr" -> SPubRtmp | "sr" -> SSubRtmp | "sf" -> SSubFlv | "st" -> SSubTs | _ -> failwith "bad kind"

let run_idle (s : string) =
  let evs = Stdlib.List.filter_map (fun e ->
      if e = "" then None else
      match String.split_on_char ':' e with
      | ["a"; id; k] -> Some (IAdd (n_of_token id, kind_of k))
      | ["b"; id; r; w] -> Some (IBytes (n_of_token id, n_of_token r, n_of_token w))
      | ["t"; n] -> Some (ITick (n_of_token n))
      | _ -> failwith ("bad event " ^ e)) (String.split_on_char ';' s) in
  (* a disposed session accepts no more bytes: the harness skips b events on closed conns *)
  let st = Stdlib.List.fold_left (fun l e ->
      match e with
      | IBytes (id, _, _) when Stdlib.List.exists (fun x -> int_of_n x.ss_id = int_of_n id && x.ss_closed) l -> l
      | _ -> istep l e) [] evs in
  let sorted = Stdlib.List.sort (fun a b -> compare (int_of_n a.ss_id) (int_of_n b.ss_id)) st in
  let parts = Stdlib.List.map (fun x -> Printf.sprintf "%d=%s" (int_of_n x.ss_id) (token_of_bool x.ss_closed)) sorted in
  let all_closed = Stdlib.List.for_all (fun x -> x.ss_closed) st in
  let has_in = Stdlib.List.exists (fun x -> not x.ss_closed && (x.ss_kind = SPubRtmp || x.ss_kind = SPubRtsp)) st in
  let has_out = Stdlib.List.exists (fun x -> not x.ss_closed && not (x.ss_kind = SPubRtmp || x.ss_kind = SPubRtsp)) st in
  ignore all_closed;
  String.concat "|" (parts @ ["inactive=" ^ token_of_bool (group_inactive has_in has_out false)])

let register () =
  Registry.register "c16.idle" (function
      | [e] -> run_idle e
      | _ -> "bad-args")
