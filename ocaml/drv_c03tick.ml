(* c03.srv: the extracted server-level tick machine (GroupServerTick.tstep over
   GroupAdmission.step) on an event history; per event result / state view /
   notifications as c03.run, plus closed~moved~groups as
   harness/cmd/lalprobe/c03tick.go prints them. *)
module G = GroupAdmission
module T = GroupServerTick
module D = Drv_c03

let n_of s = Conv.n_of_int (int_of_string s)
let dec_n n = string_of_int (Conv.int_of_n n)

let key_name = function
  | T.CConn n -> D.conn_name n
  | T.CAtt (s, i) -> D.att_name s i
  | T.CPush (s, t) -> "u" ^ dec_n s ^ "_" ^ string_of_int (Conv.int_of_nat t)

let or_dash l = if l = [] then "-" else String.concat "+" l

(* the counters the harness can see: those of a push target only while a session is attached *)
let visible (ts : T.tstate) (k : T.ckey) : bool =
  match k with
  | T.CPush (s, t) -> T.push_att ts.T.t_st s t
  | _ -> true

let eff (ts : T.tstate) (k : T.ckey) =
  if visible ts k then
    let c = T.get_ctr k ts.T.t_ctr in (c.T.c_r, c.T.c_w)      (* uint64 values: compared as N *)
  else (BinNums.N0, BinNums.N0)

let moved (before : T.tstate) (after : T.tstate) : string list =
  let keys = Stdlib.List.map fst after.T.t_ctr in
  let l = Stdlib.List.concat_map (fun k ->
      if not (visible after k) then [] else
        let (r0, w0) = eff before k and (r1, w1) = eff after k in
        (if r0 <> r1 then [key_name k ^ "r"] else []) @ (if w0 <> w1 then [key_name k ^ "w"] else [])) keys in
  Stdlib.List.sort compare l

let groups_tok (st : G.state) : string list =
  let l = Stdlib.List.map (fun (s, g) -> ("s" ^ dec_n s, "g" ^ dec_n g.G.g_id)) st.G.st_groups in
  Stdlib.List.map (fun (a, b) -> a ^ "=" ^ b) (Stdlib.List.sort compare l)

let parse_tevent (st : G.state) (op : string) : T.tevent option =
  let latest s i = if Conv.int_of_n i <> 0 then i else
      (match G.lookup s st.G.st_cnt with Some c -> c | None -> i) in
  match String.split_on_char '.' op with
  | ["bytes"; n; k] -> Some (T.TBytes (n_of n, n_of k))
  | ["abytes"; s; i; k] -> Some (T.TAttBytes (n_of s, latest (n_of s) (n_of i), n_of k))
  | _ ->
    (match D.parse_event op with
     | None -> None
     | Some e ->
       let e = match e with
         | G.EPullSucc (s, i) -> G.EPullSucc (s, latest s i)
         | G.EPullFail (s, i) -> G.EPullFail (s, latest s i)
         | G.EPullDone (s, i) -> G.EPullDone (s, latest s i)
         | _ -> e in
       Some (T.TEv e))

let run_case cfg ops =
  let (cf, fx) = D.parse_cfg cfg in
  let ts = ref T.tinit in
  let outs = Stdlib.List.map (fun op ->
      match (try parse_tevent !ts.T.t_st op with _ -> None) with
      | None -> "unknown-op"
      | Some te ->
        let before = !ts in
        let ((ts1, r), ns) = T.tstep fx cf before te in
        ts := ts1;
        let res = match te with
          | T.TEv e -> D.show_result e r
          | T.TBytes _ -> (match r with G.RNone -> "-" | _ -> "x")
          | T.TAttBytes (s, i, _) -> (match r with G.RNone -> D.att_name s i | _ -> "x") in
        let notes = Stdlib.List.map D.show_notif ns in
        (* the Dels of sessions one tick disposed are reported by independent goroutines *)
        let notes = match te with T.TEv (G.ETick _) -> Stdlib.List.sort compare notes | _ -> notes in
        let closed = Stdlib.List.sort compare (Stdlib.List.map D.conn_name (T.closed_waiting ts1.T.t_st)) in
        res ^ "/" ^ D.show_view ts1.T.t_st ^ "/" ^ or_dash notes ^ "/"
        ^ or_dash closed ^ "~" ^ or_dash (moved before ts1) ^ "~" ^ or_dash (groups_tok ts1.T.t_st))
      (String.split_on_char ',' ops) in
  String.concat ";" outs

let register () =
  Registry.register "c03.srv" (function [cfg; ops] -> run_case cfg ops | _ -> "bad-args")
