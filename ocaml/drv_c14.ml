(* C14 driver: access control decision functions.
   External functions (MD5, base64, url.ParseQuery, the non-ASCII path of
   strings.ToLower) are passed in by the generator as tables computed in python,
   independently of Go:  in>out,in>out  (hex tokens; out = E for "error"). *)
open BinNums
open Conv

(* C14_PINNED=1 selects the model of the pinned tree (before the fix: commits) *)
let pinned = (try Sys.getenv "C14_PINNED" = "1" with Not_found -> false)
let fixed = not pinned

let table (name : string) (tok : string) : (coq_N list * string) list =
  if tok = "-" || tok = "" then [] else
    Stdlib.List.map (fun item ->
        match String.split_on_char '>' item with
        | [i; o] -> (bytes_of_token i, o)
        | _ -> failwith ("bad table item for " ^ name)) (String.split_on_char ',' tok)

let lookup name tab (x : coq_N list) : string =
  match Stdlib.List.assoc_opt x tab with
  | Some o -> o
  | None -> failwith (name ^ "-miss:" ^ hex_of_bytes x)

let fn_total name tok = let t = table name tok in fun x -> bytes_of_token (lookup name t x)
let fn_opt name tok = let t = table name tok in
  fun x -> (match lookup name t x with "E" -> None | o -> Some (bytes_of_token o))

(* parsed query: E | - | k=v&k=v *)
let parse_pq (tok : string) : (coq_N list * coq_N list) list option =
  if tok = "E" then None
  else if tok = "-" then Some []
  else Some (Stdlib.List.map (fun kv ->
      match String.split_on_char '=' kv with
      | [k; v] -> (bytes_of_token k, bytes_of_token v)
      | _ -> failwith "bad pq item") (String.split_on_char '&' tok))

let bit n i = (n lsr i) land 1 = 1

let show_auth (a : AuthRtsp.auth) =
  String.concat "|" (Stdlib.List.map hex_of_bytes
    [a.AuthRtsp.au_typ; a.AuthRtsp.au_username; a.AuthRtsp.au_password; a.AuthRtsp.au_realm; a.AuthRtsp.au_nonce;
     a.AuthRtsp.au_algorithm; a.AuthRtsp.au_uri; a.AuthRtsp.au_response; a.AuthRtsp.au_opaque; a.AuthRtsp.au_stale])

let hdr_list tok = if tok = "-" then [] else
    Stdlib.List.map (fun h -> if h = "N" then [] else bytes_of_token h) (String.split_on_char ',' tok)

(* the sandbox of the end-to-end file-system ops (same layout in c14.go) *)
let sb_root_s = "/T1/T2/outer/root"
let sb_dirs = ["/T1/T2/outer/root"; "/T1/T2/outer/recflv"; "/T1/T2/outer/rects"; "/T1/T2/outer"; "/T1/T2"; "/T1"; "/"]
let sb_files = [
  "/T1/T2/outer/root/s1/playlist.m3u8"; "/T1/T2/outer/root/s1/record.m3u8"; "/T1/T2/outer/root/s1/s1-1-2.ts";
  "/T1/T2/outer/root/a-b/a-b-1-2.ts"; "/T1/T2/outer/root/playlist.m3u8"; "/T1/T2/outer/root/x-1-2.ts";
  "/T1/T2/outer/root/.../playlist.m3u8";
  "/T1/T2/outer/playlist.m3u8"; "/T1/T2/outer/record.m3u8"; "/T1/T2/outer/..-1-2.ts"; "/T1/T2/outer/secret.ts";
  "/T1/T2/playlist.m3u8"; "/T1/T2/..-1-2.ts" ]
let string_of_bytes (l : coq_N list) = String.init (Stdlib.List.length l) (fun i -> Char.chr ((int_of_n (Stdlib.List.nth l i)) land 255))
let bytes_of_string (s : string) : coq_N list = Stdlib.List.init (String.length s) (fun i -> byte_tab.(Char.code s.[i]))

let dirname (s : string) = match String.rindex_opt s '/' with None -> "." | Some 0 -> "/" | Some i -> String.sub s 0 i

(* every ancestor of a path, the path included (MkdirAll) *)
let rec ancestors (s : string) = if s = "/" || s = "." || s = "" then [s] else s :: ancestors (dirname s)
let sb_root () = bytes_of_string sb_root_s
let tok_s s = hex_of_bytes (bytes_of_string s)
let listing (l : string list) =
  let l = Stdlib.List.sort_uniq compare l in
  if l = [] then "-" else String.concat "," (Stdlib.List.map tok_s l)

let register () =
  Registry.register "c14.simple" (function
      | [flags; key; ovr; dir; proto; stream; param; md5t; pq; low] ->
        let f = int_of_string flags in
        let cfg = { AuthSimple.sa_key = bytes_of_token key; sa_override = bytes_of_token ovr;
                    sa_pub_rtmp = bit f 0; sa_sub_rtmp = bit f 1; sa_sub_flv = bit f 2; sa_sub_ts = bit f 3;
                    sa_pub_rtsp = bit f 4; sa_sub_rtsp = bit f 5; sa_hls_m3u8 = bit f 6 } in
        let pqv = parse_pq pq in
        let r = AuthSimple.sa_decide_gen (fn_total "md5" md5t) (fun _ -> pqv) (fn_total "lower" low) fixed cfg
            (n_of_token dir) (bytes_of_token proto) (bytes_of_token stream) (bytes_of_token param) in
        token_of_n (AuthSimple.sa_code r)
      | _ -> "bad-args");
  (* end-to-end: a real httpflv / httpts SubSession offered to a real ServerManager *)
  Registry.register "c14.smsub" (function
      | [flags; key; ovr; kind; stream; param; md5t; pq; low] ->
        let f = int_of_string flags in
        let cfg = { AuthSimple.sa_key = bytes_of_token key; sa_override = bytes_of_token ovr;
                    sa_pub_rtmp = bit f 0; sa_sub_rtmp = bit f 1; sa_sub_flv = bit f 2; sa_sub_ts = bit f 3;
                    sa_pub_rtsp = bit f 4; sa_sub_rtsp = bit f 5; sa_hls_m3u8 = bit f 6 } in
        let pqv = parse_pq pq in
        let proto = bytes_of_string (if kind = "0" then "FLV" else "TS") in
        let r = AuthSimple.sa_decide_gen (fn_total "md5" md5t) (fun _ -> pqv) (fn_total "lower" low) fixed cfg
            (n_of_int 1) proto (bytes_of_token stream) (bytes_of_token param) in
        let g = AuthGate.sm_on_new_http_sub r in
        Printf.sprintf "%s %s %s %s %s" (token_of_n g.AuthGate.go_code) (token_of_n g.AuthGate.go_listed) (token_of_bool g.AuthGate.go_wrote)
          (token_of_bool g.AuthGate.go_kicked) (token_of_bool g.AuthGate.go_closed)
      | _ -> "bad-args");
  (* end-to-end: the six ServerManager session callbacks, each with a real session object *)
  Registry.register "c14.smcb" (function
      | [flags; key; ovr; cb; stream; param; md5t; pq; low] ->
        let f = int_of_string flags in
        let cfg = { AuthSimple.sa_key = bytes_of_token key; sa_override = bytes_of_token ovr;
                    sa_pub_rtmp = bit f 0; sa_sub_rtmp = bit f 1; sa_sub_flv = bit f 2; sa_sub_ts = bit f 3;
                    sa_pub_rtsp = bit f 4; sa_sub_rtsp = bit f 5; sa_hls_m3u8 = bit f 6 } in
        let pqv = parse_pq pq in
        let cbn = n_of_token cb in
        let r = AuthSimple.sa_decide_gen (fn_total "md5" md5t) (fun _ -> pqv) (fn_total "lower" low) fixed cfg
            (AuthGate.callback_dir cbn) (AuthGate.callback_proto cbn) (bytes_of_token stream) (bytes_of_token param) in
        let (code, att) = AuthGate.sm_callback cbn r in
        (* OnNewRtspSubSessionDescribe returns a bool, not the error *)
        let code = if cb = "5" && int_of_n code <> 0 then n_of_int 1 else code in
        Printf.sprintf "%s %s" (token_of_n code) (token_of_bool att)
      | _ -> "bad-args");
  (* end-to-end: ServerManager.serveHls histories (requests / add_ip_blacklist / clock) *)
  Registry.register "c14.servehls" (function
      | [flags; key; ovr; sub; timeout; scen; md5t; pqt; low; pqallt] ->
        let f = int_of_string flags in
        let cfg = { AuthSimple.sa_key = bytes_of_token key; sa_override = bytes_of_token ovr;
                    sa_pub_rtmp = bit f 0; sa_sub_rtmp = bit f 1; sa_sub_flv = bit f 2; sa_sub_ts = bit f 3;
                    sa_pub_rtsp = bit f 4; sa_sub_rtsp = bit f 5; sa_hls_m3u8 = bit f 6 } in
        let pqtab = table "pq" pqt and pqalltab = table "pqall" pqallt in
        let pqf = fun q -> parse_pq (lookup "pq" pqtab q) in
        let pqall = fun q -> (match parse_pq (lookup "pqall" pqalltab q) with Some l -> l | None -> failwith "pqall-E") in
        String.concat "|" (Stdlib.List.map (fun sc ->
            (* a scenario may start with its own configuration  C:<flags>:<sub>:<timeout>  *)
            let (cfg, sub, timeout, sc) =
              match String.split_on_char ',' sc with
              | first :: rest when String.length first > 2 && String.sub first 0 2 = "C:" ->
                (match String.split_on_char ':' first with
                 | [_; fl; sb; tm] -> ({ cfg with AuthSimple.sa_hls_m3u8 = bit (int_of_string fl) 6 }, sb, tm, String.concat "," rest)
                 | _ -> failwith "bad scenario config")
              | _ -> (cfg, sub, timeout, sc) in
            let ops = Stdlib.List.map (fun o ->
                match String.split_on_char ':' o with
                | ["G"; ip; path; q; _uri] -> AuthServeHls.ShGet (bytes_of_token ip, bytes_of_token path, bytes_of_token q)
                | ["B"; ip; d] -> AuthServeHls.ShBlacklist (bytes_of_token ip, z_of_token d)
                | ["S"; s] -> AuthServeHls.ShSleep (z_of_token s)
                | ["K"; sid] -> AuthServeHls.ShKick (bytes_of_token sid)
                | ["L"] -> AuthServeHls.ShList
                | _ -> failwith "bad servehls op") (String.split_on_char ',' sc) in
            (* the harness places operations 500 ms into a second and the handler's ticker at whole seconds *)
            let rs = AuthServeHls.sh_run (fn_total "md5" md5t) pqf (fn_total "lower" low) pqall cfg (bool_of_token sub) (sb_root ())
                (z_of_token timeout) (z_of_int 0) AuthServeHls.hls_state0 (z_of_int 1000500) ops in
            if rs = [] then "-" else String.concat "," (Stdlib.List.map (function
                | AuthServeHls.HrFile p -> if Stdlib.List.mem (string_of_bytes p) sb_files then "200:" ^ hex_of_bytes p else "404"
                | AuthServeHls.HrInvalid -> "302"
                | AuthServeHls.HrBlocked -> "404"
                | AuthServeHls.HrNoSession -> "404"
                | AuthServeHls.HrRedirect sid -> "302r:" ^ hex_of_bytes sid
                | AuthServeHls.HrKick b -> if b then "K1" else "K0"
                | AuthServeHls.HrListed n -> "L" ^ string_of_int (int_of_n n)
                | AuthServeHls.HrAuthFail -> "200-empty") rs)) (String.split_on_char '|' scen))
      | _ -> "bad-args");
  Registry.register "c14.secret" (function
      | [key; stream; md5t] -> hex_of_bytes (AuthSimple.calc_secret (fn_total "md5" md5t) (bytes_of_token key) (bytes_of_token stream))
      | _ -> "bad-args");
  Registry.register "c14.parse" (function
      | [meth; user; pass; hdrs; md5t; b64t] ->
        let md5 = fn_total "md5" md5t and b64 = fn_opt "b64" b64t in
        let a = ref AuthRtsp.auth_zero in
        String.concat ";" (Stdlib.List.map (fun h ->
            let (a1, err) = AuthRtsp.parse_authorization_gen b64 fixed !a h in
            a := a1;
            let chk = AuthRtsp.check_authorization md5 a1 (bytes_of_token meth) (bytes_of_token user) (bytes_of_token pass) in
            Printf.sprintf "%s|%s|%s" (token_of_bool err) (show_auth a1) (token_of_bool chk)) (hdr_list hdrs))
      | _ -> "bad-args");
  Registry.register "c14.mkauth" (function
      | [typ; user; pass; realm; nonce; alg; meth; uri; md5t; b64e] ->
        let a = { AuthRtsp.auth_zero with AuthRtsp.au_typ = bytes_of_token typ; au_username = bytes_of_token user;
                  au_password = bytes_of_token pass; au_realm = bytes_of_token realm; au_nonce = bytes_of_token nonce;
                  au_algorithm = bytes_of_token alg } in
        hex_of_bytes (AuthRtsp.make_authorization (fn_total "md5" md5t) (fn_total "b64enc" b64e) a (bytes_of_token meth) (bytes_of_token uri))
      | _ -> "bad-args");
  Registry.register "c14.describe" (function
      | [enable; meth; user; pass; hdrs; md5t; b64t] ->
        let c = { AuthRtsp.rc_enable = bool_of_token enable; rc_method = z_of_token meth;
                  rc_user = bytes_of_token user; rc_pass = bytes_of_token pass } in
        (* request list: N = DESCRIBE without Authorization, A / R = ANNOUNCE the observer accepts / refuses, else DESCRIBE with that header *)
        let reqs = if hdrs = "-" then [] else Stdlib.List.map (fun h ->
            if h = "A" then AuthRtsp.RqAnnounce true else if h = "R" then AuthRtsp.RqAnnounce false
            else AuthRtsp.RqDescribe (if h = "N" then [] else bytes_of_token h)) (String.split_on_char ',' hdrs) in
        let rs =
          if fixed then AuthRtsp.rtsp_conn (fn_total "md5" md5t) (fn_opt "b64" b64t) c AuthRtsp.auth_zero false reqs
          else AuthRtsp.describe_session_gen (fn_total "md5" md5t) (fn_opt "b64" b64t) false false c AuthRtsp.auth_zero
              (Stdlib.List.map (function AuthRtsp.RqDescribe h -> h | _ -> failwith "pinned model has no ANNOUNCE") reqs) in
        if rs = [] then "-" else String.concat "," (Stdlib.List.map (fun r -> token_of_n (AuthRtsp.dr_code r)) rs)
      | _ -> "bad-args");
  Registry.register "c14.clean" (function
      | [p] -> hex_of_bytes (AuthPaths.clean (bytes_of_token p))
      | _ -> "bad-args");
  Registry.register "c14.join" (function
      | [elems] -> hex_of_bytes (AuthPaths.join_clean (Stdlib.List.map bytes_of_token (String.split_on_char ',' elems)))
      | _ -> "bad-args");
  Registry.register "c14.reqinfo" (function
      | [root; path; _uri] ->
        let path = bytes_of_token path in
        let last = AuthPaths.last_item_of_path path in
        let (noext, ft) = AuthPaths.filename_and_type last in
        let ri = AuthPaths.get_request_info_gen fixed path (bytes_of_token root) in
        String.concat " " (Stdlib.List.map hex_of_bytes [last; noext; ft; ri.AuthPaths.ri_stream; ri.AuthPaths.ri_file])
      | _ -> "bad-args");
  Registry.register "c14.hlsserve" (function
      | [path; _uri] ->
        (match AuthPaths.hls_serve_file_gen fixed (bytes_of_token path) (sb_root ()) with
         | None -> "302"
         | Some p ->
           let ps = string_of_bytes p in
           if Stdlib.List.mem ps sb_files then "200 " ^ hex_of_bytes p else "404")
      | _ -> "bad-args");
  Registry.register "c14.muxpaths" (function
      | [root; name; index; ts] ->
        let name = bytes_of_token name in
        let l = AuthPaths.muxer_paths_gen fixed (bytes_of_token root) name (n_of_token index) (n_of_token ts) in
        String.concat " " (Stdlib.List.map hex_of_bytes (AuthPaths.get_ts_file_name_gen fixed name (n_of_token index) (n_of_token ts) :: l))
      | _ -> "bad-args");
  (* end-to-end: a real hls.Muxer writes one fragment below /T1/T2/outer/root: the paths it
     reports to its observer and what exists on the disk afterwards (file-system
     semantics - a file is created only in an existing directory - live here, not in Coq) *)
  Registry.register "c14.hlsmux" (function
      | [name] ->
        (match AuthPaths.muxer_paths_gen fixed (sb_root ()) (bytes_of_token name) (n_of_int 0) (n_of_int 1000) with
         | [op; live; rcd; ts] ->
           let op = string_of_bytes op and live = string_of_bytes live and rcd = string_of_bytes rcd and ts = string_of_bytes ts in
           let dirs = ancestors op @ sb_dirs in
           let newdirs = Stdlib.List.filter (fun d -> not (Stdlib.List.mem d sb_dirs)) (ancestors op) in
           let created = Stdlib.List.mem (dirname ts) dirs && not (Stdlib.List.mem ts dirs) in
           let files = if created then [ts; live; rcd] else [] in
           Printf.sprintf "%s %s %s %s %s" (tok_s op) (if created then tok_s ts else "-")
             (if created then tok_s live else "-") (if created then tok_s rcd else "-")
             (listing (Stdlib.List.map (fun d -> d ^ "/") newdirs @ files))
         | _ -> "model-failure muxer_paths")
      | _ -> "bad-args");
  (* end-to-end: logic.Group with flv + mpegts recording into /T1/T2/outer/recflv and /T1/T2/outer/rects *)
  Registry.register "c14.record" (function
      | [name] ->
        let name = bytes_of_token name in
        let stamp = bytes_of_string "T" in
        let f1 = string_of_bytes (AuthPaths.record_file_gen fixed (bytes_of_string "/T1/T2/outer/recflv") name stamp (bytes_of_string ".flv")) in
        let f2 = string_of_bytes (AuthPaths.record_file_gen fixed (bytes_of_string "/T1/T2/outer/rects") name stamp (bytes_of_string ".ts")) in
        listing (Stdlib.List.filter (fun f -> Stdlib.List.mem (dirname f) sb_dirs && not (Stdlib.List.mem f sb_dirs)) [f1; f2])
      | _ -> "bad-args");
  Registry.register "c14.bl" (function
      | [scen] ->
        String.concat "|" (Stdlib.List.map (fun sc ->
            let ops = Stdlib.List.map (fun o ->
                match String.split_on_char ':' o with
                | ["A"; ip; d] -> AuthBlacklist.BlAdd (bytes_of_token ip, z_of_token d)
                | ["H"; ip] -> AuthBlacklist.BlHas (bytes_of_token ip)
                | ["S"; s] -> AuthBlacklist.BlSleep (z_of_token s)
                | _ -> failwith "bad bl op") (String.split_on_char ',' sc) in
            let rs = AuthBlacklist.bl_run [] (z_of_int 1000) ops in
            if rs = [] then "-" else String.concat "" (Stdlib.List.map token_of_bool rs)) (String.split_on_char '|' scen))
      | _ -> "bad-args")
