(* C13 driver, part D: the RTSP command layer of the server (Net/NetRtspCmd.v); op in harness/cmd/lalprobe/c13_cmd.go *)
open Conv

let panic s = if int_of_n s = 27 then "panic@rtsp.parseTransport:index" else Drv_c13_msg.panic s

let bytes_of_string s = Stdlib.List.map (fun c -> n_of_int (Char.code c)) (Stdlib.List.of_seq (String.to_seq s))
let zs (z : BinNums.coq_Z) = string_of_int (match z with
    | BinNums.Z0 -> 0 | BinNums.Zpos p -> int_of_n (BinNums.Npos p) | BinNums.Zneg p -> - (int_of_n (BinNums.Npos p)))

let show_cev (e : NetRtspCmd.cev) : string =
  let r shape cseq tr body = Printf.sprintf "r:200:%s:%s:%s:%s" shape (token_of_bytes cseq) tr body in
  match e with
  | NetRtspCmd.CvCbPub -> "cb:pub"
  | NetRtspCmd.CvCbDescribe -> "cb:desc"
  | NetRtspCmd.CvCbPlay -> "cb:play"
  | NetRtspCmd.CvSetupUdp (cseq, a, b, record) ->
    r "CSeq+Date+Session+Transport" cseq
      (token_of_bytes (bytes_of_string (Printf.sprintf "RTP/AVP/UDP;unicast;client_port=%s-%s;server_port=S%s" (zs a) (zs b) (if record then ";mode=record" else "")))) "-"
  | NetRtspCmd.CvResp (k, cseq, extra) ->
    (match k with
     | NetRtspCmd.KOptions -> r "Server+CSeq+Public" cseq "-" "-"
     | NetRtspCmd.KAnnounce -> r "CSeq" cseq "-" "-"
     | NetRtspCmd.KDescribe -> r "CSeq+Date+Content-Type+Content-Length" cseq "-" (token_of_bytes extra)
     | NetRtspCmd.KSetup -> r "CSeq+Date+Session+Transport" cseq (token_of_bytes extra) "-"
     | NetRtspCmd.KRecord -> r "CSeq+Session" cseq "-" "-"
     | NetRtspCmd.KPlay -> r "CSeq+Date" cseq "-" "-"
     | NetRtspCmd.KTeardown -> r "CSeq" cseq "-" "-")

let show_tp (t : NetRtspCmd.tport) : string =
  let open NetRtspCmd in
  Printf.sprintf "a%d,%s.%s;v%d,%s.%s" (if t.tq_aconn then 1 else 0) (zs t.tq_artp) (zs t.tq_artcp) (if t.tq_vconn then 1 else 0) (zs t.tq_vrtp) (zs t.tq_vrtcp)

let show_state (st : NetRtspCmd.cstate) : string =
  match st.NetRtspCmd.cs_role with
  | NetRtspCmd.RNone -> "none"
  | NetRtspCmd.RPub _ -> "pub:" ^ show_tp st.NetRtspCmd.cs_tp
  | NetRtspCmd.RSub None -> "sub-nosdp:" ^ show_tp st.NetRtspCmd.cs_tp
  | NetRtspCmd.RSub (Some _) -> "sub-sdp:" ^ show_tp st.NetRtspCmd.cs_tp

let register () =
  Registry.register "c13.rtspcmd" (function
      | [ws; pubok; desc; playok; b] ->
        let ob = { NetRtspCmd.ob_pub_ok = (pubok = "1");
                   ob_desc = (if desc = "deny" then None else if desc = "nosdp" then Some None else Some (Some (bytes_of_token desc)));
                   ob_play_ok = (playok = "1") } in
        (match NetRtspCmd.run_cmd Drv_c13.fx NetRtspCmd.uri_ok_k ob (ws = "1") (bytes_of_token b) with
         | Res.Ok (st, evs) ->
           let show e = (if NetRtspCmd.resp_framed (ws = "1") e then "w" else "") ^ show_cev e in
           Printf.sprintf "ok %s %s leak:%d" (if evs = [] then "-" else String.concat ";" (Stdlib.List.map show evs)) (show_state st)
             (2 * int_of_n st.NetRtspCmd.cs_leak)
         | Res.Err _ -> "err-fuel"
         | Res.Panic s -> panic s)
      | _ -> "bad-args")
