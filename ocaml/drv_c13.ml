(* C13 driver: hostile input on the RTP/RTCP, interleaved, WebSocket, PS ... parsers.
   C13_PINNED=1 selects the model of the pinned tree (before the fix commits). *)
open Conv

let fx = not (try Sys.getenv "C13_PINNED" = "1" with Not_found -> false)

let site_name (s : BinNums.coq_N) : string =
  match int_of_n s with
  | 1 -> "rtprtcp.(*RtpPacket).Body:slice"
  | 2 -> "rtprtcp.IsAvcBoundary:index"
  | 3 -> "rtprtcp.IsHevcBoundary:index"
  | 4 -> "rtprtcp.ParseRtcpHeader:index"
  | 5 -> "bele.BeUint32:index"
  | 6 -> "rtprtcp.ParseSr:slice"
  | 7 -> "bele.BeUint16:index"
  | 8 -> "rtsp.(*BaseInSession).handleRtcpPacket:index"
  | 9 -> "rtprtcp.(*RtpUnpackerRaw).TryUnpackOne:divide"
  | 10 -> "rtprtcp.parseAu:index"
  | 11 -> "rtprtcp.(*RtpUnpackerAac).TryUnpackOne:slice"
  | 12 -> "rtprtcp.(*RtpUnpackerAac).TryUnpackOne:divide"
  | 13 -> "rtprtcp.calcPositionIfNeededAvc:index"
  | 14 -> "rtprtcp.calcPositionIfNeededHevc:index"
  | 15 -> "rtprtcp.(*RtpUnpackerAvcHevc).TryUnpackOne:slice"
  | 16 -> "rtprtcp.(*RtpUnpackerAvcHevc).TryUnpackOne:divide"
  | 17 -> "base.ReadWsPayload:makeslice"
  | 18 -> "rtprtcp.ParseRtpHeader:index"
  | 19 -> "rtprtcp.(*RtpPacketList).PopFirst:nil"
  | 20 -> "rtprtcp.(*RtpUnpackerAvcHevc).TryUnpackOne:index"
  | 21 -> "rtprtcp.ParseRtpHeader:slice"
  | 22 -> "rtprtcp.ParseRtcpHeader:slice"
  | 23 -> "rtsp.readInterleaved:makeslice"
  | 30 -> "bele.BeUint32:index"
  | 31 -> "bele.BeUint16:index"
  | 32 -> "gb28181.(*PsUnpacker).parseAvStream:index"
  | 33 -> "gb28181.(*PsUnpacker).parseAvStream:slice"
  | 34 -> "gb28181.readPts:index"
  | 35 -> "gb28181.(*PsUnpacker).onAvPacketWrap:index"
  | 36 -> "rtprtcp.(*RtpPacketList).PopFirst:nil"
  | 37 -> "rtprtcp.(*RtpPacketList).PeekFirst:nil"
  | 38 -> "gb28181.(*PsUnpacker).FeedRtpBody:slice"
  | 39 -> "gb28181.ps:index"
  | 40 -> "gb28181.(*PsUnpacker).parsePsm:slice"
  | 50 -> "sdp.items:index"
  | 51 -> "base.ParseRtmpUrl:slice"
  | 52 -> "base.parseUrlPath:slice"
  | 53 -> "hls.(*DefaultPathStrategy).GetRequestInfo:index"
  | 54 -> "base.(*UrlContext).calcFilenameAndTypeIfNeeded:slice"
  | 60 -> "rtmp.(*ClientSession).doMsg:explicit"
  | 61 -> "bele.BeUint32:index"
  | 62 -> "bele.BeUint16:index"
  | n -> "site" ^ string_of_int n

let panic s = "panic@" ^ site_name s
let small n = string_of_int (int_of_n n)
let nlist l = if l = [] then "-" else String.concat "," (Stdlib.List.map token_of_n l)

let codec_of = function
  | "none" -> 0 | "aac" -> 1 | "aacnoasc" -> 2 | "pcma" -> 3 | "pcmu" -> 4 | "opus" -> 5
  | "h264" -> 6 | "h265" -> 7 | _ -> 8

(* signed decimal token -> Z ; None when it does not fit int64 (strconv.Atoi fails) *)
let z_of_dec (s : string) : BinNums.coq_Z option =
  let neg = String.length s > 0 && s.[0] = '-' in
  let digits = if neg || (String.length s > 0 && s.[0] = '+') then String.sub s 1 (String.length s - 1) else s in
  if digits = "" || String.length digits > 19 then None else begin
    let ok = ref true in
    String.iter (fun c -> if c < '0' || c > '9' then ok := false) digits;
    if not !ok then None else begin
      (* compare against 9223372036854775807 / ...808 as strings *)
      let pad = String.make (19 - String.length digits) '0' ^ digits in
      let lim = if neg then "9223372036854775808" else "9223372036854775807" in
      if pad > lim then None else begin
        (* build N from decimal digits *)
        let n = ref BinNums.N0 in
        String.iter (fun c -> n := BinNat.N.add (BinNat.N.mul !n (n_of_int 10)) (n_of_int (Char.code c - 48))) digits;
        match !n with
        | BinNums.N0 -> Some BinNums.Z0
        | BinNums.Npos p -> Some (if neg then BinNums.Zneg p else BinNums.Zpos p)
      end
    end
  end

let show_ev (e : NetInSess.ev) : string =
  match e with
  | NetInSess.EvRtp s -> "rtp:" ^ token_of_n s
  | NetInSess.EvAv a -> Printf.sprintf "av:%s:%s:%s" (token_of_z a.NetUnpack.av_pt) (token_of_z a.NetUnpack.av_ts) (token_of_bytes a.NetUnpack.av_payload)
  | NetInSess.EvRr (ch, b) -> Printf.sprintf "rr:%s:%s" (token_of_n ch) (token_of_bytes b)
  | NetInSess.EvSep -> "|"

let register () =
  Registry.register "c13.rtp" (function
      | [b] ->
        (match NetRtpHeader.parse_rtp_packet_body fx (bytes_of_token b) with
         | Res.Ok (h, body) ->
           let open NetRtpHeader in
           Printf.sprintf "ok %s %s %s %s %s %s %s %s %s %s %s %s %s" (small h.rh_version) (small h.rh_padding) (small h.rh_extension)
             (small h.rh_cc) (small h.rh_mark) (token_of_n h.rh_pt) (token_of_n h.rh_seq) (token_of_n h.rh_ts) (token_of_n h.rh_ssrc)
             (nlist h.rh_csrc) (token_of_n h.rh_ext_profile) (token_of_bytes h.rh_extensions) (token_of_bytes body)
         | Res.Err _ -> "err"
         | Res.Panic s -> panic s)
      | _ -> "bad-args");
  Registry.register "c13.bound" (function
      | [k; b] ->
        (match NetRtpHeader.rtp_boundary fx (k = "hevc") (bytes_of_token b) with
         | Res.Ok r -> "ok " ^ token_of_bool r
         | Res.Err _ -> "err"
         | Res.Panic s -> panic s)
      | _ -> "bad-args");
  Registry.register "c13.rtcphdr" (function
      | [b] ->
        (match NetRtcp.parse_rtcp_header fx (bytes_of_token b) with
         | Res.Ok h -> let open NetRtcp in
           Printf.sprintf "ok %s %s %s %s %s" (small h.rc_version) (small h.rc_padding) (token_of_n h.rc_count) (token_of_n h.rc_pt) (token_of_n h.rc_length)
         | Res.Err _ -> "err"
         | Res.Panic s -> panic s)
      | _ -> "bad-args");
  Registry.register "c13.sr" (function
      | [b] ->
        (match NetRtcp.parse_sr fx (bytes_of_token b) with
         | Res.Ok s -> let open NetRtcp in
           Printf.sprintf "ok %s %s %s %s %s %s %s" (token_of_n s.sr_ssrc) (token_of_n s.sr_msw) (token_of_n s.sr_lsw) (token_of_n s.sr_ts)
             (token_of_n s.sr_pktcnt) (token_of_n s.sr_octcnt) (token_of_n (middle_ntp s))
         | Res.Err _ -> "err"
         | Res.Panic s -> panic s)
      | _ -> "bad-args");
  Registry.register "c13.insess" (function
      | [ac; aclk; apt; vc; vclk; vpt; pkts] ->
        (match z_of_dec aclk, z_of_dec apt, z_of_dec vclk, z_of_dec vpt with
         | Some aclk, Some apt, Some vclk, Some vpt ->
           let pk = if pkts = "-" then [] else
               Stdlib.List.map (fun it ->
                   match String.index_opt it ':' with
                   | Some i -> (n_of_int (int_of_string (String.sub it 0 i)), bytes_of_token (String.sub it (i + 1) (String.length it - i - 1)))
                   | None -> failwith "bad pkt item") (String.split_on_char ',' pkts) in
           let ac' = if ac = "none" then 0 else codec_of ac and vc' = if vc = "none" then 0 else codec_of vc in
           (match NetInSess.run_insess fx (n_of_int ac') aclk apt (n_of_int vc') vclk vpt pk with
            | Res.Ok evs -> "ok " ^ (if evs = [] then "-" else String.concat ";" (Stdlib.List.map show_ev evs))
            | Res.Err _ -> "err"
            | Res.Panic s -> panic s)
         | _ -> "errsdp")
      | _ -> "bad-args");
  Registry.register "c13.ilv" (function
      | [b] ->
        let s = bytes_of_token b in
        (match NetInterleaved.read_interleaved_all (nat_of_int (Stdlib.List.length s + 1)) s [] with
         | Res.Ok (pk, tail) ->
           let items = Stdlib.List.map (fun (ch, p) -> token_of_n ch ^ ":" ^ token_of_bytes p) pk in
           let last = match tail with Some rest -> "text:" ^ token_of_bytes rest | None -> "err" in
           "ok " ^ String.concat "," (items @ [last])
         | Res.Err _ -> "err-fuel"
         | Res.Panic s -> panic s)
      | _ -> "bad-args");
  Registry.register "c13.ws" (function
      | [b] ->
        let s = bytes_of_token b in
        (match NetWsRead.read_ws_all fx (nat_of_int (Stdlib.List.length s + 1)) s [] with
         | Res.Ok ps -> "ok " ^ String.concat "," (Stdlib.List.map token_of_bytes ps @ ["err"])
         | Res.Err _ -> "err-fuel"
         | Res.Panic s -> panic s)
      | _ -> "bad-args");
  Registry.register "c13.ps" (function
      | [mx; pkts] ->
        let pk = if pkts = "-" then [] else Stdlib.List.map bytes_of_token (String.split_on_char ',' pkts) in
        (match NetPs.run_ps fx (z_of_int (int_of_string mx)) NetPs.ps_init pk with
         | Res.Ok outs ->
           let show = function
             | NetPs.PsErr -> "e" | NetPs.PsOk -> "k"
             | NetPs.PsEv e -> Printf.sprintf "av:%s:%s:%s:%s" (token_of_z e.NetPs.pe_pt) (token_of_z e.NetPs.pe_ts) (token_of_z e.NetPs.pe_pts) (token_of_bytes e.NetPs.pe_payload) in
           "ok " ^ (if outs = [] then "-" else String.concat ";" (Stdlib.List.map show outs))
         | Res.Err _ -> "err-fuel"
         | Res.Panic s -> panic s)
      | _ -> "bad-args");
  Registry.register "c13.rtmpc" (function
      | [_; t; p] ->
        (match NetRtmpClient.client_do_msg fx (n_of_token t) (bytes_of_token p) with
         | Res.Ok NetRtmpClient.RcAmf -> "amf"
         | Res.Ok (NetRtmpClient.RcOk w) -> "ok " ^ token_of_bytes w
         | Res.Err _ -> "err"
         | Res.Panic s -> panic s)
      | _ -> "bad-args");
  Registry.register "c13.rtpmap" (function
      | [l] ->
        (match NetSdpRaw.parse_a_rtpmap (bytes_of_token l) with
         | Res.Ok r -> let open NetSdpRaw in
           Printf.sprintf "ok %s %s %s %s" (token_of_z r.rm_pt) (token_of_bytes r.rm_name) (token_of_z r.rm_clock) (token_of_bytes r.rm_params)
         | Res.Err _ -> "err"
         | Res.Panic s -> panic s)
      | _ -> "bad-args");
  Registry.register "c13.fmtp" (function
      | [l] ->
        (match NetSdpRaw.parse_a_fmtp (bytes_of_token l) with
         | Res.Ok (f, m) ->
           let kv = Stdlib.List.sort compare (Stdlib.List.map (fun (k, v) -> token_of_bytes k ^ "=" ^ token_of_bytes v) m) in
           Printf.sprintf "ok %s %s" (token_of_z f) (if kv = [] then "-" else String.concat ";" kv)
         | Res.Err _ -> "err"
         | Res.Panic s -> panic s)
      | _ -> "bad-args");
  Registry.register "c13.sdpm" (function
      | [l] ->
        (match NetSdpRaw.parse_m (bytes_of_token l) with
         | Res.Ok (m, pt) -> Printf.sprintf "ok %s %s" (token_of_bytes m) (token_of_z pt)
         | Res.Err _ -> "err"
         | Res.Panic s -> panic s)
      | _ -> "bad-args");
  Registry.register "c13.rtmpurl" (function
      | [t] ->
        (match NetUrlPath.parse_rtmp_url fx (bytes_of_token t) with
         | Res.Ok u -> let open NetUrlPath in
           Printf.sprintf "ok %s %s %s %s" (token_of_bytes u.u_path) (token_of_bytes u.u_pwli) (token_of_bytes u.u_last) (token_of_bytes u.u_query)
         | Res.Err _ -> "err"
         | Res.Panic s -> panic s)
      | _ -> "bad-args");
  Registry.register "c13.hlsreq" (function
      | [t] ->
        (match NetUrlPath.hls_request_info (bytes_of_token t) with
         | Res.Ok ((sn, fn), ft) -> Printf.sprintf "ok %s %s %s" (token_of_bytes sn) (token_of_bytes fn) (token_of_bytes ft)
         | Res.Err _ -> "err"
         | Res.Panic s -> panic s)
      | _ -> "bad-args");
  (* unmodelled library surfaces: the model side is the constant "alive" *)
  Stdlib.List.iter (fun op -> Registry.register op (fun _ -> "alive"))
    ["c13x.sdp"; "c13x.url"; "c13x.rtmpclient"; "c13x.flvpull"; "c13x.rtsp"; "c13x.rtspws"; "c13x.rtspclient"; "c13x.api"; "c13x.http"]
