(* C07 driver: RTSP / GB28181 / customize ingest -> RTMP messages.
   C07_PINNED=1 selects the remuxer model of the tree before the C07 fix commits. *)
open Conv

let fx = not (try Sys.getenv "C07_PINNED" = "1" with Not_found -> false)

let opt_tok s = if s = "nil" then None else Some (bytes_of_token s)
let group items = if items = [] then "-" else String.concat ";" items

let show_msg (m : RemuxAv2Rtmp.rmsg) : string =
  match m with
  | RemuxAv2Rtmp.RMeta (a, v) -> Printf.sprintf "M:%s:%s" (token_of_z a) (token_of_z v)
  | RemuxAv2Rtmp.RAv (audio, ts, p) -> Printf.sprintf "%s:%s:%s" (if audio then "A" else "V") (token_of_n ts) (token_of_bytes p)

let show_av (a : NetUnpack.avpkt) : string =
  Printf.sprintf "%s:%s:%s" (token_of_z a.NetUnpack.av_pt) (token_of_z a.NetUnpack.av_ts) (token_of_bytes a.NetUnpack.av_payload)

let packet_of = function
  | [pt; ts; p] -> { NetUnpack.av_pt = z_of_token pt; NetUnpack.av_ts = z_of_token ts; NetUnpack.av_payload = bytes_of_token p }
  | _ -> failwith "bad packet"

let steps tok = if tok = "-" then [] else Stdlib.List.map (String.split_on_char ':') (String.split_on_char ',' tok)

let groups_line gs = if gs = [] then "ok -" else "ok " ^ String.concat "|" gs

let codec_of = function
  | "none" -> 0 | "aac" -> 1 | "pcma" -> 3 | "pcmu" -> 4 | "opus" -> 5 | "h264" -> 6 | "h265" -> 7 | _ -> 8

let rtsp_model = function
  | filter :: rot :: ac :: aclk :: apt :: asc :: vc :: vclk :: vpt :: vps :: sps :: pps :: pkts :: _ ->
    let pk = Stdlib.List.map (function
        | [ch; b] -> (n_of_int (int_of_string ch), bytes_of_token b)
        | _ -> failwith "bad pkt") (steps pkts) in
    RemuxRtspIngest.rtsp_ingest fx (bool_of_token filter) (bool_of_token rot)
      (n_of_int (codec_of ac)) (z_of_token aclk) (z_of_token apt) (opt_tok asc)
      (n_of_int (codec_of vc)) (z_of_token vclk) (z_of_token vpt) (opt_tok vps) (opt_tok sps) (opt_tok pps) pk
  | _ -> failwith "bad-args"

let cust_ops tok =
  Stdlib.List.map (function
      | ["O"; v; a] -> RemuxAv2Rtmp.COption (n_of_int (int_of_string v), n_of_int (int_of_string a))
      | ["C"; asc] -> RemuxAv2Rtmp.CAsc (opt_tok asc)
      | "P" :: rest -> RemuxAv2Rtmp.CPacket (packet_of rest)
      | ["R"; k; ts; p] -> RemuxAv2Rtmp.CRtmp (RemuxAv2Rtmp.RAv (k = "A", n_of_token ts, bytes_of_token p))
      | ["D"] -> RemuxAv2Rtmp.CDispose
      | _ -> failwith "bad step") (steps tok)

(* what the group's stream hook sees: every message with a non-empty payload *)
let hook_line (ms : RemuxAv2Rtmp.rmsg list) =
  let keep = Stdlib.List.filter (function RemuxAv2Rtmp.RAv (_, _, []) -> false | _ -> true) ms in
  "ok " ^ group (Stdlib.List.map show_msg keep)

let register () =
  Registry.register "c07.av2rtmp" (function
      | v :: a :: st :: _ ->
        let r0 = RemuxAv2Rtmp.rs_with_option RemuxAv2Rtmp.rs_new (n_of_int (int_of_string v)) (n_of_int (int_of_string a)) in
        let rec go r l acc =
          match l with
          | [] -> groups_line (Stdlib.List.rev acc)
          | s :: t ->
            let res = (match s with
                | ["I"; asc; vps; sps; pps] -> RemuxAv2Rtmp.init_with_av_config r (opt_tok asc) (opt_tok vps) (opt_tok sps) (opt_tok pps)
                | "P" :: rest -> RemuxAv2Rtmp.feed_av_packet fx r (packet_of rest)
                | _ -> failwith "bad step") in
            (match res with
             | Res.Ok (r1, ms) -> go r1 t (group (Stdlib.List.map show_msg ms) :: acc)
             | Res.Err _ -> "err"
             | Res.Panic _ -> "panic") in
        go r0 (steps st) []
      | _ -> "bad-args");
  Registry.register "c07.avq" (function
      | rot :: pk :: _ ->
        let (_, outs) = RemuxAvQueue.aq_run (bool_of_token rot) RemuxAvQueue.aq_init (Stdlib.List.map packet_of (steps pk)) in
        groups_line (Stdlib.List.map (fun o -> group (Stdlib.List.map show_av o)) outs)
      | _ -> "bad-args");
  Registry.register "c07.rtsp" (fun a ->
      match rtsp_model a with
      | Res.Ok gs -> groups_line (Stdlib.List.map (fun ms -> group (Stdlib.List.map show_msg ms)) gs)
      | Res.Err _ -> "err"
      | Res.Panic _ -> "panic");
  Registry.register "c07.e2e_rtsp" (fun a ->
      match rtsp_model a with
      | Res.Ok gs -> hook_line (Stdlib.List.concat gs)
      | Res.Err _ -> "err"
      | Res.Panic _ -> "panic");
  let ps_model mx pkts =
    let pk = if pkts = "-" then [] else Stdlib.List.map bytes_of_token (String.split_on_char ',' pkts) in
    RemuxPsIngest.ps_ingest_run fx (z_of_int (int_of_string mx)) pk in
  Registry.register "c07.ps" (function
      | mx :: pkts :: _ ->
        (match ps_model mx pkts with
         | Res.Ok gs -> groups_line (Stdlib.List.map (fun (avs, ms) -> group (Stdlib.List.map show_av avs) ^ "~" ^ group (Stdlib.List.map show_msg ms)) gs)
         | Res.Err _ -> "err"
         | Res.Panic _ -> "panic")
      | _ -> "bad-args");
  Registry.register "c07.e2e_ps" (function
      | mx :: pkts :: _ ->
        (match ps_model mx pkts with
         | Res.Ok gs -> hook_line (Stdlib.List.concat (Stdlib.List.map snd gs))
         | Res.Err _ -> "err"
         | Res.Panic _ -> "panic")
      | _ -> "bad-args");
  Registry.register "c07.cust" (function
      | st :: _ ->
        (match RemuxAv2Rtmp.customize_run fx RemuxAv2Rtmp.cs_new (cust_ops st) with
         | Res.Ok gs -> groups_line (Stdlib.List.map (fun (ms, e) -> group (Stdlib.List.map show_msg ms) ^ (if e then "!" else "")) gs)
         | Res.Err _ -> "err"
         | Res.Panic _ -> "panic")
      | _ -> "bad-args");
  Registry.register "c07.e2e_cust" (function
      | st :: _ ->
        (match RemuxAv2Rtmp.customize_run fx RemuxAv2Rtmp.cs_new (cust_ops st) with
         | Res.Ok gs -> hook_line (Stdlib.List.concat (Stdlib.List.map fst gs))
         | Res.Err _ -> "err"
         | Res.Panic _ -> "panic")
      | _ -> "bad-args")
