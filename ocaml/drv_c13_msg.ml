(* C13 driver, part C: the RTSP message reader (Net/NetHttpMsg.v); ops in harness/cmd/lalprobe/c13_msg.go *)
open Conv

let fx = Drv_c13.fx
let panic s = match int_of_n s with
  | 25 -> "panic@nazahttp.ReadHttpMessage:makeslice"
  | 26 -> "panic@nazahttp.ReadHttpHeader:index"
  | _ -> Drv_c13.panic s

let show_hdrs (h : NetHttpMsg.hdrs) : string =
  if h = [] then "-" else
    let kv = Stdlib.List.map (fun (k, vs) -> token_of_bytes k ^ "=" ^ String.concat "|" (Stdlib.List.map token_of_bytes vs)) h in
    String.concat ";" (Stdlib.List.sort compare kv)

let show_msg (m : NetHttpMsg.msg_out) : string =
  let open NetHttpMsg in
  String.concat ":" [token_of_bytes m.mo_a; token_of_bytes m.mo_b; token_of_bytes m.mo_c; show_hdrs m.mo_hdrs; token_of_bytes m.mo_body]

let show_items (l : NetHttpMsg.rtsp_item list) : string =
  if l = [] then "-" else
    String.concat "," (Stdlib.List.map (function
        | NetHttpMsg.ItPkt (ch, p) -> "p:" ^ token_of_n ch ^ ":" ^ token_of_bytes p
        | NetHttpMsg.ItMsg m -> "m:" ^ show_msg m) l)

let register () =
  Registry.register "c13.rtspmsg" (function
      | [kind; b] ->
        (match NetHttpMsg.read_msg fx (bytes_of_token b) with
         | Res.Ok m ->
           let open NetHttpMsg in
           if kind = "raw" then
             Printf.sprintf "ok %s %s %s" (show_msg m) (token_of_n m.mo_cap)
               (match m.mo_err with None -> "-" | Some e -> if int_of_n e = 3 then "eof" else "short")
           else (match m.mo_err with None -> "ok " ^ show_msg m | Some _ -> "err")
         | Res.Err _ -> "err"
         | Res.Panic s -> panic s)
      | _ -> "bad-args");
  let loop f = (function
      | [b] ->
        let s = bytes_of_token b in
        (match f fx (nat_of_int (Stdlib.List.length s + 1)) s [] with
         | Res.Ok l -> "ok " ^ show_items l
         | Res.Err _ -> "err-fuel"
         | Res.Panic s -> panic s)
      | _ -> "bad-args") in
  Registry.register "c13.rtspsrv" (loop NetHttpMsg.rtsp_loop);
  Registry.register "c13.rtspcli" (loop NetHttpMsg.rtsp_loop);
  Registry.register "c13.rtspws" (loop NetHttpMsg.rtsp_ws_loop)
