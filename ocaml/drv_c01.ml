(* fan-out histories: same text format as harness/cmd/lalprobe/c01.go *)
open Conv
open GroupFanout

let kv (s : string) : (string * int) list =
  Stdlib.List.filter_map (fun item ->
      match String.split_on_char '=' item with
      | [k; v] -> Some (k, int_of_string v)
      | _ -> None) (String.split_on_char ',' s)

let get l k = try Stdlib.List.assoc k l with Not_found -> 0

let show_label = function
  | LC i -> Printf.sprintf "c%d" (int_of_nat i)
  | LCW i -> Printf.sprintf "C%d" (int_of_nat i)
  | LT i -> Printf.sprintf "t%d" (int_of_nat i)
  | LTs j -> Printf.sprintf "s%d" (int_of_nat j)
  | LPat k -> Printf.sprintf "a%d" (int_of_nat k)
  | LSdp k -> Printf.sprintf "d%d" (int_of_nat k)
  | LRtp j -> Printf.sprintf "p%d" (int_of_nat j)

let show_labels prefix (l : label list) =
  let ls = Stdlib.List.map show_label l in
  let all = (if prefix = "" then [] else [prefix]) @ ls in
  if all = [] then "-" else String.concat "," all

let parse_cfg (s : string) : cfg =
  let l = kv s in
  { cf_rtmp_enable = get l "re" <> 0; cf_rtmp_gop = nat_of_int (get l "rg"); cf_rtmp_max = nat_of_int (get l "rm");
    cf_flv_enable = get l "fe" <> 0; cf_flv_gop = nat_of_int (get l "fg"); cf_flv_max = nat_of_int (get l "fm");
    cf_ts_gop = nat_of_int (get l "tg"); cf_ts_max = nat_of_int (get l "tm");
    cf_merge = n_of_int (get l "mw"); cf_record_flv = get l "rec" <> 0;
    cf_chunk = n_of_int 4096; cf_ext_at_limit = get l "extfix" <> 0;
    cf_rtsp_wait = get l "rw" <> 0; cf_hook = get l "hook" <> 0; cf_record_ts = get l "trec" <> 0 }

let broken : (int, unit) Hashtbl.t = Hashtbl.create 8

let parse_events (s : string) : (ev list) * (int * char) list =
  let kinds = ref [] in
  Hashtbl.reset broken;
  let evs = Stdlib.List.filter_map (fun e ->
      if e = "" then None else
      match String.split_on_char ':' e with
      | ["I"] -> Some EvInStart
      | ["O"] | ["Oq"] -> Some EvInStop
      | ["K"] -> None
      | ["S"; _] -> Some (EvSdp VOther)
      | ["S"; v; _] -> Some (EvSdp (match (if v = "" then ' ' else v.[0]) with 'a' -> VAvc | 'h' -> VHevc | _ -> VOther))
      | ["D"; id] ->
        let idn = int_of_string id in
        if Stdlib.List.mem_assoc idn !kinds then None
        else begin kinds := (idn, 'd') :: !kinds; Some (EvJoin (KRtsp, n_of_int idn)) end
      | ["Y"; id] -> Some (EvPlay (n_of_int (int_of_string id)))
      | ["R"; b] -> Some (EvRtp (bytes_of_token b))
      | ["X"] -> Some EvDispose
      | ["B"; id] -> Hashtbl.replace broken (int_of_string id) (); None
      | ["P"; t; ts; p] -> Some (EvPublish { GroupMsg.rm_type = n_of_token t; GroupMsg.rm_ts = n_of_token ts; GroupMsg.rm_payload = bytes_of_token p })
      | [j; id] when String.length j = 2 && j.[0] = 'J' ->
        let k = (match j.[1] with 'r' -> KRtmp | 'f' | 'w' -> KFlv | 'p' -> KPush | 't' -> KTs | _ -> failwith "bad kind") in
        let idn = int_of_string id in
        if not (Stdlib.List.mem_assoc idn !kinds) then kinds := (idn, j.[1]) :: !kinds;
        Some (EvJoin (k, n_of_int idn))
      | ["L"; id] -> Some (EvLeave (n_of_int (int_of_string id)))
      | ["T"; _; b] -> Some (EvTs (bool_of_token b))
      | ["A"; _] -> Some EvPatPmt
      | _ -> failwith ("bad event " ^ e)) (String.split_on_char ';' s) in
  (evs, !kinds)

let run_hist cfgtok evtok =
  let c = parse_cfg cfgtok in
  let (evs, kinds) = parse_events evtok in
  (* the harness always stops the input at the end of the history *)
  let st = run c (evs @ [EvInStop]) in
  let cons = all_consumers st in
  let ids = Stdlib.List.sort_uniq compare (Stdlib.List.map fst kinds) in
  let parts = Stdlib.List.map (fun id ->
      let k = Stdlib.List.assoc id kinds in
      let mine = Stdlib.List.filter (fun x -> int_of_n x.c_id = id) cons in
      let body =
        if Hashtbl.mem broken id then "!" else
        match k with
        | 'p' ->
          if mine = [] then "-" else String.concat "/" (Stdlib.List.map (fun x -> show_labels "" x.c_out) mine)
        | 'f' | 'w' -> String.concat "/" (Stdlib.List.map (fun x -> show_labels "HF" x.c_out) mine)
        | 't' -> String.concat "/" (Stdlib.List.map (fun x -> show_labels "H" x.c_out) mine)
        | _ -> String.concat "/" (Stdlib.List.map (fun x -> show_labels "" x.c_out) mine) in
      Printf.sprintf "%d=%s" id body) ids in
  let parts =
    if c.cf_record_flv then
      let recs = Stdlib.List.rev st.g_rec in
      parts @ ["rec=" ^ (if recs = [] then "-" else String.concat "/" (Stdlib.List.map (show_labels "F") recs))]
    else parts in
  let parts =
    if Stdlib.List.mem EvDispose evs then
      (* sessions still attached after the history (push sessions are not shown) *)
      let live = Stdlib.List.filter_map (fun x -> if x.c_kind = KPush then None else Some (string_of_int (int_of_n x.c_id))) st.g_subs in
      parts @ ["live=" ^ (if live = [] then "-" else String.concat "," live)]
    else parts in
  let parts =
    if c.cf_record_ts then
      let recs = Stdlib.List.rev st.g_trec in
      parts @ ["trec=" ^ (if recs = [] then "-" else String.concat "/" (Stdlib.List.map (show_labels "") recs))]
    else parts in
  let parts =
    if c.cf_hook then
      let hs = Stdlib.List.rev st.g_hook in
      let show (ms, st) =
        (if ms = [] then "-" else String.concat "," (Stdlib.List.map (fun i -> string_of_int (int_of_nat i)) ms))
        ^ ":" ^ string_of_int (int_of_nat st) in
      parts @ ["hook=" ^ (if hs = [] then "-" else String.concat "/" (Stdlib.List.map show hs))]
    else parts in
  if parts = [] then "-" else String.concat "|" parts

let show_res = function
  | Res.Ok b -> token_of_bytes b
  | Res.Err _ -> "err"
  | Res.Panic s -> "panic"

let register () =
  Registry.register "c01.conv" (function
      | [t; ts; p] ->
        let m = { GroupMsg.rm_type = n_of_token t; GroupMsg.rm_ts = n_of_token ts; GroupMsg.rm_payload = bytes_of_token p } in
        Printf.sprintf "%s %s %s" (show_res (GroupFanoutBytes.chunk_bytes false m)) (show_res (GroupFanoutBytes.chunk_bytes true m))
          (token_of_bytes (GroupFanoutBytes.tag_bytes m))
      | _ -> "bad-args");
  Registry.register "c01.hist" (function
      | [c; e] -> run_hist c e
      | _ -> "bad-args")
