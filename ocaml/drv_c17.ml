(* C17 driver, message packer part: c17.pack <tree> <app> <tcUrl> <flashVer> <stream> <isPush>
   (the relay state machine ops c17.run are registered by drv_c03.ml) *)
open Conv
module P = RtmpMsgPackerBuf

let site_name s =
  match int_of_n s with
  | 1 -> "panic@rtmp.(*Buffer).grow:slice"
  | 2 -> "panic@rtmp.(*Buffer).Write:slice"
  | 3 -> "panic@rtmp.(*Buffer).Bytes:slice"
  | k -> "panic " ^ string_of_int k

let register () =
  Registry.register "c17.pack" (function
      | [tree; app; tc; fv; stream; push] ->
        (match P.pack_seq (tree <> "pinned") (bytes_of_token app) (bytes_of_token tc) (bytes_of_token fv)
                 (bytes_of_token stream) (bool_of_token push) with
         | Res.Ok out -> token_of_bytes out
         | Res.Err _ -> "err"
         | Res.Panic s -> site_name s)
      | _ -> "bad-args")
