(* Conversions between the text protocol and the extracted Coq datatypes.
   Shared by every driver.  NOTE: the extracted modules List/Nat shadow the
   OCaml ones in this directory; use Stdlib.List etc. explicitly. *)
open BinNums

let full_output = (try Sys.getenv "PROBE_FULL" = "1" with Not_found -> false)

let rec pos_of_int (i : int) : positive =
  if i <= 1 then Coq_xH
  else if i land 1 = 1 then Coq_xI (pos_of_int (i lsr 1))
  else Coq_xO (pos_of_int (i lsr 1))
let n_of_int (i : int) : coq_N = if i <= 0 then N0 else Npos (pos_of_int i)
let rec int_of_pos = function
  | Coq_xH -> 1 | Coq_xO p -> 2 * int_of_pos p | Coq_xI p -> 2 * int_of_pos p + 1
let int_of_n = function N0 -> 0 | Npos p -> int_of_pos p
let z_of_int (i : int) : coq_Z =
  if i = 0 then Z0 else if i > 0 then Zpos (pos_of_int i) else Zneg (pos_of_int (- i))
let int_of_z = function Z0 -> 0 | Zpos p -> int_of_pos p | Zneg p -> - (int_of_pos p)

let rec nat_of_int (i : int) : Datatypes.nat =
  let rec go acc i = if i <= 0 then acc else go (Datatypes.S acc) (i - 1) in go Datatypes.O i
let int_of_nat (n : Datatypes.nat) : int =
  let rec go acc = function Datatypes.O -> acc | Datatypes.S m -> go (acc + 1) m in go 0 n

(* bits (lsb first) <-> N, for numbers beyond 62 bits *)
let n_of_bits_lsb (bits : bool list) : coq_N =
  (* strip high zeros *)
  let rec strip = function [] -> [] | false :: t -> strip t | l -> l in
  match strip (Stdlib.List.rev bits) with
  | [] -> N0
  | _ :: msb_first_rest ->
    Npos (Stdlib.List.fold_left (fun acc b -> if b then Coq_xI acc else Coq_xO acc) Coq_xH msb_first_rest)
let bits_lsb_of_n (n : coq_N) : bool list =
  let rec go = function Coq_xH -> [true] | Coq_xO p -> false :: go p | Coq_xI p -> true :: go p in
  match n with N0 -> [] | Npos p -> go p

let hexval c =
  match c with
  | '0'..'9' -> Char.code c - 48
  | 'a'..'f' -> Char.code c - 87
  | 'A'..'F' -> Char.code c - 55
  | _ -> failwith "bad hex digit"

(* number token: decimal (must fit 62 bits) or 0x... (any size) *)
let n_of_token (s : string) : coq_N =
  let l = String.length s in
  if l > 2 && s.[0] = '0' && (s.[1] = 'x' || s.[1] = 'X') then begin
    let bits = ref [] in (* lsb first *)
    for i = 2 to l - 1 do
      let v = hexval s.[i] in
      (* previous bits shift up by 4: we build msb-first then reverse *)
      bits := (v land 1 = 1) :: (v land 2 = 2) :: (v land 4 = 4) :: (v land 8 = 8) :: !bits
    done;
    n_of_bits_lsb !bits
  end else n_of_int (int_of_string s)
let int_of_token (s : string) : int = int_of_string s
let nat_of_token s = nat_of_int (int_of_string s)
let bool_of_token s = (s = "1" || s = "true")

(* canonical number output: 0x hex *)
let token_of_n (n : coq_N) : string =
  match n with
  | N0 -> "0x0"
  | _ ->
    let bits = Array.of_list (bits_lsb_of_n n) in
    let nb = Array.length bits in
    let nd = (nb + 3) / 4 in
    let b = Buffer.create (nd + 2) in
    Buffer.add_string b "0x";
    for d = nd - 1 downto 0 do
      let v = ref 0 in
      for k = 3 downto 0 do
        let i = d * 4 + k in
        v := !v * 2 + (if i < nb && bits.(i) then 1 else 0)
      done;
      Buffer.add_char b "0123456789abcdef".[!v]
    done;
    Buffer.contents b
let token_of_int (i : int) : string = Printf.sprintf "0x%x" i
let token_of_nat n = token_of_int (int_of_nat n)
let token_of_bool b = if b then "1" else "0"
let token_of_z (z : coq_Z) : string =
  match z with Z0 -> "0x0" | Zpos p -> token_of_n (Npos p) | Zneg p -> "-" ^ token_of_n (Npos p)
let z_of_token (s : string) : coq_Z =
  if String.length s > 0 && s.[0] = '-' then
    (match n_of_token (String.sub s 1 (String.length s - 1)) with N0 -> Z0 | Npos p -> Zneg p)
  else (match n_of_token s with N0 -> Z0 | Npos p -> Zpos p)

(* small table of the 256 byte values so that byte lists share structure *)
let byte_tab : coq_N array = Array.init 256 n_of_int

(* pseudo-random payload notation r<len>.<seed> : identical in Go / python *)
let prng_byte seed i =
  let x = (seed * 1000003 + i * 7919 + (i / 251) * 104729) land 0x7fffffff in
  (x lxor (x lsr 8) lxor (x lsr 16)) land 0xff

(* bytes token: "-" (empty), hex digits, or r<len>.<seed>; several parts may
   be joined with '+' *)
let rec bytes_of_token (s : string) : coq_N list =
  if String.contains s '+' then
    Stdlib.List.concat (Stdlib.List.map bytes_of_token (String.split_on_char '+' s))
  else if s = "-" || s = "" then []
  else if s.[0] = 'r' then begin
    match String.split_on_char '.' (String.sub s 1 (String.length s - 1)) with
    | [l; sd] ->
      let len = int_of_string l and seed = int_of_string sd in
      let rec go i acc = if i < 0 then acc else go (i - 1) (byte_tab.(prng_byte seed i) :: acc) in
      go (len - 1) []
    | _ -> failwith "bad r token"
  end else begin
    let l = String.length s in
    if l land 1 = 1 then failwith "odd hex";
    let rec go i acc =
      if i < 0 then acc
      else go (i - 2) (byte_tab.(hexval s.[i] * 16 + hexval s.[i + 1]) :: acc) in
    go (l - 2) []
  end

let int_of_byte (n : coq_N) : int = int_of_n n

let fnv1a64 (l : coq_N list) : int64 =
  Stdlib.List.fold_left
    (fun h b -> Int64.mul (Int64.logxor h (Int64.of_int (int_of_byte b land 0xff))) 0x100000001b3L)
    0xcbf29ce484222325L l

let hex_of_bytes (l : coq_N list) : string =
  let b = Buffer.create 64 in
  Stdlib.List.iter (fun x ->
      let v = int_of_byte x in
      if v > 255 then Buffer.add_string b (Printf.sprintf "<%x>" v)
      else Buffer.add_string b (Printf.sprintf "%02x" v)) l;
  if Buffer.length b = 0 then "-" else Buffer.contents b

let summary_limit = 64
(* canonical bytes output: hex when short, else #len:fnv1a64:first8 *)
let token_of_bytes (l : coq_N list) : string =
  let n = Stdlib.List.length l in
  if full_output || n <= summary_limit then hex_of_bytes l
  else begin
    let rec firstn k = function [] -> [] | x :: t -> if k = 0 then [] else x :: firstn (k - 1) t in
    Printf.sprintf "#%d:%016Lx:%s" n (fnv1a64 l) (hex_of_bytes (firstn 8 l))
  end

let split_on (c : char) (s : string) : string list =
  if s = "" then [] else String.split_on_char c s
