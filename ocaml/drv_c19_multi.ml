(* C19 driver, follow-up: sequence headers with several parameter sets through every converter *)
open Conv

let show_list (l : BinNums.coq_N list list) =
  if l = [] then "none" else String.concat "," (Stdlib.List.map token_of_bytes l)

let opt_tok (b : BinNums.coq_N list) = if b = [] then "nil" else token_of_bytes b

let register () =
  Registry.register "c19.avc_parse_list" (function
      | [b] -> Drv_c19.show_res (fun (s, p) -> show_list s ^ " " ^ show_list p)
                 (CodecSeqHeaderMulti.avc_parse_seq_header_list_copy (bytes_of_token b))
      | _ -> "bad-args");
  Registry.register "c19.avc_hdr_sdp" (function
      | [b] -> (match CodecSeqHeaderMulti.avc_hdr_sdp (bytes_of_token b) with
          | Some (s, p) -> "ok " ^ token_of_bytes s ^ " " ^ token_of_bytes p
          | None -> "none")
      | _ -> "bad-args");
  Registry.register "c19.hevc_hdr_sdp" (function
      | [b] -> (match CodecSeqHeaderMulti.hevc_hdr_sdp (bytes_of_token b) with
          | Some ((v, s), p) -> "ok " ^ opt_tok v ^ " " ^ token_of_bytes s ^ " " ^ token_of_bytes p
          | None -> "none")
      | _ -> "bad-args")
