(* C13 driver, part E: the RTSP command layer of the client (Net/NetRtspClient.v); op in harness/cmd/lalprobe/c13_clt.go *)
open Conv

let bytes_of_string s = Stdlib.List.map (fun c -> n_of_int (Char.code c)) (Stdlib.List.of_seq (String.to_seq s))

let show_req (q : NetRtspClient.creq) : string =
  let open NetRtspClient in
  let hs = Stdlib.List.map (fun (k, v) -> token_of_bytes k ^ "=" ^ token_of_bytes v) q.rq_hdrs in
  Printf.sprintf "q:%s:%s:%s:%s" (token_of_bytes q.rq_method) (token_of_bytes q.rq_uri)
    (String.concat ";" (Stdlib.List.sort compare hs)) (token_of_bytes q.rq_body)

let register () =
  Registry.register "c13.rtspclt" (function
      | [push; tcp; user; pass; psdp; b] ->
        let c = { NetRtspClient.cc_push = (push = "1"); cc_tcp = (tcp = "1"); cc_user = bytes_of_token user; cc_pass = bytes_of_token pass;
                  cc_url = bytes_of_string "rtsp://127.0.0.1:P/live/x"; cc_sdp = bytes_of_token psdp } in
        (match NetRtspClient.client_run Drv_c13.fx c (bytes_of_token b) with
         | Res.Ok (st, o) ->
           let reqs = Stdlib.List.rev st.NetRtspClient.k_out in
           Printf.sprintf "ok %s sdp:%d %s" (if reqs = [] then "-" else String.concat "," (Stdlib.List.map show_req reqs))
             (int_of_n st.NetRtspClient.k_sdp)
             (match o with NetRtspClient.CFailed -> "failed" | NetRtspClient.CEnded -> "ended" | NetRtspClient.CRunning -> "running" | NetRtspClient.CBadSdp -> "badsdp")
         | Res.Err e -> if int_of_n e = 255 then "never-ends" else "err"
         | Res.Panic s -> Drv_c13_cmd.panic s)
      | _ -> "bad-args")
