(* C13 driver, part E: the RTSP command layer of the client (Net/NetRtspClient.v); op in harness/cmd/lalprobe/c13_clt.go *)
open Conv

let bytes_of_string s = Stdlib.List.map (fun c -> n_of_int (Char.code c)) (Stdlib.List.of_seq (String.to_seq s))

(* The harness shows the requests as an RTSP reader sees them on the wire (lal's own request reader over everything
   the client wrote): the model's requests go through the model of that reader as well, so that an a=control value
   with a space or a line break in it, or a session id with spaces around it, look the same on both sides. *)
let crlf = bytes_of_string "\r\n"
let wire_of (q : NetRtspClient.creq) : BinNums.coq_N list =
  let open NetRtspClient in
  q.rq_method @ bytes_of_string " " @ q.rq_uri @ bytes_of_string " RTSP/1.0" @ crlf
  @ Stdlib.List.concat (Stdlib.List.map (fun (k, v) -> k @ bytes_of_string ": " @ v @ crlf) q.rq_hdrs)
  @ crlf @ q.rq_body

let string_of_bytes (b : BinNums.coq_N list) : string = String.concat "" (Stdlib.List.map (fun c -> String.make 1 (Char.chr (int_of_n c))) b)

let show_seen (m : NetHttpMsg.msg_out) : string =
  let open NetHttpMsg in
  let uri = string_of_bytes m.mo_b ^ (if m.mo_c = [] then "" else " " ^ string_of_bytes m.mo_c) in
  let suf = " RTSP/1.0" in
  let uri = if String.length uri >= String.length suf && String.sub uri (String.length uri - String.length suf) (String.length suf) = suf
    then String.sub uri 0 (String.length uri - String.length suf) else uri in
  let hs = Stdlib.List.concat (Stdlib.List.map (fun (k, vs) -> Stdlib.List.map (fun v -> token_of_bytes k ^ "=" ^ token_of_bytes v) vs) m.mo_hdrs) in
  Printf.sprintf "q:%s:%s:%s:%s" (token_of_bytes m.mo_a) (token_of_bytes (bytes_of_string uri))
    (String.concat ";" (Stdlib.List.sort compare hs)) (token_of_bytes m.mo_body)

let show_reqs (reqs : NetRtspClient.creq list) : string =
  let wire = Stdlib.List.concat (Stdlib.List.map wire_of reqs) in
  match NetHttpMsg.rtsp_loop true (nat_of_int (Stdlib.List.length wire + 1)) wire [] with
  | Res.Ok items ->
    let ms = Stdlib.List.filter_map (function NetHttpMsg.ItMsg m -> Some (show_seen m) | _ -> None) items in
    if ms = [] then "-" else String.concat "," ms
  | _ -> "model-reader-failed"

let register () =
  Registry.register "c13.rtspclt" (function
      | [push; tcp; user; pass; psdp; b] ->
        let c = { NetRtspClient.cc_push = (push = "1"); cc_tcp = (tcp = "1"); cc_user = bytes_of_token user; cc_pass = bytes_of_token pass;
                  cc_url = bytes_of_string "rtsp://127.0.0.1:P/live/x"; cc_sdp = bytes_of_token psdp } in
        (match NetRtspClient.client_run Drv_c13.fx c (bytes_of_token b) with
         | Res.Ok (st, o) ->
           let reqs = Stdlib.List.rev st.NetRtspClient.k_out in
           Printf.sprintf "ok %s sdp:%d %s" (show_reqs reqs)
             (int_of_n st.NetRtspClient.k_sdp)
             (match o with NetRtspClient.CFailed -> "failed" | NetRtspClient.CEnded -> "ended" | NetRtspClient.CRunning -> "running" | NetRtspClient.CBadSdp -> "badsdp")
         | Res.Err e -> if int_of_n e = 255 then "never-ends" else "err"
         | Res.Panic s -> Drv_c13_cmd.panic s)
      | _ -> "bad-args")
