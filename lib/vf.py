# Framework shared by every property check.  See DESIGN.md section 2.
import fcntl, glob, hashlib, importlib, json, os, random, re, resource, shutil, subprocess, sys, time

ROOT = os.path.dirname(os.path.dirname(os.path.abspath(__file__)))
REPO = os.environ.get("LAL_REPO", "/repo")
COQ = os.path.join(ROOT, "coq")
BUILD = os.path.join(ROOT, "build")
BIN = os.path.join(BUILD, "bin")
OCAML_SRC = os.path.join(ROOT, "ocaml")
OCAML_BUILD = os.path.join(BUILD, "ocaml")
EXTRACT_DIR = os.path.join(BUILD, "extracted")
HARNESS = os.path.join(ROOT, "harness")
EVIDENCE = os.path.join(ROOT, "evidence")
REPLAY = os.path.join(ROOT, "replay")
CORPUS = os.path.join(ROOT, "corpus")
NPROC = str(os.cpu_count() or 4)

GOENV = dict(os.environ, GOFLAGS="-mod=mod", GOPROXY="off", GOSUMDB="off", GOTOOLCHAIN="local",
             CGO_ENABLED="0")

FORBIDDEN = re.compile(r"\b(Admitted|admit|Axiom|Axioms|Parameter|Parameters|Conjecture|Hypothesis|Variable|Variables|Hypotheses|Context)\b|Unset\s+Guard|bypass_check|type-in-type|impredicative-set|Admit\s+Obligations|Unset\s+Universe\s+Checking|Unset\s+Positivity")


def log(*a):
    print(*a, file=sys.stderr, flush=True)


class Lock:
    """Serialises builds when several checks run at once."""

    def __init__(self, name="build"):
        os.makedirs(BUILD, exist_ok=True)
        self.path = os.path.join(BUILD, "." + name + ".lock")

    def __enter__(self):
        self.f = open(self.path, "w")
        fcntl.flock(self.f, fcntl.LOCK_EX)
        return self

    def __exit__(self, *a):
        fcntl.flock(self.f, fcntl.LOCK_UN)
        self.f.close()


def sh(cmd, cwd=None, env=None, timeout=1800, inp=None):
    p = subprocess.run(cmd, cwd=cwd, env=env, timeout=timeout, input=inp,
                       stdout=subprocess.PIPE, stderr=subprocess.STDOUT, text=True,
                       shell=isinstance(cmd, str))
    return p.returncode, p.stdout


# ----------------------------------------------------------------------------
# Coq

def coq_sources():
    out = []
    for d, _, fs in os.walk(os.path.join(COQ, "theories")):
        for f in fs:
            if f.endswith(".v"):
                out.append(os.path.relpath(os.path.join(d, f), COQ))
    return sorted(out)


def scan_forbidden():
    """Admitted / axioms / disabled checks anywhere in the development.
    Section-local Variable/Hypothesis are allowed only inside a Section."""
    hits = []
    for rel in coq_sources():
        depth = 0
        txt = open(os.path.join(COQ, rel)).read()
        txt_nc = strip_coq_comments(txt)
        for ln, line in enumerate(txt_nc.split("\n"), 1):
            if re.match(r"\s*Section\b", line):
                depth += 1
            m = FORBIDDEN.search(line)
            if m:
                word = m.group(0)
                if word.split()[0] in ("Variable", "Variables", "Hypothesis", "Hypotheses", "Context") and depth > 0:
                    pass
                else:
                    hits.append("%s:%d: %s" % (rel, ln, line.strip()[:120]))
            if re.match(r"\s*End\b", line) and depth > 0:
                depth -= 1
    return hits


def strip_coq_comments(txt):
    out = []
    depth = 0
    i = 0
    n = len(txt)
    while i < n:
        if txt.startswith("(*", i):
            depth += 1
            i += 2
        elif txt.startswith("*)", i) and depth > 0:
            depth -= 1
            i += 2
        else:
            if depth == 0:
                out.append(txt[i])
            elif txt[i] == "\n":
                out.append("\n")
            i += 1
    return "".join(out)


def write_coqproject():
    srcs = coq_sources()
    body = "-Q theories Lal\n-arg -w -arg -notation-overridden,-deprecated-hint-without-locality,-deprecated-instance-without-locality\n" + "\n".join(srcs) + "\n"
    p = os.path.join(COQ, "_CoqProject")
    old = open(p).read() if os.path.exists(p) else ""
    if old != body:
        open(p, "w").write(body)
        return True
    return not os.path.exists(os.path.join(COQ, "Makefile.gen"))


def build_coq(timeout=3000):
    """Full .vo build (never -vos).  Returns (ok, log)."""
    changed = write_coqproject()
    if changed:
        rc, out = sh(["coq_makefile", "-f", "_CoqProject", "-o", "Makefile.gen"], cwd=COQ)
        if rc != 0:
            return False, out
    rc, out = sh(["timeout", str(timeout), "make", "-f", "Makefile.gen", "-j" + NPROC, "-k"], cwd=COQ, timeout=timeout + 60)
    return rc == 0, out


def vo_path(rel_v):
    return os.path.join(COQ, rel_v[:-2] + ".vo")


def check_theorems(prop):
    """Re-run coqc on Properties/<prop>.v; return dict with obligations,
    discharged, assumptions (from Print Assumptions), failing theorem."""
    rel = "theories/Properties/%s.v" % prop
    src = os.path.join(COQ, rel)
    res = dict(file=rel, obligations=0, discharged=0, axioms=[], closed=0, failing=None, log="")
    if not os.path.exists(src):
        res["failing"] = "missing " + rel
        return res
    txt = strip_coq_comments(open(src).read())
    thms = [(m.start(), m.group(2)) for m in re.finditer(r"^\s*(Theorem|Corollary)\s+(\w+)", txt, re.M)]
    res["theorems"] = [n for _, n in thms]
    res["obligations"] = len(thms)
    tmpdir = os.path.join(BUILD, "tmp", str(os.getpid()))
    os.makedirs(tmpdir, exist_ok=True)
    out_vo = os.path.join(tmpdir, "%s.vo" % prop)
    rc, out = sh(["timeout", "900", "coqc", "-Q", "theories", "Lal", "-w", "-notation-overridden", "-o", out_vo, rel], cwd=COQ, timeout=960)
    shutil.rmtree(tmpdir, ignore_errors=True)
    res["log"] = out[-4000:]
    closed = len(re.findall(r"Closed under the global context", out))
    axioms = []
    for blk in re.findall(r"Axioms:\n((?:.+\n?)+?)(?=\n\S|\Z|Closed under|Axioms:)", out):
        for m in re.finditer(r"^(\S+)\s*:", blk, re.M):
            axioms.append(m.group(1))
    # simpler, robust: any line "name : type" following "Axioms:" up to a blank line
    if "Axioms:" in out and not axioms:
        take = False
        for line in out.split("\n"):
            if line.startswith("Axioms:"):
                take = True
                continue
            if take:
                m = re.match(r"^(\S+)\s*:", line)
                if m:
                    axioms.append(m.group(1))
                elif not line.startswith(" "):
                    take = False
    res["axioms"] = sorted(set(axioms))
    res["closed"] = closed
    if rc == 0:
        res["discharged"] = len(thms)
    else:
        m = re.search(r'line (\d+), characters', out)
        failing = None
        if m:
            ln = int(m.group(1))
            # theorem containing that line (in the comment-stripped text line numbers are preserved)
            lines = txt.split("\n")
            pos = sum(len(x) + 1 for x in lines[:ln - 1])
            done = 0
            for st, name in thms:
                if st <= pos:
                    failing = name
                    done += 1
            res["discharged"] = max(0, done - 1)
        res["failing"] = failing or "build of %s (a dependency no longer compiles)" % rel
    return res


def run_coqchk(prop, timeout=2400):
    """thorough tier: re-check Properties/<prop>.vo and everything it depends on with the
    independent checker; returns dict(ok, axioms, summary)"""
    rc, out = sh(["timeout", str(timeout), "coqchk", "-silent", "-o", "-Q", "theories", "Lal", "Lal.Properties.%s" % prop],
                 cwd=COQ, timeout=timeout + 60)
    res = dict(ok=(rc == 0), rc=rc, axioms=[], summary=out[-1500:])
    m = re.search(r"\* Axioms:(.*?)\n\s*\n\* Constants", out, re.S)
    if m:
        body = m.group(1).strip()
        if body and body != "<none>":
            res["axioms"] = [l.strip() for l in body.split("\n") if l.strip()]
    for key in ("type-in-type", "unsafe (co)fixpoints", "positivity is assumed"):
        mm = re.search(re.escape(key) + r":\s*(.*)", out)
        if mm and mm.group(1).strip() != "<none>":
            res["ok"] = False
            res.setdefault("unsafe", []).append(key + ": " + mm.group(1).strip())
    return res


# ----------------------------------------------------------------------------
# extraction + OCaml

def extraction_roots():
    roots, mods = [], set()
    for f in sorted(glob.glob(os.path.join(COQ, "extract.d", "*.txt"))):
        for line in open(f):
            line = line.split("#")[0]
            for tok in line.split():
                roots.append(tok)
                if tok.startswith("Lal."):
                    mods.add(".".join(tok.split(".")[1:-1]))
    return roots, sorted(mods)


def newest(paths):
    t = 0
    for p in paths:
        try:
            t = max(t, os.path.getmtime(p))
        except OSError:
            pass
    return t


def build_model(force=False):
    """Separate Extraction (ExtrOcamlBasic only) + dune build of modelrun."""
    exe = os.path.join(BIN, "modelrun")
    roots, mods = extraction_roots()
    deps = [vo_path(r) for r in coq_sources()] + glob.glob(os.path.join(OCAML_SRC, "*")) + glob.glob(os.path.join(COQ, "extract.d", "*.txt"))
    if not force and os.path.exists(exe) and os.path.getmtime(exe) >= newest(deps):
        return True, "up to date"
    os.makedirs(EXTRACT_DIR, exist_ok=True)
    os.makedirs(BIN, exist_ok=True)
    for f in glob.glob(os.path.join(EXTRACT_DIR, "*")):
        os.remove(f)
    ev = "From Coq Require Import ExtrOcamlBasic ZArith NArith.\n"
    if mods:
        ev += "From Lal Require " + " ".join(mods) + ".\n"
    ev += "Separate Extraction\n  " + "\n  ".join(roots) + ".\n"
    open(os.path.join(EXTRACT_DIR, "Extract.v"), "w").write(ev)
    rc, out = sh(["timeout", "600", "coqc", "-Q", os.path.join(COQ, "theories"), "Lal", "-w", "-extraction", "Extract.v"], cwd=EXTRACT_DIR)
    if rc != 0:
        return False, "extraction failed:\n" + out
    if os.path.isdir(OCAML_BUILD):
        for f in os.listdir(OCAML_BUILD):
            p = os.path.join(OCAML_BUILD, f)
            if os.path.isfile(p):
                os.remove(p)
    os.makedirs(OCAML_BUILD, exist_ok=True)
    for f in glob.glob(os.path.join(EXTRACT_DIR, "*.ml")) + glob.glob(os.path.join(EXTRACT_DIR, "*.mli")):
        shutil.copy(f, OCAML_BUILD)
    drivers = []
    for f in sorted(glob.glob(os.path.join(OCAML_SRC, "*"))):
        if os.path.isfile(f):
            shutil.copy(f, OCAML_BUILD)
            b = os.path.basename(f)
            if b.startswith("drv_") and b.endswith(".ml"):
                drivers.append(b[:-3].capitalize())
    open(os.path.join(OCAML_BUILD, "drivers.ml"), "w").write(
        "let init () =\n" + "".join("  %s.register ();\n" % d for d in drivers) + "  ()\n")
    rc, out = sh(["timeout", "900", "dune", "build", "./modelrun.exe"], cwd=OCAML_BUILD)
    if rc != 0:
        return False, "dune build failed:\n" + out
    shutil.copy(os.path.join(OCAML_BUILD, "_build", "default", "modelrun.exe"), exe + ".tmp")
    os.chmod(exe + ".tmp", 0o755)
    os.replace(exe + ".tmp", exe)
    return True, out


# ----------------------------------------------------------------------------
# Go harness, rebuilt from REPO's current working tree on every check

def _write_sum(dst):
    """go.sum of the harness module = lal's go.sum + harness/go.sum.extra (sums of
    modules only the harness needs, e.g. golang.org/x/tools for cmd/lockgraph)"""
    body = open(os.path.join(REPO, "go.sum")).read()
    extra = os.path.join(HARNESS, "go.sum.extra")
    if os.path.exists(extra):
        if body and not body.endswith("\n"):
            body += "\n"
        body += open(extra).read()
    open(dst, "w").write(body)


def _harness_mod_args():
    _write_sum(os.path.join(HARNESS, "go.sum"))
    if REPO == "/repo":
        return []
    modfile = os.path.join(HARNESS, "go.mod")
    alt = os.path.join(BUILD, "alt-%s.mod" % hashlib.sha1(REPO.encode()).hexdigest()[:8])
    os.makedirs(BUILD, exist_ok=True)
    open(alt, "w").write(open(modfile).read().replace("=> /repo", "=> " + REPO))
    _write_sum(alt[:-4] + ".sum")
    return ["-modfile=" + alt]


def build_probe():
    os.makedirs(BIN, exist_ok=True)
    args = _harness_mod_args()
    exe = os.path.join(BIN, "lalprobe" + ("" if REPO == "/repo" else "-" + hashlib.sha1(REPO.encode()).hexdigest()[:8]))
    rc, out = sh(["go", "build", "-tags", "verif"] + args + ["-o", exe, "./cmd/lalprobe"], cwd=HARNESS, env=GOENV, timeout=900)
    return rc == 0, out, exe


def build_tool(name, extra_args=(), env=None, suffix=""):
    """other harness commands (e.g. lockgraph)"""
    os.makedirs(BIN, exist_ok=True)
    args = _harness_mod_args()
    exe = os.path.join(BIN, name + suffix + ("" if REPO == "/repo" else "-" + hashlib.sha1(REPO.encode()).hexdigest()[:8]))
    rc, out = sh(["go", "build", "-tags", "verif"] + list(extra_args) + args + ["-o", exe, "./cmd/" + name], cwd=HARNESS, env=env or GOENV, timeout=900)
    return rc == 0, out, exe


# ----------------------------------------------------------------------------
# running cases

def _unlimit_stack():
    try:
        resource.setrlimit(resource.RLIMIT_STACK, (resource.RLIM_INFINITY, resource.RLIM_INFINITY))
    except Exception:
        pass



def _communicate_stall(p, data, timeout, stall):
    """communicate() that also gives up when the process prints no further complete line for `stall` seconds
    (both runners flush one line per case): returns (stdout, stderr, "ok" | "timeout" | "stall")"""
    import threading
    bufs = {"o": [], "e": []}
    last = [time.time(), 0]

    def rd(f, key):
        while True:
            b = f.read1(1 << 16) if hasattr(f, "read1") else f.read(1 << 16)
            if not b:
                break
            bufs[key].append(b)
            if key == "o" and b"\n" in b:
                last[0] = time.time()

    def wr():
        try:
            p.stdin.write(data)
            p.stdin.close()
        except Exception:
            pass
    ts = [threading.Thread(target=rd, args=(p.stdout, "o"), daemon=True), threading.Thread(target=rd, args=(p.stderr, "e"), daemon=True),
          threading.Thread(target=wr, daemon=True)]
    for t in ts:
        t.start()
    t0 = time.time()
    status = "ok"
    while p.poll() is None:
        time.sleep(0.05)
        now = time.time()
        if now - t0 > timeout:
            status = "timeout"
        elif stall and now - last[0] > stall:
            status = "stall"
        if status != "ok":
            p.kill()
            p.wait()
            break
    for t in ts[:2]:
        t.join(5)
    return b"".join(bufs["o"]), b"".join(bufs["e"]), status


def run_lines(exe, lines, full=False, timeout=1200, extra_env=None, mem_gb=24, stall=120):
    """Feed all lines to one process.  If it dies (a goroutine panic, stack
    exhaustion) the case it died on is reported as crash@..., and a new process
    continues with the next line.  Returns list of output lines."""
    env = dict(os.environ)
    env["PROBE_FULL"] = "1" if full else "0"
    env.setdefault("OCAMLRUNPARAM", "s=32M")  # few minor GCs: each one scans the (deep) stack
    if extra_env:
        env.update(extra_env)
    outs = []
    start = 0
    n = len(lines)
    restarts = 0
    hangs = 0
    timed_out_at = None
    while start < n:
        data = "\n".join(lines[start:]) + "\n"

        def pre():
            _unlimit_stack()
            try:
                resource.setrlimit(resource.RLIMIT_AS, (mem_gb << 30, mem_gb << 30))
            except Exception:
                pass
        p = subprocess.Popen([exe], stdin=subprocess.PIPE, stdout=subprocess.PIPE, stderr=subprocess.PIPE,
                             env=env, preexec_fn=_unlimit_stack)
        so, se, status = _communicate_stall(p, data.encode(), timeout, stall)
        if status != "ok":
            text = so.decode(errors="replace")
            got = text.split("\n")
            # the last element is an incomplete line (or empty): never compare a cut-off line
            got.pop()
            got = [g for g in got if not re.match(r"^\d{4}/\d\d/\d\d ", g)]
            outs.extend(got)
            restarts += 1
            if status == "stall":
                # no case finished for `stall` seconds: the case the process sits on hangs (or is far beyond any
                # sensible cost); it is reported and the run goes on behind it
                outs.append("timeout")
                hangs += 1
                if hangs > 3:
                    while len(outs) < n:
                        outs.append("not-run")
                    break
            elif got:
                # the batch as a whole ran out of time: go on with the case it stopped at
                timed_out_at = None
            else:
                # no progress at all: the first case of this batch is the slow one
                if timed_out_at == len(outs):
                    outs.append("timeout")
                timed_out_at = len(outs)
            start = len(outs)
            if restarts > 200:
                break
            continue
        got = so.decode(errors="replace").split("\n")
        if got and got[-1] == "":
            got.pop()
        # drop stray log lines (lal logs start with a date)
        got = [g for g in got if not re.match(r"^\d{4}/\d\d/\d\d ", g)]
        outs.extend(got)
        if len(outs) >= n:
            break
        # process died on case index len(outs)
        err = se.decode(errors="replace")
        outs.append(crash_summary(err, p.returncode))
        try:
            # kept for diagnosis only (the case a background goroutine dies on is not always the case that started it)
            d = os.path.join(ROOT, "build", "tmp")
            os.makedirs(d, exist_ok=True)
            with open(os.path.join(d, "last-crash-%s-%s.txt" % (os.path.basename(exe), re.sub(r"\W", "", lines[len(outs) - 1].split(".")[0])[:12])), "w") as f:
                f.write("case index %d: %s\nprevious: %s\n\n%s" % (len(outs) - 1, lines[len(outs) - 1][:2000],
                                                                    lines[len(outs) - 2][:2000] if len(outs) > 1 else "-", err[-20000:]))
        except Exception:
            pass
        start = len(outs)
        restarts += 1
        if restarts > 500:
            while len(outs) < n:
                outs.append("not-run")
            break
    return outs[:n]


def crash_summary(stderr, rc):
    kind = "explicit"
    m = re.search(r"^(panic|fatal error): (.*)$", stderr, re.M)
    msg = m.group(2) if m else ""
    for k, pat in (("index", "index out of range"), ("slice", "slice bounds out of range"), ("nil", "nil pointer"),
                   ("divide", "divide by zero"), ("makeslice", "makeslice|len out of range"),
                   ("stack", "stack overflow|goroutine stack exceeds"), ("concurrentmap", "concurrent map"),
                   ("oom", "out of memory|cannot allocate"), ("closedchan", "closed channel")):
        if re.search(pat, msg) or (k in ("stack", "concurrentmap", "oom") and re.search(pat, stderr[:3000])):
            kind = k
            break
    site = "?"
    for fm in re.finditer(r"^(\S*q191201771/(?:lal|naza)/[\w./-]*?(?:\(\*?\w+\))?[\w.]*)\((?!\*)", stderr, re.M):
        fn = fm.group(1)
        site = fn[fn.rfind("/") + 1:]
        break
    if not m and rc is not None and rc != 0 and not stderr.strip():
        return "crash@rc%s" % rc
    return "crash@%s:%s" % (site, kind)


# ----------------------------------------------------------------------------
# cases, results, evidence

class Case:
    __slots__ = ("line", "cls", "origin", "meta")

    def __init__(self, line, cls="", origin="gen", meta=None):
        self.line = line
        self.cls = cls
        self.origin = origin
        self.meta = meta or {}


def load_known_findings():
    p = os.path.join(ROOT, "known_findings.json")
    if not os.path.exists(p):
        return []
    return json.load(open(p))


def load_corpus(prop):
    p = os.path.join(CORPUS, prop + ".txt")
    out = []
    if os.path.exists(p):
        for line in open(p):
            line = line.rstrip("\n")
            if line.strip() and not line.startswith("#"):
                out.append(Case(line, cls="corpus", origin="corpus"))
    return out


def write_replay(prop, payload):
    os.makedirs(REPLAY, exist_ok=True)
    h = hashlib.sha1(json.dumps(payload, sort_keys=True).encode()).hexdigest()[:12]
    path = os.path.join(REPLAY, "%s-%s.json" % (prop, h))
    json.dump(payload, open(path, "w"), indent=1)
    return path


def short(s, n=300):
    s = str(s)
    return s if len(s) <= n else s[:n] + "...(%d chars)" % len(s)


def write_evidence(prop, ev):
    os.makedirs(EVIDENCE, exist_ok=True)
    p = os.path.join(EVIDENCE, prop + ".json")
    json.dump(ev, open(p + ".tmp", "w"), indent=1)
    os.replace(p + ".tmp", p)


def trusted_base(thm):
    tb = ["Coq 8.16.1 kernel (coqc; vm_compute used for finite sweeps and witnesses; no native_compute)"]
    if thm["axioms"]:
        tb += ["axiom: " + a for a in thm["axioms"]]
    else:
        tb.append("Print Assumptions: closed under the global context for all %d theorems (no axioms)" % thm["closed"])
    tb += ["extraction: ExtrOcamlBasic only (bool/option/list/prod/unit/sumbool -> OCaml), Separate Extraction, no Extract Constant / Extract Inductive of ours; OCaml 4.13.1 + dune",
           "hand-written OCaml drivers /verif/ocaml (text protocol <-> extracted datatypes)",
           "correspondence harness /verif/harness/cmd/lalprobe (Go) built with -tags verif against the working tree, python generators /verif/gen"]
    return tb


def main_check(mod, tier, seed, replay=None):
    """Generic check pipeline (DESIGN section 2).  `mod` is a gen/cNN module."""
    t0 = time.time()
    prop = mod.ID
    rng = random.Random(seed)
    violations = []      # (kind, text, replay_path)
    known_hits = {}
    notes = []

    with Lock():
        ok_coq, coq_log = build_coq()
        forb = scan_forbidden()
        thm = check_theorems(prop)
        ok_model, model_log = build_model()
        ok_probe, probe_log, probe_exe = build_probe()
    model_exe = os.path.join(BIN, "modelrun")

    if forb:
        path = write_replay(prop, dict(property=prop, broken="forbidden construct in Coq development", hits=forb))
        violations.append(("proof", "forbidden construct", path, True))
    if thm["failing"] is not None or thm["discharged"] != thm["obligations"] or thm["obligations"] == 0:
        path = write_replay(prop, dict(property=prop, broken="theorem %s" % thm["failing"], log=thm["log"][-3000:]))
        violations.append(("proof", "theorem %s no longer checks" % thm["failing"], path, True))
    if not ok_model:
        path = write_replay(prop, dict(property=prop, broken="model build", log=(coq_log[-2000:] + model_log[-3000:])))
        violations.append(("build", "model build failed", path, True))
    if not ok_probe:
        path = write_replay(prop, dict(property=prop, broken="harness build against working tree", log=probe_log[-4000:]))
        violations.append(("build", "lalprobe does not build against the working tree", path, True))

    cov = dict(obligations=thm["obligations"], discharged=thm["discharged"], theorems=thm.get("theorems", []),
               checker_cmd="make -C /verif/coq -f Makefile.gen (coq_makefile, full .vo) && coqc -Q theories Lal theories/Properties/%s.v" % prop,
               trusted_base=trusted_base(thm), evaluations=0, distinct_nontrivial=0,
               rule=getattr(mod, "RULE", ""), samples=[], distribution={}, mismatches=0,
               oracle_evaluated=0, oracle_failed=0, known_findings_hit=[])

    if tier == "thorough" and thm["failing"] is None and not os.environ.get("VERIF_NO_COQCHK"):
        with Lock("coqchk"):
            chk = run_coqchk(prop)
        cov["coqchk"] = dict(ok=chk["ok"], rc=chk["rc"], axioms=chk["axioms"], unsafe=chk.get("unsafe", []))
        cov["checker_cmd"] += " && coqchk -silent -o -Q theories Lal Lal.Properties.%s" % prop
        if chk["axioms"]:
            cov["trusted_base"] += ["coqchk axiom: " + a for a in chk["axioms"]]
        else:
            cov["trusted_base"].append("coqchk -o: no axioms, no type-in-type, no unsafe fixpoints, no assumed positivity in the whole dependency cone")
        if not chk["ok"] and chk["rc"] != 124:
            path = write_replay(prop, dict(property=prop, broken="coqchk rejects Properties/%s.vo or its dependencies" % prop, log=chk["summary"]))
            violations.append(("proof", "coqchk failed", path, True))
        elif chk["rc"] == 124:
            notes.append("coqchk did not finish within its time limit; the coqc result stands")

    if ok_model and ok_probe:
        if replay:
            rp = json.load(open(replay))
            lines = rp.get("cases") or [rp["case"]]
            cases = [Case(l, cls="replay", origin="replay") for l in lines]
        else:
            cases = load_corpus(prop) + list(mod.gen_cases(tier, rng))
        ctx = dict(probe=probe_exe, model=model_exe, tier=tier, rng=rng, prop=prop)
        if hasattr(mod, "run"):
            # property-specific pipeline (state machines, translators)
            mod.run(ctx, cases, cov, violations, known_hits, notes)
        else:
            generic_diff(mod, ctx, cases, cov, violations, known_hits, notes)

    # known findings: print, do not count
    kf = load_known_findings()
    open_ids = {k["finding_id"]: k for k in kf if k.get("property") == prop and k.get("status") == "open"}
    real = []
    for v in violations:
        real.append(v)
    for fid, what in sorted(known_hits.items()):
        if fid in open_ids:
            print("KNOWN-FINDING: property=%s %s %s" % (prop, fid, open_ids[fid].get("what", what)))
            cov["known_findings_hit"].append(fid)
        else:
            # a finding class that is not listed as open: genuine violation
            path = write_replay(prop, dict(property=prop, finding_class=fid, what=what))
            real.append(("finding", "unlisted finding class %s: %s" % (fid, what), path, False))
    ev = dict(property_id=prop, tier=tier, seed=seed, level="proof", coverage=cov,
              assumptions=list(getattr(mod, "ASSUMPTIONS", [])) + notes,
              wall_s=round(time.time() - t0, 2), violations=len(real))
    write_evidence(prop, ev)
    for kind, text, path, nofail in real:
        print("VIOLATION property=%s replay=%s%s" % (prop, path, " no-failing-input-found" if nofail else ""))
        log("  (%s) %s" % (kind, text))
    log("%s tier=%s seed=%d: %d cases, %d mismatches, theorems %d/%d, %.1fs" % (
        prop, tier, seed, cov["evaluations"], cov["mismatches"], cov["discharged"], cov["obligations"], time.time() - t0))
    return 1 if real else 0


def generic_diff(mod, ctx, cases, cov, violations, known_hits, notes):
    prop = ctx["prop"]
    lines = [c.line for c in cases]
    full = getattr(mod, "FULL_OUTPUT", True)
    t1 = time.time()
    impl = run_lines(ctx["probe"], lines, full=full, timeout=getattr(mod, "TIMEOUT", 1200), stall=getattr(mod, "STALL", 120))
    t2 = time.time()
    model = run_lines(ctx["model"], lines, full=full, timeout=getattr(mod, "TIMEOUT", 1200), stall=getattr(mod, "STALL", 120))
    t3 = time.time()
    cov["impl_s"] = round(t2 - t1, 2)
    cov["model_s"] = round(t3 - t2, 2)
    cov["evaluations"] = len(cases)
    dist = {}
    nontriv = set()
    for c, o in zip(cases, model):
        dist[c.cls] = dist.get(c.cls, 0) + 1
        key = mod.nontrivial(c, o) if hasattr(mod, "nontrivial") else o
        if key:
            nontriv.add(key if isinstance(key, str) else c.line)
    cov["distribution"] = dist
    cov["distinct_nontrivial"] = len(nontriv)
    step = max(1, len(cases) // 6)
    cov["samples"] = [dict(case=short(cases[i].line, 200), impl=short(impl[i], 200), model=short(model[i], 200))
                      for i in range(0, len(cases), step)][:8]
    oracle = getattr(mod, "oracle", None)
    classify = getattr(mod, "classify_finding", None)
    mism = []
    reported = 0
    split_impl = getattr(mod, "split_impl", None)
    for i, c in enumerate(cases):
        io, mo = impl[i], model[i]
        io_full = io
        if split_impl is not None:
            io = split_impl(c, io)      # part of the observation the model also produces
        bad_oracle = None
        if oracle is not None and full:
            r = oracle(c, io_full)
            if r is not None:
                cov["oracle_evaluated"] += 1
                okk, why = r
                if not okk:
                    bad_oracle = why
                    cov["oracle_failed"] += 1
        if bad_oracle is not None:
            fid = classify(c, io_full) if classify else None
            # a listed finding is only recognised when the faithful model reproduces the
            # implementation's behaviour exactly; the same symptom with a different
            # observation is a different violation (a module may exempt cases whose
            # surface is not modelled at all: known_needs_model(case) -> False)
            needs_model = getattr(mod, "known_needs_model", None)
            if fid and (io == mo or (needs_model is not None and not needs_model(c))):
                known_hits.setdefault(fid, "%s on `%s`" % (bad_oracle, short(c.line, 160)))
                continue
            if reported < 5:
                small = shrink_case(mod, ctx, c) if hasattr(mod, "shrink") else c.line
                path = write_replay(prop, dict(property=prop, case=small, original_case=c.line if small != c.line else None,
                                               impl=short(io, 2000), model=short(mo, 2000), oracle=False,
                                               why=bad_oracle, broken=None))
                violations.append(("oracle", "property fails on implementation output: %s" % bad_oracle, path, False))
                reported += 1
            continue
        if io != mo:
            mism.append(i)
    cov["mismatches"] = len(mism)
    if mism:
        # correspondence broken although the oracle (if any) passed on these inputs:
        # search the neighbourhood for a failing input
        found = None
        if oracle is not None and hasattr(mod, "neighbors"):
            nb = []
            for i in mism[:20]:
                nb += list(mod.neighbors(cases[i], ctx["rng"]))
            nb = nb[:2000]
            if nb:
                io2 = run_lines(ctx["probe"], nb, full=True)
                for l, o in zip(nb, io2):
                    r = oracle(Case(l), o)
                    if r is not None and not r[0]:
                        found = (l, o, r[1])
                        break
        if found:
            path = write_replay(prop, dict(property=prop, case=found[0], impl=short(found[1], 2000), oracle=False, why=found[2],
                                           broken="correspondence", first_mismatch=cases[mism[0]].line))
            violations.append(("oracle", "failing input found near a model/implementation disagreement", path, False))
        else:
            i = mism[0]
            path = write_replay(prop, dict(property=prop, case=cases[i].line, cases=[cases[j].line for j in mism[:20]],
                                           impl=short(impl[i], 2000), model=short(model[i], 2000), oracle=True if oracle else None,
                                           broken="correspondence %s (model and implementation disagree on %d of %d cases)" % (
                                               cases[i].line.split(" ")[0], len(mism), len(cases))))
            violations.append(("correspondence", "model and implementation disagree on %d cases, e.g. `%s`" % (len(mism), short(cases[i].line, 200)), path, True))


def shrink_case(mod, ctx, c):
    try:
        return mod.shrink(ctx, c)
    except Exception as e:  # shrinking is best effort
        return c.line


def load_prop_module(prop):
    sys.path.insert(0, ROOT)
    return importlib.import_module("gen." + prop.lower())
