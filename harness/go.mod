module lalverif

go 1.22.0

require (
	github.com/q191201771/lal v0.0.0
	github.com/q191201771/naza v0.30.49
	golang.org/x/tools v0.29.0
)

require (
	golang.org/x/mod v0.22.0 // indirect
	golang.org/x/sync v0.10.0 // indirect
)

replace github.com/q191201771/lal => /repo
