package main

// Extraction of the abstract publication-order traces (see publish.go) and
// their emission as Coq / JSON facts.

import (
	"fmt"
	"go/types"
	"os"
	"sort"
	"strings"
	"time"

	"golang.org/x/tools/go/ssa"
)

type pubEvent struct {
	Kind   string     `json:"kind"` // wr | pub | bag
	Field  string     `json:"field,omitempty"`
	Type   string     `json:"type,omitempty"`
	Ws     []string   `json:"writes,omitempty"`
	Ps     []string   `json:"pubs,omitempty"`
	Pos    string     `json:"pos,omitempty"`
	unpub  []string   // kind "bag" of a once-guarded callee
	merged bool       // produced by normalise
	alts   []altGroup // kind "call": per callee its traces, one of which is spliced in
}

type altGroup struct {
	unpub  []string // once-guard of the callee: its body runs only while these types are unpublished
	traces [][]pubEvent
}

func (e pubEvent) key() string {
	k := e.Kind + ":" + e.Field + ":" + e.Type + ":" + strings.Join(e.Ws, ",") + ":" + strings.Join(e.Ps, ",")
	if e.Kind == "call" {
		k += ":" + e.Pos
	}
	return k
}

type pubTraceOut struct {
	Func   string     `json:"func"`
	Events []pubEvent `json:"events"`
}

type pubViolationOut struct {
	Field       string   `json:"field"`
	Owner       string   `json:"owner"`
	Published   string   `json:"published"`
	PublishedAt string   `json:"published_at"`
	WrittenAt   string   `json:"written_at"`
	Func        string   `json:"func"`
	SharedBy    string   `json:"read_or_written_elsewhere_by"`
	Chain       []string `json:"chain"`
	Exempt      string   `json:"exempt,omitempty"`
}

type pubFacts struct {
	Types      []string          `json:"types"`
	Fields     []string          `json:"fields"`
	FieldOwner map[string]string `json:"field_owner"`
	Shared     map[string]string `json:"shared_fields"`
	Covers     [][2]string       `json:"covers"`
	Exempt     []pubExempt       `json:"exempt"`
	Traces     []pubTraceOut     `json:"traces"`
	Violations []pubViolationOut `json:"violations"`
	Exempted   []pubViolationOut `json:"exempted"`
	Sites      []string          `json:"publication_sites"`
}

// bagOf: the unsynchronised writes and publications the callees of a call may perform (transitively)
func (a *analyzer) bagOf(fn *ssa.Function, memo map[*ssa.Function][2]map[string]bool, stack map[*ssa.Function]bool) (ws, ps map[string]bool) {
	if r, ok := memo[fn]; ok {
		return r[0], r[1]
	}
	ws, ps = map[string]bool{}, map[string]bool{}
	if stack[fn] || !tracked(fnPkgPath(fn)) || a.isConsumerPkg(fnPkgPath(fn)) {
		// what a consumer package does on this goroutine is foreign to the construction path (see publish.go)
		return
	}
	stack[fn] = true
	for f := range a.pub.fnWrites[fn] {
		if a.sharedAny(f) { // a write of a field no other goroutine reaches cannot matter
			ws[f] = true
		}
	}
	for t := range a.pub.fnPubs[fn] {
		ps[t] = true
	}
	for _, b := range fn.Blocks {
		for _, ins := range b.Instrs {
			ci, ok := ins.(ssa.CallInstruction)
			if !ok {
				continue
			}
			if _, isGo := ins.(*ssa.Go); isGo {
				continue
			}
			for _, c := range a.callees[ci] {
				w2, p2 := a.bagOf(c, memo, stack)
				for f := range w2 {
					ws[f] = true
				}
				for t := range p2 {
					ps[t] = true
				}
			}
		}
	}
	delete(stack, fn)
	memo[fn] = [2]map[string]bool{ws, ps}
	return
}

func setList(m map[string]bool) []string {
	l := make([]string, 0, len(m))
	for k := range m {
		l = append(l, k)
	}
	sort.Strings(l)
	return l
}

// blockEvents: the events of one basic block, in order; deferred calls are returned separately
func (a *analyzer) blockEvents(b *ssa.BasicBlock, memo map[*ssa.Function][2]map[string]bool, depth int) (evs []pubEvent, defers []pubEvent) {
	pubsAt := func(ins ssa.Instruction) []pubEvent {
		var out []pubEvent
		for _, t := range a.pub.pubAt[ins.Pos()] {
			out = append(out, pubEvent{Kind: "pub", Type: t, Pos: a.pf.str(ins.Pos())})
		}
		return out
	}
	for _, ins := range b.Instrs {
		switch x := ins.(type) {
		case *ssa.FieldAddr:
			if f, ok := a.pub.unsyncAt[x.Pos()]; ok && accessKind(x) == "write" && a.sharedAny(f) {
				evs = append(evs, pubEvent{Kind: "wr", Field: f, Pos: a.pf.str(x.Pos())})
			}
		case *ssa.Go:
			evs = append(evs, pubsAt(ins)...)
		case *ssa.Send, *ssa.MapUpdate, *ssa.Store:
			if _, ok := a.pub.sites[ins]; ok {
				evs = append(evs, pubsAt(ins)...)
			} else if _, ok := a.pub.storeSites[ins]; ok {
				evs = append(evs, pubsAt(ins)...)
			}
		case ssa.CallInstruction:
			ws, ps := map[string]bool{}, map[string]bool{}
			var inline []*ssa.Function
			var l []pubEvent
			callees := a.callees[x]
			if p, isParam := x.Common().Value.(*ssa.Parameter); isParam {
				if _, isFunc := p.Type().Underlying().(*types.Signature); isFunc {
					// a call of a function-typed parameter: accounted for where the function value is passed
					callees = nil
				}
			}
			for _, c := range callees {
				w2, p2 := a.bagOf(c, memo, map[*ssa.Function]bool{})
				if len(p2) > 0 && depth < 16 && !a.traceBusy[c] {
					inline = append(inline, c) // order matters inside: expand its own traces
					continue
				}
				if g := a.guardOf(c); g != nil && len(w2)+len(p2) > 0 {
					l = append(l, pubEvent{Kind: "bag", Ws: setList(w2), Ps: setList(p2), Pos: a.pf.str(ins.Pos()), unpub: g})
					continue
				}
				for f := range w2 {
					ws[f] = true
				}
				for t := range p2 {
					ps[t] = true
				}
			}
			if len(ws)+len(ps) > 0 {
				l = append(l, pubEvent{Kind: "bag", Ws: setList(ws), Ps: setList(ps), Pos: a.pf.str(ins.Pos())})
			}
			if len(inline) > 0 {
				ev := pubEvent{Kind: "call", Pos: a.pf.str(ins.Pos())}
				for _, c := range inline {
					a.fnTraces(c, memo, depth+1)
					raw := a.traceRaw[c]
					if len(raw) == 0 {
						raw = [][]pubEvent{nil}
					}
					ev.alts = append(ev.alts, altGroup{traces: raw, unpub: a.guardOf(c)})
				}
				l = append(l, ev)
			}
			// function values handed to the callee (RunLoop(conn, s.doMsg)): it calls them, possibly
			// repeatedly - spliced in twice, after the callee's own events
			for _, arg := range x.Common().Args {
				for {
					ct, ok := arg.(*ssa.ChangeType)
					if !ok {
						break
					}
					arg = ct.X
				}
				var f *ssa.Function
				switch y := arg.(type) {
				case *ssa.MakeClosure:
					f, _ = y.Fn.(*ssa.Function)
				case *ssa.Function:
					f = y
				}
				if f == nil || !tracked(fnPkgPath(f)) || a.isConsumerPkg(fnPkgPath(f)) || depth >= 16 || a.traceBusy[f] {
					continue
				}
				if _, isGo := ins.(*ssa.Go); isGo {
					continue
				}
				if _, p2 := a.bagOf(f, memo, map[*ssa.Function]bool{}); len(p2) == 0 {
					w2, _ := a.bagOf(f, memo, map[*ssa.Function]bool{})
					if len(w2) > 0 {
						l = append(l, pubEvent{Kind: "bag", Ws: setList(w2), Pos: a.pf.str(ins.Pos()), unpub: a.guardOf(f)})
					}
					continue
				}
				a.fnTraces(f, memo, depth+1)
				raw := a.traceRaw[f]
				if len(raw) == 0 {
					continue
				}
				ev := pubEvent{Kind: "call", Pos: a.pf.str(ins.Pos()), alts: []altGroup{{traces: raw, unpub: a.guardOf(f)}}}
				l = append(l, ev, ev)
			}
			l = append(l, pubsAt(ins)...)
			if _, isDefer := ins.(*ssa.Defer); isDefer {
				defers = append(l, defers...) // LIFO
			} else {
				evs = append(evs, l...)
			}
		}
	}
	return
}

const maxSuffixes = 512

// fnTraces: the event sequences of the acyclic paths of fn, every loop body entered at most twice
func (a *analyzer) fnTraces(fn *ssa.Function, memo map[*ssa.Function][2]map[string]bool, depth int) (out [][]pubEvent, truncated bool) {
	if r, ok := a.traceMemo[fn]; ok {
		return r, false
	}
	a.traceBusy[fn] = true
	defer func() {
		delete(a.traceBusy, fn)
		a.traceMemo[fn] = out
	}()
	nb := len(fn.Blocks)
	evs := make([][]pubEvent, nb)
	dfs := make([][]pubEvent, nb)
	any := false
	for i, b := range fn.Blocks {
		evs[i], dfs[i] = a.blockEvents(b, memo, depth)
		if len(evs[i])+len(dfs[i]) > 0 {
			any = true
		}
	}
	if !any {
		return nil, false
	}
	// back edges by DFS
	color := make([]int, nb)
	back := map[[2]int]bool{}
	var visit func(i int)
	visit = func(i int) {
		color[i] = 1
		for _, s := range fn.Blocks[i].Succs {
			switch color[s.Index] {
			case 0:
				visit(s.Index)
			case 1:
				back[[2]int{i, s.Index}] = true
			}
		}
		color[i] = 2
	}
	visit(0)
	type node struct{ b, layer int }
	type suffix struct {
		evs    []pubEvent
		defers []pubEvent
	}
	sufMemo := map[node][]suffix{}
	var suffixes func(n node) []suffix
	keyOf := func(s suffix) string {
		var sb strings.Builder
		for _, e := range s.evs {
			sb.WriteString(e.key())
			sb.WriteByte('|')
		}
		sb.WriteString("//")
		for _, e := range s.defers {
			sb.WriteString(e.key())
			sb.WriteByte('|')
		}
		return sb.String()
	}
	suffixes = func(n node) []suffix {
		if r, ok := sufMemo[n]; ok {
			return r
		}
		sufMemo[n] = nil
		blk := fn.Blocks[n.b]
		var tails []suffix
		for _, s := range blk.Succs {
			nl := n.layer
			if back[[2]int{n.b, s.Index}] {
				if n.layer >= 1 {
					continue
				}
				nl = 1
			}
			tails = append(tails, suffixes(node{s.Index, nl})...)
		}
		if len(tails) == 0 {
			tails = []suffix{{}}
		}
		seen := map[string]bool{}
		var res []suffix
		for _, t := range tails {
			s := suffix{evs: append(append([]pubEvent(nil), evs[n.b]...), t.evs...),
				defers: append(append([]pubEvent(nil), t.defers...), dfs[n.b]...)}
			k := keyOf(s)
			if !seen[k] {
				seen[k] = true
				res = append(res, s)
			}
			if len(res) >= maxSuffixes {
				truncated = true
				break
			}
		}
		sufMemo[n] = res
		return res
	}
	seen := map[string]bool{}
	var flat [][]pubEvent
	for _, s := range suffixes(node{0, 0}) {
		rawTr := append(append([]pubEvent(nil), s.evs...), s.defers...)
		a.traceRaw[fn] = append(a.traceRaw[fn], rawTr)
		flat = append(flat, expandCalls(rawTr, &truncated)...)
	}
	for _, tr := range flat {
		tr = normalise(tr)
		if len(tr) == 0 {
			continue
		}
		var sb strings.Builder
		for _, e := range tr {
			sb.WriteString(e.key())
			sb.WriteByte('|')
		}
		if !seen[sb.String()] {
			seen[sb.String()] = true
			out = append(out, tr)
		}
	}
	return out, truncated
}

// normalise merges neighbouring write-only events into one write-only bag: the check treats
// [PWr f; PWr g] and [PBag [f; g] []] alike, and far fewer distinct traces remain
func normalise(tr []pubEvent) []pubEvent {
	out := make([]pubEvent, 0, len(tr))
	for _, e := range tr {
		writeOnly := (e.Kind == "wr") || (e.Kind == "bag" && len(e.Ps) == 0 && len(e.unpub) == 0)
		if writeOnly && len(out) > 0 {
			last := &out[len(out)-1]
			if last.Kind == "bag" && len(last.Ps) == 0 && len(last.unpub) == 0 && last.merged {
				set := map[string]bool{}
				for _, f := range last.Ws {
					set[f] = true
				}
				if e.Kind == "wr" {
					set[e.Field] = true
				}
				for _, f := range e.Ws {
					set[f] = true
				}
				last.Ws = setList(set)
				continue
			}
		}
		if writeOnly {
			set := map[string]bool{}
			if e.Kind == "wr" {
				set[e.Field] = true
			}
			for _, f := range e.Ws {
				set[f] = true
			}
			out = append(out, pubEvent{Kind: "bag", Ws: setList(set), Pos: e.Pos, merged: true})
			continue
		}
		out = append(out, e)
	}
	return out
}

func traceKey(tr []pubEvent) string {
	var sb strings.Builder
	for _, e := range tr {
		sb.WriteString(e.key())
		sb.WriteByte('|')
	}
	return sb.String()
}

// published: some event of the prefix publishes one of the types
func published(pre []pubEvent, types []string) bool {
	for _, e := range pre {
		for _, t := range types {
			if e.Kind == "pub" && e.Type == t {
				return true
			}
			if e.Kind == "bag" {
				for _, p := range e.Ps {
					if p == t {
						return true
					}
				}
			}
		}
	}
	return false
}

// expandCalls splices the traces of the callees in (recursively, guard-aware, capped)
func expandCalls(tr []pubEvent, truncated *bool) [][]pubEvent {
	return expandFrom(nil, tr, truncated, 0)
}

func expandFrom(prefix []pubEvent, tr []pubEvent, truncated *bool, depth int) [][]pubEvent {
	out := [][]pubEvent{append([]pubEvent(nil), prefix...)}
	for _, e := range tr {
		switch {
		case e.Kind == "bag" && len(e.unpub) > 0:
			for i := range out {
				if !published(out[i], e.unpub) { // otherwise the guard at the top of the callee returns at once
					out[i] = append(out[i], e)
				}
			}
		case e.Kind != "call":
			for i := range out {
				out[i] = append(out[i], e)
			}
		default:
			var next [][]pubEvent
			seen := map[string]bool{}
			add := func(c []pubEvent) {
				if len(next) >= maxSuffixes {
					*truncated = true
					return
				}
				c = normalise(c)
				if k := traceKey(c); !seen[k] {
					seen[k] = true
					next = append(next, c)
				}
			}
			for _, pre := range out {
				if len(next) >= maxSuffixes {
					*truncated = true
					break
				}
				for _, g := range e.alts {
					if (len(g.unpub) > 0 && published(pre, g.unpub)) || depth > 20 {
						add(pre)
						continue
					}
					for _, alt := range g.traces {
						for _, x := range expandFrom(pre, alt, truncated, depth+1) {
							add(x)
						}
					}
				}
			}
			out = next
		}
	}
	return out
}

func (a *analyzer) guardOf(fn *ssa.Function) []string {
	for _, og := range a.cfg.OnceGuards {
		if og.Func == shortName(fn.String()) && guardPresent(fn, og.Mentions) {
			return og.Unpublished
		}
	}
	return nil
}

func (a *analyzer) pubExemptWhy(published, field string) string {
	for _, x := range a.cfg.PublicationExempt {
		if pubExemptMatches(x, published, field) {
			return x.Why
		}
	}
	return ""
}

// pubExemptMatches: Field may end in ".*" (every field of that struct type)
func pubExemptMatches(x pubExempt, published, field string) bool {
	if x.Published != published && x.Published != "*" {
		return false
	}
	if strings.HasSuffix(x.Field, ".*") {
		return strings.HasPrefix(field, x.Field[:len(x.Field)-1])
	}
	return x.Field == field
}

func (a *analyzer) covers(t, owner string) bool {
	for n, cl := range a.pub.closure {
		if namedName(n) != t {
			continue
		}
		for _, c := range cl {
			if namedName(c) == owner {
				return true
			}
		}
	}
	return t == owner
}

func (a *analyzer) pubResult() *pubFacts {
	pf := &pubFacts{FieldOwner: map[string]string{}, Shared: map[string]string{}, Covers: [][2]string{}, Exempt: []pubExempt{},
		Traces: []pubTraceOut{}, Violations: []pubViolationOut{}, Exempted: []pubViolationOut{}, Types: []string{}, Fields: []string{}, Sites: []string{}}
	if a.pub == nil || len(a.pub.consumer) == 0 {
		return pf
	}
	// violations found by the walk
	keys := make([]string, 0, len(a.pub.cands))
	for k := range a.pub.cands {
		keys = append(keys, k)
	}
	sort.Strings(keys)
	for _, k := range keys {
		c := a.pub.cands[k]
		sh, ok := a.pub.shared[c.published+"|"+c.field]
		if !ok {
			continue // no other goroutine reaches the field through the published object
		}
		o := pubViolationOut{Field: c.field, Owner: c.owner, Published: c.published, WrittenAt: a.pf.str(c.pos), Func: shortName(c.fn.String()),
			SharedBy: sh, Chain: a.chainStrings(c.chain, "")}
		if c.pubFn != nil {
			o.PublishedAt = fmt.Sprintf("%s in %s", a.pf.str(c.pubPos), shortName(c.pubFn.String()))
		}
		if why := a.pubExemptWhy(c.published, c.field); why != "" {
			o.Exempt = why
			pf.Exempted = append(pf.Exempted, o)
		} else {
			pf.Violations = append(pf.Violations, o)
		}
	}
	// traces
	memo := map[*ssa.Function][2]map[string]bool{}
	typeSet, fieldSet := map[string]bool{}, map[string]bool{}
	var fns []*ssa.Function
	for fn := range a.pub.entryPubs {
		if !tracked(fnPkgPath(fn)) || a.isConsumerPkg(fnPkgPath(fn)) {
			continue
		}
		if _, ps := a.bagOf(fn, memo, map[*ssa.Function]bool{}); len(ps) > 0 {
			// only the outermost functions: the traces of the others are spliced into theirs
			outer := true
			if node := a.cg.Nodes[fn]; node != nil {
				for _, e := range node.In {
					c := e.Caller.Func
					if c == nil || c == fn || !tracked(fnPkgPath(c)) || a.isConsumerPkg(fnPkgPath(c)) {
						continue
					}
					if _, isGo := e.Site.(*ssa.Go); isGo {
						continue
					}
					if _, seenByWalk := a.pub.entryPubs[c]; seenByWalk {
						outer = false
					}
				}
			}
			if outer || a.guardOf(fn) != nil {
				fns = append(fns, fn)
			}
		}
	}
	// (order across activations - SETUP after DESCRIBE, a second command after play - is decided by the walk:
	// pub_walk_violations below)
	sort.Slice(fns, func(i, j int) bool {
		if fns[i].String() != fns[j].String() {
			return fns[i].String() < fns[j].String()
		}
		return fns[i].Pos() < fns[j].Pos()
	})
	truncated := 0
	globalSeen := map[string]bool{}
	for _, fn := range fns {
		t0 := time.Now()
		trs, trunc := a.fnTraces(fn, memo, 0)
		if os.Getenv("LOCKGRAPH_DEBUG") != "" {
			fmt.Fprintf(os.Stderr, "traces %s: %d in %v\n", shortName(fn.String()), len(trs), time.Since(t0))
		}
		if trunc {
			truncated++
		}
		seen := map[string]bool{}
		for _, full := range trs {
			// a trace without any write, or without any publication, cannot violate the property
			hasW, hasP := false, false
			for _, e := range full {
				if e.Kind == "wr" || (e.Kind == "bag" && len(e.Ws) > 0) {
					hasW = true
				}
				if e.Kind == "pub" || (e.Kind == "bag" && len(e.Ps) > 0) {
					hasP = true
				}
			}
			if !hasW || !hasP {
				continue
			}
			k := traceKey(full)
			if seen[k] || globalSeen[k] {
				continue
			}
			seen[k] = true
			globalSeen[k] = true
			pf.Traces = append(pf.Traces, pubTraceOut{Func: shortName(fn.String()), Events: full})
			for _, e := range full {
				if e.Type != "" {
					typeSet[e.Type] = true
				}
				if e.Field != "" {
					fieldSet[e.Field] = true
				}
				for _, f := range e.Ws {
					fieldSet[f] = true
				}
				for _, t := range e.Ps {
					typeSet[t] = true
				}
			}
		}
	}
	a.notes["publication_trace_functions"] = len(fns)
	a.notes["publication_traces"] = len(pf.Traces)
	a.notes["publication_traces_truncated_functions"] = truncated
	for f := range fieldSet {
		pf.FieldOwner[f] = a.pub.fieldOwner[f]
		typeSet[a.pub.fieldOwner[f]] = true
	}
	pf.Types, pf.Fields = setList(typeSet), setList(fieldSet)
	for k, w := range a.pub.shared {
		i := strings.Index(k, "|")
		if typeSet[k[:i]] && fieldSet[k[i+1:]] {
			pf.Shared[k] = w
		}
	}
	for _, t := range pf.Types {
		for _, o := range pf.Types {
			if a.covers(t, o) {
				pf.Covers = append(pf.Covers, [2]string{t, o})
			}
		}
	}
	for _, x := range a.cfg.PublicationExempt {
		pf.Exempt = append(pf.Exempt, x)
	}
	var sites []string
	for pos, names := range a.pub.pubAt {
		sites = append(sites, fmt.Sprintf("%s publishes %s", a.pf.str(pos), strings.Join(names, ", ")))
	}
	sort.Strings(sites)
	pf.Sites = sites
	return pf
}

var _ = types.Typ

// emitPubCoq appends the publication-order facts to Gen/LockGraph.v
func emitPubCoq(sb *strings.Builder, pf *pubFacts) {
	tid, fid := map[string]int{}, map[string]int{}
	sb.WriteString("\n(* ---- publication order ------------------------------------------------------- *)\n")
	sb.WriteString("Definition pub_type_names : list (N * string) := [\n")
	for i, t := range pf.Types {
		tid[t] = i
		sep := ";"
		if i == len(pf.Types)-1 {
			sep = ""
		}
		fmt.Fprintf(sb, "  (%d, %s)%s\n", i, coqString(t), sep)
	}
	sb.WriteString("].\n\nDefinition pub_field_names : list (N * string) := [\n")
	for i, f := range pf.Fields {
		fid[f] = i
		sep := ";"
		if i == len(pf.Fields)-1 {
			sep = ""
		}
		fmt.Fprintf(sb, "  (%d, %s)%s\n", i, coqString(f), sep)
	}
	sb.WriteString("].\n\n(* field -> struct type it belongs to *)\nDefinition pub_field_owner : list (N * N) := [")
	for i, f := range pf.Fields {
		if i > 0 {
			sb.WriteString("; ")
		}
		fmt.Fprintf(sb, "(%d, %d)", fid[f], tid[pf.FieldOwner[f]])
	}
	sb.WriteString("].\n\n(* (t, f): a goroutine other than the constructing one reaches field f through a published object of type t *)\nDefinition pub_shared : list (N * N) := [")
	var sk []string
	for k := range pf.Shared {
		sk = append(sk, k)
	}
	sort.Strings(sk)
	for i, k := range sk {
		j := strings.Index(k, "|")
		if i > 0 {
			sb.WriteString("; ")
		}
		fmt.Fprintf(sb, "(%d, %d)", tid[k[:j]], fid[k[j+1:]])
	}
	sb.WriteString("].\n\n(* (t, t'): publishing an object of type t makes objects of type t' reachable *)\nDefinition pub_covers : list (N * N) := [")
	for i, c := range pf.Covers {
		if i > 0 {
			sb.WriteString("; ")
		}
		fmt.Fprintf(sb, "(%d, %d)", tid[c[0]], tid[c[1]])
	}
	sb.WriteString("].\n\n(* reviewed (published type, field) pairs *)\nDefinition pub_exempt : list (N * N) := [\n")
	var lines []string
	for _, x := range pf.Exempt {
		for _, t := range pf.Types {
			for _, fld := range pf.Fields {
				if pubExemptMatches(x, t, fld) {
					lines = append(lines, fmt.Sprintf("  (%d, %d)", tid[t], fid[fld])+"%s (* "+coqComment(t+" then "+fld)+" *)")
				}
			}
		}
	}
	for i, l := range lines {
		sep := ";"
		if i == len(lines)-1 {
			sep = ""
		}
		sb.WriteString(strings.Replace(l, "%s", sep, 1) + "\n")
	}
	sb.WriteString("].\n\n(* abstract traces of the functions on construction paths: per acyclic path (loops entered at most twice),\n   prefixed by the types already published when the function is entered *)\n")
	sb.WriteString("Definition pub_traces : list ptrace := [\n")
	for i, tr := range pf.Traces {
		sep := ";"
		if i == len(pf.Traces)-1 {
			sep = ""
		}
		var evs []string
		for _, e := range tr.Events {
			switch e.Kind {
			case "wr":
				evs = append(evs, fmt.Sprintf("PWr %d", fid[e.Field]))
			case "pub":
				evs = append(evs, fmt.Sprintf("PPub %d", tid[e.Type]))
			case "bag":
				var ws, ps []string
				for _, f := range e.Ws {
					ws = append(ws, fmt.Sprint(fid[f]))
				}
				for _, t := range e.Ps {
					ps = append(ps, fmt.Sprint(tid[t]))
				}
				evs = append(evs, fmt.Sprintf("PBag [%s] [%s]", strings.Join(ws, "; "), strings.Join(ps, "; ")))
			}
		}
		fmt.Fprintf(sb, "  [%s]%s (* %s *)\n", strings.Join(evs, "; "), sep, coqComment(tr.Func))
	}
	sb.WriteString("].\n\n")
	fmt.Fprintf(sb, "(* writes after publication found by the context-sensitive walk (it also follows the order across\n   activations: SETUP after DESCRIBE, a command after play ...), reviewed exemptions applied *)\nDefinition pub_walk_violations : N := %d.\n", len(pf.Violations))
}

// sharedAny: some goroutine other than the constructing one reaches the field (through whatever root)
func (a *analyzer) sharedAny(field string) bool {
	if a.pub.sharedFields == nil {
		a.pub.sharedFields = map[string]bool{}
		for k := range a.pub.shared {
			a.pub.sharedFields[k[strings.Index(k, "|")+1:]] = true
		}
	}
	return a.pub.sharedFields[field]
}
