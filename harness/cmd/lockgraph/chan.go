package main

// Channel discipline (C20): a send on a closed channel aborts the process.
// For every channel class (pkg.Type.field, or func$local) that is closed
// somewhere in lal / naza, every send site must be justified by one of the
// recognised protocols (proved safe in coq/theories/Lock/ChanProofs.v):
//
//   1 (a) send and close run under one common mutex, and the sender's function reads a field
//         (the "closed" flag) that the closing function writes
//   2 (b) the only sender is the closer: all sends and closes of the class are in one function and
//         no send is reachable after a close (a deferred close runs last)
//   4 (d) the senders are joined before the close: the closing function calls WaitGroup.Wait before
//         close, the sending function (or an enclosing one) calls Done on the same WaitGroup
//
// (c) - a select with a done channel while the data channel is never closed - needs nothing: channels
// that are never closed have no obligation and are only listed.

import (
	"fmt"
	"go/token"
	"go/types"
	"sort"
	"strings"

	"golang.org/x/tools/go/ssa"
	"golang.org/x/tools/go/ssa/ssautil"
)

type chanSite struct {
	class string
	kind  string // send | select-send | close | defer-close | go-close
	fn    *ssa.Function
	ins   ssa.Instruction
	pos   token.Pos
	held  map[int]bool // real lock classes held in every context the walk saw (nil: not walked)
	// up to two call chains with different immediate callers (close sites: who may run it a second time)
	chains []*chainNode
}

type chanSiteOut struct {
	Pos      string   `json:"pos"`
	Func     string   `json:"func"`
	Kind     string   `json:"kind"`
	Holding  []string `json:"always_holding"`
	Protocol int      `json:"protocol,omitempty"`
	Why      string   `json:"why,omitempty"`
}

type chanOut struct {
	Class  string        `json:"class"`
	Closes []chanSiteOut `json:"closes"`
	Sends  []chanSiteOut `json:"sends"`
}

type chanViolation struct {
	Class string      `json:"class"`
	Close chanSiteOut `json:"close"`
	Send  chanSiteOut `json:"send"`
	Why   string      `json:"why"`
	// double close: the chains of two callers that can both reach the close site
	Kind   string     `json:"kind"` // send-after-close | double-close
	Chains [][]string `json:"caller_chains,omitempty"`
}

type chanFacts struct {
	Channels   []chanOut       `json:"channels"` // every channel class with a send or close site
	Violations []chanViolation `json:"violations"`
}

// chanClass names the channel (or WaitGroup) an expression denotes
func (a *analyzer) chanClass(v ssa.Value, in *ssa.Function) string {
	switch x := v.(type) {
	case *ssa.UnOp:
		if x.Op == token.MUL {
			return a.chanClass(x.X, in)
		}
	case *ssa.FieldAddr:
		if st, owner := structOf(x.X.Type()); st != nil {
			n, _, _ := fieldClass(owner, st.Field(x.Field), x.X.Type(), a.pf, x.Pos())
			return n
		}
	case *ssa.Field:
		if st, owner := structOf(x.X.Type()); st != nil {
			n, _, _ := fieldClass(owner, st.Field(x.Field), x.X.Type(), a.pf, x.Pos())
			return n
		}
	case *ssa.Global:
		if x.Pkg != nil {
			return shortPkg(x.Pkg.Pkg.Path()) + "." + x.Name()
		}
	case *ssa.Alloc:
		return shortName(x.Parent().String()) + "$" + x.Comment
	case *ssa.FreeVar:
		// the captured variable of the enclosing function
		if p := x.Parent().Parent(); p != nil {
			return shortName(p.String()) + "$" + x.Name()
		}
	case *ssa.MakeChan:
		return shortName(x.Parent().String()) + "$chan@" + a.pf.str(x.Pos())
	case *ssa.Parameter:
		return shortName(x.Parent().String()) + "$param:" + x.Name()
	case *ssa.ChangeType:
		return a.chanClass(x.X, in)
	case *ssa.Phi:
		for _, e := range x.Edges {
			if c := a.chanClass(e, in); c != "" {
				return c
			}
		}
	}
	return ""
}

func isBuiltinClose(c *ssa.CallCommon) bool {
	b, ok := c.Value.(*ssa.Builtin)
	return ok && b.Name() == "close" && len(c.Args) == 1
}

// prepareChans finds every send / close site in the lal and naza modules
func (a *analyzer) prepareChans() {
	a.chanSites = map[ssa.Instruction][]*chanSite{}
	a.chanClosed = map[string]bool{}
	a.chanByFn = map[*ssa.Function][]*chanSite{}
	add := func(fn *ssa.Function, ins ssa.Instruction, class, kind string) {
		if class == "" {
			class = "?unnamed channel in " + shortName(fn.String())
		}
		s := &chanSite{class: class, kind: kind, fn: fn, ins: ins, pos: ins.Pos()}
		a.chanSites[ins] = append(a.chanSites[ins], s)
		a.chanAll = append(a.chanAll, s)
		if kind != "send" && kind != "select-send" {
			a.chanClosed[class] = true
			a.chanByFn[fn] = append(a.chanByFn[fn], s)
		}
	}
	for fn := range ssautil.AllFunctions(a.prog) {
		if !tracked(fnPkgPath(fn)) {
			continue
		}
		for _, b := range fn.Blocks {
			for _, ins := range b.Instrs {
				switch x := ins.(type) {
				case *ssa.Send:
					add(fn, ins, a.chanClass(x.Chan, fn), "send")
				case *ssa.Select:
					for _, st := range x.States {
						if st.Dir == types.SendOnly {
							add(fn, ins, a.chanClass(st.Chan, fn), "select-send")
						}
					}
				case ssa.CallInstruction:
					if isBuiltinClose(x.Common()) {
						kind := "close"
						switch ins.(type) {
						case *ssa.Defer:
							kind = "defer-close"
						case *ssa.Go:
							kind = "go-close"
						}
						add(fn, ins, a.chanClass(x.Common().Args[0], fn), kind)
					}
				}
			}
		}
	}
}

// chanInteresting: the walk has to visit the sites of closed channels (to learn the locks held)
func (a *analyzer) chanInteresting(fn *ssa.Function) bool {
	for _, s := range a.chanAll {
		if s.fn == fn && a.chanClosed[s.class] {
			return true
		}
	}
	return false
}

// addChain keeps up to two call chains with different immediate callers for a close site
func (s *chanSite) addChain(chain *chainNode) {
	if s.kind == "send" || s.kind == "select-send" || chain == nil {
		return
	}
	caller := func(c *chainNode) *ssa.Function {
		if c.parent != nil {
			return c.parent.fn
		}
		return nil
	}
	// a chain that shows where its closures were made reads better than one that starts at the
	// function the closure was handed to
	orphans := func(c *chainNode) int {
		in := map[*ssa.Function]bool{}
		for x := c; x != nil; x = x.parent {
			in[x.fn] = true
		}
		n := 0
		for x := c; x != nil; x = x.parent {
			if p := x.fn.Parent(); p != nil && !in[p] {
				n++
			}
		}
		return n
	}
	for i, c := range s.chains {
		if caller(c) == caller(chain) {
			if orphans(chain) < orphans(c) {
				s.chains[i] = chain
			}
			return
		}
	}
	if len(s.chains) < 2 {
		s.chains = append(s.chains, chain)
	}
}

// chanRevisit: the walk reaches fn again in a context it already summarised; the close sites of fn
// learn the other caller
func (a *analyzer) chanRevisit(fn *ssa.Function, chain *chainNode) {
	if !a.record {
		return
	}
	for _, s := range a.chanByFn[fn] {
		s.addChain(chain)
	}
}

// chanVisit records the real locks held at a send / close site (intersection over the contexts)
func (a *analyzer) chanVisit(ins ssa.Instruction, cur []state, chain *chainNode) {
	sites, ok := a.chanSites[ins]
	if !ok || !a.record { // pass B starts every function with nothing held: not a context of the program
		return
	}
	for _, s := range sites {
		s.addChain(chain)
	}
	for _, st := range cur {
		now := map[int]bool{}
		for _, h := range st.held {
			if !a.pseudo(h.class) {
				now[h.class] = true
			}
		}
		for _, s := range sites {
			if s.held == nil {
				s.held = now
				continue
			}
			for c := range s.held {
				if !now[c] {
					delete(s.held, c)
				}
			}
		}
	}
}

func (a *analyzer) fieldsTouched(fn *ssa.Function, writes bool) map[string]bool {
	out := map[string]bool{}
	for _, b := range fn.Blocks {
		for _, ins := range b.Instrs {
			fa, ok := ins.(*ssa.FieldAddr)
			if !ok {
				continue
			}
			st, owner := structOf(fa.X.Type())
			if st == nil || owner == nil {
				continue
			}
			name := namedName(owner.Origin()) + "." + st.Field(fa.Field).Name()
			k := accessKind(fa)
			if (writes && k == "write") || (!writes && k == "read") {
				out[name] = true
			}
		}
	}
	return out
}

// sendAfterClose: in fn, a send on class is reachable after a (not deferred) close of it
func (a *analyzer) sendAfterClose(fn *ssa.Function, class string) bool {
	isSite := func(ins ssa.Instruction, closeWanted bool) bool {
		for _, s := range a.chanSites[ins] {
			if s.class != class {
				continue
			}
			if closeWanted && s.kind == "close" {
				return true
			}
			if !closeWanted && (s.kind == "send" || s.kind == "select-send") {
				return true
			}
		}
		return false
	}
	for _, b := range fn.Blocks {
		for i, ins := range b.Instrs {
			if !isSite(ins, true) {
				continue
			}
			for _, later := range b.Instrs[i+1:] {
				if isSite(later, false) {
					return true
				}
			}
			seen := map[*ssa.BasicBlock]bool{}
			work := append([]*ssa.BasicBlock(nil), b.Succs...)
			for len(work) > 0 {
				n := work[len(work)-1]
				work = work[:len(work)-1]
				if seen[n] {
					continue
				}
				seen[n] = true
				for _, x := range n.Instrs {
					if isSite(x, false) {
						return true
					}
				}
				work = append(work, n.Succs...)
			}
		}
	}
	return false
}

// waitGroupCalls: classes of the WaitGroups on which fn (or, for Done, an enclosing function) calls method
func (a *analyzer) waitGroupCalls(fn *ssa.Function, method string, before ssa.Instruction, enclosing bool) map[string]bool {
	out := map[string]bool{}
	for f := fn; f != nil; f = f.Parent() {
		for _, b := range f.Blocks {
			for _, ins := range b.Instrs {
				if ins == before {
					break
				}
				ci, ok := ins.(ssa.CallInstruction)
				if !ok {
					continue
				}
				c := ci.Common().StaticCallee()
				if c == nil || c.Name() != method || c.Signature.Recv() == nil || !isSyncType(c.Signature.Recv().Type(), "WaitGroup") {
					continue
				}
				if cl := a.chanClass(ci.Common().Args[0], f); cl != "" {
					out[cl] = true
				}
			}
			if before != nil && before.Block() == b {
				break
			}
		}
		if !enclosing {
			break
		}
	}
	return out
}

func (a *analyzer) chanResult() *chanFacts {
	cf := &chanFacts{Channels: []chanOut{}, Violations: []chanViolation{}}
	byClass := map[string][]*chanSite{}
	for _, s := range a.chanAll {
		byClass[s.class] = append(byClass[s.class], s)
	}
	var classes []string
	for c := range byClass {
		classes = append(classes, c)
	}
	sort.Strings(classes)
	out := func(s *chanSite) chanSiteOut {
		o := chanSiteOut{Pos: a.pf.str(s.pos), Func: shortName(s.fn.String()), Kind: s.kind, Holding: []string{}}
		for c := range s.held {
			o.Holding = append(o.Holding, a.classNames[c])
		}
		sort.Strings(o.Holding)
		return o
	}
	for _, class := range classes {
		sites := byClass[class]
		sort.Slice(sites, func(i, j int) bool {
			return a.pf.str(sites[i].pos)+sites[i].kind < a.pf.str(sites[j].pos)+sites[j].kind
		})
		co := chanOut{Class: class, Closes: []chanSiteOut{}, Sends: []chanSiteOut{}}
		var closes, sends []*chanSite
		for _, s := range sites {
			if s.kind == "send" || s.kind == "select-send" {
				sends = append(sends, s)
			} else {
				closes = append(closes, s)
			}
		}
		for _, c := range closes {
			o := out(c)
			o.Protocol, o.Why = a.closeOnce(class, c, closes)
			if o.Protocol == 0 {
				v := chanViolation{Class: class, Close: o, Why: o.Why, Kind: "double-close"}
				for _, ch := range c.chains {
					v.Chains = append(v.Chains, a.chainStrings(ch, "close "+class+" at "+a.pf.str(c.pos)))
				}
				cf.Violations = append(cf.Violations, v)
			}
			co.Closes = append(co.Closes, o)
		}
		// (b): everything in one function, no send after a close
		oneFn := len(closes) > 0
		for _, s := range sites {
			if s.fn != sites[0].fn {
				oneFn = false
			}
		}
		for _, s := range sends {
			so := out(s)
			if len(closes) > 0 {
				so.Protocol, so.Why = a.chanProtocol(class, s, closes, oneFn)
				if so.Protocol == 0 {
					for _, c := range closes {
						cf.Violations = append(cf.Violations, chanViolation{Class: class, Close: out(c), Send: so, Why: so.Why, Kind: "send-after-close"})
					}
				}
			}
			co.Sends = append(co.Sends, so)
		}
		cf.Channels = append(cf.Channels, co)
	}
	return cf
}

// closeOnce: why a close site runs at most once per channel instance
//
//	1 it runs inside a sync.Once.Do function
//	2 it runs under a mutex in a function that tests and sets a flag under that mutex
//	3 the function closes a channel it made itself, once (not in a loop)
//	5 reviewed (close_once in the configuration)
func (a *analyzer) closeOnce(class string, c *chanSite, closes []*chanSite) (int, string) {
	// the once / the mutex and its flag have to live in the object that holds the channel:
	// one of them per channel instance
	owner := func(s string) string {
		if i := strings.LastIndex(s, "."); i >= 0 {
			return s[:i]
		}
		return s
	}
	for id := range c.held {
		if a.classKind[id] == "once" && owner(a.classNames[id]) == owner(class) {
			return 1, "runs inside the function of " + a.classNames[id] + ".Do"
		}
	}
	for id := range c.held {
		if a.classKind[id] != "once" && owner(a.classNames[id]) == owner(class) {
			written := a.fieldsTouched(c.fn, true)
			for _, f := range a.testedBefore(c.ins) {
				if written[f] && owner(f) == owner(class) {
					return 2, fmt.Sprintf("runs under %s after a test of %s, which the function sets", a.classNames[id], f)
				}
			}
		}
	}
	if len(closes) == 1 && !inCycle(c.ins.Block()) {
		if com := c.ins.(ssa.CallInstruction).Common(); len(com.Args) == 1 {
			if a.madeHere(com.Args[0], c.fn) {
				return 3, "the function closes, once, a channel it made itself"
			}
		}
	}
	if why, ok := a.cfg.CloseOnce[shortName(c.fn.String())]; ok {
		return 5, "reviewed: " + why
	}
	n := "no caller seen"
	if len(c.chains) >= 2 {
		n = "at least two callers reach it"
	}
	return 0, "nothing makes this close run at most once per channel (no sync.Once, no flag tested and set under a mutex, not the channel's maker): " + n + ", a second run panics with 'close of closed channel'"
}

// testedBefore: the fields whose value decides a branch that the instruction is behind (one arm of the
// branch dominates it)
func (a *analyzer) testedBefore(ins ssa.Instruction) []string {
	fn, blk := ins.Parent(), ins.Block()
	var fieldOf func(v ssa.Value, depth int) string
	fieldOf = func(v ssa.Value, depth int) string {
		if depth > 3 {
			return ""
		}
		switch x := v.(type) {
		case *ssa.UnOp:
			if x.Op == token.MUL {
				if fa, ok := x.X.(*ssa.FieldAddr); ok {
					if st, o := structOf(fa.X.Type()); st != nil && o != nil {
						return namedName(o.Origin()) + "." + st.Field(fa.Field).Name()
					}
				}
				return ""
			}
			return fieldOf(x.X, depth+1)
		case *ssa.BinOp:
			if f := fieldOf(x.X, depth+1); f != "" {
				return f
			}
			return fieldOf(x.Y, depth+1)
		}
		return ""
	}
	var out []string
	for _, b := range fn.Blocks {
		if len(b.Instrs) == 0 || b == blk {
			continue
		}
		iff, ok := b.Instrs[len(b.Instrs)-1].(*ssa.If)
		if !ok || !b.Dominates(blk) {
			continue
		}
		arm := false
		for _, s := range b.Succs {
			if s.Dominates(blk) && len(s.Preds) == 1 {
				arm = true
			}
		}
		if f := fieldOf(iff.Cond, 0); arm && f != "" {
			out = append(out, f)
		}
	}
	return out
}

// madeHere: the channel value is a make(chan) of fn (possibly through a local variable)
func (a *analyzer) madeHere(v ssa.Value, fn *ssa.Function) bool {
	switch x := v.(type) {
	case *ssa.MakeChan:
		return x.Parent() == fn
	case *ssa.ChangeType:
		return a.madeHere(x.X, fn)
	case *ssa.UnOp:
		if al, ok := x.X.(*ssa.Alloc); ok && al.Parent() == fn {
			made := false
			if refs := al.Referrers(); refs != nil {
				for _, r := range *refs {
					if st, ok := r.(*ssa.Store); ok && st.Addr == al {
						if _, isMake := st.Val.(*ssa.MakeChan); isMake {
							made = true
						} else {
							return false
						}
					}
				}
			}
			return made
		}
	}
	return false
}

// inCycle: the block can reach itself
func inCycle(b *ssa.BasicBlock) bool {
	seen := map[*ssa.BasicBlock]bool{}
	work := append([]*ssa.BasicBlock(nil), b.Succs...)
	for len(work) > 0 {
		n := work[len(work)-1]
		work = work[:len(work)-1]
		if n == b {
			return true
		}
		if seen[n] {
			continue
		}
		seen[n] = true
		work = append(work, n.Succs...)
	}
	return false
}

func (a *analyzer) chanProtocol(class string, s *chanSite, closes []*chanSite, oneFn bool) (int, string) {
	if oneFn {
		for _, c := range closes {
			if c.kind == "go-close" {
				oneFn = false
			}
		}
		if oneFn && !a.sendAfterClose(s.fn, class) {
			return 2, "the closer is the only sender: every send and close of the channel is in " + shortName(s.fn.String()) + " and no send is reachable after a close"
		}
	}
	// (a): a common mutex at the send and at every close, and a flag the closer writes and the sender reads
	common := map[int]bool{}
	for c := range s.held {
		common[c] = true
	}
	for _, c := range closes {
		for m := range common {
			if !c.held[m] {
				delete(common, m)
			}
		}
	}
	if len(common) > 0 {
		reads := a.fieldsTouched(s.fn, false)
		flagOK := true
		flag := ""
		for _, c := range closes {
			found := false
			for f := range a.fieldsTouched(c.fn, true) {
				if reads[f] {
					found = true
					flag = f
				}
			}
			if !found {
				flagOK = false
			}
		}
		if flagOK {
			var m string
			for c := range common {
				m = a.classNames[c]
			}
			return 1, fmt.Sprintf("send and close both run under %s; the closing function sets %s, which the sending function tests", m, flag)
		}
	}
	// (d): joined before the close
	joined := true
	wgName := ""
	for _, c := range closes {
		waits := a.waitGroupCalls(c.fn, "Wait", c.ins, false)
		dones := a.waitGroupCalls(s.fn, "Done", nil, true)
		ok := false
		for w := range waits {
			if dones[w] {
				ok = true
				wgName = w
			}
		}
		if !ok {
			joined = false
		}
	}
	if joined && len(closes) > 0 {
		return 4, "the sending goroutine is joined before the close: Done on " + wgName + " in the sender, Wait on it before close"
	}
	why := "no recognised protocol: "
	switch {
	case len(closes) > 0 && closes[0].fn == s.fn && a.sendAfterClose(s.fn, class):
		why += "a send is reachable after the close in the same function"
	case len(s.held) == 0:
		why += "the send runs without a mutex, the sender is not the closer, and it is not joined before the close (a flag tested before the send does not help: test and send are not atomic against the close)"
	case len(common) == 0:
		why += "send and close do not run under a common mutex"
	default:
		why += "send and close share a mutex but the sender does not test a field the closer sets"
	}
	return 0, why
}

func emitChanCoq(r *result) string {
	cf := r.Channel
	s := "\n(* ---- channel discipline -------------------------------------------------------- *)\n"
	s += "Definition chan_names : list (N * string) := [\n"
	for i, c := range cf.Channels {
		sep := ";"
		if i == len(cf.Channels)-1 {
			sep = ""
		}
		s += fmt.Sprintf("  (%d, %s)%s (* %d send sites, %d close sites *)\n", i, coqString(c.Class), sep, len(c.Sends), len(c.Closes))
	}
	s += "].\n\n(* channels that are closed somewhere *)\nDefinition chan_closed : list N := ["
	first := true
	for i, c := range cf.Channels {
		if len(c.Closes) > 0 {
			if !first {
				s += "; "
			}
			first = false
			s += fmt.Sprint(i)
		}
	}
	s += "].\n\n(* (channel, send site, protocol) for every send site of a closed channel:\n   1 mutex + closed flag, 2 the closer is the only sender, 4 senders joined before the close, 0 none *)\n"
	s += "Definition chan_send_sites : list (N * N * N) := [\n"
	var lines []string
	n := 0
	for i, c := range cf.Channels {
		if len(c.Closes) == 0 {
			continue
		}
		for _, sd := range c.Sends {
			lines = append(lines, fmt.Sprintf("  (%d, %d, %d)%%s (* %s in %s: %s *)", i, n, sd.Protocol, sd.Pos, coqComment(sd.Func), coqComment(sd.Why)))
			n++
		}
	}
	for i, l := range lines {
		sep := ";"
		if i == len(lines)-1 {
			sep = ""
		}
		s += fmt.Sprintf(l, sep) + "\n"
	}
	s += "].\n\n(* (channel, close site, justification) for every close site:\n   1 inside a sync.Once.Do function, 2 test-and-set of a flag under a mutex, 3 the maker closes its own channel once, 5 reviewed, 0 none *)\n"
	s += "Definition chan_close_sites : list (N * N * N) := [\n"
	lines = nil
	n = 0
	for i, c := range cf.Channels {
		for _, cl := range c.Closes {
			lines = append(lines, fmt.Sprintf("  (%d, %d, %d)%%s (* %s in %s: %s *)", i, n, cl.Protocol, cl.Pos, coqComment(cl.Func), coqComment(cl.Why)))
			n++
		}
	}
	for i, l := range lines {
		sep := ";"
		if i == len(lines)-1 {
			sep = ""
		}
		s += fmt.Sprintf(l, sep) + "\n"
	}
	s += "].\n"
	return s
}
