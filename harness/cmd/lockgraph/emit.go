package main

import (
	"fmt"
	"sort"
	"strings"
)

type classOut struct {
	ID    int    `json:"id"`
	Name  string `json:"name"`
	Kind  string `json:"kind"`
	Sites int    `json:"sites"`
}

type edgeOut struct {
	From     int      `json:"from"`
	To       int      `json:"to"`
	FromName string   `json:"from_name"`
	ToName   string   `json:"to_name"`
	HeldAt   string   `json:"held_at"` // where the thread took the first lock
	Chain    []string `json:"chain"`   // call chain from a thread entry point to the second acquisition
}

type accessOut struct {
	Field   string   `json:"field"`
	Func    string   `json:"func"`
	Kind    string   `json:"kind"`
	Pos     string   `json:"pos"`
	Holding []string `json:"holding"`
	Chain   []string `json:"chain"`
	Exempt  string   `json:"exempt,omitempty"`
	Missing string   `json:"missing_lock,omitempty"` // the mutex that guards the field
}

type result struct {
	Algo       string         `json:"algo"`
	Packages   int            `json:"packages"`
	Classes    []classOut     `json:"classes"`
	Edges      []edgeOut      `json:"edges"`
	LockSites  []lockSite     `json:"lock_sites"`
	Unresolved []string       `json:"unresolved"`
	Unguarded  []accessOut    `json:"unguarded"` // reachable without the guard and not exempt
	Exempted   []accessOut    `json:"exempted"`  // reachable without the guard, covered by the whitelist
	Fields     []string       `json:"fields"`    // guarded fields seen
	ExemptFlds []exemptFldOut `json:"exempt_fields"`
	ExemptFns  []exemptFnOut  `json:"exempt_funcs"`
	Stats      map[string]int `json:"stats"`
	// functions that return holding a lock they acquired (not listed as known / helper)
	LockLeaks      []string `json:"lock_leaks"`
	KnownLockLeaks []string `json:"known_lock_leaks_hit"`
	// lock-reaching methods of lal / naza types that match a standard-library interface method
	StdCallable []string `json:"std_callable_locking_methods"`
	// reviewed assumptions of the configuration that were actually used
	InfeasibleUsed []infeasible `json:"infeasible_calls_used"`
	// publication order: traces, shared fields, violations (see publish.go)
	Publication *pubFacts `json:"publication"`
	// channel discipline: send / close sites and the protocol that justifies each send (see chan.go)
	Channel *chanFacts `json:"channel"`
	// escaping values that share guarded memory
	Escape *escapeFacts `json:"escape"`
	// field -> mutex of its struct that guards it (configured or inferred)
	GuardedBy []guardedByOut `json:"guarded_by"`
	// mutable fields of mutex-bearing structs never seen accessed under the mutex (not checked; informational)
	NeverUnderLock []string `json:"mutable_fields_never_accessed_under_the_mutex"`
	// every lock class that is a sync.Mutex / RWMutex struct field, and those for which no guarded field was inferred
	MutexFieldClasses    []string `json:"mutex_field_classes"`
	MutexGuardingNothing []string `json:"mutex_classes_without_guarded_fields"`
}

type guardedByOut struct {
	Field string `json:"field"`
	Mutex string `json:"mutex"`
	How   string `json:"how"`
	// one place where the field is written after construction (why it is not immutable)
	WrittenAt string `json:"written_at,omitempty"`
}

type exemptFldOut struct {
	Field string `json:"field"`
	Kind  string `json:"kind"`
	Why   string `json:"why"`
}
type exemptFnOut struct {
	Func string `json:"func"`
	Why  string `json:"why"`
}

func (a *analyzer) chainStrings(c *chainNode, last string) []string {
	var rev []string
	for n := c; n != nil; n = n.parent {
		if n.parent == nil {
			rev = append(rev, fmt.Sprintf("%s %s", n.kind, shortName(n.fn.String())))
		} else {
			rev = append(rev, fmt.Sprintf("%s at %s -> %s", n.kind, a.pf.str(n.site), shortName(n.fn.String())))
		}
		if n.kind == "go" {
			// a goroutine starts here with no lock held; keep the spawning frames for orientation only
			if n.parent != nil {
				rev = append(rev, "(started by) "+shortName(n.parent.fn.String()))
			}
			break
		}
	}
	out := make([]string, 0, len(rev)+1)
	for i := len(rev) - 1; i >= 0; i-- {
		out = append(out, rev[i])
	}
	if last != "" {
		out = append(out, last)
	}
	return out
}

func (a *analyzer) result() *result {
	r := &result{Stats: map[string]int{}, Edges: []edgeOut{}, Unresolved: []string{}, Unguarded: []accessOut{}, Exempted: []accessOut{},
		Fields: []string{}, LockLeaks: []string{}, KnownLockLeaks: []string{}, StdCallable: []string{}, InfeasibleUsed: []infeasible{},
		ExemptFlds: []exemptFldOut{}, ExemptFns: []exemptFnOut{}, GuardedBy: []guardedByOut{}, NeverUnderLock: []string{},
		MutexFieldClasses: []string{}, MutexGuardingNothing: []string{}}
	// stable numbering: classes sorted by name
	var names []string
	for id, n := range a.classNames {
		if !a.pseudo(id) { // pub: / fgn: / ctx: markers of the publication-order fact are not locks
			names = append(names, n)
		}
	}
	sort.Strings(names)
	renum := map[int]int{}
	for newID, n := range names {
		renum[a.classIDs[n]] = newID
	}
	siteCount := map[string]int{}
	for _, s := range a.lockSites {
		if s.Op == "Lock" || s.Op == "RLock" || s.Op == "Do" {
			siteCount[s.Class]++
		}
	}
	for newID, n := range names {
		r.Classes = append(r.Classes, classOut{ID: newID, Name: n, Kind: a.classKind[a.classIDs[n]], Sites: siteCount[n]})
	}
	for _, w := range a.edges {
		e := edgeOut{From: renum[w.from], To: renum[w.to], FromName: a.classNames[w.from], ToName: a.classNames[w.to]}
		e.HeldAt = fmt.Sprintf("%s in %s", a.pf.str(w.heldAt.pos), shortName(w.heldAt.fn.String()))
		e.Chain = a.chainStrings(w.chain, fmt.Sprintf("acquire %s at %s in %s", a.classNames[w.to], a.pf.str(w.pos), shortName(w.fn.String())))
		r.Edges = append(r.Edges, e)
	}
	sort.Slice(r.Edges, func(i, j int) bool {
		if r.Edges[i].From != r.Edges[j].From {
			return r.Edges[i].From < r.Edges[j].From
		}
		return r.Edges[i].To < r.Edges[j].To
	})
	sort.Slice(a.lockSites, func(i, j int) bool {
		if a.lockSites[i].Pos != a.lockSites[j].Pos {
			return a.lockSites[i].Pos < a.lockSites[j].Pos
		}
		return a.lockSites[i].Op < a.lockSites[j].Op
	})
	r.LockSites = a.lockSites
	for d, where := range a.unres {
		r.Unresolved = append(r.Unresolved, where+": "+d)
	}
	sort.Strings(r.Unresolved)

	// guarded-field facts: a field of a mutex-bearing struct is guarded when the
	// configuration says so or when it is (a) accessed at least once with a mutex
	// of its struct held and (b) written outside constructors
	keys := make([]string, 0, len(a.accesses))
	for k := range a.accesses {
		keys = append(keys, k)
	}
	sort.Strings(keys)
	for _, k := range keys {
		rec := a.accesses[k]
		fi := a.fieldInfo[rec.field]
		if fi == nil || !fi.guardedInferred() {
			continue
		}
		o := accessOut{Field: rec.field, Func: shortName(rec.fn.String()), Kind: rec.kind, Pos: a.pf.str(rec.pos)}
		for _, h := range rec.held {
			if !a.pseudo(h.class) {
				o.Holding = append(o.Holding, a.classNames[h.class])
			}
		}
		o.Chain = a.chainStrings(rec.chain, "")
		o.Missing = fi.guard
		if fi.owned {
			o.Missing += " (the mutex of the struct that holds the object)"
		}
		if why := a.fieldExemption(rec.field, rec.kind, shortName(rec.fn.String())); why != "" {
			o.Exempt = why
			r.Exempted = append(r.Exempted, o)
		} else {
			r.Unguarded = append(r.Unguarded, o)
		}
	}
	structMutexes := map[string][]string{}
	for _, si := range a.structs {
		if si != nil {
			structMutexes[si.name] = si.mutexes
		}
	}
	covered := map[string]bool{}
	for f, fi := range a.fieldInfo {
		if fi.guardedInferred() {
			r.Fields = append(r.Fields, f)
			g := fi.guard
			if g == "" && len(structMutexes[fi.owner]) > 0 {
				g = structMutexes[fi.owner][0]
			}
			how := "inferred"
			if fi.owned {
				how = "owner" // guarded by the mutex of the struct its objects live in
			}
			if fi.forced {
				how = "configured"
			}
			r.GuardedBy = append(r.GuardedBy, guardedByOut{Field: f, Mutex: g, How: how, WrittenAt: fi.writtenAt})
			covered[g] = true
		} else if fi.written && !fi.heldSeen {
			r.NeverUnderLock = append(r.NeverUnderLock, f)
		}
	}
	sort.Strings(r.Fields)
	sort.Strings(r.NeverUnderLock)
	sort.Slice(r.GuardedBy, func(i, j int) bool { return r.GuardedBy[i].Field < r.GuardedBy[j].Field })
	for _, mus := range structMutexes {
		for _, m := range mus {
			if _, isClass := a.classIDs[m]; isClass {
				r.MutexFieldClasses = append(r.MutexFieldClasses, m)
				if !covered[m] {
					r.MutexGuardingNothing = append(r.MutexGuardingNothing, m)
				}
			}
		}
	}
	sort.Strings(r.MutexFieldClasses)
	sort.Strings(r.MutexGuardingNothing)
	for sname, sp := range a.cfg.Guarded {
		for f, ex := range sp.ExemptFields {
			r.ExemptFlds = append(r.ExemptFlds, exemptFldOut{Field: sname + "." + f, Kind: ex.Kind, Why: ex.Why})
		}
	}
	sort.Slice(r.ExemptFlds, func(i, j int) bool { return r.ExemptFlds[i].Field < r.ExemptFlds[j].Field })
	for f, why := range a.cfg.ExemptFuncs {
		r.ExemptFns = append(r.ExemptFns, exemptFnOut{Func: f, Why: why})
	}
	sort.Slice(r.ExemptFns, func(i, j int) bool { return r.ExemptFns[i].Func < r.ExemptFns[j].Func })

	for k, where := range a.leaks {
		fnName := strings.SplitN(k, "|", 2)[0]
		if a.knownLeaks[fnName] {
			continue
		}
		r.LockLeaks = append(r.LockLeaks, k+" (acquired at "+where+")")
	}
	sort.Strings(r.LockLeaks)
	for k := range a.knownLeaks {
		r.KnownLockLeaks = append(r.KnownLockLeaks, k)
	}
	sort.Strings(r.KnownLockLeaks)
	for _, m := range a.stdCallable {
		r.StdCallable = append(r.StdCallable, shortName(m.fn.String()))
	}
	for i, x := range a.cfg.InfeasibleCalls {
		if a.infeasibleUsed[i] {
			r.InfeasibleUsed = append(r.InfeasibleUsed, x)
		}
	}
	r.Publication = a.pubResult()
	r.Channel = a.chanResult()
	r.Escape = a.escapeResult(a.fns)
	r.Stats["contexts"] = a.contexts
	r.Stats["guarded_access_kinds_seen_with_guard_held"] = len(a.guardedOK)
	for k, v := range a.notes {
		r.Stats[k] = v
	}
	return r
}

func (a *analyzer) fieldExemption(field, kind, fn string) string {
	i := strings.LastIndex(field, ".")
	sname, fname := field[:i], field[i+1:]
	sp, ok := a.cfg.Guarded[sname]
	if !ok {
		return ""
	}
	ex, ok := sp.ExemptFields[fname]
	if !ok {
		return ""
	}
	for _, f := range ex.Funcs {
		if f == fn {
			return "in " + fn + ": " + ex.Why
		}
	}
	switch ex.Kind {
	case "known_finding":
		return "known finding: " + ex.Why
	case "self_synchronized":
		return "self_synchronized: " + ex.Why
	case "immutable":
		if kind == "read" {
			return "immutable: " + ex.Why
		}
	case "immutable_addr_ok":
		// also the address may be taken (pointer-receiver methods reviewed to be read-only)
		if kind == "read" || kind == "addr" {
			return "immutable: " + ex.Why
		}
	}
	return ""
}

// coqComment makes a text safe inside a Coq comment (no nested comment
// openers / closers, no string quotes)
func coqComment(s string) string {
	s = strings.ReplaceAll(s, "(*", "(")
	s = strings.ReplaceAll(s, "*)", ")")
	s = strings.ReplaceAll(s, "\"", "'")
	return s
}

func coqString(s string) string {
	return "\"" + strings.ReplaceAll(s, "\"", "\"\"") + "\"%string"
}

// emitCoq writes Gen/LockGraph.v.  Only facts, no proofs.  The whitelist is
// applied on the Coq side too (Properties/C20.v), so the raw list of accesses
// that are reachable without the guard is emitted together with the exempt
// fields.
func emitCoq(r *result) string {
	var sb strings.Builder
	sb.WriteString("(* GENERATED by harness/cmd/lockgraph from the lal source tree - do not edit.\n")
	sb.WriteString("   Lock classes, lock-order edges (\"acquire b while holding a\") and the\n")
	sb.WriteString("   guarded-field accesses reachable without their guard.  Witness call chains\n")
	sb.WriteString("   are in the JSON written next to this file. *)\n")
	sb.WriteString("From Coq Require Import List NArith String.\nFrom Lal Require Import Lock.PubOrder.\nImport ListNotations.\nOpen Scope N_scope.\n\n")
	sb.WriteString("Definition lock_names : list (N * string) := [\n")
	for i, c := range r.Classes {
		sep := ";"
		if i == len(r.Classes)-1 {
			sep = ""
		}
		fmt.Fprintf(&sb, "  (%d, %s)%s (* %s, %d acquisition sites *)\n", c.ID, coqString(c.Name), sep, coqComment(c.Kind), c.Sites)
	}
	sb.WriteString("].\n\n")
	sb.WriteString("Definition lock_graph : list (N * N) := [\n")
	for i, e := range r.Edges {
		sep := ";"
		if i == len(r.Edges)-1 {
			sep = ""
		}
		fmt.Fprintf(&sb, "  (%d, %d)%s (* %s -> %s *)\n", e.From, e.To, sep, coqComment(e.FromName), coqComment(e.ToName))
	}
	sb.WriteString("].\n\n")

	// guarded fields: ids by sorted name
	fid := map[string]int{}
	sb.WriteString("Definition field_names : list (N * string) := [\n")
	for i, f := range r.Fields {
		fid[f] = i
		sep := ";"
		if i == len(r.Fields)-1 {
			sep = ""
		}
		fmt.Fprintf(&sb, "  (%d, %s)%s\n", i, coqString(f), sep)
	}
	sb.WriteString("].\n\n")
	cid := map[string]int{}
	for _, c := range r.Classes {
		cid[c.Name] = c.ID
	}
	sb.WriteString("(* (guarded field, lock class of the mutex of its struct) - configured, or inferred: accessed at least\n   once under that mutex and written outside constructors *)\n")
	sb.WriteString("Definition guarded_by : list (N * N) := [\n")
	for i, gb := range r.GuardedBy {
		sep := ";"
		if i == len(r.GuardedBy)-1 {
			sep = ""
		}
		fmt.Fprintf(&sb, "  (%d, %d)%s (* %s by %s, %s *)\n", fid[gb.Field], cid[gb.Mutex], sep, coqComment(gb.Field), coqComment(gb.Mutex), gb.How)
	}
	sb.WriteString("].\n\n")
	numList := func(name, comment string, l []string) {
		fmt.Fprintf(&sb, "(* %s *)\nDefinition %s : list N := [", comment, name)
		for i, m := range l {
			if i > 0 {
				sb.WriteString("; ")
			}
			fmt.Fprintf(&sb, "%d", cid[m])
		}
		sb.WriteString("].\n\n")
	}
	numList("mutex_field_classes", "every lock class that is a sync.Mutex / sync.RWMutex field of a struct of lal or naza", r.MutexFieldClasses)
	numList("mutex_classes_without_guarded_fields", "of those, the ones for which no sibling field is both accessed under the mutex and written after construction: "+coqComment(strings.Join(r.MutexGuardingNothing, ", ")), r.MutexGuardingNothing)
	// exempt fields: (field id, writes_exempt_too)
	sb.WriteString("(* (field, level): 0 = reads exempt (immutable after construction), 1 = reads and address-taking exempt\n   (pointer-receiver getters), 2 = every access exempt (self-synchronised) *)\n")
	sb.WriteString("Definition exempt_fields : list (N * N) := [\n")
	var lines []string
	for _, ex := range r.ExemptFlds {
		id, ok := fid[ex.Field]
		if !ok {
			continue
		}
		b := "0"
		if ex.Kind == "self_synchronized" || ex.Kind == "known_finding" {
			b = "2"
		} else if ex.Kind == "immutable_addr_ok" {
			b = "1"
		}
		lines = append(lines, fmt.Sprintf("  (%d, %s)", id, b)+"%s (* "+coqComment(ex.Field+": "+ex.Why)+" *)")
	}
	for i, l := range lines {
		sep := ";"
		if i == len(lines)-1 {
			sep = ""
		}
		sb.WriteString(strings.Replace(l, "%s", sep, 1) + "\n")
	}
	sb.WriteString("].\n\n")
	sb.WriteString("(* (field, kind: 0 read | 1 address taken | 2 write) for every access of a guarded field that some thread can\n   perform without holding a mutex of the field's struct, outside constructors *)\n")
	sb.WriteString("Definition unguarded_accesses : list (N * N) := [\n")
	type ua struct {
		id   int
		kind int
		c    string
	}
	kindNo := map[string]int{"read": 0, "addr": 1, "write": 2}
	var uas []ua
	var byFunc []accessOut
	for _, x := range append(append([]accessOut(nil), r.Unguarded...), r.Exempted...) {
		if strings.HasPrefix(x.Exempt, "in ") {
			byFunc = append(byFunc, x) // exempt at this site only (initialisation before publication): applied here, listed below
			continue
		}
		uas = append(uas, ua{fid[x.Field], kindNo[x.Kind], fmt.Sprintf("%s %s in %s at %s", x.Kind, x.Field, x.Func, x.Pos)})
	}
	sort.Slice(uas, func(i, j int) bool {
		if uas[i].id != uas[j].id {
			return uas[i].id < uas[j].id
		}
		return uas[i].c < uas[j].c
	})
	for i, u := range uas {
		sep := ";"
		if i == len(uas)-1 {
			sep = ""
		}
		fmt.Fprintf(&sb, "  (%d, %d)%s (* %s *)\n", u.id, u.kind, sep, coqComment(u.c))
	}
	sb.WriteString("].\n\n")
	sb.WriteString("(* accesses exempt at their site only (reviewed: initialisation before the reading goroutines exist):\n")
	for _, x := range byFunc {
		fmt.Fprintf(&sb, "   %s %s in %s at %s\n", x.Kind, coqComment(x.Field), coqComment(x.Func), x.Pos)
	}
	sb.WriteString("*)\n\n")
	fmt.Fprintf(&sb, "(* lock operations the translator could not attribute to a class (must be empty) *)\nDefinition unresolved_lock_sites : N := %d.\n\n", len(r.Unresolved))
	fmt.Fprintf(&sb, "(* functions that return holding a lock they acquired, other than the listed known finding(s):\n   the balance hypothesis of the progress theorem *)\nDefinition lock_leak_sites : N := %d.\n", len(r.LockLeaks))
	for _, k := range r.KnownLockLeaks {
		fmt.Fprintf(&sb, "(* known finding, excluded: %s *)\n", coqComment(k))
	}
	if r.Publication != nil {
		emitPubCoq(&sb, r.Publication)
	}
	if r.Channel != nil {
		sb.WriteString(emitChanCoq(r))
	}
	if r.Escape != nil {
		sb.WriteString(emitEscapeCoq(r.Escape))
	}
	return sb.String()
}
