// lockgraph: the C20 translator.  From the Go source of lal (go/packages +
// go/ssa + a VTA call graph) it computes
//
//   - the lock classes (every sync.Mutex / sync.RWMutex / sync.Once field or
//     variable declared in the lal and naza modules, named pkg.Type.field),
//   - every "acquire B while holding A" edge any goroutine can perform, with one
//     witness call chain per edge,
//   - for the structs listed in guarded.json every access of a guarded field
//     that is reachable while the guarding mutex is not held,
//
// and writes them as a Coq file (Gen/LockGraph.v, checked by Properties/C20.v)
// and as JSON (witness chains, lock sites, statistics).
//
//	lockgraph -repo /repo -config guarded.json -v out.v -json out.json
package main

import (
	"encoding/json"
	"flag"
	"fmt"
	"go/token"
	"go/types"
	"os"
	"path/filepath"
	"sort"
	"strings"
	"time"

	"golang.org/x/tools/go/callgraph"
	"golang.org/x/tools/go/callgraph/cha"
	"golang.org/x/tools/go/callgraph/vta"
	"golang.org/x/tools/go/packages"
	"golang.org/x/tools/go/ssa"
	"golang.org/x/tools/go/ssa/ssautil"
)

// modules whose locks are tracked and whose functions are thread roots
var trackedPrefixes = []string{"github.com/q191201771/lal/", "github.com/q191201771/naza/"}

const lalPrefix = "github.com/q191201771/lal/"

type guardSpec struct {
	Mutex string `json:"mutex"` // lock class guarding the struct
	// "*" = every field except the mutex itself; otherwise the listed ones
	Fields []string `json:"fields"`
	// field -> {kind: "immutable" | "self_synchronized", why}
	ExemptFields map[string]exemption `json:"exempt_fields"`
}

type exemption struct {
	Kind string `json:"kind"`
	Why  string `json:"why"`
	// functions in which every access of the field is exempt (initialisation that
	// happens before the goroutines reading the field are started)
	Funcs []string `json:"funcs,omitempty"`
}

type config struct {
	// struct name (pkg.Type) -> spec
	Guarded map[string]guardSpec `json:"guarded"`
	// function name -> why: accesses inside it and inside everything it calls are exempt
	ExemptFuncs map[string]string `json:"exempt_funcs"`
	// function -> what: returns with a lock held on some path (a defect that is
	// reported as a finding; the leaking path is not propagated into the graph)
	KnownLockLeaks map[string]string `json:"known_lock_leaks"`
	// function -> why: returns holding a lock on purpose
	LockHelpers map[string]string `json:"lock_helpers"`
	// call edges of the VTA graph that are infeasible while a lock is held
	InfeasibleCalls []infeasible `json:"infeasible_calls"`
	// exported methods of these types (pkg.Type) are always thread entry points (public API)
	ApiTypes []string `json:"api_types"`
	// exported functions without a caller in lal that are nevertheless not thread entry points
	NotEntryPoints map[string]string `json:"not_entry_points"`
	// packages (import paths) through which objects of the other packages become shared between goroutines
	ConsumerPackages []string `json:"consumer_packages"`
	// reviewed (published type, field written afterwards) pairs of the publication-order fact
	PublicationExempt []pubExempt `json:"publication_exempt"`
	// reviewed path conditions: the function returns at once unless the listed types are still unpublished
	OnceGuards []onceGuard `json:"once_guards"`
	// "function field" -> why handing out the slice / map header of the guarded field is harmless (reviewed)
	EscapeExempt map[string]string `json:"escape_exempt"`
	// function -> why its close(ch) runs at most once per channel (reviewed)
	CloseOnce map[string]string `json:"close_once"`
	// packages (import paths) that are not part of the server: not loaded as roots
	ExcludePackages []string `json:"exclude_packages"`
}

type infeasible struct {
	Caller         string `json:"caller"`
	Callee         string `json:"callee"`
	WhenHolding    string `json:"when_holding,omitempty"`
	WhenNotHolding string `json:"when_not_holding,omitempty"`
	Why            string `json:"why"`
}

func main() {
	repo := flag.String("repo", "/repo", "lal source tree")
	patterns := flag.String("patterns", "./pkg/...", "package patterns (space separated), relative to -repo")
	cfgPath := flag.String("config", "", "guarded.json")
	outV := flag.String("v", "", "Coq output file")
	outJSON := flag.String("json", "", "JSON output file")
	algo := flag.String("algo", "vta", "call graph: vta | cha")
	flag.Parse()

	t0 := time.Now()
	var cfg config
	if *cfgPath != "" {
		b, err := os.ReadFile(*cfgPath)
		if err != nil {
			fatal("config: %v", err)
		}
		if err := json.Unmarshal(b, &cfg); err != nil {
			fatal("config: %v", err)
		}
	}

	absRepo, _ := filepath.Abs(*repo)
	pcfg := &packages.Config{Mode: packages.LoadAllSyntax, Dir: absRepo, Tests: false}
	pkgs, err := packages.Load(pcfg, strings.Fields(*patterns)...)
	if err != nil {
		fatal("load: %v", err)
	}
	nerr := 0
	packages.Visit(pkgs, nil, func(p *packages.Package) {
		for _, e := range p.Errors {
			fmt.Fprintf(os.Stderr, "lockgraph: %s: %v\n", p.PkgPath, e)
			nerr++
		}
	})
	if nerr > 0 {
		fatal("the source tree does not type-check (%d errors)", nerr)
	}
	var kept []*packages.Package
	for _, p := range pkgs {
		skip := false
		for _, x := range cfg.ExcludePackages {
			if p.PkgPath == x {
				skip = true
			}
		}
		if !skip {
			kept = append(kept, p)
		}
	}
	pkgs = kept
	if len(pkgs) == 0 {
		fatal("no packages matched")
	}
	prog, _ := ssautil.AllPackages(pkgs, ssa.InstantiateGenerics)
	prog.Build()
	tLoad := time.Since(t0)

	var cg *callgraph.Graph
	switch *algo {
	case "cha":
		cg = cha.CallGraph(prog)
	default:
		cg = vta.CallGraph(ssautil.AllFunctions(prog), cha.CallGraph(prog))
	}
	tCg := time.Since(t0) - tLoad

	a := newAnalyzer(prog, cg, &cfg, absRepo)
	a.run()
	tWalk := time.Since(t0) - tLoad - tCg

	res := a.result()
	res.Algo = *algo
	res.Packages = len(pkgs)
	res.Stats["load_ms"] = int(tLoad.Milliseconds())
	res.Stats["callgraph_ms"] = int(tCg.Milliseconds())
	res.Stats["walk_ms"] = int(tWalk.Milliseconds())
	res.Stats["ssa_functions"] = len(cg.Nodes)

	if *outJSON != "" {
		b, _ := json.MarshalIndent(res, "", " ")
		if err := os.WriteFile(*outJSON, b, 0644); err != nil {
			fatal("%v", err)
		}
	}
	if *outV != "" {
		if err := os.WriteFile(*outV, []byte(emitCoq(res)), 0644); err != nil {
			fatal("%v", err)
		}
	}
	fmt.Printf("lockgraph: %d classes, %d edges, %d lock sites, %d unresolved, %d unguarded accesses, %d contexts, %.1fs\n",
		len(res.Classes), len(res.Edges), len(res.LockSites), len(res.Unresolved), len(res.Unguarded), res.Stats["contexts"], time.Since(t0).Seconds())
}

func fatal(f string, a ...interface{}) {
	fmt.Fprintf(os.Stderr, "lockgraph: "+f+"\n", a...)
	os.Exit(2)
}

// ---------------------------------------------------------------------------
// naming helpers

func tracked(pkgPath string) bool {
	for _, p := range trackedPrefixes {
		if strings.HasPrefix(pkgPath+"/", p) || strings.HasPrefix(pkgPath, p) {
			return true
		}
	}
	return false
}

func shortPkg(path string) string {
	for _, p := range []string{"github.com/q191201771/lal/pkg/", "github.com/q191201771/naza/pkg/", "github.com/q191201771/lal/", "github.com/q191201771/naza/"} {
		if strings.HasPrefix(path, p) {
			return path[len(p):]
		}
	}
	return path
}

func shortName(s string) string {
	for _, p := range []string{"github.com/q191201771/lal/pkg/", "github.com/q191201771/naza/pkg/", "github.com/q191201771/lal/", "github.com/q191201771/naza/"} {
		s = strings.ReplaceAll(s, p, "")
	}
	return s
}

func fnPkgPath(fn *ssa.Function) string {
	if fn == nil {
		return ""
	}
	if fn.Pkg != nil {
		return fn.Pkg.Pkg.Path()
	}
	// synthetic wrappers, bound methods, instantiations: use the origin / the receiver's package
	if fn.Origin() != nil && fn.Origin() != fn {
		return fnPkgPath(fn.Origin())
	}
	if p := fn.Parent(); p != nil {
		return fnPkgPath(p)
	}
	if o := fn.Object(); o != nil && o.Pkg() != nil {
		return o.Pkg().Path()
	}
	if fn.Signature != nil && fn.Signature.Recv() != nil {
		if n := namedOf(fn.Signature.Recv().Type()); n != nil && n.Obj().Pkg() != nil {
			return n.Obj().Pkg().Path()
		}
	}
	return ""
}

func namedOf(t types.Type) *types.Named {
	for {
		switch tt := t.(type) {
		case *types.Pointer:
			t = tt.Elem()
		case *types.Named:
			return tt
		case *types.Alias:
			t = types.Unalias(tt)
		default:
			return nil
		}
	}
}

type posFmt struct {
	fset     *token.FileSet
	repo     string
	modcache string
	goroot   string
}

func (p *posFmt) str(pos token.Pos) string {
	if !pos.IsValid() {
		return "?"
	}
	ps := p.fset.Position(pos)
	f := ps.Filename
	switch {
	case strings.HasPrefix(f, p.repo+"/"):
		f = f[len(p.repo)+1:]
	case p.modcache != "" && strings.HasPrefix(f, p.modcache+"/"):
		f = f[len(p.modcache)+1:]
		f = strings.TrimPrefix(f, "github.com/q191201771/")
	case p.goroot != "" && strings.HasPrefix(f, p.goroot+"/"):
		f = "GOROOT/" + f[len(p.goroot)+1:]
	}
	return fmt.Sprintf("%s:%d", f, ps.Line)
}

func sortedKeys(m map[string]int) []string {
	out := make([]string, 0, len(m))
	for k := range m {
		out = append(out, k)
	}
	sort.Strings(out)
	return out
}
