package main

// Publication order (C20): an object (session, connection) is constructed and
// initialised by one goroutine and then PUBLISHED - handed to code through
// which other goroutines reach it:
//
//   - a call into a consumer package (logic: observer.OnNew*Session,
//     group.Add*Session ...) that retains the object (stores it in a field, a map,
//     a channel, a goroutine),
//   - a go statement whose receiver / arguments / captured variables hold it,
//   - a channel send,
//   - a store into a field or map of another object while a mutex is held.
//
// After its publication, plain (non-mutex, non-atomic) fields of the object
// and of the objects reachable from it that other goroutines touch ("shared"
// fields) must not be written without a lock.  The walk carries the set of
// published types as pseudo lock classes ("pub:T") in the held set, so the
// fact is decided with the same context sensitivity as the lock order; it also
// extracts, per function on a construction path, the abstract event traces
// (write f | publish T | call bag) that Properties/C20.v re-checks.

import (
	"fmt"
	"go/token"
	"go/types"
	"os"
	"sort"
	"strings"

	"golang.org/x/tools/go/ssa"
	"golang.org/x/tools/go/ssa/ssautil"
)

type onceGuard struct {
	Func        string   `json:"func"`
	Unpublished []string `json:"unpublished"` // pkg.Type: not yet published whenever the body of Func runs
	// what the guard at the top of Func looks at (callee or field names): the translator checks that the
	// entry block of Func still ends in a conditional return that mentions all of them
	Mentions []string `json:"condition_mentions"`
	Why      string   `json:"why"`
}

// guardPresent: the entry block of fn ends in an if, one arm of which returns without doing anything
// but building the error, and the condition is computed from the mentioned callees / fields
func guardPresent(fn *ssa.Function, mentions []string) bool {
	if len(fn.Blocks) == 0 {
		return false
	}
	b := fn.Blocks[0]
	if len(b.Instrs) == 0 {
		return false
	}
	if _, ok := b.Instrs[len(b.Instrs)-1].(*ssa.If); !ok {
		return false
	}
	seen := map[string]bool{}
	// the condition may be a short-circuit (a || b): look at the entry block and the blocks reached
	// before anything else happens (blocks that only compute conditions)
	blocks := []*ssa.BasicBlock{b}
	for _, s := range b.Succs {
		if len(s.Instrs) > 0 {
			if _, isIf := s.Instrs[len(s.Instrs)-1].(*ssa.If); isIf && len(s.Instrs) <= 4 {
				blocks = append(blocks, s)
			}
		}
	}
	for _, blk := range blocks {
		for _, ins := range blk.Instrs {
			switch x := ins.(type) {
			case ssa.CallInstruction:
				if c := x.Common().StaticCallee(); c != nil {
					seen[c.Name()] = true
				}
				if x.Common().IsInvoke() {
					seen[x.Common().Method.Name()] = true
				}
			case *ssa.FieldAddr:
				if st, _ := structOf(x.X.Type()); st != nil {
					seen[st.Field(x.Field).Name()] = true
				}
			}
		}
	}
	for _, m := range mentions {
		if !seen[m] {
			return false
		}
	}
	// one arm returns early: a block (or its single successor) that ends in Return and has no store
	early := false
	for _, blk := range blocks {
		for _, s := range blk.Succs {
			hasStore, returns := false, false
			for _, ins := range s.Instrs {
				switch x := ins.(type) {
				case *ssa.Store:
					if !localAddr(x.Addr) { // (varargs slices of a log call are local)
						hasStore = true
					}
				case *ssa.MapUpdate:
					hasStore = true
				case *ssa.Return:
					returns = true
				}
			}
			if returns && !hasStore {
				early = true
			}
		}
	}
	return early && len(mentions) > 0
}

type pubExempt struct {
	Published string `json:"published"` // pkg.Type whose publication is meant
	Field     string `json:"field"`     // pkg.Type.field written afterwards
	Why       string `json:"why"`
}

const (
	kindPub = "pub" // pseudo class: an object of this type has been published by the current goroutine
	kindFgn = "fgn" // pseudo class: this goroutine was handed an object of this type by a go statement
	kindCtx = "ctx" // pseudo class: the current call chain came through a consumer package
	kindVia = "via" // pseudo class: ... and reached the objects it touches through a method of this type
	kindStd = "std" // pseudo class: below a guessed callback of the standard library
)

type pubState struct {
	consumer     map[string]bool
	closure      map[*types.Named][]*types.Named
	pubTypes     map[*types.Named]bool
	sites        map[ssa.Instruction][]*types.Named // lock-independent publication sites
	storeSites   map[ssa.Instruction][]*types.Named // stores that publish when a lock is held
	retMemo      map[string]int                     // 0 unknown, 1 in progress, 2 false, 3 true
	implMemo     map[*types.Interface][]*types.Named
	ctxClass     int
	byName       map[string]*types.Named
	sharedFields map[string]bool
	reachT       map[string]map[*ssa.Function]bool // published type -> functions that can reach an access of its fields

	shared     map[string]string        // field -> one foreign access (witness)
	cands      map[string]*pubCandidate // key -> write after publication
	unsyncAt   map[token.Pos]string     // positions of writes seen without a lock -> field
	fnWrites   map[*ssa.Function]map[string]bool
	fnPubs     map[*ssa.Function]map[string]bool
	pubAt      map[token.Pos][]string            // publication sites that took effect -> type names
	entryPubs  map[*ssa.Function]map[string]bool // entry pub-sets seen ("a,b")
	fieldOwner map[string]string
	sitesSeen  int
}

type pubCandidate struct {
	field, owner, published string
	fn                      *ssa.Function
	pos                     token.Pos
	chain                   *chainNode
	pubPos                  token.Pos
	pubFn                   *ssa.Function
	foreignWrite            bool
}

func (a *analyzer) isConsumerPkg(path string) bool { return a.pub.consumer[path] }

func namedName(n *types.Named) string {
	if n.Obj().Pkg() == nil {
		return n.Obj().Name()
	}
	return shortPkg(n.Obj().Pkg().Path()) + "." + n.Obj().Name()
}

// objStruct: t is *S (or **S for a captured variable) with S a struct of lal / naza outside the consumer packages
func (a *analyzer) objStruct(t types.Type) *types.Named {
	for i := 0; i < 2; i++ {
		p, ok := t.Underlying().(*types.Pointer)
		if !ok {
			return nil
		}
		t = p.Elem()
		if n, ok := types.Unalias(t).(*types.Named); ok {
			if _, isStruct := n.Underlying().(*types.Struct); isStruct {
				if n.Obj().Pkg() == nil || !tracked(n.Obj().Pkg().Path()) || a.isConsumerPkg(n.Obj().Pkg().Path()) {
					return nil
				}
				return n.Origin()
			}
			return nil
		}
	}
	return nil
}

func (a *analyzer) objTypesOf(v ssa.Value, depth int) []*types.Named {
	if v == nil || depth > 3 {
		return nil
	}
	var out []*types.Named
	if n := a.objStruct(v.Type()); n != nil {
		out = append(out, n)
	}
	switch x := v.(type) {
	case *ssa.MakeInterface:
		out = append(out, a.objTypesOf(x.X, depth+1)...)
	case *ssa.ChangeInterface:
		out = append(out, a.objTypesOf(x.X, depth+1)...)
	case *ssa.MakeClosure:
		for _, b := range x.Bindings {
			out = append(out, a.objTypesOf(b, depth+1)...)
		}
	}
	return out
}

func (a *analyzer) implementers(it *types.Interface) []*types.Named {
	if l, ok := a.pub.implMemo[it]; ok {
		return l
	}
	var out []*types.Named
	if it.NumMethods() > 0 {
		for _, p := range a.prog.AllPackages() {
			if !tracked(p.Pkg.Path()) || a.isConsumerPkg(p.Pkg.Path()) {
				continue
			}
			for _, mem := range p.Members {
				tn, ok := mem.(*ssa.Type)
				if !ok {
					continue
				}
				n, ok := tn.Type().(*types.Named)
				if !ok {
					continue
				}
				if _, isStruct := n.Underlying().(*types.Struct); !isStruct {
					continue
				}
				if types.Implements(types.NewPointer(n), it) || types.Implements(n, it) {
					out = append(out, n.Origin())
				}
			}
		}
	}
	if len(out) > 3 { // an interface with many implementations says nothing about what is reachable
		out = nil
	}
	a.pub.implMemo[it] = out
	return out
}

// typeClosure: the struct types reachable from t through fields (depth 2)
func (a *analyzer) typeClosure(t *types.Named) []*types.Named {
	if c, ok := a.pub.closure[t]; ok {
		return c
	}
	seen := map[*types.Named]bool{t: true}
	order := []*types.Named{t}
	frontier := []*types.Named{t}
	for depth := 0; depth < 2; depth++ {
		var next []*types.Named
		for _, n := range frontier {
			st, ok := n.Underlying().(*types.Struct)
			if !ok {
				continue
			}
			for i := 0; i < st.NumFields(); i++ {
				ft := st.Field(i).Type()
				var cands []*types.Named
				add := func(x types.Type) {
					if p, ok := x.Underlying().(*types.Pointer); ok {
						x = p.Elem()
					}
					if nn, ok := types.Unalias(x).(*types.Named); ok {
						if _, isStruct := nn.Underlying().(*types.Struct); isStruct {
							if nn.Obj().Pkg() != nil && tracked(nn.Obj().Pkg().Path()) && !a.isConsumerPkg(nn.Obj().Pkg().Path()) {
								cands = append(cands, nn.Origin())
							}
						} else if it, isIface := nn.Underlying().(*types.Interface); isIface {
							cands = append(cands, a.implementers(it)...)
						}
					}
				}
				add(ft)
				for _, c := range cands {
					if !seen[c] {
						seen[c] = true
						order = append(order, c)
						next = append(next, c)
					}
				}
			}
		}
		frontier = next
	}
	a.pub.closure[t] = order
	return order
}

// retains: does fn keep its idx-th parameter (store it into a field, map, channel or goroutine)?
func (a *analyzer) retains(fn *ssa.Function, idx int, depth int) bool {
	if fn == nil || len(fn.Blocks) == 0 || idx >= len(fn.Params) || depth > 6 {
		return false
	}
	key := fmt.Sprintf("%p/%d", fn, idx)
	switch a.pub.retMemo[key] {
	case 1, 2:
		return false
	case 3:
		return true
	}
	a.pub.retMemo[key] = 1
	derived := map[ssa.Value]bool{fn.Params[idx]: true}
	holders := map[ssa.Value]bool{} // local allocs holding the value
	res := false
	for pass := 0; pass < 3 && !res; pass++ {
		for _, b := range fn.Blocks {
			for _, ins := range b.Instrs {
				switch x := ins.(type) {
				case *ssa.MakeInterface:
					if derived[x.X] {
						derived[x] = true
					}
				case *ssa.ChangeInterface:
					if derived[x.X] {
						derived[x] = true
					}
				case *ssa.ChangeType:
					if derived[x.X] {
						derived[x] = true
					}
				case *ssa.TypeAssert:
					if derived[x.X] {
						derived[x] = true
					}
				case *ssa.Phi:
					for _, e := range x.Edges {
						if derived[e] {
							derived[x] = true
						}
					}
				case *ssa.UnOp:
					if x.Op == token.MUL && holders[x.X] {
						derived[x] = true
					}
				case *ssa.Store:
					if derived[x.Val] {
						if al, ok := x.Addr.(*ssa.Alloc); ok && !al.Heap {
							holders[al] = true
						} else if al, ok := x.Addr.(*ssa.Alloc); ok {
							holders[al] = true // captured variable: retained only if the closure escapes (go)
						} else {
							res = true
						}
					}
				case *ssa.MapUpdate:
					if derived[x.Key] || derived[x.Value] {
						res = true
					}
				case *ssa.Send:
					if derived[x.X] {
						res = true
					}
				case *ssa.Go:
					for _, arg := range x.Call.Args {
						if derived[arg] {
							res = true
						}
					}
					if mc, ok := x.Call.Value.(*ssa.MakeClosure); ok {
						for _, bd := range mc.Bindings {
							if derived[bd] || holders[bd] {
								res = true
							}
						}
					}
				case ssa.CallInstruction:
					com := x.Common()
					if bi, ok := com.Value.(*ssa.Builtin); ok {
						if bi.Name() == "append" {
							for _, arg := range com.Args {
								if derived[arg] {
									if v, ok := ins.(ssa.Value); ok {
										derived[v] = true
									}
								}
							}
						}
						continue
					}
					off := 0
					if com.IsInvoke() {
						off = 1
					}
					for i, arg := range com.Args {
						if !derived[arg] {
							continue
						}
						for _, c := range a.callees[x] {
							if tracked(fnPkgPath(c)) && a.retains(c, i+off, depth+1) {
								res = true
							}
						}
					}
				}
			}
		}
	}
	if res {
		a.pub.retMemo[key] = 3
	} else {
		a.pub.retMemo[key] = 2
	}
	return res
}

// preparePub finds the publication sites and the set of types the fact is about.
func (a *analyzer) preparePub() {
	a.pub = &pubState{consumer: map[string]bool{}, closure: map[*types.Named][]*types.Named{}, pubTypes: map[*types.Named]bool{},
		sites: map[ssa.Instruction][]*types.Named{}, storeSites: map[ssa.Instruction][]*types.Named{}, retMemo: map[string]int{},
		implMemo: map[*types.Interface][]*types.Named{}, shared: map[string]string{}, cands: map[string]*pubCandidate{},
		unsyncAt: map[token.Pos]string{}, fnWrites: map[*ssa.Function]map[string]bool{}, fnPubs: map[*ssa.Function]map[string]bool{},
		pubAt: map[token.Pos][]string{}, entryPubs: map[*ssa.Function]map[string]bool{}, fieldOwner: map[string]string{}, byName: map[string]*types.Named{}}
	for _, p := range a.cfg.ConsumerPackages {
		a.pub.consumer[p] = true
	}
	if len(a.pub.consumer) == 0 {
		return
	}
	a.pub.ctxClass = a.classOf("ctx:via a consumer package", kindCtx)
	addSite := func(m map[ssa.Instruction][]*types.Named, ins ssa.Instruction, ts []*types.Named) {
		for _, t := range ts {
			dup := false
			for _, x := range m[ins] {
				if x == t {
					dup = true
				}
			}
			if !dup {
				m[ins] = append(m[ins], t)
			}
		}
	}
	for fn := range ssautil.AllFunctions(a.prog) {
		pkg := fnPkgPath(fn)
		if !tracked(pkg) {
			continue
		}
		for _, b := range fn.Blocks {
			for _, ins := range b.Instrs {
				switch x := ins.(type) {
				case *ssa.Go:
					var ts []*types.Named
					ts = append(ts, a.objTypesOf(x.Call.Value, 0)...)
					for _, arg := range x.Call.Args {
						ts = append(ts, a.objTypesOf(arg, 0)...)
					}
					addSite(a.pub.sites, ins, ts)
				case *ssa.Send:
					addSite(a.pub.sites, ins, a.objTypesOf(x.X, 0))
				case *ssa.MapUpdate:
					ts := append(a.objTypesOf(x.Key, 0), a.objTypesOf(x.Value, 0)...)
					if len(ts) > 0 && !a.isConsumerPkg(pkg) {
						addSite(a.pub.storeSites, ins, ts)
					}
				case ssa.CallInstruction:
					if a.isConsumerPkg(pkg) {
						continue
					}
					com := x.Common()
					off := 0
					if com.IsInvoke() {
						off = 1
					}
					for i, arg := range com.Args {
						ts := a.objTypesOf(arg, 0)
						if len(ts) == 0 {
							continue
						}
						for _, c := range a.callees[x] {
							if a.isConsumerPkg(fnPkgPath(c)) && a.retains(c, i+off, 0) {
								addSite(a.pub.sites, ins, ts)
							}
						}
					}
				}
			}
		}
	}
	if os.Getenv("LOCKGRAPH_DEBUG") != "" {
		cnt := map[string]int{}
		for _, m := range []map[ssa.Instruction][]*types.Named{a.pub.sites, a.pub.storeSites} {
			for ins, ts := range m {
				for _, t := range ts {
					cnt[fmt.Sprintf("%T %s", ins, namedName(t))]++
				}
			}
		}
		var l []string
		for k, v := range cnt {
			l = append(l, fmt.Sprintf("%s x%d", k, v))
		}
		sort.Strings(l)
		fmt.Fprintf(os.Stderr, "publication sites: %d + %d stores\n%s\n", len(a.pub.sites), len(a.pub.storeSites), strings.Join(l, "\n"))
	}
	for _, m := range []map[ssa.Instruction][]*types.Named{a.pub.sites, a.pub.storeSites} {
		for _, ts := range m {
			for _, t := range ts {
				a.pub.byName[namedName(t)] = t
				for _, c := range a.typeClosure(t) {
					a.pub.pubTypes[c] = true
				}
			}
		}
	}
}

func (a *analyzer) pseudo(class int) bool {
	switch a.classKind[class] {
	case kindPub, kindFgn, kindCtx, kindVia, kindStd:
		return true
	}
	return false
}

func (a *analyzer) anyRealLock(h []heldItem) bool {
	for _, x := range h {
		if !a.pseudo(x.class) {
			return true
		}
	}
	return false
}

func addPseudo(h []heldItem, it heldItem) []heldItem {
	if holds(h, it.class) {
		return h
	}
	return addHeld(h, it)
}

// publish adds pub:T (and pub:T' for every type reachable from T) to every state
func (a *analyzer) publish(fn *ssa.Function, pos token.Pos, ts []*types.Named, cur []state) []state {
	if len(ts) == 0 {
		return cur
	}
	out := make([]state, 0, len(cur))
	for _, s := range cur {
		h := s.held
		for _, t := range ts {
			h = addPseudo(h, heldItem{class: a.classOf("pub:"+namedName(t), kindPub), pos: pos, fn: fn})
		}
		out = append(out, state{held: h, defers: s.defers})
	}
	if a.record {
		if a.pub.fnPubs[fn] == nil {
			a.pub.fnPubs[fn] = map[string]bool{}
		}
		var names []string
		for _, t := range ts {
			a.pub.fnPubs[fn][namedName(t)] = true
			names = append(names, namedName(t))
		}
		a.pub.pubAt[pos] = names
	}
	return dedupStates(out)
}

// goEntry: the initial held set of a goroutine started by a go statement
func (a *analyzer) goEntry(g *ssa.Go) []heldItem {
	var h []heldItem
	for _, t := range a.pub.sites[g] {
		h = addPseudo(h, heldItem{class: a.classOf("fgn:"+namedName(t), kindFgn), pos: g.Pos(), fn: g.Parent()})
	}
	return h
}

func (a *analyzer) pubsetKey(h []heldItem) string {
	var l []string
	for _, x := range h {
		if a.classKind[x.class] == kindPub {
			l = append(l, strings.TrimPrefix(a.classNames[x.class], "pub:"))
		}
	}
	sort.Strings(l)
	return strings.Join(l, ",")
}

// pubAccess evaluates one field access for the publication-order fact
func (a *analyzer) pubAccess(fn *ssa.Function, v ssa.Value, xt types.Type, idx int, pos token.Pos, cur []state, virt bool, chain *chainNode) {
	if a.pub == nil || len(a.pub.consumer) == 0 {
		return
	}
	st, owner := structOf(xt)
	if st == nil || owner == nil || !a.pub.pubTypes[owner.Origin()] {
		return
	}
	f := st.Field(idx)
	if selfSynchronised(f.Type()) || virt || freshObject(v) {
		return
	}
	oname := namedName(owner.Origin())
	field := oname + "." + f.Name()
	a.pub.fieldOwner[field] = oname
	kind := accessKind(v)
	inConsumer := a.isConsumerPkg(fnPkgPath(fn))
	for _, s := range cur {
		if a.hasKind(s.held, kindStd) {
			continue
		}
		fg := a.heldCovers(s.held, kindFgn, owner.Origin())
		foreign := inConsumer || holds(s.held, a.pub.ctxClass) || fg != nil
		if foreign && a.record {
			// the roots (published types) through which this foreign access reaches the field
			var roots []string
			switch {
			case fg != nil:
				roots = append(roots, a.classNames[fg.class][4:])
			case a.hasKind(s.held, kindVia):
				for _, h := range s.held {
					if a.classKind[h.class] == kindVia {
						roots = append(roots, a.rootsCovering(a.pub.byName[a.classNames[h.class][4:]], owner.Origin())...)
					}
				}
			case inConsumer:
				roots = a.rootsCovering(nil, owner.Origin())
			default:
				// below a consumer package but not through a method of a published type: an object
				// of its own (a temporary buffer ...), shared only if it is itself a published type
				if _, ok := a.pub.byName[oname]; ok {
					roots = []string{oname}
				}
			}
			for _, r := range roots {
				if _, ok := a.pub.shared[r+"|"+field]; !ok {
					cs := a.chainStrings(chain, "")
					if len(cs) > 6 {
						cs = cs[len(cs)-6:]
					}
					a.pub.shared[r+"|"+field] = fmt.Sprintf("%s in %s at %s (reached: %s)", kind, shortName(fn.String()), a.pf.str(pos), strings.Join(cs, " ; "))
				}
			}
		}
		if kind != "write" || a.anyRealLock(s.held) || !a.record {
			continue
		}
		if foreign {
			continue // an unlocked write by a foreign goroutine: covered by the guarded-field fact where a mutex exists
		}
		a.pub.unsyncAt[pos] = field
		if a.pub.fnWrites[fn] == nil {
			a.pub.fnWrites[fn] = map[string]bool{}
		}
		a.pub.fnWrites[fn][field] = true
		for i := range s.held {
			h := &s.held[i]
			if a.classKind[h.class] != kindPub || a.heldCovers(s.held[i:i+1], kindPub, owner.Origin()) == nil {
				continue
			}
			published := strings.TrimPrefix(a.classNames[h.class], "pub:")
			k := published + "|" + field + "|" + fn.String()
			if _, ok := a.pub.cands[k]; !ok {
				a.pub.cands[k] = &pubCandidate{field: field, owner: oname, fn: fn, pos: pos, chain: chain, pubPos: h.pos, pubFn: h.fn, published: published}
			}
		}
	}
}

// publishUnderLock: a store of an object into a field or map of another object publishes it when a mutex is held
func (a *analyzer) publishUnderLock(fn *ssa.Function, ins ssa.Instruction, pos token.Pos, cur []state) []state {
	ts, ok := a.pub.storeSites[ins]
	if !ok {
		return cur
	}
	var locked, rest []state
	for _, s := range cur {
		if a.anyRealLock(s.held) {
			locked = append(locked, s)
		} else {
			rest = append(rest, s)
		}
	}
	if len(locked) == 0 {
		return cur
	}
	return append(rest, a.publish(fn, pos, ts, locked)...)
}

// heldCovers: a pub: / fgn: marker in the held set whose type reaches owner through fields
func (a *analyzer) heldCovers(h []heldItem, kind string, owner *types.Named) *heldItem {
	for i := range h {
		if a.classKind[h[i].class] != kind {
			continue
		}
		t := a.pub.byName[a.classNames[h[i].class][4:]]
		if t == nil {
			continue
		}
		for _, c := range a.typeClosure(t) {
			if c == owner {
				return &h[i]
			}
		}
	}
	return nil
}

// stripMarkers removes the pub: / fgn: markers that cannot matter inside callee c:
// all of them when c belongs to a consumer package (every access there is
// foreign), otherwise those whose type's fields c cannot reach
func (a *analyzer) stripMarkers(h []heldItem, c *ssa.Function) (rest, stripped []heldItem) {
	// in a consumer package, and below it (ctx marker), every access is foreign: the markers say nothing
	consumer := a.isConsumerPkg(fnPkgPath(c)) || holds(h, a.pub.ctxClass)
	drop := func(x heldItem) bool {
		k := a.classKind[x.class]
		if k != kindPub && k != kindFgn {
			return false
		}
		if consumer {
			return true
		}
		return !a.pub.reachT[a.classNames[x.class][4:]][c]
	}
	any := false
	for _, x := range h {
		if drop(x) {
			any = true
			break
		}
	}
	if !any {
		return h, nil
	}
	for _, x := range h {
		if drop(x) {
			stripped = append(stripped, x)
		} else {
			rest = append(rest, x)
		}
	}
	return
}

// computePubReach: per published type T, the functions from which an access of a
// field of T (or of a type reachable from T) can be reached
func (a *analyzer) computePubReach() {
	a.pub.reachT = map[string]map[*ssa.Function]bool{}
	// owner type -> published types covering it
	coveredBy := map[*types.Named][]string{}
	for name, t := range a.pub.byName {
		for _, c := range a.typeClosure(t) {
			coveredBy[c] = append(coveredBy[c], name)
		}
		a.pub.reachT[name] = map[*ssa.Function]bool{}
	}
	for fn := range ssautil.AllFunctions(a.prog) {
		for _, b := range fn.Blocks {
			for _, ins := range b.Instrs {
				var owner *types.Named
				switch x := ins.(type) {
				case *ssa.FieldAddr:
					_, owner = structOf(x.X.Type())
				case *ssa.Field:
					_, owner = structOf(x.X.Type())
				}
				if owner != nil {
					for _, name := range coveredBy[owner.Origin()] {
						a.pub.reachT[name][fn] = true
					}
				}
			}
		}
	}
	for _, set := range a.pub.reachT {
		var work []*ssa.Function
		for fn := range set {
			work = append(work, fn)
		}
		for len(work) > 0 {
			fn := work[len(work)-1]
			work = work[:len(work)-1]
			node := a.cg.Nodes[fn]
			if node == nil {
				continue
			}
			for _, e := range node.In {
				if c := e.Caller.Func; c != nil && !set[c] {
					set[c] = true
					work = append(work, c)
				}
			}
		}
	}
}

func (a *analyzer) hasKind(h []heldItem, kind string) bool {
	for _, x := range h {
		if a.classKind[x.class] == kind {
			return true
		}
	}
	return false
}

// receiverPubType: fn is a method whose receiver is (a pointer to) a struct the fact is about
func (a *analyzer) receiverPubType(fn *ssa.Function) *types.Named {
	if fn == nil || fn.Signature == nil || fn.Signature.Recv() == nil {
		return nil
	}
	n := namedOf(fn.Signature.Recv().Type())
	if n == nil {
		return nil
	}
	if _, published := a.pub.byName[namedName(n.Origin())]; !published {
		return nil
	}
	return n.Origin()
}

// rootsCovering: the published types from which owner is reachable; when via is
// given, only those that also reach (or are) via
func (a *analyzer) rootsCovering(via, owner *types.Named) []string {
	if via != nil {
		// the foreign goroutine reached the field through a method of via: the root is via itself when it
		// is a published type, otherwise the published types that contain a via
		if _, ok := a.pub.byName[namedName(via)]; ok {
			for _, c := range a.typeClosure(via) {
				if c == owner {
					return []string{namedName(via)}
				}
			}
			return nil
		}
	}
	var out []string
	for name, t := range a.pub.byName {
		hasOwner, hasVia := false, via == nil
		for _, c := range a.typeClosure(t) {
			if c == owner {
				hasOwner = true
			}
			if c == via {
				hasVia = true
			}
		}
		if hasOwner && hasVia {
			out = append(out, name)
		}
	}
	sort.Strings(out)
	return out
}

// onceGuard applies the reviewed "runs only while T is unpublished" conditions
func (a *analyzer) onceGuard(fn *ssa.Function, held []heldItem) (rest, dropped []heldItem) {
	if len(a.cfg.OnceGuards) == 0 {
		return held, nil
	}
	name := shortName(fn.String())
	for i, g := range a.cfg.OnceGuards {
		if g.Func != name {
			continue
		}
		if !guardPresent(fn, g.Mentions) {
			a.notes["once_guard_not_found_in_"+name]++
			return held, nil
		}
		for _, x := range held {
			drop := false
			if a.classKind[x.class] == kindPub {
				for _, t := range g.Unpublished {
					if a.classNames[x.class] == "pub:"+t {
						drop = true
					}
				}
			}
			if drop {
				dropped = append(dropped, x)
				a.onceUsed[i] = true
			} else {
				rest = append(rest, x)
			}
		}
		return rest, dropped
	}
	return held, nil
}

// dropNewMarkers removes the pub: / fgn: markers of exit that were not in entry
func (a *analyzer) dropNewMarkers(exit, entry []heldItem) []heldItem {
	var out []heldItem
	changed := false
	for _, x := range exit {
		if k := a.classKind[x.class]; (k == kindPub || k == kindFgn) && !holds(entry, x.class) {
			changed = true
			continue
		}
		out = append(out, x)
	}
	if !changed {
		return exit
	}
	return out
}

// localAddr: the address is inside a local allocation of the function
func localAddr(v ssa.Value) bool {
	for {
		switch x := v.(type) {
		case *ssa.Alloc:
			return true
		case *ssa.IndexAddr:
			v = x.X
		case *ssa.FieldAddr:
			v = x.X
		default:
			return false
		}
	}
}
