package main

// Escaping values that share guarded memory (C20).
//
// A function that returns a value (or sends it on a channel, or hands it to a callback / interface
// method) hands out every slice and map header the value contains.  When such a header was loaded from
// a mutex-guarded struct, the receiver reads the backing array WITHOUT the mutex while the next call
// rewrites it under the mutex: Group.GetStat returning group.stat with the Fps / StatSubs slices of the
// group.  The fact: every slice / map component of an escaping value that was loaded from a guarded
// field has to be
//
//	1 overridden in the local copy by a fresh value before it escapes (ret.Fps = make(...); copy), or
//	2 re-made by this function before the value is taken: a store of nil / make / a literal / a call
//	  result to exactly that component dominates the load, and every other store of the function to it is
//	  an append to itself (or fresh again), or
//	5 reviewed (escape_exempt in the configuration)
//
// otherwise (function, field) is reported.  Pointers to structs are objects, not buffers: they are the
// business of the owner-guarded and publication-order facts.

import (
	"fmt"
	"go/token"
	"go/types"
	"sort"
	"strings"

	"golang.org/x/tools/go/ssa"
)

type escapeSite struct {
	Func  string `json:"func"`
	Field string `json:"field"` // guarded field and the path below it: logic.Group.stat.StatSubs
	Sink  string `json:"sink"`  // return | send | callback argument | interface method argument
	Pos   string `json:"pos"`
	Just  int    `json:"justification"`
	Why   string `json:"why"`
}

type escapeFacts struct {
	Sites      []escapeSite `json:"sites"`
	Violations []escapeSite `json:"violations"`
	Unused     []string     `json:"unused_exemptions"` // reviewed entries that matched nothing (stale)
}

// refComponents: the paths (field indices) to the slice / map typed parts of a value of type t
func refComponents(t types.Type, depth int) [][]int {
	switch x := t.Underlying().(type) {
	case *types.Slice, *types.Map:
		return [][]int{{}}
	case *types.Struct:
		if depth >= 2 {
			return nil
		}
		var out [][]int
		for i := 0; i < x.NumFields(); i++ {
			for _, p := range refComponents(x.Field(i).Type(), depth+1) {
				out = append(out, append([]int{i}, p...))
			}
		}
		return out
	}
	return nil
}

// addrPath: addr = &root.f1.f2...; root is what the outermost FieldAddr is applied to
func addrPath(addr ssa.Value) (root ssa.Value, fas []*ssa.FieldAddr) {
	for {
		fa, ok := addr.(*ssa.FieldAddr)
		if !ok {
			return addr, fas
		}
		fas = append([]*ssa.FieldAddr{fa}, fas...)
		addr = fa.X
	}
}

type aliasSrc struct {
	field string    // printed path
	root  ssa.Value // root of the address
	types []types.Type
	idx   []int // full index path from the root struct
	load  ssa.Instruction
}

func pathNames(t types.Type, p []int) string {
	s := ""
	for _, i := range p {
		st, ok := t.Underlying().(*types.Struct)
		if !ok {
			break
		}
		s += "." + st.Field(i).Name()
		t = st.Field(i).Type()
	}
	return s
}

func hasPrefix(p, q []int) bool { // q is a prefix of p
	if len(q) > len(p) {
		return false
	}
	for i := range q {
		if p[i] != q[i] {
			return false
		}
	}
	return true
}

func before(x, y ssa.Instruction) bool { // x executes before y whenever y executes
	bx, by := x.Block(), y.Block()
	if bx != by {
		return bx.Dominates(by)
	}
	for _, ins := range bx.Instrs {
		if ins == x {
			return true
		}
		if ins == y {
			return false
		}
	}
	return false
}

// aliases: the guarded slice / map components that v carries, restricted to the component `want`
// (a path inside v's type)
func (a *analyzer) aliases(v ssa.Value, want []int, at ssa.Instruction, seen map[ssa.Value]bool, depth int) []aliasSrc {
	if v == nil || depth > 6 || seen[v] {
		return nil
	}
	seen[v] = true
	defer delete(seen, v)
	switch x := v.(type) {
	case *ssa.Phi:
		var out []aliasSrc
		for _, e := range x.Edges {
			out = append(out, a.aliases(e, want, at, seen, depth+1)...)
		}
		return out
	case *ssa.MakeInterface:
		return a.aliases(x.X, want, at, seen, depth+1)
	case *ssa.ChangeType:
		return a.aliases(x.X, want, at, seen, depth+1)
	case *ssa.Slice:
		if _, ok := x.X.Type().Underlying().(*types.Slice); ok {
			return a.aliases(x.X, want, at, seen, depth+1)
		}
		return nil
	case *ssa.Call:
		if b, ok := x.Call.Value.(*ssa.Builtin); ok && b.Name() == "append" && len(x.Call.Args) > 0 {
			return a.aliases(x.Call.Args[0], want, at, seen, depth+1)
		}
		return nil // the callee's own return is checked where it is written
	case *ssa.UnOp:
		if x.Op != token.MUL {
			return nil
		}
		root, fas := addrPath(x.X)
		if al, ok := root.(*ssa.Alloc); ok && !al.Heap || ok && a.onlyLocal(al) {
			return a.localAliases(al, fas, want, x, seen, depth)
		}
		if len(fas) == 0 {
			return nil
		}
		field, _, _ := a.guardedField(fas[0].X.Type(), fas[0].Field)
		fi := a.fieldInfo[field]
		if field == "" || fi == nil || !fi.guardedInferred() {
			return nil
		}
		var idx []int
		for _, fa := range fas {
			idx = append(idx, fa.Field)
		}
		idx = append(idx, want...)
		st, _ := structOf(fas[0].X.Type())
		name := strings.TrimSuffix(field, "."+st.Field(fas[0].Field).Name()) + pathNames(st, idx)
		return []aliasSrc{{field: name, root: root, idx: idx, load: x}}
	}
	return nil
}

// onlyLocal: the allocation is used through loads, stores and field addresses only (a local variable
// that had its address taken by the compiler, not one that is handed out)
func (a *analyzer) onlyLocal(al *ssa.Alloc) bool {
	if al.Referrers() == nil {
		return false
	}
	for _, r := range *al.Referrers() {
		switch x := r.(type) {
		case *ssa.Store:
			if x.Val == al {
				return false
			}
		case *ssa.UnOp, *ssa.FieldAddr, *ssa.DebugRef:
		default:
			return false
		}
	}
	return true
}

// localAliases: v = *(&L.path) for a local struct L; what L.path.want holds comes from the stores to L
func (a *analyzer) localAliases(al *ssa.Alloc, fas []*ssa.FieldAddr, want []int, load ssa.Instruction, seen map[ssa.Value]bool, depth int) []aliasSrc {
	var full []int
	for _, fa := range fas {
		full = append(full, fa.Field)
	}
	full = append(full, want...)
	type st struct {
		ins  *ssa.Store
		path []int
	}
	var stores []st
	var walk func(addr ssa.Value, path []int)
	walk = func(addr ssa.Value, path []int) {
		refs := addr.Referrers()
		if refs == nil {
			return
		}
		for _, r := range *refs {
			switch x := r.(type) {
			case *ssa.Store:
				if x.Addr == addr {
					stores = append(stores, st{x, append([]int(nil), path...)})
				}
			case *ssa.FieldAddr:
				if x.X == addr {
					walk(x, append(append([]int(nil), path...), x.Field))
				}
			}
		}
	}
	walk(al, nil)
	var out []aliasSrc
	for _, s := range stores {
		if !hasPrefix(full, s.path) {
			continue
		}
		// killed by a later, more specific store that always runs before the load
		killed := false
		for _, k := range stores {
			if k.ins != s.ins && len(k.path) > len(s.path) && hasPrefix(full, k.path) && before(s.ins, k.ins) && before(k.ins, load) {
				killed = true
			}
		}
		if killed {
			continue
		}
		out = append(out, a.aliases(s.ins.Val, full[len(s.path):], s.ins, seen, depth+1)...)
	}
	return out
}

// remade: justification 2 for one source component
func (a *analyzer) remade(fn *ssa.Function, src aliasSrc) (bool, string) {
	reset := false
	for _, b := range fn.Blocks {
		for _, ins := range b.Instrs {
			s, ok := ins.(*ssa.Store)
			if !ok {
				continue
			}
			root, fas := addrPath(s.Addr)
			if len(fas) != len(src.idx) || root != src.root && root.Type() != src.root.Type() {
				continue
			}
			same := true
			for i, fa := range fas {
				if fa.Field != src.idx[i] {
					same = false
				}
			}
			if !same {
				continue
			}
			switch a.storedKind(s.Val, src, 0) {
			case "fresh":
				if before(s, src.load) {
					reset = true
				}
			case "self":
			default:
				return false, fmt.Sprintf("the function stores a value that is not fresh to it at %s", a.pf.str(s.Pos()))
			}
		}
	}
	if !reset {
		return false, "the function does not re-make it (nil / make / literal) before the value is taken"
	}
	return true, ""
}

// handedOver: justification 3 - in the block of the sink, after it, the function stores a fresh value
// (nil / make / literal) to the component: ownership of the memory moves to the receiver
func (a *analyzer) handedOver(fn *ssa.Function, src aliasSrc, sink ssa.Instruction) bool {
	after := false
	for _, ins := range sink.Block().Instrs {
		if ins == sink {
			after = true
			continue
		}
		s, ok := ins.(*ssa.Store)
		if !after || !ok {
			continue
		}
		root, fas := addrPath(s.Addr)
		if len(fas) != len(src.idx) || root != src.root {
			continue
		}
		same := true
		for i, fa := range fas {
			if fa.Field != src.idx[i] {
				same = false
			}
		}
		if same && a.storedKind(s.Val, src, 0) == "fresh" {
			return true
		}
	}
	return false
}

// escapeExempt: reviewed entries "function field", "* field"; the field may end in ".*"
func (a *analyzer) escapeExempt(fn, field string) (string, bool) {
	for k, why := range a.cfg.EscapeExempt {
		parts := strings.SplitN(k, " ", 2)
		if len(parts) != 2 || (parts[0] != "*" && parts[0] != fn) {
			continue
		}
		if parts[1] == field || (strings.HasSuffix(parts[1], ".*") && strings.HasPrefix(field, strings.TrimSuffix(parts[1], "*"))) {
			a.escapeExemptUsed[k] = true
			return why, true
		}
	}
	return "", false
}

// storedKind: fresh (nil, make, literal, call result), self (append to the same component), other
func (a *analyzer) storedKind(v ssa.Value, src aliasSrc, depth int) string {
	if depth > 4 {
		return "other"
	}
	switch x := v.(type) {
	case *ssa.Const:
		if x.IsNil() {
			return "fresh"
		}
	case *ssa.MakeSlice, *ssa.MakeMap:
		return "fresh"
	case *ssa.Slice:
		if al, ok := x.X.(*ssa.Alloc); ok && al.Heap { // []T{...}
			return "fresh"
		}
	case *ssa.Call:
		if b, ok := x.Call.Value.(*ssa.Builtin); ok {
			if b.Name() == "append" && len(x.Call.Args) > 0 {
				return a.storedKind(x.Call.Args[0], src, depth+1)
			}
			return "other"
		}
		return "fresh" // the callee's return is checked where it is written
	case *ssa.UnOp:
		if x.Op == token.MUL {
			root, fas := addrPath(x.X)
			if len(fas) == len(src.idx) && (root == src.root || root.Type() == src.root.Type()) {
				for i, fa := range fas {
					if fa.Field != src.idx[i] {
						return "other"
					}
				}
				return "self"
			}
		}
	case *ssa.Phi:
		k := "fresh"
		for _, e := range x.Edges {
			switch a.storedKind(e, src, depth+1) {
			case "other":
				return "other"
			case "self":
				k = "self"
			}
		}
		return k
	}
	return "other"
}

func (a *analyzer) escapeResult(fns []*ssa.Function) *escapeFacts {
	ef := &escapeFacts{Sites: []escapeSite{}, Violations: []escapeSite{}}
	a.escapeExemptUsed = map[string]bool{}
	seenSite := map[string]bool{}
	for _, fn := range fns {
		if fn.Synthetic != "" || a.exemptFunc(fn) {
			continue
		}
		for _, b := range fn.Blocks {
			for _, ins := range b.Instrs {
				var vals []ssa.Value
				sink := ""
				switch x := ins.(type) {
				case *ssa.Return:
					vals, sink = x.Results, "return"
				case *ssa.Send:
					vals, sink = []ssa.Value{x.X}, "send"
				case ssa.CallInstruction:
					c := x.Common()
					if c.IsInvoke() {
						vals, sink = c.Args, "interface method argument"
					} else if _, isB := c.Value.(*ssa.Builtin); !isB && c.StaticCallee() == nil {
						vals, sink = c.Args, "callback argument"
					}
				}
				for _, v := range vals {
					for _, p := range refComponents(v.Type(), 0) {
						for _, src := range a.aliases(v, p, ins, map[ssa.Value]bool{}, 0) {
							site := escapeSite{Func: shortName(fn.String()), Field: src.field, Sink: sink, Pos: a.pf.str(ins.Pos())}
							if ins.Pos() == token.NoPos {
								site.Pos = a.pf.str(src.load.Pos())
							}
							k := site.Func + "|" + site.Field + "|" + sink
							if seenSite[k] {
								continue
							}
							seenSite[k] = true
							if ok, why := a.remade(fn, src); ok {
								site.Just, site.Why = 2, "re-made by the function before the value is taken; its other stores to it are appends to itself"
							} else if a.handedOver(fn, src, ins) {
								site.Just, site.Why = 3, "handed over: right after the "+sink+" the function stores a fresh value to it, the struct keeps no reference"
							} else if ex, found := a.escapeExempt(site.Func, site.Field); found {
								site.Just, site.Why = 5, "reviewed: "+ex
							} else {
								site.Why = "the " + sink + " hands out the slice / map header of " + src.field + " without a copy: " + why
							}
							if site.Just == 0 {
								ef.Violations = append(ef.Violations, site)
							}
							ef.Sites = append(ef.Sites, site)
						}
					}
				}
			}
		}
	}
	less := func(s []escapeSite) {
		sort.Slice(s, func(i, j int) bool { return s[i].Func+s[i].Field+s[i].Sink < s[j].Func+s[j].Field+s[j].Sink })
	}
	less(ef.Sites)
	less(ef.Violations)
	for k := range a.cfg.EscapeExempt {
		if !a.escapeExemptUsed[k] {
			ef.Unused = append(ef.Unused, k)
		}
	}
	sort.Strings(ef.Unused)
	return ef
}

func emitEscapeCoq(ef *escapeFacts) string {
	s := "\n(* escaping values that share guarded memory: (site, justification) - 2 re-made by the function,\n   5 reviewed, 0 none. Components overridden by a fresh value in the local copy do not appear *)\n"
	s += "Definition escape_sites : list (N * N) := [\n"
	for i, e := range ef.Sites {
		sep := ";"
		if i == len(ef.Sites)-1 {
			sep = ""
		}
		s += fmt.Sprintf("  (%d, %d)%s (* %s %s of %s at %s: %s *)\n", i, e.Just, sep, coqComment(e.Func), e.Sink, e.Field, e.Pos, coqComment(e.Why))
	}
	s += "].\n"
	return s
}
