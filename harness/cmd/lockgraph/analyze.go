package main

import (
	"fmt"
	"go/build"
	"go/token"
	"go/types"
	"os"
	"os/exec"
	"sort"
	"strings"

	"golang.org/x/tools/go/callgraph"
	"golang.org/x/tools/go/ssa"
	"golang.org/x/tools/go/ssa/ssautil"
)

// ---------------------------------------------------------------------------
// data

type heldItem struct {
	class int
	pos   token.Pos
	fn    *ssa.Function
}

type state struct {
	held   []heldItem   // sorted by class, duplicates allowed (two instances of one class)
	defers []*ssa.Defer // pending deferred calls of the current function, in push order
}

type chainNode struct {
	parent *chainNode
	fn     *ssa.Function
	site   token.Pos // call site in the parent frame
	kind   string    // root | call | go | defer | once
}

type ctxKey struct {
	fn   *ssa.Function
	held string
	virt bool
	env  string // functions bound to function-typed parameters (callback context)
}

type summary struct {
	exits [][]heldItem
	done  bool
}

type opKind int

const (
	opNone opKind = iota
	opLock
	opUnlock
	opTryLock
	opOnceDo
)

type edgeWitness struct {
	from, to int
	heldAt   heldItem
	chain    *chainNode
	pos      token.Pos
	fn       *ssa.Function
}

type accessRec struct {
	field string // pkg.Type.field
	fn    *ssa.Function
	kind  string // read | write | addr
	pos   token.Pos
	chain *chainNode
	held  []heldItem
}

type analyzer struct {
	prog *ssa.Program
	cg   *callgraph.Graph
	cfg  *config
	pf   *posFmt

	classIDs   map[string]int // name -> dense id (assigned at first sight, renumbered at the end)
	classNames []string
	classKind  []string

	callees   map[ssa.CallInstruction][]*ssa.Function
	canReach  map[*ssa.Function]bool
	lockSites []lockSite
	siteSeen  map[token.Pos]bool

	memo      map[ctxKey]*summary
	edges     map[[2]int]*edgeWitness
	unres     map[string]string // description -> where
	accesses  map[string]*accessRec
	nAccess   int             // all guarded-struct field accesses seen (in some context)
	guardedOK map[string]bool // field|fn|kind seen with the guard held (statistics)
	structs   map[*types.Named]*structInfo
	fieldInfo map[string]*fieldFacts

	stdCallable      []stdMethod
	infeasibleUsed   map[int]bool
	leaks            map[string]string // function|class -> where (functions that return holding a lock they took)
	knownLeaks       map[string]bool
	pub              *pubState
	onceUsed         map[int]bool
	ownedBy          map[*types.Named][]string
	chanSites        map[ssa.Instruction][]*chanSite
	chanAll          []*chanSite
	chanClosed       map[string]bool
	fns              []*ssa.Function // the reachable functions of the tracked modules
	escapeExemptUsed map[string]bool
	chanByFn         map[*ssa.Function][]*chanSite // close sites per function
	traceMemo        map[*ssa.Function][][]pubEvent
	traceBusy        map[*ssa.Function]bool
	traceRaw         map[*ssa.Function][][]pubEvent
	record           bool // discipline facts are recorded in this pass
	contexts         int
	notes            map[string]int
}

type lockSite struct {
	Class string `json:"class"`
	Op    string `json:"op"`
	Pos   string `json:"pos"`
	Func  string `json:"func"`
}

func newAnalyzer(prog *ssa.Program, cg *callgraph.Graph, cfg *config, repo string) *analyzer {
	pf := &posFmt{fset: prog.Fset, repo: repo, goroot: build.Default.GOROOT}
	if out, err := exec.Command("go", "env", "GOMODCACHE").Output(); err == nil {
		pf.modcache = strings.TrimSpace(string(out))
	}
	return &analyzer{prog: prog, cg: cg, cfg: cfg, pf: pf,
		classIDs: map[string]int{}, callees: map[ssa.CallInstruction][]*ssa.Function{},
		canReach: map[*ssa.Function]bool{}, siteSeen: map[token.Pos]bool{},
		memo: map[ctxKey]*summary{}, edges: map[[2]int]*edgeWitness{}, unres: map[string]string{},
		accesses: map[string]*accessRec{}, guardedOK: map[string]bool{}, notes: map[string]int{},
		structs: map[*types.Named]*structInfo{}, fieldInfo: map[string]*fieldFacts{}, onceUsed: map[int]bool{}, traceMemo: map[*ssa.Function][][]pubEvent{}, traceBusy: map[*ssa.Function]bool{}, traceRaw: map[*ssa.Function][][]pubEvent{},
		leaks: map[string]string{}, knownLeaks: map[string]bool{}, infeasibleUsed: map[int]bool{}}
}

func (a *analyzer) classOf(name, kind string) int {
	if id, ok := a.classIDs[name]; ok {
		return id
	}
	id := len(a.classNames)
	a.classIDs[name] = id
	a.classNames = append(a.classNames, name)
	a.classKind = append(a.classKind, kind)
	return id
}

// ---------------------------------------------------------------------------
// recognising lock operations

func isSyncType(t types.Type, names ...string) bool {
	n := namedOf(t)
	if n == nil || n.Obj().Pkg() == nil || n.Obj().Pkg().Path() != "sync" {
		return false
	}
	for _, x := range names {
		if n.Obj().Name() == x {
			return true
		}
	}
	return false
}

func lockOp(fn *ssa.Function) opKind {
	if fn == nil || fn.Signature == nil || fn.Signature.Recv() == nil {
		return opNone
	}
	rt := fn.Signature.Recv().Type()
	if isSyncType(rt, "Mutex", "RWMutex") {
		switch fn.Name() {
		case "Lock", "RLock":
			return opLock
		case "Unlock", "RUnlock":
			return opUnlock
		case "TryLock", "TryRLock":
			return opTryLock
		}
	}
	if isSyncType(rt, "Once") && fn.Name() == "Do" {
		return opOnceDo
	}
	return opNone
}

// classify names the lock a receiver expression denotes.
// known=false: the expression is not one we can name (parameter, phi, ...).
// trackedClass=false: a lock declared outside the lal / naza modules.
func (a *analyzer) classify(v ssa.Value, in *ssa.Function) (name string, known bool, trackedClass bool) {
	switch x := v.(type) {
	case *ssa.FieldAddr:
		st, owner := structOf(x.X.Type())
		if st == nil {
			return "", false, false
		}
		f := st.Field(x.Field)
		return fieldClass(owner, f, x.X.Type(), a.pf, x.Pos())
	case *ssa.Field:
		st, owner := structOf(x.X.Type())
		if st == nil {
			return "", false, false
		}
		return fieldClass(owner, st.Field(x.Field), x.X.Type(), a.pf, x.Pos())
	case *ssa.UnOp:
		if x.Op == token.MUL { // load of a *sync.Mutex stored somewhere
			return a.classify(x.X, in)
		}
	case *ssa.Global:
		p := ""
		if x.Pkg != nil {
			p = x.Pkg.Pkg.Path()
		}
		return shortPkg(p) + "." + x.Name(), true, tracked(p)
	case *ssa.Alloc:
		p := fnPkgPath(x.Parent())
		nm := x.Comment
		if nm == "" {
			nm = "local"
		}
		return shortName(x.Parent().String()) + "$" + nm, true, tracked(p)
	case *ssa.ChangeType:
		return a.classify(x.X, in)
	case *ssa.MakeInterface:
		return a.classify(x.X, in)
	}
	return "", false, false
}

func structOf(t types.Type) (*types.Struct, *types.Named) {
	if p, ok := t.Underlying().(*types.Pointer); ok {
		t = p.Elem()
	}
	n := namedOf(t)
	st, _ := t.Underlying().(*types.Struct)
	return st, n
}

func fieldClass(owner *types.Named, f *types.Var, xt types.Type, pf *posFmt, pos token.Pos) (string, bool, bool) {
	if owner != nil && owner.Obj().Pkg() != nil {
		p := owner.Obj().Pkg().Path()
		// instantiated generic types share one class
		return shortPkg(p) + "." + owner.Obj().Name() + "." + f.Name(), true, tracked(p)
	}
	// anonymous struct: name it by the field's declaration position
	p := ""
	if f.Pkg() != nil {
		p = f.Pkg().Path()
	}
	return shortPkg(p) + ".struct@" + pf.str(f.Pos()) + "." + f.Name(), true, tracked(p)
}

// ---------------------------------------------------------------------------
// guarded structs

// structInfo: a struct type of lal / naza that contains mutex fields
type structInfo struct {
	name    string   // pkg.Type
	mutexes []string // lock classes pkg.Type.field of its sync.Mutex / sync.RWMutex fields
	owned   bool     // the mutexes are those of the structs that contain objects of this type
	spec    *guardSpec
}

func (a *analyzer) structInfoOf(xt types.Type) *structInfo {
	st, owner := structOf(xt)
	if st == nil || owner == nil || owner.Obj().Pkg() == nil {
		return nil
	}
	key := owner.Origin()
	if si, ok := a.structs[key]; ok {
		return si
	}
	var si *structInfo
	if tracked(owner.Obj().Pkg().Path()) {
		sname := shortPkg(owner.Obj().Pkg().Path()) + "." + owner.Obj().Name()
		var mus []string
		for i := 0; i < st.NumFields(); i++ {
			if isSyncType(st.Field(i).Type(), "Mutex", "RWMutex") {
				mus = append(mus, sname+"."+st.Field(i).Name())
			}
		}
		if len(mus) > 0 {
			si = &structInfo{name: sname, mutexes: mus}
			if sp, ok := a.cfg.Guarded[sname]; ok {
				si.spec = &sp
			}
		} else if owners := a.ownedBy[key]; len(owners) > 0 {
			// no mutex of its own, but its instances live in a field (map, slice, pointer) of a struct that has one
			si = &structInfo{name: sname, mutexes: owners, owned: true}
			if sp, ok := a.cfg.Guarded[sname]; ok {
				si.spec = &sp
			}
		}
	}
	a.structs[key] = si
	return si
}

// selfSynchronised: field types whose own operations are synchronised
func selfSynchronised(t types.Type) bool {
	if _, ok := t.Underlying().(*types.Chan); ok {
		return false // the channel operations are, the field holding the channel is not
	}
	n := namedOf(t)
	if n == nil || n.Obj().Pkg() == nil {
		return false
	}
	switch p := n.Obj().Pkg().Path(); {
	case p == "sync" || p == "sync/atomic":
		return true
	case strings.HasSuffix(p, "/nazaatomic"):
		return true
	}
	return false
}

// guardedField: is field idx of xt a field of a mutex-bearing struct (other
// than the mutexes themselves and self-synchronised members)?
// forced = the reviewed configuration lists it as guarded (no inference needed).
func (a *analyzer) guardedField(xt types.Type, idx int) (field string, si *structInfo, forced bool) {
	si = a.structInfoOf(xt)
	if si == nil {
		return "", nil, false
	}
	st, _ := structOf(xt)
	f := st.Field(idx)
	if selfSynchronised(f.Type()) {
		return "", nil, false
	}
	// a member struct (by value) that carries its own mutex guards itself
	if _, isPtr := f.Type().Underlying().(*types.Pointer); !isPtr {
		if inner := a.structInfoOf(f.Type()); inner != nil {
			return "", nil, false
		}
	}
	if si.spec != nil {
		for _, x := range si.spec.Fields {
			if x == "*" || x == f.Name() {
				forced = true
			}
		}
	}
	return si.name + "." + f.Name(), si, forced
}

// freshObject: the struct is a local allocation of the current function
// (constructor before the object is published, or a local value)
func freshObject(v ssa.Value) bool {
	var base ssa.Value
	switch x := v.(type) {
	case *ssa.FieldAddr:
		base = x.X
	case *ssa.Field:
		base = x.X
	}
	for {
		switch b := base.(type) {
		case *ssa.Alloc:
			return true
		case *ssa.FieldAddr:
			base = b.X
		case *ssa.Field:
			base = b.X
		case *ssa.UnOp:
			if b.Op != token.MUL {
				return false
			}
			// load of a local struct value
			if al, ok := b.X.(*ssa.Alloc); ok {
				_ = al
				return true
			}
			return false
		default:
			return false
		}
	}
}

// accessKind classifies one field access:
//
//	write - the field, or memory reached through it (map entry, slice element,
//	        field of the struct / pointee), is stored to
//	addr  - the address of the field escapes (method with pointer receiver, argument)
//	read  - anything else
func accessKind(v ssa.Value) string {
	fa, ok := v.(*ssa.FieldAddr)
	if !ok {
		return "read" // *ssa.Field: a copy of a struct value
	}
	w, esc := addrUsage(fa, 0)
	switch {
	case w:
		return "write"
	case esc:
		return "addr"
	}
	return "read"
}

func addrUsage(addr ssa.Value, depth int) (written, escapes bool) {
	refs := addr.Referrers()
	if refs == nil {
		return false, true
	}
	for _, r := range *refs {
		switch x := r.(type) {
		case *ssa.Store:
			if x.Addr == addr {
				written = true
			} else {
				escapes = true
			}
		case *ssa.UnOp:
			if x.Op != token.MUL {
				escapes = true
				continue
			}
			if depth >= 3 {
				continue
			}
			// the loaded value: a map / slice / pointer that is written through
			if lr := x.Referrers(); lr != nil {
				for _, r2 := range *lr {
					switch y := r2.(type) {
					case *ssa.MapUpdate:
						if y.Map == x {
							written = true
						}
					case *ssa.Call:
						if b, ok := y.Call.Value.(*ssa.Builtin); ok && b.Name() == "delete" && len(y.Call.Args) > 0 && y.Call.Args[0] == x {
							written = true
						}
					case *ssa.IndexAddr:
						if y.X == x {
							w, _ := addrUsage(y, depth+1)
							written = written || w
						}
					case *ssa.FieldAddr:
						if y.X == x {
							w, _ := addrUsage(y, depth+1)
							written = written || w
						}
					}
				}
			}
		case *ssa.FieldAddr:
			if x.X == addr {
				w, e := addrUsage(x, depth+1)
				written, escapes = written || w, escapes || e
			}
		case *ssa.IndexAddr:
			if x.X == addr {
				w, e := addrUsage(x, depth+1)
				written, escapes = written || w, escapes || e
			}
		case *ssa.DebugRef:
		default:
			escapes = true
		}
	}
	return
}

// ---------------------------------------------------------------------------
// preparation: call sites, interesting functions, backwards reachability

func (a *analyzer) prepare() {
	for fn, node := range a.cg.Nodes {
		if fn == nil {
			continue
		}
		for _, e := range node.Out {
			if e.Site != nil && e.Callee != nil && e.Callee.Func != nil {
				a.callees[e.Site] = append(a.callees[e.Site], e.Callee.Func)
			}
		}
	}
	for site, l := range a.callees {
		sort.Slice(l, func(i, j int) bool { return l[i].String() < l[j].String() })
		// de-duplicate
		out := l[:0]
		for i, f := range l {
			if i == 0 || f != l[i-1] {
				out = append(out, f)
			}
		}
		a.callees[site] = out
	}
	a.prepareOwners()
	a.preparePub()
	a.prepareChans()
	interesting := map[*ssa.Function]bool{}
	for fn := range ssautil.AllFunctions(a.prog) {
		if a.chanInteresting(fn) {
			interesting[fn] = true
		}
		for _, b := range fn.Blocks {
			for _, ins := range b.Instrs {
				switch x := ins.(type) {
				case ssa.CallInstruction:
					sc := x.Common().StaticCallee()
					op := lockOp(sc)
					if op == opNone {
						continue
					}
					name, known, tr := a.classify(x.Common().Args[0], fn)
					if known && tr {
						interesting[fn] = true
						kind := "mutex"
						if op == opOnceDo {
							kind = "once"
						} else if isSyncType(sc.Signature.Recv().Type(), "RWMutex") {
							kind = "rwmutex"
						}
						a.classOf(name, kind)
						if !a.siteSeen[x.Pos()] || !x.Pos().IsValid() {
							a.siteSeen[x.Pos()] = true
							a.lockSites = append(a.lockSites, lockSite{Class: name, Op: sc.Name(), Pos: a.pf.str(x.Pos()), Func: shortName(fn.String())})
						}
					} else if !known && tracked(fnPkgPath(fn)) {
						interesting[fn] = true // so that the walk reaches it and reports it
					}
				case *ssa.FieldAddr:
					if f, _, _ := a.guardedField(x.X.Type(), x.Field); f != "" {
						interesting[fn] = true
					}
					if _, owner := structOf(x.X.Type()); owner != nil && a.pub.pubTypes[owner.Origin()] {
						interesting[fn] = true
					}
				case *ssa.Field:
					if f, _, _ := a.guardedField(x.X.Type(), x.Field); f != "" {
						interesting[fn] = true
					}
				}
			}
		}
	}
	// backwards closure over call / defer / go edges
	var work []*ssa.Function
	for fn := range interesting {
		a.canReach[fn] = true
		work = append(work, fn)
	}
	for len(work) > 0 {
		fn := work[len(work)-1]
		work = work[:len(work)-1]
		node := a.cg.Nodes[fn]
		if node == nil {
			continue
		}
		for _, e := range node.In {
			c := e.Caller.Func
			if c != nil && !a.canReach[c] {
				a.canReach[c] = true
				work = append(work, c)
			}
		}
	}
	a.computePubReach()
	a.computeStdCallable()
	a.notes["interesting_functions"] = len(interesting)
	a.notes["functions_reaching_a_lock_or_guarded_field"] = len(a.canReach)
}

// ---------------------------------------------------------------------------
// the walk

func heldKey(h []heldItem) string {
	var sb strings.Builder
	for i, x := range h {
		if i > 0 {
			sb.WriteByte(',')
		}
		fmt.Fprintf(&sb, "%d", x.class)
	}
	return sb.String()
}

func (s state) key() string {
	var sb strings.Builder
	sb.WriteString(heldKey(s.held))
	sb.WriteByte('|')
	for _, d := range s.defers {
		fmt.Fprintf(&sb, "%p,", d)
	}
	return sb.String()
}

func holds(h []heldItem, c int) bool {
	for _, x := range h {
		if x.class == c {
			return true
		}
	}
	return false
}

func addHeld(h []heldItem, it heldItem) []heldItem {
	n := 0
	for _, x := range h {
		if x.class == it.class {
			n++
		}
	}
	if n >= 2 { // cap the multiplicity (acquisition in a loop)
		return h
	}
	out := make([]heldItem, 0, len(h)+1)
	done := false
	for _, x := range h {
		if !done && x.class > it.class {
			out = append(out, it)
			done = true
		}
		out = append(out, x)
	}
	if !done {
		out = append(out, it)
	}
	return out
}

func delHeld(h []heldItem, c int) ([]heldItem, bool) {
	for i := len(h) - 1; i >= 0; i-- {
		if h[i].class == c {
			out := make([]heldItem, 0, len(h)-1)
			out = append(out, h[:i]...)
			out = append(out, h[i+1:]...)
			return out, true
		}
	}
	return h, false
}

// rebase: a callee summary is shared by all callers that enter it with the same
// lock classes, so the acquisition sites in its exit sets are those of the first
// caller; keep this caller's own sites for the locks it already held.
func rebase(entry, exit []heldItem) []heldItem {
	out := make([]heldItem, 0, len(exit))
	used := make([]bool, len(entry))
	for _, x := range exit {
		repl := x
		for i, y := range entry {
			if !used[i] && y.class == x.class {
				used[i] = true
				repl = y
				break
			}
		}
		out = append(out, repl)
	}
	return out
}

func (a *analyzer) exemptFunc(fn *ssa.Function) bool {
	if len(a.cfg.ExemptFuncs) == 0 {
		return false
	}
	_, ok := a.cfg.ExemptFuncs[shortName(fn.String())]
	return ok
}

func (a *analyzer) analyze(fn *ssa.Function, held []heldItem, virt bool, chain *chainNode, env bindEnv) [][]heldItem {
	if fn == nil || len(fn.Blocks) == 0 {
		return [][]heldItem{held}
	}
	if a.exemptFunc(fn) {
		virt = true
	}
	// reviewed path condition: fn does nothing unless the listed types are still unpublished
	var unpub []heldItem
	held, unpub = a.onceGuard(fn, held)
	if len(unpub) > 0 {
		exits := a.analyze0(fn, held, virt, chain, env)
		out := make([][]heldItem, 0, len(exits))
		for _, e := range exits {
			for _, m := range unpub {
				e = addPseudo(e, m)
			}
			out = append(out, e)
		}
		return out
	}
	return a.analyze0(fn, held, virt, chain, env)
}

func (a *analyzer) analyze0(fn *ssa.Function, held []heldItem, virt bool, chain *chainNode, env bindEnv) [][]heldItem {
	key := ctxKey{fn, heldKey(held), virt, env.key()}
	if s, ok := a.memo[key]; ok {
		a.chanRevisit(fn, chain)
		if s.done {
			return s.exits
		}
		return [][]heldItem{held} // recursion: assume balanced
	}
	sum := &summary{}
	a.memo[key] = sum
	a.contexts++
	if a.record && a.pub != nil {
		if a.pub.entryPubs[fn] == nil {
			a.pub.entryPubs[fn] = map[string]bool{}
		}
		a.pub.entryPubs[fn][a.pubsetKey(held)] = true
	}

	nb := len(fn.Blocks)
	in := make([]map[string]state, nb)
	processed := make([]map[string]bool, nb)
	for i := range in {
		in[i] = map[string]state{}
		processed[i] = map[string]bool{}
	}
	init := state{held: held}
	in[0][init.key()] = init
	work := []int{0}
	exitSeen := map[string]bool{}
	for len(work) > 0 {
		bi := work[len(work)-1]
		work = work[:len(work)-1]
		b := fn.Blocks[bi]
		keys := make([]string, 0, len(in[bi]))
		for k := range in[bi] {
			if !processed[bi][k] {
				keys = append(keys, k)
			}
		}
		sort.Strings(keys)
		for _, k := range keys {
			processed[bi][k] = true
			cur := []state{in[bi][k]}
			returned := false
			for _, ins := range b.Instrs {
				cur = a.step(fn, ins, cur, virt, chain, env)
				if len(cur) == 0 {
					break
				}
				if _, ok := ins.(*ssa.Return); ok {
					returned = true
					for _, s := range cur {
						hk := heldKey(s.held)
						if !exitSeen[hk] {
							exitSeen[hk] = true
							sum.exits = append(sum.exits, s.held)
						}
					}
				}
			}
			if returned || len(cur) == 0 {
				continue
			}
			for _, succ := range b.Succs {
				for _, s := range cur {
					sk := s.key()
					if _, ok := in[succ.Index][sk]; !ok {
						in[succ.Index][sk] = s
						work = append(work, succ.Index)
					}
				}
			}
		}
	}
	// a function that returns holding a lock it acquired itself (lock leak)
	var kept [][]heldItem
	for _, e := range sum.exits {
		leaked := -1
		for _, h := range e {
			if a.pseudo(h.class) {
				continue
			}
			n0, n1 := 0, 0
			for _, x := range held {
				if x.class == h.class {
					n0++
				}
			}
			for _, x := range e {
				if x.class == h.class {
					n1++
				}
			}
			if n1 > n0 && h.fn == fn {
				// reported at the function that executed the Lock; callers just inherit the state
				leaked = h.class
				k := shortName(fn.String()) + "|" + a.classNames[h.class]
				if _, ok := a.leaks[k]; !ok {
					a.leaks[k] = a.pf.str(h.pos)
				}
			}
		}
		if leaked >= 0 {
			if _, known := a.cfg.KnownLockLeaks[shortName(fn.String())]; known {
				a.knownLeaks[shortName(fn.String())] = true
				continue // the leaking path is reported as a finding, not propagated
			}
			if _, helper := a.cfg.LockHelpers[shortName(fn.String())]; helper {
				delete(a.leaks, shortName(fn.String())+"|"+a.classNames[leaked])
			}
		}
		kept = append(kept, e)
	}
	sum.exits = kept
	sum.done = true
	return sum.exits
}

func dedupStates(sts []state) []state {
	if len(sts) < 2 {
		return sts
	}
	seen := map[string]bool{}
	out := sts[:0:0]
	for _, s := range sts {
		k := s.key()
		if !seen[k] {
			seen[k] = true
			out = append(out, s)
		}
	}
	return out
}

func (a *analyzer) step(fn *ssa.Function, ins ssa.Instruction, cur []state, virt bool, chain *chainNode, env bindEnv) []state {
	a.chanVisit(ins, cur, chain)
	switch x := ins.(type) {
	case *ssa.Call:
		return a.doCall(fn, x, cur, virt, chain, "call", env)
	case *ssa.Defer:
		out := make([]state, 0, len(cur))
		for _, s := range cur {
			dup := false
			for _, d := range s.defers {
				if d == x {
					dup = true
				}
			}
			if !dup {
				nd := make([]*ssa.Defer, 0, len(s.defers)+1)
				nd = append(nd, s.defers...)
				nd = append(nd, x)
				s = state{held: s.held, defers: nd}
			}
			out = append(out, s)
		}
		return out
	case *ssa.RunDefers:
		var out []state
		for _, s := range cur {
			sts := []state{{held: s.held}}
			for i := len(s.defers) - 1; i >= 0; i-- {
				sts = a.doCall(fn, s.defers[i], sts, virt, chain, "defer", env)
			}
			out = append(out, sts...)
		}
		return dedupStates(out)
	case *ssa.Go:
		entry := a.goEntry(x)
		goCallees := a.callees[x]
		if bound := env.resolve(x.Call.Value); bound != nil {
			goCallees = []*ssa.Function{bound}
		}
		for _, callee := range goCallees {
			if a.canReach[callee] {
				a.analyze(callee, entry, false, &chainNode{parent: chain, fn: callee, site: x.Pos(), kind: "go"}, bindArgs(callee, &x.Call, env))
			}
		}
		// "go mu.Lock()" and the like are not modelled
		return a.publish(fn, x.Pos(), a.pub.sites[x], cur)
	case *ssa.Send:
		return a.publish(fn, x.Pos(), a.pub.sites[x], cur)
	case *ssa.MapUpdate:
		return a.publishUnderLock(fn, x, x.Pos(), cur)
	case *ssa.Store:
		return a.publishUnderLock(fn, x, x.Pos(), cur)
	case *ssa.Panic:
		return nil
	case *ssa.FieldAddr:
		a.access(fn, x, x.X.Type(), x.Field, x.Pos(), cur, virt, chain)
		a.pubAccess(fn, x, x.X.Type(), x.Field, x.Pos(), cur, virt, chain)
	case *ssa.Field:
		a.access(fn, x, x.X.Type(), x.Field, x.Pos(), cur, virt, chain)
		a.pubAccess(fn, x, x.X.Type(), x.Field, x.Pos(), cur, virt, chain)
	}
	return cur
}

func (a *analyzer) access(fn *ssa.Function, v ssa.Value, xt types.Type, idx int, pos token.Pos, cur []state, virt bool, chain *chainNode) {
	field, si, forced := a.guardedField(xt, idx)
	if field == "" {
		return
	}
	kind := accessKind(v)
	k := field + "|" + fn.String() + "|" + kind
	fi := a.fieldInfo[field]
	if fi == nil {
		fi = &fieldFacts{owner: si.name, forced: forced, owned: si.owned}
		a.fieldInfo[field] = fi
	}
	fresh := freshObject(v)
	for _, s := range cur {
		if virt || fresh {
			a.guardedOK[k] = true
			continue // constructor / object not yet published
		}
		if kind == "write" && a.record {
			fi.writtenPlain = true
		}
		if kind != "read" && a.record {
			fi.written = true
			if fi.writtenAt == "" {
				fi.writtenAt = kind + " in " + shortName(fn.String()) + " at " + a.pf.str(pos)
			}
		}
		holdsGuard := false
		for _, m := range si.mutexes {
			if id, ok := a.classIDs[m]; ok && holds(s.held, id) {
				holdsGuard = true
				if a.record { // facts are taken from walks that start at real thread entry points
					fi.heldSeen = true
					fi.guard = m
				}
			}
		}
		if holdsGuard {
			if kind == "write" && a.record {
				fi.writtenHeld = true
			}
			a.guardedOK[k] = true
			continue
		}
		if !a.record {
			continue
		}
		if _, ok := a.accesses[k]; !ok {
			a.accesses[k] = &accessRec{field: field, fn: fn, kind: kind, pos: pos, chain: chain, held: s.held}
		}
	}
}

// fieldFacts: what the walk learnt about one field of a mutex-bearing struct
type fieldFacts struct {
	owner        string
	guard        string // a mutex of the struct seen held at an access
	forced       bool   // listed in the configuration
	heldSeen     bool   // accessed at least once with a mutex of its struct held
	written      bool   // written (or its address taken) outside constructors
	writtenAt    string // one such site
	owned        bool   // field of a struct without a mutex whose instances live inside a struct with one
	writtenHeld  bool   // written with a guarding mutex held
	writtenPlain bool   // stored to (not merely address-taken) outside constructors
}

// guardedInferred: the field is treated as guarded by the mutex of its struct
func (f *fieldFacts) guardedInferred() bool {
	if f.owned {
		// owner-guarded: accessed at least once under the owner's mutex and stored to after construction
		return f.forced || (f.heldSeen && f.writtenPlain)
	}
	return f.forced || (f.heldSeen && f.written)
}

func (a *analyzer) acquire(fn *ssa.Function, class int, pos token.Pos, s state, chain *chainNode) state {
	for _, h := range s.held {
		if a.pseudo(h.class) {
			continue
		}
		k := [2]int{h.class, class}
		if _, ok := a.edges[k]; !ok {
			a.edges[k] = &edgeWitness{from: h.class, to: class, heldAt: h, chain: chain, pos: pos, fn: fn}
		}
	}
	return state{held: addHeld(s.held, heldItem{class: class, pos: pos, fn: fn}), defers: s.defers}
}

func (a *analyzer) doCall(fn *ssa.Function, ins ssa.CallInstruction, cur []state, virt bool, chain *chainNode, kind string, env bindEnv) []state {
	out := a.doCall0(fn, ins, cur, virt, chain, kind, env)
	if ts, ok := a.pub.sites[ins]; ok {
		if _, isGo := ins.(*ssa.Go); !isGo {
			out = a.publish(fn, ins.Pos(), ts, out)
		}
	}
	return out
}

func (a *analyzer) doCall0(fn *ssa.Function, ins ssa.CallInstruction, cur []state, virt bool, chain *chainNode, kind string, env bindEnv) []state {
	common := ins.Common()
	sc := common.StaticCallee()
	switch op := lockOp(sc); op {
	case opLock, opUnlock, opTryLock, opOnceDo:
		name, known, tr := a.classify(common.Args[0], fn)
		if !known {
			if tracked(fnPkgPath(fn)) {
				a.unres[fmt.Sprintf("%s of a lock that cannot be named (%T) in %s", sc.Name(), common.Args[0], shortName(fn.String()))] = a.pf.str(ins.Pos())
			}
			if op != opOnceDo {
				return cur
			}
		}
		if known && !tr {
			if op != opOnceDo {
				return cur // a lock of the standard library or a third party: not tracked
			}
			// untracked Once: fall through to the generic call handling (walk into sync.(*Once).Do)
			break
		}
		class := -1
		if known {
			class = a.classIDs[name]
		}
		out := make([]state, 0, len(cur))
		switch op {
		case opLock:
			for _, s := range cur {
				out = append(out, a.acquire(fn, class, ins.Pos(), s, chain))
			}
		case opTryLock:
			// never blocks: no edge; afterwards the lock may or may not be held
			for _, s := range cur {
				out = append(out, s, state{held: addHeld(s.held, heldItem{class: class, pos: ins.Pos(), fn: fn}), defers: s.defers})
			}
		case opUnlock:
			for _, s := range cur {
				h, ok := delHeld(s.held, class)
				if !ok {
					a.notes["unlock_of_a_lock_not_held_in_this_context"]++
				}
				out = append(out, state{held: h, defers: s.defers})
			}
		case opOnceDo:
			// once.Do(f): a second caller blocks until f has returned, so the
			// Once behaves like a mutex held around f
			var fs []*ssa.Function
			switch f := common.Args[1].(type) {
			case *ssa.MakeClosure:
				fs = append(fs, f.Fn.(*ssa.Function))
			case *ssa.Function:
				fs = append(fs, f)
			default:
				// the callees VTA found for the call f() inside sync.(*Once).doSlow are too coarse;
				// use the functions flowing into this site if the graph has them
				a.unres[fmt.Sprintf("Once.Do with a function value that is not a literal in %s", shortName(fn.String()))] = a.pf.str(ins.Pos())
			}
			for _, s := range cur {
				s1 := s
				if known {
					s1 = a.acquire(fn, class, ins.Pos(), s, chain)
				}
				for _, f := range fs {
					a.analyze(f, s1.held, virt, &chainNode{parent: chain, fn: f, site: ins.Pos(), kind: "once"}, nil)
				}
				out = append(out, s) // released when Do returns
			}
		}
		return dedupStates(out)
	}

	all := a.callees[ins]
	if bound := env.resolve(common.Value); bound != nil {
		all = []*ssa.Function{bound} // the function value is the one this activation was given
	}
	var reach []*ssa.Function
	untracked := len(all) == 0
	for _, c := range all {
		if !tracked(fnPkgPath(c)) {
			untracked = true
			continue
		}
		if a.canReach[c] {
			reach = append(reach, c)
		}
	}
	// a dynamic call that may reach a Lock / Unlock method directly (sync.Locker)
	if sc == nil {
		for _, c := range all {
			if lockOp(c) != opNone && tracked(fnPkgPath(fn)) {
				a.unres[fmt.Sprintf("dynamic call of %s in %s", shortName(c.String()), shortName(fn.String()))] = a.pf.str(ins.Pos())
			}
		}
	}
	if untracked {
		// code outside the lal / naza modules is not walked; what it may call
		// back synchronously is derived from the arguments of the call
		a.callbacks(fn, ins, all, cur, virt, chain)
	}
	if len(reach) == 0 {
		return cur
	}
	var out []state
	for _, s := range cur {
		if len(reach) < len(all) || untracked {
			out = append(out, s)
		}
		for _, c := range reach {
			if a.infeasible(fn, c, s.held) {
				out = append(out, s)
				continue
			}
			entry := s.held
			// publication markers are only carried through code that can touch the published types
			var stripped []heldItem
			crossing := len(a.pub.consumer) > 0 && a.isConsumerPkg(fnPkgPath(fn)) && !a.isConsumerPkg(fnPkgPath(c)) && !holds(s.held, a.pub.ctxClass)
			if crossing {
				// from a consumer package (logic) into a session / connection package: accesses below are foreign
				entry = addPseudo(s.held, heldItem{class: a.pub.ctxClass, pos: ins.Pos(), fn: fn})
			}
			entry, stripped = a.stripMarkers(entry, c)
			// the first method of a published type entered below a consumer package names the
			// object through which the foreign goroutine reaches what it touches
			viaClass := -1
			if holds(entry, a.pub.ctxClass) && !a.hasKind(entry, kindVia) {
				if r := a.receiverPubType(c); r != nil {
					viaClass = a.classOf("via:"+namedName(r), kindVia)
					entry = addPseudo(entry, heldItem{class: viaClass, pos: ins.Pos(), fn: fn})
				}
			}
			exits := a.analyze(c, entry, virt, &chainNode{parent: chain, fn: c, site: ins.Pos(), kind: kind}, bindArgs(c, common, env))
			for _, e := range exits {
				if crossing {
					e, _ = delHeld(e, a.pub.ctxClass)
				}
				if viaClass >= 0 {
					e, _ = delHeld(e, viaClass)
				}
				if a.isConsumerPkg(fnPkgPath(c)) {
					// what a consumer package constructs and publishes on this goroutine is its own business:
					// its later accesses are foreign accesses, not writes of the constructing session code
					e = a.dropNewMarkers(e, entry)
				}
				for _, m := range stripped {
					e = addPseudo(e, m)
				}
				out = append(out, state{held: rebase(s.held, e), defers: s.defers})
			}
		}
	}
	return dedupStates(out)
}

func (a *analyzer) infeasible(caller, callee *ssa.Function, held []heldItem) bool {
	for i, x := range a.cfg.InfeasibleCalls {
		if x.Caller != shortName(caller.String()) || x.Callee != shortName(callee.String()) {
			continue
		}
		if x.WhenHolding != "" {
			if id, ok := a.classIDs[x.WhenHolding]; ok && holds(held, id) {
				a.infeasibleUsed[i] = true
				return true
			}
		}
		if x.WhenNotHolding != "" {
			if id, ok := a.classIDs[x.WhenNotHolding]; !ok || !holds(held, id) {
				a.infeasibleUsed[i] = true
				return true
			}
		}
	}
	return false
}

// asynchronous standard-library entry points: the function values handed to
// them run later on another goroutine (no lock of the caller is held then)
var asyncStd = map[string]bool{
	"time.AfterFunc": true, "net/http.HandleFunc": true, "net/http.Handle": true,
	"(*net/http.ServeMux).HandleFunc": true, "(*net/http.ServeMux).Handle": true,
	"os/signal.Notify": true, "runtime.SetFinalizer": true, "context.AfterFunc": true,
}

// callbacks models a call into code that is not walked (standard library):
// function values passed as arguments are assumed to be called before the
// call returns, with the caller's locks held; objects of lal / naza types passed
// as arguments may have those of their methods called that implement a method of
// a standard-library interface (Write, Read, Close, String, Error, ...).
func (a *analyzer) callbacks(fn *ssa.Function, ins ssa.CallInstruction, callees []*ssa.Function, cur []state, virt bool, chain *chainNode) {
	common := ins.Common()
	async := false
	name := "?"
	for _, c := range callees {
		if !tracked(fnPkgPath(c)) {
			name = c.String()
			if asyncStd[c.String()] {
				async = true
			}
		}
	}
	var fs []*ssa.Function
	// (the receiver of an interface call is not an argument here: its possible
	// dynamic types are exactly the callees the call graph gives)
	for _, arg := range common.Args {
		fs = append(fs, a.callbackTargets(arg, fn, ins)...)
	}
	if len(fs) == 0 {
		return
	}
	for _, s := range cur {
		for _, f := range fs {
			if !a.canReach[f] {
				continue
			}
			if async {
				a.analyze(f, nil, false, &chainNode{parent: chain, fn: f, site: ins.Pos(), kind: "go"}, nil)
			} else {
				// which object the standard library really calls back is a guess (any lal / naza type with a
				// matching method): good enough for the lock order, too coarse for the publication facts
				h := addPseudo(s.held, heldItem{class: a.classOf("std:guessed callback", kindStd), pos: ins.Pos(), fn: fn})
				a.analyze(f, h, virt, &chainNode{parent: chain, fn: f, site: ins.Pos(), kind: "callback via " + shortName(name)}, nil)
			}
		}
	}
}

func (a *analyzer) callbackTargets(arg ssa.Value, fn *ssa.Function, ins ssa.CallInstruction) []*ssa.Function {
	switch x := arg.(type) {
	case *ssa.MakeClosure:
		return []*ssa.Function{x.Fn.(*ssa.Function)}
	case *ssa.Function:
		return []*ssa.Function{x}
	case *ssa.MakeInterface:
		return a.stdCallableMethods(x.X.Type(), nil)
	case *ssa.ChangeInterface:
		return a.callbackTargets(x.X, fn, ins)
	case *ssa.Slice:
		// variadic ...interface{} / []T literals are built by the caller: look through
		return nil
	}
	t := arg.Type()
	if _, ok := t.Underlying().(*types.Signature); ok {
		a.notes["function_values_passed_to_the_standard_library_that_are_not_literals"]++
		return nil
	}
	if it, ok := t.Underlying().(*types.Interface); ok {
		return a.stdCallableMethods(nil, it)
	}
	if n := namedOf(t); n != nil && n.Obj().Pkg() != nil && tracked(n.Obj().Pkg().Path()) {
		return a.stdCallableMethods(t, nil)
	}
	return nil
}

// stdCallableMethods: the lock-reaching methods the standard library could
// call on a value of concrete type t, or on any lal / naza value that implements it.
func (a *analyzer) stdCallableMethods(t types.Type, it *types.Interface) []*ssa.Function {
	var out []*ssa.Function
	for _, m := range a.stdCallable {
		if t != nil {
			if types.Identical(m.recv, t) || types.Identical(m.recv, types.NewPointer(t)) {
				out = append(out, m.fn)
			} else if p, ok := t.(*types.Pointer); ok && types.Identical(m.recv, p.Elem()) {
				out = append(out, m.fn)
			}
		} else if it != nil {
			// only the methods of the interface the callee was given
			if types.Implements(m.recv, it) {
				for i := 0; i < it.NumMethods(); i++ {
					if it.Method(i).Name() == m.fn.Name() {
						out = append(out, m.fn)
					}
				}
			}
		}
	}
	return out
}

type stdMethod struct {
	recv types.Type
	fn   *ssa.Function
}

// computeStdCallable: methods of lal / naza types whose name and signature match
// a method of an interface declared in the standard library (or error) and
// from which a lock operation or guarded field is reachable.
func (a *analyzer) computeStdCallable() {
	keys := map[string]bool{"Error() string": true}
	sigKey := func(name string, sig *types.Signature) string {
		return name + strings.TrimPrefix(types.TypeString(types.NewSignatureType(nil, nil, nil, sig.Params(), sig.Results(), sig.Variadic()), nil), "func")
	}
	for _, p := range a.prog.AllPackages() {
		if tracked(p.Pkg.Path()) {
			continue
		}
		for _, mem := range p.Members {
			tn, ok := mem.(*ssa.Type)
			if !ok {
				continue
			}
			it, ok := tn.Type().Underlying().(*types.Interface)
			if !ok {
				continue
			}
			for i := 0; i < it.NumMethods(); i++ {
				m := it.Method(i)
				keys[sigKey(m.Name(), m.Type().(*types.Signature))] = true
			}
		}
	}
	seen := map[*ssa.Function]bool{}
	for _, p := range a.prog.AllPackages() {
		if !tracked(p.Pkg.Path()) {
			continue
		}
		for _, mem := range p.Members {
			tn, ok := mem.(*ssa.Type)
			if !ok {
				continue
			}
			if _, isIface := tn.Type().Underlying().(*types.Interface); isIface {
				continue
			}
			for _, recv := range []types.Type{tn.Type(), types.NewPointer(tn.Type())} {
				ms := a.prog.MethodSets.MethodSet(recv)
				for i := 0; i < ms.Len(); i++ {
					sel := ms.At(i)
					sig, ok := sel.Type().(*types.Signature)
					if !ok || !keys[sigKey(sel.Obj().Name(), sig)] {
						continue
					}
					f := a.prog.MethodValue(sel)
					if f == nil || !a.canReach[f] || seen[f] {
						continue
					}
					// only the pointer method set entry when both exist
					seen[f] = true
					a.stdCallable = append(a.stdCallable, stdMethod{recv: recv, fn: f})
				}
			}
		}
	}
	sort.Slice(a.stdCallable, func(i, j int) bool { return a.stdCallable[i].fn.String() < a.stdCallable[j].fn.String() })
}

// ---------------------------------------------------------------------------
// roots

func (a *analyzer) effectiveCallers(fn *ssa.Function, depth int, seen map[*ssa.Function]bool) []*ssa.Function {
	var out []*ssa.Function
	node := a.cg.Nodes[fn]
	if node == nil || seen[fn] {
		return nil
	}
	seen[fn] = true
	for _, e := range node.In {
		c := e.Caller.Func
		if c == nil {
			continue
		}
		if c.Synthetic != "" && depth < 4 {
			// a wrapper nobody calls is itself an escaping function value: keep it as an (untracked-looking) caller
			cc := a.effectiveCallers(c, depth+1, seen)
			if len(cc) == 0 {
				continue
			}
			out = append(out, cc...)
			continue
		}
		out = append(out, c)
	}
	return out
}

func (a *analyzer) run() {
	a.prepare()
	all := ssautil.AllFunctions(a.prog)
	var fns []*ssa.Function
	for fn := range all {
		if a.canReach[fn] && tracked(fnPkgPath(fn)) {
			fns = append(fns, fn)
		}
	}
	sort.Slice(fns, func(i, j int) bool {
		if fns[i].String() != fns[j].String() {
			return fns[i].String() < fns[j].String()
		}
		return fns[i].Pos() < fns[j].Pos()
	})

	// pass A: thread entry points.  Exported functions and methods of lal
	// (callable from any goroutine), targets of go statements, functions called
	// from outside the lal / naza modules (callbacks run by the standard
	// library) and functions without any caller.
	goTargets := map[*ssa.Function]bool{}
	for fn := range all {
		for _, b := range fn.Blocks {
			for _, ins := range b.Instrs {
				if g, ok := ins.(*ssa.Go); ok {
					for _, c := range a.callees[g] {
						goTargets[c] = true
					}
				}
			}
		}
	}
	a.fns = fns
	isEntry := func(fn *ssa.Function) (bool, string) {
		if goTargets[fn] {
			return true, "go"
		}
		if !strings.HasPrefix(fnPkgPath(fn)+"/", lalPrefix) {
			return false, ""
		}
		if fn.Synthetic != "" {
			return false, ""
		}
		if _, no := a.cfg.NotEntryPoints[shortName(fn.String())]; no {
			return false, ""
		}
		exported := fn.Parent() == nil && fn.Object() != nil && fn.Object().Exported()
		if exported && fn.Signature.Recv() != nil {
			if n := namedOf(fn.Signature.Recv().Type()); n != nil && n.Obj().Pkg() != nil {
				for _, t := range a.cfg.ApiTypes {
					if t == shortPkg(n.Obj().Pkg().Path())+"."+n.Obj().Name() {
						return true, "api"
					}
				}
			}
		}
		// callers, looking through synthetic wrappers (bound-method closures, thunks):
		// h.serveHls passed to net/http is called as serveHls$bound by the standard library
		callers := a.effectiveCallers(fn, 0, map[*ssa.Function]bool{})
		if len(callers) == 0 {
			if exported {
				return true, "exported"
			}
			return true, "nocaller"
		}
		trackedCaller := false
		for _, c := range callers {
			if r := c.Signature.Recv(); r != nil && isSyncType(r.Type(), "Once") {
				continue // the function of a Once.Do is walked at the Do site, with the once class held
			}
			if !tracked(fnPkgPath(c)) {
				return true, "callback"
			}
			if c != fn {
				trackedCaller = true
			}
		}
		if exported && !trackedCaller {
			return true, "exported"
		}
		return false, ""
	}
	a.record = true
	nEntry := 0
	for _, fn := range fns {
		if ok, why := isEntry(fn); ok {
			nEntry++
			a.analyze(fn, nil, false, &chainNode{fn: fn, kind: "root:" + why}, nil)
		}
	}
	// go targets outside the tracked modules that reach tracked code
	var others []*ssa.Function
	for fn := range goTargets {
		if a.canReach[fn] && !tracked(fnPkgPath(fn)) {
			others = append(others, fn)
		}
	}
	sort.Slice(others, func(i, j int) bool { return others[i].String() < others[j].String() })
	for _, fn := range others {
		nEntry++
		a.analyze(fn, nil, false, &chainNode{fn: fn, kind: "root:go"}, nil)
	}
	a.notes["entry_points"] = nEntry

	// pass B: every remaining function of the tracked modules, started with no
	// lock held - only adds lock-order edges (a superset is harmless there).
	a.record = false
	for _, fn := range fns {
		a.analyze(fn, nil, false, &chainNode{fn: fn, kind: "root:any"}, nil)
	}
	if len(os.Getenv("LOCKGRAPH_DEBUG")) > 0 {
		cnt := map[string]int{}
		for k := range a.memo {
			var l []string
			for _, idstr := range strings.Split(k.held, ",") {
				var id int
				if _, err := fmt.Sscanf(idstr, "%d", &id); err == nil && a.pseudo(id) {
					l = append(l, a.classNames[id])
				}
			}
			cnt[strings.Join(l, " ")]++
		}
		var ks []string
		for k, v := range cnt {
			ks = append(ks, fmt.Sprintf("%6d %s", v, k))
		}
		sort.Strings(ks)
		fmt.Fprintf(os.Stderr, "%s\n", strings.Join(ks, "\n"))
		fmt.Fprintf(os.Stderr, "contexts=%d\n", a.contexts)
	}
}

// bindEnv: the functions bound to the function-typed parameters of the current
// activation (ChunkComposer.RunLoop(reader, s.doMsg): inside, cb() is s.doMsg and
// not every callback that is ever passed to RunLoop)
type bindEnv map[*ssa.Parameter]*ssa.Function

func (e bindEnv) key() string {
	if len(e) == 0 {
		return ""
	}
	l := make([]string, 0, len(e))
	for p, f := range e {
		l = append(l, fmt.Sprintf("%s=%p", p.Name(), f))
	}
	sort.Strings(l)
	return strings.Join(l, ",")
}

func (e bindEnv) resolve(v ssa.Value) *ssa.Function {
	if p, ok := v.(*ssa.Parameter); ok && e != nil {
		return e[p]
	}
	return nil
}

func bindArgs(callee *ssa.Function, com *ssa.CallCommon, env bindEnv) bindEnv {
	if callee == nil || len(callee.Params) == 0 {
		return nil
	}
	off := 0
	if com.IsInvoke() {
		off = 1
	}
	var out bindEnv
	for i, arg := range com.Args {
		if i+off >= len(callee.Params) {
			break
		}
		var f *ssa.Function
		for {
			ct, ok := arg.(*ssa.ChangeType) // method value converted to a named func type
			if !ok {
				break
			}
			arg = ct.X
		}
		switch x := arg.(type) {
		case *ssa.MakeClosure:
			f, _ = x.Fn.(*ssa.Function)
		case *ssa.Function:
			f = x
		case *ssa.Parameter:
			f = env.resolve(x)
		}
		if f == nil {
			continue
		}
		if _, isFunc := callee.Params[i+off].Type().Underlying().(*types.Signature); !isFunc {
			continue
		}
		if out == nil {
			out = bindEnv{}
		}
		out[callee.Params[i+off]] = f
	}
	return out
}

// prepareOwners: struct types without a mutex whose objects are kept in a field (pointer, map, slice) of a
// struct that has one: hls.SubSession in hls.ServerHandler.sessionMap, the sessions in logic.Group's sets,
// pullProxy / pushProxy ...  Their fields may be guarded by the mutex of that owner.
func (a *analyzer) prepareOwners() {
	a.ownedBy = map[*types.Named][]string{}
	hasMutex := func(st *types.Struct) bool {
		for i := 0; i < st.NumFields(); i++ {
			if isSyncType(st.Field(i).Type(), "Mutex", "RWMutex") {
				return true
			}
		}
		return false
	}
	// the tracked struct types without a mutex: what an interface-typed field can hold
	var plain []*types.Named
	for _, p := range a.prog.AllPackages() {
		if !tracked(p.Pkg.Path()) {
			continue
		}
		for _, mem := range p.Members {
			if tn, ok := mem.(*ssa.Type); ok {
				if n, ok := tn.Type().(*types.Named); ok && n.TypeParams().Len() == 0 {
					if st, ok := n.Underlying().(*types.Struct); ok && !hasMutex(st) {
						plain = append(plain, n)
					}
				}
			}
		}
	}
	viaIface := true
	var mention func(t types.Type, depth int, out map[*types.Named]bool)
	mention = func(t types.Type, depth int, out map[*types.Named]bool) {
		if depth > 2 {
			return
		}
		if n, ok := types.Unalias(t).(*types.Named); ok {
			// a field of an interface type of lal / naza holds one of its implementations (IGroupManager:
			// SimpleGroupManager, ComplexGroupManager)
			if it, ok := n.Underlying().(*types.Interface); ok && viaIface && it.NumMethods() > 0 && n.Obj().Pkg() != nil && tracked(n.Obj().Pkg().Path()) {
				for _, c := range plain {
					if types.Implements(types.NewPointer(c), it) {
						out[c.Origin()] = true
					}
				}
				return
			}
		}
		switch x := types.Unalias(t).(type) {
		case *types.Pointer:
			mention(x.Elem(), depth, out)
		case *types.Map:
			mention(x.Key(), depth+1, out)
			mention(x.Elem(), depth+1, out)
		case *types.Slice:
			mention(x.Elem(), depth+1, out)
		case *types.Array:
			mention(x.Elem(), depth+1, out)
		case *types.Named:
			if st, ok := x.Underlying().(*types.Struct); ok && x.Obj().Pkg() != nil && tracked(x.Obj().Pkg().Path()) && !hasMutex(st) {
				out[x.Origin()] = true
			}
		}
	}
	for _, p := range a.prog.AllPackages() {
		if !tracked(p.Pkg.Path()) {
			continue
		}
		for _, mem := range p.Members {
			tn, ok := mem.(*ssa.Type)
			if !ok {
				continue
			}
			n, ok := tn.Type().(*types.Named)
			if !ok {
				continue
			}
			st, ok := n.Underlying().(*types.Struct)
			if !ok || !hasMutex(st) {
				continue
			}
			sname := shortPkg(p.Pkg.Path()) + "." + n.Obj().Name()
			var mus []string
			for i := 0; i < st.NumFields(); i++ {
				if isSyncType(st.Field(i).Type(), "Mutex", "RWMutex") {
					mus = append(mus, sname+"."+st.Field(i).Name())
				}
			}
			owned := map[*types.Named]bool{}
			for i := 0; i < st.NumFields(); i++ {
				if _, isNamed := types.Unalias(st.Field(i).Type()).(*types.Named); isNamed {
					if _, isStruct := st.Field(i).Type().Underlying().(*types.Struct); isStruct {
						continue // a by-value member is part of the struct itself, not an owned object
					}
				}
				mention(st.Field(i).Type(), 0, owned)
			}
			for t := range owned {
				a.ownedBy[t] = append(a.ownedBy[t], mus...)
			}
		}
	}
	// (an observer interface in a struct without a mutex is a back reference, not a second container)
	viaIface = false
	// "only reachable through such a container": a type that a struct WITHOUT a mutex also keeps in a
	// field (the remuxer inside CustomizePubSessionContext, a dump file ...) has instances the owner's
	// mutex does not cover
	for _, p := range a.prog.AllPackages() {
		if !tracked(p.Pkg.Path()) {
			continue
		}
		for _, mem := range p.Members {
			tn, ok := mem.(*ssa.Type)
			if !ok {
				continue
			}
			n, ok := tn.Type().(*types.Named)
			if !ok {
				continue
			}
			st, ok := n.Underlying().(*types.Struct)
			if !ok || hasMutex(st) {
				continue
			}
			other := map[*types.Named]bool{}
			for i := 0; i < st.NumFields(); i++ {
				mention(st.Field(i).Type(), 0, other)
			}
			for t := range other {
				if t != n.Origin() {
					delete(a.ownedBy, t)
				}
			}
		}
	}
	for t := range a.ownedBy {
		sort.Strings(a.ownedBy[t])
	}
}
