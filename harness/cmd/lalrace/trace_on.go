//go:build locktrace

package main

import (
	"os"

	"github.com/q191201771/lal/pkg/veriftrace"
)

// built only by gen/c20.py with -overlay (veriftrace lives in the overlay)
func dumpLockTrace() {
	if p := os.Getenv("LALRACE_TRACE_OUT"); p != "" {
		if f, err := os.Create(p); err == nil {
			veriftrace.Dump(f)
			f.Close()
		}
	}
}
