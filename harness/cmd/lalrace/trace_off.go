//go:build !locktrace

package main

func dumpLockTrace() {}
