// lalrace: churn scenario for the Go race detector (C20, thorough tier only).
// NOT a proof: failing-schedule search.  Build with `go build -race`.
//
// One in-process lal server (random free ports, HLS on the in-memory file
// system); for LALRACE_SECONDS seconds it is hit concurrently by RTMP
// publishers (re-publishing, duplicate publishing), RTMP / HTTP-FLV / HTTP-TS /
// RTSP / HLS subscribers that come and go, a customize-pub session, GB28181
// start_rtp_pub sessions with a packet dump, relay pull, the HTTP API (stat,
// kick, start/stop relay pull, blacklist) and direct ILalServer calls; then the
// server is disposed (while the sessions are still being closed; several server lifetimes per run,
// http-notify posting to a local sink).  Data races are printed by the runtime on stderr; an API
// call that does not answer within 8 s is reported as STUCK (exit 3).
//
// With -tags locktrace (and the build overlay made by gen/c20.py, which turns
// lal's sync.Mutex fields into tracing mutexes) the same scenario records every
// nested acquisition that really happens; gen/c20.py checks that each one is an
// edge of the translator's graph.
package main

import (
	"bytes"
	"encoding/json"
	"fmt"
	"io"
	"math/rand"
	"net"
	"net/http"
	"os"
	"path/filepath"
	"runtime"
	"sync"
	"sync/atomic"
	"time"

	"github.com/q191201771/lal/pkg/aac"
	"github.com/q191201771/lal/pkg/avc"
	"github.com/q191201771/lal/pkg/base"
	"github.com/q191201771/lal/pkg/httpflv"
	"github.com/q191201771/lal/pkg/logic"
	"github.com/q191201771/lal/pkg/remux"
	"github.com/q191201771/lal/pkg/rtmp"
	"github.com/q191201771/lal/pkg/rtprtcp"
	"github.com/q191201771/lal/pkg/rtsp"
	"github.com/q191201771/lal/pkg/sdp"
)

var (
	sps = []byte{0x67, 0x64, 0x00, 0x20, 0xAC, 0xD9, 0x40, 0xC0, 0x29, 0xB0, 0x11, 0x00, 0x00, 0x03, 0x00, 0x01, 0x00, 0x00, 0x03, 0x00, 0x32, 0x0F, 0x18, 0x31, 0x96}
	pps = []byte{0x68, 0xEB, 0xEC, 0xB2, 0x2C}
	asc = []byte{0x12, 0x10}

	cnt struct{ pub, pubFail, sub, api, kick, rtp, custom, aimed, tickAfterDispose, statReads int64 }
	// deadline of the current server lifetime (unix ns); the main goroutine moves it while the workers poll it
	endNs atomic.Int64

	// arrival times of the periodic on_update notification: one per tick of ServerManager.RunLoop
	updMu    sync.Mutex
	updTimes []time.Time
)

func freePort() int {
	l, err := net.Listen("tcp", "127.0.0.1:0")
	if err != nil {
		panic(err)
	}
	defer l.Close()
	return l.Addr().(*net.TCPAddr).Port
}

func alive() bool { return time.Now().UnixNano() < endNs.Load() }

// nextTick predicts the first tick of the server's 1 s ticker at or after t from the arrival times of the
// on_update notifications (each is sent right after a tick; the least delayed one gives the phase)
func nextTick(t time.Time) (time.Time, bool) {
	updMu.Lock()
	defer updMu.Unlock()
	if len(updTimes) < 2 {
		return time.Time{}, false
	}
	ref := updTimes[0]
	min := time.Duration(0)
	for _, a := range updTimes {
		off := a.Sub(ref) % time.Second
		if off > time.Second/2 {
			off -= time.Second
		}
		if off < min {
			min = off
		}
	}
	tick := ref.Add(min)
	for tick.Before(t) {
		tick = tick.Add(time.Second)
	}
	return tick, true
}

// ghosts leaves n groups without any session behind (a subscriber of a stream nobody publishes comes and goes):
// the next tick finds them inactive and disposes them
func ghosts(httpPort, n int) {
	var conns []net.Conn
	for i := 0; i < n; i++ {
		c, err := net.DialTimeout("tcp", fmt.Sprintf("127.0.0.1:%d", httpPort), time.Second)
		if err != nil {
			continue
		}
		fmt.Fprintf(c, "GET /live/ghost%d.flv HTTP/1.1\r\nHost: 127.0.0.1\r\n\r\n", i)
		conns = append(conns, c)
	}
	time.Sleep(60 * time.Millisecond)
	for _, c := range conns {
		c.Close()
	}
}

func sleepMs(r *rand.Rand, lo, hi int) {
	time.Sleep(time.Duration(lo+r.Intn(hi-lo+1)) * time.Millisecond)
}

func videoMsg(ts uint32, key bool, seq bool) base.RtmpMsg {
	var p []byte
	if seq {
		p, _ = avc.BuildSeqHeaderFromSpsPps(sps, pps)
	} else {
		nal := make([]byte, 200)
		if key {
			nal[0] = 0x65
		} else {
			nal[0] = 0x41
		}
		for i := 1; i < len(nal); i++ {
			nal[i] = byte(i*7 + int(ts))
		}
		p = make([]byte, 5+4+len(nal))
		if key {
			p[0] = 0x17
		} else {
			p[0] = 0x27
		}
		p[1] = 1
		p[5], p[6], p[7], p[8] = 0, 0, 0, byte(len(nal))
		copy(p[9:], nal)
	}
	return base.RtmpMsg{Header: base.RtmpHeader{Csid: rtmp.CsidVideo, MsgLen: uint32(len(p)), MsgTypeId: base.RtmpTypeIdVideo, MsgStreamId: rtmp.Msid1, TimestampAbs: ts}, Payload: p}
}

func audioMsg(ts uint32, seq bool) base.RtmpMsg {
	var p []byte
	if seq {
		p, _ = aac.MakeAudioDataSeqHeaderWithAsc(asc)
	} else {
		p = make([]byte, 2+64)
		p[0], p[1] = 0xaf, 1
		for i := 2; i < len(p); i++ {
			p[i] = byte(i + int(ts))
		}
	}
	return base.RtmpMsg{Header: base.RtmpHeader{Csid: rtmp.CsidAudio, MsgLen: uint32(len(p)), MsgTypeId: base.RtmpTypeIdAudio, MsgStreamId: rtmp.Msid1, TimestampAbs: ts}, Payload: p}
}

func publisher(r *rand.Rand, url string) {
	for alive() {
		s := rtmp.NewPushSession(func(o *rtmp.PushSessionOption) { o.PushTimeoutMs = 3000; o.WriteAvTimeoutMs = 3000 })
		if err := s.Push(url); err != nil {
			atomic.AddInt64(&cnt.pubFail, 1)
			sleepMs(r, 20, 120)
			continue
		}
		atomic.AddInt64(&cnt.pub, 1)
		_ = s.WriteMsg(videoMsg(0, true, true))
		_ = s.WriteMsg(audioMsg(0, true))
		dur := 200 + r.Intn(1500)
		ts := uint32(0)
		stop := time.Now().Add(time.Duration(dur) * time.Millisecond)
		n := 0
		for time.Now().Before(stop) && alive() {
			if err := s.WriteMsg(videoMsg(ts, n%10 == 0, false)); err != nil {
				break
			}
			_ = s.WriteMsg(audioMsg(ts, false))
			_ = s.Flush()
			ts += 40
			n++
			time.Sleep(4 * time.Millisecond)
		}
		_ = s.Dispose()
		sleepMs(r, 10, 200)
	}
}

// rtsp publisher: rtmp messages -> Rtmp2RtspRemuxer -> rtsp.PushSession (UDP or interleaved)
func rtspPublisher(r *rand.Rand, url string) {
	for alive() {
		ps := rtsp.NewPushSession(func(o *rtsp.PushSessionOption) { o.PushTimeoutMs = 3000; o.OverTcp = r.Intn(2) == 0 })
		started := false
		failed := false
		remuxer := remux.NewRtmp2RtspRemuxer(
			func(sdpCtx sdp.LogicContext) {
				if err := ps.WithSdpLogicContext(sdpCtx).Start(url); err != nil {
					failed = true
					return
				}
				started = true
				atomic.AddInt64(&cnt.pub, 1)
			},
			func(pkt rtprtcp.RtpPacket) {
				if started {
					_ = ps.WriteRtpPacket(pkt)
				}
			})
		remuxer.FeedRtmpMsg(videoMsg(0, true, true))
		remuxer.FeedRtmpMsg(audioMsg(0, true))
		ts := uint32(0)
		stop := time.Now().Add(time.Duration(300+r.Intn(1200)) * time.Millisecond)
		n := 0
		for time.Now().Before(stop) && alive() && !failed {
			remuxer.FeedRtmpMsg(videoMsg(ts, n%10 == 0, false))
			remuxer.FeedRtmpMsg(audioMsg(ts, false))
			ts += 40
			n++
			time.Sleep(4 * time.Millisecond)
		}
		_ = ps.Dispose()
		if failed {
			atomic.AddInt64(&cnt.pubFail, 1)
		}
		sleepMs(r, 10, 200)
	}
}

type rtspObs struct{}

func (rtspObs) OnSdp(sdpCtx sdp.LogicContext)     {}
func (rtspObs) OnRtpPacket(pkt rtprtcp.RtpPacket) {}
func (rtspObs) OnAvPacket(pkt base.AvPacket)      {}

func subscriber(r *rand.Rand, kind int, rtmpPort, httpPort, rtspPort int, stream string) {
	hc := &http.Client{Timeout: 3 * time.Second}
	for alive() {
		hold := time.Duration(100+r.Intn(900)) * time.Millisecond
		switch kind {
		case 0:
			s := rtmp.NewPullSession(func(o *rtmp.PullSessionOption) { o.PullTimeoutMs = 3000; o.ReadAvTimeoutMs = 3000 })
			s.WithOnReadRtmpAvMsg(func(msg base.RtmpMsg) {})
			if s.Pull(fmt.Sprintf("rtmp://127.0.0.1:%d/live/%s", rtmpPort, stream)) == nil {
				atomic.AddInt64(&cnt.sub, 1)
				time.Sleep(hold)
			}
			_ = s.Dispose()
		case 1:
			s := httpflv.NewPullSession(func(o *httpflv.PullSessionOption) { o.PullTimeoutMs = 3000; o.ReadTimeoutMs = 3000 })
			if s.Pull(fmt.Sprintf("http://127.0.0.1:%d/live/%s.flv", httpPort, stream), func(tag httpflv.Tag) {}) == nil {
				atomic.AddInt64(&cnt.sub, 1)
				time.Sleep(hold)
			}
			_ = s.Dispose()
		case 2:
			hc2 := &http.Client{Timeout: hold}
			if resp, err := hc2.Get(fmt.Sprintf("http://127.0.0.1:%d/live/%s.ts", httpPort, stream)); err == nil {
				atomic.AddInt64(&cnt.sub, 1)
				_, _ = io.Copy(io.Discard, resp.Body)
				resp.Body.Close()
			}
		case 3:
			s := rtsp.NewPullSession(rtspObs{}, func(o *rtsp.PullSessionOption) { o.PullTimeoutMs = 3000; o.OverTcp = r.Intn(2) == 0 })
			if s.Pull(fmt.Sprintf("rtsp://127.0.0.1:%d/live/%s", rtspPort, stream)) == nil {
				atomic.AddInt64(&cnt.sub, 1)
				time.Sleep(hold)
			}
			_ = s.Dispose()
		case 4:
			if resp, err := hc.Get(fmt.Sprintf("http://127.0.0.1:%d/hls/%s.m3u8", httpPort, stream)); err == nil {
				atomic.AddInt64(&cnt.sub, 1)
				_, _ = io.Copy(io.Discard, resp.Body)
				resp.Body.Close()
			}
			time.Sleep(hold / 4)
		}
		sleepMs(r, 5, 100)
	}
}

var apiClient = &http.Client{Timeout: 8 * time.Second}

func api(apiPort int, path string, body interface{}, out interface{}) {
	var resp *http.Response
	var err error
	u := fmt.Sprintf("http://127.0.0.1:%d%s", apiPort, path)
	if body == nil {
		resp, err = apiClient.Get(u)
	} else {
		b, _ := json.Marshal(body)
		resp, err = apiClient.Post(u, "application/json", bytes.NewReader(b))
	}
	if err != nil {
		if ne, ok := err.(net.Error); ok && ne.Timeout() && alive() {
			fmt.Printf("lalrace: STUCK api %s did not answer within 8s\n", path)
			os.Exit(3)
		}
		return
	}
	atomic.AddInt64(&cnt.api, 1)
	b, _ := io.ReadAll(resp.Body)
	resp.Body.Close()
	if out != nil {
		_ = json.Unmarshal(b, out)
	}
}

func apiWorker(r *rand.Rand, apiPort, rtmpPort int, tmp string) {
	for alive() {
		switch r.Intn(7) {
		case 0:
			api(apiPort, "/api/stat/lal_info", nil, nil)
		case 1, 2:
			var all base.ApiStatAllGroupResp
			api(apiPort, "/api/stat/all_group", nil, &all)
			for _, g := range all.Data.Groups {
				ids := []string{g.StatPub.SessionId, g.StatPull.SessionId}
				for _, s := range g.StatSubs {
					ids = append(ids, s.SessionId)
				}
				for _, id := range ids {
					if id != "" && r.Intn(6) == 0 {
						api(apiPort, "/api/ctrl/kick_session", base.ApiCtrlKickSessionReq{StreamName: g.StreamName, SessionId: id}, nil)
						atomic.AddInt64(&cnt.kick, 1)
					}
				}
			}
		case 3:
			api(apiPort, "/api/stat/group?stream_name=s0", nil, nil)
		case 4:
			api(apiPort, "/api/ctrl/start_relay_pull", base.ApiCtrlStartRelayPullReq{
				Url: fmt.Sprintf("rtmp://127.0.0.1:%d/live/s0", rtmpPort), StreamName: "relay0", PullTimeoutMs: 2000, PullRetryNum: 0, AutoStopPullAfterNoOutMs: -1}, nil)
		case 5:
			api(apiPort, "/api/ctrl/stop_relay_pull?stream_name=relay0", nil, nil)
		case 6:
			api(apiPort, "/api/ctrl/add_ip_blacklist", base.ApiCtrlAddIpBlacklistReq{Ip: "10.9.8.7", DurationSec: 1}, nil)
		}
		sleepMs(r, 5, 60)
	}
}

// GB28181: start_rtp_pub (UDP and TCP) with a packet dump, junk packets, a second
// start on the same stream, kick while packets arrive
func rtpPubWorker(r *rand.Rand, apiPort int, tmp string) {
	i := 0
	for alive() {
		i++
		name := fmt.Sprintf("ps%d", i%2)
		tcp := i%2 == 0
		flag := 0
		if tcp {
			flag = 1
		}
		var resp base.ApiCtrlStartRtpPubResp
		api(apiPort, "/api/ctrl/start_rtp_pub", base.ApiCtrlStartRtpPubReq{StreamName: name, Port: 0, TimeoutMs: 1000, IsTcpFlag: flag,
			DebugDumpPacket: filepath.Join(tmp, fmt.Sprintf("%s_%d.dump", name, i))}, &resp)
		if resp.Data.Port == 0 {
			sleepMs(r, 50, 150)
			continue
		}
		atomic.AddInt64(&cnt.rtp, 1)
		network := "udp"
		if tcp {
			network = "tcp"
		}
		c, err := net.Dial(network, fmt.Sprintf("127.0.0.1:%d", resp.Data.Port))
		if err != nil {
			continue
		}
		done := make(chan struct{})
		go func() {
			// shorter than an RTP header: dropped by the unpacker, but seen by the dump hook
			pkt := []byte{0x80, 0x60, 0, 0, 0, 0, 0, 1}
			if tcp {
				pkt = append([]byte{0, 8}, pkt...)
			}
			for j := 0; j < 400; j++ {
				if _, err := c.Write(pkt); err != nil {
					break
				}
				time.Sleep(500 * time.Microsecond)
			}
			close(done)
		}()
		sleepMs(r, 20, 120)
		if r.Intn(3) == 0 {
			// a second start on the same stream while the first session is still reading
			var resp2 base.ApiCtrlStartRtpPubResp
			api(apiPort, "/api/ctrl/start_rtp_pub", base.ApiCtrlStartRtpPubReq{StreamName: name, Port: 0, TimeoutMs: 1000,
				DebugDumpPacket: filepath.Join(tmp, fmt.Sprintf("%s_%d_b.dump", name, i))}, &resp2)
			if resp2.Data.SessionId != "" {
				sleepMs(r, 5, 30)
				api(apiPort, "/api/ctrl/kick_session", base.ApiCtrlKickSessionReq{StreamName: name, SessionId: resp2.Data.SessionId}, nil)
			}
		}
		api(apiPort, "/api/ctrl/kick_session", base.ApiCtrlKickSessionReq{StreamName: name, SessionId: resp.Data.SessionId}, nil)
		<-done
		c.Close()
		sleepMs(r, 20, 100)
	}
}

func customizeWorker(r *rand.Rand, lals logic.ILalServer) {
	for alive() {
		s, err := lals.AddCustomizePubSession("c0")
		if err != nil {
			sleepMs(r, 20, 100)
			continue
		}
		atomic.AddInt64(&cnt.custom, 1)
		ts := uint32(0)
		for j := 0; j < 50+r.Intn(100) && alive(); j++ {
			if j == 0 {
				_ = s.FeedRtmpMsg(videoMsg(0, true, true))
				_ = s.FeedRtmpMsg(audioMsg(0, true))
			}
			_ = s.FeedRtmpMsg(videoMsg(ts, j%10 == 0, false))
			ts += 40
			time.Sleep(2 * time.Millisecond)
		}
		lals.DelCustomizePubSession(s)
		sleepMs(r, 10, 100)
	}
}

// statReader issues stat requests that overlap with those of its twin (and of the api workers, the tick's
// group dump and the update notification) and reads every entry of the answer after the call returned:
// what GetStat hands out must not share memory with the group. Counted when >= 2 subscribers were attached
func statReader(r *rand.Rand, lals logic.ILalServer) {
	var sink int
	for alive() {
		for _, name := range []string{"s0", "s1"} {
			if sg := lals.StatGroup(name); sg != nil {
				runtime.Gosched() // let the twin's request in before the entries are read
				for _, s := range sg.StatSubs {
					sink += len(s.SessionId) + int(s.WroteBytesSum) + len(s.RemoteAddr)
				}
				for _, f := range sg.Fps {
					sink += int(f.V)
				}
				if len(sg.StatSubs) >= 2 {
					atomic.AddInt64(&cnt.statReads, 1)
				}
			}
		}
		for _, sg := range lals.StatAllGroup() {
			for _, s := range sg.StatSubs {
				sink += len(s.SessionId)
			}
		}
		sleepMs(r, 0, 3)
	}
	_ = sink
}

func directWorker(r *rand.Rand, lals logic.ILalServer) {
	for alive() {
		_ = lals.StatAllGroup()
		_ = lals.StatGroup("s0")
		_ = lals.StatLalInfo()
		sleepMs(r, 3, 40)
	}
}

// notifySink answers every http-notify post; the notify path (taskQueue, worker goroutine) is then live
func notifySink() string {
	l, err := net.Listen("tcp", "127.0.0.1:0")
	if err != nil {
		panic(err)
	}
	go func() {
		_ = http.Serve(l, http.HandlerFunc(func(w http.ResponseWriter, r *http.Request) {
			if r.URL.Path == "/on_update" {
				now := time.Now()
				updMu.Lock()
				updTimes = append(updTimes, now)
				updMu.Unlock()
			}
			_, _ = io.Copy(io.Discard, r.Body)
			w.WriteHeader(http.StatusOK)
		}))
	}()
	return "http://" + l.Addr().String()
}

func main() {
	secs := 20
	if v := os.Getenv("LALRACE_SECONDS"); v != "" {
		fmt.Sscanf(v, "%d", &secs)
	}
	seed := int64(1)
	if v := os.Getenv("LALRACE_SEED"); v != "" {
		fmt.Sscanf(v, "%d", &seed)
	}
	cycle := 6
	if v := os.Getenv("LALRACE_CYCLE_SECONDS"); v != "" {
		fmt.Sscanf(v, "%d", &cycle)
	}
	tmp, err := os.MkdirTemp("", "lalrace")
	if err != nil {
		panic(err)
	}
	defer os.RemoveAll(tmp)
	sink := notifySink()
	// several server lifetimes: each ends with Dispose while the sessions of that lifetime are still
	// being torn down (their stop notifications are in flight)
	cycles := 0
	for left := secs; left > 0; left -= cycle {
		d := cycle
		if left < cycle {
			d = left
		}
		runCycle(seed+int64(cycles)*7919, d, tmp, sink)
		cycles++
	}
	dumpLockTrace()
	fmt.Printf("lalrace: %ds seed=%d server_lifetimes=%d publishes=%d (refused %d) subscriptions=%d api_calls=%d kicks=%d rtp_pub=%d customize_pub=%d dispose_aimed_at_tick=%d tick_ran_after_dispose=%d overlapping_stat_reads_with_2_subs=%d\n",
		secs, seed, cycles, cnt.pub, cnt.pubFail, cnt.sub, cnt.api, cnt.kick, cnt.rtp, cnt.custom, cnt.aimed, cnt.tickAfterDispose, cnt.statReads)
}

func runCycle(seed int64, secs int, tmp string, sink string) {
	rtmpPort, httpPort, rtspPort, apiPort := freePort(), freePort(), freePort(), freePort()
	conf := fmt.Sprintf(`{
 "conf_version": "v0.4.1",
 "rtmp": {"enable": true, "addr": "127.0.0.1:%d", "gop_num": 1, "single_gop_max_frame_num": 0, "merge_write_size": 4096},
 "in_session": {"add_dummy_audio_enable": false, "add_dummy_audio_wait_audio_ms": 150},
 "default_http": {"http_listen_addr": "127.0.0.1:%d"},
 "httpflv": {"enable": true, "url_pattern": "/", "gop_num": 1},
 "hls": {"enable": true, "url_pattern": "/hls/", "out_path": "%s/hls/", "fragment_duration_ms": 500, "fragment_num": 3, "delete_threshold": 2, "cleanup_mode": 2, "use_memory_as_disk_flag": true, "sub_session_timeout_ms": 1000, "sub_session_hash_key": "k"},
 "httpts": {"enable": true, "url_pattern": "/", "gop_num": 1},
 "rtsp": {"enable": true, "addr": "127.0.0.1:%d", "out_wait_key_frame_flag": true},
 "record": {"enable_flv": false, "enable_mpegts": false},
 "relay_push": {"enable": false, "addr_list": []},
 "static_relay_pull": {"enable": false, "addr": ""},
 "http_api": {"enable": true, "addr": "127.0.0.1:%d"},
 "server_id": "race",
 "http_notify": {"enable": true, "update_interval_sec": 1, "on_update": "%[7]s/on_update", "on_pub_start": "%[7]s/on_pub_start", "on_pub_stop": "%[7]s/on_pub_stop", "on_sub_start": "%[7]s/on_sub_start", "on_sub_stop": "%[7]s/on_sub_stop", "on_relay_pull_start": "%[7]s/on_relay_pull_start", "on_relay_pull_stop": "%[7]s/on_relay_pull_stop", "on_rtmp_connect": "%[7]s/on_rtmp_connect", "on_server_start": "%[7]s/on_server_start", "on_hls_make_ts": "%[7]s/on_hls_make_ts"},
 "simple_auth": {"key": "k"},
 "pprof": {"enable": false},
 "log": {"level": 5, "filename": "%[6]s/lal.log", "is_to_stdout": false, "is_rotate_daily": false, "short_file_flag": false, "assert_behavior": 1},
 "debug": {"log_group_interval_sec": 1, "log_group_max_group_num": 10, "log_group_max_sub_num_per_group": 10}
}`, rtmpPort, httpPort, tmp, rtspPort, apiPort, tmp, sink)

	lals := logic.NewLalServer(func(o *logic.Option) { o.ConfRawContent = []byte(conf) })
	runDone := make(chan error, 1)
	go func() { runDone <- lals.RunLoop() }()
	for i := 0; i < 100; i++ {
		if c, err := net.Dial("tcp", fmt.Sprintf("127.0.0.1:%d", apiPort)); err == nil {
			c.Close()
			break
		}
		time.Sleep(50 * time.Millisecond)
	}
	updMu.Lock()
	updTimes = nil
	updMu.Unlock()
	end := time.Now().Add(time.Duration(secs) * time.Second)
	endNs.Store(end.UnixNano())

	var wg sync.WaitGroup
	n := int64(0)
	spawn := func(f func(r *rand.Rand)) {
		wg.Add(1)
		n++
		r := rand.New(rand.NewSource(seed*1000 + n))
		go func() { defer wg.Done(); f(r) }()
	}
	url := func(s string) string { return fmt.Sprintf("rtmp://127.0.0.1:%d/live/%s", rtmpPort, s) }
	spawn(func(r *rand.Rand) { publisher(r, url("s0")) })
	spawn(func(r *rand.Rand) { publisher(r, url("s0")) }) // duplicate publisher on the same stream
	spawn(func(r *rand.Rand) { publisher(r, url("s1")) })
	spawn(func(r *rand.Rand) { rtspPublisher(r, fmt.Sprintf("rtsp://127.0.0.1:%d/live/r0", rtspPort)) })
	spawn(func(r *rand.Rand) { subscriber(r, 0, rtmpPort, httpPort, rtspPort, "r0") })
	spawn(func(r *rand.Rand) { subscriber(r, 3, rtmpPort, httpPort, rtspPort, "r0") })
	for kind := 0; kind < 5; kind++ {
		k := kind
		spawn(func(r *rand.Rand) { subscriber(r, k, rtmpPort, httpPort, rtspPort, "s0") })
		spawn(func(r *rand.Rand) { subscriber(r, k, rtmpPort, httpPort, rtspPort, "s1") })
	}
	spawn(func(r *rand.Rand) { subscriber(r, 0, rtmpPort, httpPort, rtspPort, "relay0") })
	spawn(func(r *rand.Rand) { subscriber(r, 1, rtmpPort, httpPort, rtspPort, "c0") })
	spawn(func(r *rand.Rand) { apiWorker(r, apiPort, rtmpPort, tmp) })
	spawn(func(r *rand.Rand) { apiWorker(r, apiPort, rtmpPort, tmp) })
	spawn(func(r *rand.Rand) { rtpPubWorker(r, apiPort, tmp) })
	spawn(func(r *rand.Rand) { customizeWorker(r, lals) })
	spawn(func(r *rand.Rand) { directWorker(r, lals) })
	spawn(func(r *rand.Rand) { statReader(r, lals) })
	spawn(func(r *rand.Rand) { statReader(r, lals) })

	allDone := make(chan struct{})
	go func() { wg.Wait(); close(allDone) }()
	// shutdown starts at the deadline, while the workers are still closing their sessions.
	// The deadline is moved next to a tick of ServerManager.RunLoop: Dispose then holds the server mutex when the
	// tick fires, the tick queues behind it and runs after it, and it finds groups without sessions (the ghosts)
	// that Dispose has disposed already
	aimed := false
	if secs >= 4 {
		time.Sleep(time.Until(end.Add(-1300 * time.Millisecond)))
		if tick, ok := nextTick(end.Add(-300 * time.Millisecond)); ok {
			leads := []int{300, 700, 1200, 2000, 3000, 4500, 6500, 9000}
			lead := time.Duration(leads[rand.New(rand.NewSource(seed)).Intn(len(leads))]) * time.Microsecond
			time.Sleep(time.Until(tick.Add(-650 * time.Millisecond)))
			ghosts(httpPort, 12)
			end = tick.Add(-lead)
			endNs.Store(end.Add(-time.Millisecond).UnixNano())
			time.Sleep(time.Until(end.Add(-20 * time.Millisecond)))
			aimed = lals.StatGroup("ghost0") != nil
			if aimed {
				cnt.aimed++
			}
			for time.Now().Before(end) { // the last stretch without the scheduler's sleep granularity
				if time.Until(end) > 2*time.Millisecond {
					time.Sleep(time.Millisecond)
				}
			}
		}
	}
	time.Sleep(time.Until(end))
	disposed := make(chan struct{})
	go func() { lals.Dispose(); close(disposed) }()
	select {
	case <-disposed:
	case <-time.After(20 * time.Second):
		fmt.Printf("lalrace: STUCK Dispose did not return within 20s\n")
		os.Exit(3)
	}
	select {
	case <-allDone:
	case <-time.After(25 * time.Second):
		fmt.Printf("lalrace: STUCK workers did not finish %ds after the deadline\n", 25)
		os.Exit(3)
	}
	select {
	case <-runDone:
	case <-time.After(10 * time.Second):
		fmt.Printf("lalrace: STUCK RunLoop did not return within 10s after Dispose\n")
		os.Exit(3)
	}
	// the ghosts were there right before Dispose and Dispose erases nothing: a tick reaped them after it
	if aimed && lals.StatGroup("ghost0") == nil {
		cnt.tickAfterDispose++
	}
}
