package main

import (
	"bytes"
	"fmt"
	"io/ioutil"
	"os"
	"strings"

	"github.com/q191201771/lal/pkg/base"
	"github.com/q191201771/lal/pkg/httpflv"
)

type tagSpec struct {
	t       uint8
	ts      uint32
	payload []byte
}

func parseTags(s string) []tagSpec {
	if s == "-" {
		return nil
	}
	var out []tagSpec
	for _, item := range strings.Split(s, ",") {
		f := strings.Split(item, ":")
		if len(f) != 3 {
			panic("bad tag item")
		}
		out = append(out, tagSpec{uint8(numTok(f[0])), uint32(numTok(f[1])), bytesTok(f[2])})
	}
	return out
}

func showTag(t httpflv.Tag) string {
	return fmt.Sprintf("%s:%s:%s:%s", tokNum(uint64(t.Header.Type)), tokNum(uint64(t.Header.DataSize)),
		tokNum(uint64(t.Header.Timestamp)), tokBytes(t.Raw))
}

func init() {

	register("c11.pack", func(a []string) string {
		return tokBytes(httpflv.PackHttpflvTag(uint8(numTok(a[0])), uint32(numTok(a[1])), bytesTok(a[2])))
	})
	register("c11.read", func(a []string) string {
		rd := bytes.NewReader(bytesTok(a[0]))
		tag, err := httpflv.ReadTag(rd)
		if err != nil {
			return "err"
		}
		rest, _ := ioutil.ReadAll(rd)
		return fmt.Sprintf("ok %s %s %s", showTag(tag), tokBytes(tag.Payload()), tokBytes(rest))
	})
	register("c11.modts", func(a []string) string {
		t, ts, p := uint8(numTok(a[0])), uint32(numTok(a[1])), bytesTok(a[2])
		tag := httpflv.Tag{Header: httpflv.TagHeader{Type: t, DataSize: uint32(len(p)), Timestamp: ts}, Raw: httpflv.PackHttpflvTag(t, ts, p)}
		out := []string{showTag(tag)}
		for _, x := range strings.Split(a[3], ",") {
			tag.ModTagTimestamp(uint32(numTok(x)))
			out = append(out, showTag(tag))
		}
		return strings.Join(out, ",")
	})
	register("c11.file", func(a []string) string {
		tags := parseTags(a[0])
		f, err := ioutil.TempFile("", "lalprobe-flv-")
		if err != nil {
			panic(err)
		}
		name := f.Name()
		// a file of that name already exists and is longer than the recording will be (a stream re-published
		// within the same second reuses <stream>-<unix sec>.flv): nothing of it may survive
		old := 13 + 4096
		for _, t := range tags {
			old += 15 + len(t.payload)
		}
		_, _ = f.Write(bytes.Repeat([]byte{0xab}, old))
		f.Close()
		defer os.Remove(name)
		var w httpflv.FlvFileWriter
		if err := w.Open(name); err != nil {
			panic(err)
		}
		_ = w.WriteFlvHeader()
		for _, t := range tags {
			raw := httpflv.PackHttpflvTag(t.t, t.ts, t.payload)
			_ = w.WriteTag(httpflv.Tag{Raw: raw})
		}
		_ = w.Dispose()
		content, _ := ioutil.ReadFile(name)
		var r httpflv.FlvFileReader
		if err := r.Open(name); err != nil {
			panic(err)
		}
		defer r.Dispose()
		var back []string
		for {
			tag, err := r.ReadTag()
			if err != nil {
				break
			}
			back = append(back, showTag(tag))
		}
		bs := "-"
		if len(back) > 0 {
			bs = strings.Join(back, ",")
		}
		return fmt.Sprintf("%s %d %s", tokBytes(content), len(back), bs)
	})
	register("c11.wshdr", func(a []string) string {
		h := base.WsHeader{
			Fin: boolTok(a[0]), Rsv1: boolTok(a[1]), Rsv2: boolTok(a[2]), Rsv3: boolTok(a[3]),
			Opcode: uint8(numTok(a[4])), PayloadLength: numTok(a[5]), Masked: boolTok(a[6]), MaskKey: uint32(numTok(a[7])),
		}
		return tokBytes(base.MakeWsFrameHeader(h))
	})
	register("c11.sub", func(a []string) string {
		ws := boolTok(a[0])
		tags := parseTags(a[1])
		conn := newFakeConn(nil)
		old := httpflv.SubSessionWriteChanSize
		httpflv.SubSessionWriteChanSize = 0 // synchronous writes for this session only
		s := httpflv.NewSubSession(conn, base.UrlContext{}, ws, "key")
		httpflv.SubSessionWriteChanSize = old
		s.WriteFlvHeader()
		for _, t := range tags {
			raw := httpflv.PackHttpflvTag(t.t, t.ts, t.payload)
			s.WriteTag(&httpflv.Tag{Raw: raw})
		}
		out := conn.all()
		n := conn.numWrites()
		_ = s.Dispose()
		return fmt.Sprintf("%s %d", tokBytes(out), n)
	})
}
