package main

import (
	"bytes"
	"crypto/md5"
	"fmt"
	"io/ioutil"
	"os"
	"strings"
	"time"

	"github.com/q191201771/lal/pkg/base"
	"github.com/q191201771/lal/pkg/httpflv"
	"github.com/q191201771/lal/pkg/logic"
)

type tagSpec struct {
	t       uint8
	ts      uint32
	payload []byte
}

func parseTags(s string) []tagSpec {
	if s == "-" {
		return nil
	}
	var out []tagSpec
	for _, item := range strings.Split(s, ",") {
		f := strings.Split(item, ":")
		if len(f) != 3 {
			panic("bad tag item")
		}
		out = append(out, tagSpec{uint8(numTok(f[0])), uint32(numTok(f[1])), bytesTok(f[2])})
	}
	return out
}

func showTag(t httpflv.Tag) string {
	return fmt.Sprintf("%s:%s:%s:%s", tokNum(uint64(t.Header.Type)), tokNum(uint64(t.Header.DataSize)),
		tokNum(uint64(t.Header.Timestamp)), tokBytes(t.Raw))
}

func c11Scribble(b []byte) {
	b = b[:cap(b)]
	for i := range b {
		b[i] = 0x5a
	}
}

// digest of a byte string that may be large: length, md5, first and last 64 bytes
func c11Digest(b []byte) string {
	head, tail := b, b
	if len(b) > 64 {
		head, tail = b[:64], b[len(b)-64:]
	}
	return fmt.Sprintf("%s:%x:%s:%s", tokNum(uint64(len(b))), md5.Sum(b), hexOf(head), hexOf(tail))
}

// c11.rec <mode> <tags>: a recording through FlvFileWriter as lal's callers make it, read back with FlvFileReader.
// mode tag  = WriteFlvHeader + WriteTag            (pullrtmp demo, innertest)
//
//	raw  = WriteFlvHeader + WriteRaw per tag    (logic.Group recording path)
//	rawh = WriteRaw(FlvHeader) + WriteRaw       (pullrtsp / modflvfile demos)
//	mix  = WriteFlvHeader, WriteTag and WriteRaw alternating
//
// Output in digest form (tags of 256 KiB, 1 MiB ...): file digest, number of tags read back, (type:size:ts:digest of raw).
func c11Rec(a []string) string {
	mode := a[0]
	tags := parseTags(a[1])
	f, err := ioutil.TempFile("", "lalprobe-flvrec-")
	if err != nil {
		panic(err)
	}
	name := f.Name()
	old := 13 + 4096
	for _, t := range tags {
		old += 15 + len(t.payload)
	}
	_, _ = f.Write(bytes.Repeat([]byte{0xab}, old))
	f.Close()
	defer os.Remove(name)
	var w httpflv.FlvFileWriter
	if err := w.Open(name); err != nil {
		panic(err)
	}
	var errs []string
	note := func(what string, err error) {
		if err != nil {
			errs = append(errs, what)
		}
	}
	if mode == "rawh" {
		note("hdr", w.WriteRaw(httpflv.FlvHeader))
	} else {
		note("hdr", w.WriteFlvHeader())
	}
	for i, t := range tags {
		raw := httpflv.PackHttpflvTag(t.t, t.ts, t.payload)
		if mode == "tag" || (mode == "mix" && i%2 == 0) {
			note("tag", w.WriteTag(httpflv.Tag{Raw: raw}))
		} else {
			note("raw", w.WriteRaw(raw))
		}
		// the caller's buffer is reused for the next message: the writer must not hold on to it
		c11Scribble(raw)
	}
	note("dispose", w.Dispose())
	if len(errs) > 0 {
		return "err-write " + strings.Join(errs, ",")
	}
	content, _ := ioutil.ReadFile(name)
	var r httpflv.FlvFileReader
	if err := r.Open(name); err != nil {
		panic(err)
	}
	defer r.Dispose()
	var back []string
	for {
		tag, err := r.ReadTag()
		if err != nil {
			break
		}
		back = append(back, fmt.Sprintf("%s:%s:%s:%s", tokNum(uint64(tag.Header.Type)), tokNum(uint64(tag.Header.DataSize)),
			tokNum(uint64(tag.Header.Timestamp)), c11Digest(tag.Raw)))
	}
	bs := "-"
	if len(back) > 0 {
		bs = strings.Join(back, ",")
	}
	return fmt.Sprintf("%s %d %s", c11Digest(content), len(back), bs)
}

func init() {
	register("c11.rec", c11Rec)

	register("c11.pack", func(a []string) string {
		// the packed tag is held (gop cache, send queues) while the function packs the next message and the payload
		// buffer is reused: it is printed only after another tag of the same size was packed and both payloads and
		// the later result were overwritten
		t, ts, p := uint8(numTok(a[0])), uint32(numTok(a[1])), bytesTok(a[2])
		r1 := httpflv.PackHttpflvTag(t, ts, p)
		p2 := make([]byte, len(p))
		for i := range p2 {
			p2[i] = p[i] ^ 0xff
		}
		r2 := httpflv.PackHttpflvTag(t^1, ts+1, p2)
		c11Scribble(p)
		c11Scribble(p2)
		c11Scribble(r2)
		return tokBytes(r1)
	})
	register("c11.read", func(a []string) string {
		in := bytesTok(a[0])
		rd := bytes.NewReader(in)
		tag, err := httpflv.ReadTag(rd)
		if err != nil {
			return "err"
		}
		rest, _ := ioutil.ReadAll(rd)
		// the tag read must not share memory with the source buffer, nor with the tag read next
		in2 := make([]byte, len(in))
		for i := range in2 {
			in2[i] = in[i] ^ 0xff
		}
		if len(in2) >= 4 {
			copy(in2[1:4], in[1:4]) // same data size
		}
		if tag2, err := httpflv.ReadTag(bytes.NewReader(in2)); err == nil {
			c11Scribble(tag2.Raw)
		}
		c11Scribble(in)
		c11Scribble(in2)
		return fmt.Sprintf("ok %s %s %s", showTag(tag), tokBytes(tag.Payload()), tokBytes(rest))
	})
	register("c11.modts", func(a []string) string {
		t, ts, p := uint8(numTok(a[0])), uint32(numTok(a[1])), bytesTok(a[2])
		tag := httpflv.Tag{Header: httpflv.TagHeader{Type: t, DataSize: uint32(len(p)), Timestamp: ts}, Raw: httpflv.PackHttpflvTag(t, ts, p)}
		out := []string{showTag(tag)}
		for _, x := range strings.Split(a[3], ",") {
			tag.ModTagTimestamp(uint32(numTok(x)))
			out = append(out, showTag(tag))
		}
		return strings.Join(out, ",")
	})
	register("c11.file", func(a []string) string {
		tags := parseTags(a[0])
		f, err := ioutil.TempFile("", "lalprobe-flv-")
		if err != nil {
			panic(err)
		}
		name := f.Name()
		// a file of that name already exists and is longer than the recording will be (a stream re-published
		// within the same second reuses <stream>-<unix sec>.flv): nothing of it may survive
		old := 13 + 4096
		for _, t := range tags {
			old += 15 + len(t.payload)
		}
		_, _ = f.Write(bytes.Repeat([]byte{0xab}, old))
		f.Close()
		defer os.Remove(name)
		var w httpflv.FlvFileWriter
		// the writer value has been used for an earlier recording (a writer kept across inputs): the second
		// recording must be complete on its own
		if f0, err := ioutil.TempFile("", "lalprobe-flv0-"); err == nil {
			n0 := f0.Name()
			f0.Close()
			if w.Open(n0) == nil {
				_ = w.WriteFlvHeader()
				_ = w.WriteTag(httpflv.Tag{Raw: httpflv.PackHttpflvTag(8, 0, []byte{0xaf, 0x01, 0x00})})
				_ = w.Dispose()
			}
			os.Remove(n0)
		}
		if err := w.Open(name); err != nil {
			panic(err)
		}
		_ = w.WriteFlvHeader()
		for _, t := range tags {
			raw := httpflv.PackHttpflvTag(t.t, t.ts, t.payload)
			_ = w.WriteTag(httpflv.Tag{Raw: raw})
			c11Scribble(raw) // the caller reuses its buffer
		}
		_ = w.Dispose()
		content, _ := ioutil.ReadFile(name)
		var r httpflv.FlvFileReader
		if err := r.Open(name); err != nil {
			panic(err)
		}
		defer r.Dispose()
		var back []string
		for {
			tag, err := r.ReadTag()
			if err != nil {
				break
			}
			back = append(back, showTag(tag))
		}
		bs := "-"
		if len(back) > 0 {
			bs = strings.Join(back, ",")
		}
		return fmt.Sprintf("%s %d %s", tokBytes(content), len(back), bs)
	})
	register("c11.wshdr", func(a []string) string {
		h := base.WsHeader{
			Fin: boolTok(a[0]), Rsv1: boolTok(a[1]), Rsv2: boolTok(a[2]), Rsv3: boolTok(a[3]),
			Opcode: uint8(numTok(a[4])), PayloadLength: numTok(a[5]), Masked: boolTok(a[6]), MaskKey: uint32(numTok(a[7])),
		}
		return tokBytes(base.MakeWsFrameHeader(h))
	})
	// c11.joinrace <ws> <joiners>: HTTP-FLV subscribers join a real Group while a publisher goroutine keeps
	// broadcasting: whatever the interleaving, each subscriber's byte stream starts with the HTTP response
	// (101 upgrade for WebSocket) and, as the first body unit, the FLV header - no tag may overtake them
	register("c11.joinrace", func(a []string) string {
		ws := boolTok(a[0])
		n := int(numTok(a[1]))
		var cfg logic.Config
		cfg.RtmpConfig.Enable = true
		cfg.HttpflvConfig.Enable = true
		group := logic.NewGroup("live", "s", &cfg, logic.GroupOption{}, nopGroupObserver{})
		stop := make(chan struct{})
		done := make(chan struct{})
		go func() {
			defer close(done)
			ts := uint32(0)
			for {
				select {
				case <-stop:
					return
				default:
				}
				var m base.RtmpMsg
				m.Header.MsgTypeId = base.RtmpTypeIdAudio
				m.Header.Csid = 4
				m.Header.MsgStreamId = 1
				m.Header.TimestampAbs = ts
				m.Payload = []byte{0x72, byte(ts), byte(ts >> 8), 0x55} // G.711: no codec state, never withheld
				m.Header.MsgLen = uint32(len(m.Payload))
				group.OnReadRtmpAvMsg(m)
				ts++
			}
		}()
		var conns []*fakeConn
		for i := 0; i < n; i++ {
			conn := newFakeConn(nil)
			s := httpflv.NewSubSession(conn, base.UrlContext{}, ws, "key")
			conns = append(conns, conn)
			group.AddHttpflvSubSession(s)
			time.Sleep(200 * time.Microsecond)
		}
		time.Sleep(5 * time.Millisecond)
		close(stop)
		<-done
		bad := 0
		first := ""
		for _, c := range conns {
			// writes are queued in order: wait until the header writes have reached the connection
			deadline := time.Now().Add(5 * time.Second)
			for len(c.all()) < 64 && time.Now().Before(deadline) {
				time.Sleep(time.Millisecond)
			}
			b := c.all()
			ok := false
			if i := bytes.Index(b, []byte("\r\n\r\n")); i > 0 && bytes.HasPrefix(b, []byte("HTTP/1.1 ")) {
				body := b[i+4:]
				if ws && len(body) >= 2 {
					body = body[2:] // one small binary frame header in front of the FLV header
				}
				ok = bytes.HasPrefix(body, httpflv.FlvHeader)
			}
			if !ok {
				bad++
				if first == "" {
					k := len(b)
					if k > 48 {
						k = 48
					}
					first = tokBytes(b[:k])
				}
			}
		}
		group.Dispose()
		if bad > 0 {
			return fmt.Sprintf("bad %d %s", bad, first)
		}
		return "ok"
	})
	register("c11.sub", func(a []string) string {
		ws := boolTok(a[0])
		tags := parseTags(a[1])
		conn := newFakeConn(nil)
		old := httpflv.SubSessionWriteChanSize
		httpflv.SubSessionWriteChanSize = 0 // synchronous writes for this session only
		s := httpflv.NewSubSession(conn, base.UrlContext{}, ws, "key")
		httpflv.SubSessionWriteChanSize = old
		s.WriteFlvHeader()
		for _, t := range tags {
			raw := httpflv.PackHttpflvTag(t.t, t.ts, t.payload)
			s.WriteTag(&httpflv.Tag{Raw: raw})
		}
		out := conn.all()
		n := conn.numWrites()
		_ = s.Dispose()
		return fmt.Sprintf("%s %d", tokBytes(out), n)
	})
}
