// lalprobe: runs the real lal code on the same text cases as modelrun.
// One case per input line "<op> <arg>..."; one output line per case.
package main

import (
	"bufio"
	"fmt"
	"os"
	"runtime"
	"strings"

	"github.com/q191201771/naza/pkg/nazalog"
)

type opFunc func(args []string) string

var ops = map[string]opFunc{}

func register(name string, f opFunc) { ops[name] = f }

// panicSite returns "panic@<pkg.Func>:<kind>" for the innermost lal (or naza)
// frame of the current panic stack.
func panicSite(r interface{}) string {
	kind := "explicit"
	msg := fmt.Sprint(r)
	switch {
	case strings.Contains(msg, "index out of range"):
		kind = "index"
	case strings.Contains(msg, "slice bounds out of range"):
		kind = "slice"
	case strings.Contains(msg, "nil pointer"):
		kind = "nil"
	case strings.Contains(msg, "divide by zero"):
		kind = "divide"
	case strings.Contains(msg, "makeslice") || strings.Contains(msg, "len out of range"):
		kind = "makeslice"
	case strings.Contains(msg, "nil map"):
		kind = "nilmap"
	}
	pcs := make([]uintptr, 64)
	n := runtime.Callers(3, pcs)
	frames := runtime.CallersFrames(pcs[:n])
	site := "?"
	for {
		fr, more := frames.Next()
		fn := fr.Function
		if strings.Contains(fn, "q191201771/lal/") || strings.Contains(fn, "q191201771/naza/") {
			i := strings.LastIndex(fn, "/")
			site = fn[i+1:]
			break
		}
		if !more {
			break
		}
	}
	return "panic@" + site + ":" + kind
}

func runOne(f opFunc, args []string) (out string) {
	defer func() {
		if r := recover(); r != nil {
			out = panicSite(r)
		}
	}()
	return f(args)
}

func main() {
	_ = nazalog.Init(func(o *nazalog.Option) {
		o.IsToStdout = false
		o.Level = nazalog.LevelError
	})
	if len(os.Args) > 1 && os.Args[1] == "--ops" {
		for k := range ops {
			fmt.Println(k)
		}
		return
	}
	rd := bufio.NewReaderSize(os.Stdin, 1<<20)
	wr := bufio.NewWriterSize(os.Stdout, 1<<20)
	defer wr.Flush()
	for {
		line, err := rd.ReadString('\n')
		if len(line) == 0 && err != nil {
			break
		}
		line = strings.TrimSpace(line)
		if line == "" || line[0] == '#' {
			fmt.Fprintln(wr, "#")
		} else {
			toks := strings.Fields(line)
			f, ok := ops[toks[0]]
			if !ok {
				fmt.Fprintln(wr, "unknown-op "+toks[0])
			} else {
				fmt.Fprintln(wr, runOne(f, toks[1:]))
			}
		}
		wr.Flush()
		if err != nil {
			break
		}
	}
}
