package main

// C15 runtime part (measured, not proved): real loopback TCP sockets, one
// HTTP-FLV consumer that never reads, one that reads everything, both attached
// to a real logic.Group.  Reports the publisher-side latency of every fan-out
// call and when the stalled consumer was disconnected by its write deadline.

import (
	"fmt"
	"io"
	"net"
	"sort"
	"sync/atomic"
	"time"

	"github.com/q191201771/lal/pkg/base"
	"github.com/q191201771/lal/pkg/httpflv"
	"github.com/q191201771/lal/pkg/logic"
)

// c15.rt <messages> <payload bytes> <write timeout ms> <pace us>
func c15Rt(a []string) string {
	nMsg, size, wto, paceUs := intTok(a[0]), intTok(a[1]), intTok(a[2]), intTok(a[3])
	ln, err := net.Listen("tcp", "127.0.0.1:0")
	if err != nil {
		return "err listen"
	}
	defer ln.Close()
	accept := func() (client net.Conn, server net.Conn) {
		ch := make(chan net.Conn, 1)
		go func() { c, _ := ln.Accept(); ch <- c }()
		client, err := net.Dial("tcp", ln.Addr().String())
		if err != nil {
			panic(err)
		}
		return client, <-ch
	}
	oldChan, oldWto := httpflv.SubSessionWriteChanSize, httpflv.SubSessionWriteTimeoutMs
	httpflv.SubSessionWriteChanSize = c15FlvChanDefault
	httpflv.SubSessionWriteTimeoutMs = wto
	defer func() { httpflv.SubSessionWriteChanSize, httpflv.SubSessionWriteTimeoutMs = oldChan, oldWto }()

	cfg := &logic.Config{}
	cfg.RtmpConfig.Enable = true
	cfg.HttpflvConfig.Enable = true
	g := logic.NewGroup("live", "c15rt", cfg, logic.GroupOption{}, c15GroupObserver{})

	stalledClient, stalledServer := accept()
	healthyClient, healthyServer := accept()
	defer stalledClient.Close()
	defer healthyClient.Close()
	if tc, ok := stalledClient.(*net.TCPConn); ok {
		_ = tc.SetReadBuffer(4096)
	}
	stalled := httpflv.NewSubSession(stalledServer, base.UrlContext{}, false, "")
	healthy := httpflv.NewSubSession(healthyServer, base.UrlContext{}, false, "")
	g.AddHttpflvSubSession(stalled)
	g.AddHttpflvSubSession(healthy)

	start := time.Now()
	var stalledGoneNs int64
	go func() {
		_ = stalled.RunLoop() // returns when the connection is closed
		atomic.StoreInt64(&stalledGoneNs, int64(time.Since(start)))
	}()
	var healthyBytes int64
	go func() {
		buf := make([]byte, 1<<16)
		for {
			n, err := healthyClient.Read(buf)
			atomic.AddInt64(&healthyBytes, int64(n))
			if err != nil {
				return
			}
		}
	}()

	payload := make([]byte, size)
	payload[0], payload[1] = 0x17, 0x01
	lats := make([]int64, 0, nMsg)
	var sent int64
	for i := 0; i < nMsg; i++ {
		var msg base.RtmpMsg
		msg.Header.MsgTypeId = 9
		msg.Header.TimestampAbs = uint32(i)
		msg.Header.MsgLen = uint32(size)
		msg.Header.MsgStreamId = 1
		msg.Payload = payload
		t0 := time.Now()
		g.OnReadRtmpAvMsg(msg)
		lats = append(lats, int64(time.Since(t0)))
		sent += int64(size + 15)
		if paceUs > 0 {
			time.Sleep(time.Duration(paceUs) * time.Microsecond)
		}
	}
	pubDone := time.Since(start)
	// give the write deadline time to fire and the healthy reader time to finish
	deadline := time.Now().Add(time.Duration(wto)*time.Millisecond + 10*time.Second)
	expect := sent + 13 + int64(len(base.LalFlvHttpResponseHeader))
	for time.Now().Before(deadline) {
		if atomic.LoadInt64(&stalledGoneNs) != 0 && atomic.LoadInt64(&healthyBytes) >= expect {
			break
		}
		time.Sleep(10 * time.Millisecond)
	}
	_ = healthy.Dispose()
	_ = stalled.Dispose()
	_, _ = io.Copy(io.Discard, stalledClient)

	sort.Slice(lats, func(i, j int) bool { return lats[i] < lats[j] })
	p := func(q float64) int64 { return lats[int(float64(len(lats)-1)*q)] / 1000 }
	gone := atomic.LoadInt64(&stalledGoneNs)
	goneMs := int64(-1)
	if gone != 0 {
		goneMs = gone / 1e6
	}
	return fmt.Sprintf("n=%d size=%d wto_ms=%d pub_ms=%d lat_p50_us=%d lat_p99_us=%d lat_max_us=%d stalled_gone_ms=%d healthy_bytes=%d healthy_expected=%d",
		nMsg, size, wto, pubDone.Milliseconds(), p(0.5), p(0.99), lats[len(lats)-1]/1000, goneMs,
		atomic.LoadInt64(&healthyBytes), expect)
}

func init() {
	register("c15.rt", c15Rt)
}
