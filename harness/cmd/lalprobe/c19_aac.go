package main

// C19, part C: AAC AudioSpecificConfig / ADTS header / FLV sequence header on
// the real lal code.

import (
	"fmt"

	"github.com/q191201771/lal/pkg/aac"
)

func c19AscCtx(a, s, c string) aac.AscContext {
	return aac.AscContext{AudioObjectType: uint8(numTok(a)), SamplingFrequencyIndex: uint8(numTok(s)), ChannelConfiguration: uint8(numTok(c))}
}

func c19ShowAsc(c *aac.AscContext) string {
	return c19Nums(uint64(c.AudioObjectType), uint64(c.SamplingFrequencyIndex), uint64(c.ChannelConfiguration))
}

func c19ShowAdts(c *aac.AdtsHeaderContext) string {
	return c19ShowAsc(&c.AscCtx) + "," + tokNum(uint64(c.AdtsLength))
}

func c19Bytes(b []byte, err error) string {
	if err != nil {
		return c19ErrName(err)
	}
	return "ok " + tokBytes(b)
}

func init() {
	register("c19.asc_unpack", func(a []string) string {
		return c19Safe(func() string {
			in := bytesTok(a[0])
			c, err := aac.NewAscContext(in)
			var c2 aac.AscContext
			err2 := c2.Unpack(in)
			if (err == nil) != (err2 == nil) || (err == nil && *c != c2) {
				return "unpack-differs"
			}
			if err != nil {
				return c19ErrName(err)
			}
			return "ok " + c19ShowAsc(c)
		})
	})
	register("c19.asc_pack", func(a []string) string {
		return c19Safe(func() string {
			c := c19AscCtx(a[0], a[1], a[2])
			return tokBytes(c.Pack())
		})
	})
	register("c19.adts_pack", func(a []string) string {
		return c19Safe(func() string {
			c := c19AscCtx(a[0], a[1], a[2])
			return tokBytes(c.PackAdtsHeader(int(numTok(a[3]))))
		})
	})
	register("c19.adts_pack_to", func(a []string) string {
		return c19Safe(func() string {
			c := c19AscCtx(a[0], a[1], a[2])
			out := append([]byte{}, bytesTok(a[4])...)
			if err := c.PackToAdtsHeader(out, int(numTok(a[3]))); err != nil {
				return c19ErrName(err)
			}
			return "ok " + tokBytes(out)
		})
	})
	register("c19.adts_unpack", func(a []string) string {
		return c19Safe(func() string {
			in := bytesTok(a[0])
			c, err := aac.NewAdtsHeaderContext(in)
			var c2 aac.AdtsHeaderContext
			err2 := c2.Unpack(in)
			if (err == nil) != (err2 == nil) || (err == nil && *c != c2) {
				return "unpack-differs"
			}
			if err != nil {
				return c19ErrName(err)
			}
			return "ok " + c19ShowAdts(c)
		})
	})
	register("c19.asc_of_adts", func(a []string) string {
		return c19Safe(func() string { return c19Bytes(aac.MakeAscWithAdtsHeader(bytesTok(a[0]))) })
	})
	register("c19.aac_freq", func(a []string) string {
		return c19Safe(func() string {
			c := c19AscCtx("0", a[0], "0")
			f, err := c.GetSamplingFrequency()
			if err != nil {
				if f != -1 {
					return "err-with-value"
				}
				return c19ErrName(err)
			}
			return "ok " + tokNum(uint64(f))
		})
	})
	register("c19.aac_seqh_unpack", func(a []string) string {
		return c19Safe(func() string {
			var s aac.SequenceHeaderContext
			s.Unpack(bytesTok(a[0]))
			return c19Nums(uint64(s.SoundFormat), uint64(s.SoundRate), uint64(s.SoundSize), uint64(s.SoundType), uint64(s.AacPacketType))
		})
	})
	register("c19.aac_seqh_asc", func(a []string) string {
		return c19Safe(func() string { return c19Bytes(aac.MakeAudioDataSeqHeaderWithAsc(bytesTok(a[0]))) })
	})
	register("c19.aac_seqh_adts", func(a []string) string {
		return c19Safe(func() string { return c19Bytes(aac.MakeAudioDataSeqHeaderWithAdtsHeader(bytesTok(a[0]))) })
	})
	register("c19.aac_rt", func(a []string) string {
		return c19Safe(func() string {
			c, err := aac.NewAscContext(bytesTok(a[0]))
			if err != nil {
				return c19ErrName(err)
			}
			h := c.PackAdtsHeader(int(numTok(a[1])))
			u := c19Safe(func() string {
				hc, err := aac.NewAdtsHeaderContext(h)
				if err != nil {
					return c19ErrName(err)
				}
				return "ok " + c19ShowAdts(hc)
			})
			return fmt.Sprintf("ok %s | %s | %s | %s | %s", c19ShowAsc(c), tokBytes(h), u,
				c19Safe(func() string { return c19Bytes(aac.MakeAscWithAdtsHeader(h)) }),
				c19Safe(func() string { return c19Bytes(aac.MakeAudioDataSeqHeaderWithAdtsHeader(h)) }))
		})
	})
}
