package main

// C06 end to end: a real logic.Group with HTTP-TS, HLS and RTSP enabled.
//
//	c06.e2e <fragMs>:<hls 0|1>:<rtsp 0|1>[:<wk 0|1>:<tsgop>] <ev>;<ev>;...
//
// wk = RtspConfig.OutWaitKeyFrameFlag, tsgop = HttptsConfig.GopNum (both 0 when left out).
//
// events
//
//	M:<type>:<ts>:<payload>     a message of the RTMP publisher (Group.OnReadRtmpAvMsg)
//	I:<acodec>:<rate>:<payload> metadata message
//	Jt:<id>                     an HTTP-TS subscriber joins
//	Jr:<id>                     an RTSP subscriber (interleaved) joins: DESCRIBE as soon as the group has an
//	                            SDP (retried after every message), then SETUP both tracks and PLAY
//
// The publisher is attached before the first event and leaves after the last one
// (Rtmp2MpegtsRemuxer.Dispose, hls.Muxer.Dispose).  hls.Clock shows the index of the
// current event (ms); the HLS files go to a recording in-memory file-system layer.
//
// output: ts<id>=<bytes after the HTTP response header> | hlsops=<op>;<op>;... (every call of hls.Muxer on the
// file system layer, format of c10.run) | sdp<id>=<bytes> rtp<id>=<channel>.<packet>,...  with sequence
// numbers relative to the first packet the subscriber got on the track and SSRC zeroed.

import (
	"bytes"
	"fmt"
	"sort"
	"strings"

	"github.com/q191201771/lal/pkg/base"
	"github.com/q191201771/lal/pkg/hls"
	"github.com/q191201771/lal/pkg/httpts"
	"github.com/q191201771/lal/pkg/logic"
	"github.com/q191201771/lal/pkg/rtmp"
	"github.com/q191201771/lal/pkg/rtsp"
	"github.com/q191201771/lal/pkg/sdp"
	"github.com/q191201771/naza/pkg/filesystemlayer"
)

type c06RtspSub struct {
	id      uint64
	conn    *fakeConn
	sub     *rtsp.SubSession
	sdp     []byte
	playing bool
}

func c06SplitInterleaved(b []byte) []string {
	var out []string
	first := map[byte]int{}
	seen := map[byte]bool{}
	for len(b) >= 4 && b[0] == '$' {
		ch := b[1]
		l := int(b[2])<<8 | int(b[3])
		if len(b) < 4+l {
			break
		}
		pkt := append([]byte{}, b[4:4+l]...)
		if l >= 12 {
			seq := int(pkt[2])<<8 | int(pkt[3])
			if !seen[ch] {
				seen[ch] = true
				first[ch] = seq
			}
			rel := (seq - first[ch]) & 0xffff
			pkt[2], pkt[3] = byte(rel>>8), byte(rel)
			pkt[8], pkt[9], pkt[10], pkt[11] = 0, 0, 0, 0
		}
		out = append(out, fmt.Sprintf("%d.%s", ch, hexOf(pkt)))
		b = b[4+l:]
	}
	if len(b) > 0 {
		out = append(out, "?"+hexOf(b))
	}
	return out
}

func init() {
	register("c06.e2e", func(a []string) string {
		cf := strings.Split(a[0], ":")
		oldTs := httpts.SubSessionWriteChanSize
		httpts.SubSessionWriteChanSize = 0
		oldRtsp := rtsp.VerifC15SetCmdWriteChanSize(0)
		oldTool := base.LalPackSdp
		base.LalPackSdp = "lal-c06"
		mem := filesystemlayer.NewFslMemory()
		fsl := &c10Fsl{inner: mem, closed: map[string]bool{}}
		oldFsl := hls.VerifSetFileSystemLayer(fsl)
		clk := &c10Clock{}
		oldClock := hls.Clock
		hls.Clock = clk
		defer func() {
			httpts.SubSessionWriteChanSize = oldTs
			rtsp.VerifC15SetCmdWriteChanSize(oldRtsp)
			base.LalPackSdp = oldTool
			hls.VerifSetFileSystemLayer(oldFsl)
			hls.Clock = oldClock
		}()

		var cfg logic.Config
		cfg.HttptsConfig.Enable = true
		cfg.HttptsConfig.GopNum = 0
		wk := false
		if len(cf) >= 5 {
			wk = boolTok(cf[3])
			cfg.HttptsConfig.GopNum = intTok(cf[4])
		}
		if boolTok(cf[1]) {
			cfg.HlsConfig.Enable = true
			cfg.HlsConfig.MuxerConfig = hls.MuxerConfig{OutPath: c10Root, FragmentDurationMs: intTok(cf[0]), FragmentNum: 1000, DeleteThreshold: 1000, CleanupMode: 0}
		}
		if boolTok(cf[2]) {
			cfg.RtspConfig.Enable = true
			cfg.RtspConfig.OutWaitKeyFrameFlag = wk
		}
		group := logic.NewGroup("live", "s", &cfg, logic.GroupOption{}, nopGroupObserver{})
		pubConn := newFakeConn(nil)
		pub := rtmp.NewServerSession(nopRtmpObserver{}, pubConn)
		if err := group.AddRtmpPubSession(pub); err != nil {
			return "err-add-pub"
		}

		type tsSub struct {
			id   uint64
			conn *fakeConn
			s    *httpts.SubSession
		}
		var tsSubs []*tsSub
		var rtspSubs []*c06RtspSub

		tryRtsp := func() {
			for _, r := range rtspSubs {
				if r.playing {
					continue
				}
				// a session that describes before the group has an SDP is parked until the SDP arrives and is
				// answered through its command session; the harness only attaches once the SDP exists
				probe := rtsp.NewSubSession(base.UrlContext{}, nil)
				_, have := group.HandleNewRtspSubSessionDescribe(probe)
				group.DelRtspSubSession(probe)
				if have == nil {
					continue
				}
				_, raw := group.HandleNewRtspSubSessionDescribe(r.sub)
				if raw == nil {
					continue
				}
				r.sdp = append([]byte{}, raw...)
				ctx, err := sdp.ParseSdp2LogicContext(raw)
				if err != nil {
					r.playing = true // nothing to set up
					continue
				}
				r.sub.InitWithSdp(ctx)
				if ctx.HasVideoAControl() {
					_ = r.sub.SetupWithChannel(ctx.MakeVideoSetupUri("rtsp://h/live/s"), 0, 1)
				}
				if ctx.HasAudioAControl() {
					_ = r.sub.SetupWithChannel(ctx.MakeAudioSetupUri("rtsp://h/live/s"), 2, 3)
				}
				r.sub.Stage.Store(rtsp.SubSessionStageReadPlay)
				group.HandleNewRtspSubSessionPlay(r.sub)
				r.playing = true
			}
		}

		recv := c06RecvBufs{}
		if a[1] != "-" {
			for i, e := range strings.Split(a[1], ";") {
				f := strings.Split(e, ":")
				clk.ms = int64(i)
				switch f[0] {
				case "M":
					recv.feed(c06Msg(f[1], f[2], f[3]), group.OnReadRtmpAvMsg)
				case "I":
					recv.feed(c06Msg("18", "0", f[3]), group.OnReadRtmpAvMsg)
				case "Jt":
					c := &tsSub{id: numTok(f[1]), conn: newFakeConn(nil)}
					c.s = httpts.NewSubSession(c.conn, base.UrlContext{}, false, "k")
					group.AddHttptsSubSession(c.s)
					tsSubs = append(tsSubs, c)
				case "Jr":
					r := &c06RtspSub{id: numTok(f[1]), conn: newFakeConn(nil)}
					cmd := rtsp.NewServerCommandSession(nil, r.conn, rtsp.ServerAuthConfig{}, false, "")
					r.sub = rtsp.NewSubSession(base.UrlContext{}, cmd)
					rtspSubs = append(rtspSubs, r)
				default:
					return "bad-event " + e
				}
				tryRtsp()
			}
		}
		clk.ms++
		group.DelRtmpPubSession(pub)
		pubConn.Close()

		var parts []string
		sort.Slice(tsSubs, func(i, j int) bool { return tsSubs[i].id < tsSubs[j].id })
		for _, c := range tsSubs {
			b := c.conn.all()
			if !bytes.HasPrefix(b, base.LalTsHttpResponseHeader) {
				parts = append(parts, fmt.Sprintf("ts%d=?nohdr", c.id))
			} else {
				parts = append(parts, fmt.Sprintf("ts%d=%s", c.id, hexOf(b[len(base.LalTsHttpResponseHeader):])))
			}
		}
		if boolTok(cf[1]) {
			// every call hls.Muxer made on the file system layer, in order (segment writes, play lists, renames)
			ops := "none"
			if len(fsl.log) > 0 {
				ops = strings.Join(fsl.log, ";")
			}
			parts = append(parts, "hlsops="+ops)
		}
		sort.Slice(rtspSubs, func(i, j int) bool { return rtspSubs[i].id < rtspSubs[j].id })
		for _, r := range rtspSubs {
			parts = append(parts, fmt.Sprintf("sdp%d=%s", r.id, hexOf(r.sdp)))
			pk := c06SplitInterleaved(r.conn.all())
			if len(pk) == 0 {
				pk = []string{"none"}
			}
			parts = append(parts, fmt.Sprintf("rtp%d=%s", r.id, strings.Join(pk, ",")))
		}
		for _, c := range tsSubs {
			c.conn.Close()
		}
		for _, r := range rtspSubs {
			r.conn.Close()
		}
		if len(parts) == 0 {
			return "-"
		}
		return strings.Join(parts, "|")
	})
}
