package main

// C10: hls.Muxer driven directly over a RECORDING file-system layer.
//
//	c10.run <stream> <fragMs>:<fragNum>:<delThr>:<cleanup> <ev>,<ev>,...
//
// events (what logic.Group does with its hlsMuxer):
//
//	N                                  startHlsIfNeeded: NewMuxer + Start (ignored while one is alive)
//	P:<bytes>                          FeedPatPmt
//	A|V:<pts>:<dts>:<boundary>:<now>:<bytes>   FeedMpegts (audio / video frame); hls.Clock shows <now> ms
//	D                                  stopHlsIfNeeded: Dispose, muxer := nil
//	C                                  the deferred task of ServerManager.CleanupHlsIfNeeded: RemoveAll(outPath) unless a muxer is alive
//
// output: "ops <op>;<op>;... files <name>=<c|o>:<hex>,..."  (every call on the layer, in order)

import (
	"fmt"
	"sort"
	"strings"
	"sync"
	"sync/atomic"
	"time"

	"github.com/q191201771/lal/pkg/hls"
	"github.com/q191201771/lal/pkg/mpegts"
	"github.com/q191201771/naza/pkg/filesystemlayer"
	"github.com/q191201771/naza/pkg/mock"
)

type c10Clock struct{ ms int64 }

func (c *c10Clock) Now() time.Time                       { return time.Unix(0, c.ms*1000000) }
func (c *c10Clock) NewTimer(d time.Duration) *mock.Timer { return nil }
func (c *c10Clock) Sleep(d time.Duration)                {}
func (c *c10Clock) Add(d time.Duration)                  {}
func (c *c10Clock) Set(t time.Time)                      {}

type c10Fsl struct {
	mu     sync.Mutex
	inner  filesystemlayer.IFileSystemLayer
	log    []string
	closed map[string]bool
	raDone int32 // RemoveAll calls that have returned (c10.sm waits for the delayed cleanup to be complete)
}

func (l *c10Fsl) add(s string) {
	l.mu.Lock()
	l.log = append(l.log, s)
	l.mu.Unlock()
}

type c10File struct {
	l    *c10Fsl
	name string
	f    filesystemlayer.IFile
}

func (f *c10File) Write(b []byte) (int, error) {
	f.l.add("wr:"+f.name+":"+hexOf(b))
	return f.f.Write(b)
}

func (f *c10File) Close() error {
	f.l.add("cl:"+f.name)
	f.l.closed[f.name] = true
	return f.f.Close()
}

func (l *c10Fsl) Type() filesystemlayer.FslType { return filesystemlayer.FslTypeMemory }

func (l *c10Fsl) Create(name string) (filesystemlayer.IFile, error) {
	l.add("cr:"+name)
	f, err := l.inner.Create(name)
	if err != nil {
		return nil, err
	}
	l.closed[name] = false
	return &c10File{l, name, f}, nil
}

func (l *c10Fsl) Rename(o string, n string) error {
	l.add("rn:"+o+":"+n)
	err := l.inner.Rename(o, n)
	if err == nil {
		l.closed[n] = l.closed[o]
		delete(l.closed, o)
	}
	return err
}

func (l *c10Fsl) MkdirAll(path string, perm uint32) error {
	l.add("mk:"+path)
	return l.inner.MkdirAll(path, perm)
}

func (l *c10Fsl) Remove(name string) error {
	l.add("rm:"+name)
	return l.inner.Remove(name)
}

func (l *c10Fsl) RemoveAll(path string) error {
	l.add("ra:"+path)
	err := l.inner.RemoveAll(path)
	atomic.AddInt32(&l.raDone, 1)
	return err
}

func (l *c10Fsl) ReadFile(name string) ([]byte, error) {
	b, err := l.inner.ReadFile(name)
	if err != nil {
		l.add("rd:"+name+":0")
	} else {
		l.add("rd:"+name+":1")
	}
	return b, err
}

func (l *c10Fsl) WriteFile(name string, data []byte, perm uint32) error {
	l.add("wf:"+name+":"+hexOf(data))
	err := l.inner.WriteFile(name, data, perm)
	if err == nil {
		l.closed[name] = true
	}
	return err
}

const c10Root = "/v"

func init() {
	register("c10.run", func(a []string) string {
		stream := a[0]
		cf := strings.Split(a[1], ":")
		cfg := &hls.MuxerConfig{
			OutPath:            c10Root,
			FragmentDurationMs: intTok(cf[0]),
			FragmentNum:        intTok(cf[1]),
			DeleteThreshold:    intTok(cf[2]),
			CleanupMode:        intTok(cf[3]),
		}
		mem := filesystemlayer.NewFslMemory()
		fsl := &c10Fsl{inner: mem, closed: map[string]bool{}}
		old := hls.VerifSetFileSystemLayer(fsl)
		clk := &c10Clock{}
		oldClock := hls.Clock
		hls.Clock = clk
		defer func() {
			hls.VerifSetFileSystemLayer(old)
			hls.Clock = oldClock
		}()
		var m *hls.Muxer
		outPath := hls.PathStrategy.GetMuxerOutPath(c10Root, stream)
		evs := []string{}
		if a[2] != "-" {
			evs = strings.Split(a[2], ",")
		}
		for _, ev := range evs {
			f := strings.Split(ev, ":")
			switch f[0] {
			case "N":
				if m == nil {
					m = hls.NewMuxer(stream, cfg, nil)
					m.Start()
				}
			case "P":
				if m != nil {
					m.FeedPatPmt(bytesTok(f[1]))
				}
			case "A", "V":
				if m != nil {
					fr := &mpegts.Frame{Pts: numTok(f[1]), Dts: numTok(f[2]), Sid: mpegts.StreamIdVideo, Pid: mpegts.PidVideo}
					if f[0] == "A" {
						fr.Sid = mpegts.StreamIdAudio
						fr.Pid = mpegts.PidAudio
					}
					clk.ms = int64(numTok(f[4]))
					m.FeedMpegts(bytesTok(f[5]), fr, boundaryTok(f[3]))
				}
			case "D":
				if m != nil {
					m.Dispose()
					m = nil
				}
			case "C":
				// ServerManager.CleanupHlsIfNeeded's deferred task: spare a live stream
				// (scheduled only in cleanup modes 1 and 2)
				if m == nil && (cfg.CleanupMode == hls.CleanupModeInTheEnd || cfg.CleanupMode == hls.CleanupModeAsap) {
					_ = hls.RemoveAll(outPath)
				}
			default:
				panic("bad event " + ev)
			}
		}
		// final directory
		names := []string{}
		for n := range fsl.closed {
			if _, err := mem.ReadFile(n); err == nil {
				names = append(names, n)
			}
		}
		sort.Strings(names)
		files := []string{}
		for _, n := range names {
			b, _ := mem.ReadFile(n)
			st := "o"
			if fsl.closed[n] {
				st = "c"
			}
			files = append(files, fmt.Sprintf("%s=%s:%s", n, st, hexOf(b)))
		}
		ops := "-"
		if len(fsl.log) > 0 {
			ops = strings.Join(fsl.log, ";")
		}
		fl := "-"
		if len(files) > 0 {
			fl = strings.Join(files, ",")
		}
		return "ops " + ops + " files " + fl
	})
}

func boundaryTok(s string) bool { return s == "1" }
