package main

// C12: RTP packetise / depacketise, reorder container, sequence arithmetic.

import (
	"fmt"
	"strings"

	"github.com/q191201771/lal/pkg/base"
	"github.com/q191201771/lal/pkg/rtprtcp"
)

type c12Frame struct {
	ms    int64
	units [][]byte
}

// frames: ms@unit|unit;ms@unit
func c12ParseFrames(s string) []c12Frame {
	if s == "-" {
		return nil
	}
	var out []c12Frame
	for _, fs := range strings.Split(s, ";") {
		f := strings.SplitN(fs, "@", 2)
		if len(f) != 2 {
			panic("bad frame")
		}
		fr := c12Frame{ms: int64(numTok(f[0]))}
		for _, u := range strings.Split(f[1], "|") {
			fr.units = append(fr.units, bytesTok(u))
		}
		out = append(out, fr)
	}
	return out
}

func c12Avcc(units [][]byte) []byte {
	out := []byte{}
	for _, u := range units {
		n := len(u)
		out = append(out, byte(n>>24), byte(n>>16), byte(n>>8), byte(n))
		out = append(out, u...)
	}
	return out
}

// kind -> payload packer, payload type, unpack protocol payload type
func c12Packer(kind string) (rtprtcp.IRtpPackerPayload, base.AvPacketPt, bool) {
	switch kind {
	case "avc":
		return rtprtcp.NewRtpPackerPayloadAvc(), base.AvPacketPtAvc, false
	case "hevc":
		return rtprtcp.NewRtpPackerPayloadHevc(), base.AvPacketPtHevc, false
	case "avcf":
		return rtprtcp.NewRtpPackerPayloadAvc(func(o *rtprtcp.RtpPackerPayloadAvcHevcOption) {
			o.Typ = rtprtcp.RtpPackerPayloadAvcHevcTypeAvcc
		}), base.AvPacketPtAvc, true
	case "hevcf":
		return rtprtcp.NewRtpPackerPayloadHevc(func(o *rtprtcp.RtpPackerPayloadAvcHevcOption) {
			o.Typ = rtprtcp.RtpPackerPayloadAvcHevcTypeAvcc
		}), base.AvPacketPtHevc, true
	case "aac":
		return rtprtcp.NewRtpPackerPayloadAac(), base.AvPacketPtAac, false
	case "pcma":
		return rtprtcp.NewRtpPackerPayloadPcm(), base.AvPacketPtG711A, false
	case "pcmu":
		return rtprtcp.NewRtpPackerPayloadPcm(), base.AvPacketPtG711U, false
	case "opus":
		return rtprtcp.NewRtpPackerPayloadOpus(), base.AvPacketPtOpus, false
	}
	panic("bad kind " + kind)
}

func c12PackAll(kind string, firstSeq uint16, rate int, ssrc uint32, maxp int, frames []c12Frame) [][]rtprtcp.RtpPacket {
	pp, pt, avccMode := c12Packer(kind)
	packer := rtprtcp.NewRtpPacker(pp, rate, ssrc, func(o *rtprtcp.RtpPackerOption) {
		o.MaxPayloadSize = maxp
		o.FirstSeq = firstSeq
	})
	var out [][]rtprtcp.RtpPacket
	for _, fr := range frames {
		var payload []byte
		if avccMode {
			payload = c12Avcc(fr.units)
		} else {
			payload = fr.units[0]
		}
		out = append(out, packer.Pack(base.AvPacket{Timestamp: fr.ms, PayloadType: pt, Payload: payload}))
	}
	return out
}

func c12ProtoPt(p string) base.AvPacketPt {
	switch p {
	case "avc", "avcf":
		return base.AvPacketPtAvc
	case "hevc", "hevcf":
		return base.AvPacketPtHevc
	case "aac":
		return base.AvPacketPtAac
	case "raw", "pcma":
		return base.AvPacketPtG711A
	case "pcmu":
		return base.AvPacketPtG711U
	case "opus":
		return base.AvPacketPtOpus
	}
	panic("bad proto " + p)
}

type c12Sink struct{ outs []string }

func (s *c12Sink) on(pkt base.AvPacket) {
	s.outs = append(s.outs, fmt.Sprintf("%s:%s", tokInt(pkt.Timestamp), tokBytes(pkt.Payload)))
}

func c12State(sink *c12Sink, u rtprtcp.IRtpUnpacker) string {
	c := u.(*rtprtcp.RtpUnpackContainer)
	seqs, size, flag, done := c.VerifListState()
	o := "-"
	if len(sink.outs) > 0 {
		o = strings.Join(sink.outs, ",")
	}
	ss := "-"
	if len(seqs) > 0 {
		var t []string
		for _, s := range seqs {
			t = append(t, tokNum(uint64(s)))
		}
		ss = strings.Join(t, "/")
	}
	return fmt.Sprintf("%s %s %s %s %s", o, ss, tokInt(int64(size)), tokBool(flag), tokNum(uint64(done)))
}

func c12Feed(u rtprtcp.IRtpUnpacker, seq uint16, ts uint32, body []byte) {
	h := rtprtcp.MakeDefaultRtpHeader()
	h.Seq = seq
	h.Timestamp = ts
	u.Feed(rtprtcp.MakeRtpPacket(h, body))
}

func init() {
	register("c12.seq", func(a []string) string {
		x, y := uint16(numTok(a[0])), uint16(numTok(a[1]))
		return fmt.Sprintf("%s %s", tokInt(int64(rtprtcp.CompareSeq(x, y))), tokInt(int64(rtprtcp.SubSeq(x, y))))
	})
	// c12.pack <kind> <firstseq> <rate> <ssrc> <maxp> <frames>
	register("c12.pack", func(a []string) string {
		frames := c12ParseFrames(a[5])
		pk := c12PackAll(a[0], uint16(numTok(a[1])), int(numTok(a[2])), uint32(numTok(a[3])), int(numTok(a[4])), frames)
		var fs []string
		last := uint16(numTok(a[1]))
		for _, f := range pk {
			if len(f) == 0 {
				fs = append(fs, "_")
				continue
			}
			var ps []string
			for _, p := range f {
				ps = append(ps, tokBytes(p.Raw))
				last = p.Header.Seq + 1
			}
			fs = append(fs, strings.Join(ps, ","))
		}
		if len(fs) == 0 {
			return "- " + tokNum(uint64(last))
		}
		return strings.Join(fs, ";") + " " + tokNum(uint64(last))
	})
	// c12.unpack <proto> <rate> <W> <seq:ts:body,...>
	register("c12.unpack", func(a []string) string {
		sink := &c12Sink{}
		u := rtprtcp.DefaultRtpUnpackerFactory(c12ProtoPt(a[0]), int(numTok(a[1])), int(numTok(a[2])), sink.on)
		if a[3] != "-" {
			for _, it := range strings.Split(a[3], ",") {
				f := strings.Split(it, ":")
				c12Feed(u, uint16(numTok(f[0])), uint32(numTok(f[1])), bytesTok(f[2]))
			}
		}
		return c12State(sink, u)
	})
	// c12.rt <kind> <firstseq> <rate> <maxp> <W> <frames> <schedule>
	register("c12.rt", func(a []string) string {
		frames := c12ParseFrames(a[5])
		pk := c12PackAll(a[0], uint16(numTok(a[1])), int(numTok(a[2])), 0x11223344, int(numTok(a[3])), frames)
		var all []rtprtcp.RtpPacket
		for _, f := range pk {
			all = append(all, f...)
		}
		sink := &c12Sink{}
		u := rtprtcp.DefaultRtpUnpackerFactory(c12ProtoPt(a[0]), int(numTok(a[2])), int(numTok(a[4])), sink.on)
		if a[6] == "*" {
			for _, p := range all {
				u.Feed(p)
			}
		} else if a[6] != "-" {
			for _, it := range strings.Split(a[6], ",") {
				i := int(numTok(it))
				if i < len(all) {
					u.Feed(all[i])
				}
			}
		}
		return fmt.Sprintf("%s %s", tokNum(uint64(len(all))), c12State(sink, u))
	})
}
