package main

import (
	"fmt"
	"io"
	"strings"

	"github.com/q191201771/lal/pkg/base"
	"github.com/q191201771/lal/pkg/rtmp"
)

func c08Hdr(csid, mlen, ty, msid, ts string) base.RtmpHeader {
	return base.RtmpHeader{Csid: int(numTok(csid)), MsgLen: uint32(numTok(mlen)), MsgTypeId: uint8(numTok(ty)),
		MsgStreamId: int(numTok(msid)), TimestampAbs: uint32(numTok(ts))}
}

func c08ShowHdr(h base.RtmpHeader) string {
	return fmt.Sprintf("%s:%s:%s:%s:%s", tokNum(uint64(h.Csid)), tokNum(uint64(h.MsgLen)), tokNum(uint64(h.MsgTypeId)),
		tokNum(uint64(h.MsgStreamId)), tokNum(uint64(h.TimestampAbs)))
}

func c08Err(err error) string {
	switch {
	case err == io.EOF:
		return "eof"
	case err == io.ErrUnexpectedEOF:
		return "ueof"
	case err == nil:
		return "nil"
	}
	m := err.Error()
	switch {
	case strings.Contains(m, "sub message len"):
		return "agg-hdr"
	case strings.Contains(m, "sub message body"):
		return "agg-body"
	case strings.Contains(m, "prev message size"):
		return "agg-prev"
	case strings.Contains(m, "bigger than msg len"):
		return "len-bigger"
	}
	return "other:" + strings.ReplaceAll(m, " ", "_")
}

func c08Join(l []string) string {
	if len(l) == 0 {
		return "-"
	}
	return strings.Join(l, ",")
}

func c08Run(data []byte, peer uint32, reuse bool) string {
	msgs, err, chunk, streams := rtmp.VerifCompose(data, peer, reuse)
	var ms, ss []string
	for _, m := range msgs {
		ms = append(ms, fmt.Sprintf("%s:%s:%s", c08ShowHdr(m.Header), tokNum(uint64(m.Timestamp)), tokBytes(m.Payload)))
	}
	for _, s := range streams {
		ss = append(ss, fmt.Sprintf("%s:%s:%s:%s:%s", tokNum(uint64(s.Csid)), c08ShowHdr(s.Header), tokNum(uint64(s.Timestamp)),
			tokBool(s.AbsTsFlag), tokBytes(s.Buf)))
	}
	return fmt.Sprintf("%s %s %d %s %s", c08Err(err), tokNum(uint64(chunk)), len(msgs), c08Join(ms), c08Join(ss))
}

func init() {
	register("c08.w2c", func(a []string) string {
		p := bytesTok(a[6])
		mlen := a[2]
		if mlen == "-" {
			mlen = fmt.Sprint(len(p))
		}
		h := c08Hdr(a[1], mlen, a[3], a[4], a[5])
		var prev *base.RtmpHeader
		if a[7] != "-" {
			f := strings.Split(a[7], ":")
			ph := c08Hdr(f[0], f[1], f[2], f[3], f[4])
			prev = &ph
		}
		return tokBytes(rtmp.VerifMessage2Chunks(p, h, prev, int(numTok(a[0]))))
	})
	register("c08.rd", func(a []string) string {
		return c08Run(bytesTok(a[2]), uint32(numTok(a[0])), boolTok(a[1]))
	})
	register("c08.seq", func(a []string) string {
		chunk := int(numTok(a[0]))
		var all []byte
		if a[1] != "-" {
			for _, item := range strings.Split(a[1], ",") {
				f := strings.Split(item, ":")
				p := bytesTok(f[4])
				h := c08Hdr(f[0], fmt.Sprint(len(p)), f[1], f[2], f[3])
				all = append(all, rtmp.VerifMessage2Chunks(p, h, nil, chunk)...)
			}
		}
		return fmt.Sprintf("%s %s", tokBytes(all), c08Run(all, uint32(chunk), false))
	})
	register("c08.ref", func(a []string) string {
		msgs, err, _, _ := rtmp.VerifCompose(bytesTok(a[1]), uint32(numTok(a[0])), true)
		if err != io.EOF {
			return "none"
		}
		var ms []string
		for _, m := range msgs {
			ms = append(ms, fmt.Sprintf("%s:%s:%s:%s:%s", tokNum(uint64(m.Header.Csid)), tokNum(uint64(m.Header.MsgTypeId)),
				tokNum(uint64(m.Header.MsgStreamId)), tokNum(uint64(m.Header.TimestampAbs)), tokBytes(m.Payload)))
		}
		return fmt.Sprintf("ok %d %s", len(msgs), c08Join(ms))
	})
	register("c08.sch", func(a []string) string {
		return tokBytes(rtmp.VerifSingleChunkHeader(int(numTok(a[0])), int(numTok(a[1])), uint8(numTok(a[2])), int(numTok(a[3]))))
	})
}

// c08.pk <cmd>|<cmd>|... : the writers of ONE rtmp.MessagePacker in order; output = the bytes of every
// message (joined by ','), then lal's reader (peer chunk size 4096) on their concatenation.
// cmd = name:arg:... (strings are bytes tokens):  cs:V was:V pbw:V:L connect:APP:TCURL:FLASHVER:PUSH
// cres:TID:OBJENC:VERSION cstream csres:TID play:S:MSID publish:S:MSID ospub:MSID osplay:MSID rec:ID begin:ID
// pingreq:TS ack:N pingresp:TS raw:CSID:TYPE:MSID:BODY
func c08PackerCmd(pk *rtmp.VerifPacker, cmd string) []byte {
	f := strings.Split(cmd, ":")
	n := func(i int) int { return int(numTok(f[i])) }
	str := func(i int) string { return string(bytesTok(f[i])) }
	switch f[0] {
	case "cs", "was", "csres", "ospub", "osplay", "rec", "begin", "pingreq", "ack", "pingresp":
		return pk.Do(f[0], "", "", n(1), 0, 0, false)
	case "pbw":
		return pk.Do(f[0], "", "", n(1), n(2), 0, false)
	case "connect":
		return pk.Do(f[0], str(1), str(2), 0, 0, 0, boolTok(f[4]))
	case "cres":
		return pk.Do(f[0], "", "", n(1), n(2), 0, false)
	case "cstream":
		return pk.Do(f[0], "", "", 0, 0, 0, false)
	case "play":
		return pk.Do(f[0], str(1), "", n(2), 0, 0, false)
	case "publish":
		return pk.Do(f[0], str(1), "app", n(2), 0, 0, false)
	case "raw":
		return pk.Do(f[0], str(4), "", n(1), n(2), n(3), false)
	}
	panic("bad packer cmd " + cmd)
}

func init() {
	register("c08.pk", func(a []string) string {
		pk := rtmp.NewVerifPacker()
		var outs []string
		var all []byte
		for _, cmd := range strings.Split(a[0], "|") {
			var b []byte
			r := runOne(func(x []string) string { b = c08PackerCmd(pk, x[0]); return "" }, []string{cmd})
			if r != "" {
				outs = append(outs, r)
				return strings.Join(outs, ",")
			}
			outs = append(outs, tokBytes(b))
			all = append(all, b...)
		}
		return fmt.Sprintf("%s %s", strings.Join(outs, ","), c08Run(all, 4096, false))
	})
}
