package main

import (
	"io"
	"net"
	"sync"
	"time"
)

// fakeConn records every Write; Read blocks until Close (or returns queued input).
type fakeConn struct {
	mu      sync.Mutex
	writes  [][]byte
	in      []byte
	closed  bool
	closeCh chan struct{}
	feedCh  chan struct{}
	broken  bool // every Write fails (peer reset)
}

func (c *fakeConn) breakWrites() {
	c.mu.Lock()
	c.broken = true
	c.mu.Unlock()
}

func newFakeConn(in []byte) *fakeConn {
	return &fakeConn{in: in, closeCh: make(chan struct{}), feedCh: make(chan struct{}, 1)}
}

func (c *fakeConn) Read(b []byte) (int, error) {
	for {
		c.mu.Lock()
		if len(c.in) > 0 {
			n := copy(b, c.in)
			c.in = c.in[n:]
			c.mu.Unlock()
			return n, nil
		}
		c.mu.Unlock()
		select {
		case <-c.closeCh:
			return 0, io.EOF
		case <-c.feedCh:
		}
	}
}

// feed makes more input available to a blocked Read
func (c *fakeConn) feed(b []byte) {
	c.mu.Lock()
	c.in = append(c.in, b...)
	c.mu.Unlock()
	select {
	case c.feedCh <- struct{}{}:
	default:
	}
}

func (c *fakeConn) isClosed() bool {
	c.mu.Lock()
	defer c.mu.Unlock()
	return c.closed
}

func (c *fakeConn) Write(b []byte) (int, error) {
	c.mu.Lock()
	defer c.mu.Unlock()
	if c.broken {
		return 0, io.ErrClosedPipe
	}
	cp := make([]byte, len(b))
	copy(cp, b)
	c.writes = append(c.writes, cp)
	return len(b), nil
}

func (c *fakeConn) Close() error {
	c.mu.Lock()
	defer c.mu.Unlock()
	if !c.closed {
		c.closed = true
		close(c.closeCh)
	}
	return nil
}

func (c *fakeConn) all() []byte {
	c.mu.Lock()
	defer c.mu.Unlock()
	var out []byte
	for _, w := range c.writes {
		out = append(out, w...)
	}
	return out
}

func (c *fakeConn) numWrites() int {
	c.mu.Lock()
	defer c.mu.Unlock()
	return len(c.writes)
}

type fakeAddr struct{}

func (fakeAddr) Network() string { return "tcp" }
func (fakeAddr) String() string  { return "127.0.0.1:12345" }

func (c *fakeConn) LocalAddr() net.Addr                { return fakeAddr{} }
func (c *fakeConn) RemoteAddr() net.Addr               { return fakeAddr{} }
func (c *fakeConn) SetDeadline(t time.Time) error      { return nil }
func (c *fakeConn) SetReadDeadline(t time.Time) error  { return nil }
func (c *fakeConn) SetWriteDeadline(t time.Time) error { return nil }
