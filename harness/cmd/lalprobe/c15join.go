package main

// C15, second part:
//   c15.rgroup  rtsp subscribers (every set-up state) of a real logic.Group:
//               fan-out by Group.OnRtpPacket -> feedRtpPacket under the group
//               mutex, sweep by Group.Tick -> disposeInactiveSessions
//   c15.join    the moment an rtmp player enters the fan-out set: a real
//               rtmp.ServerSession is driven through handshake / connect /
//               createStream / play; from inside OnNewRtmpSubSession the peer
//               stalls and a message is written as the fan-out would
//   c15.cost    (measured) what a publish costs the publisher per consumer
//               whose queue is full

import (
	"errors"
	"fmt"
	"net"
	"reflect"
	"strings"
	"sync"
	"sync/atomic"
	"time"

	"github.com/q191201771/lal/pkg/base"
	"github.com/q191201771/lal/pkg/logic"
	"github.com/q191201771/lal/pkg/rtmp"
	"github.com/q191201771/lal/pkg/rtprtcp"
	"github.com/q191201771/lal/pkg/rtsp"
)

// c15.rgroup <cap> <kind,kind,...> <op,op,...>
//
//	p<rtp packet>   Group.OnRtpPacket
//	r<i>.<n> f<i>.<n> d<i>   as in c15.run
//	s               Group.Tick(120*k)
func c15RGroup(a []string) string {
	capacity := intTok(a[0])
	if capacity < 1 {
		return "bad-args"
	}
	cfg := &logic.Config{}
	cfg.RtspConfig.Enable = true
	g := logic.NewGroup("live", "c15r", cfg, logic.GroupOption{}, c15GroupObserver{})
	var cs []*c15Cons
	defer func() {
		for _, c := range cs {
			c.cleanup()
		}
		c15DetachInput(g)
	}()
	for _, k := range strings.Split(a[1], ",") {
		if !strings.HasPrefix(k, "rtp") && !strings.HasPrefix(k, "wsrtp") {
			return "bad-args"
		}
		c := newC15Cons(k, capacity)
		sub := c.owner.(*rtsp.SubSession)
		g.HandleNewRtspSubSessionDescribe(sub)
		g.HandleNewRtspSubSessionPlay(sub)
		cs = append(cs, c)
	}
	guarded := func(f func()) bool {
		done := make(chan struct{})
		go func() { f(); close(done) }()
		select {
		case <-done:
			return true
		case <-time.After(c15WatchdogDur()):
			atomic.AddInt32(&c15Expired, 1)
			return false
		}
	}
	tick := uint32(0)
	if a[2] != "-" {
		for k, op := range strings.Split(a[2], ",") {
			var err error
			switch op[0] {
			case 'p':
				raw := joinBufs(c15ParseBufs(op[1:]))
				var pkt rtprtcp.RtpPacket
				pkt.Raw = raw
				if len(raw) >= 2 {
					pkt.Header.PacketType = raw[1] & 0x7f
				} else {
					pkt.Header.PacketType = 0xff
				}
				wasB := make([]bool, len(cs))
				wasC := make([]bool, len(cs))
				for i, c := range cs {
					wasB[i], wasC[i] = c.conn.isBlocked(), c.conn.isClosed()
				}
				if !guarded(func() { g.OnRtpPacket(pkt) }) {
					return fmt.Sprintf("blocked@op%d", k)
				}
				for i, c := range cs {
					c.codes = append(c.codes, '0')
					if !c.tcpFor(raw) {
						continue
					}
					if err = c.settleAfterPublish(wasB[i], wasC[i]); err != nil {
						break
					}
				}
			case 'r', 'f':
				f := strings.Split(op[1:], ".")
				i, n := intTok(f[0]), intTok(f[1])
				if i >= len(cs) {
					continue
				}
				if op[0] == 'f' {
					err = cs[i].fail(n)
				} else {
					for j := 0; j < n && err == nil; j++ {
						err = cs[i].release1()
					}
				}
			case 'd':
				i := intTok(op[1:])
				if i < len(cs) {
					err = cs[i].disposeAndSettle()
				}
			case 'I':
				err = c15AttachInput(g, op[1:])
			case 'i':
				err = c15Inbound(cs, op[1:])
			case 's':
				tick += 120
				if !guarded(func() { g.Tick(tick) }) {
					return fmt.Sprintf("blocked@op%d", k)
				}
				for _, c := range cs {
					if c.conn.isClosed() {
						if err = c.conn.waitFor(func() bool { return !c.conn.blocked }); err != nil {
							break
						}
					}
				}
			default:
				return "bad-args"
			}
			if err != nil {
				return fmt.Sprintf("%s@op%d", err.Error(), k)
			}
		}
	}
	out, err := c15Report(cs, c15Ident)
	if err != nil {
		return err.Error() + "@drain"
	}
	return out
}

// ---------------------------------------------------------------------------
// c15.join

// joinConn serves the client's bytes, then waits; its writes pass until the
// peer "stalls", after which they park until the connection is closed.
type joinConn struct {
	mu      sync.Mutex
	in      []byte
	stalled bool
	parked  int
	wrote   int
	closed  chan struct{}
	once    sync.Once
}

func (c *joinConn) Read(b []byte) (int, error) {
	c.mu.Lock()
	if len(c.in) > 0 {
		n := copy(b, c.in)
		c.in = c.in[n:]
		c.mu.Unlock()
		return n, nil
	}
	c.mu.Unlock()
	<-c.closed
	return 0, errors.New("closed")
}

func (c *joinConn) Write(b []byte) (int, error) {
	c.mu.Lock()
	if c.stalled {
		c.parked++
		c.mu.Unlock()
		<-c.closed
		return 0, errors.New("closed")
	}
	c.wrote += len(b)
	c.mu.Unlock()
	return len(b), nil
}

func (c *joinConn) Close() error                       { c.once.Do(func() { close(c.closed) }); return nil }
func (c *joinConn) LocalAddr() net.Addr                { return fakeAddr{} }
func (c *joinConn) RemoteAddr() net.Addr               { return fakeAddr{} }
func (c *joinConn) SetDeadline(t time.Time) error      { return nil }
func (c *joinConn) SetReadDeadline(t time.Time) error  { return nil }
func (c *joinConn) SetWriteDeadline(t time.Time) error { return nil }

type joinObs struct {
	conn *joinConn
	out  chan string
}

func (o *joinObs) OnRtmpConnect(s *rtmp.ServerSession, opa rtmp.ObjectPairArray) {}
func (o *joinObs) OnNewRtmpPubSession(s *rtmp.ServerSession) error {
	o.out <- "pub"
	return errors.New("c15.join: done")
}
func (o *joinObs) OnDelRtmpPubSession(s *rtmp.ServerSession) {}
func (o *joinObs) OnDelRtmpSubSession(s *rtmp.ServerSession) {}

// OnNewRtmpSubSession is where logic.ServerManager calls Group.AddRtmpSubSession: from
// here on the fan-out loop of the publisher writes to this session under the group
// mutex.  The player stalls now; a publisher message arrives in this very window.
func (o *joinObs) OnNewRtmpSubSession(s *rtmp.ServerSession) error {
	o.conn.mu.Lock()
	o.conn.stalled = true
	o.conn.mu.Unlock()
	// the connection as the session sees it at this moment
	cv := reflect.ValueOf(s).Elem().FieldByName("conn")
	for cv.Kind() == reflect.Ptr || cv.Kind() == reflect.Interface {
		cv = cv.Elem()
	}
	opt := cv.FieldByName("option")
	chanSize := opt.FieldByName("WriteChanSize").Int()
	wto := opt.FieldByName("WriteTimeoutMs").Int()
	beh := opt.FieldByName("WriteChanFullBehavior").Int()
	// what broadcastByRtmpMsg does for a fresh subscriber: metadata / sequence headers /
	// cached GOP / the frame, each one session write
	msg := make([]byte, 4096)
	res := make(chan error, 1)
	go func() {
		var err error
		for i := 0; i < 8 && err == nil; i++ {
			err = s.Write(msg)
		}
		res <- err
	}()
	w := "ok"
	select {
	case err := <-res:
		if err != nil {
			w = "err"
		}
	case <-time.After(c15WatchdogDur()):
		atomic.AddInt32(&c15Expired, 1)
		w = "blocked"
	}
	o.out <- fmt.Sprintf("sub write=%s chan=%s wto=%s full_behavior=%s", w, tokNum(uint64(chanSize)), tokNum(uint64(wto)), tokNum(uint64(beh)))
	return errors.New("c15.join: done")
}

// c15.join <client bytes: handshake, connect, createStream, play>
func c15Join(a []string) string {
	conn := &joinConn{in: bytesTok(a[0]), closed: make(chan struct{})}
	obs := &joinObs{conn: conn, out: make(chan string, 2)}
	s := rtmp.NewServerSession(obs, conn)
	done := make(chan struct{})
	go func() {
		defer func() { _ = recover(); close(done) }()
		_ = s.RunLoop()
	}()
	var out string
	select {
	case out = <-obs.out:
	case <-done:
		select {
		case out = <-obs.out:
		default:
			out = "ended-before-play"
		}
	case <-time.After(3*c15WatchdogDur() + time.Second): // the observer itself waits one watchdog period for its write
		atomic.AddInt32(&c15Expired, 1)
		out = "no-play"
	}
	_ = conn.Close()
	_ = s.Dispose()
	select {
	case <-done:
	case <-time.After(c15WatchdogDur()):
		return out + " session-stuck"
	}
	return out
}

// ---------------------------------------------------------------------------
// c15.cost <kind> <batches> <n> : a consumer with queue capacity 1 that never
// reads; once its queue is full, <batches> batches of <n> session writes are
// timed.  Output: the fastest batch in microseconds (measured, not modelled).
func c15Cost(a []string) string {
	kind, batches, n := a[0], intTok(a[1]), intTok(a[2])
	c := newC15Cons(kind, 1)
	defer c.cleanup()
	var unit [][]byte
	switch {
	case strings.HasPrefix(kind, "rtp"), strings.HasPrefix(kind, "wsrtp"):
		unit = [][]byte{append([]byte{0x80, 96, 0, 1, 0, 0, 0, 1, 0x12, 0x34, 0x56, 0x78}, make([]byte, 1200)...)}
	case kind == "ts" || kind == "wsts":
		p := make([]byte, 188*7)
		for i := 0; i < 7; i++ {
			p[188*i] = 0x47
		}
		unit = [][]byte{p}
	default:
		unit = [][]byte{make([]byte, 1300)}
	}
	for i := 0; i < 3; i++ {
		if err := c.sessWrite(unit); err != nil {
			return "stuck@fill"
		}
	}
	att0 := atomic.LoadInt64(c.att)
	best := time.Duration(1 << 62)
	for b := 0; b < batches; b++ {
		t0 := time.Now()
		for i := 0; i < n; i++ {
			c.write(unit)
		}
		if d := time.Since(t0); d < best {
			best = d
		}
	}
	return fmt.Sprintf("n=%d best_us=%d attempts=%d q=%d", n, best.Microseconds(), atomic.LoadInt64(c.att)-att0, c.chanLen())
}

var _ = base.SessionTypeRtspSub

func init() {
	register("c15.rgroup", c15RGroup)
	register("c15.join", c15Join)
	register("c15.cost", c15Cost)
}
