package main

// C15, third part: what the PLAYER sends while it is a subscriber.  The
// sessions' own read loops run (rtsp: ServerCommandSession.RunLoop with the sub
// session linked; rtmp: the read loop after the handshake, hook
// VerifC15RunReadLoop; http-flv / http-ts: SubSession.RunLoop followed by
// Dispose as the HTTP handler does) and are fed through stallConn.Read.
//
//   i<consumer>.<what>[.<arg>]
//     c<ch>.<n>        rtsp: interleaved packet of n bytes on channel ch (RTCP receiver report shaped)
//     u<v|a><p|c>.<n>  rtsp: datagram of n bytes to lal's RTP (p) / RTCP (c) socket of the track
//     o<cseq>.<resp>   rtsp: OPTIONS keep-alive (<resp> is for the model)
//     g<cseq>          rtsp: GET_PARAMETER keep-alive
//     a                rtmp: Acknowledgement      k<ts>  rtmp: ping request
//     b<n>             http: n bytes

import (
	"encoding/binary"
	"errors"
	"fmt"
	"net"
	"reflect"
	"strings"
	"sync/atomic"
	"time"
	"unsafe"
)

// c15SetField sets an unexported field of *obj.
func c15SetField(obj interface{}, name string, val interface{}) {
	f := reflect.ValueOf(obj).Elem().FieldByName(name)
	reflect.NewAt(f.Type(), unsafe.Pointer(f.UnsafeAddr())).Elem().Set(reflect.ValueOf(val))
}

// the first n bytes of an RTCP receiver report with one report block (RFC 3550 6.4.2), padded with zeroes
func c15Rtcp(n int) []byte {
	rr := []byte{0x81, 201, 0, 7, 0xca, 0xfe, 0xba, 0xbe, 0x12, 0x34, 0x56, 0x78, 0, 0, 0, 0, 0, 0, 0x10, 0, 0, 0, 0, 9, 0, 0, 0, 0, 0, 0, 0, 0}
	for len(rr) < n {
		rr = append(rr, 0)
	}
	return rr[:n]
}

// a WebSocket frame as a browser sends it: FIN, binary, masked (key 0)
func c15WsClientFrame(p []byte) []byte {
	out := []byte{0x82}
	switch {
	case len(p) < 126:
		out = append(out, 0x80|byte(len(p)))
	default:
		out = append(out, 0x80|126, byte(len(p)>>8), byte(len(p)))
	}
	out = append(out, 0, 0, 0, 0)
	return append(out, p...)
}

// how many datagrams the out session has logged (only the first three per kind are: debugLogMaxCount)
func (c *c15Cons) loggedUdp(rtcp bool) int32 {
	name := "loggedReadRtpCount"
	if rtcp {
		name = "loggedReadRtcpCount"
	}
	v := reflect.ValueOf(c.owner).Elem().FieldByName("baseOutSession").Elem().FieldByName(name).FieldByName("core")
	return atomic.LoadInt32((*int32)(unsafe.Pointer(v.UnsafeAddr())))
}

func c15Inbound(cs []*c15Cons, op string) error {
	f := strings.Split(op, ".")
	i := intTok(f[0])
	if i >= len(cs) || len(f) < 2 {
		return nil
	}
	c := cs[i]
	isRtsp := c.kind == "rtp" || c.kind == "wsrtp"
	isRtmp := c.kind == "rtmp" || c.kind == "rtmpv"
	what := f[1]
	var data []byte
	reply := false
	switch {
	case what[0] == 'c' && c.kind == "rtp" && len(f) == 3:
		n := intTok(f[2])
		data = append([]byte{'$', byte(intTok(what[1:])), byte(n >> 8), byte(n)}, c15Rtcp(n)...)
	case what[0] == 'u' && isRtsp && len(f) == 3:
		t, k := 0, 0
		if what[1] == 'a' {
			t = 1
		}
		if what[2] == 'c' {
			k = 1
		}
		if c.udpLal[t][k] == nil || c.conn.isClosed() {
			return nil // the track has no UDP transport / the sockets are closed with the session
		}
		if _, err := c.udpRecv[t].WriteToUDP(c15Rtcp(intTok(f[2])), c.udpLal[t][k].LocalAddr().(*net.UDPAddr)); err != nil {
			return errors.New("udp-send")
		}
		c.sentUdp[k]++
		want := int32(c.sentUdp[k])
		if want > 3 {
			return nil
		}
		// lal's socket read loop logs the datagram: poll for it (nothing signals the harness)
		deadline := time.Now().Add(c15WatchdogDur())
		for c.loggedUdp(k == 1) < want {
			if time.Now().After(deadline) {
				atomic.AddInt32(&c15Expired, 1)
				return errC15Stuck
			}
			time.Sleep(20 * time.Microsecond)
		}
		return nil
	case what[0] == 'o' && isRtsp && len(f) == 3:
		data = []byte("OPTIONS rtsp://h/live/s RTSP/1.0\r\nCSeq: " + what[1:] + "\r\n\r\n")
		reply = true
	case what[0] == 'g' && isRtsp:
		data = []byte("GET_PARAMETER rtsp://h/live/s RTSP/1.0\r\nCSeq: " + what[1:] + "\r\n\r\n")
	case what == "a" && isRtmp:
		data = []byte{2, 0, 0, 0, 0, 0, 4, 3, 0, 0, 0, 0, 0, 0, 0x10, 0}
	case what[0] == 'k' && isRtmp:
		data = []byte{2, 0, 0, 0, 0, 0, 6, 4, 0, 0, 0, 0, 0, 6, 0, 0, 0, 0}
		binary.BigEndian.PutUint32(data[14:], uint32(numTok(what[1:])))
		reply = true
	case what[0] == 'b' && !isRtsp && !isRtmp:
		data = make([]byte, intTok(what[1:]))
		for j := range data {
			data[j] = 0x8a // a WebSocket pong header byte, as good as any
		}
	default:
		return fmt.Errorf("bad-inbound")
	}
	if c.kind == "wsrtp" {
		data = c15WsClientFrame(data)
	}
	if c.conn.isClosed() {
		return nil
	}
	wasBlocked := c.conn.isBlocked()
	q0 := c.chanLen()
	if err := c.conn.feed(data); err != nil {
		return err
	}
	if c.conn.isClosed() || !(isRtsp || isRtmp) {
		// the read loop ended (a reply the queue rejected, an http subscription that received anything):
		// its server disposes the session
		if err := c.conn.waitFor(func() bool { return c.conn.closed && !c.conn.blocked }); err != nil {
			return err
		}
		c.dispose()
		return nil
	}
	if !reply {
		return nil
	}
	// the reply went through the session's queue
	if !wasBlocked {
		if c.multi {
			c.pending = append(c.pending, 1)
		}
		return c.awaitEntry()
	}
	if c.multi && c.chanLen() > q0 {
		c.pending = append(c.pending, 1)
	}
	return nil
}
