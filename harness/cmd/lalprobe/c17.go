package main

// C17, message packer part: the RTMP client's signalling messages for URL
// components of any length (c17.pack), and the same through a real relay push
// (c17.pushurl) where a panic happens in a goroutine lal started and therefore
// takes the whole process down.

import (
	"fmt"

	"github.com/q191201771/lal/pkg/base"
	"github.com/q191201771/lal/pkg/rtmp"
)

func init() {
	// c17.pack <tree> <app> <tcUrl> <flashVer> <stream> <isPush>
	register("c17.pack", func(a []string) string {
		if len(a) != 6 {
			return "bad-args"
		}
		push := boolTok(a[5])
		want := "LNX 9,0,124,2"
		if push {
			want = fmt.Sprintf("FMLE/3.0 (compatible; %s)", base.LalRtmpPushSessionConnectVersion)
		}
		if string(bytesTok(a[3])) != want {
			return "flashver-differs:" + hexOf([]byte(want))
		}
		out := rtmp.VerifPackSeq(string(bytesTok(a[1])), string(bytesTok(a[2])), string(bytesTok(a[4])), push)
		return tokBytes(out)
	})
}
