package main

// C13: the RTSP message reader (pkg/rtsp/read_message.go) as the sessions use it.
//
// c13.rtspmsg <raw|req|resp> <stream>
//   raw:  readHttpMessage on a naza connection with the 256-byte read buffer of ClientCommandSession
//         (the handshake path); prints what was read so far, the capacity of the body buffer and the
//         kind of the body read error
//   req / resp: readHttpRequestMessage / readHttpResponseMessage on a bufio.Reader
// c13.rtspsrv <stream>: the framing of ServerCommandSession.runCmdLoop (plain): readInterleaved, else a request
// c13.rtspcli <stream>: the framing of ClientCommandSession.runReadLoop (GET_PARAMETER branch): readInterleaved,
//         else a response; bufio.Reader over the naza connection (256-byte buffer)
// c13.rtspws <stream>:  the framing of ServerCommandSession.runCmdLoop (WebSocket): one request per frame payload

import (
	"bufio"
	"bytes"
	"io"
	"net/http"
	"sort"
	"strings"

	"github.com/q191201771/lal/pkg/base"
	"github.com/q191201771/lal/pkg/rtsp"
	"github.com/q191201771/naza/pkg/connection"
)

func c13Hdrs(h http.Header) string {
	if len(h) == 0 {
		return "-"
	}
	var kv []string
	for k, vs := range h {
		var t []string
		for _, v := range vs {
			t = append(t, tokBytes([]byte(v)))
		}
		kv = append(kv, tokBytes([]byte(k))+"="+strings.Join(t, "|"))
	}
	sort.Strings(kv)
	return strings.Join(kv, ";")
}

func c13Msg(a, b, c string, h http.Header, body []byte) string {
	return strings.Join([]string{tokBytes([]byte(a)), tokBytes([]byte(b)), tokBytes([]byte(c)), c13Hdrs(h), tokBytes(body)}, ":")
}

func c13ClientConn(in []byte) connection.Connection {
	return connection.New(&c13Conn{in: in}, func(o *connection.Option) { o.ReadBufSize = 256 })
}

const c13MaxItems = 4096

func init() {
	register("c13.rtspmsg", func(a []string) string {
		in := bytesTok(a[1])
		switch a[0] {
		case "raw":
			ctx, err := rtsp.VerifReadHttpMessage(c13ClientConn(in))
			e := "-"
			if err == io.EOF {
				e = "eof"
			} else if err == io.ErrUnexpectedEOF {
				e = "short"
			} else if err != nil {
				return "err"
			}
			return "ok " + c13Msg(ctx.ReqMethodOrRespVersion, ctx.ReqUriOrRespStatusCode, ctx.ReqVersionOrRespReason, ctx.Headers, ctx.Body) + " " + tokNum(uint64(cap(ctx.Body))) + " " + e
		case "req":
			ctx, err := rtsp.VerifReadHttpRequestMessage(bufio.NewReader(&c13Conn{in: in}))
			if err != nil {
				return "err"
			}
			return "ok " + c13Msg(ctx.Method, ctx.Uri, ctx.Version, ctx.Headers, ctx.Body)
		default:
			ctx, err := rtsp.VerifReadHttpResponseMessage(bufio.NewReader(&c13Conn{in: in}))
			if err != nil {
				return "err"
			}
			return "ok " + c13Msg(ctx.Version, ctx.StatusCode, ctx.Reason, ctx.Headers, ctx.Body)
		}
	})
	loop := func(r *bufio.Reader, resp bool) string {
		var out []string
		for i := 0; i < c13MaxItems; i++ {
			is, p, ch, err := rtsp.VerifReadInterleaved(r)
			if err != nil {
				break
			}
			if is {
				out = append(out, "p:"+tokNum(uint64(ch))+":"+tokBytes(p))
				continue
			}
			if resp {
				ctx, err := rtsp.VerifReadHttpResponseMessage(r)
				if err != nil {
					break
				}
				out = append(out, "m:"+c13Msg(ctx.Version, ctx.StatusCode, ctx.Reason, ctx.Headers, ctx.Body))
			} else {
				ctx, err := rtsp.VerifReadHttpRequestMessage(r)
				if err != nil {
					break
				}
				out = append(out, "m:"+c13Msg(ctx.Method, ctx.Uri, ctx.Version, ctx.Headers, ctx.Body))
			}
		}
		return "ok " + c13JoinComma(out)
	}
	register("c13.rtspsrv", func(a []string) string {
		return loop(bufio.NewReader(&c13Conn{in: bytesTok(a[0])}), false)
	})
	register("c13.rtspcli", func(a []string) string {
		return loop(bufio.NewReader(c13ClientConn(bytesTok(a[0]))), true)
	})
	register("c13.rtspws", func(a []string) string {
		r := bufio.NewReader(&c13Conn{in: bytesTok(a[0])})
		var out []string
		for i := 0; i < c13MaxItems; i++ {
			payload, err := base.ReadWsPayload(r)
			if err != nil {
				break
			}
			ctx, err := rtsp.VerifReadHttpRequestMessage(bufio.NewReader(bytes.NewReader(payload)))
			if err != nil {
				break
			}
			out = append(out, "m:"+c13Msg(ctx.Method, ctx.Uri, ctx.Version, ctx.Headers, ctx.Body))
		}
		return "ok " + c13JoinComma(out)
	})
}

func c13JoinComma(v []string) string {
	if len(v) == 0 {
		return "-"
	}
	return strings.Join(v, ",")
}
