package main

// C05: no published media payload can terminate the server.
//
//   c05.bcast <cfg> <events>   a real logic.Group with the outputs named in <cfg>
//                              enabled, consumers of every kind joining at the
//                              chosen points, fed with the published messages;
//                              observable: one token per published message
//                              (`ok`, `slow`), the history ends at the first
//                              `panic@site`; a history that ends normally appends
//                              s=<audio codec known>/<video codec known>/<width>/<height>
//                              (Group.GetStat) and r=<playing><waiting>.. per rtsp consumer.  The last output token carries the
//                              largest per-message wall time (not compared).
//   c05.ts / c05.rtsp / c05.dummy / c05.cls   the components driven directly,
//                              with a precise observable (see each op).

import (
	"fmt"
	"io"
	"io/ioutil"
	"net"
	"os"
	"runtime/debug"
	"sort"
	"strings"
	"sync"
	"time"

	"github.com/q191201771/lal/pkg/base"
	"github.com/q191201771/lal/pkg/hls"
	"github.com/q191201771/lal/pkg/httpflv"
	"github.com/q191201771/lal/pkg/httpts"
	"github.com/q191201771/lal/pkg/logic"
	"github.com/q191201771/lal/pkg/mpegts"
	"github.com/q191201771/lal/pkg/remux"
	"github.com/q191201771/lal/pkg/rtmp"
	"github.com/q191201771/lal/pkg/rtprtcp"
	"github.com/q191201771/lal/pkg/rtsp"
	"github.com/q191201771/lal/pkg/sdp"
)

var c05HlsOnce sync.Once

// c05Pipe: a conn whose input can be extended while the session's read loop runs
type c05Pipe struct {
	mu     sync.Mutex
	cond   *sync.Cond
	in     []byte
	closed bool
	nout   int
	parked bool // the session's read loop has consumed everything fed so far and sits in Read
}

func newC05Pipe() *c05Pipe { p := &c05Pipe{}; p.cond = sync.NewCond(&p.mu); return p }
func (c *c05Pipe) feed(b string) {
	c.mu.Lock()
	c.in = append(c.in, b...)
	c.parked = false
	c.mu.Unlock()
	c.cond.Broadcast()
}

// waitParked: the command loop has handled every request fed so far (its handlers have returned)
func (c *c05Pipe) waitParked() {
	c.mu.Lock()
	defer c.mu.Unlock()
	for !(c.parked && len(c.in) == 0) && !c.closed {
		c.cond.Wait()
	}
}
func (c *c05Pipe) Read(b []byte) (int, error) {
	c.mu.Lock()
	defer c.mu.Unlock()
	for len(c.in) == 0 && !c.closed {
		c.parked = true
		c.cond.Broadcast()
		c.cond.Wait()
	}
	c.parked = false
	if len(c.in) == 0 {
		return 0, io.EOF
	}
	n := copy(b, c.in)
	c.in = c.in[n:]
	return n, nil
}
func (c *c05Pipe) Write(b []byte) (int, error) {
	c.mu.Lock()
	c.nout += len(b)
	c.mu.Unlock()
	return len(b), nil
}
func (c *c05Pipe) Close() error {
	c.mu.Lock()
	c.closed = true
	c.mu.Unlock()
	c.cond.Broadcast()
	return nil
}
func (c *c05Pipe) LocalAddr() net.Addr                { return fakeAddr{} }
func (c *c05Pipe) RemoteAddr() net.Addr               { return fakeAddr{} }
func (c *c05Pipe) SetDeadline(t time.Time) error      { return nil }
func (c *c05Pipe) SetReadDeadline(t time.Time) error  { return nil }
func (c *c05Pipe) SetWriteDeadline(t time.Time) error { return nil }

// the RTSP command session talks to the group through this observer, as lalserver's ServerManager does
type c05RtspObserver struct {
	group  *logic.Group
	descCh chan *rtsp.SubSession
	playCh chan struct{}
}

func (o *c05RtspObserver) OnNewRtspPubSession(session *rtsp.PubSession) error { return base.ErrRtsp }
func (o *c05RtspObserver) OnNewRtspSubSessionDescribe(session *rtsp.SubSession) (bool, []byte) {
	ok, rawSdp := o.group.HandleNewRtspSubSessionDescribe(session)
	o.descCh <- session
	return ok, rawSdp
}
func (o *c05RtspObserver) OnNewRtspSubSessionPlay(session *rtsp.SubSession) error {
	o.group.HandleNewRtspSubSessionPlay(session)
	o.playCh <- struct{}{}
	return nil
}
func (o *c05RtspObserver) OnDelRtspPubSession(session *rtsp.PubSession) {}
func (o *c05RtspObserver) OnDelRtspSubSession(session *rtsp.SubSession) {}

type c05Hook struct{ n int }

func (h *c05Hook) OnMsg(msg base.RtmpMsg) { h.n += len(msg.Payload) }
func (h *c05Hook) OnStop()                {}

type c05RtspSub struct {
	conn    *c05Pipe
	cmd     *rtsp.ServerCommandSession
	obs     *c05RtspObserver
	sub     *rtsp.SubSession
	playing bool
}

func c05MkMsg(t uint8, ts uint32, payload []byte) base.RtmpMsg {
	msg := base.RtmpMsg{Header: base.RtmpHeader{MsgLen: uint32(len(payload)), MsgTypeId: t, MsgStreamId: 1, TimestampAbs: ts}, Payload: payload}
	switch t {
	case base.RtmpTypeIdAudio:
		msg.Header.Csid = rtmp.CsidAudio
	case base.RtmpTypeIdVideo:
		msg.Header.Csid = rtmp.CsidVideo
	default:
		msg.Header.Csid = rtmp.CsidAmf
	}
	return msg
}

// events "P:<type>:<ts>:<bytes>" -> fields
func c05ParseP(f []string) base.RtmpMsg {
	return c05MkMsg(uint8(numTok(f[1])), uint32(numTok(f[2])), bytesTok(f[3]))
}

// generous: the largest per-message time of a quick run is a few ms; 2 s keeps a > 100x margin on a loaded box
const c05SlowLimit = 2 * time.Second

func runC05Bcast(cfgTok, evTok string) (out string) {
	kv := parseKV(cfgTok)
	var cfg logic.Config
	cfg.RtmpConfig.Enable = kv["re"] != 0
	cfg.RtmpConfig.GopNum = kv["rg"]
	cfg.RtmpConfig.MergeWriteSize = kv["mw"]
	cfg.HttpflvConfig.Enable = kv["fe"] != 0
	cfg.HttpflvConfig.GopNum = kv["fg"]
	cfg.HttptsConfig.Enable = kv["te"] != 0
	cfg.HttptsConfig.GopNum = kv["tg"]
	cfg.RtspConfig.Enable = kv["se"] != 0
	cfg.RtspConfig.OutWaitKeyFrameFlag = kv["wk"] != 0
	cfg.InSessionConfig.AddDummyAudioEnable = kv["da"] != 0
	cfg.InSessionConfig.AddDummyAudioWaitAudioMs = kv["dw"]
	var tmpDirs []string
	defer func() {
		for _, d := range tmpDirs {
			os.RemoveAll(d)
		}
	}()
	mkTmp := func() string {
		d, err := ioutil.TempDir("", "lalprobe-c05-")
		if err != nil {
			panic(err)
		}
		tmpDirs = append(tmpDirs, d)
		return d + "/"
	}
	if kv["he"] != 0 {
		c05HlsOnce.Do(func() { hls.SetUseMemoryAsDiskFlag(true) })
		cfg.HlsConfig.Enable = true
		cfg.HlsConfig.UseMemoryAsDiskFlag = true
		cfg.HlsConfig.OutPath = "/c05hls/"
		cfg.HlsConfig.FragmentDurationMs = 3000
		cfg.HlsConfig.FragmentNum = 6
		cfg.HlsConfig.DeleteThreshold = 6
		cfg.HlsConfig.CleanupMode = hls.CleanupModeAsap
	}
	if kv["rf"] != 0 {
		cfg.RecordConfig.EnableFlv = true
		cfg.RecordConfig.FlvOutPath = mkTmp()
	}
	if kv["rm"] != 0 {
		cfg.RecordConfig.EnableMpegts = true
		cfg.RecordConfig.MpegtsOutPath = mkTmp()
	}
	opt := logic.GroupOption{}
	if kv["hk"] != 0 {
		opt = logic.VerifGroupOptionWithHook(func(uniqueKey string, streamName string) logic.ICustomizeHookSessionContext {
			return &c05Hook{}
		})
	}
	if kv["ak"] != 0 {
		oldFlag := remux.RtspRemuxerAddSpsPps2KeyFrameFlag
		remux.RtspRemuxerAddSpsPps2KeyFrameFlag = true
		defer func() { remux.RtspRemuxerAddSpsPps2KeyFrameFlag = oldFlag }()
	}
	group := logic.NewGroup("live", "c05", &cfg, opt, nopGroupObserver{})
	pubConn := newFakeConn(nil)
	pubSession := rtmp.NewServerSession(nopRtmpObserver{}, pubConn)
	if err := group.AddRtmpPubSession(pubSession); err != nil {
		return "err-add-pub"
	}
	var conns []*fakeConn
	var rsubs []*c05RtspSub
	ids := map[uint64]bool{}
	var toks []string
	var maxWall time.Duration
	statTok := ""
	finished := false
	defer func() {
		// teardown also runs lal code (Dispose flushes the audio cache): keep it observable
		if r := recover(); r != nil {
			toks = append(toks, panicSite2(r))
			finished = true
		}
		if !finished {
			return
		}
		for _, c := range conns {
			c.Close()
		}
		for _, r := range rsubs {
			r.cmd.Dispose()
			r.conn.Close()
		}
		pubConn.Close()
		if len(toks) == 0 {
			toks = []string{"-"}
		}
		out = strings.Join(toks, ",") + statTok + fmt.Sprintf(" t=%d", maxWall.Microseconds())
	}()

	tryPlay := func() {
		for _, r := range rsubs {
			if r.playing || r.sub == nil {
				continue
			}
			_, rawSdp := group.HandleNewRtspSubSessionDescribe(r.sub)
			if rawSdp == nil || r.sub.Stage.Load() == rtsp.SubSessionStageReadDescribe {
				continue
			}
			ctx, err := sdp.ParseSdp2LogicContext(rawSdp)
			if err != nil {
				continue
			}
			seq := 2
			if ctx.HasVideoAControl() {
				r.conn.feed(fmt.Sprintf("SETUP %s RTSP/1.0\r\nCSeq: %d\r\nTransport: RTP/AVP/TCP;unicast;interleaved=0-1\r\n\r\n", ctx.MakeVideoSetupUri("rtsp://h/live/c05"), seq))
				seq++
			}
			if ctx.HasAudioAControl() {
				r.conn.feed(fmt.Sprintf("SETUP %s RTSP/1.0\r\nCSeq: %d\r\nTransport: RTP/AVP/TCP;unicast;interleaved=2-3\r\n\r\n", ctx.MakeAudioSetupUri("rtsp://h/live/c05"), seq))
				seq++
			}
			r.conn.feed(fmt.Sprintf("PLAY rtsp://h/live/c05 RTSP/1.0\r\nCSeq: %d\r\n\r\n", seq))
			select {
			case <-r.obs.playCh:
				r.conn.waitParked()
				r.playing = true
			case <-time.After(10 * time.Second):
				panic("c05: rtsp PLAY not reached")
			}
		}
	}

	for _, e := range strings.Split(evTok, ";") {
		if e == "" {
			continue
		}
		f := strings.Split(e, ":")
		switch f[0] {
		case "P":
			msg := c05ParseP(f)
			t0 := time.Now()
			func() {
				defer func() {
					if r := recover(); r != nil {
						toks = append(toks, panicSite2(r))
						finished = true
					}
				}()
				group.OnReadRtmpAvMsg(msg)
			}()
			if finished {
				return
			}
			d := time.Since(t0)
			if d > maxWall {
				maxWall = d
			}
			if d > c05SlowLimit && len(msg.Payload) <= 65536 {
				toks = append(toks, "slow")
			} else {
				toks = append(toks, "ok")
			}
			tryPlay()
		case "Jr", "Jf", "Jw", "Jt", "Js":
			id := numTok(f[1])
			if ids[id] {
				break
			}
			ids[id] = true
			conn := newFakeConn(nil)
			switch f[0][1] {
			case 'r':
				conns = append(conns, conn)
				group.AddRtmpSubSession(rtmp.NewServerSession(nopRtmpObserver{}, conn))
			case 'f', 'w':
				conns = append(conns, conn)
				group.AddHttpflvSubSession(httpflv.NewSubSession(conn, base.UrlContext{}, f[0][1] == 'w', "k"))
			case 't':
				conns = append(conns, conn)
				group.AddHttptsSubSession(httpts.NewSubSession(conn, base.UrlContext{}, false, "k"))
			case 's':
				pc := newC05Pipe()
				obs := &c05RtspObserver{group: group, descCh: make(chan *rtsp.SubSession, 1), playCh: make(chan struct{}, 1)}
				cmd := rtsp.NewServerCommandSession(obs, pc, rtsp.ServerAuthConfig{}, false, "")
				rs := &c05RtspSub{conn: pc, cmd: cmd, obs: obs}
				rsubs = append(rsubs, rs)
				go cmd.RunLoop()
				pc.feed("DESCRIBE rtsp://h/live/c05 RTSP/1.0\r\nCSeq: 1\r\n\r\n")
				select {
				case rs.sub = <-obs.descCh:
				case <-time.After(10 * time.Second):
					panic("c05: rtsp DESCRIBE not reached")
				}
				// handleDescribe goes on after the observer call (feedSdp: InitWithSdp, stage WriteSdp): wait for it
				pc.waitParked()
				tryPlay()
			}
		default:
			return "bad-event " + e
		}
	}
	// the codec statistics the history left behind (delIn resets them)
	st := group.GetStat(0)
	statTok = fmt.Sprintf(" s=%s/%s/%x/%x", tokBool(st.AudioCodec != ""), tokBool(st.VideoCodec != ""), st.VideoWidth, st.VideoHeight)
	// the rtsp consumers, in join order: stage == ReadPlay, still waiting for a GOP start
	var rt []string
	for _, r := range rsubs {
		if r.sub == nil {
			rt = append(rt, "??")
			continue
		}
		rt = append(rt, tokBool(r.sub.Stage.Load() == rtsp.SubSessionStageReadPlay)+tokBool(r.sub.ShouldWaitVideoKeyFrame))
	}
	if len(rt) == 0 {
		rt = []string{"-"}
	}
	statTok += " r=" + strings.Join(rt, ".")
	// end of input: Dispose flushes the TS remuxer's audio cache through every TS output
	group.DelRtmpPubSession(pubSession)
	finished = true
	return
}

// panicSite2: panicSite expects to be called from the deferred function of runOne
// (skip 3); here the recover sits one closure deeper but the innermost lal/naza
// frame is found by scanning, so the same helper works.
func panicSite2(r interface{}) string {
	if os.Getenv("C05_DEBUG") != "" {
		fmt.Fprintf(os.Stderr, "%v\n%s\n", r, debug.Stack())
	}
	return panicSite(r)
}

// ---------------------------------------------------------------------------------------------------------------------
// components

type c05TsObserver struct{ out []string }

func (o *c05TsObserver) OnPatPmt(b []byte) { o.out = append(o.out, "H") }
func (o *c05TsObserver) OnTsPackets(tsPackets []byte, frame *mpegts.Frame, boundary bool) {
	k := "a"
	if frame.Sid == mpegts.StreamIdVideo {
		k = "v"
	}
	o.out = append(o.out, fmt.Sprintf("%s/%x/%x/%s/%s/%x", k, frame.Dts, frame.Pts, tokBool(frame.Key), tokBool(boundary), len(frame.Raw)))
}

// c05.ts <events>: Rtmp2MpegtsRemuxer alone; per message the frames it emitted
// (kind/dts/pts/key/boundary/len(raw)) joined by '+', or '-' ; the history
// ends at the first panic; Dispose (FlushAudio) runs at the end as "D=<frames>"
func runC05Ts(evTok string) string {
	obs := &c05TsObserver{}
	r := remux.NewRtmp2MpegtsRemuxer(obs)
	var toks []string
	flushTok := func() string {
		s := "-"
		if len(obs.out) > 0 {
			s = strings.Join(obs.out, "+")
		}
		obs.out = nil
		return s
	}
	for _, e := range strings.Split(evTok, ";") {
		if e == "" {
			continue
		}
		f := strings.Split(e, ":")
		if f[0] != "P" {
			return "bad-event " + e
		}
		msg := c05ParseP(f)
		var p string
		func() {
			defer func() {
				if r := recover(); r != nil {
					p = panicSite(r)
				}
			}()
			r.FeedRtmpMessage(msg)
		}()
		if p != "" {
			toks = append(toks, p)
			return strings.Join(toks, ",")
		}
		toks = append(toks, flushTok())
	}
	var p string
	func() {
		defer func() {
			if r := recover(); r != nil {
				p = panicSite(r)
			}
		}()
		r.Dispose()
	}()
	if p != "" {
		toks = append(toks, p)
	} else {
		toks = append(toks, "D="+flushTok())
	}
	return strings.Join(toks, ",")
}

// c05.rtsp <addflag> <events>: Rtmp2RtspRemuxer alone; per message: "S" when
// the SDP callback fired, "/", number of RTP packets (hex)
func runC05Rtsp(flagTok, evTok string) string {
	old := remux.RtspRemuxerAddSpsPps2KeyFrameFlag
	remux.RtspRemuxerAddSpsPps2KeyFrameFlag = boolTok(flagTok)
	defer func() { remux.RtspRemuxerAddSpsPps2KeyFrameFlag = old }()
	var cur []string
	npkt := 0
	r := remux.NewRtmp2RtspRemuxer(func(ctx sdp.LogicContext) {
		cur = append(cur, "S")
	}, func(pkt rtprtcp.RtpPacket) {
		npkt++
	})
	var toks []string
	for _, e := range strings.Split(evTok, ";") {
		if e == "" {
			continue
		}
		f := strings.Split(e, ":")
		if f[0] != "P" {
			return "bad-event " + e
		}
		msg := c05ParseP(f)
		var p string
		func() {
			defer func() {
				if r := recover(); r != nil {
					p = panicSite(r)
				}
			}()
			r.FeedRtmpMsg(msg)
		}()
		if p != "" {
			toks = append(toks, p)
			return strings.Join(toks, ",")
		}
		cur = append(cur, fmt.Sprintf("%x", npkt))
		npkt = 0
		toks = append(toks, strings.Join(cur, "/"))
		cur = nil
	}
	if len(toks) == 0 {
		return "-"
	}
	return strings.Join(toks, ",")
}

// c05.dummy <waitMs> <maxOut> <events>: DummyAudioFilter alone; per input message the
// popped messages "<type>.<ts>.<len>" joined by '+' (only the first <maxOut> are printed, then "...<count>")
func runC05Dummy(waitTok, maxTok, evTok string) string {
	var cur []string
	n := 0
	maxOut := intTok(maxTok)
	f := remux.NewDummyAudioFilter("c05", intTok(waitTok), func(msg base.RtmpMsg) {
		n++
		if n <= maxOut {
			cur = append(cur, fmt.Sprintf("%x.%x.%x", msg.Header.MsgTypeId, msg.Header.TimestampAbs, len(msg.Payload)))
		}
	})
	var toks []string
	for _, e := range strings.Split(evTok, ";") {
		if e == "" {
			continue
		}
		fs := strings.Split(e, ":")
		if fs[0] != "P" {
			return "bad-event " + e
		}
		msg := c05ParseP(fs)
		var p string
		func() {
			defer func() {
				if r := recover(); r != nil {
					p = panicSite(r)
				}
			}()
			f.Feed(msg)
		}()
		if p != "" {
			toks = append(toks, p)
			return strings.Join(toks, ",")
		}
		s := "-"
		if len(cur) > 0 {
			s = strings.Join(cur, "+")
		}
		if n > maxOut {
			s += fmt.Sprintf("...%x", n)
		}
		toks = append(toks, s)
		cur = nil
		n = 0
	}
	if len(toks) == 0 {
		return "-"
	}
	return strings.Join(toks, ",")
}

// c05.cls <type> <payload>: every classification helper of base/t_rtmp.go on one
// message, each under its own recover: name=value|name=panic@site ...
func runC05Cls(typTok, payTok string) string {
	msg := c05MkMsg(uint8(numTok(typTok)), 0, bytesTok(payTok))
	type h struct {
		name string
		f    func() string
	}
	hs := []h{
		{"avcsh", func() string { return tokBool(msg.IsAvcKeySeqHeader()) }},
		{"hevcsh", func() string { return tokBool(msg.IsHevcKeySeqHeader()) }},
		{"enh", func() string { return tokBool(msg.IsEnhanced()) }},
		{"vsh", func() string { return tokBool(msg.IsVideoKeySeqHeader()) }},
		{"avckn", func() string { return tokBool(msg.IsAvcKeyNalu()) }},
		{"hevckn", func() string { return tokBool(msg.IsHevcKeyNalu()) }},
		{"enhn", func() string { return tokBool(msg.IsEnchanedHevcNalu()) }},
		{"enhi", func() string { return tokNum(uint64(msg.GetEnchanedHevcNaluIndex())) }},
		{"vkn", func() string { return tokBool(msg.IsVideoKeyNalu()) }},
		{"aacsh", func() string { return tokBool(msg.IsAacSeqHeader()) }},
		{"vcid", func() string { return tokNum(uint64(msg.VideoCodecId())) }},
		{"acid", func() string { return tokNum(uint64(msg.AudioCodecId())) }},
		{"cts", func() string { return tokNum(uint64(msg.Cts())) }},
		{"pts", func() string { return tokNum(uint64(msg.Pts())) }},
	}
	var parts []string
	for _, x := range hs {
		var v string
		func() {
			defer func() {
				if r := recover(); r != nil {
					v = panicSite(r)
				}
			}()
			v = x.f()
		}()
		parts = append(parts, x.name+"="+v)
	}
	sort.Strings(parts)
	return strings.Join(parts, "|")
}

// c05Sync runs f with synchronous httpflv / httpts subscriber writes and restores the package defaults afterwards
// (other properties' ops of this process read them)
func c05Sync(f func() string) string {
	oldTs, oldFlv := httpts.SubSessionWriteChanSize, httpflv.SubSessionWriteChanSize
	httpts.SubSessionWriteChanSize, httpflv.SubSessionWriteChanSize = 0, 0
	defer func() { httpts.SubSessionWriteChanSize, httpflv.SubSessionWriteChanSize = oldTs, oldFlv }()
	return f()
}

func init() {
	register("c05.bcast", func(a []string) string { return c05Sync(func() string { return runC05Bcast(a[0], a[1]) }) })
	register("c05.ts", func(a []string) string { return c05Sync(func() string { return runC05Ts(a[0]) }) })
	register("c05.rtsp", func(a []string) string { return c05Sync(func() string { return runC05Rtsp(a[0], a[1]) }) })
	register("c05.dummy", func(a []string) string { return c05Sync(func() string { return runC05Dummy(a[0], a[1], a[2]) }) })
	register("c05.cls", func(a []string) string { return runC05Cls(a[0], a[1]) })
	// aliases: the model side runs these two on the model of the pinned tree (witness replay against a lalprobe built from the pinned lal)
	register("c05.cls0", func(a []string) string { return runC05Cls(a[0], a[1]) })
	register("c05.bcast0", func(a []string) string { return c05Sync(func() string { return runC05Bcast(a[0], a[1]) }) })
}
