package main

// C03 / C17: admission of inputs, relay pull / push rules.  A real
// logic.ServerManager is driven one event at a time: network sessions are real
// rtmp / rtsp server shells running over admConn, HTTP sessions and API calls
// are made directly, relay pull / push dial stub listeners on loopback.  After
// every event the harness waits for the observable effect the event must have
// (no fixed sleeps), then prints result / state view / notifications.

import (
	"bufio"
	"bytes"
	"encoding/json"
	"fmt"
	"io"
	"net"
	"net/http"
	"sort"
	"strconv"
	"strings"
	"sync"
	"sync/atomic"
	"time"

	"github.com/q191201771/lal/pkg/base"
	"github.com/q191201771/lal/pkg/httpflv"
	"github.com/q191201771/lal/pkg/httpts"
	"github.com/q191201771/lal/pkg/logic"
	"github.com/q191201771/lal/pkg/rtmp"
	"github.com/q191201771/lal/pkg/rtsp"
)

func init() {
	register("c03.run", func(a []string) string { return admRun(a) })
	register("c17.run", func(a []string) string { return admRun(a) })
}

const admWait = 20 * time.Second // only ever used up on a broken tree or a badly overloaded machine (a loopback dial + accept normally takes well under a millisecond)

// once several expected effects have failed to appear (a broken tree), stop
// spending the full wait on every further one
var admTimeouts int32

func admWaitDur() time.Duration {
	if atomic.LoadInt32(&admTimeouts) >= 3 {
		return 300 * time.Millisecond
	}
	return admWait
}

// an SDP without parameter sets: AvPacket2RtmpRemuxer.OnSdp (which runs in a goroutine of its own)
// then emits nothing, so no sequence header reaches the subscribers at an uncontrolled moment and
// the group's codec information stays empty
const admSdp = "v=0\r\no=- 0 0 IN IP4 127.0.0.1\r\ns=No Name\r\nc=IN IP4 127.0.0.1\r\nt=0 0\r\n" +
	"m=video 0 RTP/AVP 96\r\na=rtpmap:96 H264/90000\r\n" +
	"a=fmtp:96 packetization-mode=1\r\n" +
	"a=control:streamid=0\r\n"

type admSess struct {
	name    string // c<sid>
	kind    string // rp rs ap ds fs ts cp pp
	stream  string
	conn    *admConn
	done    chan struct{} // closed when the server shell goroutine returned
	key     string        // lal unique key once known
	flv     *httpflv.SubSession
	ts      *httpts.SubSession
	cust    logic.ICustomizePubSessionContext
	gone    bool
	refused bool
	mates   *[]*admSess // every session created on the same RTSP command connection (shared)
	// the lal session objects (byte counters for the server-tick ops, c03tick.go)
	rtmpS   *rtmp.ServerSession
	rtspPub *rtsp.PubSession
	rtspSub *rtsp.SubSession
}

// the connection of s has ended: every session created on it is over for the harness
func (s *admSess) connDone() {
	s.gone = true
	if s.mates != nil {
		for _, m := range *s.mates {
			m.gone = true
		}
	}
}

type admAttempt struct {
	name   string // p<stream>_<i>
	stream string
	state  string // held, released, attached, finished
	conn   net.Conn
	key    string
	sess   *rtmp.PullSession
	rtsp   bool              // the pull url is rtsp://
	rsess  *rtsp.PullSession // attached RTSP pull session
	origin *rtmp.ServerSession
	odone  chan struct{}
}

type admPush struct {
	url    string
	state  string // idle held attached
	conn   net.Conn
	origin *rtmp.ServerSession
}

type admCase struct {
	sm        *logic.ServerManager
	rtmpSrv   *rtmp.Server
	rtspSrv   *rtsp.Server
	nh        *admNotify
	sess      map[string]*admSess
	keyName   map[string]string
	cur       *admSess
	pipes     map[string]int
	lns       map[string]*admListener // stream -> origin listener
	static    *admListener
	att       map[string]*admAttempt // stream -> outstanding attempt
	attCount  map[string]int
	rtspUrl   map[string]bool // stream -> the group's pull url is rtsp:// (set by the last start_relay_pull)
	attByName map[string]*admAttempt
	pushLns   []*admListener
	push      map[string]*admPush // stream|target index
	nseen     int
	disposed  bool
	originObs *admOriginObs
	originSrv *rtmp.Server
	anomalies []string
	api       *logic.HttpApiServer // started by the first request through the HTTP API
	apiClient *http.Client
}

// observer wrapper in front of the ServerManager: learns unique keys
type admObs struct{ c *admCase }

func (o admObs) learn(key string) {
	if o.c.cur != nil && o.c.cur.key == "" {
		o.c.cur.key = key
		o.c.keyName[key] = o.c.cur.name
	}
}
func (o admObs) OnRtmpConnect(s *rtmp.ServerSession, opa rtmp.ObjectPairArray) {
	o.learn(s.UniqueKey())
	if o.c.cur != nil {
		o.c.cur.rtmpS = s
	}
	o.c.sm.OnRtmpConnect(s, opa)
}
func (o admObs) OnNewRtmpPubSession(s *rtmp.ServerSession) error {
	return o.c.sm.OnNewRtmpPubSession(s)
}
func (o admObs) OnDelRtmpPubSession(s *rtmp.ServerSession) { o.c.sm.OnDelRtmpPubSession(s) }
func (o admObs) OnNewRtmpSubSession(s *rtmp.ServerSession) error {
	return o.c.sm.OnNewRtmpSubSession(s)
}
func (o admObs) OnDelRtmpSubSession(s *rtmp.ServerSession) { o.c.sm.OnDelRtmpSubSession(s) }

func (o admObs) OnNewRtspSessionConnect(s *rtsp.ServerCommandSession) {
	o.c.sm.OnNewRtspSessionConnect(s)
}
func (o admObs) OnDelRtspSession(s *rtsp.ServerCommandSession) { o.c.sm.OnDelRtspSession(s) }
func (o admObs) OnNewRtspPubSession(s *rtsp.PubSession) error {
	o.learn(s.UniqueKey())
	if o.c.cur != nil {
		o.c.cur.rtspPub = s
	}
	return o.c.sm.OnNewRtspPubSession(s)
}
func (o admObs) OnDelRtspPubSession(s *rtsp.PubSession) { o.c.sm.OnDelRtspPubSession(s) }
func (o admObs) OnNewRtspSubSessionDescribe(s *rtsp.SubSession) (bool, []byte) {
	o.learn(s.UniqueKey())
	if o.c.cur != nil {
		o.c.cur.rtspSub = s
	}
	return o.c.sm.OnNewRtspSubSessionDescribe(s)
}
func (o admObs) OnNewRtspSubSessionPlay(s *rtsp.SubSession) error {
	return o.c.sm.OnNewRtspSubSessionPlay(s)
}
func (o admObs) OnDelRtspSubSession(s *rtsp.SubSession) { o.c.sm.OnDelRtspSubSession(s) }

// observer of the stub origin / push target sessions
type admOriginObs struct {
	ch chan *rtmp.ServerSession
}

func (o *admOriginObs) OnRtmpConnect(s *rtmp.ServerSession, opa rtmp.ObjectPairArray) {}
func (o *admOriginObs) OnNewRtmpPubSession(s *rtmp.ServerSession) error {
	s.SetPubSessionObserver(admNullAv{})
	o.ch <- s
	return nil
}
func (o *admOriginObs) OnDelRtmpPubSession(s *rtmp.ServerSession) {}
func (o *admOriginObs) OnNewRtmpSubSession(s *rtmp.ServerSession) error {
	o.ch <- s
	return nil
}
func (o *admOriginObs) OnDelRtmpSubSession(s *rtmp.ServerSession) {}

type admNullAv struct{}

func (admNullAv) OnReadRtmpAvMsg(msg base.RtmpMsg) {}

func admConf(static string, pushAddrs []string) []byte {
	var pl []string
	for _, a := range pushAddrs {
		pl = append(pl, strconv.Quote(a))
	}
	return []byte(`{"conf_version":"v0.4.1",
"rtmp":{"enable":false,"addr":"","rtmps_enable":false,"gop_num":0,"single_gop_max_frame_num":0,"merge_write_size":0},
"in_session":{"add_dummy_audio_enable":false,"add_dummy_audio_wait_audio_ms":150},
"default_http":{},
"httpflv":{"enable":false,"enable_https":false,"url_pattern":"/","gop_num":0,"single_gop_max_frame_num":0},
"hls":{"enable":false,"enable_https":false,"url_pattern":"/hls/","out_path":"/nonexistent/","fragment_duration_ms":3000,"fragment_num":6,"delete_threshold":6,"cleanup_mode":0,"use_memory_as_disk_flag":false,"sub_session_timeout_ms":30000,"sub_session_hash_key":""},
"httpts":{"enable":true,"enable_https":false,"url_pattern":"/","gop_num":0,"single_gop_max_frame_num":0},
"rtsp":{"enable":false,"addr":"","rtsps_enable":false,"out_wait_key_frame_flag":true,"auth_enable":false,"auth_method":1,"username":"","password":"","ws_rtsp_enable":false,"ws_rtsp_addr":""},
"record":{"enable_flv":false,"flv_out_path":"","enable_mpegts":false,"mpegts_out_path":""},
"relay_push":{"enable":` + strconv.FormatBool(len(pushAddrs) > 0) + `,"addr_list":[` + strings.Join(pl, ",") + `]},
"static_relay_pull":{"enable":` + strconv.FormatBool(static != "") + `,"addr":` + strconv.Quote(static) + `},
"http_api":{"enable":false,"addr":""},
"server_id":"1",
"http_notify":{"enable":false},
"simple_auth":{},
"pprof":{"enable":false,"addr":""},
"log":{"level":5,"filename":"","is_to_stdout":false,"is_rotate_daily":false,"short_file_flag":false,"timestamp_flag":false,"timestamp_with_ms_flag":false,"level_flag":false,"assert_behavior":1},
"debug":{"log_group_interval_sec":0,"log_group_max_group_num":0,"log_group_max_sub_num_per_group":0}}`)
}

func newAdmCase(cfg map[string]string) (*admCase, error) {
	httpflv.SubSessionWriteChanSize = 0
	httpts.SubSessionWriteChanSize = 0
	c := &admCase{
		nh: &admNotify{}, sess: map[string]*admSess{}, keyName: map[string]string{}, pipes: map[string]int{},
		lns: map[string]*admListener{}, att: map[string]*admAttempt{}, attCount: map[string]int{}, rtspUrl: map[string]bool{},
		attByName: map[string]*admAttempt{}, push: map[string]*admPush{},
	}
	static := ""
	if cfg["static"] == "1" {
		l, err := newAdmListener()
		if err != nil {
			return nil, err
		}
		c.static = l
		static = l.addr()
	}
	var pushAddrs []string
	np, _ := strconv.Atoi(cfg["push"])
	for i := 0; i < np; i++ {
		l, err := newAdmListener()
		if err != nil {
			return nil, err
		}
		c.pushLns = append(c.pushLns, l)
		pushAddrs = append(pushAddrs, l.addr())
	}
	conf := admConf(static, pushAddrs)
	c.sm = logic.NewServerManager(func(option *logic.Option) {
		option.ConfRawContent = conf
		option.NotifyHandler = c.nh
		option.Authentication = admAuth{}
	})
	c.rtmpSrv = rtmp.NewServer("", admObs{c})
	c.rtspSrv = rtsp.NewServer("", admObs{c}, rtsp.ServerAuthConfig{})
	c.originObs = &admOriginObs{ch: make(chan *rtmp.ServerSession, 16)}
	c.originSrv = rtmp.NewServer("", c.originObs)
	return c, nil
}

func (c *admCase) cleanup() {
	for _, s := range c.sess {
		if s.conn != nil {
			s.conn.release()
		}
	}
	for _, s := range c.sess {
		if s.done != nil {
			select {
			case <-s.done:
			case <-time.After(2 * time.Second):
			}
		}
	}
	for _, a := range c.attByName {
		if a.conn != nil {
			_ = a.conn.Close()
		}
		if a.origin != nil {
			_ = a.origin.Dispose()
		}
	}
	for _, p := range c.push {
		if p.conn != nil {
			_ = p.conn.Close()
		}
		if p.origin != nil {
			_ = p.origin.Dispose()
		}
	}
	for _, l := range c.lns {
		l.close()
	}
	if c.static != nil {
		c.static.close()
	}
	for _, l := range c.pushLns {
		l.close()
	}
	if !c.disposed {
		c.disposed = true
		admGuarded(c.sm.Dispose)
	}
	if c.api != nil {
		c.api.VerifClose()
	}
}

// admGuarded runs a call into lal that a broken tree may never return from (e.g. a second
// Group.Dispose blocks on the group's exit channel) without hanging the whole run.
func admGuarded(f func()) bool {
	done := make(chan struct{})
	go func() {
		defer func() { _ = recover(); close(done) }()
		f()
	}()
	select {
	case <-done:
		return true
	case <-time.After(admWaitDur()):
		atomic.AddInt32(&admTimeouts, 1)
		return false
	}
}

// ---------------------------------------------------------------------------
// client-side byte scripts

// the bytes an RTMP client sends up to publish / play, built here (not with lal's MessagePacker, whose
// buffer handling is itself under test): handshake, SetChunkSize, connect, createStream, publish | play
func rtmpCmd(csid int, typeid uint8, msid int, body []byte) []byte {
	h := base.RtmpHeader{Csid: csid, MsgLen: uint32(len(body)), MsgTypeId: typeid, MsgStreamId: msid, TimestampAbs: 0}
	return rtmp.Message2Chunks(body, &h)
}

func rtmpClientScript(app, streamWithQuery string, publish bool) []byte {
	var b bytes.Buffer
	b.WriteByte(3)
	b.Write(make([]byte, 1536)) // C1, simple handshake (version field zero)
	b.Write(make([]byte, 1536)) // C2
	b.Write(rtmpCmd(2, base.RtmpTypeIdSetChunkSize, 0, []byte{0, 0, 0x10, 0}))
	var m bytes.Buffer
	_ = rtmp.Amf0.WriteString(&m, "connect")
	_ = rtmp.Amf0.WriteNumber(&m, 1)
	_ = rtmp.Amf0.WriteObject(&m, []rtmp.ObjectPair{{Key: "app", Value: app}, {Key: "type", Value: "nonprivate"},
		{Key: "flashVer", Value: "probe"}, {Key: "tcUrl", Value: "rtmp://127.0.0.1/" + app}})
	b.Write(rtmpCmd(3, base.RtmpTypeIdCommandMessageAmf0, 0, m.Bytes()))
	m.Reset()
	_ = rtmp.Amf0.WriteString(&m, "createStream")
	_ = rtmp.Amf0.WriteNumber(&m, 2)
	_ = rtmp.Amf0.WriteNull(&m)
	b.Write(rtmpCmd(3, base.RtmpTypeIdCommandMessageAmf0, 0, m.Bytes()))
	b.Write(rtmpPublishOrPlay(streamWithQuery, publish, 3))
	return b.Bytes()
}

// one publish / play command message with transaction id tid
func rtmpPublishOrPlay(streamWithQuery string, publish bool, tid int) []byte {
	var m bytes.Buffer
	if publish {
		_ = rtmp.Amf0.WriteString(&m, "publish")
	} else {
		_ = rtmp.Amf0.WriteString(&m, "play")
	}
	_ = rtmp.Amf0.WriteNumber(&m, float64(tid))
	_ = rtmp.Amf0.WriteNull(&m)
	_ = rtmp.Amf0.WriteString(&m, streamWithQuery)
	if publish {
		_ = rtmp.Amf0.WriteString(&m, "live")
	}
	return rtmpCmd(5, base.RtmpTypeIdCommandMessageAmf0, 1, m.Bytes())
}

func rtmpAudioMsg(ts uint32) []byte {
	h := base.RtmpHeader{Csid: 6, MsgLen: 4, MsgTypeId: base.RtmpTypeIdAudio, MsgStreamId: 1, TimestampAbs: ts}
	return rtmp.Message2Chunks([]byte{0xaf, 0x01, 0x21, 0x00}, &h)
}

func rtspRequest(method, stream, query string, cseq int, body string) []byte {
	uri := "rtsp://127.0.0.1:5544/live/" + stream
	if query != "" {
		uri += "?" + query
	}
	s := fmt.Sprintf("%s %s RTSP/1.0\r\nCSeq: %d\r\nUser-Agent: probe\r\n", method, uri, cseq)
	if body != "" {
		s += fmt.Sprintf("Content-Type: application/sdp\r\nContent-Length: %d\r\n", len(body))
	}
	s += "\r\n" + body
	return []byte(s)
}

// ---------------------------------------------------------------------------

func (c *admCase) nameOfKey(key string) string {
	if key == "" {
		return "-"
	}
	if n, ok := c.keyName[key]; ok {
		return n
	}
	return "?" + strings.TrimRight(key, "0123456789")
}

func (c *admCase) startShell(s *admSess, isRtsp bool) {
	s.done = make(chan struct{})
	go func() {
		defer close(s.done)
		if isRtsp {
			c.rtspSrv.VerifHandleTcpConnect(s.conn)
		} else {
			c.rtmpSrv.VerifHandleTcpConnect(s.conn)
		}
	}()
}

func (c *admCase) originListener(stream string) *admListener {
	if l, ok := c.lns[stream]; ok {
		return l
	}
	l, err := newAdmListener()
	if err != nil {
		panic(err)
	}
	c.lns[stream] = l
	return l
}

func admStreamOfUrlStream(stream string) string { return stream }

// after every op: pick up relay attempts that started, finished pull sessions,
// push attempts; then drain the notification thread.
func (c *admCase) settle() {
	views := c.sm.VerifView()
	for _, v := range views {
		st := v.StreamName
		a := c.att[st]
		if v.IsSessionPulling && (a == nil || a.state == "finished") {
			// a new attempt was started by this op: wait for it to reach the stub
			c.attCount[st]++
			na := &admAttempt{name: fmt.Sprintf("p%s_%d", strings.TrimPrefix(st, "s"), c.attCount[st]), stream: st, state: "held"}
			// the pull dials the URL of the last start_relay_pull for this stream, or the static origin
			conn, first, ok := admWaitAny(c.lns[st], c.static)
			if !ok {
				c.anomalies = append(c.anomalies, "attempt-never-connected")
				na.state = "finished"
			} else {
				na.conn = conn
				// the url of the last start_relay_pull decides the protocol; the static origin is rtmp
				na.rtsp = first && c.rtspUrl[st]
			}
			c.att[st] = na
			c.attByName[na.name] = na
			a = na
		}
		if a != nil && a.state == "attached" &&
			((a.sess != nil && a.sess.VerifIsClosed()) || (a.rsess != nil && a.rsess.VerifIsClosed())) {
			from := c.nseen
			c.waitPullStop(a, from)
		}
		// pushes
		for i, pv := range v.Push {
			k := st + "|" + strconv.Itoa(i)
			p := c.push[k]
			if p == nil {
				p = &admPush{url: pv.Url, state: "idle"}
				c.push[k] = p
			}
			if pv.IsPushing && p.state == "idle" {
				idx := c.pushIndex(pv.Url)
				if idx < 0 {
					c.anomalies = append(c.anomalies, "push-unknown-target")
					continue
				}
				conn, ok := c.pushLns[idx].waitConn()
				if !ok {
					c.anomalies = append(c.anomalies, "push-never-connected")
					continue
				}
				p.conn = conn
				p.state = "held"
			}
			if p.state == "attached" && pv.Session == "" {
				// stopPushIfNeeded disposed it: wait for the push goroutine to report
				c.waitPushIdle(st, i)
				p.state = "idle"
				p.origin = nil
			}
		}
	}
	c.sm.VerifNotifyBarrier()
}

func (c *admCase) pushIndex(url string) int {
	for i, l := range c.pushLns {
		if strings.Contains(url, "//"+l.addr()+"/") {
			return i
		}
	}
	return -1
}

func (c *admCase) pushView(stream string, i int) (logic.VerifPushView, bool) {
	for _, v := range c.sm.VerifView() {
		if v.StreamName == stream && i < len(v.Push) {
			return v.Push[i], true
		}
	}
	return logic.VerifPushView{}, false
}

func (c *admCase) waitPushIdle(stream string, i int) {
	deadline := time.Now().Add(admWaitDur())
	for {
		pv, ok := c.pushView(stream, i)
		if !ok || (!pv.IsPushing && pv.Session == "") {
			return
		}
		if time.Now().After(deadline) {
			c.anomalies = append(c.anomalies, "push-stop-timeout")
			return
		}
		time.Sleep(50 * time.Microsecond)
	}
}

func (c *admCase) waitPullStop(a *admAttempt, from int) {
	deadline := time.Now().Add(admWaitDur())
	for {
		c.nh.mu.Lock()
		found := false
		for _, e := range c.nh.events[from:] {
			// (the end of a pull whose url could not be parsed is reported with an empty stream name: match its key)
			if e.kind == "RE" && (e.stream == a.stream || (a.key != "" && e.key == a.key)) {
				found = true
				if a.key == "" {
					a.key = e.key
					c.keyName[e.key] = a.name
				}
			}
		}
		c.nh.mu.Unlock()
		if found {
			a.state = "finished"
			return
		}
		if time.Now().After(deadline) {
			c.anomalies = append(c.anomalies, "pull-stop-timeout")
			a.state = "finished"
			return
		}
		time.Sleep(50 * time.Microsecond)
	}
}

func (c *admCase) render() string {
	views := c.sm.VerifView()
	stats := map[string]base.StatGroup{}
	for _, g := range c.sm.StatAllGroup() {
		stats[g.StreamName] = g
	}
	var gs []string
	for _, v := range views {
		if v.Pipeline != "" {
			if _, ok := c.pipes[v.Pipeline]; !ok {
				c.pipes[v.Pipeline] = len(c.pipes) + 1
			}
		}
		// learn keys of pull sessions that are attached
		if a := c.att[v.StreamName]; a != nil && v.RtmpPull+v.RtspPull != "" && a.key == "" && a.state != "finished" {
			a.key = v.RtmpPull + v.RtspPull
			c.keyName[a.key] = a.name
		}
		pipe := "-"
		if v.Pipeline != "" {
			pipe = "k" + strconv.Itoa(c.pipes[v.Pipeline])
		}
		sg := stats[v.StreamName]
		var subs []string
		for _, s := range sg.StatSubs {
			subs = append(subs, c.nameOfKey(s.SessionId))
		}
		sort.Strings(subs)
		sub := "-"
		if len(subs) > 0 {
			sub = strings.Join(subs, "+")
		}
		var push []string
		for _, p := range v.Push {
			f := "0"
			if p.IsPushing {
				f = "1"
			}
			if p.Session != "" {
				f += "a"
			}
			push = append(push, f)
		}
		pu := "-"
		if len(push) > 0 {
			pu = strings.Join(push, "+")
		}
		en := 0
		if v.ApiEnable {
			en = 1
		}
		gs = append(gs, fmt.Sprintf("%s:%s,%s,%s,%s,%s,%s:%s:%d:%d:%s:%s:%s:%s:%s", v.StreamName,
			c.nameOfKey(v.RtmpPub), c.nameOfKey(v.RtspPub), c.nameOfKey(v.CustomizePub), c.nameOfKey(v.PsPub),
			c.nameOfKey(v.RtmpPull), c.nameOfKey(v.RtspPull), tokBool(v.IsSessionPulling), v.StartCount, en, pipe,
			c.nameOfKey(sg.StatPub.SessionId), c.nameOfKey(sg.StatPull.SessionId), sub, pu))
	}
	view := "-"
	if len(gs) > 0 {
		view = strings.Join(gs, "|")
	}
	evs := c.nh.from(c.nseen)
	c.nseen += len(evs)
	var es []string
	for _, e := range evs {
		if (e.kind == "RS" || e.kind == "RE") && c.keyName[e.key] == "" {
			if a := c.att[e.stream]; a != nil && a.key == "" {
				a.key = e.key
				c.keyName[e.key] = a.name
			}
		}
		es = append(es, fmt.Sprintf("%s:%s:%s%s", e.kind, c.nameOfKey(e.key), tokBool(e.hasIn), tokBool(e.hasOut)))
	}
	ev := "-"
	if len(es) > 0 {
		ev = strings.Join(es, "+")
	}
	return view + "/" + ev
}

func (c *admCase) viewOf(stream string) (logic.VerifGroupView, bool) {
	for _, v := range c.sm.VerifView() {
		if v.StreamName == stream {
			return v, true
		}
	}
	return logic.VerifGroupView{}, false
}

func (c *admCase) realKey(stream, name string) string {
	if s, ok := c.sess[name]; ok && s.key != "" {
		return s.key
	}
	if a, ok := c.attByName[name]; ok && a.key != "" {
		return a.key
	}
	// a syntactically valid id of the right kind that names no session
	switch {
	case strings.HasPrefix(name, "p"):
		return base.UkPreRtmpPullSession + "99999999"
	default:
		if s, ok := c.sess[name]; ok {
			switch s.kind {
			case "ap":
				return base.UkPreRtspPubSession + "99999999"
			case "ds":
				return base.UkPreRtspSubSession + "99999999"
			case "fs":
				return base.UkPreFlvSubSession + "99999999"
			case "ts":
				return base.UkPreTsSubSession + "99999999"
			case "pp":
				return base.UkPrePsPubSession + "99999999"
			}
		}
		return base.UkPreRtmpServerSession + "99999999"
	}
}

func (c *admCase) doOp(op string) string {
	f := strings.Split(op, ".")
	stream := func(i int) string { return "s" + f[i] }
	switch f[0] {
	case "rp", "rs": // rtmp publish / play arrival: rp.<stream>.<sid>[.deny]
		name := "c" + f[2]
		if _, dup := c.sess[name]; dup {
			return "x"
		}
		q := ""
		if len(f) > 3 {
			if strings.HasPrefix(f[3], "L") { // L<n>: n bytes of URL parameters
				q = "?p=" + strings.Repeat("x", admInt(f[3][1:]))
			} else if strings.HasPrefix(f[3], "w") { // w<k>: the k-th write of the server shell on this connection fails, and every later one
			} else {
				q = "?" + f[3] + "=1"
			}
		}
		s := &admSess{name: name, kind: f[0], stream: stream(1), conn: newAdmConn("10.0.0.1:" + f[2])}
		c.sess[name] = s
		c.cur = s
		if len(f) > 3 && strings.HasPrefix(f[3], "w") {
			s.conn.failWritesFrom(admInt(f[3][1:]))
		}
		c.startShell(s, false)
		s.conn.feed(rtmpClientScript("live", stream(1)+q, f[0] == "rp"))
		r := s.conn.waitIdle(s.done)
		c.cur = nil
		switch r {
		case "idle":
			return "a"
		case "done":
			s.refused = true
			s.gone = true
			return "r"
		}
		return r
	case "rp2", "rs2": // a further publish / play command naming <stream> on the connection of RTMP session N: rp2.<stream>.<N>
		s := c.sess["c"+f[2]]
		if s == nil || (s.kind != "rp" && s.kind != "rs") || s.gone || s.conn.isClosed() {
			return "x"
		}
		s.conn.feed(rtmpPublishOrPlay(stream(1), f[0] == "rp2", 4))
		r := s.conn.waitIdle(s.done)
		switch r {
		case "idle":
			return "a"
		case "done":
			s.gone = true
			return "r"
		}
		return r
	case "ap", "ds": // rtsp announce / describe: ap.<stream>.<sid>[.deny]
		name := "c" + f[2]
		if _, dup := c.sess[name]; dup {
			return "x"
		}
		q := ""
		if len(f) > 3 && !strings.HasPrefix(f[3], "w") {
			q = f[3] + "=1"
		}
		s := &admSess{name: name, kind: f[0], stream: stream(1), conn: newAdmConn("10.0.0.2:" + f[2])}
		if f[0] == "ap" && len(f) > 3 && strings.HasPrefix(f[3], "w") { // ap.<stream>.<sid>.w1: the response to ANNOUNCE cannot be written
			s.conn.failWritesFrom(admInt(f[3][1:]))
		}
		s.mates = &[]*admSess{s}
		c.sess[name] = s
		c.cur = s
		c.startShell(s, true)
		if f[0] == "ap" {
			s.conn.feed(rtspRequest("ANNOUNCE", stream(1), q, 1, admSdpOf(name)))
		} else {
			s.conn.feed(rtspRequest("DESCRIBE", stream(1), q, 1, ""))
		}
		r := s.conn.waitIdle(s.done)
		c.cur = nil
		switch r {
		case "idle":
			if f[0] == "ap" {
				c.waitSdpOf(stream(1), name)
			}
			if f[0] == "ap" && len(f) > 3 && strings.HasPrefix(f[3], "w") {
				c.waitConnClosed(s.conn) // the failed response write closes the connection (write queue of the command session)
			}
			return "a"
		case "done":
			s.refused = true
			s.gone = true
			return "r"
		}
		return r
	case "ap2", "ds2": // a further ANNOUNCE / DESCRIBE on the command connection of session N: ap2.<stream>.<N>.<new sid>[.deny]
		first := c.sess["c"+f[2]]
		name := "c" + f[3]
		if _, dup := c.sess[name]; dup {
			return "x"
		}
		if first == nil || first.mates == nil || first.gone || first.conn.isClosed() {
			return "x"
		}
		q := ""
		if len(f) > 4 {
			q = f[4] + "=1"
		}
		s := &admSess{name: name, kind: f[0][:2], stream: stream(1), conn: first.conn, done: first.done, mates: first.mates}
		*s.mates = append(*s.mates, s)
		c.sess[name] = s
		c.cur = s
		if f[0] == "ap2" {
			s.conn.feed(rtspRequest("ANNOUNCE", stream(1), q, 3, admSdpOf(name)))
		} else {
			s.conn.feed(rtspRequest("DESCRIBE", stream(1), q, 3, ""))
		}
		r := s.conn.waitIdle(s.done)
		c.cur = nil
		switch r {
		case "idle":
			if f[0] == "ap2" {
				c.waitSdpOf(stream(1), name)
			}
			return "a"
		case "done":
			s.refused = true
			s.connDone()
			return "r"
		}
		return r
	case "pl": // rtsp play of a described session: pl.<sid>
		s := c.sess["c"+f[1]]
		if s == nil || s.kind != "ds" || s.gone || s.conn.isClosed() {
			return "x"
		}
		if len(f) > 2 && f[2] == "w" { // pl.<sid>.w: the response to PLAY cannot be written
			s.conn.failWritesFrom(1)
		}
		s.conn.feed(rtspRequest("PLAY", s.stream, "", 2, ""))
		r := s.conn.waitIdle(s.done)
		switch r {
		case "idle":
			if len(f) > 2 && f[2] == "w" {
				c.waitConnClosed(s.conn)
			}
			return "a"
		case "done":
			s.connDone()
			return "r"
		}
		return r
	case "fs", "ts": // http-flv / http-ts subscriber: fs.<stream>.<sid>[.deny]
		name := "c" + f[2]
		if _, dup := c.sess[name]; dup {
			return "x"
		}
		s := &admSess{name: name, kind: f[0], stream: stream(1), conn: newAdmConn("10.0.0.3:" + f[2])}
		q := ""
		if len(f) > 3 {
			q = "?" + f[3] + "=1"
		}
		ext := ".flv"
		if f[0] == "ts" {
			ext = ".ts"
		}
		urlCtx, err := base.ParseUrl("http://127.0.0.1:8080/live/"+stream(1)+ext+q, 80)
		if err != nil {
			return "err-url"
		}
		c.sess[name] = s
		var e error
		if f[0] == "fs" {
			s.flv = httpflv.NewSubSession(s.conn, urlCtx, false, "")
			s.key = s.flv.UniqueKey()
			c.keyName[s.key] = name
			e = c.sm.OnNewHttpflvSubSession(s.flv)
		} else {
			s.ts = httpts.NewSubSession(s.conn, urlCtx, false, "")
			s.key = s.ts.UniqueKey()
			c.keyName[s.key] = name
			e = c.sm.OnNewHttptsSubSession(s.ts)
		}
		if e != nil {
			// what HttpServerHandler.ServeSubSession does on refusal
			if s.flv != nil {
				_ = s.flv.Dispose()
			} else {
				_ = s.ts.Dispose()
			}
			s.refused = true
			s.gone = true
			return "r"
		}
		return "a"
	case "cp": // customize publisher: cp.<stream>.<sid>
		name := "c" + f[2]
		if _, dup := c.sess[name]; dup {
			return "x"
		}
		ctx, err := c.sm.AddCustomizePubSession(stream(1))
		s := &admSess{name: name, kind: "cp", stream: stream(1)}
		c.sess[name] = s
		if err != nil {
			s.refused = true
			s.gone = true
			return "r"
		}
		s.cust = ctx
		s.key = ctx.UniqueKey()
		c.keyName[s.key] = name
		return "a"
	case "pp": // start_rtp_pub: pp.<stream>.<sid>
		name := "c" + f[2]
		if _, dup := c.sess[name]; dup {
			return "x"
		}
		port := 0
		if len(f) > 3 && f[3] == "b" { // pp.<stream>.<sid>.b: a udp port that cannot be bound (the harness holds it)
			p, release, err := admBusyPort(false)
			if err != nil {
				return "err-busy-port"
			}
			defer release()
			port = p
		}
		resp := c.sm.CtrlStartRtpPub(base.ApiCtrlStartRtpPubReq{StreamName: stream(1), Port: port, TimeoutMs: 0, IsTcpFlag: 0})
		return c.rtpPubResult(name, stream(1), resp)
	case "hpp": // start_rtp_pub through the HTTP API: hpp.<stream|a>.<sid>.<port>.<timeout_ms>.<is_tcp_flag> (fields: a z q or an integer)
		name := "c" + f[2]
		if _, dup := c.sess[name]; dup {
			return "x"
		}
		var kv []string
		if f[1] != "a" {
			kv = append(kv, `"stream_name":`+strconv.Quote(stream(1)))
		}
		if f[3] == "b" {
			// an explicit port that cannot be bound: the harness holds a socket of the kind the request asks for on it
			tcp := f[5] != "a" && f[5] != "z" && f[5] != "q" && admInt(f[5]) != 0
			p, release, err := admBusyPort(tcp)
			if err != nil {
				return "err-busy-port"
			}
			defer release()
			kv = append(kv, `"port":`+strconv.Itoa(p))
		} else {
			kv = admJsonField(kv, "port", f[3])
		}
		kv = admJsonField(kv, "timeout_ms", f[4])
		kv = admJsonField(kv, "is_tcp_flag", f[5])
		var resp base.ApiCtrlStartRtpPubResp
		if e := c.apiCall("POST", "/api/ctrl/start_rtp_pub", "{"+strings.Join(kv, ",")+"}", &resp); e != "" {
			return e
		}
		if resp.ErrorCode == base.ErrorCodeParamMissing {
			return strconv.Itoa(resp.ErrorCode)
		}
		r := c.rtpPubResult(name, stream(1), resp)
		if resp.ErrorCode == base.ErrorCodeSucc {
			sec, _ := c.sm.VerifPsPubTimeoutSec(stream(1))
			tcp := "0"
			if isTcp, _ := c.sm.VerifPsPubIsTcp(stream(1)); isTcp {
				tcp = "1"
			}
			r += "~" + strconv.Itoa(int(sec)) + ":" + tcp
		}
		return r
	case "gone": // the connection of a session ends: gone.<sid>
		s := c.sess["c"+f[1]]
		if s == nil || s.gone {
			return "x"
		}
		s.connDone()
		switch s.kind {
		case "rp", "rs", "ap", "ds":
			s.conn.release()
			select {
			case <-s.done:
			case <-time.After(admWaitDur()):
				return "timeout"
			}
		case "fs":
			_ = s.flv.Dispose()
			c.sm.OnDelHttpflvSubSession(s.flv)
		case "ts":
			_ = s.ts.Dispose()
			c.sm.OnDelHttptsSubSession(s.ts)
		case "cp":
			c.sm.DelCustomizePubSession(s.cust)
		case "pp":
			// a PS publisher ends only through kick / dispose
			s.gone = false
			return "x"
		}
		return "-"
	case "kick": // kick.<stream>.<name>
		name := f[2]
		key := c.realKey(stream(1), name)
		resp := c.sm.CtrlKickSession(base.ApiCtrlKickSessionReq{StreamName: stream(1), SessionId: key})
		return c.kickResult(name, stream(1), key, resp)
	case "hkick": // kick_session through the HTTP API: hkick.<stream|a>.<name|a>
		var kv []string
		name, key, st := f[2], "", ""
		if f[1] != "a" {
			st = stream(1)
			kv = append(kv, `"stream_name":`+strconv.Quote(st))
		}
		if name != "a" {
			if st != "" {
				key = c.realKey(st, name)
			} else {
				key = c.realKey("", name)
			}
			kv = append(kv, `"session_id":`+strconv.Quote(key))
		}
		var resp base.ApiCtrlKickSessionResp
		if e := c.apiCall("POST", "/api/ctrl/kick_session", "{"+strings.Join(kv, ",")+"}", &resp); e != "" {
			return e
		}
		return c.kickResult(name, st, key, resp)
	case "spull": // start_relay_pull: spull.<stream>.<retry>.<autostop ms>  (retry / autostop may be negative: n1 = -1)
		l := c.originListener(stream(1))
		isRtsp := len(f) > 4 && f[4] == "rtsp" // spull.<stream>.<retry>.<autostop>.rtsp: an rtsp:// url (interleaved)
		scheme := "rtmp://"
		if isRtsp {
			scheme = "rtsp://"
		}
		if len(f) > 4 && (f[4] == "bad" || f[4] == "badrtsp" || f[4] == "http") {
			// a url that cannot be parsed (rtmp / rtsp) or whose scheme lal has no pull session for: the attempt starts
			// (start_relay_pull answers with its session id) and fails by itself before any connection exists
			url := map[string]string{"bad": "rtmp://[::1/live/", "badrtsp": "rtsp://[::1/live/", "http": "http://127.0.0.1:9/live/"}[f[4]] + stream(1)
			from := c.nseen
			resp := c.sm.CtrlStartRelayPull(base.ApiCtrlStartRelayPullReq{Url: url, StreamName: stream(1),
				PullTimeoutMs: 30000, PullRetryNum: admInt(f[2]), AutoStopPullAfterNoOutMs: admInt(f[3]), RtspMode: base.RtspModeTcp})
			st := stream(1)
			c.rtspUrl[st] = f[4] != "bad"
			if resp.ErrorCode == base.ErrorCodeSucc && resp.Data.SessionId != "" {
				c.attCount[st]++
				na := &admAttempt{name: fmt.Sprintf("p%s_%d", f[1], c.attCount[st]), stream: st, state: "released", key: resp.Data.SessionId, rtsp: f[4] != "bad"}
				c.keyName[na.key] = na.name
				c.att[st] = na
				c.attByName[na.name] = na
				c.waitPullStop(na, from)
				return "0:" + na.name
			}
			return strconv.Itoa(resp.ErrorCode) + ":" + admReason(resp.Desp)
		}
		req := base.ApiCtrlStartRelayPullReq{Url: scheme + l.addr() + "/live/" + stream(1), StreamName: stream(1),
			PullTimeoutMs: 30000, PullRetryNum: admInt(f[2]), AutoStopPullAfterNoOutMs: admInt(f[3]), RtspMode: base.RtspModeTcp}
		resp := c.sm.CtrlStartRelayPull(req)
		return c.startPullResult(f[1], isRtsp, l, resp)
	case "hpull": // start_relay_pull through the HTTP API: hpull.<stream>.<pull_timeout_ms>.<pull_retry_num>.<auto_stop..>.<rtsp_mode>.<flags>
		// fields: a (key absent) z (null) q (a string) or an integer; flags: - or letters r (rtsp:// url) u (no url key) n (no stream_name key)
		l := c.originListener(stream(1))
		fl := f[6]
		isRtsp := strings.Contains(fl, "r")
		scheme := "rtmp://"
		if isRtsp {
			scheme = "rtsp://"
		}
		var kv []string
		if !strings.Contains(fl, "u") {
			kv = append(kv, `"url":`+strconv.Quote(scheme+l.addr()+"/live/"+stream(1)))
		}
		if !strings.Contains(fl, "n") {
			kv = append(kv, `"stream_name":`+strconv.Quote(stream(1)))
		}
		kv = admJsonField(kv, "pull_timeout_ms", f[2])
		kv = admJsonField(kv, "pull_retry_num", f[3])
		kv = admJsonField(kv, "auto_stop_pull_after_no_out_ms", f[4])
		kv = admJsonField(kv, "rtsp_mode", f[5])
		var resp base.ApiCtrlStartRelayPullResp
		if e := c.apiCall("POST", "/api/ctrl/start_relay_pull", "{"+strings.Join(kv, ",")+"}", &resp); e != "" {
			return e
		}
		if resp.ErrorCode == base.ErrorCodeParamMissing {
			return strconv.Itoa(resp.ErrorCode)
		}
		r := c.startPullResult(f[1], isRtsp, l, resp)
		// what reached the group
		if v, ok := c.viewOf(stream(1)); ok {
			to, mode, _ := c.sm.VerifPullSettings(stream(1))
			r += "~" + admTok(to) + ":" + admTok(v.PullRetryNum) + ":" + admTok(v.AutoStopPullAfterNoOutMs) + ":" + admTok(mode)
		} else {
			r += "~nogroup"
		}
		return r
	case "xpull": // stop_relay_pull: xpull.<stream>
		resp := c.sm.CtrlStopRelayPull(stream(1))
		if resp.ErrorCode == base.ErrorCodeSucc {
			return "0:" + c.nameOfKey(resp.Data.SessionId)
		}
		return strconv.Itoa(resp.ErrorCode)
	case "hxpull": // stop_relay_pull through the HTTP API: hxpull.<stream|a>
		path := "/api/ctrl/stop_relay_pull"
		if f[1] != "a" {
			path += "?stream_name=" + stream(1)
		}
		var resp base.ApiCtrlStopRelayPullResp
		if e := c.apiCall("GET", path, "", &resp); e != "" {
			return e
		}
		if resp.ErrorCode == base.ErrorCodeSucc {
			return "0:" + c.nameOfKey(resp.Data.SessionId)
		}
		return strconv.Itoa(resp.ErrorCode)
	case "sdp": // whose SDP does the group of <stream> hold: sdp.<stream>
		return c.sdpOwner(stream(1))
	case "psucc", "psuccm", "pfail", "pdone": // outcome of attempt p<stream>_<i>: psucc.<stream>.<i>
		// psuccm: the origin sends one audio message (and a ping request) in the same write as its answer to play
		ai := f[2]
		if ai == "0" { // the latest attempt of that stream
			ai = strconv.Itoa(c.attCount[stream(1)])
		}
		a := c.attByName["p"+f[1]+"_"+ai]
		if a == nil {
			return "x"
		}
		from := c.nseen
		switch f[0] {
		case "psucc", "psuccm":
			if a.state != "held" {
				return "x"
			}
			withMedia := f[0] == "psuccm"
			a.state = "released"
			a.odone = make(chan struct{})
			played := make(chan struct{})
			before := c.flvWritten()
			var cork *admCorkConn
			if a.rtsp {
				go func(conn net.Conn, done chan struct{}, sdp string) {
					defer close(done)
					admRtspOrigin(conn, played, sdp)
				}(a.conn, a.odone, admSdpOf(a.name))
			} else {
				oconn := a.conn
				if withMedia {
					cork = &admCorkConn{Conn: a.conn}
					oconn = cork
				}
				go func(conn net.Conn, done chan struct{}) {
					defer close(done)
					c.originSrv.VerifHandleTcpConnect(conn)
				}(oconn, a.odone)
				// the origin sees the play request
				select {
				case a.origin = <-c.originObs.ch:
				case <-time.After(admWaitDur()):
					return "timeout-origin"
				}
				if cork != nil {
					// the answer to play is held back: it leaves in ONE write together with an audio message and a ping request
					ping := rtmpCmd(2, base.RtmpTypeIdUserControl, 0, []byte{0, base.RtmpUserControlPingRequest, 0, 0, 0, 1})
					if err := cork.flush(append(rtmpAudioMsg(40), ping...)); err != nil {
						return "err-origin-write"
					}
				}
			}
			ev, ok := c.nh.waitPull(from, a.stream)
			if !ok {
				return "timeout-notify"
			}
			if a.key == "" {
				a.key = ev.key
				c.keyName[ev.key] = a.name
			}
			if ev.kind == "RS" {
				a.state = "attached"
				if a.rtsp {
					a.rsess = c.sm.VerifRtspPullSession(a.stream)
					// AddRtspPullSession runs on the DESCRIBE answer; let SETUP and PLAY complete too
					select {
					case <-played:
					case <-a.odone:
					case <-time.After(admWaitDur()):
						return "timeout-origin"
					}
				} else if v, ok := c.viewOf(a.stream); ok {
					a.sess = v.RtmpPullSession
				}
				if cork != nil {
					// the pull session answers the ping request once it has handled the audio message in front of it
					deadline := time.Now().Add(admWaitDur())
					for cork.readAfterFlush() == 0 {
						if time.Now().After(deadline) {
							c.anomalies = append(c.anomalies, "pull-ping-timeout")
							break
						}
						time.Sleep(50 * time.Microsecond)
					}
				}
			} else {
				a.state = "finished"
				if cork != nil {
					// the session was disposed; whatever its read loop still does with bytes it holds happens at once
					time.Sleep(3 * time.Millisecond)
				}
			}
			if withMedia {
				return a.name + "~m" + strings.Join(c.flvGrown(before), "+")
			}
		case "pfail":
			if a.state != "held" {
				return "x"
			}
			_ = a.conn.Close()
			c.waitPullStop(a, from)
		case "pdone":
			if a.state != "attached" || (a.origin == nil && !a.rtsp) {
				return "x"
			}
			if a.rtsp {
				_ = a.conn.Close()
			} else {
				_ = a.origin.Dispose()
			}
			c.waitPullStop(a, from)
		}
		return a.name
	case "pushok", "pushfail", "pushdone": // outcome at push target: pushok.<stream>.<target index>
		k := stream(1) + "|" + f[2]
		p := c.push[k]
		if p == nil {
			return "x"
		}
		ti := admInt(f[2])
		switch f[0] {
		case "pushok":
			if p.state != "held" {
				return "x"
			}
			go c.originSrv.VerifHandleTcpConnect(p.conn)
			select {
			case p.origin = <-c.originObs.ch:
			case <-time.After(admWaitDur()):
				return "timeout-target"
			}
			deadline := time.Now().Add(admWaitDur())
			p.state = "attached"
			for {
				pv, ok := c.pushView(stream(1), ti)
				if ok && pv.Session != "" {
					break
				}
				if ok && !pv.IsPushing {
					// the group refused to attach it and the push goroutine reported its end
					p.state = "idle"
					p.origin = nil
					break
				}
				if time.Now().After(deadline) {
					return "timeout-push-attach"
				}
				time.Sleep(50 * time.Microsecond)
			}
		case "pushfail":
			if p.state != "held" {
				return "x"
			}
			_ = p.conn.Close()
			c.waitPushIdle(stream(1), ti)
			p.state = "idle"
		case "pushdone":
			if p.state != "attached" {
				return "x"
			}
			_ = p.origin.Dispose()
			c.waitPushIdle(stream(1), ti)
			p.state = "idle"
			p.origin = nil
		}
		return "-"
	case "tick": // tick.<tickCount>
		if c.disposed { // Dispose made RunLoop, hence the ticker, return
			return "x"
		}
		c.sm.VerifTick(uint32(admInt(f[1])))
		return "-"
	case "adv": // adv.<ms>
		c.sm.VerifShiftPullClock(int64(admInt(f[1])))
		return "-"
	case "dispose":
		if c.disposed {
			return "x"
		}
		c.disposed = true
		if !admGuarded(c.sm.Dispose) {
			return "timeout"
		}
		return "-"
	case "media": // media.<sid>: one audio message from that session
		s := c.sess["c"+f[1]]
		if s == nil {
			return "x"
		}
		before := map[string]int{}
		for n, t := range c.sess {
			if t.kind == "fs" && t.conn != nil {
				before[n] = t.conn.written()
			}
		}
		switch s.kind {
		case "rp":
			if s.gone || s.conn.isClosed() {
				return "x"
			}
			s.conn.feed(rtmpAudioMsg(uint32(100 * (1 + len(before)))))
			if r := s.conn.waitIdle(s.done); r != "idle" {
				s.gone = true
				return "closed"
			}
		case "cp":
			if s.cust == nil {
				return "x"
			}
			var m base.RtmpMsg
			m.Header = base.RtmpHeader{Csid: 6, MsgLen: 4, MsgTypeId: base.RtmpTypeIdAudio, MsgStreamId: 1, TimestampAbs: 100}
			m.Payload = []byte{0xaf, 0x01, 0x21, 0x00}
			if err := s.cust.FeedRtmpMsg(m); err != nil {
				return "x"
			}
		default:
			return "x"
		}
		var got []string
		for n, t := range c.sess {
			if t.kind == "fs" && t.conn != nil && t.conn.written() > before[n] {
				got = append(got, n)
			}
		}
		sort.Strings(got)
		if len(got) == 0 {
			return "m"
		}
		return "m" + strings.Join(got, "+")
	}
	return "unknown-op"
}

// ---------------------------------------------------------------------------
// requests through the real HTTP API server (Listen + RunLoop on a loopback port)

func (c *admCase) apiCall(method, path, body string, out interface{}) string {
	if c.api == nil {
		c.api = logic.NewHttpApiServer("127.0.0.1:0", c.sm)
		if err := c.api.Listen(); err != nil {
			c.api = nil
			return "err-api-listen"
		}
		go func() { _ = c.api.RunLoop() }()
		c.apiClient = &http.Client{Transport: &http.Transport{DisableKeepAlives: true}, Timeout: admWait}
	}
	var rd io.Reader
	if method == "POST" {
		rd = strings.NewReader(body)
	}
	req, err := http.NewRequest(method, "http://"+c.api.VerifAddr()+path, rd)
	if err != nil {
		return "err-api-request"
	}
	resp, err := c.apiClient.Do(req)
	if err != nil {
		return "err-api-do"
	}
	defer resp.Body.Close()
	raw, err := io.ReadAll(resp.Body)
	if err != nil {
		return "err-api-read"
	}
	if err := json.Unmarshal(raw, out); err != nil {
		return "err-api-json"
	}
	return ""
}

// one numeric key of a request body: a = absent, z = null, q = a string, else the integer
func admJsonField(kv []string, key, tok string) []string {
	switch tok {
	case "a":
		return kv
	case "z":
		return append(kv, strconv.Quote(key)+":null")
	case "q":
		return append(kv, strconv.Quote(key)+`:"5"`)
	}
	return append(kv, strconv.Quote(key)+":"+strconv.Itoa(admInt(tok)))
}

func admTok(v int) string {
	if v < 0 {
		return "n" + strconv.Itoa(-v)
	}
	return strconv.Itoa(v)
}

// the answer of start_relay_pull (direct call or HTTP): register the attempt that was started
func (c *admCase) startPullResult(sidx string, isRtsp bool, l *admListener, resp base.ApiCtrlStartRelayPullResp) string {
	st := "s" + sidx
	c.rtspUrl[st] = isRtsp // StartPull stores the url whether or not an attempt starts
	if resp.ErrorCode == base.ErrorCodeSucc && resp.Data.SessionId != "" {
		// the id of the attempt just started
		c.attCount[st]++
		na := &admAttempt{name: fmt.Sprintf("p%s_%d", sidx, c.attCount[st]), stream: st, state: "held", key: resp.Data.SessionId, rtsp: isRtsp}
		c.keyName[na.key] = na.name
		conn, ok := l.waitConn()
		if !ok {
			c.anomalies = append(c.anomalies, "attempt-never-connected")
			na.state = "finished"
		} else {
			na.conn = conn
		}
		c.att[st] = na
		c.attByName[na.name] = na
		return "0:" + na.name
	}
	return strconv.Itoa(resp.ErrorCode) + ":" + admReason(resp.Desp)
}

func (c *admCase) rtpPubResult(name, st string, resp base.ApiCtrlStartRtpPubResp) string {
	s := &admSess{name: name, kind: "pp", stream: st}
	c.sess[name] = s
	if resp.ErrorCode == base.ErrorCodeSucc {
		s.key = resp.Data.SessionId
		c.keyName[s.key] = name
	} else {
		s.refused = true
		s.gone = true
	}
	return strconv.Itoa(resp.ErrorCode)
}

func (c *admCase) kickResult(name, st, key string, resp base.ApiCtrlKickSessionResp) string {
	if resp.ErrorCode == base.ErrorCodeSucc {
		if s := c.sess[name]; s != nil && s.kind == "pp" {
			deadline := time.Now().Add(admWaitDur())
			for {
				v, ok := c.viewOf(st)
				if !ok || v.PsPub != key {
					break
				}
				if time.Now().After(deadline) {
					c.anomalies = append(c.anomalies, "ps-del-timeout")
					break
				}
				time.Sleep(50 * time.Microsecond)
			}
			s.gone = true
		}
	}
	return strconv.Itoa(resp.ErrorCode)
}

// ---------------------------------------------------------------------------
// what of an input's content reaches the group

// every RTSP input has an SDP of its own: the session name line carries the harness name of the input
func admSdpOf(name string) string {
	return strings.Replace(admSdp, "s=No Name", "s="+name, 1)
}

// the input whose SDP the group of a stream holds: its harness name, "-" for none
func (c *admCase) sdpOwner(stream string) string {
	raw, ok := c.sm.VerifRawSdp(stream)
	if !ok {
		return "-"
	}
	for _, l := range strings.Split(string(raw), "\r\n") {
		if strings.HasPrefix(l, "s=") {
			return l[2:]
		}
	}
	return "?"
}

// an accepted RTSP publisher hands its SDP to the group on a goroutine of its own (BaseInSession.SetObserver)
func (c *admCase) waitSdpOf(stream, name string) {
	deadline := time.Now().Add(admWaitDur())
	for c.sdpOwner(stream) != name {
		if time.Now().After(deadline) {
			c.anomalies = append(c.anomalies, "sdp-never-delivered")
			return
		}
		time.Sleep(50 * time.Microsecond)
	}
}

func (c *admCase) flvWritten() map[string]int {
	m := map[string]int{}
	for n, t := range c.sess {
		if t.kind == "fs" && t.conn != nil {
			m[n] = t.conn.written()
		}
	}
	return m
}

// the http-flv subscribers that were written to since before
func (c *admCase) flvGrown(before map[string]int) []string {
	var got []string
	for n, t := range c.sess {
		if t.kind == "fs" && t.conn != nil && t.conn.written() > before[n] {
			got = append(got, n)
		}
	}
	sort.Strings(got)
	return got
}

// admCorkConn is the origin's side of a relay-pull connection: from the answer to the play request on, what the
// origin writes is held back until flush, which sends it together with more bytes in a single write.
type admCorkConn struct {
	net.Conn
	mu      sync.Mutex
	corked  bool
	flushed bool
	held    []byte
	after   int // bytes read from the pull session after the flush
}

func (k *admCorkConn) Write(b []byte) (int, error) {
	k.mu.Lock()
	if !k.flushed && (k.corked || bytes.Contains(b, []byte("NetStream.Play.Start"))) {
		k.corked = true
		k.held = append(k.held, b...)
		k.mu.Unlock()
		return len(b), nil
	}
	k.mu.Unlock()
	return k.Conn.Write(b)
}

func (k *admCorkConn) Read(b []byte) (int, error) {
	n, err := k.Conn.Read(b)
	k.mu.Lock()
	if k.flushed {
		k.after += n
	}
	k.mu.Unlock()
	return n, err
}

func (k *admCorkConn) flush(extra []byte) error {
	k.mu.Lock()
	data := append(k.held, extra...)
	k.held = nil
	k.flushed = true
	k.mu.Unlock()
	_, err := k.Conn.Write(data)
	return err
}

func (k *admCorkConn) readAfterFlush() int {
	k.mu.Lock()
	defer k.mu.Unlock()
	return k.after
}

// a write that fails on a connection with a write queue closes the connection from the queue's goroutine
func (c *admCase) waitConnClosed(conn *admConn) {
	deadline := time.Now().Add(admWaitDur())
	for !conn.isClosed() {
		if time.Now().After(deadline) {
			c.anomalies = append(c.anomalies, "write-fail-not-closed")
			return
		}
		time.Sleep(50 * time.Microsecond)
	}
}

// admBusyPort binds a udp or tcp port and holds it: a start_rtp_pub that asks for this port cannot listen.
func admBusyPort(tcp bool) (int, func(), error) {
	if tcp {
		l, err := net.Listen("tcp", ":0")
		if err != nil {
			return 0, nil, err
		}
		return l.Addr().(*net.TCPAddr).Port, func() { _ = l.Close() }, nil
	}
	u, err := net.ListenUDP("udp", &net.UDPAddr{})
	if err != nil {
		return 0, nil, err
	}
	return u.LocalAddr().(*net.UDPAddr).Port, func() { _ = u.Close() }, nil
}

func admReason(desp string) string {
	switch {
	case strings.Contains(desp, "already exist"):
		return "dup"
	case strings.Contains(desp, "not enable"):
		return "notenable"
	case strings.Contains(desp, "should auto stop"):
		return "autostop"
	case strings.Contains(desp, "retry limited"):
		return "retry"
	case desp == base.DespSucc:
		return "none"
	}
	return strings.ReplaceAll(desp, " ", "_")
}

// admWaitAny waits for a connection on either listener (nil listeners are skipped); first tells
// whether it arrived on listener a.
func admWaitAny(a, b *admListener) (net.Conn, bool, bool) {
	var ca, cb chan net.Conn
	if a != nil {
		ca = a.pending
	}
	if b != nil {
		cb = b.pending
	}
	if ca == nil && cb == nil {
		return nil, false, false
	}
	select {
	case c := <-ca:
		return c, true, true
	case c := <-cb:
		return c, false, true
	case <-time.After(admWaitDur()):
		return nil, false, false
	}
}

// admRtspOrigin is the stub origin for an rtsp:// relay pull on an accepted connection: it answers
// OPTIONS, DESCRIBE (with an SDP), SETUP (interleaved) and PLAY and then keeps the connection open
// until it is closed from either side.  played is closed once PLAY has been answered.
func admRtspOrigin(conn net.Conn, played chan struct{}, sdp string) {
	r := bufio.NewReader(conn)
	done := false
	for {
		var method, cseq, transport string
		first := true
		for {
			line, err := r.ReadString('\n')
			if err != nil {
				return
			}
			line = strings.TrimRight(line, "\r\n")
			if line == "" {
				if first {
					continue
				}
				break
			}
			if first {
				method = strings.Split(line, " ")[0]
				first = false
			}
			low := strings.ToLower(line)
			if strings.HasPrefix(low, "cseq:") {
				cseq = strings.TrimSpace(line[5:])
			}
			if strings.HasPrefix(low, "transport:") {
				transport = strings.TrimSpace(line[10:])
			}
		}
		switch method {
		case "OPTIONS":
			fmt.Fprintf(conn, "RTSP/1.0 200 OK\r\nCSeq: %s\r\nPublic: OPTIONS, DESCRIBE, SETUP, PLAY, TEARDOWN\r\n\r\n", cseq)
		case "DESCRIBE":
			fmt.Fprintf(conn, "RTSP/1.0 200 OK\r\nCSeq: %s\r\nContent-Type: application/sdp\r\nContent-Length: %d\r\n\r\n%s",
				cseq, len(sdp), sdp)
		case "SETUP":
			fmt.Fprintf(conn, "RTSP/1.0 200 OK\r\nCSeq: %s\r\nSession: 1\r\nTransport: %s\r\n\r\n", cseq, transport)
		case "PLAY":
			fmt.Fprintf(conn, "RTSP/1.0 200 OK\r\nCSeq: %s\r\nSession: 1\r\n\r\n", cseq)
			if !done {
				done = true
				close(played)
			}
		default:
			fmt.Fprintf(conn, "RTSP/1.0 200 OK\r\nCSeq: %s\r\n\r\n", cseq)
		}
	}
}

func admInt(s string) int {
	neg := false
	if strings.HasPrefix(s, "n") {
		neg = true
		s = s[1:]
	}
	v, err := strconv.Atoi(s)
	if err != nil {
		panic("bad int " + s)
	}
	if neg {
		return -v
	}
	return v
}

func admRun(a []string) string {
	if len(a) != 2 {
		return "bad-args"
	}
	cfg := map[string]string{}
	if a[0] != "-" {
		for _, kv := range strings.Split(a[0], ",") {
			p := strings.SplitN(kv, "=", 2)
			if len(p) == 2 {
				cfg[p[0]] = p[1]
			}
		}
	}
	c, err := newAdmCase(cfg)
	if err != nil {
		return "err-setup"
	}
	defer c.cleanup()
	var out []string
	for _, op := range strings.Split(a[1], ",") {
		// under a watchdog: on a broken tree a call into the server may never return or leave the
		// server lock held for ever (e.g. a group disposed twice blocks on its exit channel)
		done := make(chan string, 1)
		go func(op string) {
			defer func() {
				if e := recover(); e != nil {
					done <- "panic"
				}
			}()
			r := c.doOp(op)
			c.settle()
			done <- r + "/" + c.render()
		}(op)
		select {
		case r := <-done:
			if r == "panic" {
				c.disposed = true
				out = append(out, "panic/-/-")
				return strings.Join(out, ";") + ";anomaly:panic-in-" + strings.Split(op, ".")[0]
			}
			out = append(out, r)
		case <-time.After(3 * admWaitDur()):
			atomic.AddInt32(&admTimeouts, 1)
			c.disposed = true // no ServerManager.Dispose at cleanup
			out = append(out, "hang/-/-")
			return strings.Join(out, ";") + ";anomaly:op-never-returned"
		}
	}
	res := strings.Join(out, ";")
	atomic.AddInt32(&admTimeouts, int32(len(c.anomalies)))
	if len(c.anomalies) > 0 {
		res += ";anomaly:" + strings.Join(c.anomalies, "+")
	}
	return res
}
