package main

// C13: rtsp.BaseInSession with per-track transport state.  Each track of the
// SDP is either not set up, set up over UDP (SetupWithConn on real loopback
// sockets) or set up interleaved (SetupWithChannel); SETUPs can come at any
// point of the packet sequence.
//
// c13.udpsess <acodec> <aclock> <apt> <vcodec> <vclock> <vpt> <ev,ev,...>
//   sa:u | sv:u            SetupWithConn for the audio / video track
//   sa:t<rtp>.<rtcp> | sv:t<rtp>.<rtcp>   SetupWithChannel
//   i<ch>:<pkt>            packet on interleaved channel ch of the command connection
//   ar:<pkt> ac:<pkt> vr:<pkt> vc:<pkt>   datagram on the audio rtp / audio rtcp / video rtp / video rtcp socket
// Datagrams are handed synchronously to the callbacks UdpConnection.RunLoop
// would call (verif hook), with the peer's address; receiver reports written to
// a UDP socket are read back on the peer socket: rru:<a|v>:<bytes> tells which
// of the session's RTCP sockets sent it.  A datagram for a socket that does not
// exist prints nosock.
//
// c13x.udpsess: same arguments, the datagrams really travel through the
// loopback interface into the RunLoop goroutines (a panic there kills the
// process); the observable is "alive".
//
// c13x.pulludp <acodec> <aclock> <apt> <vcodec> <vclock> <vpt> <r:pkt,c:pkt,...>
// a real rtsp.PullSession (UDP transport) against a scripted origin on the
// loopback interface: the origin answers OPTIONS / DESCRIBE (that SDP) / SETUP /
// PLAY and then sends the datagrams to the client_port pair of the first SETUP
// (r = RTP port, c = RTCP port).  Observable: "alive".

import (
	"bufio"
	"fmt"
	"net"
	"regexp"
	"strings"
	"syscall"
	"time"

	"github.com/q191201771/lal/pkg/base"
	"github.com/q191201771/lal/pkg/rtsp"
	"github.com/q191201771/lal/pkg/sdp"
	"github.com/q191201771/naza/pkg/nazanet"
)

type c13Track struct {
	rtp, rtcp *nazanet.UdpConnection
	rtpAddr   *net.UDPAddr
	rtcpAddr  *net.UDPAddr
}

func c13NewUdp() (*nazanet.UdpConnection, *net.UDPAddr, error) {
	c, err := net.ListenUDP("udp4", &net.UDPAddr{IP: net.IPv4(127, 0, 0, 1)})
	if err != nil {
		return nil, nil, err
	}
	u, err := nazanet.NewUdpConnection(func(o *nazanet.UdpConnectionOption) {
		o.Conn = c
		o.MaxReadPacketSize = 1500
	})
	if err != nil {
		return nil, nil, err
	}
	return u, c.LocalAddr().(*net.UDPAddr), nil
}

// one non-blocking read of the peer socket
func c13RecvNow(peer *net.UDPConn) (b []byte, port int, ok bool) {
	rc, err := peer.SyscallConn()
	if err != nil {
		return nil, 0, false
	}
	buf := make([]byte, 2048)
	_ = rc.Read(func(fd uintptr) bool {
		n, from, e := syscall.Recvfrom(int(fd), buf, syscall.MSG_DONTWAIT)
		if e == nil {
			if sa, is4 := from.(*syscall.SockaddrInet4); is4 {
				port = sa.Port
			}
			b, ok = buf[:n], true
		}
		return true
	})
	return
}

func c13SdpOf(a []string) (sdp.LogicContext, error) {
	sdpTxt := "v=0\r\no=- 0 0 IN IP4 127.0.0.1\r\ns=x\r\nc=IN IP4 127.0.0.1\r\nt=0 0\r\n" +
		c13Media("audio", a[0], a[1], a[2], "streamid=0") + c13Media("video", a[3], a[4], a[5], "streamid=1")
	return sdp.ParseSdp2LogicContext([]byte(sdpTxt))
}

const (
	c13UriAudio = "rtsp://h/live/x/streamid=0"
	c13UriVideo = "rtsp://h/live/x/streamid=1"
)

func c13RunUdpSess(a []string, real bool) string {
	var ev []string
	ctx, err := c13SdpOf(a)
	if err != nil {
		return "errsdp"
	}
	peer, err := net.ListenUDP("udp4", &net.UDPAddr{IP: net.IPv4(127, 0, 0, 1)})
	if err != nil {
		return "no-listen"
	}
	defer peer.Close()
	peerAddr := peer.LocalAddr().(*net.UDPAddr)

	s := rtsp.NewBaseInSessionWithObserver(base.SessionTypeRtspPub, c13Writer{&ev}, c13Observer{&ev})
	s.InitWithSdp(ctx)
	var tr [2]c13Track // 0 audio, 1 video
	var stale []*nazanet.UdpConnection
	wrote := func() uint64 { return s.GetStat().WroteBytesSum }
	read := func() uint64 { return s.GetStat().ReadBytesSum }
	drain := func(w0 uint64) {
		for tries := 0; ; tries++ {
			b, port, ok := c13RecvNow(peer)
			if !ok {
				if tries == 0 && wrote() != w0 {
					// a report was produced but is not in the queue yet (or was not sent): wait once
					_ = peer.SetReadDeadline(time.Now().Add(30 * time.Millisecond))
					buf := make([]byte, 2048)
					n, from, e := peer.ReadFromUDP(buf)
					if e != nil {
						return
					}
					b, port = buf[:n], from.Port
				} else {
					return
				}
			}
			who := "?"
			if tr[0].rtcpAddr != nil && port == tr[0].rtcpAddr.Port {
				who = "a"
			} else if tr[1].rtcpAddr != nil && port == tr[1].rtcpAddr.Port {
				who = "v"
			}
			ev = append(ev, fmt.Sprintf("rru:%s:%s", who, tokBytes(b)))
		}
	}

	if a[6] != "-" {
		for _, it := range strings.Split(a[6], ",") {
			f := strings.SplitN(it, ":", 2)
			if len(f) != 2 || len(f[0]) < 2 {
				return "bad-args"
			}
			head, arg := f[0], f[1]
			switch {
			case head == "sa" || head == "sv":
				k, uri := 0, c13UriAudio
				if head == "sv" {
					k, uri = 1, c13UriVideo
				}
				if arg == "u" {
					rtpC, rtpA, e1 := c13NewUdp()
					rtcpC, rtcpA, e2 := c13NewUdp()
					if e1 != nil || e2 != nil {
						return "no-listen"
					}
					if err := s.SetupWithConn(uri, rtpC, rtcpC); err != nil {
						_ = rtpC.Dispose()
						_ = rtcpC.Dispose()
						ev = append(ev, "errsetup")
					} else {
						if tr[k].rtp != nil {
							stale = append(stale, tr[k].rtp, tr[k].rtcp)
						}
						tr[k] = c13Track{rtpC, rtcpC, rtpA, rtcpA}
					}
				} else {
					var r1, r2 int
					if _, err := fmt.Sscanf(arg, "t%d.%d", &r1, &r2); err != nil {
						return "bad-args"
					}
					if err := s.SetupWithChannel(uri, r1, r2); err != nil {
						ev = append(ev, "errsetup")
					}
				}
			case head[0] == 'i':
				s.HandleInterleavedPacket(bytesTok(arg), intTok(head[1:]))
			default:
				k := 0
				if head[0] == 'v' {
					k = 1
				}
				b := bytesTok(arg)
				if tr[k].rtp == nil {
					ev = append(ev, "nosock")
					break
				}
				if real {
					dst := tr[k].rtpAddr
					if head[1] == 'c' {
						dst = tr[k].rtcpAddr
					}
					r0 := read()
					_, _ = peer.WriteToUDP(b, dst)
					for i := 0; i < 100 && read() < r0+uint64(len(b)); i++ {
						time.Sleep(500 * time.Microsecond)
					}
					time.Sleep(2 * time.Millisecond)
				} else if head[1] == 'r' {
					s.VerifOnReadRtpPacket(b, peerAddr)
				} else {
					w0 := wrote()
					s.VerifOnReadRtcpPacket(b, peerAddr)
					drain(w0)
				}
			}
			ev = append(ev, "|")
		}
	}
	if real {
		time.Sleep(5 * time.Millisecond)
	}
	_ = s.Dispose()
	for _, c := range stale {
		_ = c.Dispose()
	}
	if real {
		return "alive"
	}
	return "ok " + c13Join(ev)
}

var c13ClientPortRe = regexp.MustCompile(`client_port=(\d+)-(\d+)`)

func c13RunPullUdp(a []string) string {
	sdpTxt := "v=0\r\no=- 0 0 IN IP4 127.0.0.1\r\ns=x\r\nc=IN IP4 127.0.0.1\r\nt=0 0\r\n" +
		c13Media("audio", a[0], a[1], a[2], "streamid=0") + c13Media("video", a[3], a[4], a[5], "streamid=1")
	ln, err := net.Listen("tcp", "127.0.0.1:0")
	if err != nil {
		return "no-listen"
	}
	defer ln.Close()
	srtp, e1 := net.ListenUDP("udp4", &net.UDPAddr{IP: net.IPv4(127, 0, 0, 1)})
	srtcp, e2 := net.ListenUDP("udp4", &net.UDPAddr{IP: net.IPv4(127, 0, 0, 1)})
	if e1 != nil || e2 != nil {
		return "no-listen"
	}
	defer srtp.Close()
	defer srtcp.Close()
	done := make(chan struct{})
	go func() {
		defer close(done)
		c, err := ln.Accept()
		if err != nil {
			return
		}
		defer c.Close()
		_ = c.SetDeadline(time.Now().Add(2 * time.Second))
		r := bufio.NewReader(c)
		rtpPort, rtcpPort := 0, 0
		for {
			var method, cseq, transport string
			first := true
			for {
				line, err := r.ReadString('\n')
				if err != nil {
					return
				}
				line = strings.TrimRight(line, "\r\n")
				if line == "" {
					break
				}
				if first {
					method = strings.SplitN(line, " ", 2)[0]
					first = false
				} else if strings.HasPrefix(line, "CSeq:") {
					cseq = strings.TrimSpace(line[5:])
				} else if strings.HasPrefix(line, "Transport:") {
					transport = strings.TrimSpace(line[10:])
				}
			}
			head := "RTSP/1.0 200 OK\r\nCSeq: " + cseq + "\r\n"
			switch method {
			case "OPTIONS":
				_, _ = c.Write([]byte(head + "Public: OPTIONS, DESCRIBE, SETUP, TEARDOWN, PLAY\r\n\r\n"))
			case "DESCRIBE":
				_, _ = c.Write([]byte(head + fmt.Sprintf("Content-Type: application/sdp\r\nContent-Length: %d\r\n\r\n%s", len(sdpTxt), sdpTxt)))
			case "SETUP":
				if m := c13ClientPortRe.FindStringSubmatch(transport); m != nil && rtpPort == 0 {
					_, _ = fmt.Sscanf(m[1], "%d", &rtpPort)
					_, _ = fmt.Sscanf(m[2], "%d", &rtcpPort)
				}
				_, _ = c.Write([]byte(head + fmt.Sprintf("Transport: %s;server_port=%d-%d\r\nSession: 12345678\r\n\r\n", transport,
					srtp.LocalAddr().(*net.UDPAddr).Port, srtcp.LocalAddr().(*net.UDPAddr).Port)))
			case "PLAY":
				_, _ = c.Write([]byte(head + "Session: 12345678\r\n\r\n"))
				time.Sleep(5 * time.Millisecond)
				if a[6] != "-" && rtpPort != 0 {
					for _, it := range strings.Split(a[6], ",") {
						f := strings.SplitN(it, ":", 2)
						if len(f) != 2 {
							continue
						}
						if f[0] == "r" {
							_, _ = srtp.WriteToUDP(bytesTok(f[1]), &net.UDPAddr{IP: net.IPv4(127, 0, 0, 1), Port: rtpPort})
						} else {
							_, _ = srtcp.WriteToUDP(bytesTok(f[1]), &net.UDPAddr{IP: net.IPv4(127, 0, 0, 1), Port: rtcpPort})
						}
						time.Sleep(4 * time.Millisecond)
					}
				}
				time.Sleep(10 * time.Millisecond)
				return
			default:
				_, _ = c.Write([]byte(head + "\r\n"))
			}
		}
	}()
	var ev []string
	s := rtsp.NewPullSession(c13Observer{&ev}, func(o *rtsp.PullSessionOption) {
		o.PullTimeoutMs = 1500
		o.OverTcp = false
	})
	err = s.Start("rtsp://" + ln.Addr().String() + "/live/x")
	select {
	case <-done:
	case <-time.After(2500 * time.Millisecond):
	}
	if err == nil {
		select {
		case <-s.WaitChan():
		case <-time.After(300 * time.Millisecond):
		}
	}
	_ = s.Dispose()
	return "alive"
}

func init() {
	register("c13x.pulludp", c13RunPullUdp)
	register("c13.udpsess", func(a []string) string { return c13RunUdpSess(a, false) })
	register("c13x.udpsess", func(a []string) string { return c13RunUdpSess(a, true) })
}
