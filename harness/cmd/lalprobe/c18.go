package main

// C18: AMF0 writers / readers and the metadata helpers of pkg/rtmp.
// Everything used here is exported by lal; no hook.

import (
	"bytes"
	"errors"
	"fmt"
	"math"
	"os"
	"runtime/debug"
	"strconv"
	"strings"

	"github.com/q191201771/lal/pkg/base"
	"github.com/q191201771/lal/pkg/rtmp"
)

// bytes token with one extra part form: <count>*<hex> (repetition)
func c18Bytes(s string) []byte {
	if strings.Contains(s, "+") {
		var out []byte
		for _, p := range strings.Split(s, "+") {
			out = append(out, c18Bytes(p)...)
		}
		return out
	}
	if i := strings.Index(s, "*"); i >= 0 {
		n := intTok(s[:i])
		return bytes.Repeat(bytesTok(s[i+1:]), n)
	}
	return bytesTok(s)
}

func c18StrTok(s string) string {
	if len(s) == 0 {
		return "-"
	}
	if len(s) <= 64 {
		return hexOf([]byte(s))
	}
	return fmt.Sprintf("#%d.%016x", len(s), fnv1a64([]byte(s)))
}

func c18ShowVal(v interface{}) string {
	switch x := v.(type) {
	case float64:
		return fmt.Sprintf("n%016x", math.Float64bits(x))
	case bool:
		if x {
			return "b1"
		}
		return "b0"
	case string:
		return "s" + c18StrTok(x)
	case rtmp.ObjectPairArray:
		return c18ShowPairs(x)
	}
	return fmt.Sprintf("?%T", v)
}

func c18ShowPairs(o rtmp.ObjectPairArray) string {
	parts := make([]string, 0, len(o))
	for _, p := range o {
		parts = append(parts, c18StrTok(p.Key)+":"+c18ShowVal(p.Value))
	}
	return "{" + strings.Join(parts, ",") + "}"
}

// error enum shared with the model: 1 too short, 2 nesting too deep,
// 0x100+b invalid type marker b
func c18Err(err error) string {
	switch {
	case errors.Is(err, base.ErrAmfTooShort):
		return "err 0x1"
	case errors.Is(err, base.ErrAmfInvalidType):
		m := err.Error()
		i := strings.LastIndex(m, "b=")
		b, e := strconv.Atoi(m[i+2:])
		if i < 0 || e != nil {
			return "err ?" + strings.ReplaceAll(m, " ", "_")
		}
		return "err " + tokNum(uint64(0x100+b))
	case strings.Contains(err.Error(), "nesting too deep"):
		return "err 0x2"
	}
	return "err ?" + strings.ReplaceAll(err.Error(), " ", "_")
}

// --- results held across calls -------------------------------------------------------------------------------------
// lal's callers keep what these functions return (the gop cache holds both metadata forms across messages, remuxers
// keep parsed values) while the input buffer is reused for the next message and the function is called again for
// another stream. Every op therefore (1) calls the function, (2) calls it again on other inputs of similar size,
// (3) scribbles over the inputs and over the later results (up to their capacity), and only then prints the first result.

func c18Scribble(b []byte, v byte) {
	b = b[:cap(b)]
	for i := range b {
		b[i] = v
	}
}

// another input of the same size: letters / digits / high bytes change, markers and small length fields stay
func c18Other(b []byte, keep int) []byte {
	o := make([]byte, len(b))
	copy(o, b)
	for i := keep; i < len(o); i++ {
		if o[i] >= 0x30 {
			o[i] ^= 0x01
		}
	}
	return o
}

// c18HeldBytes: f's result for in, as a caller that kept it sees it after f was used again
func c18HeldBytes(in []byte, f func([]byte) ([]byte, error)) ([]byte, error) {
	in1 := append(make([]byte, 0, len(in)), in...)
	r1, err := f(in1)
	in2 := c18Other(in, 0)  // other path when the input began with @setDataFrame
	in3 := c18Other(in, 16) // same path, other content
	r2, _ := f(in2)
	r3, _ := f(in3)
	c18Scribble(in1, 0xa5)
	c18Scribble(in2, 0xa5)
	c18Scribble(in3, 0xa5)
	c18Scribble(r2, 0x5a)
	c18Scribble(r3, 0x5a)
	return r1, err
}

// c18HeldWrite: what one writer call put into its io.Writer, after the writer was used again for another value
func c18HeldWrite(w func(buf *bytes.Buffer, other bool)) []byte {
	b1, b2 := &bytes.Buffer{}, &bytes.Buffer{}
	w(b1, false)
	w(b2, true)
	c18Scribble(b2.Bytes(), 0x5a)
	return b1.Bytes()
}

func c18Read(entry string, b []byte) (val interface{}, l int, err error) {
	switch entry {
	case "strwo":
		val, l, err = rtmp.Amf0.ReadStringWithoutType(b)
	case "lstrwo":
		val, l, err = rtmp.Amf0.ReadLongStringWithoutType(b)
	case "str":
		val, l, err = rtmp.Amf0.ReadString(b)
	case "num":
		val, l, err = rtmp.Amf0.ReadNumber(b)
	case "bool":
		val, l, err = rtmp.Amf0.ReadBoolean(b)
	case "null":
		l, err = rtmp.Amf0.ReadNull(b)
	case "undef":
		l, err = rtmp.Amf0.ReadUndefinedOrUnsupported(b)
	case "obj":
		val, l, err = rtmp.Amf0.ReadObject(b)
	case "arr":
		val, l, err = rtmp.Amf0.ReadArray(b)
	case "sarr":
		val, l, err = rtmp.Amf0.ReadStrictArray(b)
	case "ooa":
		val, l, err = rtmp.Amf0.ReadObjectOrArray(b)
	case "meta":
		val, err = rtmp.ParseMetadata(b)
	default:
		panic("bad entry " + entry)
	}
	return
}

// the decoded value is printed after the reader has been used on another input and both inputs were overwritten
// (decoded strings and pair lists must not share memory with the message buffer or with a later result)
func c18Decode(entry string, b []byte) string {
	val, l, err := c18Read(entry, b)
	if len(b) <= 1<<16 {
		b2 := c18Other(b, 0)
		v2, _, _ := c18Read(entry, b2)
		if o, ok := v2.(rtmp.ObjectPairArray); ok {
			for i := range o {
				o[i] = rtmp.ObjectPair{Key: "scribbled", Value: "scribbled"}
			}
		}
		c18Scribble(b2, 0xa5)
	}
	c18Scribble(b, 0xa5)
	if err != nil {
		return c18Err(err)
	}
	var v string
	switch entry {
	case "null", "undef":
		v = "_"
	case "meta":
		return "ok " + c18ShowPairs(val.(rtmp.ObjectPairArray))
	case "obj", "arr", "sarr", "ooa":
		v = c18ShowPairs(val.(rtmp.ObjectPairArray))
	default:
		v = c18ShowVal(val)
	}
	return fmt.Sprintf("ok %s %s", v, tokInt(int64(l)))
}

func c18Meta(b []byte) string {
	return c18Decode("meta", append(make([]byte, 0, len(b)), b...))
}

func c18Pairs(s string) rtmp.ObjectPairArray {
	var out rtmp.ObjectPairArray
	if s == "-" {
		return out
	}
	for _, item := range strings.Split(s, ",") {
		i := strings.Index(item, ":")
		if i < 0 {
			panic("bad pair")
		}
		k := string(c18Bytes(item[:i]))
		vs := item[i+1:]
		var v interface{}
		switch vs[0] {
		case 'n':
			v = math.Float64frombits(numTok("0x" + vs[1:]))
		case 'i':
			n, err := strconv.ParseInt(vs[1:], 0, 64)
			if err != nil {
				panic("bad int " + vs)
			}
			v = int(n)
		case 'b':
			v = vs[1:] == "1"
		case 's':
			v = string(c18Bytes(vs[1:]))
		default:
			panic("bad wval")
		}
		out = append(out, rtmp.ObjectPair{Key: k, Value: v})
	}
	return out
}

func c18Ensure(b []byte, err error) (string, []byte) {
	if err != nil {
		return tokBytes(b) + "!" + strings.TrimPrefix(c18Err(err), "err "), b
	}
	return tokBytes(b), b
}

func c18Cat(a, b []byte) []byte {
	out := make([]byte, 0, len(a)+len(b))
	out = append(out, a...)
	return append(out, b...)
}

func init() {
	register("c18.wnum", func(a []string) string {
		v := numTok(a[0])
		w := c18HeldWrite(func(buf *bytes.Buffer, other bool) {
			x := v
			if other {
				x ^= 0x0055aa55aa55aa55
			}
			_ = rtmp.Amf0.WriteNumber(buf, math.Float64frombits(x))
		})
		return tokBytes(w) + " " + c18Decode("num", c18Cat(w, c18Bytes(a[1])))
	})
	register("c18.wstr", func(a []string) string {
		in := c18Bytes(a[0])
		w := c18HeldWrite(func(buf *bytes.Buffer, other bool) {
			x := in
			if other {
				x = c18Other(in, 0)
			}
			_ = rtmp.Amf0.WriteString(buf, string(x))
		})
		c18Scribble(in, 0xa5)
		return tokBytes(w) + " " + c18Decode("str", c18Cat(w, c18Bytes(a[1])))
	})
	register("c18.wbool", func(a []string) string {
		v := boolTok(a[0])
		w := c18HeldWrite(func(buf *bytes.Buffer, other bool) { _ = rtmp.Amf0.WriteBoolean(buf, v != other) })
		return tokBytes(w) + " " + c18Decode("bool", c18Cat(w, c18Bytes(a[1])))
	})
	register("c18.wnull", func(a []string) string {
		w := c18HeldWrite(func(buf *bytes.Buffer, other bool) {
			if other {
				_ = rtmp.Amf0.WriteBoolean(buf, true)
			} else {
				_ = rtmp.Amf0.WriteNull(buf)
			}
		})
		return tokBytes(w) + " " + c18Decode("null", c18Cat(w, c18Bytes(a[0])))
	})
	register("c18.wobj", func(a []string) string {
		w := c18HeldWrite(func(buf *bytes.Buffer, other bool) {
			pairs := c18Pairs(a[0])
			if other {
				for i := range pairs {
					pairs[i].Key = string(c18Other([]byte(pairs[i].Key), 0))
					switch x := pairs[i].Value.(type) {
					case string:
						pairs[i].Value = string(c18Other([]byte(x), 0))
					case float64:
						pairs[i].Value = x + 1
					case int:
						pairs[i].Value = x ^ 0x55
					case bool:
						pairs[i].Value = !x
					}
				}
			}
			_ = rtmp.Amf0.WriteObject(buf, pairs)
		})
		return tokBytes(w) + " " + c18Decode("obj", c18Cat(w, c18Bytes(a[1])))
	})
	register("c18.read", func(a []string) string {
		// a runaway recursion dies after 64 MiB of stack instead of 1 GiB
		// (C18_DEFAULT_STACK=1 keeps Go's default limit, for replaying F-03 as in production)
		if os.Getenv("C18_DEFAULT_STACK") != "1" {
			debug.SetMaxStack(64 << 20)
		}
		if a[0] == "meta" {
			return c18Meta(c18Bytes(a[1]))
		}
		return c18Decode(a[0], c18Bytes(a[1]))
	})
	register("c18.sdf", func(a []string) string {
		// all six results are computed (each one held while the functions are used again, see c18HeldBytes),
		// the input is overwritten, and only then anything is printed
		b := c18Bytes(a[0])
		with, without := rtmp.MetadataEnsureWithSdf, rtmp.MetadataEnsureWithoutSdf
		w, we := c18HeldBytes(b, with)
		wo, woe := c18HeldBytes(b, without)
		wow, wowe := c18HeldBytes(w, without)
		wwo, wwoe := c18HeldBytes(wo, with)
		ww, wwe := c18HeldBytes(w, with)
		wowo, wowoe := c18HeldBytes(wo, without)
		c18Scribble(b, 0xa5)
		ws, _ := c18Ensure(w, we)
		wos, _ := c18Ensure(wo, woe)
		wows, _ := c18Ensure(wow, wowe)
		wwos, _ := c18Ensure(wwo, wwoe)
		wws, _ := c18Ensure(ww, wwe)
		wowos, _ := c18Ensure(wowo, wowoe)
		return fmt.Sprintf("w=%s wo=%s wow=%s wwo=%s ww=%s wowo=%s", ws, wos, wows, wwos, wws, wowos)
	})
	register("c18.build", func(a []string) string {
		pi := func(s string) int {
			n, err := strconv.ParseInt(s, 0, 64)
			if err != nil {
				panic("bad int " + s)
			}
			return int(n)
		}
		enc, ver := string(c18Bytes(a[4])), string(c18Bytes(a[5]))
		if enc != base.LalRtmpBuildMetadataEncoder || ver != base.LalVersionDot {
			return "const-mismatch " + hexOf([]byte(base.LalRtmpBuildMetadataEncoder)) + " " + hexOf([]byte(base.LalVersionDot))
		}
		out, err := rtmp.BuildMetadata(pi(a[0]), pi(a[1]), pi(a[2]), pi(a[3]))
		// the function is used again (another stream) while the first result is still held
		for _, d := range [][4]int{{1, 1, 1, 1}, {0, 0, 0, 0}, {-1, -1, -1, -1}} {
			alt := func(v, d int) int {
				if d < 0 {
					return -1
				}
				return (v + d) & 0xffff
			}
			o2, _ := rtmp.BuildMetadata(alt(pi(a[0]), d[0]), alt(pi(a[1]), d[1]), alt(pi(a[2]), d[2]), alt(pi(a[3]), d[3]))
			c18Scribble(o2, 0x5a)
		}
		if err != nil {
			return c18Err(err)
		}
		return tokBytes(out) + " " + c18Meta(out)
	})
}
