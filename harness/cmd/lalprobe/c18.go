package main

// C18: AMF0 writers / readers and the metadata helpers of pkg/rtmp.
// Everything used here is exported by lal; no hook.

import (
	"bytes"
	"errors"
	"fmt"
	"math"
	"os"
	"runtime/debug"
	"strconv"
	"strings"

	"github.com/q191201771/lal/pkg/base"
	"github.com/q191201771/lal/pkg/rtmp"
)

// bytes token with one extra part form: <count>*<hex> (repetition)
func c18Bytes(s string) []byte {
	if strings.Contains(s, "+") {
		var out []byte
		for _, p := range strings.Split(s, "+") {
			out = append(out, c18Bytes(p)...)
		}
		return out
	}
	if i := strings.Index(s, "*"); i >= 0 {
		n := intTok(s[:i])
		return bytes.Repeat(bytesTok(s[i+1:]), n)
	}
	return bytesTok(s)
}

func c18StrTok(s string) string {
	if len(s) == 0 {
		return "-"
	}
	if len(s) <= 64 {
		return hexOf([]byte(s))
	}
	return fmt.Sprintf("#%d.%016x", len(s), fnv1a64([]byte(s)))
}

func c18ShowVal(v interface{}) string {
	switch x := v.(type) {
	case float64:
		return fmt.Sprintf("n%016x", math.Float64bits(x))
	case bool:
		if x {
			return "b1"
		}
		return "b0"
	case string:
		return "s" + c18StrTok(x)
	case rtmp.ObjectPairArray:
		return c18ShowPairs(x)
	}
	return fmt.Sprintf("?%T", v)
}

func c18ShowPairs(o rtmp.ObjectPairArray) string {
	parts := make([]string, 0, len(o))
	for _, p := range o {
		parts = append(parts, c18StrTok(p.Key)+":"+c18ShowVal(p.Value))
	}
	return "{" + strings.Join(parts, ",") + "}"
}

// error enum shared with the model: 1 too short, 2 nesting too deep,
// 0x100+b invalid type marker b
func c18Err(err error) string {
	switch {
	case errors.Is(err, base.ErrAmfTooShort):
		return "err 0x1"
	case errors.Is(err, base.ErrAmfInvalidType):
		m := err.Error()
		i := strings.LastIndex(m, "b=")
		b, e := strconv.Atoi(m[i+2:])
		if i < 0 || e != nil {
			return "err ?" + strings.ReplaceAll(m, " ", "_")
		}
		return "err " + tokNum(uint64(0x100+b))
	case strings.Contains(err.Error(), "nesting too deep"):
		return "err 0x2"
	}
	return "err ?" + strings.ReplaceAll(err.Error(), " ", "_")
}

func c18Decode(entry string, b []byte) string {
	var v string
	var l int
	var err error
	switch entry {
	case "strwo":
		var s string
		s, l, err = rtmp.Amf0.ReadStringWithoutType(b)
		v = "s" + c18StrTok(s)
	case "lstrwo":
		var s string
		s, l, err = rtmp.Amf0.ReadLongStringWithoutType(b)
		v = "s" + c18StrTok(s)
	case "str":
		var s string
		s, l, err = rtmp.Amf0.ReadString(b)
		v = "s" + c18StrTok(s)
	case "num":
		var f float64
		f, l, err = rtmp.Amf0.ReadNumber(b)
		v = c18ShowVal(f)
	case "bool":
		var x bool
		x, l, err = rtmp.Amf0.ReadBoolean(b)
		v = c18ShowVal(x)
	case "null":
		l, err = rtmp.Amf0.ReadNull(b)
		v = "_"
	case "undef":
		l, err = rtmp.Amf0.ReadUndefinedOrUnsupported(b)
		v = "_"
	case "obj":
		var o rtmp.ObjectPairArray
		o, l, err = rtmp.Amf0.ReadObject(b)
		if err == nil {
			v = c18ShowPairs(o)
		}
	case "arr":
		var o rtmp.ObjectPairArray
		o, l, err = rtmp.Amf0.ReadArray(b)
		if err == nil {
			v = c18ShowPairs(o)
		}
	case "sarr":
		var o rtmp.ObjectPairArray
		o, l, err = rtmp.Amf0.ReadStrictArray(b)
		if err == nil {
			v = c18ShowPairs(o)
		}
	case "ooa":
		var o rtmp.ObjectPairArray
		o, l, err = rtmp.Amf0.ReadObjectOrArray(b)
		if err == nil {
			v = c18ShowPairs(o)
		}
	default:
		panic("bad entry " + entry)
	}
	if err != nil {
		return c18Err(err)
	}
	return fmt.Sprintf("ok %s %s", v, tokInt(int64(l)))
}

func c18Meta(b []byte) string {
	o, err := rtmp.ParseMetadata(b)
	if err != nil {
		return c18Err(err)
	}
	return "ok " + c18ShowPairs(o)
}

func c18Pairs(s string) rtmp.ObjectPairArray {
	var out rtmp.ObjectPairArray
	if s == "-" {
		return out
	}
	for _, item := range strings.Split(s, ",") {
		i := strings.Index(item, ":")
		if i < 0 {
			panic("bad pair")
		}
		k := string(c18Bytes(item[:i]))
		vs := item[i+1:]
		var v interface{}
		switch vs[0] {
		case 'n':
			v = math.Float64frombits(numTok("0x" + vs[1:]))
		case 'i':
			n, err := strconv.ParseInt(vs[1:], 0, 64)
			if err != nil {
				panic("bad int " + vs)
			}
			v = int(n)
		case 'b':
			v = vs[1:] == "1"
		case 's':
			v = string(c18Bytes(vs[1:]))
		default:
			panic("bad wval")
		}
		out = append(out, rtmp.ObjectPair{Key: k, Value: v})
	}
	return out
}

func c18Ensure(b []byte, err error) (string, []byte) {
	if err != nil {
		return tokBytes(b) + "!" + strings.TrimPrefix(c18Err(err), "err "), b
	}
	return tokBytes(b), b
}

func c18Cat(a, b []byte) []byte {
	out := make([]byte, 0, len(a)+len(b))
	out = append(out, a...)
	return append(out, b...)
}

func init() {
	register("c18.wnum", func(a []string) string {
		buf := &bytes.Buffer{}
		_ = rtmp.Amf0.WriteNumber(buf, math.Float64frombits(numTok(a[0])))
		return tokBytes(buf.Bytes()) + " " + c18Decode("num", c18Cat(buf.Bytes(), c18Bytes(a[1])))
	})
	register("c18.wstr", func(a []string) string {
		buf := &bytes.Buffer{}
		_ = rtmp.Amf0.WriteString(buf, string(c18Bytes(a[0])))
		return tokBytes(buf.Bytes()) + " " + c18Decode("str", c18Cat(buf.Bytes(), c18Bytes(a[1])))
	})
	register("c18.wbool", func(a []string) string {
		buf := &bytes.Buffer{}
		_ = rtmp.Amf0.WriteBoolean(buf, boolTok(a[0]))
		return tokBytes(buf.Bytes()) + " " + c18Decode("bool", c18Cat(buf.Bytes(), c18Bytes(a[1])))
	})
	register("c18.wnull", func(a []string) string {
		buf := &bytes.Buffer{}
		_ = rtmp.Amf0.WriteNull(buf)
		return tokBytes(buf.Bytes()) + " " + c18Decode("null", c18Cat(buf.Bytes(), c18Bytes(a[0])))
	})
	register("c18.wobj", func(a []string) string {
		buf := &bytes.Buffer{}
		_ = rtmp.Amf0.WriteObject(buf, c18Pairs(a[0]))
		return tokBytes(buf.Bytes()) + " " + c18Decode("obj", c18Cat(buf.Bytes(), c18Bytes(a[1])))
	})
	register("c18.read", func(a []string) string {
		// a runaway recursion dies after 64 MiB of stack instead of 1 GiB
		// (C18_DEFAULT_STACK=1 keeps Go's default limit, for replaying F-03 as in production)
		if os.Getenv("C18_DEFAULT_STACK") != "1" {
			debug.SetMaxStack(64 << 20)
		}
		if a[0] == "meta" {
			return c18Meta(c18Bytes(a[1]))
		}
		return c18Decode(a[0], c18Bytes(a[1]))
	})
	register("c18.sdf", func(a []string) string {
		b := c18Bytes(a[0])
		ws, w := c18Ensure(rtmp.MetadataEnsureWithSdf(b))
		wos, wo := c18Ensure(rtmp.MetadataEnsureWithoutSdf(b))
		wows, _ := c18Ensure(rtmp.MetadataEnsureWithoutSdf(w))
		wwos, _ := c18Ensure(rtmp.MetadataEnsureWithSdf(wo))
		wws, _ := c18Ensure(rtmp.MetadataEnsureWithSdf(w))
		wowos, _ := c18Ensure(rtmp.MetadataEnsureWithoutSdf(wo))
		return fmt.Sprintf("w=%s wo=%s wow=%s wwo=%s ww=%s wowo=%s", ws, wos, wows, wwos, wws, wowos)
	})
	register("c18.build", func(a []string) string {
		pi := func(s string) int {
			n, err := strconv.ParseInt(s, 0, 64)
			if err != nil {
				panic("bad int " + s)
			}
			return int(n)
		}
		enc, ver := string(c18Bytes(a[4])), string(c18Bytes(a[5]))
		if enc != base.LalRtmpBuildMetadataEncoder || ver != base.LalVersionDot {
			return "const-mismatch " + hexOf([]byte(base.LalRtmpBuildMetadataEncoder)) + " " + hexOf([]byte(base.LalVersionDot))
		}
		out, err := rtmp.BuildMetadata(pi(a[0]), pi(a[1]), pi(a[2]), pi(a[3]))
		if err != nil {
			return c18Err(err)
		}
		return tokBytes(out) + " " + c18Meta(out)
	})
}
