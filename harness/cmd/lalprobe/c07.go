package main

// C07: RTSP / GB28181 / customize ingest -> RTMP messages.
//   c07.av2rtmp  remux.AvPacket2RtmpRemuxer driven directly
//   c07.avq      rtsp.AvPacketQueue driven directly
//   c07.rtsp     a real rtsp.PubSession (SDP through the real parser) with the remuxer as observer
//   c07.ps       gb28181.PsUnpacker -> remuxer with the options StartRtpPub sets
//   c07.cust     logic.CustomizePubSessionContext
//   c07.e2e_*    the same three inputs through a real logic.Group
//                (AddRtspPubSession / StartRtpPub / AddCustomizePubSession) with an RTMP and an
//                HTTP-FLV subscriber on fake conns; the raw subscriber bytes are printed for the
//                python oracle, the messages the group broadcast (stream hook) for the model.

import (
	"encoding/base64"
	"encoding/hex"
	"fmt"
	"strings"
	"time"

	"github.com/q191201771/lal/pkg/base"
	"github.com/q191201771/lal/pkg/gb28181"
	"github.com/q191201771/lal/pkg/httpflv"
	"github.com/q191201771/lal/pkg/logic"
	"github.com/q191201771/lal/pkg/remux"
	"github.com/q191201771/lal/pkg/rtmp"
	"github.com/q191201771/lal/pkg/rtsp"
	"github.com/q191201771/lal/pkg/sdp"
)

func c07Nil(tok string) []byte {
	if tok == "nil" {
		return nil
	}
	return bytesTok(tok)
}

// one rtmp message as the remuxer / group hands it out
func c07Msg(msg base.RtmpMsg) string {
	h := msg.Header
	bad := ""
	if h.MsgLen != uint32(len(msg.Payload)) || h.MsgStreamId != rtmp.Msid1 {
		bad = "!hdr"
	}
	switch h.MsgTypeId {
	case base.RtmpTypeIdMetadata:
		if h.Csid != rtmp.CsidAmf || h.TimestampAbs != 0 {
			bad = "!hdr"
		}
		for _, a := range []int{-1, int(base.RtmpSoundFormatAac)} {
			for _, v := range []int{-1, int(base.RtmpCodecIdAvc), int(base.RtmpCodecIdHevc)} {
				b, _ := rtmp.BuildMetadata(-1, -1, a, v)
				if string(b) == string(msg.Payload) {
					return fmt.Sprintf("M:%s:%s%s", tokInt(int64(a)), tokInt(int64(v)), bad)
				}
			}
		}
		return "M?" + hexOf(msg.Payload)
	case base.RtmpTypeIdAudio:
		if h.Csid != rtmp.CsidAudio {
			bad = "!hdr"
		}
		return fmt.Sprintf("A:%s:%s%s", tokNum(uint64(h.TimestampAbs)), tokBytes(msg.Payload), bad)
	case base.RtmpTypeIdVideo:
		if h.Csid != rtmp.CsidVideo {
			bad = "!hdr"
		}
		return fmt.Sprintf("V:%s:%s%s", tokNum(uint64(h.TimestampAbs)), tokBytes(msg.Payload), bad)
	}
	return fmt.Sprintf("?%d:%s:%s", h.MsgTypeId, tokNum(uint64(h.TimestampAbs)), tokBytes(msg.Payload))
}

func c07Group(items []string) string {
	if len(items) == 0 {
		return "-"
	}
	return strings.Join(items, ";")
}

type c07Sink struct {
	cur    []string
	groups []string
}

func (s *c07Sink) onMsg(msg base.RtmpMsg) { s.cur = append(s.cur, c07Msg(msg.Clone())) }
func (s *c07Sink) cut() {
	s.groups = append(s.groups, c07Group(s.cur))
	s.cur = nil
}
func (s *c07Sink) String() string {
	if len(s.groups) == 0 {
		return "ok -"
	}
	return "ok " + strings.Join(s.groups, "|")
}

func c07Av(pt base.AvPacketPt, ts int64, payload []byte) string {
	return fmt.Sprintf("%s:%s:%s", tokInt(int64(pt)), tokInt(ts), tokBytes(payload))
}

func c07Packet(f []string) base.AvPacket {
	// pt:ts:payload
	return base.AvPacket{PayloadType: base.AvPacketPt(intTok(f[0])), Timestamp: int64(intTok(f[1])), Pts: int64(intTok(f[1])), Payload: bytesTok(f[2])}
}

func c07Steps(tok string) [][]string {
	var out [][]string
	if tok == "-" {
		return out
	}
	for _, it := range strings.Split(tok, ",") {
		out = append(out, strings.Split(it, ":"))
	}
	return out
}

// ---------------------------------------------------------------- sdp text for the rtsp ops

func c07Sdp(acodec, aclock, apt, ascTok, vcodec, vclock, vpt, vpsTok, spsTok, ppsTok string) string {
	b64 := base64.StdEncoding.EncodeToString
	s := "v=0\r\no=- 0 0 IN IP4 127.0.0.1\r\ns=x\r\nc=IN IP4 127.0.0.1\r\nt=0 0\r\n"
	switch acodec {
	case "aac":
		s += fmt.Sprintf("m=audio 0 RTP/AVP %s\r\na=rtpmap:%s MPEG4-GENERIC/%s/2\r\n", apt, apt, aclock)
		if ascTok != "nil" {
			s += fmt.Sprintf("a=fmtp:%s profile-level-id=1;mode=AAC-hbr;sizelength=13;indexlength=3;indexdeltalength=3; config=%s\r\n", apt, hex.EncodeToString(bytesTok(ascTok)))
		}
		s += "a=control:streamid=0\r\n"
	case "pcma":
		s += fmt.Sprintf("m=audio 0 RTP/AVP %s\r\na=rtpmap:%s PCMA/%s/1\r\na=control:streamid=0\r\n", apt, apt, aclock)
	case "pcmu":
		s += fmt.Sprintf("m=audio 0 RTP/AVP %s\r\na=rtpmap:%s PCMU/%s/1\r\na=control:streamid=0\r\n", apt, apt, aclock)
	case "opus":
		s += fmt.Sprintf("m=audio 0 RTP/AVP %s\r\na=rtpmap:%s opus/%s/2\r\na=control:streamid=0\r\n", apt, apt, aclock)
	}
	switch vcodec {
	case "h264":
		s += fmt.Sprintf("m=video 0 RTP/AVP %s\r\na=rtpmap:%s H264/%s\r\n", vpt, vpt, vclock)
		if spsTok != "nil" && ppsTok != "nil" {
			s += fmt.Sprintf("a=fmtp:%s packetization-mode=1; sprop-parameter-sets=%s,%s; profile-level-id=640016\r\n", vpt, b64(bytesTok(spsTok)), b64(bytesTok(ppsTok)))
		}
		s += "a=control:streamid=1\r\n"
	case "h265":
		s += fmt.Sprintf("m=video 0 RTP/AVP %s\r\na=rtpmap:%s H265/%s\r\n", vpt, vpt, vclock)
		if vpsTok != "nil" && spsTok != "nil" && ppsTok != "nil" {
			s += fmt.Sprintf("a=fmtp:%s sprop-vps=%s; sprop-sps=%s; sprop-pps=%s\r\n", vpt, b64(bytesTok(vpsTok)), b64(bytesTok(spsTok)), b64(bytesTok(ppsTok)))
		}
		s += "a=control:streamid=1\r\n"
	}
	return s
}

// observer of the rtsp op: the remuxer itself plus a signal when OnSdp (called on a goroutine by SetObserver) is over
type c07Observer struct {
	*remux.AvPacket2RtmpRemuxer
	sdpDone chan struct{}
}

func (o *c07Observer) OnSdp(ctx sdp.LogicContext) {
	o.AvPacket2RtmpRemuxer.OnSdp(ctx)
	close(o.sdpDone)
}

func c07SetFlags(filter, rot string) func() {
	of, or := rtsp.BaseInSessionTimestampFilterFlag, rtsp.TimestampFilterHandleRotateFlag
	rtsp.BaseInSessionTimestampFilterFlag, rtsp.TimestampFilterHandleRotateFlag = boolTok(filter), boolTok(rot)
	return func() { rtsp.BaseInSessionTimestampFilterFlag, rtsp.TimestampFilterHandleRotateFlag = of, or }
}

// a rtsp.PubSession initialised as the ANNOUNCE / SETUP (interleaved) handlers do
func c07PubSession(a []string) (*rtsp.PubSession, *fakeConn, string) {
	ctx, err := sdp.ParseSdp2LogicContext([]byte(c07Sdp(a[2], a[3], a[4], a[5], a[6], a[7], a[8], a[9], a[10], a[11])))
	if err != nil {
		return nil, nil, "errsdp"
	}
	conn := newFakeConn(nil)
	cmd := rtsp.NewServerCommandSession(nil, conn, rtsp.ServerAuthConfig{}, false, "")
	ps := rtsp.NewPubSession(base.UrlContext{LastItemOfPath: "s"}, cmd)
	ps.InitWithSdp(ctx)
	if a[2] != "none" {
		if err := ps.SetupWithChannel("rtsp://h/live/s/streamid=0", 0, 1); err != nil {
			return nil, nil, "errsetup"
		}
	}
	if a[6] != "none" {
		if err := ps.SetupWithChannel("rtsp://h/live/s/streamid=1", 2, 3); err != nil {
			return nil, nil, "errsetup"
		}
	}
	return ps, conn, ""
}

// ---------------------------------------------------------------- a group with one rtmp and one http-flv subscriber

type c07E2e struct {
	group *logic.Group
	hook  c07Sink
	rconn *fakeConn
	fconn *fakeConn
	rs    *rtmp.ServerSession
	fs    *httpflv.SubSession
}

type c07Hook struct{ e *c07E2e }

func (h c07Hook) OnMsg(msg base.RtmpMsg) { h.e.hook.onMsg(msg) }
func (h c07Hook) OnStop()                {}

func newC07E2e() *c07E2e {
	e := &c07E2e{}
	var cfg logic.Config
	cfg.RtmpConfig.Enable = true
	cfg.HttpflvConfig.Enable = true
	opt := logic.VerifGroupOptionWithHook(func(uniqueKey string, streamName string) logic.ICustomizeHookSessionContext {
		return c07Hook{e}
	})
	e.group = logic.NewGroup("live", "s", &cfg, opt, nopGroupObserver{})
	e.rconn = newFakeConn(nil)
	e.rs = rtmp.NewServerSession(nopRtmpObserver{}, e.rconn)
	e.group.AddRtmpSubSession(e.rs)
	e.fconn = newFakeConn(nil)
	e.fs = httpflv.NewSubSession(e.fconn, base.UrlContext{}, false, "k")
	e.group.AddHttpflvSubSession(e.fs)
	return e
}

func (e *c07E2e) result() string {
	e.hook.cut()
	fl := e.fconn.all()
	hdr := append(append([]byte{}, base.LalFlvHttpResponseHeader...), httpflv.FlvHeader...)
	flv := "?nohdr"
	if len(fl) == 0 {
		flv = "-"
	} else if strings.HasPrefix(string(fl), string(hdr)) {
		flv = hexOf(fl[len(base.LalFlvHttpResponseHeader):])
	}
	out := fmt.Sprintf("ok %s rtmp=%s flv=%s", e.hook.groups[0], hexOf(e.rconn.all()), flv)
	e.group.DelRtmpSubSession(e.rs)
	e.group.DelHttpflvSubSession(e.fs)
	e.rconn.Close()
	e.fconn.Close()
	return out
}

func c07WithSyncFlv(f func() string) string {
	old := httpflv.SubSessionWriteChanSize
	httpflv.SubSessionWriteChanSize = 0
	defer func() { httpflv.SubSessionWriteChanSize = old }()
	return f()
}

func c07Wait(cond func() bool) bool {
	deadline := time.Now().Add(20 * time.Second)
	for time.Now().Before(deadline) {
		if cond() {
			return true
		}
		time.Sleep(100 * time.Microsecond)
	}
	return false
}

// customize steps shared by c07.cust and c07.e2e_cust
func c07RunCustomize(ctx logic.ICustomizePubSessionContext, dispose func(), steps [][]string, after func(disposedErr bool)) {
	for _, f := range steps {
		var err error
		switch f[0] {
		case "O":
			v, au := intTok(f[1]), intTok(f[2])
			ctx.WithOption(func(o *base.AvPacketStreamOption) {
				o.VideoFormat = base.AvPacketStreamVideoFormat(v)
				o.AudioFormat = base.AvPacketStreamAudioFormat(au)
			})
		case "C":
			err = ctx.FeedAudioSpecificConfig(c07Nil(f[1]))
		case "P":
			err = ctx.FeedAvPacket(c07Packet(f[1:]))
		case "R":
			p := bytesTok(f[3])
			m := base.RtmpMsg{Header: base.RtmpHeader{MsgLen: uint32(len(p)), MsgStreamId: rtmp.Msid1, TimestampAbs: uint32(numTok(f[2]))}, Payload: p}
			if f[1] == "A" {
				m.Header.Csid, m.Header.MsgTypeId = rtmp.CsidAudio, base.RtmpTypeIdAudio
			} else {
				m.Header.Csid, m.Header.MsgTypeId = rtmp.CsidVideo, base.RtmpTypeIdVideo
			}
			err = ctx.FeedRtmpMsg(m)
		case "D":
			dispose()
		}
		after(err == base.ErrDisposedInStream)
	}
}

func init() {
	// c07.av2rtmp <vfmt> <afmt> <step,step,...>   step = I:<asc>:<vps>:<sps>:<pps> | P:<pt>:<ts>:<payload>
	register("c07.av2rtmp", func(a []string) (out string) {
		defer func() {
			if r := recover(); r != nil {
				out = "panic"
			}
		}()
		sink := &c07Sink{}
		r := remux.NewAvPacket2RtmpRemuxer().WithOnRtmpMsg(sink.onMsg)
		v, au := intTok(a[0]), intTok(a[1])
		r.WithOption(func(o *base.AvPacketStreamOption) {
			o.VideoFormat = base.AvPacketStreamVideoFormat(v)
			o.AudioFormat = base.AvPacketStreamAudioFormat(au)
		})
		for _, f := range c07Steps(a[2]) {
			switch f[0] {
			case "I":
				r.InitWithAvConfig(c07Nil(f[1]), c07Nil(f[2]), c07Nil(f[3]), c07Nil(f[4]))
			case "P":
				r.FeedAvPacket(c07Packet(f[1:]))
			}
			sink.cut()
		}
		return sink.String()
	})

	// c07.avq <rot> <pt:ts:payload,...>
	register("c07.avq", func(a []string) string {
		defer c07SetFlags("1", a[0])()
		var cur, groups []string
		q := rtsp.NewAvPacketQueue(func(pkt base.AvPacket) {
			cur = append(cur, c07Av(pkt.PayloadType, pkt.Timestamp, pkt.Payload))
		})
		for _, f := range c07Steps(a[1]) {
			q.Feed(c07Packet(f))
			groups = append(groups, c07Group(cur))
			cur = nil
		}
		if len(groups) == 0 {
			return "ok -"
		}
		return "ok " + strings.Join(groups, "|")
	})

	// c07.rtsp <filter> <rot> <acodec> <aclock> <apt> <asc> <vcodec> <vclock> <vpt> <vps> <sps> <pps> <ch:pkt,...>
	register("c07.rtsp", func(a []string) (out string) {
		defer func() {
			if r := recover(); r != nil {
				out = "panic"
			}
		}()
		defer c07SetFlags(a[0], a[1])()
		ps, conn, e := c07PubSession(a)
		if e != "" {
			return e
		}
		defer conn.Close()
		sink := &c07Sink{}
		obs := &c07Observer{remux.NewAvPacket2RtmpRemuxer().WithOnRtmpMsg(sink.onMsg), make(chan struct{})}
		ps.SetObserver(obs)
		select {
		case <-obs.sdpDone:
		case <-time.After(20 * time.Second):
			return "err-no-onsdp"
		}
		sink.cut()
		for _, f := range c07Steps(a[12]) {
			ps.HandleInterleavedPacket(bytesTok(f[1]), intTok(f[0]))
			sink.cut()
		}
		return sink.String()
	})

	// c07.ps <maxlist> <pkt,pkt,...>
	register("c07.ps", func(a []string) (out string) {
		defer func() {
			if r := recover(); r != nil {
				out = "panic"
			}
		}()
		gb28181.VerifSetMaxUnpackRtpListSize(intTok(a[0]))
		sink := &c07Sink{}
		r := remux.NewAvPacket2RtmpRemuxer()
		r.WithOption(func(option *base.AvPacketStreamOption) {
			option.VideoFormat = base.AvPacketStreamVideoFormatAnnexb
			option.AudioFormat = base.AvPacketStreamAudioFormatAdtsAac
		})
		r.WithOnRtmpMsg(sink.onMsg)
		var avs, groups []string
		u := gb28181.NewPsUnpacker().WithOnAvPacket(func(pkt *base.AvPacket) {
			avs = append(avs, c07Av(pkt.PayloadType, pkt.Timestamp, pkt.Payload))
			r.OnAvPacket(*pkt)
		})
		if a[1] != "-" {
			for _, it := range strings.Split(a[1], ",") {
				_ = u.FeedRtpPacket(bytesTok(it))
				groups = append(groups, c07Group(avs)+"~"+c07Group(sink.cur))
				avs, sink.cur = nil, nil
			}
		}
		if len(groups) == 0 {
			return "ok -"
		}
		return "ok " + strings.Join(groups, "|")
	})

	// c07.cust <step,...>  step = O:<vfmt>:<afmt> | C:<asc> | P:<pt>:<ts>:<payload> | R:<A|V>:<ts>:<payload> | D
	register("c07.cust", func(a []string) (out string) {
		defer func() {
			if r := recover(); r != nil {
				out = "panic"
			}
		}()
		sink := &c07Sink{}
		ctx := logic.NewCustomizePubSessionContext("s").WithOnRtmpMsg(sink.onMsg)
		c07RunCustomize(ctx, ctx.Dispose, c07Steps(a[0]), func(disposed bool) {
			sink.cut()
			if disposed {
				sink.groups[len(sink.groups)-1] += "!"
			}
		})
		return sink.String()
	})

	// c07.e2e_rtsp: arguments of c07.rtsp
	register("c07.e2e_rtsp", func(a []string) string {
		return c07WithSyncFlv(func() string {
			defer c07SetFlags(a[0], a[1])()
			ps, conn, er := c07PubSession(a)
			if er != "" {
				return er
			}
			defer conn.Close()
			e := newC07E2e()
			if err := e.group.AddRtspPubSession(ps); err != nil {
				return "err-add"
			}
			if !c07Wait(e.group.VerifHasSdp) {
				return "err-no-onsdp"
			}
			for _, f := range c07Steps(a[12]) {
				ps.HandleInterleavedPacket(bytesTok(f[1]), intTok(f[0]))
			}
			e.group.DelRtspPubSession(ps)
			return e.result()
		})
	})

	// c07.e2e_ps <maxlist> <pkt,...>
	register("c07.e2e_ps", func(a []string) string {
		return c07WithSyncFlv(func() string {
			gb28181.VerifSetMaxUnpackRtpListSize(intTok(a[0]))
			e := newC07E2e()
			resp := e.group.StartRtpPub(base.ApiCtrlStartRtpPubReq{StreamName: "s", Port: 0, TimeoutMs: 60000})
			if resp.ErrorCode != base.ErrorCodeSucc {
				return "err-start"
			}
			s := e.group.VerifPsPubSession()
			if s == nil {
				return "err-nosession"
			}
			if a[1] != "-" {
				for _, it := range strings.Split(a[1], ",") {
					s.VerifFeedPacket(bytesTok(it))
				}
			}
			out := e.result()
			_ = s.Dispose()
			c07Wait(func() bool { return !e.group.VerifHasInSession() })
			return out
		})
	})

	// c07.e2e_cust <step,...>
	register("c07.e2e_cust", func(a []string) string {
		return c07WithSyncFlv(func() string {
			e := newC07E2e()
			ctx, err := e.group.AddCustomizePubSession("s")
			if err != nil {
				return "err-add"
			}
			c07RunCustomize(ctx, func() { e.group.DelCustomizePubSession(ctx) }, c07Steps(a[0]), func(bool) {})
			out := e.result()
			e.group.DelCustomizePubSession(ctx)
			return out
		})
	})
}
