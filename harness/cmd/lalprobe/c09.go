package main

// C09: MPEG-TS packetisation (mpegts.Frame.Pack, PackPat, PackPmt, CalcCrc32).
// Everything used here is exported by lal; no hook.

import (
	"fmt"
	"strconv"
	"strings"

	"github.com/q191201771/lal/pkg/mpegts"
)

// signed int token (codec ids are Go ints): decimal, 0x hex, optional leading '-'
func sintTok(s string) int {
	neg := false
	if strings.HasPrefix(s, "-") {
		neg = true
		s = s[1:]
	}
	var v int64
	var err error
	if strings.HasPrefix(s, "0x") {
		v, err = strconv.ParseInt(s[2:], 16, 64)
	} else {
		v, err = strconv.ParseInt(s, 10, 64)
	}
	if err != nil {
		panic("bad int " + s)
	}
	if neg {
		v = -v
	}
	return int(v)
}

func init() {
	// c09.pack <pid> <sid> <key> <pts> <dts> <cc> <raw>  ->  <cc'> <packets>
	register("c09.pack", func(a []string) string {
		f := mpegts.Frame{
			Pid: uint16(numTok(a[0])), Sid: uint8(numTok(a[1])), Key: boolTok(a[2]),
			Pts: numTok(a[3]), Dts: numTok(a[4]), Cc: uint8(numTok(a[5])), Raw: bytesTok(a[6]),
		}
		out := f.Pack()
		return fmt.Sprintf("%s %s", tokNum(uint64(f.Cc)), tokBytes(out))
	})
	// c09.seq <pid> <sid> <cc> <key:pts:dts:raw,...>  ->  <cc'> <n0,n1,...> <all packets>
	// the counter is carried from one frame to the next exactly as
	// remux.Rtmp2MpegtsRemuxer does (frame.Cc = s.videoCc; Pack; s.videoCc = frame.Cc)
	register("c09.seq", func(a []string) string {
		pid, sid, cc := uint16(numTok(a[0])), uint8(numTok(a[1])), uint8(numTok(a[2]))
		var all []byte
		var counts []string
		if a[3] != "-" {
			for _, item := range strings.Split(a[3], ",") {
				p := strings.Split(item, ":")
				if len(p) != 4 {
					panic("bad frame item")
				}
				f := mpegts.Frame{Pid: pid, Sid: sid, Key: boolTok(p[0]), Pts: numTok(p[1]), Dts: numTok(p[2]), Cc: cc, Raw: bytesTok(p[3])}
				out := f.Pack()
				cc = f.Cc
				counts = append(counts, tokNum(uint64(len(out)/188)))
				all = append(all, out...)
			}
		}
		cs := "-"
		if len(counts) > 0 {
			cs = strings.Join(counts, ",")
		}
		return fmt.Sprintf("%s %s %s", tokNum(uint64(cc)), cs, tokBytes(all))
	})
	register("c09.pat", func(a []string) string {
		return tokBytes(mpegts.PackPat())
	})
	// c09.pmt <videoCodecId> <audioCodecId>   (Go ints, may be negative)
	register("c09.pmt", func(a []string) string {
		return tokBytes(mpegts.PackPmt(sintTok(a[0]), sintTok(a[1])))
	})
	// c09.crc <init> <bytes>
	register("c09.crc", func(a []string) string {
		return tokNum(uint64(mpegts.CalcCrc32(uint32(numTok(a[0])), bytesTok(a[1]))))
	})
}
