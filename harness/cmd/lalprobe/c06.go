package main

// C06: RTMP ingest -> TS / HLS / RTSP.  c06.ts drives remux.Rtmp2MpegtsRemuxer,
// c06.rtsp drives remux.Rtmp2RtspRemuxer, both directly with RTMP messages.
// Everything used here is exported by lal; no hook.

import (
	"fmt"
	"strings"

	"github.com/q191201771/lal/pkg/base"
	"github.com/q191201771/lal/pkg/mpegts"
	"github.com/q191201771/lal/pkg/remux"
	"github.com/q191201771/lal/pkg/rtmp"
	"github.com/q191201771/lal/pkg/rtprtcp"
	"github.com/q191201771/lal/pkg/sdp"
)

func c06Summary(b []byte) string { return fmt.Sprintf("#%d.%016x", len(b), fnv1a64(b)) }

func c06Msg(ty, ts, payload string) base.RtmpMsg {
	p := bytesTok(payload)
	t := uint8(numTok(ty))
	msg := base.RtmpMsg{Header: base.RtmpHeader{MsgLen: uint32(len(p)), MsgTypeId: t, MsgStreamId: 1, TimestampAbs: uint32(numTok(ts))}, Payload: p}
	switch t {
	case base.RtmpTypeIdAudio:
		msg.Header.Csid = rtmp.CsidAudio
	case base.RtmpTypeIdVideo:
		msg.Header.Csid = rtmp.CsidVideo
	default:
		msg.Header.Csid = rtmp.CsidAmf
	}
	return msg
}

// c06RecvBufs hands every message to the code under test the way a real rtmp session does: the payload lives in a
// receive buffer that is REUSED for the next message of the same type (the chunk composer keeps one buffer per chunk
// stream; "the payload block is reused after the callback returns"), and that buffer is scribbled over as soon as the
// call has returned.  Whatever a remuxer retains of a message without copying it then shows up in its later output -
// a mismatch with the model, which has value semantics.
type c06RecvBufs map[uint8][]byte

func (rb c06RecvBufs) feed(msg base.RtmpMsg, call func(base.RtmpMsg)) {
	t := msg.Header.MsgTypeId
	b := rb[t]
	if cap(b) < len(msg.Payload) {
		b = make([]byte, len(msg.Payload), 2*len(msg.Payload)+16)
	}
	b = b[:len(msg.Payload)]
	copy(b, msg.Payload)
	rb[t] = b
	msg.Payload = b
	call(msg)
	// ... as the next message on that chunk stream would
	for i := range b {
		b[i] ^= 0x5a
	}
}

// scripted observer: one decision per top-level OnTsPackets callback (call
// FlushAudio from inside the callback or not); events are recorded when their
// callback completes, so a nested audio frame precedes the frame whose callback
// triggered it.
type c06TsObserver struct {
	r      *remux.Rtmp2MpegtsRemuxer
	script string
	pos    int
	depth  int
	out    []string
}

func (o *c06TsObserver) OnPatPmt(b []byte) { o.out = append(o.out, "P:"+hexOf(b)) }

func (o *c06TsObserver) OnTsPackets(tsPackets []byte, frame *mpegts.Frame, boundary bool) {
	nested := o.depth > 0
	// copy what the remuxer may reuse
	pk := append([]byte{}, tsPackets...)
	f := *frame
	rawSum := c06Summary(frame.Raw)
	if !nested {
		decide := false
		if o.pos < len(o.script) {
			decide = o.script[o.pos] == '1'
		}
		o.pos++
		if decide {
			o.depth++
			o.r.FlushAudio()
			o.depth--
		}
	} else {
		// a FlushAudio from inside a nested callback finds the cache empty
		o.depth++
		o.r.FlushAudio()
		o.depth--
	}
	o.out = append(o.out, fmt.Sprintf("T:%s:%s:%s:%s:%s:%s:%s:%s:%s:%s:%s",
		tokBool(nested), tokNum(uint64(f.Pid)), tokNum(uint64(f.Sid)), tokBool(f.Key), tokNum(f.Dts), tokNum(f.Pts),
		tokNum(uint64(f.Cts)), tokNum(uint64(f.Cc)), tokBool(boundary), rawSum, hexOf(pk)))
}

func c06Join(l []string) string {
	if len(l) == 0 {
		return "-"
	}
	return strings.Join(l, ";")
}

func init() {
	// c06.ts <script> <M:type:ts:payload | F | D ; ...>
	register("c06.ts", func(a []string) string {
		o := &c06TsObserver{}
		if a[0] != "-" {
			o.script = a[0]
		}
		r := remux.NewRtmp2MpegtsRemuxer(o)
		o.r = r
		recv := c06RecvBufs{}
		if a[1] != "-" {
			for _, e := range strings.Split(a[1], ";") {
				f := strings.Split(e, ":")
				switch f[0] {
				case "M":
					recv.feed(c06Msg(f[1], f[2], f[3]), r.FeedRtmpMessage)
				case "F":
					r.FlushAudio()
				case "D":
					r.Dispose()
				default:
					return "bad-action"
				}
			}
		}
		return c06Join(o.out)
	})
	// c06.rtsp <M:type:ts:payload | I:acodec:rate:payload ; ...>
	register("c06.rtsp", func(a []string) string {
		oldTool := base.LalPackSdp
		base.LalPackSdp = "lal-c06"
		defer func() { base.LalPackSdp = oldTool }()
		var out []string
		first := map[bool]int{}
		seen := map[bool]bool{}
		var r *remux.Rtmp2RtspRemuxer
		r = remux.NewRtmp2RtspRemuxer(
			func(ctx sdp.LogicContext) {
				out = append(out, "S:"+hexOf(ctx.RawSdp))
			},
			func(pkt rtprtcp.RtpPacket) {
				// track by payload type (96 / 98 = video); sequence numbers relative to the
				// first packet of the track (the packers start at a random number)
				audio := !(pkt.Header.PacketType == uint8(base.AvPacketPtAvc) || pkt.Header.PacketType == uint8(base.AvPacketPtHevc))
				if !seen[audio] {
					seen[audio] = true
					first[audio] = int(pkt.Header.Seq)
				}
				rel := (int(pkt.Header.Seq) - first[audio]) & 0xffff
				tr := "v"
				if audio {
					tr = "a"
				}
				out = append(out, fmt.Sprintf("R:%s:%s:%s:%s:%s:%s", tr, tokNum(uint64(pkt.Header.PacketType)), tokNum(uint64(pkt.Header.Mark)),
					tokNum(uint64(rel)), tokNum(uint64(pkt.Header.Timestamp)), hexOf(pkt.Raw[12:])))
			})
		recv := c06RecvBufs{}
		if a[0] != "-" {
			for _, e := range strings.Split(a[0], ";") {
				f := strings.Split(e, ":")
				switch f[0] {
				case "M":
					recv.feed(c06Msg(f[1], f[2], f[3]), r.FeedRtmpMsg)
				case "I":
					recv.feed(c06Msg("18", "0", f[3]), r.FeedRtmpMsg)
				default:
					return "bad-input"
				}
			}
		}
		return c06Join(out)
	})
}
