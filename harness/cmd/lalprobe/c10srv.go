package main

// c10.sm <stream> <fragMs>:<fragNum>:<delThr>:<cleanup>[:<enable><enable_https>] <ev>,<ev>,...
//
// The optional fifth field is hls.enable / hls.enable_https as two digits (10 = default, 01 = https only, 11, 00 =
// hls off: no muxer at all).
//
// The server level around hls.Muxer, on the REAL logic.ServerManager / logic.Group (one stream name):
//
//	N          ServerManager.AddCustomizePubSession (getOrCreateGroup + Group.addIn -> startHlsIfNeeded); an error
//	           (ErrDupInStream) is ignored
//	P:<bytes>  Group.OnPatPmt on the publisher's group
//	A|V:...    Group.OnTsPackets on the publisher's group (as c10.run)
//	D          ServerManager.DelCustomizePubSession (Group.delIn -> stopHlsIfNeeded: Dispose, CleanupHlsIfNeeded
//	           arms its REAL delayed task: fragMs*(fragNum+delThr) ms on naza's defertaskthread)
//	T          the body of RunLoop's 1 s tick (ServerManager.VerifTick): inactive groups are erased
//	C          wait until the oldest armed delayed task has run (nothing to wait for: no-op)
//
// The delay is only ever shortened by configuration.  A task that runs is observed through the two log lines
// of its closure ("cancel cleanup ..." / "cleanup hls file path."; logic.Log is an exported variable) and,
// for the second, the RemoveAll call arriving at the recording layer.  Events that the script places BEFORE a
// task must have finished before it ran: otherwise the attempt is discarded and repeated.  A second D while a
// task is pending is held back until 2/5 of the delay after the previous one.
//
// output: "ev <calls of event 1>|<calls of event 2>|... files <name>=<c|o>:<hex>,..."  ("-" = no call).
// At the end of the script the publisher is removed, a tick erases the group and every task still pending is
// waited for; none of that is part of the output.

import (
	"fmt"
	"sort"
	"strings"
	"sync/atomic"
	"time"

	"github.com/q191201771/lal/pkg/hls"
	"github.com/q191201771/lal/pkg/logic"
	"github.com/q191201771/lal/pkg/mpegts"
	"github.com/q191201771/naza/pkg/filesystemlayer"
	"github.com/q191201771/naza/pkg/nazalog"
)

type c10Log struct {
	nazalog.Logger
	cancels  int32
	cleanups int32
}

func (l *c10Log) Warnf(format string, v ...interface{}) {
	if strings.HasPrefix(format, "cancel cleanup hls file path") {
		atomic.AddInt32(&l.cancels, 1)
	}
}

func (l *c10Log) Infof(format string, v ...interface{}) {
	if strings.HasPrefix(format, "cleanup hls file path.") {
		atomic.AddInt32(&l.cleanups, 1)
	}
}

func (l *c10Fsl) length() int {
	l.mu.Lock()
	defer l.mu.Unlock()
	return len(l.log)
}

// one attempt; ok=false: an armed task ran earlier than the script wanted (machine too slow), repeat
func c10smAttempt(stream string, ms, num, thr, mode int, sw string, evs []string) (out string, ok bool) {
	enable, enableHttps := sw[0] == '1', sw[1] == '1'
	sm := c10ServerManagerSw(ms, num, thr, mode, enable, enableHttps)
	mem := filesystemlayer.NewFslMemory()
	fsl := &c10Fsl{inner: mem, closed: map[string]bool{}}
	old := hls.VerifSetFileSystemLayer(fsl)
	clk := &c10Clock{}
	oldClock := hls.Clock
	hls.Clock = clk
	lg := &c10Log{Logger: logic.Log}
	oldLog := logic.Log
	logic.Log = lg
	defer func() {
		hls.VerifSetFileSystemLayer(old)
		hls.Clock = oldClock
		logic.Log = oldLog
	}()

	// a delayed cleanup is expected whenever a muxer was started (enable or enable_https) and the mode says so
	arms := (enable || enableHttps) && (mode == hls.CleanupModeInTheEnd || mode == hls.CleanupModeAsap)
	delay := time.Duration(ms*(num+thr)) * time.Millisecond
	var ctx logic.ICustomizePubSessionContext
	var grp *logic.Group
	pending := 0 // tasks armed and not yet waited for
	fired := 0   // tasks the script has waited for
	lost := 0    // waits that timed out
	var tick uint32
	ranSoFar := func() int { return int(atomic.LoadInt32(&lg.cancels) + atomic.LoadInt32(&lg.cleanups)) }
	// wait until one more task has run completely
	waitOne := func() bool {
		deadline := time.Now().Add(delay + time.Second)
		for time.Now().Before(deadline) {
			if ranSoFar() > fired && atomic.LoadInt32(&fsl.raDone) >= atomic.LoadInt32(&lg.cleanups) {
				fired++
				return true
			}
			time.Sleep(500 * time.Microsecond)
		}
		return false
	}
	// two tasks armed one after the other run gap apart, so that the script can place events between them
	gap := delay * 2 / 5
	var lastArm time.Time
	stop := func() {
		if ctx != nil {
			if arms && pending > 0 {
				if d := time.Until(lastArm.Add(gap)); d > 0 {
					time.Sleep(d)
				}
			}
			lastArm = time.Now()
			sm.DelCustomizePubSession(ctx)
			ctx, grp = nil, nil
			if arms {
				pending++
			}
		}
	}
	groups := []string{}
	timingOk := true
	errOut := ""
	for _, ev := range evs {
		from := fsl.length()
		f := strings.Split(ev, ":")
		switch f[0] {
		case "N":
			if c, err := sm.AddCustomizePubSession(stream); err == nil {
				ctx = c
				grp = sm.GetGroup("", stream)
			}
		case "P":
			if grp != nil {
				grp.OnPatPmt(bytesTok(f[1]))
			}
		case "A", "V":
			if grp != nil {
				fr := &mpegts.Frame{Pts: numTok(f[1]), Dts: numTok(f[2]), Sid: mpegts.StreamIdVideo, Pid: mpegts.PidVideo}
				if f[0] == "A" {
					fr.Sid = mpegts.StreamIdAudio
					fr.Pid = mpegts.PidAudio
				}
				clk.ms = int64(numTok(f[4]))
				grp.OnTsPackets(bytesTok(f[5]), fr, boundaryTok(f[3]))
			}
		case "D":
			stop()
		case "T":
			tick++
			sm.VerifTick(tick)
		case "C":
			if pending > 0 {
				if !waitOne() {
					// no delayed task ran within delay + 1 s: none was armed.  The event made no call; the
					// oracle (cleanup armed as the mode says) and the model decide whether that is right
					lost++
				}
				pending--
			}
		default:
			panic("bad event " + ev)
		}
		if errOut != "" {
			break
		}
		// nothing the script has not waited for may have run by now
		if ranSoFar() != fired {
			timingOk = false
			break
		}
		fsl.mu.Lock()
		g := "-"
		if len(fsl.log) > from {
			g = strings.Join(fsl.log[from:], ";")
		}
		fsl.mu.Unlock()
		groups = append(groups, g)
	}
	// the observation: final directory
	files := []string{}
	if errOut == "" && timingOk {
		fsl.mu.Lock()
		names := []string{}
		for n := range fsl.closed {
			if _, err := mem.ReadFile(n); err == nil {
				names = append(names, n)
			}
		}
		sort.Strings(names)
		for _, n := range names {
			b, _ := mem.ReadFile(n)
			st := "o"
			if fsl.closed[n] {
				st = "c"
			}
			files = append(files, fmt.Sprintf("%s=%s:%s", n, st, hexOf(b)))
		}
		fsl.mu.Unlock()
	}
	// leave the server manager as it was found: no publisher, no group, no pending task
	stop()
	tick++
	sm.VerifTick(tick)
	total := fired + pending
	if lost > 0 {
		total = fired // what was not armed before is not armed now either
	}
	deadline := time.Now().Add(delay + time.Second)
	for (ranSoFar() < total || atomic.LoadInt32(&fsl.raDone) < atomic.LoadInt32(&lg.cleanups)) && time.Now().Before(deadline) {
		time.Sleep(500 * time.Microsecond)
	}
	if errOut != "" {
		return errOut, true
	}
	if !timingOk {
		return "", false
	}
	ev := "-"
	if len(groups) > 0 {
		ev = strings.Join(groups, "|")
	}
	fl := "-"
	if len(files) > 0 {
		fl = strings.Join(files, ",")
	}
	return "ev " + ev + " files " + fl, true
}

func init() {
	register("c10.sm", func(a []string) string {
		c10smMu.Lock()
		defer c10smMu.Unlock()
		cf := strings.Split(a[1], ":")
		evs := []string{}
		if a[2] != "-" {
			evs = strings.Split(a[2], ",")
		}
		for attempt := 0; attempt < 6; attempt++ {
			sw := "10"
			if len(cf) > 4 {
				sw = cf[4]
			}
			out, ok := c10smAttempt(a[0], intTok(cf[0]), intTok(cf[1]), intTok(cf[2]), intTok(cf[3]), sw, evs)
			if ok {
				return out
			}
		}
		return "err machine-too-slow-for-the-configured-delay"
	})
}
