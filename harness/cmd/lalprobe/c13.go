package main

// C13: hostile input on the RTP/RTCP, RTSP-interleaved, WebSocket surfaces.
// Every op runs under recover (runOne); a panic prints panic@<pkg.Func>:<kind>.

import (
	"bufio"
	"bytes"
	"fmt"
	"io"
	"net"
	"sort"
	"strings"
	"time"

	"github.com/q191201771/lal/pkg/base"
	"github.com/q191201771/lal/pkg/gb28181"
	"github.com/q191201771/lal/pkg/hls"
	"github.com/q191201771/lal/pkg/httpflv"
	"github.com/q191201771/lal/pkg/logic"
	"github.com/q191201771/lal/pkg/rtmp"
	"github.com/q191201771/lal/pkg/rtprtcp"
	"github.com/q191201771/lal/pkg/rtsp"
	"github.com/q191201771/lal/pkg/sdp"
)

// c13Conn: reads return the queued input and then io.EOF; writes are recorded
type c13Conn struct {
	in  []byte
	out []byte
}

func (c *c13Conn) Read(b []byte) (int, error) {
	if len(c.in) == 0 {
		return 0, io.EOF
	}
	n := copy(b, c.in)
	c.in = c.in[n:]
	return n, nil
}
func (c *c13Conn) Write(b []byte) (int, error)        { c.out = append(c.out, b...); return len(b), nil }
func (c *c13Conn) Close() error                       { return nil }
func (c *c13Conn) LocalAddr() net.Addr                { return fakeAddr{} }
func (c *c13Conn) RemoteAddr() net.Addr               { return fakeAddr{} }
func (c *c13Conn) SetDeadline(t time.Time) error      { return nil }
func (c *c13Conn) SetReadDeadline(t time.Time) error  { return nil }
func (c *c13Conn) SetWriteDeadline(t time.Time) error { return nil }

// c13Int: like tokInt, also right for math.MinInt64
func c13Int(v int64) string {
	if v < 0 {
		return fmt.Sprintf("-0x%x", uint64(-v))
	}
	return fmt.Sprintf("0x%x", v)
}

func c13U32s(v []uint32) string {
	if len(v) == 0 {
		return "-"
	}
	var s []string
	for _, x := range v {
		s = append(s, tokNum(uint64(x)))
	}
	return strings.Join(s, ",")
}

// ---------------------------------------------------------------- RTSP in-session over a fake command session

type c13Writer struct{ ev *[]string }

func (w c13Writer) WriteInterleavedPacket(packet []byte, channel int) error {
	*w.ev = append(*w.ev, fmt.Sprintf("rr:%s:%s", tokNum(uint64(channel)), tokBytes(packet)))
	return nil
}

type c13Observer struct{ ev *[]string }

func (o c13Observer) OnSdp(sdpCtx sdp.LogicContext) {}
func (o c13Observer) OnRtpPacket(pkt rtprtcp.RtpPacket) {
	*o.ev = append(*o.ev, "rtp:"+tokNum(uint64(pkt.Header.Seq)))
}
func (o c13Observer) OnAvPacket(pkt base.AvPacket) {
	*o.ev = append(*o.ev, fmt.Sprintf("av:%s:%s:%s", tokInt(int64(pkt.PayloadType)), tokInt(pkt.Timestamp), tokBytes(pkt.Payload)))
}

// codec token -> SDP media section. clock is the literal text put after the
// encoding name (so that hostile clock rates go through the real SDP parser).
func c13Media(kind string, codec string, clock string, pt string, control string) string {
	if codec == "none" {
		return ""
	}
	m := fmt.Sprintf("m=%s 0 RTP/AVP %s\r\n", kind, pt)
	switch codec {
	case "aac":
		m += fmt.Sprintf("a=rtpmap:%s MPEG4-GENERIC/%s/2\r\n", pt, clock)
		m += fmt.Sprintf("a=fmtp:%s profile-level-id=1;mode=AAC-hbr;sizelength=13;indexlength=3;indexdeltalength=3; config=1210\r\n", pt)
	case "aacnoasc":
		m += fmt.Sprintf("a=rtpmap:%s MPEG4-GENERIC/%s/2\r\n", pt, clock)
	case "pcma":
		m += fmt.Sprintf("a=rtpmap:%s PCMA/%s/1\r\n", pt, clock)
	case "pcmu":
		m += fmt.Sprintf("a=rtpmap:%s PCMU/%s/1\r\n", pt, clock)
	case "opus":
		m += fmt.Sprintf("a=rtpmap:%s opus/%s/2\r\n", pt, clock)
	case "h264":
		m += fmt.Sprintf("a=rtpmap:%s H264/%s\r\n", pt, clock)
	case "h265":
		m += fmt.Sprintf("a=rtpmap:%s H265/%s\r\n", pt, clock)
	default:
		m += fmt.Sprintf("a=rtpmap:%s FOO/%s\r\n", pt, clock)
	}
	m += "a=control:" + control + "\r\n"
	return m
}

func c13Join(ev []string) string {
	if len(ev) == 0 {
		return "-"
	}
	return strings.Join(ev, ";")
}

func init() {
	rtsp.BaseInSessionTimestampFilterFlag = false

	// c13.rtp <packet>: ParseRtpPacket then Body()
	register("c13.rtp", func(a []string) string {
		pkt, err := rtprtcp.ParseRtpPacket(bytesTok(a[0]))
		if err != nil {
			return "err"
		}
		h := pkt.Header
		body := pkt.Body()
		return fmt.Sprintf("ok %d %d %d %d %d %s %s %s %s %s %s %s %s", h.Version, h.Padding, h.Extension, h.CsrcCount, h.Mark,
			tokNum(uint64(h.PacketType)), tokNum(uint64(h.Seq)), tokNum(uint64(h.Timestamp)), tokNum(uint64(h.Ssrc)),
			c13U32s(h.Csrc), tokNum(uint64(h.ExtensionProfile)), tokBytes(h.Extensions), tokBytes(body))
	})

	// c13.bound <avc|hevc> <packet>: ParseRtpPacket then IsAvcBoundary / IsHevcBoundary
	register("c13.bound", func(a []string) string {
		pkt, err := rtprtcp.ParseRtpPacket(bytesTok(a[1]))
		if err != nil {
			return "err"
		}
		if a[0] == "avc" {
			return "ok " + tokBool(rtprtcp.IsAvcBoundary(pkt))
		}
		return "ok " + tokBool(rtprtcp.IsHevcBoundary(pkt))
	})

	// c13.rtcphdr <packet>: ParseRtcpHeader ; c13.sr <packet>: ParseSr
	register("c13.rtcphdr", func(a []string) string {
		h := rtprtcp.ParseRtcpHeader(bytesTok(a[0]))
		return fmt.Sprintf("ok %d %d %s %s %s", h.Version, h.Padding, tokNum(uint64(h.CountOrFormat)), tokNum(uint64(h.PacketType)), tokNum(uint64(h.Length)))
	})
	register("c13.sr", func(a []string) string {
		s := rtprtcp.ParseSr(bytesTok(a[0]))
		return fmt.Sprintf("ok %s %s %s %s %s %s %s", tokNum(uint64(s.SenderSsrc)), tokNum(uint64(s.Msw)), tokNum(uint64(s.Lsw)),
			tokNum(uint64(s.Timestamp)), tokNum(uint64(s.PktCnt)), tokNum(uint64(s.OctetCnt)), tokNum(uint64(s.GetMiddleNtp())))
	})

	// c13.insess <acodec> <aclock> <apt> <vcodec> <vclock> <vpt> <ch:pkt,ch:pkt,...>
	// a real rtsp.BaseInSession initialised from an SDP that goes through the real
	// parser; channels 0/1 audio rtp/rtcp, 2/3 video rtp/rtcp.
	register("c13.insess", func(a []string) string {
		var ev []string
		sdpTxt := "v=0\r\no=- 0 0 IN IP4 127.0.0.1\r\ns=x\r\nc=IN IP4 127.0.0.1\r\nt=0 0\r\n" +
			c13Media("audio", a[0], a[1], a[2], "streamid=0") + c13Media("video", a[3], a[4], a[5], "streamid=1")
		ctx, err := sdp.ParseSdp2LogicContext([]byte(sdpTxt))
		if err != nil {
			return "errsdp"
		}
		s := rtsp.NewBaseInSessionWithObserver(base.SessionTypeRtspPub, c13Writer{&ev}, c13Observer{&ev})
		s.InitWithSdp(ctx)
		if a[0] != "none" {
			if err := s.SetupWithChannel("rtsp://h/live/x/streamid=0", 0, 1); err != nil {
				return "errsetup"
			}
		}
		if a[3] != "none" {
			if err := s.SetupWithChannel("rtsp://h/live/x/streamid=1", 2, 3); err != nil {
				return "errsetup"
			}
		}
		if a[6] != "-" {
			for _, it := range strings.Split(a[6], ",") {
				f := strings.SplitN(it, ":", 2)
				s.HandleInterleavedPacket(bytesTok(f[1]), intTok(f[0]))
				ev = append(ev, "|")
			}
		}
		_ = s.Dispose()
		return "ok " + c13Join(ev)
	})

	// c13.ilv <stream>: readInterleaved (through the verif hook) until it reports
	// a non-interleaved byte or an error
	register("c13.ilv", func(a []string) string {
		r := bufio.NewReader(bytes.NewReader(bytesTok(a[0])))
		var out []string
		for i := 0; i < 64; i++ {
			is, p, ch, err := rtsp.VerifReadInterleaved(r)
			if err != nil {
				out = append(out, "err")
				break
			}
			if !is {
				rest := make([]byte, r.Buffered())
				_, _ = r.Read(rest)
				out = append(out, "text:"+tokBytes(rest))
				break
			}
			out = append(out, tokNum(uint64(ch))+":"+tokBytes(p))
		}
		return "ok " + strings.Join(out, ",")
	})

	// c13.ws <stream>: base.ReadWsPayload until error
	register("c13.ws", func(a []string) string {
		r := bufio.NewReader(bytes.NewReader(bytesTok(a[0])))
		var out []string
		for i := 0; i < 64; i++ {
			p, err := base.ReadWsPayload(r)
			if err != nil {
				out = append(out, "err")
				break
			}
			out = append(out, tokBytes(p))
		}
		return "ok " + strings.Join(out, ",")
	})

	// c13.ps <maxlist> <pkt,pkt,...>: a fresh gb28181.PsUnpacker, FeedRtpPacket per packet
	register("c13.ps", func(a []string) string {
		gb28181.VerifSetMaxUnpackRtpListSize(intTok(a[0]))
		var out []string
		u := gb28181.NewPsUnpacker().WithOnAvPacket(func(pkt *base.AvPacket) {
			out = append(out, fmt.Sprintf("av:%s:%s:%s:%s", tokInt(int64(pkt.PayloadType)), tokInt(pkt.Timestamp), tokInt(pkt.Pts), tokBytes(pkt.Payload)))
		})
		if a[1] != "-" {
			for _, it := range strings.Split(a[1], ",") {
				mark := len(out)
				out = append(out, "")
				if err := u.FeedRtpPacket(bytesTok(it)); err != nil {
					out[mark] = "e"
				} else {
					out[mark] = "k"
				}
			}
		}
		return "ok " + c13Join(out)
	})

	// c13.rtmpc <push> <typeid> <payload>: rtmp.ClientSession.doMsg on one message from the upstream
	register("c13.rtmpc", func(a []string) string {
		t := uint8(numTok(a[1]))
		if t == 18 || t == 20 {
			return "amf"
		}
		conn := &c13Conn{}
		if err := rtmp.VerifClientDoMsg(boolTok(a[0]), conn, t, bytesTok(a[2])); err != nil {
			return "err"
		}
		return "ok " + tokBytes(conn.out)
	})

	// c13.rtpmap / c13.fmtp / c13.sdpm <line>: sdp.ParseARtpMap / ParseAFmtPBase / ParseM
	register("c13.rtpmap", func(a []string) string {
		r, err := sdp.ParseARtpMap(string(bytesTok(a[0])))
		if err != nil {
			return "err"
		}
		return fmt.Sprintf("ok %s %s %s %s", c13Int(int64(r.PayloadType)), tokBytes([]byte(r.EncodingName)), c13Int(int64(r.ClockRate)), tokBytes([]byte(r.EncodingParameters)))
	})
	register("c13.fmtp", func(a []string) string {
		r, err := sdp.ParseAFmtPBase(string(bytesTok(a[0])))
		if err != nil {
			return "err"
		}
		var kv []string
		for k, v := range r.Parameters {
			kv = append(kv, tokBytes([]byte(k))+"="+tokBytes([]byte(v)))
		}
		sort.Strings(kv)
		return fmt.Sprintf("ok %s %s", c13Int(int64(r.Format)), c13Join(kv))
	})
	register("c13.sdpm", func(a []string) string {
		r, err := sdp.ParseM(string(bytesTok(a[0])))
		if err != nil {
			return "err"
		}
		return fmt.Sprintf("ok %s %s", tokBytes([]byte(r.Media)), c13Int(int64(r.PT)))
	})

	// c13.rtmpurl <text>: base.ParseRtmpUrl("rtmp://h" + text)
	register("c13.rtmpurl", func(a []string) string {
		u, err := base.ParseRtmpUrl("rtmp://h" + string(bytesTok(a[0])))
		if err != nil {
			return "err"
		}
		return fmt.Sprintf("ok %s %s %s %s", tokBytes([]byte(u.Path)), tokBytes([]byte(u.PathWithoutLastItem)), tokBytes([]byte(u.LastItemOfPath)), tokBytes([]byte(u.RawQuery)))
	})
	// c13.hlsreq <text>: hls.DefaultPathStrategy.GetRequestInfo(ParseUrl("http://h" + text), "/root")
	register("c13.hlsreq", func(a []string) string {
		u, err := base.ParseUrl("http://h"+string(bytesTok(a[0])), -1)
		if err != nil {
			return "err"
		}
		var dps hls.DefaultPathStrategy
		ri := dps.GetRequestInfo(u, "/root")
		return fmt.Sprintf("ok %s %s %s", tokBytes([]byte(ri.StreamName)), tokBytes([]byte(u.LastItemOfPath)), tokBytes([]byte(u.GetFileType())))
	})

	// ---- unmodelled surfaces: the observable is "alive" -----------------------------------------------------------
	register("c13x.sdp", func(a []string) string {
		b := bytesTok(a[0])
		_, _ = sdp.ParseSdp2RawContext(b)
		ctx, err := sdp.ParseSdp2LogicContext(b)
		if err == nil {
			var ev []string
			s := rtsp.NewBaseInSessionWithObserver(base.SessionTypeRtspPub, c13Writer{&ev}, c13Observer{&ev})
			s.InitWithSdp(ctx)
			s.HandleInterleavedPacket(rtpProbe(96), 0)
			s.HandleInterleavedPacket(rtpProbe(97), 0)
			s.HandleInterleavedPacket(rtpProbe(0), 0)
			s.HandleInterleavedPacket(rtpProbe(8), 0)
			_ = s.Dispose()
		}
		return "alive"
	})
	register("c13x.url", func(a []string) string {
		u := string(bytesTok(a[0]))
		_, _ = base.ParseUrl(u, -1)
		_, _ = base.ParseRtmpUrl(u)
		_, _ = base.ParseRtspUrl(u)
		if c, err := base.ParseHttpflvUrl(u); err == nil {
			var dps hls.DefaultPathStrategy
			_ = dps.GetRequestInfo(c, "/root")
		}
		if c, err := base.ParseUrl(u, 80); err == nil {
			var dps hls.DefaultPathStrategy
			_ = dps.GetRequestInfo(c, "/root")
			_ = c.GetFilenameWithoutType()
		}
		return "alive"
	})
	register("c13x.rtmpclient", func(a []string) string {
		conn := &c13Conn{in: bytesTok(a[1])}
		_ = rtmp.VerifClientReadLoop(boolTok(a[0]), conn)
		return "alive"
	})
	register("c13x.flvpull", func(a []string) string {
		conn := &c13Conn{in: bytesTok(a[0])}
		_, _, _ = httpflv.VerifPullReadResponse(conn)
		return "alive"
	})
	// c13x.rtsp <ws> <auth> <stream>: a real rtsp.ServerCommandSession (plain or WebSocket) over a fake conn
	register("c13x.rtsp", func(a []string) string {
		c13RunRtspServerSession(boolTok(a[0]), intTok(a[1]), bytesTok(a[2]))
		return "alive"
	})
	// c13x.rtspclient <responses>: a real rtsp.PullSession against a loopback origin that sends these bytes
	register("c13x.rtspclient", func(a []string) string {
		return c13RunRtspPull(bytesTok(a[0]))
	})
	// c13x.api <kind> <body>: logic.unmarshalRequestJsonBody as the /api/ctrl handlers call it
	register("c13x.api", func(a []string) string {
		_, _ = logic.VerifUnmarshalRequestJsonBody(a[0], bytesTok(a[1]))
		return "alive"
	})
}

// ---- real RTSP command sessions --------------------------------------------------------------------------------------
const c13SubSdp = "v=0\r\no=- 0 0 IN IP4 127.0.0.1\r\ns=x\r\nc=IN IP4 127.0.0.1\r\nt=0 0\r\n" +
	"m=video 0 RTP/AVP 96\r\na=rtpmap:96 H264/90000\r\na=control:streamid=0\r\n" +
	"m=audio 0 RTP/AVP 97\r\na=rtpmap:97 MPEG4-GENERIC/44100/2\r\na=fmtp:97 profile-level-id=1;mode=AAC-hbr;sizelength=13;indexlength=3;indexdeltalength=3; config=1210\r\na=control:streamid=1\r\n"

type c13RtspObs struct {
	ev  []string
	pub *rtsp.PubSession
	sub *rtsp.SubSession
}

func (o *c13RtspObs) OnNewRtspPubSession(s *rtsp.PubSession) error {
	o.pub = s
	s.SetObserver(c13Observer{&o.ev})
	return nil
}
func (o *c13RtspObs) OnNewRtspSubSessionDescribe(s *rtsp.SubSession) (bool, []byte) {
	o.sub = s
	return true, []byte(c13SubSdp)
}
func (o *c13RtspObs) OnNewRtspSubSessionPlay(s *rtsp.SubSession) error { return nil }

type c13PullObs struct{ c13Observer }

func c13RunRtspServerSession(ws bool, auth int, in []byte) {
	obs := &c13RtspObs{}
	conf := rtsp.ServerAuthConfig{}
	if auth > 0 {
		conf = rtsp.ServerAuthConfig{AuthEnable: true, AuthMethod: auth - 1, UserName: "u", PassWord: "p"}
	}
	conn := &c13Conn{in: in}
	sess := rtsp.NewServerCommandSession(obs, conn, conf, ws, "dGhlIHNhbXBsZSBub25jZQ==")
	_ = sess.RunLoop()
	if obs.pub != nil {
		_ = obs.pub.Dispose()
	}
	if obs.sub != nil {
		_ = obs.sub.Dispose()
	}
	_ = sess.Dispose()
}

// a one-shot origin on the loopback interface that answers with canned bytes
func c13RunRtspPull(resp []byte) string {
	ln, err := net.Listen("tcp", "127.0.0.1:0")
	if err != nil {
		return "no-listen"
	}
	defer ln.Close()
	done := make(chan struct{})
	go func() {
		defer close(done)
		c, err := ln.Accept()
		if err != nil {
			return
		}
		_, _ = c.Write(resp)
		buf := make([]byte, 4096)
		_ = c.SetReadDeadline(time.Now().Add(120 * time.Millisecond))
		for {
			if _, err := c.Read(buf); err != nil {
				break
			}
		}
		_ = c.Close()
	}()
	var ev []string
	s := rtsp.NewPullSession(c13Observer{&ev}, func(o *rtsp.PullSessionOption) {
		o.PullTimeoutMs = 1500
		o.OverTcp = true
	})
	err = s.Start("rtsp://u:p@" + ln.Addr().String() + "/live/x")
	if err == nil {
		select {
		case <-s.WaitChan():
		case <-time.After(1500 * time.Millisecond):
		}
	}
	_ = s.Dispose()
	<-done
	return "alive"
}

func rtpProbe(pt byte) []byte {
	return []byte{0x80, pt, 0, 1, 0, 0, 0, 2, 0, 0, 0, 3, 0x65, 0x01, 0x02, 0x03, 0x04}
}
