package main

// C13: hostile input on the RTP/RTCP, RTSP-interleaved, WebSocket surfaces.
// Every op runs under recover (runOne); a panic prints panic@<pkg.Func>:<kind>.

import (
	"bufio"
	"bytes"
	"fmt"
	"strings"

	"github.com/q191201771/lal/pkg/base"
	"github.com/q191201771/lal/pkg/gb28181"
	"github.com/q191201771/lal/pkg/rtprtcp"
	"github.com/q191201771/lal/pkg/rtsp"
	"github.com/q191201771/lal/pkg/sdp"
)

func c13U32s(v []uint32) string {
	if len(v) == 0 {
		return "-"
	}
	var s []string
	for _, x := range v {
		s = append(s, tokNum(uint64(x)))
	}
	return strings.Join(s, ",")
}

// ---------------------------------------------------------------- RTSP in-session over a fake command session

type c13Writer struct{ ev *[]string }

func (w c13Writer) WriteInterleavedPacket(packet []byte, channel int) error {
	*w.ev = append(*w.ev, fmt.Sprintf("rr:%s:%s", tokNum(uint64(channel)), tokBytes(packet)))
	return nil
}

type c13Observer struct{ ev *[]string }

func (o c13Observer) OnSdp(sdpCtx sdp.LogicContext) {}
func (o c13Observer) OnRtpPacket(pkt rtprtcp.RtpPacket) {
	*o.ev = append(*o.ev, "rtp:"+tokNum(uint64(pkt.Header.Seq)))
}
func (o c13Observer) OnAvPacket(pkt base.AvPacket) {
	*o.ev = append(*o.ev, fmt.Sprintf("av:%s:%s:%s", tokInt(int64(pkt.PayloadType)), tokInt(pkt.Timestamp), tokBytes(pkt.Payload)))
}

// codec token -> SDP media section. clock is the literal text put after the
// encoding name (so that hostile clock rates go through the real SDP parser).
func c13Media(kind string, codec string, clock string, pt string, control string) string {
	if codec == "none" {
		return ""
	}
	m := fmt.Sprintf("m=%s 0 RTP/AVP %s\r\n", kind, pt)
	switch codec {
	case "aac":
		m += fmt.Sprintf("a=rtpmap:%s MPEG4-GENERIC/%s/2\r\n", pt, clock)
		m += fmt.Sprintf("a=fmtp:%s profile-level-id=1;mode=AAC-hbr;sizelength=13;indexlength=3;indexdeltalength=3; config=1210\r\n", pt)
	case "aacnoasc":
		m += fmt.Sprintf("a=rtpmap:%s MPEG4-GENERIC/%s/2\r\n", pt, clock)
	case "pcma":
		m += fmt.Sprintf("a=rtpmap:%s PCMA/%s/1\r\n", pt, clock)
	case "pcmu":
		m += fmt.Sprintf("a=rtpmap:%s PCMU/%s/1\r\n", pt, clock)
	case "opus":
		m += fmt.Sprintf("a=rtpmap:%s opus/%s/2\r\n", pt, clock)
	case "h264":
		m += fmt.Sprintf("a=rtpmap:%s H264/%s\r\n", pt, clock)
	case "h265":
		m += fmt.Sprintf("a=rtpmap:%s H265/%s\r\n", pt, clock)
	default:
		m += fmt.Sprintf("a=rtpmap:%s FOO/%s\r\n", pt, clock)
	}
	m += "a=control:" + control + "\r\n"
	return m
}

func c13Join(ev []string) string {
	if len(ev) == 0 {
		return "-"
	}
	return strings.Join(ev, ";")
}

func init() {
	rtsp.BaseInSessionTimestampFilterFlag = false

	// c13.rtp <packet>: ParseRtpPacket then Body()
	register("c13.rtp", func(a []string) string {
		pkt, err := rtprtcp.ParseRtpPacket(bytesTok(a[0]))
		if err != nil {
			return "err"
		}
		h := pkt.Header
		body := pkt.Body()
		return fmt.Sprintf("ok %d %d %d %d %d %s %s %s %s %s %s %s %s", h.Version, h.Padding, h.Extension, h.CsrcCount, h.Mark,
			tokNum(uint64(h.PacketType)), tokNum(uint64(h.Seq)), tokNum(uint64(h.Timestamp)), tokNum(uint64(h.Ssrc)),
			c13U32s(h.Csrc), tokNum(uint64(h.ExtensionProfile)), tokBytes(h.Extensions), tokBytes(body))
	})

	// c13.bound <avc|hevc> <packet>: ParseRtpPacket then IsAvcBoundary / IsHevcBoundary
	register("c13.bound", func(a []string) string {
		pkt, err := rtprtcp.ParseRtpPacket(bytesTok(a[1]))
		if err != nil {
			return "err"
		}
		if a[0] == "avc" {
			return "ok " + tokBool(rtprtcp.IsAvcBoundary(pkt))
		}
		return "ok " + tokBool(rtprtcp.IsHevcBoundary(pkt))
	})

	// c13.rtcphdr <packet>: ParseRtcpHeader ; c13.sr <packet>: ParseSr
	register("c13.rtcphdr", func(a []string) string {
		h := rtprtcp.ParseRtcpHeader(bytesTok(a[0]))
		return fmt.Sprintf("ok %d %d %s %s %s", h.Version, h.Padding, tokNum(uint64(h.CountOrFormat)), tokNum(uint64(h.PacketType)), tokNum(uint64(h.Length)))
	})
	register("c13.sr", func(a []string) string {
		s := rtprtcp.ParseSr(bytesTok(a[0]))
		return fmt.Sprintf("ok %s %s %s %s %s %s %s", tokNum(uint64(s.SenderSsrc)), tokNum(uint64(s.Msw)), tokNum(uint64(s.Lsw)),
			tokNum(uint64(s.Timestamp)), tokNum(uint64(s.PktCnt)), tokNum(uint64(s.OctetCnt)), tokNum(uint64(s.GetMiddleNtp())))
	})

	// c13.insess <acodec> <aclock> <apt> <vcodec> <vclock> <vpt> <ch:pkt,ch:pkt,...>
	// a real rtsp.BaseInSession initialised from an SDP that goes through the real
	// parser; channels 0/1 audio rtp/rtcp, 2/3 video rtp/rtcp.
	register("c13.insess", func(a []string) string {
		var ev []string
		sdpTxt := "v=0\r\no=- 0 0 IN IP4 127.0.0.1\r\ns=x\r\nc=IN IP4 127.0.0.1\r\nt=0 0\r\n" +
			c13Media("audio", a[0], a[1], a[2], "streamid=0") + c13Media("video", a[3], a[4], a[5], "streamid=1")
		ctx, err := sdp.ParseSdp2LogicContext([]byte(sdpTxt))
		if err != nil {
			return "errsdp"
		}
		s := rtsp.NewBaseInSessionWithObserver(base.SessionTypeRtspPub, c13Writer{&ev}, c13Observer{&ev})
		s.InitWithSdp(ctx)
		if a[0] != "none" {
			if err := s.SetupWithChannel("rtsp://h/live/x/streamid=0", 0, 1); err != nil {
				return "errsetup"
			}
		}
		if a[3] != "none" {
			if err := s.SetupWithChannel("rtsp://h/live/x/streamid=1", 2, 3); err != nil {
				return "errsetup"
			}
		}
		if a[6] != "-" {
			for _, it := range strings.Split(a[6], ",") {
				f := strings.SplitN(it, ":", 2)
				s.HandleInterleavedPacket(bytesTok(f[1]), intTok(f[0]))
				ev = append(ev, "|")
			}
		}
		_ = s.Dispose()
		return "ok " + c13Join(ev)
	})

	// c13.ilv <stream>: readInterleaved (through the verif hook) until it reports
	// a non-interleaved byte or an error
	register("c13.ilv", func(a []string) string {
		r := bufio.NewReader(bytes.NewReader(bytesTok(a[0])))
		var out []string
		for i := 0; i < 64; i++ {
			is, p, ch, err := rtsp.VerifReadInterleaved(r)
			if err != nil {
				out = append(out, "err")
				break
			}
			if !is {
				rest := make([]byte, r.Buffered())
				_, _ = r.Read(rest)
				out = append(out, "text:"+tokBytes(rest))
				break
			}
			out = append(out, tokNum(uint64(ch))+":"+tokBytes(p))
		}
		return "ok " + strings.Join(out, ",")
	})

	// c13.ws <stream>: base.ReadWsPayload until error
	register("c13.ws", func(a []string) string {
		r := bufio.NewReader(bytes.NewReader(bytesTok(a[0])))
		var out []string
		for i := 0; i < 64; i++ {
			p, err := base.ReadWsPayload(r)
			if err != nil {
				out = append(out, "err")
				break
			}
			out = append(out, tokBytes(p))
		}
		return "ok " + strings.Join(out, ",")
	})

	// c13.ps <maxlist> <pkt,pkt,...>: a fresh gb28181.PsUnpacker, FeedRtpPacket per packet
	register("c13.ps", func(a []string) string {
		gb28181.VerifSetMaxUnpackRtpListSize(intTok(a[0]))
		var out []string
		u := gb28181.NewPsUnpacker().WithOnAvPacket(func(pkt *base.AvPacket) {
			out = append(out, fmt.Sprintf("av:%s:%s:%s:%s", tokInt(int64(pkt.PayloadType)), tokInt(pkt.Timestamp), tokInt(pkt.Pts), tokBytes(pkt.Payload)))
		})
		if a[1] != "-" {
			for _, it := range strings.Split(a[1], ",") {
				mark := len(out)
				out = append(out, "")
				if err := u.FeedRtpPacket(bytesTok(it)); err != nil {
					out[mark] = "e"
				} else {
					out[mark] = "k"
				}
			}
		}
		return "ok " + c13Join(out)
	})
}
