package main

// c03.srv: the C03 / C17 harness (c03.go: a real logic.ServerManager driven one
// event at a time) with the server-level tick made fully observable
// (C16 "a stream with no sessions left is eventually removed, an input that
// stops sending is disconnected by the idle check"; C03 "ticks and group
// disposal"):
//
//   - tick.C with C a multiple of 120 runs the liveness sweep of Group.Tick; the
//     harness awaits the Del that lal's own goroutines report for the relay pull /
//     relay push sessions the sweep disposed (network sessions are only closed:
//     their shells notice at the later "gone" event, as for a kick);
//   - bytes.N.K moves the byte counter the sweep judges session c<N> by, by exactly
//     K bytes: an RTMP publisher's connection READS K bytes (K/16 Acknowledgement
//     messages through its real chunk reader), an RTMP / HTTP-FLV / HTTP-TS
//     subscriber's connection WRITES K bytes;
//   - abytes.S.I.K: the stub origin sends K bytes (Acknowledgement messages) to the
//     attached RTMP relay pull p<S>_<I> (0 = latest attempt);
//   - every op prints a fourth field  closed~moved~groups:
//       closed  admitted sessions whose connection lal has closed and whose shell
//               has not noticed yet (c1+c3 or -)
//       moved   byte counters that moved during the op: <name>r / <name>w
//               (connections c<N>, attached RTMP pulls p<S>_<I>, attached pushes u<S>_<T>)
//       groups  sS=gK: the Group object registered for stream S is the K-th Group
//               object the server created
//
// The first three fields are those of c03.run.

import (
	"fmt"
	"sort"
	"strconv"
	"strings"
	"sync/atomic"
	"time"

	"github.com/q191201771/lal/pkg/logic"
)

func init() {
	register("c03.srv", func(a []string) string { return srvRun(a) })
}

type srvCtr struct{ r, w uint64 }

type srvCase struct {
	*admCase
	rank  map[*logic.Group]int
	keep  []*logic.Group // keeps every Group object alive: no address is ever reused
	acked map[string]uint64
}

// one RTMP Acknowledgement message (type 3) on csid 2: 12-byte header + 4-byte body
var srvAckMsg = []byte{0x02, 0, 0, 0, 0, 0, 4, 3, 0, 0, 0, 0, 0, 0, 0, 1}

func srvAcks(k int) []byte {
	var b []byte
	for i := 0; i < k/16; i++ {
		b = append(b, srvAckMsg...)
	}
	return b
}

func (c *srvCase) streams() []string {
	var out []string
	for _, v := range c.sm.VerifView() {
		out = append(out, v.StreamName)
	}
	return out
}

// counters returns the byte counters of every session lal keeps counters for.
func (c *srvCase) counters() map[string]srvCtr {
	out := map[string]srvCtr{}
	for name, s := range c.sess {
		if s.refused {
			continue
		}
		switch {
		case s.rtmpS != nil:
			if s.kind == "rs" {
				_ = s.rtmpS.Flush() // the play session writes through an asynchronous queue
			}
			st := s.rtmpS.GetStat()
			out[name] = srvCtr{st.ReadBytesSum, st.WroteBytesSum}
		case s.rtspPub != nil:
			st := s.rtspPub.GetStat()
			out[name] = srvCtr{st.ReadBytesSum, st.WroteBytesSum}
		case s.rtspSub != nil:
			st := s.rtspSub.GetStat()
			out[name] = srvCtr{st.ReadBytesSum, st.WroteBytesSum}
		case s.flv != nil || s.ts != nil:
			// BasicHttpSubSession.GetStat reports the session's own (never updated) counters, not
			// those of its connection which IsAlive judges; the writes are synchronous
			// (SubSessionWriteChanSize = 0), so the bytes the fake conn accepted are that counter
			out[name] = srvCtr{0, uint64(s.conn.written())}
		}
	}
	for name, a := range c.attByName {
		if a.sess != nil && a.origin != nil {
			// everything the origin has written must have been read
			deadline := time.Now().Add(admWaitDur())
			for a.state == "attached" && a.sess.GetStat().ReadBytesSum < a.origin.GetStat().WroteBytesSum && time.Now().Before(deadline) {
				time.Sleep(50 * time.Microsecond)
			}
			st := a.sess.GetStat()
			out[name] = srvCtr{st.ReadBytesSum, st.WroteBytesSum}
		} else if a.rsess != nil {
			st := a.rsess.GetStat()
			out[name] = srvCtr{st.ReadBytesSum, st.WroteBytesSum}
		}
	}
	for _, st := range c.streams() {
		for i, p := range c.sm.VerifPushSessions(st) {
			if p != nil {
				x := p.GetStat()
				out[fmt.Sprintf("u%s_%d", strings.TrimPrefix(st, "s"), i)] = srvCtr{x.ReadBytesSum, x.WroteBytesSum}
			}
		}
	}
	return out
}

func (c *srvCase) extra(before map[string]srvCtr) string {
	var closed []string
	for name, s := range c.sess {
		if !s.refused && !s.gone && s.conn != nil && s.conn.isClosed() {
			closed = append(closed, name)
		}
	}
	sort.Strings(closed)
	after := c.counters()
	var moved []string
	for name, a := range after {
		b := before[name]
		if a.r != b.r {
			moved = append(moved, name+"r")
		}
		if a.w != b.w {
			moved = append(moved, name+"w")
		}
	}
	sort.Strings(moved)
	gs := c.sm.VerifGroups()
	var names []string
	for n := range gs {
		names = append(names, n)
	}
	sort.Strings(names)
	var ids []string
	for _, n := range names {
		g := gs[n]
		if _, ok := c.rank[g]; !ok {
			c.rank[g] = len(c.rank) + 1
			c.keep = append(c.keep, g)
		}
		ids = append(ids, fmt.Sprintf("%s=g%d", n, c.rank[g]))
	}
	j := func(l []string) string {
		if len(l) == 0 {
			return "-"
		}
		return strings.Join(l, "+")
	}
	return j(closed) + "~" + j(moved) + "~" + j(ids)
}

// awaitSweptPushes: a relay-push session the sweep disposed reports its end through the push
// goroutine (DelRtmpPushSession); wait for it as c03.go does for a push ended by its target.
func (c *srvCase) awaitSweptPushes() {
	for _, st := range c.streams() {
		for i, p := range c.sm.VerifPushSessions(st) {
			if p != nil && p.VerifIsClosed() {
				c.waitPushIdle(st, i)
				if q := c.push[st+"|"+strconv.Itoa(i)]; q != nil {
					q.state = "idle"
					q.origin = nil
				}
			}
		}
	}
}

// dropPushesOfRemovedGroups: a group can be removed while a relay-push attempt of a publisher that
// has left is still connecting; that attempt belongs to the removed Group object, a later group of
// the same name starts its own.
func (c *srvCase) dropPushesOfRemovedGroups() {
	present := map[string]bool{}
	for _, st := range c.streams() {
		present[st] = true
	}
	for k, p := range c.push {
		if !present[strings.SplitN(k, "|", 2)[0]] {
			if p.conn != nil {
				_ = p.conn.Close()
			}
			if p.origin != nil {
				_ = p.origin.Dispose()
			}
			delete(c.push, k)
		}
	}
}

func (c *srvCase) doOpSrv(op string) string {
	f := strings.Split(op, ".")
	switch f[0] {
	case "bytes": // bytes.<sid>.<k>
		s := c.sess["c"+f[1]]
		k := admInt(f[2])
		if s == nil || s.gone || s.refused || s.conn == nil || s.conn.isClosed() || k < 0 {
			return "x"
		}
		switch s.kind {
		case "rp":
			if k%16 != 0 || s.rtmpS == nil {
				return "x"
			}
			if k > 0 {
				s.conn.feed(srvAcks(k))
				if r := s.conn.waitIdle(s.done); r != "idle" {
					return "closed"
				}
			}
		case "rs":
			if s.rtmpS == nil {
				return "x"
			}
			if k > 0 {
				_ = s.rtmpS.Write(make([]byte, k))
				_ = s.rtmpS.Flush()
			}
		case "fs":
			if k > 0 {
				s.flv.Write(make([]byte, k))
			}
		case "ts":
			if k > 0 {
				s.ts.Write(make([]byte, k))
			}
		default:
			return "x"
		}
		return "-"
	case "abytes": // abytes.<stream>.<i>.<k>
		ai := f[2]
		if ai == "0" {
			ai = strconv.Itoa(c.attCount["s"+f[1]])
		}
		a := c.attByName["p"+f[1]+"_"+ai]
		k := admInt(f[3])
		if a == nil || a.state != "attached" || a.rtsp || a.origin == nil || a.sess == nil || k < 0 || k%16 != 0 {
			return "x"
		}
		if k > 0 {
			_ = a.origin.Write(srvAcks(k))
			_ = a.origin.Flush()
		}
		return a.name
	case "tick":
		r := c.doOp(op)
		if r == "-" {
			c.awaitSweptPushes()
			c.dropPushesOfRemovedGroups()
		}
		return r
	}
	return c.doOp(op)
}

func srvRun(a []string) string {
	if len(a) != 2 {
		return "bad-args"
	}
	cfg := map[string]string{}
	if a[0] != "-" {
		for _, kv := range strings.Split(a[0], ",") {
			p := strings.SplitN(kv, "=", 2)
			if len(p) == 2 {
				cfg[p[0]] = p[1]
			}
		}
	}
	ac, err := newAdmCase(cfg)
	if err != nil {
		return "err-setup"
	}
	c := &srvCase{admCase: ac, rank: map[*logic.Group]int{}}
	defer c.cleanup()
	var out []string
	for _, op := range strings.Split(a[1], ",") {
		// Everything that calls into the server runs under a watchdog: on a broken tree a tick may
		// never return (a second Dispose of a group that was not erased blocks on its exit channel)
		// or leave the server lock held for ever, and a panic inside lal must not kill the run.
		done := make(chan string, 1)
		go func(op string) {
			defer func() {
				if e := recover(); e != nil {
					done <- "panic"
				}
			}()
			before := c.counters()
			r := c.doOpSrv(op)
			c.settle()
			rendered := c.render()
			if strings.HasPrefix(op, "tick.") {
				// the Dels of sessions one tick disposed are reported by independent goroutines
				p := strings.SplitN(rendered, "/", 2)
				if len(p) == 2 && p[1] != "-" {
					ns := strings.Split(p[1], "+")
					sort.Strings(ns)
					rendered = p[0] + "/" + strings.Join(ns, "+")
				}
			}
			done <- r + "/" + rendered + "/" + c.extra(before)
		}(op)
		select {
		case r := <-done:
			if r == "panic" { // what follows would observe a half-updated server
				c.disposed = true
				out = append(out, "panic/-/-/-~-~-")
				return strings.Join(out, ";") + ";anomaly:panic-in-" + strings.Split(op, ".")[0]
			}
			out = append(out, r)
		case <-time.After(3 * admWaitDur()):
			atomic.AddInt32(&admTimeouts, 1)
			c.disposed = true // no ServerManager.Dispose at cleanup: the server lock may be held for ever
			out = append(out, "hang/-/-/-~-~-")
			return strings.Join(out, ";") + ";anomaly:op-never-returned"
		}
	}
	res := strings.Join(out, ";")
	atomic.AddInt32(&admTimeouts, int32(len(c.anomalies)))
	if len(c.anomalies) > 0 {
		res += ";anomaly:" + strings.Join(c.anomalies, "+")
	}
	return res
}
