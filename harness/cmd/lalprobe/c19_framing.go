package main

// C19, part B: NAL unit framing (Annex B start codes <-> AVCC length prefixes)
// on the real lal code.

import (
	"bytes"
	"fmt"
	"strings"

	"github.com/q191201771/lal/pkg/avc"
	"github.com/q191201771/lal/pkg/h2645"
)

func c19Err(err error) string {
	if err == nil {
		return "ok"
	}
	return c19ErrName(err)
}

func c19Units(us [][]byte) string {
	s := make([]string, len(us))
	for i, u := range us {
		s[i] = tokBytes(u)
	}
	return "[" + strings.Join(s, ",") + "]"
}

// handler calls are copied at call time (the handler argument aliases the input)
func c19Collect(iter func([]byte, func([]byte)) error, in []byte) string {
	var us [][]byte
	err := iter(in, func(nal []byte) { us = append(us, append([]byte{}, nal...)) })
	return c19Units(us) + " " + c19Err(err)
}

func c19UnitsTok(s string) [][]byte {
	if s == "." {
		return nil
	}
	var us [][]byte
	for _, t := range strings.Split(s, ",") {
		us = append(us, bytesTok(t))
	}
	return us
}

func init() {
	register("c19.startcode", func(a []string) string {
		return c19Safe(func() string {
			b := bytesTok(a[0])
			pos, length := avc.IterateNaluStartCode(b, int(numTok(a[1])))
			p2, l2 := h2645.IterateNaluStartCode(b, int(numTok(a[1])))
			if p2 != pos || l2 != length {
				return "h2645-differs"
			}
			if pos == -1 && length == -1 {
				return "none"
			}
			return tokInt(int64(pos)) + " " + tokInt(int64(length))
		})
	})
	register("c19.split_annexb", func(a []string) string {
		return c19Safe(func() string {
			in := bytesTok(a[0])
			out := c19Collect(avc.IterateNaluAnnexb, in)
			l, err := avc.SplitNaluAnnexb(in)
			if s := c19Units(l) + " " + c19Err(err); s != out {
				return "split-differs " + s
			}
			return out
		})
	})
	register("c19.split_avcc", func(a []string) string {
		return c19Safe(func() string {
			in := bytesTok(a[0])
			out := c19Collect(avc.IterateNaluAvcc, in)
			l, err := avc.SplitNaluAvcc(in)
			if s := c19Units(l) + " " + c19Err(err); s != out {
				return "split-differs " + s
			}
			if s := c19Collect(h2645.IterateNaluAvcc, in); s != out {
				return "h2645-differs " + s
			}
			return out
		})
	})
	register("c19.avcc2annexb", func(a []string) string {
		return c19Safe(func() string {
			b, err := avc.Avcc2Annexb(bytesTok(a[0]))
			return tokBytes(b) + " " + c19Err(err)
		})
	})
	register("c19.annexb2avcc", func(a []string) string {
		return c19Safe(func() string {
			b, err := avc.Annexb2Avcc(bytesTok(a[0]))
			return tokBytes(b) + " " + c19Err(err)
		})
	})
	register("c19.join_avcc", func(a []string) string {
		return c19Safe(func() string { return tokBytes(h2645.JoinNaluAvcc(c19UnitsTok(a[0])...)) })
	})
	register("c19.framing_rt", func(a []string) string {
		return c19Safe(func() string {
			x := bytesTok(a[0])
			av, e1 := avc.Annexb2Avcc(x)
			av = append([]byte{}, av...)
			y, e3 := avc.Avcc2Annexb(av)
			return fmt.Sprintf("%s %s | %s | %s %s | %s", tokBytes(av), c19Err(e1), c19Collect(avc.IterateNaluAvcc, av),
				tokBytes(y), c19Err(e3), c19Collect(avc.IterateNaluAnnexb, y))
		})
	})
	register("c19.capture_avcc", func(a []string) string {
		return c19Safe(func() string {
			in := bytesTok(a[0])
			p := make([]byte, len(in)) // cap = len: payload[i:i+naluLen] is checked against the capacity
			copy(p, in)
			var w bytes.Buffer
			if err := avc.CaptureAvcc2Annexb(&w, p); err != nil {
				return c19ErrName(err)
			}
			return "ok " + tokBytes(w.Bytes())
		})
	})
}
