package main

// Connection and notification plumbing for the admission / relay harness
// (properties C03 and C17).

import (
	"errors"
	"fmt"
	"io"
	"net"
	"sync"
	"time"

	"github.com/q191201771/lal/pkg/base"
)

// admConn is a net.Conn whose reader only sees what the harness feeds and only
// learns about the end of the connection when the harness says so (release):
// lal closing the conn (Dispose) does NOT wake the reader, so the moment at
// which the server shell notices the disconnect is an explicit harness event.
type admConn struct {
	mu       sync.Mutex
	cond     *sync.Cond
	in       []byte
	nwrites  int
	nbytes   int
	closed   bool // Close() was called by lal
	eof      bool // the harness released the reader
	waiting  bool // a Read is blocked on an empty queue
	remote   string
	keepData bool
	data     []byte
	failFrom int // > 0: the failFrom-th write and every later one fail (the peer is gone; the reader is not told)
}

func newAdmConn(remote string) *admConn {
	c := &admConn{remote: remote}
	c.cond = sync.NewCond(&c.mu)
	return c
}

func (c *admConn) Read(b []byte) (int, error) {
	c.mu.Lock()
	defer c.mu.Unlock()
	for len(c.in) == 0 && !c.eof {
		c.waiting = true
		c.cond.Broadcast()
		c.cond.Wait()
	}
	c.waiting = false
	if len(c.in) > 0 {
		n := copy(b, c.in)
		c.in = c.in[n:]
		return n, nil
	}
	return 0, io.EOF
}

func (c *admConn) Write(b []byte) (int, error) {
	c.mu.Lock()
	defer c.mu.Unlock()
	if c.closed {
		return 0, io.ErrClosedPipe
	}
	c.nwrites++
	if c.failFrom > 0 && c.nwrites >= c.failFrom {
		return 0, errors.New("admConn: write failed")
	}
	c.nbytes += len(b)
	if c.keepData {
		c.data = append(c.data, b...)
	}
	return len(b), nil
}

func (c *admConn) Close() error {
	c.mu.Lock()
	defer c.mu.Unlock()
	c.closed = true
	return nil
}

func (c *admConn) feed(b []byte) {
	c.mu.Lock()
	c.in = append(c.in, b...)
	c.waiting = false
	c.cond.Broadcast()
	c.mu.Unlock()
}

func (c *admConn) release() {
	c.mu.Lock()
	c.eof = true
	c.cond.Broadcast()
	c.mu.Unlock()
}

// failWritesFrom makes the k-th write counted from now (k >= 1) and every later one fail
func (c *admConn) failWritesFrom(k int) {
	c.mu.Lock()
	c.failFrom = c.nwrites + k
	c.mu.Unlock()
}

func (c *admConn) isClosed() bool {
	c.mu.Lock()
	defer c.mu.Unlock()
	return c.closed
}

func (c *admConn) written() int {
	c.mu.Lock()
	defer c.mu.Unlock()
	return c.nbytes
}

// waitIdle returns "idle" when the reader has consumed everything fed so far
// and is blocked waiting for more (so every callback triggered by the input has
// returned), "done" when the goroutine running the session has finished, and
// "timeout" otherwise.
func (c *admConn) waitIdle(done <-chan struct{}) string {
	deadline := time.Now().Add(admWaitDur())
	for {
		select {
		case <-done:
			return "done"
		default:
		}
		c.mu.Lock()
		idle := c.waiting && len(c.in) == 0
		c.mu.Unlock()
		if idle {
			// the goroutine may have finished in between
			select {
			case <-done:
				return "done"
			default:
			}
			return "idle"
		}
		if time.Now().After(deadline) {
			return "timeout"
		}
		time.Sleep(20 * time.Microsecond)
	}
}

type admAddr string

func (a admAddr) Network() string { return "tcp" }
func (a admAddr) String() string  { return string(a) }

func (c *admConn) LocalAddr() net.Addr                { return admAddr("127.0.0.1:1935") }
func (c *admConn) RemoteAddr() net.Addr               { return admAddr(c.remote) }
func (c *admConn) SetDeadline(t time.Time) error      { return nil }
func (c *admConn) SetReadDeadline(t time.Time) error  { return nil }
func (c *admConn) SetWriteDeadline(t time.Time) error { return nil }

// ---------------------------------------------------------------------------
// notification recorder (logic.INotifyHandler)

type admEvent struct {
	kind   string // PS PE SS SE RS RE
	key    string // session unique key
	stream string
	hasIn  bool
	hasOut bool
}

type admNotify struct {
	mu     sync.Mutex
	events []admEvent
}

func (n *admNotify) add(kind string, i base.SessionEventCommonInfo) {
	n.mu.Lock()
	n.events = append(n.events, admEvent{kind, i.SessionId, i.StreamName, i.HasInSession, i.HasOutSession})
	n.mu.Unlock()
}
func (n *admNotify) count() int {
	n.mu.Lock()
	defer n.mu.Unlock()
	return len(n.events)
}
func (n *admNotify) from(i int) []admEvent {
	n.mu.Lock()
	defer n.mu.Unlock()
	out := make([]admEvent, len(n.events)-i)
	copy(out, n.events[i:])
	return out
}

// waitPull waits until a relay-pull notification for the stream appears at or
// after position from.
func (n *admNotify) waitPull(from int, stream string) (admEvent, bool) {
	deadline := time.Now().Add(admWaitDur())
	for {
		n.mu.Lock()
		for _, e := range n.events[from:] {
			if (e.kind == "RS" || e.kind == "RE") && e.stream == stream {
				n.mu.Unlock()
				return e, true
			}
		}
		n.mu.Unlock()
		if time.Now().After(deadline) {
			return admEvent{}, false
		}
		time.Sleep(50 * time.Microsecond)
	}
}

func (n *admNotify) OnServerStart(info base.LalInfo)   {}
func (n *admNotify) OnUpdate(info base.UpdateInfo)     {}
func (n *admNotify) OnPubStart(info base.PubStartInfo) { n.add("PS", info.SessionEventCommonInfo) }
func (n *admNotify) OnPubStop(info base.PubStopInfo)   { n.add("PE", info.SessionEventCommonInfo) }
func (n *admNotify) OnSubStart(info base.SubStartInfo) { n.add("SS", info.SessionEventCommonInfo) }
func (n *admNotify) OnSubStop(info base.SubStopInfo)   { n.add("SE", info.SessionEventCommonInfo) }
func (n *admNotify) OnRelayPullStart(info base.PullStartInfo) {
	n.add("RS", info.SessionEventCommonInfo)
}
func (n *admNotify) OnRelayPullStop(info base.PullStopInfo)  { n.add("RE", info.SessionEventCommonInfo) }
func (n *admNotify) OnRtmpConnect(info base.RtmpConnectInfo) {}
func (n *admNotify) OnHlsMakeTs(info base.HlsMakeTsInfo)     {}

// ---------------------------------------------------------------------------
// authentication stub: refuses every session whose URL parameters contain "deny"

type admAuth struct{}

var errAdmDenied = errors.New("denied by harness")

func hasDeny(p string) bool {
	for i := 0; i+4 <= len(p); i++ {
		if p[i:i+4] == "deny" {
			return true
		}
	}
	return false
}
func (admAuth) OnPubStart(info base.PubStartInfo) error {
	if hasDeny(info.UrlParam) {
		return errAdmDenied
	}
	return nil
}
func (admAuth) OnSubStart(info base.SubStartInfo) error {
	if hasDeny(info.UrlParam) {
		return errAdmDenied
	}
	return nil
}
func (admAuth) OnHls(streamName, urlParam string) error { return nil }

// ---------------------------------------------------------------------------
// stub origin / push target: a loopback listener that only accepts; what
// happens to an accepted connection is decided by later harness ops.

type admListener struct {
	ln      net.Listener
	pending chan net.Conn
}

func newAdmListener() (*admListener, error) {
	ln, err := net.Listen("tcp", "127.0.0.1:0")
	if err != nil {
		return nil, err
	}
	l := &admListener{ln: ln, pending: make(chan net.Conn, 16)}
	go func() {
		for {
			c, err := ln.Accept()
			if err != nil {
				return
			}
			l.pending <- c
		}
	}()
	return l, nil
}

func (l *admListener) addr() string { return l.ln.Addr().String() }

func (l *admListener) waitConn() (net.Conn, bool) {
	select {
	case c := <-l.pending:
		return c, true
	case <-time.After(admWaitDur()):
		return nil, false
	}
}

func (l *admListener) close() {
	_ = l.ln.Close()
	for {
		select {
		case c := <-l.pending:
			_ = c.Close()
		default:
			return
		}
	}
}

func admName(prefix string, n int) string { return fmt.Sprintf("%s%d", prefix, n) }
