package main

import (
	"encoding/hex"
	"fmt"
	"math/big"
	"os"
	"strconv"
	"strings"
)

var fullOutput = os.Getenv("PROBE_FULL") == "1"

// number token: decimal or 0x hex
func numTok(s string) uint64 {
	if strings.HasPrefix(s, "0x") || strings.HasPrefix(s, "0X") {
		v, err := strconv.ParseUint(s[2:], 16, 64)
		if err != nil {
			panic("bad number " + s)
		}
		return v
	}
	v, err := strconv.ParseUint(s, 10, 64)
	if err != nil {
		panic("bad number " + s)
	}
	return v
}

func intTok(s string) int {
	v, err := strconv.Atoi(s)
	if err != nil {
		panic("bad int " + s)
	}
	return v
}

func bigTok(s string) *big.Int {
	b := new(big.Int)
	if strings.HasPrefix(s, "0x") {
		b.SetString(s[2:], 16)
	} else {
		b.SetString(s, 10)
	}
	return b
}

func boolTok(s string) bool { return s == "1" || s == "true" }

func tokNum(v uint64) string { return fmt.Sprintf("0x%x", v) }
func tokInt(v int64) string {
	if v < 0 {
		return fmt.Sprintf("-0x%x", -v)
	}
	return fmt.Sprintf("0x%x", v)
}
func tokBool(b bool) string {
	if b {
		return "1"
	}
	return "0"
}

func prngByte(seed, i int) byte {
	x := (seed*1000003 + i*7919 + (i/251)*104729) & 0x7fffffff
	return byte((x ^ (x >> 8) ^ (x >> 16)) & 0xff)
}

// bytes token: "-" | hex | r<len>.<seed> | parts joined by '+'
func bytesTok(s string) []byte {
	if strings.Contains(s, "+") {
		var out []byte
		for _, p := range strings.Split(s, "+") {
			out = append(out, bytesTok(p)...)
		}
		return out
	}
	if s == "-" || s == "" {
		return []byte{}
	}
	if s[0] == 'r' {
		parts := strings.Split(s[1:], ".")
		if len(parts) != 2 {
			panic("bad r token")
		}
		n, seed := intTok(parts[0]), intTok(parts[1])
		out := make([]byte, n)
		for i := 0; i < n; i++ {
			out[i] = prngByte(seed, i)
		}
		return out
	}
	b, err := hex.DecodeString(s)
	if err != nil {
		panic("bad hex " + s)
	}
	return b
}

func fnv1a64(b []byte) uint64 {
	h := uint64(0xcbf29ce484222325)
	for _, x := range b {
		h ^= uint64(x)
		h *= 0x100000001b3
	}
	return h
}

func hexOf(b []byte) string {
	if len(b) == 0 {
		return "-"
	}
	return hex.EncodeToString(b)
}

const summaryLimit = 64

func tokBytes(b []byte) string {
	if fullOutput || len(b) <= summaryLimit {
		return hexOf(b)
	}
	return fmt.Sprintf("#%d:%016x:%s", len(b), fnv1a64(b), hexOf(b[:8]))
}
