package main

// Fan-out histories (C01 / C02 / C16): a real logic.Group is driven with real
// session objects over fake conns; every consumer's captured byte stream is
// parsed back into LABELS (which published message each unit is), byte-exactly.

import (
	"bytes"
	"fmt"
	"io"
	"io/ioutil"
	"net"
	"os"
	"path/filepath"
	"sort"
	"strings"
	"sync"
	"time"

	"github.com/q191201771/lal/pkg/base"
	"github.com/q191201771/lal/pkg/httpflv"
	"github.com/q191201771/lal/pkg/httpts"
	"github.com/q191201771/lal/pkg/logic"
	"github.com/q191201771/lal/pkg/remux"
	"github.com/q191201771/lal/pkg/rtmp"
	"github.com/q191201771/lal/pkg/rtprtcp"
	"github.com/q191201771/lal/pkg/rtsp"
	"github.com/q191201771/lal/pkg/sdp"
)

type nopGroupObserver struct{}

func (nopGroupObserver) CleanupHlsIfNeeded(appName string, streamName string, path string) {}
func (nopGroupObserver) OnHlsMakeTs(info base.HlsMakeTsInfo)                                {}
func (nopGroupObserver) OnRelayPullStart(info base.PullStartInfo)                           {}
func (nopGroupObserver) OnRelayPullStop(info base.PullStopInfo)                             {}

type nopRtmpObserver struct{}

func (nopRtmpObserver) OnRtmpConnect(session *rtmp.ServerSession, opa rtmp.ObjectPairArray) {}
func (nopRtmpObserver) OnNewRtmpPubSession(session *rtmp.ServerSession) error               { return nil }
func (nopRtmpObserver) OnDelRtmpPubSession(session *rtmp.ServerSession)                     {}
func (nopRtmpObserver) OnNewRtmpSubSession(session *rtmp.ServerSession) error               { return nil }
func (nopRtmpObserver) OnDelRtmpSubSession(session *rtmp.ServerSession)                     {}

// pushTarget is a stub origin: lal's own rtmp.Server collecting what a relay push delivers.
type pushTargetSession struct {
	t    *pushTarget
	msgs []base.RtmpMsg
}

func (ts *pushTargetSession) OnReadRtmpAvMsg(msg base.RtmpMsg) {
	ts.t.mu.Lock()
	defer ts.t.mu.Unlock()
	ts.msgs = append(ts.msgs, msg.Clone())
}

type pushTarget struct {
	mu     sync.Mutex
	sess   []*pushTargetSession // in order of arrival
	msgs   []base.RtmpMsg
	doneCh chan struct{}
	newCh  chan struct{}
	opened int
	ended  int
}

func (t *pushTarget) OnRtmpConnect(session *rtmp.ServerSession, opa rtmp.ObjectPairArray) {}
func (t *pushTarget) OnNewRtmpPubSession(session *rtmp.ServerSession) error {
	t.mu.Lock()
	ts := &pushTargetSession{t: t}
	t.sess = append(t.sess, ts)
	t.opened++
	t.mu.Unlock()
	session.SetPubSessionObserver(ts)
	select {
	case t.newCh <- struct{}{}:
	default:
	}
	return nil
}
func (t *pushTarget) OnDelRtmpPubSession(session *rtmp.ServerSession) {
	t.mu.Lock()
	t.ended++
	t.mu.Unlock()
	select {
	case t.doneCh <- struct{}{}:
	default:
	}
}
func (t *pushTarget) OnNewRtmpSubSession(session *rtmp.ServerSession) error { return nil }
func (t *pushTarget) OnDelRtmpSubSession(session *rtmp.ServerSession)       {}
func (t *pushTarget) OnReadRtmpAvMsg(msg base.RtmpMsg) {
	t.mu.Lock()
	defer t.mu.Unlock()
	t.msgs = append(t.msgs, msg.Clone())
}

// hookRecorder records what the stream hook is told, per input epoch: which published
// message each OnMsg carried (compared with the message being published: type, timestamp, payload)
type hookRecorder struct {
	mu     sync.Mutex
	epochs []*hookEpoch
	msgs   *[]pubMsg
}
type hookEpoch struct {
	msgs  []string
	stops int
}
type hookCtx struct {
	r *hookRecorder
	e *hookEpoch
}

func (h *hookCtx) OnMsg(msg base.RtmpMsg) {
	h.r.mu.Lock()
	defer h.r.mu.Unlock()
	name := "?"
	ms := *h.r.msgs
	if i := len(ms) - 1; i >= 0 && ms[i].t == msg.Header.MsgTypeId && ms[i].ts == msg.Header.TimestampAbs && bytes.Equal(ms[i].payload, msg.Payload) {
		name = fmt.Sprintf("%d", i)
	}
	h.e.msgs = append(h.e.msgs, name)
}
func (h *hookCtx) OnStop() { h.r.mu.Lock(); h.e.stops++; h.r.mu.Unlock() }

// parkConn is the client side of an RTSP command connection: requests are fed
// one step at a time, and the harness can wait until the server's command loop
// has consumed everything and is blocked in Read again.
type parkConn struct {
	mu      sync.Mutex
	in      []byte
	writes  [][]byte
	parked  bool
	closed  bool
	wake    chan struct{}
	closeCh chan struct{}
}

func newParkConn() *parkConn {
	return &parkConn{wake: make(chan struct{}, 1), closeCh: make(chan struct{})}
}

func (c *parkConn) Read(b []byte) (int, error) {
	for {
		c.mu.Lock()
		if len(c.in) > 0 {
			n := copy(b, c.in)
			c.in = c.in[n:]
			c.mu.Unlock()
			return n, nil
		}
		if c.closed {
			c.mu.Unlock()
			return 0, io.EOF
		}
		c.parked = true
		c.mu.Unlock()
		select {
		case <-c.wake:
		case <-c.closeCh:
		}
	}
}

func (c *parkConn) feed(b []byte) {
	c.mu.Lock()
	c.in = append(c.in, b...)
	c.parked = false
	c.mu.Unlock()
	select {
	case c.wake <- struct{}{}:
	default:
	}
}

// waitParked: the command loop has read all input and waits for more (or the connection was closed by it)
func (c *parkConn) waitParked() bool {
	deadline := time.Now().Add(20 * time.Second)
	for time.Now().Before(deadline) {
		c.mu.Lock()
		ok := (c.parked && len(c.in) == 0) || c.closed
		c.mu.Unlock()
		if ok {
			return true
		}
		time.Sleep(50 * time.Microsecond)
	}
	return false
}

func (c *parkConn) Write(b []byte) (int, error) {
	c.mu.Lock()
	defer c.mu.Unlock()
	if c.closed {
		return 0, io.ErrClosedPipe
	}
	c.writes = append(c.writes, append([]byte{}, b...))
	return len(b), nil
}

func (c *parkConn) Close() error {
	c.mu.Lock()
	defer c.mu.Unlock()
	if !c.closed {
		c.closed = true
		close(c.closeCh)
	}
	return nil
}

func (c *parkConn) all() []byte {
	c.mu.Lock()
	defer c.mu.Unlock()
	var out []byte
	for _, w := range c.writes {
		out = append(out, w...)
	}
	return out
}

func (c *parkConn) isClosed() bool {
	c.mu.Lock()
	defer c.mu.Unlock()
	return c.closed
}

func (c *parkConn) LocalAddr() net.Addr                { return fakeAddr{} }
func (c *parkConn) RemoteAddr() net.Addr               { return fakeAddr{} }
func (c *parkConn) SetDeadline(t time.Time) error      { return nil }
func (c *parkConn) SetReadDeadline(t time.Time) error  { return nil }
func (c *parkConn) SetWriteDeadline(t time.Time) error { return nil }

// fanRtspObs is what logic.ServerManager is to a real RTSP command session: it routes DESCRIBE / PLAY to the group
type fanRtspObs struct {
	group *logic.Group
	c     *fanConsumer
}

func (o *fanRtspObs) OnNewRtspPubSession(s *rtsp.PubSession) error { return base.ErrRtsp }
func (o *fanRtspObs) OnNewRtspSubSessionDescribe(s *rtsp.SubSession) (bool, []byte) {
	o.c.sub = s
	return o.group.HandleNewRtspSubSessionDescribe(s)
}
func (o *fanRtspObs) OnNewRtspSubSessionPlay(s *rtsp.SubSession) error {
	o.group.HandleNewRtspSubSessionPlay(s)
	return nil
}

// fanSdp: the SDP every RTSP history announces: video PT 96 (H264 / H265 / a codec lal does not know), audio PT 97
func fanSdp(v string, uniq string) []byte {
	// v = <video><audio>: video a = H264, h = H265, n = no video section, anything else = a codec lal does not know;
	// audio (optional) g = PCMA, p = Opus, default AAC
	enc := "VP8"
	switch v[:1] {
	case "a":
		enc = "H264"
	case "h":
		enc = "H265"
	}
	audio := "a=rtpmap:97 MPEG4-GENERIC/44100/2\r\na=fmtp:97 profile-level-id=1;mode=AAC-hbr;sizelength=13;indexlength=3;indexdeltalength=3; config=1210\r\n"
	if len(v) > 1 {
		switch v[1:2] {
		case "g":
			audio = "a=rtpmap:97 PCMA/8000/1\r\n"
		case "p":
			audio = "a=rtpmap:97 opus/48000/2\r\n"
		}
	}
	video := "m=video 0 RTP/AVP 96\r\na=rtpmap:96 " + enc + "/90000\r\na=control:streamid=0\r\n"
	if v[:1] == "n" {
		video = ""
	}
	return []byte("v=0\r\no=- 0 0 IN IP4 127.0.0.1\r\ns=" + uniq + "\r\nc=IN IP4 127.0.0.1\r\nt=0 0\r\n" + video +
		"m=audio 0 RTP/AVP 97\r\n" + audio + "a=control:streamid=1\r\n")
}

// labelRtspStream parses what an RTSP subscriber's command connection received: RTSP
// responses (the DESCRIBE response is labelled by the SDP it carries; SETUP / PLAY
// responses must be 200 and are not shown) and interleaved RTP packets.
func labelRtspStream(b []byte, sdps [][]byte, pkts [][]byte) string {
	var out []string
	for len(b) > 0 {
		if b[0] == '$' {
			if len(b) < 4 || len(b) < 4+(int(b[2])<<8|int(b[3])) {
				out = append(out, "?short-interleaved")
				break
			}
			n := int(b[2])<<8 | int(b[3])
			payload := b[4 : 4+n]
			name := "?pkt"
			for j, p := range pkts {
				if bytes.Equal(p, payload) {
					want := -1
					if len(p) >= 2 {
						switch p[1] & 0x7f {
						case 96:
							want = 0
						case 97:
							want = 2
						}
					}
					if int(b[1]) == want {
						name = fmt.Sprintf("p%d", j)
					} else {
						name = fmt.Sprintf("?chan%d-p%d", b[1], j)
					}
					break
				}
			}
			out = append(out, name)
			b = b[4+n:]
			continue
		}
		i := bytes.Index(b, []byte("\r\n\r\n"))
		if i < 0 {
			rest := b
			if len(rest) > 24 {
				rest = rest[:24]
			}
			out = append(out, "?"+hexOf(rest))
			break
		}
		head := string(b[:i])
		b = b[i+4:]
		if !strings.HasPrefix(head, "RTSP/1.0 200 OK\r\n") {
			out = append(out, "?status:"+strings.SplitN(head, "\r\n", 2)[0])
			continue
		}
		cl := -1
		for _, l := range strings.Split(head, "\r\n") {
			if strings.HasPrefix(l, "Content-Length: ") {
				cl = intTok(strings.TrimPrefix(l, "Content-Length: "))
			}
		}
		if cl >= 0 {
			if cl > len(b) {
				out = append(out, "?short-body")
				break
			}
			body := b[:cl]
			b = b[cl:]
			name := "?sdp"
			for k, sd := range sdps {
				if bytes.Equal(sd, body) {
					name = fmt.Sprintf("d%d", k)
				}
			}
			out = append(out, name)
		}
	}
	if len(out) == 0 {
		return "-"
	}
	return strings.Join(out, ",")
}

type fanConsumer struct {
	left bool
	pc   *parkConn
	cmd  *rtsp.ServerCommandSession
	sub  *rtsp.SubSession
	broken bool
	sdp    string
	id   uint64
	kind byte // r f w p t
	conn *fakeConn
	rs   *rtmp.ServerSession
	fs   *httpflv.SubSession
	ts   *httpts.SubSession
}

type pubMsg struct {
	t       uint8
	ts      uint32
	payload []byte
	cwo, cw []byte // chunks without / with @setDataFrame
	tag     []byte
}

func freePort() int {
	l, err := net.Listen("tcp", "127.0.0.1:0")
	if err != nil {
		panic(err)
	}
	p := l.Addr().(*net.TCPAddr).Port
	l.Close()
	return p
}

func parseKV(s string) map[string]int {
	out := map[string]int{}
	for _, kv := range strings.Split(s, ",") {
		f := strings.SplitN(kv, "=", 2)
		if len(f) == 2 {
			out[f[0]] = intTok(f[1])
		}
	}
	return out
}

// labelStream parses b as a concatenation of known units.
func labelStream(b []byte, units []struct {
	name string
	b    []byte
}) string {
	var out []string
	for len(b) > 0 {
		best := -1
		for i, u := range units {
			if len(u.b) > 0 && bytes.HasPrefix(b, u.b) {
				if best < 0 || len(u.b) > len(units[best].b) {
					best = i
				}
			}
		}
		if best < 0 {
			rest := b
			if len(rest) > 24 {
				rest = rest[:24]
			}
			out = append(out, "?"+hexOf(rest))
			break
		}
		out = append(out, units[best].name)
		b = b[len(units[best].b):]
	}
	if len(out) == 0 {
		return "-"
	}
	return strings.Join(out, ",")
}

func unwrapWs(b []byte) ([]byte, bool) {
	var out []byte
	for len(b) > 0 {
		if len(b) < 2 || b[0] != 0x82 || b[1]&0x80 != 0 {
			return out, false
		}
		l := int(b[1] & 0x7f)
		off := 2
		if l == 126 {
			if len(b) < 4 {
				return out, false
			}
			l = int(b[2])<<8 | int(b[3])
			off = 4
		} else if l == 127 {
			if len(b) < 10 {
				return out, false
			}
			l = 0
			for i := 2; i < 10; i++ {
				l = l<<8 | int(b[i])
			}
			off = 10
		}
		if len(b) < off+l {
			return out, false
		}
		out = append(out, b[off:off+l]...)
		b = b[off+l:]
	}
	return out, true
}

func runFanoutHistory(cfgTok, evTok string) string {
	kv := parseKV(cfgTok)
	var cfg logic.Config
	cfg.RtmpConfig.Enable = kv["re"] != 0
	cfg.RtmpConfig.GopNum = kv["rg"]
	cfg.RtmpConfig.SingleGopMaxFrameNum = kv["rm"]
	cfg.RtmpConfig.MergeWriteSize = kv["mw"]
	cfg.HttpflvConfig.Enable = kv["fe"] != 0
	cfg.HttpflvConfig.GopNum = kv["fg"]
	cfg.HttpflvConfig.SingleGopMaxFrameNum = kv["fm"]
	cfg.HttptsConfig.GopNum = kv["tg"]
	cfg.HttptsConfig.SingleGopMaxFrameNum = kv["tm"]
	cfg.RtspConfig.OutWaitKeyFrameFlag = kv["rw"] != 0
	var recDir string
	if kv["rec"] != 0 {
		d, err := ioutil.TempDir("", "lalprobe-rec-")
		if err != nil {
			panic(err)
		}
		recDir = d
		defer os.RemoveAll(recDir)
		cfg.RecordConfig.EnableFlv = true
		cfg.RecordConfig.FlvOutPath = recDir
	}
	var trecDir string
	if kv["trec"] != 0 {
		// MPEG-TS recording.  EnableMpegts also starts the real Rtmp2MpegtsRemuxer for the input; the histories that
		// set trec publish fewer than 16 messages per input and never both audio and video, so its probe queue never
		// drains and the only PAT/PMT / TS data the group sees are the blobs this harness injects (events A / T)
		d, err := ioutil.TempDir("", "lalprobe-trec-")
		if err != nil {
			panic(err)
		}
		trecDir = d
		defer os.RemoveAll(trecDir)
		cfg.RecordConfig.EnableMpegts = true
		cfg.RecordConfig.MpegtsOutPath = trecDir
	}
	var target *pushTarget
	var targetSrv *rtmp.Server
	if kv["push"] != 0 {
		target = &pushTarget{doneCh: make(chan struct{}, 4), newCh: make(chan struct{}, 4)}
		port := freePort()
		addr := fmt.Sprintf("127.0.0.1:%d", port)
		targetSrv = rtmp.NewServer(addr, target)
		if err := targetSrv.Listen(); err != nil {
			panic(err)
		}
		go targetSrv.RunLoop()
		defer targetSrv.Dispose()
		cfg.RelayPushConfig.Enable = true
		cfg.RelayPushConfig.AddrList = []string{addr}
	}

	opt := logic.GroupOption{}
	var hooks *hookRecorder
	if kv["hook"] != 0 {
		hooks = &hookRecorder{}
		opt = logic.VerifGroupOptionWithHook(func(uniqueKey string, streamName string) logic.ICustomizeHookSessionContext {
			e := &hookEpoch{}
			hooks.mu.Lock()
			hooks.epochs = append(hooks.epochs, e)
			hooks.mu.Unlock()
			return &hookCtx{hooks, e}
		})
	}
	group := logic.NewGroup("live", "s", &cfg, opt, nopGroupObserver{})
	var pubSession *rtmp.ServerSession
	var pubConn *fakeConn
	consumers := map[uint64]*fanConsumer{}
	var order []uint64
	var msgs []pubMsg
	if hooks != nil {
		hooks.msgs = &msgs
	}
	var tsBlobs, patBlobs, sdpBlobs, rtpPkts [][]byte
	recvBufs := map[uint8][]byte{}
	pushAttached := false
	wantOpened := 0
	var pushSegments [][]base.RtmpMsg // one per input epoch

	waitUntil := func(cond func() bool) bool {
		start := time.Now()
		deadline := start.Add(30 * time.Second)
		next := start.Add(50 * time.Millisecond)
		for time.Now().Before(deadline) {
			if cond() {
				return true
			}
			time.Sleep(200 * time.Microsecond)
			if time.Now().After(next) {
				// a failed connection attempt is retried by the group on its next tick
				group.Tick(1)
				next = time.Now().Add(50 * time.Millisecond)
			}
		}
		return false
	}

	var recs, trecs []string
	var recFiles, trecFiles []string
	// one recording per input epoch: when the input ends the file is moved aside (a second epoch within the
	// same second would reuse - and truncate - the file name) and read back at the END of the history, so that
	// anything written to a recording that was not closed is seen
	collectRecs := func() {
		move := func(dir, pat string, list *[]string) {
			if dir == "" {
				return
			}
			files, _ := filepath.Glob(filepath.Join(dir, pat))
			sort.Strings(files)
			for _, fn := range files {
				to := fmt.Sprintf("%s.%d.done", fn, len(*list))
				if os.Rename(fn, to) == nil {
					*list = append(*list, to)
				}
			}
		}
		move(recDir, "*.flv", &recFiles)
		move(trecDir, "*.ts", &trecFiles)
	}
	stopInput := func() {
		if pubSession == nil {
			return
		}
		if target != nil && pushAttached {
			group.VerifFlushPushSessions()
		}
		group.DelRtmpPubSession(pubSession)
		pubConn.Close()
		pubSession = nil
		collectRecs()
		if target != nil && pushAttached {
			select {
			case <-target.doneCh:
			case <-time.After(30 * time.Second):
			}
			pushAttached = false
		}
	}

	disposed := false
	for _, e := range strings.Split(evTok, ";") {
		if e == "" {
			continue
		}
		f := strings.Split(e, ":")
		if disposed {
			return "bad-event-after-dispose " + e
		}
		switch f[0] {
		case "X":
			// server shutdown: Group.Dispose().  The publisher's connection is closed by it.  The group is NOT told
			// afterwards that the publisher is gone (the process is exiting): Dispose itself must finalise the input
			if target != nil && pushAttached {
				group.VerifFlushPushSessions()
			}
			group.Dispose()
			disposed = true
			if pubSession != nil {
				pubSession = nil
				collectRecs()
				if target != nil && pushAttached {
					select {
					case <-target.doneCh:
					case <-time.After(30 * time.Second):
					}
					pushAttached = false
				}
			}
		case "I":
			if pubSession != nil {
				break
			}
			pubConn = newFakeConn(nil)
			pubSession = rtmp.NewServerSession(nopRtmpObserver{}, pubConn)
			if err := group.AddRtmpPubSession(pubSession); err != nil {
				return "err-add-pub"
			}
			if target != nil {
				if !waitUntil(func() bool { return group.VerifPushSessionCount() == 1 }) {
					return "err-push-not-attached"
				}
				// ... and until the stub origin has registered the session: the client side is
				// attached as soon as it got the publish status, the origin's callback may come later
				wantOpened++
				if !waitUntil(func() bool {
					target.mu.Lock()
					defer target.mu.Unlock()
					return target.opened >= wantOpened
				}) {
					return "err-push-not-seen-by-target"
				}
				pushAttached = true
			}
		case "O":
			stopInput()
		case "Oq":
			// end of the input immediately followed by whatever comes next: no waiting for the relay goroutines
			if pubSession != nil {
				if target != nil && pushAttached {
					group.VerifFlushPushSessions()
				}
				group.DelRtmpPubSession(pubSession)
				pubConn.Close()
				pubSession = nil
				collectRecs()
				pushAttached = false
			}
		case "K":
			group.Tick(1)
		case "S":
			if len(f) == 3 {
				// a real SDP, parsed by lal as an RTSP publisher's ANNOUNCE would be
				b := fanSdp(f[1], f[2])
				ctx, err := sdp.ParseSdp2LogicContext(b)
				if err != nil {
					return "err-sdp"
				}
				sdpBlobs = append(sdpBlobs, b)
				group.OnSdp(ctx)
				for _, c := range consumers {
					if c.pc != nil {
						c.pc.waitParked()
					}
				}
				break
			}
			b := bytesTok(f[1])
			sdpBlobs = append(sdpBlobs, b)
			group.OnSdp(sdp.LogicContext{RawSdp: b})
		case "D":
			// a real RTSP command session over a fake conn; DESCRIBE now, SETUP + PLAY at event Y
			id := numTok(f[1])
			if _, ok := consumers[id]; ok {
				break
			}
			c := &fanConsumer{id: id, kind: 'd', pc: newParkConn()}
			old := rtsp.VerifC15SetCmdWriteChanSize(0)
			c.cmd = rtsp.NewServerCommandSession(&fanRtspObs{group, c}, c.pc, rtsp.ServerAuthConfig{}, false, "")
			rtsp.VerifC15SetCmdWriteChanSize(old)
			go func() { _ = c.cmd.RunLoop() }()
			c.pc.feed([]byte("DESCRIBE rtsp://127.0.0.1/live/s RTSP/1.0\r\nCSeq: 1\r\n\r\n"))
			if !c.pc.waitParked() || c.sub == nil {
				return "err-describe"
			}
			consumers[id] = c
			order = append(order, id)
		case "Y":
			id := numTok(f[1])
			c, ok := consumers[id]
			if !ok || c.kind != 'd' || c.pc.isClosed() || c.sub.Stage.Load() != rtsp.SubSessionStageWriteSdp {
				break // a client sends SETUP / PLAY only after it has the DESCRIBE response
			}
			setupVideo := "SETUP rtsp://127.0.0.1/live/s/streamid=0 RTSP/1.0\r\nCSeq: 2\r\nTransport: RTP/AVP/TCP;unicast;interleaved=0-1\r\n\r\n"
			if !bytes.Contains(c.pc.all(), []byte("m=video")) {
				setupVideo = "" // the SDP this session was given has no video section
			}
			c.pc.feed([]byte(setupVideo +
				"SETUP rtsp://127.0.0.1/live/s/streamid=1 RTSP/1.0\r\nCSeq: 3\r\nTransport: RTP/AVP/TCP;unicast;interleaved=2-3\r\n\r\n" +
				"PLAY rtsp://127.0.0.1/live/s RTSP/1.0\r\nCSeq: 4\r\n\r\n"))
			if !c.pc.waitParked() || c.pc.isClosed() {
				return "err-play"
			}
		case "R":
			raw := bytesTok(f[1])
			rtpPkts = append(rtpPkts, raw)
			if pkt, err := rtprtcp.ParseRtpPacket(raw); err == nil {
				group.OnRtpPacket(pkt)
			}
		case "B":
			id := numTok(f[1])
			if c, ok := consumers[id]; ok && c.conn != nil {
				c.conn.breakWrites()
				c.broken = true
			}
		case "P":
			m := pubMsg{t: uint8(numTok(f[1])), ts: uint32(numTok(f[2])), payload: bytesTok(f[3])}
			msg := base.RtmpMsg{Header: base.RtmpHeader{MsgLen: uint32(len(m.payload)), MsgTypeId: m.t, MsgStreamId: 1, TimestampAbs: m.ts}, Payload: m.payload}
			switch m.t {
			case base.RtmpTypeIdAudio:
				msg.Header.Csid = rtmp.CsidAudio
			case base.RtmpTypeIdVideo:
				msg.Header.Csid = rtmp.CsidVideo
			default:
				msg.Header.Csid = rtmp.CsidAmf
			}
			if len(m.payload) > 0 {
				var lcd remux.LazyRtmpChunkDivider
				var l2t remux.LazyRtmpMsg2FlvTag
				lcd.Init(msg.Clone())
				l2t.Init(msg.Clone())
				m.cwo = append([]byte{}, lcd.GetEnsureWithoutSdf()...)
				m.cw = append([]byte{}, lcd.GetEnsureWithSdf()...)
				m.tag = append([]byte{}, l2t.GetEnsureWithoutSdf()...)
			}
			msgs = append(msgs, m)
			// a real publisher session reuses its receive buffer for every message of a
			// chunk stream ("the payload block is reused after the callback returns"):
			// hand the group a payload that lives in such a per-type buffer
			rb := recvBufs[m.t]
			if cap(rb) < len(m.payload) {
				rb = make([]byte, len(m.payload), 2*len(m.payload)+16)
			}
			rb = rb[:len(m.payload)]
			copy(rb, m.payload)
			recvBufs[m.t] = rb
			msg.Payload = rb
			group.OnReadRtmpAvMsg(msg)
			// ... and scribble over it afterwards, as the next message on that chunk stream would
			for i := range rb {
				rb[i] ^= 0x5a
			}
		case "Jr", "Jf", "Jw", "Jt", "Jp":
			id := numTok(f[1])
			if _, ok := consumers[id]; ok {
				break
			}
			c := &fanConsumer{id: id, kind: f[0][1], conn: newFakeConn(nil)}
			switch c.kind {
			case 'r':
				c.rs = rtmp.NewServerSession(nopRtmpObserver{}, c.conn)
				group.AddRtmpSubSession(c.rs)
			case 'f', 'w':
				c.fs = httpflv.NewSubSession(c.conn, base.UrlContext{}, c.kind == 'w', "k")
				group.AddHttpflvSubSession(c.fs)
			case 't':
				c.ts = httpts.NewSubSession(c.conn, base.UrlContext{}, false, "k")
				group.AddHttptsSubSession(c.ts)
			case 'p':
				// attached by the group itself when the input started
			}
			consumers[id] = c
			order = append(order, id)
		case "L":
			id := numTok(f[1])
			c, ok := consumers[id]
			if !ok {
				break
			}
			c.left = true
			switch c.kind {
			case 'd':
				if !c.pc.isClosed() {
					group.DelRtspSubSession(c.sub)
					c.pc.Close()
				}
			case 'r':
				group.DelRtmpSubSession(c.rs)
			case 'f', 'w':
				group.DelHttpflvSubSession(c.fs)
			case 't':
				group.DelHttptsSubSession(c.ts)
			}
		case "T":
			b := bytesTok(f[1])
			tsBlobs = append(tsBlobs, b)
			group.OnTsPackets(b, nil, boolTok(f[2]))
		case "A":
			b := bytesTok(f[1])
			patBlobs = append(patBlobs, b)
			group.OnPatPmt(b)
		default:
			return "bad-event " + e
		}
	}
	// end of history: stop the input so that push targets and recordings are finalised
	stopInput()
	for _, fn := range recFiles {
		b, _ := ioutil.ReadFile(fn)
		recs = append(recs, string(b))
	}
	for _, fn := range trecFiles {
		b, _ := ioutil.ReadFile(fn)
		trecs = append(trecs, string(b))
	}

	// every relay-push session the target saw must have been closed by the end of the history
	pushOpen := -1
	waitPushClosed := func() int {
		if target == nil {
			return 0
		}
		if pushOpen >= 0 {
			return pushOpen
		}
		deadline := time.Now().Add(1500 * time.Millisecond)
		open := 0
		for {
			target.mu.Lock()
			open = target.opened - target.ended
			target.mu.Unlock()
			if open == 0 || time.Now().After(deadline) {
				break
			}
			time.Sleep(time.Millisecond)
		}
		pushOpen = open
		return open
	}
	type unit = struct {
		name string
		b    []byte
	}
	var rtmpUnits, flvUnits, tsUnits []unit
	for i, m := range msgs {
		if len(m.payload) == 0 {
			continue
		}
		rtmpUnits = append(rtmpUnits, unit{fmt.Sprintf("c%d", i), m.cwo})
		if !bytes.Equal(m.cw, m.cwo) {
			rtmpUnits = append(rtmpUnits, unit{fmt.Sprintf("C%d", i), m.cw})
		}
		flvUnits = append(flvUnits, unit{fmt.Sprintf("t%d", i), m.tag})
	}
	for j, b := range tsBlobs {
		tsUnits = append(tsUnits, unit{fmt.Sprintf("s%d", j), b})
	}
	for k, b := range patBlobs {
		tsUnits = append(tsUnits, unit{fmt.Sprintf("a%d", k), b})
	}

	var parts []string
	sort.Slice(order, func(a, b int) bool { return order[a] < order[b] })
	for _, id := range order {
		c := consumers[id]
		var lab string
		if c.broken {
			parts = append(parts, fmt.Sprintf("%d=!", id))
			continue
		}
		switch c.kind {
		case 'd':
			lab = labelRtspStream(c.pc.all(), sdpBlobs, rtpPkts)
		case 'r':
			lab = labelStream(c.conn.all(), rtmpUnits)
		case 'f':
			b := c.conn.all()
			hdr := append(append([]byte{}, base.LalFlvHttpResponseHeader...), httpflv.FlvHeader...)
			if !bytes.HasPrefix(b, hdr) {
				lab = "?nohdr"
			} else {
				lab = "HF," + labelStream(b[len(hdr):], flvUnits)
			}
		case 'w':
			b := c.conn.all()
			hdr := base.UpdateWebSocketHeader("k", "")
			if !bytes.HasPrefix(b, hdr) {
				lab = "?nohdr"
			} else {
				body, ok := unwrapWs(b[len(hdr):])
				if !ok || !bytes.HasPrefix(body, httpflv.FlvHeader) {
					lab = "?badws"
				} else {
					lab = "HF," + labelStream(body[len(httpflv.FlvHeader):], flvUnits)
				}
			}
		case 't':
			b := c.conn.all()
			if !bytes.HasPrefix(b, base.LalTsHttpResponseHeader) {
				lab = "?nohdr"
			} else {
				lab = "H," + labelStream(b[len(base.LalTsHttpResponseHeader):], tsUnits)
			}
		case 'p':
			// what the push target decoded, per input epoch; labels by message equality
			var segs []string
			waitPushClosed()
			target.mu.Lock()
			pushSegments = nil
			for _, ts := range target.sess {
				pushSegments = append(pushSegments, ts.msgs)
			}
			target.mu.Unlock()
			for _, seg := range pushSegments {
				var ls []string
				for _, rm := range seg {
					name := "?"
					for i, m := range msgs {
						if len(m.payload) == 0 || m.t != rm.Header.MsgTypeId || m.ts != rm.Header.TimestampAbs {
							continue
						}
						pw, pwo := m.payload, m.payload
						if m.t == base.RtmpTypeIdMetadata {
							pw, _ = rtmp.MetadataEnsureWithSdf(m.payload)
							pwo, _ = rtmp.MetadataEnsureWithoutSdf(m.payload)
						}
						if bytes.Equal(rm.Payload, pwo) {
							name = fmt.Sprintf("c%d", i)
							break
						}
						if bytes.Equal(rm.Payload, pw) {
							name = fmt.Sprintf("C%d", i)
							break
						}
					}
					ls = append(ls, name)
				}
				if len(ls) == 0 {
					segs = append(segs, "-")
				} else {
					segs = append(segs, strings.Join(ls, ","))
				}
			}
			if len(segs) == 0 {
				lab = "-"
			} else {
				lab = strings.Join(segs, "/")
			}
		}
		lab = strings.TrimSuffix(lab, ",-")
		parts = append(parts, fmt.Sprintf("%d=%s", id, lab))
	}
	if recDir != "" {
		var rl []string
		for _, r := range recs {
			b := []byte(r)
			if !bytes.HasPrefix(b, httpflv.FlvHeader) {
				rl = append(rl, "?nohdr")
			} else {
				rl = append(rl, strings.TrimSuffix("F,"+labelStream(b[len(httpflv.FlvHeader):], flvUnits), ",-"))
			}
		}
		if len(rl) == 0 {
			rl = []string{"-"}
		}
		parts = append(parts, "rec="+strings.Join(rl, "/"))
	}
	if disposed {
		// every session the group still held must have been disposed (its connection closed)
		var live []string
		for _, id := range order {
			c := consumers[id]
			if c.left || c.kind == 'p' {
				continue
			}
			open := false
			if c.pc != nil {
				open = !c.pc.isClosed()
			} else {
				open = !c.conn.isClosed()
			}
			if open {
				live = append(live, fmt.Sprintf("%d", id))
			}
		}
		if pubConn != nil && !pubConn.isClosed() {
			live = append(live, "pub")
		}
		if len(live) == 0 {
			live = []string{"-"}
		}
		parts = append(parts, "live="+strings.Join(live, ","))
	}
	if trecDir != "" {
		var rl []string
		for _, r := range trecs {
			rl = append(rl, labelStream([]byte(r), tsUnits))
		}
		if len(rl) == 0 {
			rl = []string{"-"}
		}
		parts = append(parts, "trec="+strings.Join(rl, "/"))
	}
	if target != nil {
		parts = append(parts, fmt.Sprintf("popen=%d", waitPushClosed()))
	}
	if hooks != nil {
		var hs []string
		for _, e := range hooks.epochs {
			ms := "-"
			if len(e.msgs) > 0 {
				ms = strings.Join(e.msgs, ",")
			}
			hs = append(hs, fmt.Sprintf("%s:%d", ms, e.stops))
		}
		if len(hs) == 0 {
			hs = []string{"-"}
		}
		parts = append(parts, "hook="+strings.Join(hs, "/"))
	}
	for _, c := range consumers {
		if c.pc != nil {
			c.pc.Close()
			continue
		}
		c.conn.Close()
	}
	if len(parts) == 0 {
		return "-"
	}
	return strings.Join(parts, "|")
}

func init() {
	register("c01.hist", func(a []string) string {
		// synchronous writes for the HTTP subscribers of this history only
		oldTs, oldFlv := httpts.SubSessionWriteChanSize, httpflv.SubSessionWriteChanSize
		httpts.SubSessionWriteChanSize, httpflv.SubSessionWriteChanSize = 0, 0
		defer func() { httpts.SubSessionWriteChanSize, httpflv.SubSessionWriteChanSize = oldTs, oldFlv }()
		return runFanoutHistory(a[0], a[1])
	})
	// the per-message conversions every consumer shares
	register("c01.conv", func(a []string) string {
		p := bytesTok(a[2])
		msg := base.RtmpMsg{Header: base.RtmpHeader{MsgLen: uint32(len(p)), MsgTypeId: uint8(numTok(a[0])), MsgStreamId: 77, Csid: 99, TimestampAbs: uint32(numTok(a[1]))}, Payload: p}
		var lcd remux.LazyRtmpChunkDivider
		var l2t remux.LazyRtmpMsg2FlvTag
		lcd.Init(msg.Clone())
		l2t.Init(msg.Clone())
		return fmt.Sprintf("%s %s %s", tokBytes(lcd.GetEnsureWithoutSdf()), tokBytes(lcd.GetEnsureWithSdf()), tokBytes(l2t.GetEnsureWithoutSdf()))
	})
}
