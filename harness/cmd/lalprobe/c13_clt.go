package main

// C13: the RTSP command layer of the client.
//
// c13.rtspclt <push> <tcp> <user> <pass> <pushsdp> <stream>
//   a real rtsp.PullSession (push = 0) or rtsp.PushSession (push = 1), UDP or interleaved transport,
//   started against a stub upstream on the loopback interface: the stub writes <stream> (everything the
//   server will ever say) and closes its sending side, then collects what the client writes until the
//   client closes the connection.  Output:
//     the requests the client wrote, parsed back with lal's own request reader:
//       q:<method>:<uri>:<headers sorted>:<body>   (interleaved frames the client wrote are skipped; the
//       list ends at the first thing the reader cannot read)
//       with the stub's port, the local UDP ports and the User-Agent value masked, a Basic credential
//       shown decoded, a Digest response shown as R when it is the RFC 2617 value for this request;
//     sdp:<n>  the OnSdp callbacks; the outcome: failed (Start returned an error) / ended (the session
//     disposed itself after the handshake) / running (it was still alive 150 ms after the handshake).

import (
	"bufio"
	"bytes"
	"crypto/md5"
	"encoding/base64"
	"encoding/hex"
	"fmt"
	"io"
	"net"
	"regexp"
	"sort"
	"strings"
	"time"

	"github.com/q191201771/lal/pkg/base"
	"github.com/q191201771/lal/pkg/rtprtcp"
	"github.com/q191201771/lal/pkg/rtsp"
	"github.com/q191201771/lal/pkg/sdp"
)

type c13CltObs struct{ n *int }

func (o c13CltObs) OnSdp(sdpCtx sdp.LogicContext)     { *o.n++ }
func (o c13CltObs) OnRtpPacket(pkt rtprtcp.RtpPacket) {}
func (o c13CltObs) OnAvPacket(pkt base.AvPacket)      {}

var (
	c13ClientPortRe2 = regexp.MustCompile(`client_port=\d+-\d+`)
	c13DigestRespRe  = regexp.MustCompile(`response="([0-9a-f]{32})"`)
)

func c13Md5Hex(s string) string {
	h := md5.Sum([]byte(s))
	return hex.EncodeToString(h[:])
}

func init() {
	register("c13.rtspclt", func(a []string) string {
		push, tcp := boolTok(a[0]), boolTok(a[1])
		user, pass := string(bytesTok(a[2])), string(bytesTok(a[3]))
		pushSdp, stream := bytesTok(a[4]), bytesTok(a[5])

		var pushCtx sdp.LogicContext
		if push {
			var err error
			if pushCtx, err = sdp.ParseSdp2LogicContext(pushSdp); err != nil {
				return "ok - sdp:0 badsdp"
			}
		}
		ln, err := net.Listen("tcp", "127.0.0.1:0")
		if err != nil {
			return "no-listen"
		}
		defer ln.Close()
		var got []byte
		done := make(chan struct{})
		go func() {
			defer close(done)
			c, err := ln.Accept()
			if err != nil {
				return
			}
			defer c.Close()
			_, _ = c.Write(stream)
			if tc, ok := c.(*net.TCPConn); ok {
				_ = tc.CloseWrite()
			}
			_ = c.SetReadDeadline(time.Now().Add(3 * time.Second))
			got, _ = io.ReadAll(c)
		}()

		hostPort := ln.Addr().String()
		userinfo := ""
		if user != "" {
			userinfo = user
			if pass != "" {
				userinfo += ":" + pass
			}
			userinfo += "@"
		}
		url := "rtsp://" + userinfo + hostPort + "/live/x"
		nsdp := 0
		outcome := "failed"
		wait := func(ch <-chan error) {
			select {
			case <-ch:
				outcome = "ended"
			case <-time.After(150 * time.Millisecond):
				outcome = "running"
			}
		}
		if push {
			s := rtsp.NewPushSession(func(o *rtsp.PushSessionOption) {
				o.PushTimeoutMs = 2000
				o.OverTcp = tcp
			}).WithSdpLogicContext(pushCtx)
			if err := s.Start(url); err == nil {
				wait(s.WaitChan())
			}
			_ = s.Dispose()
		} else {
			s := rtsp.NewPullSession(c13CltObs{&nsdp}, func(o *rtsp.PullSessionOption) {
				o.PullTimeoutMs = 2000
				o.OverTcp = tcp
			})
			if err := s.Start(url); err == nil {
				wait(s.WaitChan())
			}
			_ = s.Dispose()
		}
		<-done

		// what the client wrote
		mask := func(s string) string { return strings.ReplaceAll(s, hostPort, "127.0.0.1:P") }
		var out []string
		r := bufio.NewReader(bytes.NewReader(got))
		for {
			is, _, _, err := rtsp.VerifReadInterleaved(r)
			if err != nil {
				break
			}
			if is {
				continue
			}
			q, err := rtsp.VerifReadHttpRequestMessage(r)
			if err != nil {
				break
			}
			var hs []string
			for k, vs := range q.Headers {
				for _, v := range vs {
					switch k {
					case "User-Agent":
						v = "-"
					case "Transport":
						v = c13ClientPortRe2.ReplaceAllString(v, "client_port=P")
					case "Authorization":
						if strings.HasPrefix(v, "Basic ") {
							if d, err := base64.StdEncoding.DecodeString(strings.TrimPrefix(v, "Basic ")); err == nil {
								v = "Basic " + string(d)
							}
						} else if strings.HasPrefix(v, "Digest ") {
							// RFC 2617 without qop: response = MD5(MD5(user:realm:pass):nonce:MD5(method:uri)).
							// lal writes username, realm, nonce, uri, response, algorithm in this order; realm and nonce come
							// from the server and may contain quotes: every way to cut them apart is tried
							rawUrl := "rtsp://" + hostPort + "/live/x"
							pre := `Digest username="` + user + `", realm="`
							if m := c13DigestRespRe.FindStringSubmatch(v); m != nil && strings.HasPrefix(v, pre) {
								suf := `", uri="` + rawUrl + `", response="` + m[1] + `"`
								if j := strings.LastIndex(v, suf); j >= len(pre) {
									mid := v[len(pre):j]
									sep := `", nonce="`
									for from := 0; ; {
										i := strings.Index(mid[from:], sep)
										if i < 0 {
											break
										}
										realm, nonce := mid[:from+i], mid[from+i+len(sep):]
										if m[1] == c13Md5Hex(c13Md5Hex(user+":"+realm+":"+pass)+":"+nonce+":"+c13Md5Hex(q.Method+":"+rawUrl)) {
											v = v[:j] + `", uri="` + rawUrl + `", response="R"` + v[j+len(suf):]
											break
										}
										from += i + 1
									}
								}
							}
						}
					}
					hs = append(hs, tokBytes([]byte(k))+"="+tokBytes([]byte(mask(v))))
				}
			}
			sort.Strings(hs)
			// the uri as written: an a=control value with a space in it ends up split over uri and version
			uri := q.Uri
			if q.Version != "" {
				uri += " " + q.Version
			}
			uri = strings.TrimSuffix(uri, " RTSP/1.0")
			out = append(out, fmt.Sprintf("q:%s:%s:%s:%s", tokBytes([]byte(q.Method)), tokBytes([]byte(mask(uri))), strings.Join(hs, ";"), tokBytes(q.Body)))
		}
		return fmt.Sprintf("ok %s sdp:%d %s", c13JoinComma(out), nsdp, outcome)
	})
}
