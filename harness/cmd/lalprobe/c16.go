package main

// C16, idle part: the liveness sweep of Group.Tick on a real Group with real
// sessions whose byte counters are driven exactly.

import (
	"fmt"
	"sort"
	"strings"
	"time"

	"github.com/q191201771/lal/pkg/base"
	"github.com/q191201771/lal/pkg/httpflv"
	"github.com/q191201771/lal/pkg/httpts"
	"github.com/q191201771/lal/pkg/logic"
	"github.com/q191201771/lal/pkg/rtmp"
)

type idleSess struct {
	id   uint64
	kind string
	conn *fakeConn
	rs   *rtmp.ServerSession
	fs   *httpflv.SubSession
	ts   *httpts.SubSession
	read uint64 // bytes the publisher's connection must have read by now
	done chan struct{}
}

// one RTMP Ack message (type 3) on csid 2: 12-byte header + 4-byte body, harmless before publish
var rtmpAckMsg = []byte{0x02, 0, 0, 0, 0, 0, 4, 3, 0, 0, 0, 0, 0, 0, 0, 1}

func runIdleHistory(evTok string) string {
	oldTs, oldFlv := httpts.SubSessionWriteChanSize, httpflv.SubSessionWriteChanSize
	httpts.SubSessionWriteChanSize, httpflv.SubSessionWriteChanSize = 0, 0
	defer func() { httpts.SubSessionWriteChanSize, httpflv.SubSessionWriteChanSize = oldTs, oldFlv }()
	var cfg logic.Config
	cfg.RtmpConfig.Enable = true
	cfg.HttpflvConfig.Enable = true
	group := logic.NewGroup("live", "s", &cfg, logic.GroupOption{}, nopGroupObserver{})
	sess := map[uint64]*idleSess{}
	var order []uint64
	waitRead := func(s *idleSess) bool {
		deadline := time.Now().Add(10 * time.Second)
		for time.Now().Before(deadline) {
			if s.rs.GetStat().ReadBytesSum >= s.read {
				return true
			}
			time.Sleep(100 * time.Microsecond)
		}
		return false
	}
	for _, e := range strings.Split(evTok, ";") {
		if e == "" {
			continue
		}
		f := strings.Split(e, ":")
		switch f[0] {
		case "a":
			id := numTok(f[1])
			s := &idleSess{id: id, kind: f[2], conn: newFakeConn(nil), done: make(chan struct{})}
			switch s.kind {
			case "pr":
				s.rs = rtmp.NewServerSession(nopRtmpObserver{}, s.conn)
				go func() { _ = s.rs.RunLoop(); close(s.done) }()
				if err := group.AddRtmpPubSession(s.rs); err != nil {
					return "err-add-pub"
				}
			case "sr":
				s.rs = rtmp.NewServerSession(nopRtmpObserver{}, s.conn)
				group.AddRtmpSubSession(s.rs)
			case "sf":
				s.fs = httpflv.NewSubSession(s.conn, base.UrlContext{}, false, "k")
				group.AddHttpflvSubSession(s.fs)
			case "st":
				s.ts = httpts.NewSubSession(s.conn, base.UrlContext{}, false, "k")
				group.AddHttptsSubSession(s.ts)
			default:
				return "bad-kind"
			}
			sess[id] = s
			order = append(order, id)
		case "b":
			s := sess[numTok(f[1])]
			r, w := int(numTok(f[2])), int(numTok(f[3]))
			if s == nil || s.conn.isClosed() {
				break
			}
			switch s.kind {
			case "pr":
				// r must be 1537 (C0C1), 1536 (C2) or a multiple of 16 (Ack messages), in that order
				var b []byte
				switch {
				case s.read == 0 && r == 1537:
					b = make([]byte, 1537)
					b[0] = 3
				case s.read == 1537 && r == 1536:
					b = make([]byte, 1536)
				case s.read >= 3073 && r%16 == 0:
					for i := 0; i < r/16; i++ {
						b = append(b, rtmpAckMsg...)
					}
				default:
					return "bad-read-count"
				}
				s.conn.feed(b)
				s.read += uint64(r)
				if !waitRead(s) {
					return "err-read-not-consumed"
				}
			case "sr":
				_ = s.rs.Write(make([]byte, w))
			case "sf":
				s.fs.Write(make([]byte, w))
			case "st":
				s.ts.Write(make([]byte, w))
			}
		case "t":
			group.Tick(uint32(numTok(f[1])))
		default:
			return "bad-event " + e
		}
	}
	var parts []string
	sort.Slice(order, func(a, b int) bool { return order[a] < order[b] })
	for _, id := range order {
		parts = append(parts, fmt.Sprintf("%d=%s", id, tokBool(sess[id].conn.isClosed())))
	}
	// the owners of the disposed sessions detach them (what the server shells do); then the
	// group is removable iff nothing is left
	for _, id := range order {
		s := sess[id]
		if s.conn.isClosed() {
			switch s.kind {
			case "pr":
				group.DelRtmpPubSession(s.rs)
			case "sr":
				group.DelRtmpSubSession(s.rs)
			case "sf":
				group.DelHttpflvSubSession(s.fs)
			case "st":
				group.DelHttptsSubSession(s.ts)
			}
		}
	}
	parts = append(parts, "inactive="+tokBool(group.IsInactive()))
	for _, s := range sess {
		s.conn.Close()
	}
	return strings.Join(parts, "|")
}

func init() {
	register("c16.idle", func(a []string) string { return runIdleHistory(a[0]) })
}
