package main

// C19 follow-up: sequence headers with several parameter sets through every converter of lal.

import (
	"strings"

	"github.com/q191201771/lal/pkg/avc"
	"github.com/q191201771/lal/pkg/base"
	"github.com/q191201771/lal/pkg/remux"
	"github.com/q191201771/lal/pkg/rtprtcp"
	"github.com/q191201771/lal/pkg/sdp"
)

func c19Scribble(b []byte) {
	b = b[:cap(b)]
	for i := range b {
		b[i] = 0x5a
	}
}

// another input of the same shape: bytes >= 0x40 change (parameter-set content), counts / lengths / markers stay
func c19Other(b []byte) []byte {
	o := make([]byte, len(b))
	copy(o, b)
	for i := range o {
		if o[i] >= 0x40 {
			o[i] ^= 0x15
		}
	}
	return o
}

func c19ShowList(l [][]byte) string {
	if len(l) == 0 {
		return "none"
	}
	s := make([]string, len(l))
	for i, x := range l {
		s[i] = tokBytes(x)
	}
	return strings.Join(s, ",")
}

// the sdp a Rtmp2RtspRemuxer hands out after an aac sequence header and the given video sequence header
func c19HdrSdp(hdr []byte) (ctx *sdp.LogicContext) {
	r := remux.NewRtmp2RtspRemuxer(func(c sdp.LogicContext) {
		if ctx == nil {
			ctx = &c
		}
	}, func(pkt rtprtcp.RtpPacket) {})
	var a base.RtmpMsg
	a.Header.MsgTypeId = base.RtmpTypeIdAudio
	a.Payload = []byte{0xaf, 0x00, 0x12, 0x10}
	r.FeedRtmpMsg(a)
	var v base.RtmpMsg
	v.Header.MsgTypeId = base.RtmpTypeIdVideo
	v.Payload = hdr
	r.FeedRtmpMsg(v)
	// "after the call the remuxer does not hold msg memory": the chunk composer reuses the buffer
	c19Scribble(hdr)
	return
}

func init() {
	register("c19.avc_parse_list", func(a []string) string {
		return c19Safe(func() string {
			in := bytesTok(a[0])
			sl, pl, err := avc.ParseSpsPpsListFromSeqHeader(in)
			// results are independent copies: the function is used again and the inputs are overwritten before printing
			in2 := c19Other(in)
			s2, p2, _ := avc.ParseSpsPpsListFromSeqHeader(in2)
			for _, x := range append(s2, p2...) {
				c19Scribble(x)
			}
			c19Scribble(in)
			c19Scribble(in2)
			if err != nil {
				return c19ErrName(err)
			}
			return "ok " + c19ShowList(sl) + " " + c19ShowList(pl)
		})
	})
	register("c19.avc_hdr_sdp", func(a []string) string {
		return c19Safe(func() string {
			ctx := c19HdrSdp(bytesTok(a[0]))
			if ctx == nil {
				return "none"
			}
			return "ok " + tokBytes(ctx.Sps) + " " + tokBytes(ctx.Pps)
		})
	})
	register("c19.hevc_hdr_sdp", func(a []string) string {
		return c19Safe(func() string {
			ctx := c19HdrSdp(bytesTok(a[0]))
			if ctx == nil {
				return "none"
			}
			return "ok " + c19sdpOpt(ctx.Vps) + " " + tokBytes(ctx.Sps) + " " + tokBytes(ctx.Pps)
		})
	})
}
