package main

// C13: the RTSP command layer of the server.
//
// c13.rtspcmd <ws> <pubok> <desc> <playok> <stream>
//   a real rtsp.ServerCommandSession (auth off; plain or WebSocket framing) reads <stream> from a fake
//   conn; writes are synchronous (write channel size 0).  The observer answers
//   OnNewRtspPubSession with nil / an error (<pubok>), OnNewRtspSubSessionDescribe with
//   refuse (<desc> = deny), accept without sdp (nosdp: nobody publishes the stream yet) or accept
//   with the sdp given as a bytes token, OnNewRtspSubSessionPlay with nil / an error (<playok>).
//   Output: the observer callbacks and the responses written, in order, then the state of the
//   command session when the loop has returned.  A response is printed as
//   r:<status>:<header names>:<CSeq>:<Transport, server ports masked>:<body>, wr:... when it came as one
//   WebSocket frame (header and text in one write).
//   The last token, leak:<n>, counts the sockets this case opened (the UDP connections of
//   SETUP) that are still open after the sessions have been disposed.

import (
	"bufio"
	"bytes"
	"errors"
	"fmt"
	"io"
	"net"
	"os"
	"regexp"
	"strings"
	"time"

	"github.com/q191201771/lal/pkg/base"
	"github.com/q191201771/lal/pkg/rtsp"
)

type c13CmdConn struct {
	in []byte
	ev *[]string
	ws bool
}

var c13ServerPortRe = regexp.MustCompile(`server_port=\d+-\d+`)

func (c *c13CmdConn) Read(b []byte) (int, error) {
	if len(c.in) == 0 {
		return 0, io.EOF
	}
	n := copy(b, c.in)
	c.in = c.in[n:]
	return n, nil
}
func (c *c13CmdConn) Write(b []byte) (int, error) {
	n := len(b)
	tag := "r"
	if c.ws && len(b) > 0 && b[0] == 0x82 {
		// a WebSocket frame: header and response text have to arrive in this one write
		r := bufio.NewReader(bytes.NewReader(b))
		payload, err := base.ReadWsPayload(r)
		if err != nil || r.Buffered() != 0 || !bytes.HasPrefix(payload, []byte("RTSP/1.0 ")) {
			*c.ev = append(*c.ev, "wsjunk:"+tokBytes(b))
			return n, nil
		}
		b, tag = payload, "wr"
	}
	if bytes.HasPrefix(b, []byte("RTSP/1.0 ")) {
		head, body := b, []byte(nil)
		if i := bytes.Index(b, []byte("\r\n\r\n")); i >= 0 {
			head, body = b[:i], b[i+4:]
		}
		lines := strings.Split(string(head), "\r\n")
		status := strings.SplitN(lines[0], " ", 3)
		code := "?"
		if len(status) > 1 {
			code = status[1]
		}
		var names []string
		cseq, transport := "", ""
		for _, l := range lines[1:] {
			i := strings.Index(l, ":")
			if i < 0 {
				names = append(names, "?")
				continue
			}
			name, val := l[:i], strings.TrimPrefix(l[i+1:], " ")
			names = append(names, name)
			switch name {
			case "CSeq":
				cseq = val
			case "Transport":
				transport = c13ServerPortRe.ReplaceAllString(val, "server_port=S")
			}
		}
		*c.ev = append(*c.ev, fmt.Sprintf(tag+":%s:%s:%s:%s:%s", code, strings.Join(names, "+"), tokBytes([]byte(cseq)), tokBytes([]byte(transport)), tokBytes(body)))
	}
	return n, nil
}
func (c *c13CmdConn) Close() error                       { return nil }
func (c *c13CmdConn) LocalAddr() net.Addr                { return fakeAddr{} }
func (c *c13CmdConn) RemoteAddr() net.Addr               { return fakeAddr{} }
func (c *c13CmdConn) SetDeadline(t time.Time) error      { return nil }
func (c *c13CmdConn) SetReadDeadline(t time.Time) error  { return nil }
func (c *c13CmdConn) SetWriteDeadline(t time.Time) error { return nil }

type c13CmdObs struct {
	ev     *[]string
	pubOk  bool
	desc   string
	playOk bool
	pub    *rtsp.PubSession
	sub    *rtsp.SubSession
}

func (o *c13CmdObs) OnNewRtspPubSession(s *rtsp.PubSession) error {
	*o.ev = append(*o.ev, "cb:pub")
	o.pub = s
	s.SetObserver(c13Observer{new([]string)})
	if !o.pubOk {
		return errors.New("refused")
	}
	return nil
}
func (o *c13CmdObs) OnNewRtspSubSessionDescribe(s *rtsp.SubSession) (bool, []byte) {
	*o.ev = append(*o.ev, "cb:desc")
	o.sub = s
	switch o.desc {
	case "deny":
		return false, nil
	case "nosdp":
		return true, nil
	}
	b := bytesTok(o.desc)
	if b == nil {
		b = []byte{}
	}
	return true, b
}
func (o *c13CmdObs) OnNewRtspSubSessionPlay(s *rtsp.SubSession) error {
	*o.ev = append(*o.ev, "cb:play")
	if !o.playOk {
		return errors.New("refused")
	}
	return nil
}

// the sockets among this process's file descriptors, by inode
func c13Sockets() map[string]bool {
	out := map[string]bool{}
	ents, err := os.ReadDir("/proc/self/fd")
	if err != nil {
		return out
	}
	for _, e := range ents {
		if l, err := os.Readlink("/proc/self/fd/" + e.Name()); err == nil && strings.HasPrefix(l, "socket:") {
			out[l] = true
		}
	}
	return out
}

func init() {
	register("c13.rtspcmd", func(a []string) string {
		before := c13Sockets()
		old := rtsp.VerifC15SetCmdWriteChanSize(0)
		defer rtsp.VerifC15SetCmdWriteChanSize(old)
		var ev []string
		in := bytesTok(a[4])
		obs := &c13CmdObs{ev: &ev, pubOk: boolTok(a[1]), desc: a[2], playOk: boolTok(a[3])}
		sess := rtsp.NewServerCommandSession(obs, &c13CmdConn{in: in, ev: &ev, ws: boolTok(a[0])}, rtsp.ServerAuthConfig{}, boolTok(a[0]), "")
		_ = sess.RunLoop()
		state := sess.VerifState()
		if obs.pub != nil {
			_ = obs.pub.Dispose()
		}
		if obs.sub != nil {
			_ = obs.sub.Dispose()
		}
		_ = sess.Dispose()
		leaked := 0
		for k := range c13Sockets() {
			if !before[k] {
				leaked++
			}
		}
		return fmt.Sprintf("ok %s %s leak:%d", c13Join(ev), state, leaked)
	})
}
