package main

// c10.cleanup <mode> <alive>: the real ServerManager.CleanupHlsIfNeeded (deferred task) over the recording layer.
//
//	alive=1: a customize publisher is attached (Group.startHlsIfNeeded ran: the hls muxer is alive) when the
//	         deferred task fires; then the publisher leaves (Dispose + a second deferred task).
//	alive=0: no group / no muxer when the task fires.
//
// output: "ops <calls while the publisher was attached> then <calls after it left>".
// Model: events N,C | D,C (alive) / C (not alive).

import (
	"fmt"
	"strings"
	"sync"
	"time"

	"github.com/q191201771/lal/pkg/hls"
	"github.com/q191201771/lal/pkg/logic"
	"github.com/q191201771/naza/pkg/filesystemlayer"
	"github.com/q191201771/naza/pkg/nazalog"
)

var (
	c10smMu sync.Mutex
	c10sms  = map[string]*logic.ServerManager{}
)

func c10ServerManager(mode int) *logic.ServerManager {
	return c10ServerManagerCfg(2, 1, 0, mode)
}

func c10ServerManagerCfg(ms, num, thr, mode int) *logic.ServerManager {
	return c10ServerManagerSw(ms, num, thr, mode, true, false)
}

// enable / enable_https: hls offered on the http port, on the https port
func c10ServerManagerSw(ms, num, thr, mode int, enable, enableHttps bool) *logic.ServerManager {
	key := fmt.Sprintf("%d:%d:%d:%d:%v:%v", ms, num, thr, mode, enable, enableHttps)
	if sm, ok := c10sms[key]; ok {
		return sm
	}
	conf := fmt.Sprintf(`{"conf_version":"v0.4.1","log":{"level":5,"filename":"","is_to_stdout":false,"is_rotate_daily":false,
"short_file_flag":false,"timestamp_flag":false,"timestamp_with_ms_flag":false,"level_flag":false,"assert_behavior":1},
"hls":{"enable":%v,"enable_https":%v,"out_path":"%s","fragment_duration_ms":%d,"fragment_num":%d,"delete_threshold":%d,"cleanup_mode":%d,
"url_pattern":"/hls/","use_memory_as_disk_flag":false,"sub_session_timeout_ms":0,"sub_session_hash_key":""}}`, enable, enableHttps, c10Root, ms, num, thr, mode)
	sm := logic.NewServerManager(func(o *logic.Option) { o.ConfRawContent = []byte(conf) })
	// the global logger was re-initialised by the configuration: keep it silent
	_ = nazalog.Init(func(o *nazalog.Option) {
		o.IsToStdout = false
		o.Level = nazalog.LevelError
	})
	c10sms[key] = sm
	return sm
}

func init() {
	register("c10.cleanup", func(a []string) string {
		c10smMu.Lock()
		defer c10smMu.Unlock()
		mode := intTok(a[0])
		alive := a[1] == "1"
		sm := c10ServerManager(mode)
		mem := filesystemlayer.NewFslMemory()
		fsl := &c10Fsl{inner: mem, closed: map[string]bool{}}
		old := hls.VerifSetFileSystemLayer(fsl)
		defer hls.VerifSetFileSystemLayer(old)
		stream := "s1"
		outPath := hls.PathStrategy.GetMuxerOutPath(c10Root, stream)
		during := -1
		wait := func() { time.Sleep(40 * time.Millisecond) } // the task is deferred by fragment_duration_ms*(fragment_num+delete_threshold) = 2 ms
		if alive {
			ctx, err := sm.AddCustomizePubSession(stream)
			if err != nil {
				return "err " + strings.ReplaceAll(err.Error(), " ", "_")
			}
			sm.CleanupHlsIfNeeded("", stream, outPath)
			wait()
			fsl.mu.Lock()
			during = len(fsl.log)
			fsl.mu.Unlock()
			sm.DelCustomizePubSession(ctx)
			wait()
		} else {
			sm.CleanupHlsIfNeeded("", stream, outPath)
			wait()
		}
		fsl.mu.Lock()
		defer fsl.mu.Unlock()
		if during < 0 {
			during = len(fsl.log)
		}
		j := func(l []string) string {
			if len(l) == 0 {
				return "-"
			}
			return strings.Join(l, ";")
		}
		return "ops " + j(fsl.log[:during]) + " then " + j(fsl.log[during:])
	})
}
