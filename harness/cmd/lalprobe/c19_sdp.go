package main

// C19, part E: sdp.Pack / ParseSdp2RawContext / ParseSdp2LogicContext on the real lal code.

import (
	"fmt"
	"reflect"
	"sort"
	"strconv"
	"strings"

	"github.com/q191201771/lal/pkg/base"
	"github.com/q191201771/lal/pkg/sdp"
)

func c19sdpZ(v int64) string {
	if v < 0 {
		return fmt.Sprintf("-0x%x", uint64(-v))
	}
	return fmt.Sprintf("0x%x", uint64(v))
}

func c19sdpZTok(s string) int {
	if strings.HasPrefix(s, "-") {
		return int(-int64(numTok(s[1:])))
	}
	return int(int64(numTok(s)))
}

func c19sdpOptTok(s string) []byte {
	if s == "nil" {
		return nil
	}
	b := bytesTok(s)
	if b == nil {
		b = []byte{}
	}
	return b
}

func c19sdpOpt(b []byte) string {
	if b == nil {
		return "nil"
	}
	return tokBytes(b)
}

// the LogicContext observables: exported fields and getters; the unexported
// origin payload types / control values are read (not written) by reflection
// and cross-checked against the exported predicates
func c19sdpCtx(ctx *sdp.LogicContext) string {
	rv := reflect.ValueOf(ctx).Elem()
	track := func(has string, rate int, pt base.AvPacketPt, orig string, ctl string, isOrig func(int) bool, hasCtl bool, setup string) string {
		o := rv.FieldByName(orig).Int()
		c := rv.FieldByName(ctl).String()
		chk := ""
		if !isOrig(int(o)) || isOrig(int(o)+1) || hasCtl != (c != "") {
			chk = "!getter-mismatch"
		}
		return fmt.Sprintf("%s,%s,%s,%s,%s,%s%s", tokBool(rv.FieldByName(has).Bool()), c19sdpZ(int64(rate)), c19sdpZ(int64(pt)),
			c19sdpZ(o), hexOf([]byte(c)), hexOf([]byte(setup)), chk)
	}
	return fmt.Sprintf("raw=%s a=%s v=%s asc=%s vps=%s sps=%s pps=%s", tokBytes(ctx.RawSdp),
		track("hasAudio", ctx.AudioClockRate, ctx.GetAudioPayloadTypeBase(), "audioPayloadTypeOrigin", "audioAControl",
			ctx.IsAudioPayloadTypeOrigin, ctx.HasAudioAControl(), ctx.MakeAudioSetupUri("X")),
		track("hasVideo", ctx.VideoClockRate, ctx.GetVideoPayloadTypeBase(), "videoPayloadTypeOrigin", "videoAControl",
			ctx.IsVideoPayloadTypeOrigin, ctx.HasVideoAControl(), ctx.MakeVideoSetupUri("X")),
		c19sdpOpt(ctx.Asc), c19sdpOpt(ctx.Vps), c19sdpOpt(ctx.Sps), c19sdpOpt(ctx.Pps))
}

func c19sdpMd(md *sdp.MediaDesc) string {
	f := "nil"
	if md.AFmtPBase != nil {
		keys := make([]string, 0, len(md.AFmtPBase.Parameters))
		for k := range md.AFmtPBase.Parameters {
			keys = append(keys, k)
		}
		sort.Strings(keys)
		kv := make([]string, len(keys))
		for i, k := range keys {
			kv[i] = hexOf([]byte(k)) + "=" + hexOf([]byte(md.AFmtPBase.Parameters[k]))
		}
		f = fmt.Sprintf("%s{%s}", c19sdpZ(int64(md.AFmtPBase.Format)), strings.Join(kv, "&"))
	}
	return fmt.Sprintf("%s/%s/%s/%s/%s/%s/%s/%s", hexOf([]byte(md.M.Media)), c19sdpZ(int64(md.M.PT)),
		c19sdpZ(int64(md.ARtpMap.PayloadType)), hexOf([]byte(md.ARtpMap.EncodingName)), c19sdpZ(int64(md.ARtpMap.ClockRate)),
		hexOf([]byte(md.ARtpMap.EncodingParameters)), f, hexOf([]byte(md.AControl.Value)))
}

func init() {
	register("c19.sdp_consts", func(a []string) string {
		pts := []base.AvPacketPt{base.AvPacketPtUnknown, base.AvPacketPtG711U, base.AvPacketPtG711A, base.AvPacketPtMp2,
			base.AvPacketPtAvc, base.AvPacketPtHevc, base.AvPacketPtAac, base.AvPacketPtOpus}
		ps := make([]string, len(pts))
		for i, p := range pts {
			ps[i] = c19sdpZ(int64(p))
		}
		if sdp.MediaDescPayloadTypeG711U != int(base.AvPacketPtG711U) || sdp.MediaDescPayloadTypeG711A != int(base.AvPacketPtG711A) ||
			sdp.MediaDescPayloadTypeMp2 != int(base.AvPacketPtMp2) {
			ps = append(ps, "!static")
		}
		names := []string{sdp.ARtpMapEncodingNameH265, sdp.ARtpMapEncodingNameH264, sdp.ARtpMapEncodingNameAac,
			sdp.ARtpMapEncodingNameG711A, sdp.ARtpMapEncodingNameG711U, sdp.ArtpMapEncodingNameOpus}
		ns := make([]string, len(names))
		for i, n := range names {
			ns[i] = hexOf([]byte(n))
		}
		return fmt.Sprintf("pt %s names %s", strings.Join(ps, ","), strings.Join(ns, ","))
	})
	register("c19.sdp_atoi", func(a []string) string {
		v, err := strconv.Atoi(string(bytesTok(a[0])))
		e := 0
		if ne, ok := err.(*strconv.NumError); ok {
			e = 1
			if ne.Err == strconv.ErrRange {
				e = 2
			}
		}
		return fmt.Sprintf("%s %s", c19sdpZ(int64(v)), tokNum(uint64(e)))
	})
	register("c19.sdp_fmtd", func(a []string) string {
		return tokBytes([]byte(fmt.Sprintf("%d", c19sdpZTok(a[0]))))
	})
	// tool vpt vps sps pps apt rate asc table(ignored: the real base64 / hex run here)
	register("c19.sdp_pack", func(a []string) string {
		return c19Safe(func() string {
			old := base.LalPackSdp
			base.LalPackSdp = string(bytesTok(a[0]))
			defer func() { base.LalPackSdp = old }()
			v := sdp.VideoInfo{VideoPt: base.AvPacketPt(c19sdpZTok(a[1])), Vps: c19sdpOptTok(a[2]), Sps: c19sdpOptTok(a[3]), Pps: c19sdpOptTok(a[4])}
			au := sdp.AudioInfo{AudioPt: base.AvPacketPt(c19sdpZTok(a[5])), SamplingFrequency: c19sdpZTok(a[6]), Asc: c19sdpOptTok(a[7])}
			ctx, err := sdp.Pack(v, au)
			if err != nil {
				return c19ErrName(err)
			}
			return "ok " + c19sdpCtx(&ctx)
		})
	})
	register("c19.sdp_parse", func(a []string) string {
		return c19Safe(func() string {
			b := bytesTok(a[0])
			raw, err := sdp.ParseSdp2RawContext(b)
			if err != nil {
				return c19ErrName(err)
			}
			mds := make([]string, len(raw.MediaDescList))
			for i := range raw.MediaDescList {
				mds[i] = c19sdpMd(&raw.MediaDescList[i])
			}
			out := fmt.Sprintf("ok %d %s | ", len(mds), strings.Join(mds, " "))
			ctx, err := sdp.ParseSdp2LogicContext(b)
			if err != nil {
				return out + c19ErrName(err)
			}
			return out + "ok " + c19sdpCtx(&ctx)
		})
	})
}
