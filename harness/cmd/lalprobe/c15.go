package main

// C15 - stalled consumer.  Real lal sessions of every subscriber kind over a
// net.Conn whose Write blocks until the test releases it, so that the queue
// occupancy of naza's connection is exact at every instant (no sleeps: every
// wait is for a condition that must become true; a watchdog turns a wait that
// does not end into the output token "stuck").

import (
	"bytes"
	"errors"
	"fmt"
	"net"
	"reflect"
	"sort"
	"strings"
	"sync"
	"sync/atomic"
	"time"
	"unsafe"

	"github.com/q191201771/lal/pkg/base"
	"github.com/q191201771/lal/pkg/httpflv"
	"github.com/q191201771/lal/pkg/httpts"
	"github.com/q191201771/lal/pkg/logic"
	"github.com/q191201771/lal/pkg/rtmp"
	"github.com/q191201771/lal/pkg/rtprtcp"
	"github.com/q191201771/lal/pkg/rtsp"
	"github.com/q191201771/lal/pkg/sdp"
	"github.com/q191201771/naza/pkg/connection"
	"github.com/q191201771/naza/pkg/nazanet"
)

// a wait that does not end within the watchdog is reported as "stuck" /
// "blocked"; after a few of those in one process the remaining cases use a
// short watchdog so that a broken tree is reported in minutes, not hours
var c15Expired int32

func c15WatchdogDur() time.Duration {
	if atomic.LoadInt32(&c15Expired) >= 3 {
		return 300 * time.Millisecond
	}
	return 3 * time.Second
}

var errC15Stuck = errors.New("stuck")

// ---------------------------------------------------------------------------
// the stalling net.Conn

type stallGrant struct {
	fail bool
	n    int
}

type stallConn struct {
	mu        sync.Mutex
	cond      *sync.Cond
	entered   int
	completed int
	blocked   bool
	grants    []stallGrant
	got       []byte
	closed    bool
	closeCh   chan struct{}
	auto      bool   // a healthy peer: every write is taken at once
	in        []byte // bytes from the player that the session has not read yet
	rdParked  bool   // the session's read loop waits in Read with nothing to read
}

func newStallConn() *stallConn {
	c := &stallConn{closeCh: make(chan struct{})}
	c.cond = sync.NewCond(&c.mu)
	return c
}

func (c *stallConn) Read(b []byte) (int, error) {
	c.mu.Lock()
	defer c.mu.Unlock()
	for len(c.in) == 0 && !c.closed {
		c.rdParked = true
		c.cond.Broadcast()
		c.cond.Wait()
	}
	c.rdParked = false
	if c.closed || len(b) == 0 {
		return 0, errors.New("closed")
	}
	n := copy(b, c.in)
	c.in = c.in[n:]
	return n, nil
}

// feed hands bytes of the player to the session and waits until its read loop
// has taken them all and waits for more - or has ended with the connection closed.
func (c *stallConn) feed(b []byte) error {
	c.mu.Lock()
	if c.closed {
		c.mu.Unlock()
		return nil
	}
	c.in = append(c.in, b...)
	c.cond.Broadcast()
	c.mu.Unlock()
	return c.waitFor(func() bool { return c.closed || (len(c.in) == 0 && c.rdParked) })
}

func (c *stallConn) Write(b []byte) (int, error) {
	c.mu.Lock()
	defer c.mu.Unlock()
	if c.auto {
		if c.closed {
			return 0, errors.New("use of closed connection")
		}
		c.got = append(c.got, b...)
		return len(b), nil
	}
	c.entered++
	c.blocked = true
	c.cond.Broadcast()
	for len(c.grants) == 0 && !c.closed {
		c.cond.Wait()
	}
	c.blocked = false
	c.completed++
	defer c.cond.Broadcast()
	if c.closed {
		return 0, errors.New("use of closed connection")
	}
	g := c.grants[0]
	c.grants = c.grants[1:]
	if g.fail {
		n := g.n
		if n > len(b) {
			n = len(b)
		}
		c.got = append(c.got, b[:n]...)
		return n, errors.New("i/o timeout")
	}
	c.got = append(c.got, b...)
	return len(b), nil
}

func (c *stallConn) Close() error {
	c.mu.Lock()
	defer c.mu.Unlock()
	if !c.closed {
		c.closed = true
		close(c.closeCh)
		c.cond.Broadcast()
	}
	return nil
}

func (c *stallConn) LocalAddr() net.Addr                { return fakeAddr{} }
func (c *stallConn) RemoteAddr() net.Addr               { return fakeAddr{} }
func (c *stallConn) SetDeadline(t time.Time) error      { return nil }
func (c *stallConn) SetReadDeadline(t time.Time) error  { return nil }
func (c *stallConn) SetWriteDeadline(t time.Time) error { return nil }

func (c *stallConn) isBlocked() bool {
	c.mu.Lock()
	defer c.mu.Unlock()
	return c.blocked
}

func (c *stallConn) isClosed() bool {
	c.mu.Lock()
	defer c.mu.Unlock()
	return c.closed
}

func (c *stallConn) received() []byte {
	c.mu.Lock()
	defer c.mu.Unlock()
	return append([]byte(nil), c.got...)
}

// waitFor waits until pred (evaluated under the lock) holds.
func (c *stallConn) waitFor(pred func() bool) error {
	done := make(chan struct{})
	var timedOut bool
	timer := time.AfterFunc(c15WatchdogDur(), func() {
		atomic.AddInt32(&c15Expired, 1)
		c.mu.Lock()
		timedOut = true
		c.cond.Broadcast()
		c.mu.Unlock()
	})
	go func() {
		c.mu.Lock()
		for !pred() && !timedOut {
			c.cond.Wait()
		}
		c.mu.Unlock()
		close(done)
	}()
	<-done
	timer.Stop()
	c.mu.Lock()
	defer c.mu.Unlock()
	if !pred() {
		return errC15Stuck
	}
	return nil
}

// ---------------------------------------------------------------------------
// one consumer = one real lal session on a stallConn

type c15Cons struct {
	kind    string                // base kind: rtmp rtmpv flv wsflv ts wsts rtp wsrtp
	setup   string                // rtsp: one letter per track (video, audio): n u t b
	att     *int64                // connection.Write / Writev calls made by the session
	cc      connection.Connection // the session's naza connection
	stat    func() uint64
	udpRecv [2]*net.UDPConn // rtsp: the player's RTP sockets (video, audio)
	udpSrv  []*nazanet.UdpConnection
	udpLal  [2][2]*net.UDPConn // rtsp: lal's sockets per track: [track][0 rtp, 1 rtcp]
	sentUdp [2]int             // datagrams sent to lal's rtp / rtcp sockets
	rdStat  func() (connRead, sessRead uint64)
	startRd func() // starts the session's read loop (as its server does after the join)
	conn    *stallConn
	owner   interface{} // struct that (transitively) holds the naza connection
	path    []string    // field path from owner to the connection.Connection
	write   func(bufs [][]byte) int
	isAlive func() bool
	dispose func()
	codes   []byte
	// rtmp kinds: buffers per accepted message, to know whether the writer
	// re-enters conn.Write after a completed one
	multi    bool
	pending  []int
	handLeft int
}

// chanLen reads len(connection.wChan) by reflection (exact while the writer
// goroutine is parked inside stallConn.Write).
func (c *c15Cons) chanLen() int {
	v := reflect.ValueOf(c.owner)
	for _, f := range c.path {
		for v.Kind() == reflect.Ptr || v.Kind() == reflect.Interface {
			v = v.Elem()
		}
		v = v.FieldByName(f)
	}
	for v.Kind() == reflect.Ptr || v.Kind() == reflect.Interface {
		v = v.Elem()
	}
	if v.Type() == reflect.TypeOf(c15CountConn{}) {
		v = v.FieldByName("Connection")
		for v.Kind() == reflect.Ptr || v.Kind() == reflect.Interface {
			v = v.Elem()
		}
	}
	ch := v.FieldByName("wChan")
	if !ch.IsValid() || ch.IsNil() {
		return 0
	}
	return ch.Len()
}

// c15CountConn sits between a session and its naza connection and counts the
// Write / Writev calls the session makes (a call on a full or closed queue
// returns at once and leaves no other trace).
type c15CountConn struct {
	connection.Connection
	n *int64
}

func (c *c15CountConn) Write(b []byte) (int, error) {
	atomic.AddInt64(c.n, 1)
	return c.Connection.Write(b)
}

func (c *c15CountConn) Writev(b net.Buffers) (int, error) {
	atomic.AddInt64(c.n, 1)
	return c.Connection.Writev(b)
}

// countWrites replaces the (unexported) connection field at the end of the
// consumer's field path by the counting wrapper.
func (c *c15Cons) countWrites() {
	v := reflect.ValueOf(c.owner)
	for _, f := range c.path {
		for v.Kind() == reflect.Ptr || v.Kind() == reflect.Interface {
			v = v.Elem()
		}
		v = v.FieldByName(f)
	}
	field := reflect.NewAt(v.Type(), unsafe.Pointer(v.UnsafeAddr())).Elem()
	inner := field.Interface().(connection.Connection)
	c.att = new(int64)
	c.cc = inner
	field.Set(reflect.ValueOf(&c15CountConn{Connection: inner, n: c.att}))
	if c.rdStat == nil {
		// http-flv / http-ts: the session's GetStat does not look at the connection
		c.rdStat = func() (uint64, uint64) { return inner.GetStat().ReadBytesSum, 0 }
	}
}

// rtsp: does a packet with this payload go to the command connection
func (c *c15Cons) tcpFor(raw []byte) bool {
	if len(raw) < 2 {
		return false
	}
	switch raw[1] & 0x7f {
	case 96:
		return c.setup[0] == 't' || c.setup[0] == 'b'
	case 97:
		return c.setup[1] == 't' || c.setup[1] == 'b'
	}
	return false
}

// one track over UDP: the player's RTP socket, and lal's RTP / RTCP sockets
// aimed at it (as rtsp.initConnWithClientPort builds them)
func (c *c15Cons) udpTrack(i int) (rtp, rtcp *nazanet.UdpConnection) {
	recv, err := net.ListenUDP("udp4", &net.UDPAddr{IP: net.IPv4(127, 0, 0, 1)})
	if err != nil {
		panic("c15 udp listen: " + err.Error())
	}
	c.udpRecv[i] = recv
	mk := func(k int) *nazanet.UdpConnection {
		lc, err := net.ListenUDP("udp4", &net.UDPAddr{IP: net.IPv4(127, 0, 0, 1)})
		if err != nil {
			panic("c15 udp listen: " + err.Error())
		}
		c.udpLal[i][k] = lc
		u, err := nazanet.NewUdpConnection(func(o *nazanet.UdpConnectionOption) {
			o.Conn = lc
			o.RAddr = recv.LocalAddr().String()
			o.MaxReadPacketSize = 1500
		})
		if err != nil {
			panic("c15 udp conn: " + err.Error())
		}
		c.udpSrv = append(c.udpSrv, u)
		return u
	}
	return mk(0), mk(1)
}

// datagrams received so far on one of the player's sockets.  A sentinel the
// socket sends to itself marks the end: everything sent before is in front.
func c15Datagrams(u *net.UDPConn) string {
	if u == nil {
		return "-"
	}
	sentinel := []byte("c15-end-of-datagrams")
	if _, err := u.WriteToUDP(sentinel, u.LocalAddr().(*net.UDPAddr)); err != nil {
		return "udp-err"
	}
	_ = u.SetReadDeadline(time.Now().Add(c15WatchdogDur()))
	buf := make([]byte, 65536)
	var parts []string
	for {
		n, _, err := u.ReadFromUDP(buf)
		if err != nil {
			return "udp-stuck"
		}
		if bytes.Equal(buf[:n], sentinel) {
			break
		}
		parts = append(parts, tokBytes(buf[:n]))
	}
	if len(parts) == 0 {
		return "-"
	}
	return strings.Join(parts, ",")
}

const c15Sdp = "v=0\r\no=- 0 0 IN IP4 127.0.0.1\r\ns=No Name\r\nc=IN IP4 127.0.0.1\r\nt=0 0\r\n" +
	"m=video 0 RTP/AVP 96\r\na=rtpmap:96 H264/90000\r\n" +
	"a=fmtp:96 packetization-mode=1; sprop-parameter-sets=Z2QAIKzZQMApsBEAAAMAAQAAAwAyDxgxlg==,aOvssiw=; profile-level-id=640020\r\n" +
	"a=control:streamid=0\r\n" +
	"m=audio 0 RTP/AVP 97\r\na=rtpmap:97 MPEG4-GENERIC/44100/2\r\n" +
	"a=fmtp:97 profile-level-id=1;mode=AAC-hbr;sizelength=13;indexlength=3;indexdeltalength=3; config=1210\r\n" +
	"a=control:streamid=1\r\n"

func joinBufs(bufs [][]byte) []byte {
	var out []byte
	for _, b := range bufs {
		out = append(out, b...)
	}
	return out
}

func newC15Cons(spec string, capacity int) *c15Cons {
	kind, setup := spec, "tt"
	if i := strings.IndexByte(spec, '.'); i >= 0 {
		kind, setup = spec[:i], spec[i+1:]
		if (kind != "rtp" && kind != "wsrtp") || len(setup) != 2 || strings.Trim(setup, "nutb") != "" {
			panic("c15: bad consumer " + spec)
		}
	}
	c := &c15Cons{kind: kind, setup: setup, conn: newStallConn()}
	defer func() {
		if c.owner != nil {
			c.countWrites()
			if c.startRd != nil {
				c.startRd()
				_ = c.conn.waitFor(func() bool { return c.conn.rdParked || c.conn.closed })
			}
		}
	}()
	switch kind {
	case "rtmp", "rtmpv":
		old := rtmp.VerifC15SetWChanSize(capacity)
		s := rtmp.NewServerSession(nil, c.conn)
		s.VerifC15BecomeSub()
		rtmp.VerifC15SetWChanSize(old)
		c.owner, c.path = s, []string{"conn"}
		c.multi = true
		c.startRd = func() { go func() { _ = s.VerifC15RunReadLoop() }() }
		c.rdStat = func() (uint64, uint64) { return s.GetStat().ReadBytesSum, 0 }
		code := func(err error) int {
			switch err {
			case nil:
				return 1
			case connection.ErrWriteChanFull:
				return 2
			case connection.ErrClosedAlready:
				return 3
			}
			return 9
		}
		if kind == "rtmp" {
			c.write = func(bufs [][]byte) int {
				r := code(s.Write(joinBufs(bufs)))
				if r == 1 {
					c.pending = append(c.pending, 1)
				}
				return r
			}
		} else {
			c.write = func(bufs [][]byte) int {
				nb := make(net.Buffers, len(bufs))
				copy(nb, bufs)
				r := code(s.Writev(nb))
				if r == 1 {
					c.pending = append(c.pending, len(bufs))
				}
				return r
			}
		}
		c.isAlive = func() bool { _, w := s.IsAlive(); return w }
		c.dispose = func() { _ = s.Dispose() }
	case "flv", "wsflv":
		old := httpflv.SubSessionWriteChanSize
		httpflv.SubSessionWriteChanSize = capacity
		s := httpflv.NewSubSession(c.conn, base.UrlContext{}, kind == "wsflv", "key")
		httpflv.SubSessionWriteChanSize = old
		c.owner, c.path = s, []string{"core", "conn"}
		c.write = func(bufs [][]byte) int { s.Write(joinBufs(bufs)); return 0 }
		c.isAlive = func() bool { _, w := s.IsAlive(); return w }
		c.dispose = func() { _ = s.Dispose() }
		// logic.HttpServerHandler.ServeSubSession: RunLoop, then (OnDel and) Dispose
		c.startRd = func() { go func() { _ = s.RunLoop(); _ = s.Dispose() }() }
	case "ts", "wsts":
		old := httpts.SubSessionWriteChanSize
		httpts.SubSessionWriteChanSize = capacity
		s := httpts.NewSubSession(c.conn, base.UrlContext{}, kind == "wsts", "key")
		httpts.SubSessionWriteChanSize = old
		c.owner, c.path = s, []string{"core", "conn"}
		c.write = func(bufs [][]byte) int { s.Write(joinBufs(bufs)); return 0 }
		c.isAlive = func() bool { _, w := s.IsAlive(); return w }
		c.dispose = func() { _ = s.Dispose() }
		c.startRd = func() { go func() { _ = s.RunLoop(); _ = s.Dispose() }() }
	case "rtp", "wsrtp":
		old := rtsp.VerifC15SetCmdWriteChanSize(capacity)
		cmd := rtsp.NewServerCommandSession(nil, c.conn, rtsp.ServerAuthConfig{}, kind == "wsrtp", "key")
		rtsp.VerifC15SetCmdWriteChanSize(old)
		sub := rtsp.NewSubSession(base.UrlContext{}, cmd)
		ctx, err := sdp.ParseSdp2LogicContext([]byte(c15Sdp))
		if err != nil {
			panic("c15 sdp: " + err.Error())
		}
		sub.InitWithSdp(ctx)
		// SETUP, per track: nothing, UDP sockets, an interleaved channel pair, or both
		for i, uri := range []string{"rtsp://h/live/s/streamid=0", "rtsp://h/live/s/streamid=1"} {
			if setup[i] == 'u' || setup[i] == 'b' {
				rtp, rtcp := c.udpTrack(i)
				if err := sub.SetupWithConn(uri, rtp, rtcp); err != nil {
					panic("c15 setup udp")
				}
			}
			if setup[i] == 't' || setup[i] == 'b' {
				if err := sub.SetupWithChannel(uri, 2*i, 2*i+1); err != nil {
					panic("c15 setup channel")
				}
			}
		}
		sub.Stage.Store(rtsp.SubSessionStageReadPlay)
		c.owner, c.path = sub, []string{"cmdSession", "conn"}
		c.write = func(bufs [][]byte) int {
			raw := joinBufs(bufs)
			var h rtprtcp.RtpHeader
			if len(raw) >= 2 {
				h.PacketType = raw[1] & 0x7f
			} else {
				h.PacketType = 0xff
			}
			sub.WriteRtpPacket(rtprtcp.RtpPacket{Header: h, Raw: raw})
			if !c.tcpFor(raw) {
				return -1 // nothing was handed to the command connection
			}
			return 0
		}
		c.stat = func() uint64 { return sub.GetStat().WroteBytesSum }
		// the command session's read loop must find its sub session (the field DESCRIBE sets);
		// rtsp.Server.handleTcpConnect: RunLoop, then (OnDel and) Dispose of the sub session
		c15SetField(cmd, "subSession", sub)
		c.startRd = func() { go func() { _ = cmd.RunLoop(); _ = sub.Dispose() }() }
		c.rdStat = func() (uint64, uint64) { return cmd.GetStat().ReadBytesSum, sub.GetStat().ReadBytesSum }
		c.isAlive = func() bool { _, w := sub.IsAlive(); return w }
		c.dispose = func() { _ = sub.Dispose() }
	default:
		panic("c15: unknown kind " + kind)
	}
	return c
}

// sessWrite performs one session-level write and waits until the writer
// goroutine is parked again.
func (c *c15Cons) sessWrite(bufs [][]byte) error {
	wasBlocked := c.conn.isBlocked()
	wasClosed := c.conn.isClosed()
	res := make(chan int, 1)
	go func() { res <- c.write(bufs) }()
	var r int
	select {
	case r = <-res:
	case <-time.After(c15WatchdogDur()):
		atomic.AddInt32(&c15Expired, 1)
		return errors.New("blocked")
	}
	if r >= 0 && r != 0 {
		c.codes = append(c.codes, byte('0'+r))
	} else {
		c.codes = append(c.codes, '0')
	}
	if wasClosed || wasBlocked || r < 0 || r == 2 || r == 3 {
		return nil
	}
	// the writer was idle and something was accepted: it must enter conn.Write
	return c.awaitEntry()
}

func (c *c15Cons) awaitEntry() error {
	err := c.conn.waitFor(func() bool { return c.conn.blocked || c.conn.closed })
	if err == nil && c.multi && len(c.pending) > 0 {
		c.handLeft = c.pending[0]
		c.pending = c.pending[1:]
	}
	return err
}

func (c *c15Cons) settleAfterPublish(wasBlocked, wasClosed bool) error {
	if wasClosed || wasBlocked {
		return nil
	}
	return c.awaitEntry()
}

// release1 lets the blocked conn.Write (if any) return successfully.
func (c *c15Cons) release1() error {
	if !c.conn.isBlocked() {
		return nil
	}
	q := c.chanLen()
	reenter := q > 0
	popNext := q > 0
	if c.multi {
		c.handLeft--
		if c.handLeft > 0 {
			reenter, popNext = true, false
		}
	}
	c.conn.mu.Lock()
	e0, c0 := c.conn.entered, c.conn.completed
	c.conn.grants = append(c.conn.grants, stallGrant{})
	c.conn.cond.Broadcast()
	c.conn.mu.Unlock()
	if err := c.conn.waitFor(func() bool { return c.conn.completed > c0 }); err != nil {
		return err
	}
	if reenter {
		if err := c.conn.waitFor(func() bool { return c.conn.entered > e0 && c.conn.blocked || c.conn.closed }); err != nil {
			return err
		}
		if popNext && c.multi && len(c.pending) > 0 {
			c.handLeft = c.pending[0]
			c.pending = c.pending[1:]
		}
	}
	return nil
}

// fail lets the blocked conn.Write return (n, error).
func (c *c15Cons) fail(n int) error {
	if !c.conn.isBlocked() {
		return nil
	}
	c.conn.mu.Lock()
	c.conn.grants = append(c.conn.grants, stallGrant{fail: true, n: n})
	c.conn.cond.Broadcast()
	c.conn.mu.Unlock()
	err := c.conn.waitFor(func() bool { return c.conn.closed && !c.conn.blocked })
	if err == nil && (c.kind == "rtp" || c.kind == "wsrtp") {
		// the command connection closed itself: rtsp.Server.handleTcpConnect leaves RunLoop
		// and disposes the sub session (which closes its UDP sockets)
		c.dispose()
	}
	return err
}

func (c *c15Cons) disposeAndSettle() error {
	c.dispose()
	return c.conn.waitFor(func() bool { return c.conn.closed && !c.conn.blocked })
}

func (c *c15Cons) drain() error {
	for i := 0; i < 1<<20; i++ {
		if !c.conn.isBlocked() || c.conn.isClosed() {
			return nil
		}
		if err := c.release1(); err != nil {
			return err
		}
	}
	return errC15Stuck
}

func (c *c15Cons) cleanup() {
	c.dispose()
	_ = c.conn.Close()
	for _, u := range c.udpSrv {
		_ = u.Dispose()
	}
	for _, u := range c.udpRecv {
		if u != nil {
			_ = u.Close()
		}
	}
}

// 7th output field: connection write calls; rtsp kinds also the session's own
// byte counter (what the liveness sweep compares) and the datagrams each of the
// player's UDP sockets received
func (c *c15Cons) extra() string {
	att := tokNum(uint64(atomic.LoadInt64(c.att)))
	crd, srd := c.rdStat()
	if c.kind != "rtp" && c.kind != "wsrtp" {
		return att + "/" + tokNum(crd)
	}
	return fmt.Sprintf("%s/%s/%s/%s/%s/%s", att, tokNum(c.stat()), c15Datagrams(c.udpRecv[0]), c15Datagrams(c.udpRecv[1]), tokNum(crd), tokNum(srd))
}

// report: codes;pre;q;h;state;wire
func c15Report(cs []*c15Cons, norm func([]byte) []byte) (string, error) {
	type snap struct {
		pre, q, h int
	}
	snaps := make([]snap, len(cs))
	extras := make([]string, len(cs))
	for i, c := range cs {
		extras[i] = c.extra()
		s := snap{pre: len(norm(c.conn.received()))}
		if c.conn.isBlocked() {
			s.h = 1
			s.q = c.chanLen()
		} else if !c.conn.isClosed() {
			s.q = c.chanLen()
		} else {
			s.q = c.chanLen()
		}
		snaps[i] = s
	}
	var parts []string
	for i, c := range cs {
		if err := c.drain(); err != nil {
			return "", err
		}
		st := "o"
		if c.conn.isClosed() {
			st = "c"
		}
		codes := string(c.codes)
		if codes == "" {
			codes = "-"
		}
		parts = append(parts, fmt.Sprintf("%s;%s;%s;%d;%s;%s;%s", codes, tokNum(uint64(snaps[i].pre)), tokNum(uint64(snaps[i].q)),
			snaps[i].h, st, tokBytes(norm(c.conn.received())), extras[i]))
	}
	return strings.Join(parts, " "), nil
}

func c15ParseBufs(tok string) [][]byte {
	var out [][]byte
	for _, p := range strings.Split(tok, "|") {
		out = append(out, bytesTok(p))
	}
	return out
}

func c15Ident(b []byte) []byte { return b }

// c15.run <kind:cap,kind:cap,...> <op,op,...>
//
//	p<buf>|<buf>  publish one unit to every consumer (fan-out order = index order)
//	r<i>.<n>      consumer i reads: n blocked writes are released one after the other
//	f<i>.<n>      the blocked write of consumer i fails after n bytes (write deadline)
//	d<i>          dispose consumer i
//	s             liveness sweep: IsAlive on every consumer, dispose when write-alive is false
func c15Run(a []string) string {
	var cs []*c15Cons
	defer func() {
		for _, c := range cs {
			c.cleanup()
		}
	}()
	for _, kc := range strings.Split(a[0], ",") {
		f := strings.Split(kc, ":")
		capacity := intTok(f[1])
		if capacity < 1 {
			return "bad-args"
		}
		cs = append(cs, newC15Cons(f[0], capacity))
	}
	if a[1] != "-" {
		for k, op := range strings.Split(a[1], ",") {
			var err error
			switch op[0] {
			case 'p':
				bufs := c15ParseBufs(op[1:])
				for _, c := range cs {
					if err = c.sessWrite(bufs); err != nil {
						break
					}
				}
			case 'r', 'f':
				f := strings.Split(op[1:], ".")
				i, n := intTok(f[0]), intTok(f[1])
				if i >= len(cs) {
					continue
				}
				if op[0] == 'f' {
					err = cs[i].fail(n)
				} else {
					for j := 0; j < n && err == nil; j++ {
						err = cs[i].release1()
					}
				}
			case 'd':
				i := intTok(op[1:])
				if i < len(cs) {
					err = cs[i].disposeAndSettle()
				}
			case 'i':
				err = c15Inbound(cs, op[1:])
			case 's':
				for _, c := range cs {
					if !c.isAlive() {
						if err = c.disposeAndSettle(); err != nil {
							break
						}
					}
				}
			default:
				return "bad-args"
			}
			if err != nil {
				return fmt.Sprintf("%s@op%d", err.Error(), k)
			}
		}
	}
	out, err := c15Report(cs, c15Ident)
	if err != nil {
		return err.Error() + "@drain"
	}
	return out
}

// ---------------------------------------------------------------------------
// the same through a real logic.Group: fan-out by broadcastByRtmpMsg under the
// group mutex, sweep by Group.Tick -> disposeInactiveSessions.

type c15GroupObserver struct{}

func (c15GroupObserver) CleanupHlsIfNeeded(appName string, streamName string, path string) {}
func (c15GroupObserver) OnHlsMakeTs(info base.HlsMakeTsInfo)                               {}
func (c15GroupObserver) OnRelayPullStart(info base.PullStartInfo)                          {}
func (c15GroupObserver) OnRelayPullStop(info base.PullStopInfo)                            {}

// the HTTP response header block (plain or WebSocket upgrade) is replaced by
// the single byte 'H': its text is lal's business, its position is ours
func c15NormHttp(b []byte) []byte {
	if bytes.HasPrefix(b, []byte("HTTP/1.1")) {
		if i := bytes.Index(b, []byte("\r\n\r\n")); i >= 0 {
			return append([]byte{'H'}, b[i+4:]...)
		}
	}
	return b
}

// c15.group <cap> <subs: string of f|w|r> <op,op,...>
//
//	p<type>:<ts>:<payload>   Group.OnReadRtmpAvMsg
//	r<i>.<n>  d<i>           as in c15.run
//	s                        Group.Tick(120*k)
func c15Group(a []string) string {
	capacity := intTok(a[0])
	if capacity < 1 {
		return "bad-args"
	}
	cfg := &logic.Config{}
	cfg.RtmpConfig.Enable = true
	cfg.HttpflvConfig.Enable = true
	g := logic.NewGroup("live", "c15", cfg, logic.GroupOption{}, c15GroupObserver{})
	var cs []*c15Cons
	defer func() {
		for _, c := range cs {
			c.cleanup()
		}
		c15DetachInput(g)
	}()
	for _, ch := range a[1] {
		var c *c15Cons
		switch ch {
		case 'f', 'w':
			kind := "flv"
			if ch == 'w' {
				kind = "wsflv"
			}
			c = newC15Cons(kind, capacity)
			wasBlocked := false
			done := make(chan struct{})
			go func() { g.AddHttpflvSubSession(c.owner.(*httpflv.SubSession)); close(done) }()
			select {
			case <-done:
			case <-time.After(c15WatchdogDur()):
				atomic.AddInt32(&c15Expired, 1)
				return "blocked@add"
			}
			if err := c.settleAfterPublish(wasBlocked, false); err != nil {
				return "stuck@add"
			}
		case 'r':
			c = newC15Cons("rtmp", capacity)
			c.multi = false // one single-buffer message per publish
			g.AddRtmpSubSession(c.owner.(*rtmp.ServerSession))
		default:
			return "bad-args"
		}
		cs = append(cs, c)
	}
	tick := uint32(0)
	if a[2] != "-" {
		for k, op := range strings.Split(a[2], ",") {
			var err error
			switch op[0] {
			case 'p':
				f := strings.Split(op[1:], ":")
				payload := bytesTok(f[2])
				var msg base.RtmpMsg
				msg.Header.MsgTypeId = uint8(numTok(f[0]))
				msg.Header.TimestampAbs = uint32(numTok(f[1]))
				msg.Header.MsgLen = uint32(len(payload))
				msg.Header.MsgStreamId = 1
				msg.Payload = payload
				wasB := make([]bool, len(cs))
				wasC := make([]bool, len(cs))
				for i, c := range cs {
					wasB[i], wasC[i] = c.conn.isBlocked(), c.conn.isClosed()
				}
				done := make(chan struct{})
				go func() { g.OnReadRtmpAvMsg(msg); close(done) }()
				select {
				case <-done:
				case <-time.After(c15WatchdogDur()):
					atomic.AddInt32(&c15Expired, 1)
					return fmt.Sprintf("blocked@op%d", k)
				}
				for i, c := range cs {
					if err = c.settleAfterPublish(wasB[i], wasC[i]); err != nil {
						break
					}
				}
			case 'r':
				f := strings.Split(op[1:], ".")
				i, n := intTok(f[0]), intTok(f[1])
				if i >= len(cs) {
					continue
				}
				for j := 0; j < n && err == nil; j++ {
					err = cs[i].release1()
				}
			case 'd':
				i := intTok(op[1:])
				if i < len(cs) {
					err = cs[i].disposeAndSettle()
				}
			case 'I':
				err = c15AttachInput(g, op[1:])
			case 'i':
				err = c15Inbound(cs, op[1:])
			case 's':
				tick += 120
				done := make(chan struct{})
				go func() { g.Tick(tick); close(done) }()
				select {
				case <-done:
				case <-time.After(c15WatchdogDur()):
					atomic.AddInt32(&c15Expired, 1)
					return fmt.Sprintf("blocked@op%d", k)
				}
				for _, c := range cs {
					if c.conn.isClosed() {
						if err = c.conn.waitFor(func() bool { return !c.conn.blocked }); err != nil {
							break
						}
					}
				}
			default:
				return "bad-args"
			}
			if err != nil {
				return fmt.Sprintf("%s@op%d", err.Error(), k)
			}
		}
	}
	out, err := c15Report(cs, c15NormHttp)
	if err != nil {
		return err.Error() + "@drain"
	}
	return out
}

// c15.consts : the values of the pinned constants the theorems are parametric in
func c15Consts(a []string) string {
	rt := rtmp.VerifC15SetWChanSize(1)
	rtmp.VerifC15SetWChanSize(rt)
	rto := rtmp.VerifC15SetWriteAvTimeoutMs(1)
	rtmp.VerifC15SetWriteAvTimeoutMs(rto)
	rs := rtsp.VerifC15SetCmdWriteChanSize(1)
	rtsp.VerifC15SetCmdWriteChanSize(rs)
	// the write-channel-full behaviour a default connection gets
	probe := connection.New(newStallConn(), func(o *connection.Option) { o.WriteChanSize = 1 })
	beh := reflect.ValueOf(probe).Elem().FieldByName("option").FieldByName("WriteChanFullBehavior").Int()
	_ = probe.Close()
	kv := map[string]uint64{
		"rtmp_chan": uint64(rt), "rtmp_wto": uint64(rto), "rtsp_chan": uint64(rs),
		"flv_chan": 1024, "flv_wto": uint64(httpflv.SubSessionWriteTimeoutMs),
		"ts_chan": uint64(c15TsChanDefault), "ts_wto": uint64(httpts.SubSessionWriteTimeoutMs),
		"sweep_sec": uint64(base.LogicCheckSessionAliveIntervalSec), "full_behavior": uint64(beh),
	}
	// httpflv.SubSessionWriteChanSize is zeroed by the C11 ops of this process; report the source default
	kv["flv_chan"] = uint64(c15FlvChanDefault)
	var keys []string
	for k := range kv {
		keys = append(keys, k)
	}
	sort.Strings(keys)
	var parts []string
	for _, k := range keys {
		parts = append(parts, k+"="+tokNum(kv[k]))
	}
	return strings.Join(parts, " ")
}

// captured before any init() of this package changes it (package-level
// variable initialisation runs before init functions)
var c15FlvChanDefault = httpflv.SubSessionWriteChanSize
var c15TsChanDefault = httpts.SubSessionWriteChanSize

func init() {
	register("c15.run", c15Run)
	register("c15.group", c15Group)
	register("c15.consts", c15Consts)
}
