package main

// C15, fourth part:
//   I<kind> op of c15.group / c15.rgroup: the kind of INPUT the group has while
//           its subscribers are swept (p0 / p<ms>: GB28181 ps pub started with
//           timeout_ms 0 / <ms>; c: customize pub)
//   c15.fresh  a FRESH player of every kind that is stalled from its very first
//           byte joins a real Group with a GOP cache in mid-stream while the
//           publisher keeps sending; a reading twin joined at the start

import (
	"fmt"
	"strings"
	"sync/atomic"
	"time"

	"github.com/q191201771/lal/pkg/base"
	"github.com/q191201771/lal/pkg/httpflv"
	"github.com/q191201771/lal/pkg/httpts"
	"github.com/q191201771/lal/pkg/logic"
	"github.com/q191201771/lal/pkg/rtmp"
	"github.com/q191201771/lal/pkg/rtsp"
)

func c15AttachInput(g *logic.Group, what string) error {
	switch what[0] {
	case 'p':
		resp := g.StartRtpPub(base.ApiCtrlStartRtpPubReq{StreamName: "c15", Port: 0, TimeoutMs: intTok(what[1:]), IsTcpFlag: 0})
		if resp.ErrorCode != base.ErrorCodeSucc {
			return fmt.Errorf("input-ps:%s", resp.Desp)
		}
	case 'c':
		if _, err := g.AddCustomizePubSession("c15"); err != nil {
			return fmt.Errorf("input-customize")
		}
	default:
		return fmt.Errorf("bad-input")
	}
	return nil
}

// c15DetachInput ends a ps pub (it owns a UDP port and a goroutine).
func c15DetachInput(g *logic.Group) {
	st := g.GetStat(0)
	if st.StatPub.SessionId != "" && st.StatPub.Protocol == base.SessionProtocolPsStr {
		g.KickSession(st.StatPub.SessionId)
	}
}

var c15AvcSeqHeader = []byte{0x17, 0, 0, 0, 0, 1, 100, 0, 31, 255, 225, 0, 10, 39, 100, 0, 31, 172, 86, 128, 180, 10, 25, 1, 0, 4, 40, 238, 60, 176}
var c15AacSeqHeader = []byte{0xaf, 0, 0x12, 0x10}

// the k-th message of the publisher: sequence headers, then video (a key frame every 4th) and audio
func c15FreshMsg(k int) base.RtmpMsg {
	var m base.RtmpMsg
	m.Header.MsgStreamId = 1
	switch {
	case k == 0:
		m.Header.MsgTypeId, m.Payload = base.RtmpTypeIdVideo, c15AvcSeqHeader
	case k == 1:
		m.Header.MsgTypeId, m.Payload = base.RtmpTypeIdAudio, c15AacSeqHeader
	case k%3 == 0:
		m.Header.MsgTypeId = base.RtmpTypeIdAudio
		m.Payload = []byte{0xaf, 1, 0x21, 0x10, 0x04, 0x60, 0x8c, byte(k)}
	case (k/3)%4 == 0 && k%3 == 1:
		m.Header.MsgTypeId = base.RtmpTypeIdVideo
		m.Payload = append([]byte{0x17, 1, 0, 0, 0, 0, 0, 0, 6, 0x65, 0x88, 0x84, 0, byte(k), 0x80}, make([]byte, 40)...)
		m.Payload[8] = byte(len(m.Payload) - 9)
	default:
		m.Header.MsgTypeId = base.RtmpTypeIdVideo
		m.Payload = []byte{0x27, 1, 0, 0, 0, 0, 0, 0, 5, 0x41, 0x9a, 0, byte(k), 0x80}
	}
	m.Header.TimestampAbs = uint32(k * 20)
	m.Header.MsgLen = uint32(len(m.Payload))
	return m
}

func c15JoinGroup(g *logic.Group, c *c15Cons) {
	switch s := c.owner.(type) {
	case *rtmp.ServerSession:
		g.AddRtmpSubSession(s)
	case *httpflv.SubSession:
		g.AddHttpflvSubSession(s)
	case *httpts.SubSession:
		g.AddHttptsSubSession(s)
	case *rtsp.SubSession:
		g.HandleNewRtspSubSessionDescribe(s)
		g.HandleNewRtspSubSessionPlay(s)
	}
}

// c15.fresh <gop> <kind> <cap> <npre> <npost>
func c15Fresh(a []string) string {
	gop, kind, capacity, npre, npost := intTok(a[0]), a[1], intTok(a[2]), intTok(a[3]), intTok(a[4])
	cfg := &logic.Config{}
	cfg.RtmpConfig.Enable, cfg.RtmpConfig.GopNum = true, gop
	cfg.HttpflvConfig.Enable, cfg.HttpflvConfig.GopNum = true, gop
	cfg.HttptsConfig.Enable, cfg.HttptsConfig.GopNum = true, gop
	cfg.RtspConfig.Enable = true
	g := logic.NewGroup("live", "c15f", cfg, logic.GroupOption{}, c15GroupObserver{})
	// an input must be attached for the remuxers (rtmp -> rtsp, rtmp -> mpegts) to exist: a customize pub,
	// whose messages enter through OnReadRtmpAvMsg
	if _, err := g.AddCustomizePubSession("c15f"); err != nil {
		return "no-input"
	}
	guarded := func(f func()) bool {
		done := make(chan struct{})
		go func() { f(); close(done) }()
		select {
		case <-done:
			return true
		case <-time.After(c15WatchdogDur()):
			atomic.AddInt32(&c15Expired, 1)
			return false
		}
	}
	healthy := newC15Cons(kind, 1024)
	healthy.conn.mu.Lock()
	healthy.conn.auto = true
	healthy.conn.mu.Unlock()
	defer healthy.cleanup()
	if !guarded(func() { c15JoinGroup(g, healthy) }) {
		return "blocked@join-healthy"
	}
	k := 0
	for ; k < npre; k++ {
		m := c15FreshMsg(k)
		if !guarded(func() { g.OnReadRtmpAvMsg(m) }) {
			return fmt.Sprintf("blocked@pre%d", k)
		}
	}
	stalled := newC15Cons(kind, capacity) // nobody ever grants a write: stalled from its first byte
	defer stalled.cleanup()
	if !guarded(func() { c15JoinGroup(g, stalled) }) {
		return "blocked@join-fresh"
	}
	for ; k < npre+npost; k++ {
		m := c15FreshMsg(k)
		if !guarded(func() { g.OnReadRtmpAvMsg(m) }) {
			return fmt.Sprintf("blocked@post%d", k-npre)
		}
	}
	// the writer goroutine of the healthy twin may still hold the last messages: a flush goes through the same queue
	if !guarded(func() { _ = healthy.cc.Flush() }) {
		return "blocked@flush-healthy"
	}
	hw := c15NormHttp(healthy.conn.received())
	hst, sst := "o", "o"
	if healthy.conn.isClosed() {
		hst = "c"
	}
	if stalled.conn.isClosed() {
		sst = "c"
	}
	h := 0
	if stalled.conn.isBlocked() {
		h = 1
	}
	return fmt.Sprintf("pub=ok healthy=%s;%s stalled=%s;%s;%d;%s", hst, tokBytes(hw), sst, tokNum(uint64(stalled.chanLen())), h,
		tokNum(uint64(atomic.LoadInt64(stalled.att))))
}

var _ = strings.Split

func init() {
	register("c15.fresh", c15Fresh)
}
