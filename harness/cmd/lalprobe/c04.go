package main

// C04: the RTMP server session on arbitrary bytes.
//
//	c04.sess <policy>[t][@<recvLastAck>:<seqNum>] <ver>.<hack> <bytes>
//
// policy A / R / N: what the observer answers; t: the log level is "trace"
// (lalserver: "log": {"level": 0}) while the case runs; @a:s: the session's
// acknowledgement bookkeeping is preset before it starts.
//
// runs rtmp.NewServerSession(observer, conn).RunLoop() under recover in this
// goroutine, then the same input once more through Server.handleTcpConnect
// (the shell that reports the end of a pub/sub session to the upper layer).

import (
	"errors"
	"fmt"
	"github.com/q191201771/naza/pkg/nazalog"
	"io"
	"net"
	"os"
	"runtime"
	"strconv"
	"strings"
	"sync"
	"time"

	"github.com/q191201771/lal/pkg/base"
	"github.com/q191201771/lal/pkg/rtmp"
)

// c04Conn hands the input out one byte per Read (the handshake in bulk) and reports io.EOF afterwards.
// Before every Read it drains the session's write queue (ServerSession.Flush),
// so that the replies queued for the asynchronous writer (which exists once the
// session became a publisher or subscriber) are on record before more input is
// consumed.
type c04Conn struct {
	mu       sync.Mutex
	in       []byte
	writes   [][]byte
	keepAt   int // number of writes on record when the last Read started (after the drain)
	closed   bool
	beforeRd func()
	hitEOF   bool
	pos      int
}

func (c *c04Conn) Read(b []byte) (int, error) {
	if c.beforeRd != nil {
		c.beforeRd()
	}
	c.mu.Lock()
	defer c.mu.Unlock()
	c.keepAt = len(c.writes)
	if len(b) == 0 {
		return 0, nil
	}
	if len(c.in) == 0 {
		c.hitEOF = true
		return 0, io.EOF
	}
	// the handshake (3073 bytes, nothing is queued yet) may arrive in bulk; afterwards one byte per Read
	n := 1
	if c.pos < 3073 {
		n = 3073 - c.pos
		if n > len(b) {
			n = len(b)
		}
		if n > len(c.in) {
			n = len(c.in)
		}
	}
	copy(b, c.in[:n])
	c.in = c.in[n:]
	c.pos += n
	return n, nil
}

func (c *c04Conn) Write(b []byte) (int, error) {
	c.mu.Lock()
	defer c.mu.Unlock()
	if c.closed {
		return 0, io.ErrClosedPipe
	}
	cp := make([]byte, len(b))
	copy(cp, b)
	c.writes = append(c.writes, cp)
	return len(b), nil
}

func (c *c04Conn) Close() error {
	c.mu.Lock()
	c.closed = true
	c.mu.Unlock()
	return nil
}

func (c *c04Conn) numWrites() int {
	c.mu.Lock()
	defer c.mu.Unlock()
	return len(c.writes)
}

func (c *c04Conn) LocalAddr() net.Addr                { return fakeAddr{} }
func (c *c04Conn) RemoteAddr() net.Addr               { return fakeAddr{} }
func (c *c04Conn) SetDeadline(t time.Time) error      { return nil }
func (c *c04Conn) SetReadDeadline(t time.Time) error  { return nil }
func (c *c04Conn) SetWriteDeadline(t time.Time) error { return nil }

var errC04Reject = errors.New("c04: observer rejects the session")

type c04Av struct{ ev *[]string }

func c04Str(b []byte) string {
	if len(b) == 0 {
		return "-"
	}
	if len(b) <= 64 {
		return hexOf(b)
	}
	return fmt.Sprintf("#%d.%016x", len(b), fnv1a64(b))
}

func (a c04Av) OnReadRtmpAvMsg(msg base.RtmpMsg) {
	h := msg.Header
	*a.ev = append(*a.ev, fmt.Sprintf("av:%s:%s:%s:%s:%s:%s", tokNum(uint64(h.Csid)), tokNum(uint64(h.MsgLen)),
		tokNum(uint64(h.MsgTypeId)), tokNum(uint64(uint32(h.MsgStreamId))), tokNum(uint64(h.TimestampAbs)), c04Str(msg.Payload)))
}

// c04Obs is both rtmp.IServerSessionObserver and rtmp.IServerObserver.
type c04Obs struct {
	policy  byte // 'A' accept and install the av observer, 'R' reject, 'N' accept without installing
	ev      []string
	conn    *c04Conn
	keepNew int // writes on record when OnNew* was called (all of them synchronous)
}

func (o *c04Obs) OnRtmpConnect(s *rtmp.ServerSession, opa rtmp.ObjectPairArray) {
	o.ev = append(o.ev, fmt.Sprintf("conn:%s:%s", tokNum(uint64(len(opa))), c04Str([]byte(s.AppName()))))
}

func (o *c04Obs) onNew(kind string, s *rtmp.ServerSession) error {
	o.keepNew = o.conn.numWrites()
	o.conn.beforeRd = func() { _ = s.Flush() }
	verdict := "a"
	if o.policy == 'R' {
		verdict = "r"
	}
	o.ev = append(o.ev, fmt.Sprintf("%s:%s:%s:%s:%s:%s:%s", kind, s.GetStat().BaseType, c04Str([]byte(s.AppName())), c04Str([]byte(s.StreamName())),
		c04Str([]byte(s.RawQuery())), c04Str([]byte(s.Url())), verdict))
	if o.policy == 'R' {
		return errC04Reject
	}
	return nil
}

func (o *c04Obs) OnNewRtmpPubSession(s *rtmp.ServerSession) error {
	err := o.onNew("newpub", s)
	if err == nil && o.policy == 'A' {
		s.SetPubSessionObserver(c04Av{&o.ev})
	}
	return err
}
func (o *c04Obs) OnNewRtmpSubSession(s *rtmp.ServerSession) error { return o.onNew("newsub", s) }
func (o *c04Obs) OnDelRtmpPubSession(s *rtmp.ServerSession)       { o.ev = append(o.ev, "delpub") }
func (o *c04Obs) OnDelRtmpSubSession(s *rtmp.ServerSession)       { o.ev = append(o.ev, "delsub") }

func c04Err(err error) string {
	switch {
	case err == nil:
		return "nil"
	case errors.Is(err, io.EOF):
		return "eof"
	case errors.Is(err, io.ErrUnexpectedEOF):
		return "ueof"
	case errors.Is(err, errC04Reject):
		return "closed:0xd"
	case errors.Is(err, base.ErrRtmpUnexpectedMsg):
		return "closed:0xb"
	case errors.Is(err, base.ErrAmfNotExist):
		return "closed:0xc"
	case errors.Is(err, base.ErrAmfTooShort):
		return "closed:0x101"
	case errors.Is(err, rtmp.ErrAmfNestingTooDeep):
		return "closed:0x102"
	case errors.Is(err, base.ErrAmfInvalidType):
		m := err.Error()
		if i := strings.LastIndex(m, "b="); i >= 0 {
			if v, e := strconv.Atoi(strings.TrimSpace(m[i+2:])); e == nil {
				return "closed:" + tokNum(uint64(0x200+v))
			}
		}
		return "closed:amf-type?"
	case errors.Is(err, base.ErrRtmpShortBuffer):
		m := err.Error()
		switch {
		case strings.Contains(m, "sub message len"):
			return "closed:0x3"
		case strings.Contains(m, "sub message body"):
			return "closed:0x4"
		case strings.Contains(m, "prev message size"):
			return "closed:0x5"
		case strings.Contains(m, "bigger than msg len"):
			return "closed:0x6"
		}
		return "closed:0xa"
	}
	return "closed:other:" + strings.ReplaceAll(err.Error(), " ", "_")
}

func c04Join(l []string) string {
	if len(l) == 0 {
		return "-"
	}
	return strings.Join(l, ";")
}

// kinds of the shell run, runs of av collapsed
func c04Kinds(ev []string) string {
	var out []string
	av := 0
	flush := func() {
		if av > 0 {
			out = append(out, fmt.Sprintf("av*%d", av))
			av = 0
		}
	}
	for _, e := range ev {
		k := e
		if i := strings.Index(e, ":"); i >= 0 {
			k = e[:i]
		}
		if k == "av" {
			av++
			continue
		}
		flush()
		if k == "newpub" || k == "newsub" {
			k += e[len(e)-2:]
		}
		out = append(out, k)
	}
	flush()
	if len(out) == 0 {
		return "-"
	}
	return strings.Join(out, ",")
}

func c04Replies(conn *c04Conn, obs *c04Obs, sawEnd bool) (hs string, w []byte) {
	conn.mu.Lock()
	defer conn.mu.Unlock()
	keep := len(conn.writes)
	if !sawEnd {
		// the session closed on its own (or panicked): what was queued for the
		// asynchronous writer after the last drain may or may not have been
		// written before the close; keep only what is certain
		keep = conn.keepAt
		if obs.keepNew > keep {
			keep = obs.keepNew
		}
	}
	var all []byte
	for _, x := range conn.writes[:keep] {
		all = append(all, x...)
	}
	hs = "-"
	if len(all) >= 3073 {
		s1 := all[1:1537]
		s2 := all[1537:3073]
		mode := "c"
		if s1[4] == 0 && s1[5] == 0 && s1[6] == 0 && s1[7] == 0 {
			mode = "s"
		}
		hs = fmt.Sprintf("%s:%d:%s", mode, all[0], c04Str(s2))
		w = all[3073:]
	} else if len(all) > 0 {
		hs = "short:" + c04Str(all)
	}
	return
}

func c04Session(a []string) (out string) {
	policy := a[0][0]
	cfg := strings.Split(a[1], ".")
	ver, hack := bytesTok(cfg[0]), bytesTok(cfg[1])
	wantRnd := make([]byte, 1528)
	for i := 0; i < 1528 && len(hack) > 0; i += len(hack) {
		copy(wantRnd[i:], hack)
	}
	if string(ver) != base.LalRtmpConnectResultVersion || string(wantRnd) != string(base.LalRtmpRandom1528Buf) {
		return "const-mismatch " + hexOf([]byte(base.LalRtmpConnectResultVersion))
	}
	data := bytesTok(a[2])
	opts := a[0][1:]
	trace := strings.HasPrefix(opts, "t")
	opts = strings.TrimPrefix(opts, "t")
	preset := false
	var lastAck, seq uint64
	if strings.HasPrefix(opts, "@") {
		f := strings.Split(opts[1:], ":")
		lastAck, seq, preset = numTok(f[0]), numTok(f[1]), true
	}
	if trace {
		_ = nazalog.Init(func(o *nazalog.Option) { o.IsToStdout = false; o.Level = nazalog.LevelTrace })
		defer func() {
			_ = nazalog.Init(func(o *nazalog.Option) { o.IsToStdout = false; o.Level = nazalog.LevelError })
		}()
	}

	// run 1: the session alone
	conn := &c04Conn{in: append([]byte{}, data...)}
	obs := &c04Obs{policy: policy, conn: conn}
	var sess *rtmp.ServerSession
	var ms0, ms1 runtime.MemStats
	runtime.ReadMemStats(&ms0)
	outcome := func() (res string) {
		defer func() {
			if r := recover(); r != nil {
				res = panicSite(r)
			}
		}()
		sess = rtmp.NewServerSession(obs, conn)
		if preset {
			sess.VerifC04PresetAck(lastAck, uint32(seq))
		}
		return c04Err(sess.RunLoop())
	}()
	runtime.ReadMemStats(&ms1)
	reserved, streams := sess.VerifC04ReservedBytes()
	sawEnd := outcome == "eof" || outcome == "ueof"
	hs, w := c04Replies(conn, obs, sawEnd)

	// run 2: through Server.handleTcpConnect
	conn2 := &c04Conn{in: append([]byte{}, data...)}
	obs2 := &c04Obs{policy: policy, conn: conn2}
	shell := func() (res string) {
		defer func() {
			if r := recover(); r != nil {
				res = "!" + panicSite(r)
			}
		}()
		rtmp.NewServer("", obs2).VerifC04HandleTcpConnect(conn2)
		return ""
	}()
	// alloc: bytes the Go heap handed out while the session ran (all of it: buffers, AMF values, log text, the
	// harness's own copies); not modelled, checked by the python oracle against the bytes received
	return fmt.Sprintf("%s hs=%s ev=%s w=%s sh=%s%s mem=%s:%s alloc=%s", outcome, hs, c04Join(obs.ev), tokBytes(w), c04Kinds(obs2.ev), shell,
		tokNum(uint64(reserved)), tokNum(uint64(streams)), tokNum(ms1.TotalAlloc-ms0.TotalAlloc))
}

// c04.rss: peak resident set size of this process so far (VmHWM, KiB); used by
// the memory regression guard of gen/c04.py, not part of the model comparison
func c04Rss(a []string) string {
	b, err := os.ReadFile("/proc/self/status")
	if err != nil {
		return "err " + err.Error()
	}
	for _, l := range strings.Split(string(b), "\n") {
		if strings.HasPrefix(l, "VmHWM:") {
			f := strings.Fields(l)
			if len(f) >= 2 {
				return "rss " + f[1]
			}
		}
	}
	return "err no-VmHWM"
}

func init() {
	register("c04.sess", c04Session)
	register("c04.rss", c04Rss)
}
