package main

// C14 - access control: simple-auth decisions, RTSP Basic/Digest, HLS request
// path -> file mapping, stream name -> output paths, IP black-list.
// The decision functions are driven directly where lal exports them; the
// unexported ones (ServerCommandSession.handleAuthorized, Group record file
// names, hls.Muxer path composition, ServerHandler request check) are reached
// end to end over a fake conn / a temp-dir sandbox.

import (
	"crypto/md5"
	"encoding/hex"
	"encoding/json"
	"fmt"
	"io"
	"net"
	"net/http"
	"net/http/httptest"
	"net/url"
	"os"
	"path/filepath"
	"sort"
	"strconv"
	"strings"
	"sync"
	"time"

	"github.com/q191201771/lal/pkg/base"
	"github.com/q191201771/lal/pkg/hls"
	"github.com/q191201771/lal/pkg/httpflv"
	"github.com/q191201771/lal/pkg/httpts"
	"github.com/q191201771/lal/pkg/logic"
	"github.com/q191201771/lal/pkg/mpegts"
	"github.com/q191201771/lal/pkg/rtmp"
	"github.com/q191201771/lal/pkg/rtsp"
	"github.com/q191201771/lal/pkg/sdp"
	"github.com/q191201771/naza/pkg/mock"
)

func c14Str(tok string) string { return string(bytesTok(tok)) }
func c14Tok(s string) string   { return hexOf([]byte(s)) }

func c14List(tok string) []string {
	if tok == "-" {
		return nil
	}
	var out []string
	for _, h := range strings.Split(tok, ",") {
		if h == "N" {
			out = append(out, "")
		} else {
			out = append(out, c14Str(h))
		}
	}
	return out
}

// ---------------------------------------------------------------------------
// RTSP DESCRIBE over a real ServerCommandSession

// lockstep conn: request k is handed out only after k-1 responses were written
type c14Conn struct {
	mu      sync.Mutex
	cond    *sync.Cond
	reqs    [][]byte
	next    int
	pending []byte
	writes  [][]byte
	closed  bool
}

func newC14Conn(reqs [][]byte) *c14Conn {
	c := &c14Conn{reqs: reqs}
	c.cond = sync.NewCond(&c.mu)
	return c
}

func (c *c14Conn) Read(b []byte) (int, error) {
	c.mu.Lock()
	defer c.mu.Unlock()
	if len(c.pending) == 0 {
		deadline := time.Now().Add(3 * time.Second)
		for len(c.writes) < c.next && !c.closed && time.Now().Before(deadline) {
			c.mu.Unlock()
			time.Sleep(200 * time.Microsecond)
			c.mu.Lock()
		}
		if c.closed || c.next >= len(c.reqs) || len(c.writes) < c.next {
			return 0, io.EOF
		}
		c.pending = c.reqs[c.next]
		c.next++
	}
	n := copy(b, c.pending)
	c.pending = c.pending[n:]
	return n, nil
}

func (c *c14Conn) Write(b []byte) (int, error) {
	c.mu.Lock()
	defer c.mu.Unlock()
	cp := make([]byte, len(b))
	copy(cp, b)
	c.writes = append(c.writes, cp)
	return len(b), nil
}

func (c *c14Conn) Close() error {
	c.mu.Lock()
	defer c.mu.Unlock()
	c.closed = true
	return nil
}
func (c *c14Conn) LocalAddr() net.Addr                { return fakeAddr{} }
func (c *c14Conn) RemoteAddr() net.Addr               { return fakeAddr{} }
func (c *c14Conn) SetDeadline(t time.Time) error      { return nil }
func (c *c14Conn) SetReadDeadline(t time.Time) error  { return nil }
func (c *c14Conn) SetWriteDeadline(t time.Time) error { return nil }

const c14Sdp = "v=0\r\no=- 0 0 IN IP4 127.0.0.1\r\ns=No Name\r\nc=IN IP4 127.0.0.1\r\nt=0 0\r\n" +
	"a=tool:libavformat 58.29.100\r\nm=audio 0 RTP/AVP 97\r\nb=AS:128\r\na=rtpmap:97 MPEG4-GENERIC/44100/2\r\n" +
	"a=fmtp:97 profile-level-id=1;mode=AAC-hbr;sizelength=13;indexlength=3;indexdeltalength=3; config=1210\r\na=control:streamid=0\r\n"

type c14RtspObserver struct {
	describes int
	announces int
	refuse    map[int]bool // the n-th ANNOUNCE that reaches the observer is refused
}

func (o *c14RtspObserver) OnNewRtspPubSession(session *rtsp.PubSession) error {
	o.announces++
	if o.refuse[o.announces-1] {
		return base.ErrRtspClosedByObserver
	}
	return nil
}
func (o *c14RtspObserver) OnNewRtspSubSessionDescribe(session *rtsp.SubSession) (bool, []byte) {
	o.describes++
	return true, []byte(c14Sdp)
}
func (o *c14RtspObserver) OnNewRtspSubSessionPlay(session *rtsp.SubSession) error { return nil }

func c14Describe(a []string) string {
	conf := rtsp.ServerAuthConfig{AuthEnable: boolTok(a[0]), UserName: c14Str(a[2]), PassWord: c14Str(a[3])}
	m, err := strconv.Atoi(a[1])
	if err != nil {
		panic("bad method")
	}
	conf.AuthMethod = m
	// request list: N = DESCRIBE without Authorization, A / R = ANNOUNCE the observer accepts / refuses,
	// anything else = DESCRIBE with that Authorization header value
	var toks []string
	if a[4] != "-" {
		toks = strings.Split(a[4], ",")
	}
	obs := &c14RtspObserver{refuse: map[int]bool{}}
	var reqs [][]byte
	nAnnounce := 0
	for i, tk := range toks {
		var r string
		if tk == "A" || tk == "R" {
			// whether this ANNOUNCE reaches the observer at all is the implementation's business; when it does
			// it is the next one the observer sees (an earlier accepted ANNOUNCE makes every later request close)
			if tk == "R" {
				obs.refuse[nAnnounce] = true
			}
			nAnnounce++
			r = fmt.Sprintf("ANNOUNCE rtsp://127.0.0.1:5544/live/test110 RTSP/1.0\r\nCSeq: %d\r\nContent-Type: application/sdp\r\nContent-Length: %d\r\n\r\n%s", i+1, len(c14Sdp), c14Sdp)
		} else {
			r = fmt.Sprintf("DESCRIBE rtsp://127.0.0.1:5544/live/test110 RTSP/1.0\r\nCSeq: %d\r\n", i+1)
			if tk != "N" {
				r += "Authorization: " + c14Str(tk) + "\r\n"
			}
			r += "\r\n"
		}
		reqs = append(reqs, []byte(r))
	}
	conn := newC14Conn(reqs)
	s := rtsp.NewServerCommandSession(obs, conn, conf, false, "")
	_ = s.RunLoop()
	// the write queue is flushed before the next request is read (lockstep), so every
	// response of a request that was answered is in conn.writes now
	conn.mu.Lock()
	defer conn.mu.Unlock()
	var out []string
	sdps := 0
	for i := 0; i < conn.next; i++ {
		if i >= len(conn.writes) {
			out = append(out, "0x3")
			break
		}
		w := string(conn.writes[i])
		switch {
		case strings.HasPrefix(w, "RTSP/1.0 200 OK\r\n") && strings.HasSuffix(w, c14Sdp):
			out = append(out, "0x0")
			sdps++
		case strings.HasPrefix(w, "RTSP/1.0 200 OK\r\n") && !strings.Contains(w, "Content-Type: application/sdp") && (toks[i] == "A" || toks[i] == "R"):
			out = append(out, "0x4")
		case strings.HasPrefix(w, "RTSP/1.0 401 ") && strings.Contains(w, "WWW-Authenticate: Basic realm=\""):
			out = append(out, "0x1")
		case strings.HasPrefix(w, "RTSP/1.0 401 ") && strings.Contains(w, "WWW-Authenticate: Digest realm=\"") && strings.Contains(w, "nonce=\""):
			out = append(out, "0x2")
		default:
			out = append(out, "other:"+c14Tok(w))
		}
	}
	if sdps != obs.describes {
		return fmt.Sprintf("observer-called-%d-sdp-written-%d", obs.describes, sdps)
	}
	if len(out) == 0 {
		return "-"
	}
	return strings.Join(out, ",")
}

// ---------------------------------------------------------------------------
// temp-dir sandbox for the file-system ops.  Model root: /T1/T2/outer/root

var c14SbFiles = []string{
	"/T1/T2/outer/root/s1/playlist.m3u8", "/T1/T2/outer/root/s1/record.m3u8", "/T1/T2/outer/root/s1/s1-1-2.ts",
	"/T1/T2/outer/root/a-b/a-b-1-2.ts", "/T1/T2/outer/root/playlist.m3u8", "/T1/T2/outer/root/x-1-2.ts",
	"/T1/T2/outer/root/.../playlist.m3u8",
	"/T1/T2/outer/playlist.m3u8", "/T1/T2/outer/record.m3u8", "/T1/T2/outer/..-1-2.ts", "/T1/T2/outer/secret.ts",
	"/T1/T2/playlist.m3u8", "/T1/T2/..-1-2.ts",
}

var (
	c14ServeOnce sync.Once
	c14ServeTop  string
	c14Handler   *hls.ServerHandler
)

func c14MustCountDotDot(name string) {
	if strings.Count(name, "..") > 2 {
		panic("unsafe-case: more than two .. in a name used on the real disk")
	}
}

func c14NewSandbox(withFiles bool) string {
	top, err := os.MkdirTemp("", "lalverif-c14-")
	if err != nil {
		panic(err)
	}
	top, _ = filepath.EvalSymlinks(top)
	c14FillSandbox(top, withFiles)
	return top
}

func c14FillSandbox(top string, withFiles bool) {
	for _, d := range []string{"/T1/T2/outer/root", "/T1/T2/outer/recflv", "/T1/T2/outer/rects"} {
		if err := os.MkdirAll(top+d, 0777); err != nil {
			panic(err)
		}
	}
	if withFiles {
		for _, f := range c14SbFiles {
			_ = os.MkdirAll(filepath.Dir(top+f), 0777)
			if err := os.WriteFile(top+f, []byte(f), 0666); err != nil {
				panic(err)
			}
		}
	}
}

// every file and directory below top that was not there in the empty sandbox
func c14Listing(top string) string {
	pre := map[string]bool{"": true, "/T1": true, "/T1/T2": true, "/T1/T2/outer": true, "/T1/T2/outer/root": true,
		"/T1/T2/outer/recflv": true, "/T1/T2/outer/rects": true}
	var out []string
	_ = filepath.Walk(top, func(p string, info os.FileInfo, err error) error {
		if err != nil {
			return nil
		}
		rel := strings.TrimPrefix(p, top)
		if pre[rel] {
			return nil
		}
		if info.IsDir() {
			rel += "/"
		}
		out = append(out, rel)
		return nil
	})
	sort.Strings(out)
	return strings.Join(out, "\x00")
}

func c14ListingTok(top string, canon func(string) string) string {
	l := c14Listing(top)
	if l == "" {
		return "-"
	}
	var out []string
	for _, s := range strings.Split(l, "\x00") {
		if canon != nil {
			s = canon(s)
		}
		out = append(out, s)
	}
	sort.Strings(out)
	for i := range out {
		out[i] = c14Tok(out[i])
	}
	return strings.Join(out, ",")
}

func c14HlsServe(a []string) string {
	// one handler per process (it starts a ticker goroutine); its sandbox exists only during the call
	c14ServeOnce.Do(func() {
		c14ServeTop = filepath.Join(os.TempDir(), fmt.Sprintf("lalverif-c14-serve-%d", os.Getpid()))
		c14Handler = hls.NewServerHandler(c14ServeTop+"/T1/T2/outer/root", "/hls/", "", 0, nil)
	})
	c14FillSandbox(c14ServeTop, true)
	defer os.RemoveAll(c14ServeTop)
	uri := c14Str(a[1])
	req := httptest.NewRequest("GET", "http://127.0.0.1:8080/", nil)
	req.RequestURI = uri
	req.Host = "127.0.0.1:8080"
	req.RemoteAddr = "10.1.2.3:4567"
	rec := httptest.NewRecorder()
	c14Handler.ServeHTTP(rec, req)
	body := rec.Body.Bytes()
	switch rec.Code {
	case http.StatusOK:
		if len(body) == 0 {
			return "200-empty"
		}
		// every sandbox file holds its own model path
		return "200 " + hexOf(body)
	default:
		return strconv.Itoa(rec.Code)
	}
}

type c14MuxObserver struct {
	ts, live, rec string
}

func (o *c14MuxObserver) OnHlsMakeTs(info base.HlsMakeTsInfo) {
	if info.Event == "open" {
		o.ts = info.TsFile
	}
	o.live, o.rec = info.LiveM3u8File, info.RecordM3u8File
}
func (o *c14MuxObserver) OnFragmentOpen() {}

var c14ClockMu sync.Mutex

func c14HlsMux(a []string) string {
	name := c14Str(a[0])
	c14MustCountDotDot(name)
	top := c14NewSandbox(false)
	defer os.RemoveAll(top)
	c14ClockMu.Lock()
	old := hls.Clock
	fc := mock.NewFakeClock()
	fc.Set(time.Unix(1, 0))
	hls.Clock = fc
	defer func() { hls.Clock = old; c14ClockMu.Unlock() }()

	cfg := &hls.MuxerConfig{OutPath: top + "/T1/T2/outer/root", FragmentDurationMs: 3000, FragmentNum: 3, DeleteThreshold: 1, CleanupMode: hls.CleanupModeNever}
	obs := &c14MuxObserver{}
	m := hls.NewMuxer(name, cfg, obs)
	m.Start()
	m.FeedPatPmt(make([]byte, 376))
	fr := &mpegts.Frame{Pts: 90000, Dts: 90000, Key: true, Sid: mpegts.StreamIdVideo, Pid: mpegts.PidVideo}
	m.FeedMpegts(make([]byte, 188), fr, true)
	m.Dispose()
	strip := func(s string) string {
		if s == "" {
			return "-"
		}
		return c14Tok(strings.TrimPrefix(s, top))
	}
	return fmt.Sprintf("%s %s %s %s %s", strip(m.OutPath()), strip(obs.ts), strip(obs.live), strip(obs.rec), c14ListingTok(top, nil))
}

type c14GroupObserver struct{}

func (c14GroupObserver) CleanupHlsIfNeeded(appName string, streamName string, path string) {}
func (c14GroupObserver) OnHlsMakeTs(info base.HlsMakeTsInfo)                               {}
func (c14GroupObserver) OnRelayPullStart(info base.PullStartInfo)                          {}
func (c14GroupObserver) OnRelayPullStop(info base.PullStopInfo)                            {}

// a logic.Group with flv / mpegts recording and hls enabled gets a publisher named <name>
func c14Record(a []string) string {
	name := c14Str(a[0])
	c14MustCountDotDot(name)
	top := c14NewSandbox(false)
	defer os.RemoveAll(top)
	var cfg logic.Config
	cfg.RecordConfig.EnableFlv = true
	cfg.RecordConfig.FlvOutPath = top + "/T1/T2/outer/recflv"
	cfg.RecordConfig.EnableMpegts = true
	cfg.RecordConfig.MpegtsOutPath = top + "/T1/T2/outer/rects"
	t0 := time.Now().Unix()
	g := logic.NewGroup("live", name, &cfg, logic.GroupOption{}, c14GroupObserver{})
	sess, err := g.AddCustomizePubSession(name)
	if err != nil {
		return "err"
	}
	g.DelCustomizePubSession(sess)
	t1 := time.Now().Unix()
	canon := func(s string) string {
		for t := t0; t <= t1; t++ {
			for _, ext := range []string{".flv", ".ts"} {
				suf := fmt.Sprintf("-%d%s", t, ext)
				if strings.HasSuffix(s, suf) {
					return strings.TrimSuffix(s, suf) + "-T" + ext
				}
			}
		}
		return s
	}
	return c14ListingTok(top, canon)
}

// ---------------------------------------------------------------------------
// black-list: every scenario of the line runs on its own IpBlacklist, all of
// them against the same wall clock, aligned so that time.Now().Unix() is
// start+<slept seconds> whenever an Add/Has runs

func c14Blacklist(a []string) string {
	// the wall clock is the only clock IpBlacklist knows: if the machine stalls so that an
	// operation does not run in the second it was scheduled for, the whole line is run again
	for attempt := 0; attempt < 4; attempt++ {
		if out, ok := c14BlacklistOnce(a[0]); ok {
			return out
		}
	}
	return "clock-unstable"
}

func c14BlacklistOnce(line string) (string, bool) {
	scen := strings.Split(line, "|")
	out := make([]string, len(scen))
	// align: 300 ms into a second
	now := time.Now()
	start := now.Truncate(time.Second).Add(time.Second + 300*time.Millisecond)
	time.Sleep(start.Sub(now))
	startUnix := start.Unix()
	var wg sync.WaitGroup
	var badMu sync.Mutex
	bad := false
	for i, sc := range scen {
		wg.Add(1)
		go func(i int, sc string) {
			defer wg.Done()
			var bl logic.IpBlacklist
			virt := int64(0)
			var res []byte
			onTime := func() {
				if time.Now().Unix() != startUnix+virt {
					badMu.Lock()
					bad = true
					badMu.Unlock()
				}
			}
			for _, o := range strings.Split(sc, ",") {
				f := strings.Split(o, ":")
				switch f[0] {
				case "A":
					d, err := strconv.Atoi(f[2])
					if err != nil {
						panic("bad duration")
					}
					onTime()
					bl.Add(c14Str(f[1]), d)
					onTime()
				case "H":
					onTime()
					if bl.Has(c14Str(f[1])) {
						res = append(res, '1')
					} else {
						res = append(res, '0')
					}
					onTime()
				case "S":
					n, err := strconv.Atoi(f[1])
					if err != nil {
						panic("bad sleep")
					}
					virt += int64(n)
					time.Sleep(time.Until(start.Add(time.Duration(virt) * time.Second)))
				}
			}
			if len(res) == 0 {
				res = []byte("-")
			}
			out[i] = string(res)
		}(i, sc)
	}
	wg.Wait()
	return strings.Join(out, "|"), !bad
}

// ---------------------------------------------------------------------------
// a real ServerManager is offered a real httpflv / httpts SubSession

var (
	c14SmMu    sync.Mutex
	c14SmCache = map[string]*logic.ServerManager{}
)

func c14Sm(flags int, key, ovr string) *logic.ServerManager {
	k := fmt.Sprintf("%d|%s|%s", flags, key, ovr)
	if sm, ok := c14SmCache[k]; ok {
		return sm
	}
	conf := map[string]interface{}{
		"conf_version": base.ConfVersion,
		"log":          map[string]interface{}{"level": 5, "filename": "", "is_to_stdout": false, "is_rotate_daily": false, "short_file_flag": false, "timestamp_flag": false, "timestamp_with_ms_flag": false, "level_flag": false, "assert_behavior": 1},
		"simple_auth": map[string]interface{}{"key": key, "dangerous_lal_secret": ovr,
			"pub_rtmp_enable": flags&1 != 0, "sub_rtmp_enable": flags&2 != 0, "sub_httpflv_enable": flags&4 != 0, "sub_httpts_enable": flags&8 != 0,
			"pub_rtsp_enable": flags&16 != 0, "sub_rtsp_enable": flags&32 != 0, "hls_m3u8_enable": flags&64 != 0},
	}
	raw, err := json.Marshal(conf)
	if err != nil {
		panic(err)
	}
	sm := logic.NewServerManager(func(o *logic.Option) { o.ConfRawContent = raw })
	c14SmCache[k] = sm
	return sm
}

func c14SmSub(a []string) string {
	c14SmMu.Lock()
	defer c14SmMu.Unlock()
	httpflv.SubSessionWriteChanSize = 0
	httpts.SubSessionWriteChanSize = 0
	sm := c14Sm(intTok(a[0]), c14Str(a[1]), c14Str(a[2]))
	stream, param := c14Str(a[4]), c14Str(a[5])
	conn := newFakeConn(nil)
	var err error
	var id string
	if a[3] == "0" {
		u := "http://127.0.0.1:8080/live/" + stream + ".flv"
		if param != "" {
			u += "?" + param
		}
		urlCtx, perr := base.ParseHttpflvUrl(u)
		if perr != nil {
			return "err-url"
		}
		s := httpflv.NewSubSession(conn, urlCtx, false, "")
		if s.StreamName() != stream || s.RawQuery() != param {
			return "generator-url-mismatch"
		}
		id = s.UniqueKey()
		err = sm.OnNewHttpflvSubSession(s)
		defer func() {
			if err == nil {
				sm.OnDelHttpflvSubSession(s)
			}
		}()
	} else {
		u := "http://127.0.0.1:8080/live/" + stream + ".ts"
		if param != "" {
			u += "?" + param
		}
		urlCtx, perr := base.ParseUrl(u, -1)
		if perr != nil {
			return "err-url"
		}
		s := httpts.NewSubSession(conn, urlCtx, false, "")
		if s.StreamName() != stream || s.RawQuery() != param {
			return "generator-url-mismatch"
		}
		id = s.UniqueKey()
		err = sm.OnNewHttptsSubSession(s)
		defer func() {
			if err == nil {
				sm.OnDelHttptsSubSession(s)
			}
		}()
	}
	code := "0x1"
	switch err {
	case nil:
		code = "0x0"
	case base.ErrSimpleAuthParamNotFound:
		code = "0x2"
	case base.ErrSimpleAuthFailed:
		code = "0x3"
	}
	listed := 0
	for _, g := range sm.StatAllGroup() {
		for _, sub := range g.StatSubs {
			if sub.SessionId == id {
				listed++
			}
		}
	}
	wrote := conn.numWrites() > 0
	// kick it: only an attached session can be found, and finding it disconnects it
	kick := sm.CtrlKickSession(base.ApiCtrlKickSessionReq{StreamName: stream, SessionId: id})
	conn.mu.Lock()
	closed := conn.closed
	conn.mu.Unlock()
	return fmt.Sprintf("%s %s %s %s %s", code, tokNum(uint64(listed)), tokBool(wrote), tokBool(kick.ErrorCode == base.ErrorCodeSucc), tokBool(closed))
}

// the six session callbacks of ServerManager, each given a real session object in the state
// the protocol server hands it over in
func c14SmCb(a []string) string {
	c14SmMu.Lock()
	defer c14SmMu.Unlock()
	httpflv.SubSessionWriteChanSize = 0
	httpts.SubSessionWriteChanSize = 0
	sm := c14Sm(intTok(a[0]), c14Str(a[1]), c14Str(a[2]))
	cb := intTok(a[3])
	stream, param := c14Str(a[4]), c14Str(a[5])
	q := ""
	if param != "" {
		q = "?" + param
	}
	conn := newFakeConn(nil)
	var err error
	var id string
	isPub := false
	switch cb {
	case 0, 1:
		s := rtmp.NewServerSession(nopRtmpObserver{}, conn)
		s.VerifC14SetStream("rtmp://127.0.0.1/live", "live", stream, param, cb == 0)
		id = s.UniqueKey()
		if cb == 0 {
			isPub = true
			if err = sm.OnNewRtmpPubSession(s); err == nil {
				defer sm.OnDelRtmpPubSession(s)
			}
		} else {
			if err = sm.OnNewRtmpSubSession(s); err == nil {
				defer sm.OnDelRtmpSubSession(s)
			}
		}
	case 2:
		urlCtx, perr := base.ParseHttpflvUrl("http://127.0.0.1:8080/live/" + stream + ".flv" + q)
		if perr != nil {
			return "err-url"
		}
		s := httpflv.NewSubSession(conn, urlCtx, false, "")
		if s.StreamName() != stream || s.RawQuery() != param {
			return "generator-url-mismatch"
		}
		id = s.UniqueKey()
		if err = sm.OnNewHttpflvSubSession(s); err == nil {
			defer sm.OnDelHttpflvSubSession(s)
		}
	case 3:
		urlCtx, perr := base.ParseUrl("http://127.0.0.1:8080/live/"+stream+".ts"+q, -1)
		if perr != nil {
			return "err-url"
		}
		s := httpts.NewSubSession(conn, urlCtx, false, "")
		if s.StreamName() != stream || s.RawQuery() != param {
			return "generator-url-mismatch"
		}
		id = s.UniqueKey()
		if err = sm.OnNewHttptsSubSession(s); err == nil {
			defer sm.OnDelHttptsSubSession(s)
		}
	case 4, 5:
		urlCtx, perr := base.ParseRtspUrl("rtsp://127.0.0.1:5544/live/" + stream + q)
		if perr != nil {
			return "err-url"
		}
		if urlCtx.LastItemOfPath != stream || urlCtx.RawQuery != param {
			return "generator-url-mismatch"
		}
		cmd := rtsp.NewServerCommandSession(&c14RtspObserver{}, conn, rtsp.ServerAuthConfig{}, false, "")
		if cb == 4 {
			isPub = true
			s := rtsp.NewPubSession(urlCtx, cmd)
			sdpCtx, _ := sdp.ParseSdp2LogicContext([]byte(c14Sdp))
			s.InitWithSdp(sdpCtx)
			id = s.UniqueKey()
			if err = sm.OnNewRtspPubSession(s); err == nil {
				defer sm.OnDelRtspPubSession(s)
				// BaseInSession.SetObserver hands the SDP to the group on a goroutine of its own: wait for it here, so
				// that it cannot fire during a later case on the same (cached) ServerManager, where this harness builds
				// sub sessions without a command-session back pointer
				for t0 := time.Now(); time.Since(t0) < 10*time.Second; time.Sleep(200 * time.Microsecond) {
					if _, ok := sm.VerifRawSdp(stream); ok {
						break
					}
				}
			}
		} else {
			s := rtsp.NewSubSession(urlCtx, cmd)
			id = s.UniqueKey()
			ok, _ := sm.OnNewRtspSubSessionDescribe(s)
			if ok {
				defer sm.OnDelRtspSubSession(s)
			} else {
				err = base.ErrRtspClosedByObserver
			}
		}
	default:
		panic("bad callback")
	}
	code := "0x1"
	switch err {
	case nil:
		code = "0x0"
	case base.ErrSimpleAuthParamNotFound:
		code = "0x2"
	case base.ErrSimpleAuthFailed:
		code = "0x3"
	}
	attached := false
	for _, g := range sm.StatAllGroup() {
		if isPub && g.StatPub.SessionId == id {
			attached = true
		}
		for _, sub := range g.StatSubs {
			if sub.SessionId == id {
				attached = true
			}
		}
	}
	return code + " " + tokBool(attached)
}

// ServerManager.serveHls behind an http.ServeMux, on the sandbox of c14.hlsserve: histories of
// requests (from chosen remote addresses), add_ip_blacklist calls and clock advances
const c14HlsHashKey = "q191201771"

func c14ServeHlsSm(flags int, key, ovr, root string, sub bool, timeoutMs int) *logic.ServerManager {
	hashKey := ""
	if sub {
		hashKey = c14HlsHashKey
	}
	conf := map[string]interface{}{
		"conf_version": base.ConfVersion,
		"log":          map[string]interface{}{"level": 5, "filename": "", "is_to_stdout": false, "is_rotate_daily": false, "short_file_flag": false, "timestamp_flag": false, "timestamp_with_ms_flag": false, "level_flag": false, "assert_behavior": 1},
		"hls": map[string]interface{}{"enable": true, "url_pattern": "/hls/", "out_path": root, "fragment_duration_ms": 3000, "fragment_num": 6,
			"delete_threshold": 6, "cleanup_mode": 0, "use_memory_as_disk_flag": false, "sub_session_timeout_ms": timeoutMs, "sub_session_hash_key": hashKey},
		"simple_auth": map[string]interface{}{"key": key, "dangerous_lal_secret": ovr, "hls_m3u8_enable": flags&64 != 0},
	}
	raw, err := json.Marshal(conf)
	if err != nil {
		panic(err)
	}
	return logic.NewServerManager(func(o *logic.Option) { o.ConfRawContent = raw })
}

// the HLS sub session (stream name, unique key) whose session id hash is sid, from the stat API
func c14FindHlsSub(sm *logic.ServerManager, sid string) (string, string, bool) {
	for _, g := range sm.StatAllGroup() {
		for _, sub := range g.StatSubs {
			if sub.Protocol == base.SessionProtocolHlsStr {
				h := md5.Sum([]byte(sub.SessionId + c14HlsHashKey))
				if hex.EncodeToString(h[:]) == sid {
					return g.StreamName, sub.SessionId, true
				}
			}
		}
	}
	return "", "", false
}

func c14ServeHls(a []string) string {
	c14SmMu.Lock()
	defer c14SmMu.Unlock()
	top := filepath.Join(os.TempDir(), fmt.Sprintf("lalverif-c14-servehls-%d", os.Getpid()))
	c14FillSandbox(top, true)
	defer os.RemoveAll(top)
	flags, key, ovr := intTok(a[0]), c14Str(a[1]), c14Str(a[2])
	sub := boolTok(a[3])
	timeoutMs := intTok(a[4])
	scen := strings.Split(a[5], "|")
	// a line without clock advances and without kicks does not depend on which second an operation runs
	// in, nor on when the handler's once-a-second sweep runs
	timed := strings.Contains(a[5], "S:") || strings.Contains(a[5], "K:")
	for attempt := 0; attempt < 4; attempt++ {
		// every attempt works on fresh ServerManagers.  hls.ServerHandler sweeps its sessions on a ticker with
		// a fixed 1 s period that starts when the handler is created: create the handlers right after a second
		// boundary and run the operations 500 ms into a second - no operation is ever closer than 350 ms to a sweep
		if timed {
			now := time.Now()
			time.Sleep(now.Truncate(time.Second).Add(time.Second + 5*time.Millisecond).Sub(now))
		}
		t0 := time.Now()
		muxes := make([]*http.ServeMux, len(scen))
		sms := make([]*logic.ServerManager, len(scen))
		for i := range scen {
			// a scenario may start with its own configuration C:<flags>:<sub>:<timeout>
			fl, sb, tm := flags, sub, timeoutMs
			if strings.HasPrefix(scen[i], "C:") {
				f := strings.Split(strings.SplitN(scen[i], ",", 2)[0], ":")
				fl, sb, tm = intTok(f[1]), boolTok(f[2]), intTok(f[3])
			}
			sm := c14ServeHlsSm(fl, key, ovr, top+"/T1/T2/outer/root", sb, tm)
			mux := http.NewServeMux()
			mux.HandleFunc("/hls/", sm.VerifServeHls)
			sms[i], muxes[i] = sm, mux
		}
		if timed && time.Since(t0) > 150*time.Millisecond {
			continue
		}
		if out, ok := c14ServeHlsOnce(scen, sms, muxes, timed); ok {
			return out
		}
	}
	return "clock-unstable"
}

func c14ServeHlsOnce(scen []string, sms []*logic.ServerManager, muxes []*http.ServeMux, timed bool) (string, bool) {
	out := make([]string, len(scen))
	now := time.Now()
	start := now
	if timed {
		start = now.Truncate(time.Second).Add(time.Second + 500*time.Millisecond)
		time.Sleep(start.Sub(now))
	}
	startUnix := start.Unix()
	var wg sync.WaitGroup
	var badMu sync.Mutex
	bad := false
	for i, sc := range scen {
		wg.Add(1)
		go func(i int, sc string) {
			defer wg.Done()
			virt := int64(0)
			var res []string
			// every operation has to run inside [x.350, x.850] of its second
			onTime := func() {
				if !timed {
					return
				}
				d := time.Since(start.Add(time.Duration(virt) * time.Second))
				if time.Now().Unix() != startUnix+virt || d < -150*time.Millisecond || d > 350*time.Millisecond {
					badMu.Lock()
					bad = true
					badMu.Unlock()
				}
			}
			// session ids handed out by redirects; the case refers to the n-th one as @n
			var sids []string
			real := func(s string) string {
				for n := len(sids) - 1; n >= 0; n-- {
					s = strings.ReplaceAll(s, "@"+strconv.Itoa(n), sids[n])
				}
				return s
			}
			for _, o := range strings.Split(sc, ",") {
				f := strings.Split(o, ":")
				switch f[0] {
				case "G":
					req := httptest.NewRequest("GET", "http://127.0.0.1:8080"+real(c14Str(f[4])), nil)
					req.RemoteAddr = c14Str(f[1]) + ":4567"
					rec := httptest.NewRecorder()
					onTime()
					muxes[i].ServeHTTP(rec, req)
					onTime()
					body := rec.Body.Bytes()
					loc := rec.Header().Get("Location")
					switch {
					case rec.Code == http.StatusFound && loc != "":
						sid := ""
						if u, err := url.Parse(loc); err == nil {
							sid = u.Query().Get("session_id")
						}
						if sid == "" {
							res = append(res, "302r-without-session-id")
						} else {
							sids = append(sids, sid)
							res = append(res, "302r:"+c14Tok("@"+strconv.Itoa(len(sids)-1)))
						}
					case rec.Code == http.StatusOK && len(body) > 0:
						res = append(res, "200:"+hexOf(body))
					case rec.Code == http.StatusOK:
						res = append(res, "200-empty")
					default:
						if len(body) > 0 && rec.Code != http.StatusMovedPermanently {
							res = append(res, strconv.Itoa(rec.Code)+"+body")
						} else {
							res = append(res, strconv.Itoa(rec.Code))
						}
					}
				case "B":
					d, err := strconv.Atoi(f[2])
					if err != nil {
						panic("bad duration")
					}
					onTime()
					sms[i].CtrlAddIpBlacklist(base.ApiCtrlAddIpBlacklistReq{Ip: c14Str(f[1]), DurationSec: d})
					onTime()
				case "K":
					// /api/ctrl/kick_session takes the stream name and the session's unique key, which the stat api lists
					onTime()
					ok := false
					if stream, uk, found := c14FindHlsSub(sms[i], real(c14Str(f[1]))); found {
						ret := sms[i].CtrlKickSession(base.ApiCtrlKickSessionReq{StreamName: stream, SessionId: uk})
						ok = ret.ErrorCode == base.ErrorCodeSucc
					}
					onTime()
					res = append(res, "K"+tokBool(ok))
				case "L":
					onTime()
					n := 0
					for _, g := range sms[i].StatAllGroup() {
						for _, sub := range g.StatSubs {
							if sub.Protocol == base.SessionProtocolHlsStr {
								n++
							}
						}
					}
					onTime()
					res = append(res, "L"+strconv.Itoa(n))
				case "C":
					// configuration prefix, handled when the ServerManager was built
				case "S":
					n, err := strconv.Atoi(f[1])
					if err != nil {
						panic("bad sleep")
					}
					virt += int64(n)
					time.Sleep(time.Until(start.Add(time.Duration(virt) * time.Second)))
				}
			}
			if len(res) == 0 {
				res = []string{"-"}
			}
			out[i] = strings.Join(res, ",")
		}(i, sc)
	}
	wg.Wait()
	return strings.Join(out, "|"), !bad
}

func init() {
	register("c14.smcb", c14SmCb)
	register("c14.servehls", c14ServeHls)
	register("c14.smsub", c14SmSub)
	register("c14.simple", func(a []string) string {
		f := intTok(a[0])
		cfg := logic.SimpleAuthConfig{Key: c14Str(a[1]), DangerousLalSecret: c14Str(a[2]),
			PubRtmpEnable: f&1 != 0, SubRtmpEnable: f&2 != 0, SubHttpflvEnable: f&4 != 0, SubHttptsEnable: f&8 != 0,
			PubRtspEnable: f&16 != 0, SubRtspEnable: f&32 != 0, HlsM3u8Enable: f&64 != 0}
		ctx := logic.NewSimpleAuthCtx(cfg)
		var err error
		switch numTok(a[3]) {
		case 0:
			var info base.PubStartInfo
			info.Protocol, info.StreamName, info.UrlParam = c14Str(a[4]), c14Str(a[5]), c14Str(a[6])
			err = ctx.OnPubStart(info)
		case 1:
			var info base.SubStartInfo
			info.Protocol, info.StreamName, info.UrlParam = c14Str(a[4]), c14Str(a[5]), c14Str(a[6])
			err = ctx.OnSubStart(info)
		default:
			err = ctx.OnHls(c14Str(a[5]), c14Str(a[6]))
		}
		switch err {
		case nil:
			return "0x0"
		case base.ErrSimpleAuthParamNotFound:
			return "0x2"
		case base.ErrSimpleAuthFailed:
			return "0x3"
		}
		return "0x1"
	})
	register("c14.secret", func(a []string) string {
		return c14Tok(logic.SimpleAuthCalcSecret(c14Str(a[0]), c14Str(a[1])))
	})
	register("c14.parse", func(a []string) string {
		var au rtsp.Auth
		var out []string
		for _, h := range c14List(a[3]) {
			err := au.ParseAuthorization(h)
			chk := au.CheckAuthorization(c14Str(a[0]), c14Str(a[1]), c14Str(a[2]))
			fs := []string{au.Typ, au.Username, au.Password, au.Realm, au.Nonce, au.Algorithm, au.Uri, au.Response, au.Opaque, au.Stale}
			for i := range fs {
				fs[i] = c14Tok(fs[i])
			}
			out = append(out, tokBool(err != nil)+"|"+strings.Join(fs, "|")+"|"+tokBool(chk))
		}
		return strings.Join(out, ";")
	})
	register("c14.mkauth", func(a []string) string {
		au := rtsp.Auth{Typ: c14Str(a[0]), Username: c14Str(a[1]), Password: c14Str(a[2]), Realm: c14Str(a[3]),
			Nonce: c14Str(a[4]), Algorithm: c14Str(a[5])}
		return c14Tok(au.MakeAuthorization(c14Str(a[6]), c14Str(a[7])))
	})
	register("c14.describe", c14Describe)
	register("c14.clean", func(a []string) string { return c14Tok(filepath.Clean(c14Str(a[0]))) })
	register("c14.join", func(a []string) string {
		var el []string
		for _, e := range strings.Split(a[0], ",") {
			el = append(el, c14Str(e))
		}
		return c14Tok(filepath.Join(el...))
	})
	register("c14.reqinfo", func(a []string) string {
		urlCtx, err := base.ParseUrl("http://127.0.0.1:8080"+c14Str(a[2]), 80)
		if err != nil {
			return "err-parse-url"
		}
		if urlCtx.Path != c14Str(a[1]) {
			return "generator-path-mismatch:" + c14Tok(urlCtx.Path)
		}
		ri := hls.PathStrategy.GetRequestInfo(urlCtx, c14Str(a[0]))
		return strings.Join([]string{c14Tok(urlCtx.LastItemOfPath), c14Tok(urlCtx.GetFilenameWithoutType()), c14Tok(urlCtx.GetFileType()),
			c14Tok(ri.StreamName), c14Tok(ri.FileNameWithPath)}, " ")
	})
	register("c14.hlsserve", c14HlsServe)
	register("c14.muxpaths", func(a []string) string {
		root, name := c14Str(a[0]), c14Str(a[1])
		idx, ts := int(numTok(a[2])), int(numTok(a[3]))
		ps := hls.PathStrategy
		op := ps.GetMuxerOutPath(root, name)
		tsn := ps.GetTsFileName(name, idx, ts)
		return strings.Join([]string{c14Tok(tsn), c14Tok(op), c14Tok(ps.GetLiveM3u8FileName(op, name)),
			c14Tok(ps.GetRecordM3u8FileName(op, name)), c14Tok(ps.GetTsFileNameWithPath(op, tsn))}, " ")
	})
	register("c14.hlsmux", c14HlsMux)
	register("c14.record", c14Record)
	register("c14.bl", c14Blacklist)
}
