package main

// C19, part A/D: sequence headers and SPS/VPS parsing on the real lal code.

import (
	"errors"
	"fmt"
	"strings"
	"time"

	"github.com/q191201771/lal/pkg/avc"
	"github.com/q191201771/lal/pkg/base"
	"github.com/q191201771/lal/pkg/h2645"
	"github.com/q191201771/lal/pkg/hevc"
	"github.com/q191201771/naza/pkg/nazabits"
)

func c19ErrName(err error) string {
	switch {
	case errors.Is(err, base.ErrShortBuffer):
		return "err short"
	case errors.Is(err, base.ErrAvc):
		return "err avc"
	case errors.Is(err, base.ErrHevc):
		return "err hevc"
	case errors.Is(err, nazabits.ErrNazaBits):
		return "err bits"
	case errors.Is(err, base.ErrSdp):
		return "err sdp"
	}
	return "err other"
}

// c19Safe runs f and maps any panic to the single token "panic" (the model
// prints the same); the site is irrelevant for the correspondence.
// c19SlowLimit: a parser call on a few hundred bytes takes microseconds; one that takes this long does work that
// depends on a VALUE in its input (a loop count), not on its size
const c19SlowLimit = 2 * time.Second

func c19Safe(f func() string) (out string) {
	t0 := time.Now()
	defer func() {
		if r := recover(); r != nil {
			out = "panic"
		}
		if d := time.Since(t0); d > c19SlowLimit {
			out = fmt.Sprintf("slow(%ds) %s", int(d.Seconds()), out)
		}
	}()
	return f()
}

func c19Nums(vs ...uint64) string {
	s := make([]string, len(vs))
	for i, v := range vs {
		s[i] = tokNum(v)
	}
	return strings.Join(s, ",")
}

func c19HevcCtx(c *hevc.Context) string {
	return c19Nums(uint64(c.PicWidthInLumaSamples), uint64(c.PicHeightInLumaSamples), uint64(c.GeneralProfileSpace),
		uint64(c.GeneralTierFlag), uint64(c.GeneralProfileIdc), uint64(c.GeneralProfileCompatibilityFlags),
		c.GeneralConstraintIndicatorFlags, uint64(c.GeneralLevelIdc), uint64(c.NumTemporalLayers), uint64(c.TemporalIdNested),
		uint64(c.ChromaFormat), uint64(c.BitDepthLumaMinus8), uint64(c.BitDepthChromaMinus8), uint64(c.LengthSizeMinusOne),
		uint64(c.ConfigurationVersion), uint64(c.Width), uint64(c.Height))
}

func init() {
	register("c19.avc_sps", func(a []string) string {
		return c19Safe(func() string {
			var ctx avc.Context
			if err := avc.ParseSps(bytesTok(a[0]), &ctx); err != nil {
				return c19ErrName(err)
			}
			s := ctx.Sps
			return fmt.Sprintf("ok %s %s %s %s %s", tokNum(uint64(ctx.Profile)), tokNum(uint64(ctx.Level)),
				tokNum(uint64(ctx.Width)), tokNum(uint64(ctx.Height)),
				c19Nums(uint64(s.ProfileIdc), uint64(s.ConstraintSet0Flag), uint64(s.ConstraintSet1Flag), uint64(s.ConstraintSet2Flag),
					uint64(s.LevelIdc), uint64(s.SpsId), uint64(s.ChromaFormatIdc), uint64(s.ResidualColorTransformFlag),
					uint64(s.BitDepthLuma), uint64(s.BitDepthChroma), uint64(s.TransFormBypass), uint64(s.Log2MaxFrameNumMinus4),
					uint64(s.PicOrderCntType), uint64(s.Log2MaxPicOrderCntLsb), uint64(s.NumRefFrames),
					uint64(s.GapsInFrameNumValueAllowedFlag), uint64(s.PicWidthInMbsMinusOne), uint64(s.PicHeightInMapUnitsMinusOne),
					uint64(s.FrameMbsOnlyFlag), uint64(s.MbAdaptiveFrameFieldFlag), uint64(s.Direct8X8InferenceFlag),
					uint64(s.FrameCroppingFlag), uint64(s.FrameCropLeftOffset), uint64(s.FrameCropRightOffset),
					uint64(s.FrameCropTopOffset), uint64(s.FrameCropBottomOffset), uint64(s.SarNum), uint64(s.SarDen)))
		})
	})
	pair := func(sps, pps []byte, err error) string {
		if err != nil {
			return c19ErrName(err)
		}
		return "ok " + tokBytes(sps) + " " + tokBytes(pps)
	}
	one := func(b []byte, err error) string {
		if err != nil {
			return c19ErrName(err)
		}
		return "ok " + tokBytes(b)
	}
	three := func(v, s, p []byte, err error) string {
		if err != nil {
			return c19ErrName(err)
		}
		return "ok " + tokBytes(v) + " " + tokBytes(s) + " " + tokBytes(p)
	}
	register("c19.avc_rt", func(a []string) string {
		return c19Safe(func() string {
			sps, pps := bytesTok(a[0]), bytesTok(a[1])
			h, err := avc.BuildSeqHeaderFromSpsPps(sps, pps)
			if err != nil {
				return c19ErrName(err)
			}
			// the header and the annexb form are held while both builders are used for another stream and the
			// parameter-set buffers are overwritten
			ab := avc.BuildSpsPps2Annexb(sps, pps)
			s2, p2 := c19Other(sps), c19Other(pps)
			h2, _ := avc.BuildSeqHeaderFromSpsPps(s2, p2)
			c19Scribble(h2)
			c19Scribble(avc.BuildSpsPps2Annexb(s2, p2))
			c19Scribble(sps)
			c19Scribble(pps)
			hs := tokBytes(h)
			p := c19Safe(func() string { return pair(avc.ParseSpsPpsFromSeqHeader(h)) })
			x := c19Safe(func() string { return one(h2645.SeqHeader2Annexb(true, h)) })
			return fmt.Sprintf("ok %s | %s | %s | %s", hs, p, x, tokBytes(ab))
		})
	})
	// The converters document their results as independently allocated: every op below keeps the first result while
	// the function converts another header of the same shape, overwrites both inputs and the later results, and only
	// then prints (c19Other / c19Scribble in c19_multi.go).
	register("c19.avc_parse", func(a []string) string {
		return c19Safe(func() string {
			in := bytesTok(a[0])
			sps, pps, err := avc.ParseSpsPpsFromSeqHeader(in)
			in2 := c19Other(in)
			s2, p2, _ := avc.ParseSpsPpsFromSeqHeader(in2)
			c19Scribble(s2)
			c19Scribble(p2)
			c19Scribble(in)
			c19Scribble(in2)
			return pair(sps, pps, err)
		})
	})
	held1 := func(f func([]byte) ([]byte, error), in []byte) ([]byte, error) {
		r, err := f(in)
		in2 := c19Other(in)
		r2, _ := f(in2)
		c19Scribble(r2)
		c19Scribble(in)
		c19Scribble(in2)
		return r, err
	}
	held3 := func(f func([]byte) ([]byte, []byte, []byte, error), in []byte) ([]byte, []byte, []byte, error) {
		v, s, p, err := f(in)
		in2 := c19Other(in)
		v2, s2, p2, _ := f(in2)
		c19Scribble(v2)
		c19Scribble(s2)
		c19Scribble(p2)
		c19Scribble(in)
		c19Scribble(in2)
		return v, s, p, err
	}
	register("c19.avc_2annexb", func(a []string) string {
		return c19Safe(func() string { return one(held1(avc.SpsPpsSeqHeader2Annexb, bytesTok(a[0]))) })
	})
	register("c19.hevc_vps", func(a []string) string {
		return c19Safe(func() string {
			var ctx hevc.Context
			if err := hevc.ParseVps(bytesTok(a[0]), &ctx); err != nil {
				return c19ErrName(err)
			}
			return "ok " + c19HevcCtx(&ctx)
		})
	})
	register("c19.hevc_sps", func(a []string) string {
		return c19Safe(func() string {
			var ctx hevc.Context
			if err := hevc.ParseSps(bytesTok(a[0]), &ctx); err != nil {
				return c19ErrName(err)
			}
			return "ok " + c19HevcCtx(&ctx)
		})
	})
	register("c19.hevc_rt", func(a []string) string {
		return c19Safe(func() string {
			vps, sps, pps := bytesTok(a[0]), bytesTok(a[1]), bytesTok(a[2])
			h, err := hevc.BuildSeqHeaderFromVpsSpsPps(vps, sps, pps)
			if err != nil {
				return c19ErrName(err)
			}
			h2, _ := hevc.BuildSeqHeaderFromVpsSpsPps(c19Other(vps), c19Other(sps), c19Other(pps))
			c19Scribble(h2)
			c19Scribble(vps)
			c19Scribble(sps)
			c19Scribble(pps)
			p := c19Safe(func() string { return three(hevc.ParseVpsSpsPpsFromSeqHeader(h)) })
			x := c19Safe(func() string { return one(h2645.SeqHeader2Annexb(false, h)) })
			return fmt.Sprintf("ok %s | %s | %s", tokBytes(h), p, x)
		})
	})
	register("c19.hevc_parse", func(a []string) string {
		return c19Safe(func() string { return three(held3(hevc.ParseVpsSpsPpsFromSeqHeader, bytesTok(a[0]))) })
	})
	register("c19.hevc_parse_enh", func(a []string) string {
		return c19Safe(func() string { return three(hevc.ParseVpsSpsPpsFromEnhancedSeqHeader(bytesTok(a[0]))) })
	})
	register("c19.hevc_2annexb", func(a []string) string {
		return c19Safe(func() string { return one(held1(hevc.VpsSpsPpsSeqHeader2Annexb, bytesTok(a[0]))) })
	})
}
