(* Proofs for C09: Frame.Pack (repaired arithmetic) against the reference
   demultiplexer of TsDemux.v. *)
From Lal Require Import Common.LBytes Common.LBytesProofs Mpegts.TsPack Mpegts.TsDemux.
From Coq Require Import Lia ZifyN ZifyNat ZifyBool.
Ltac Zify.zify_post_hook ::= Z.div_mod_to_equations.
Open Scope N_scope.

(* ---------------------------------------------------------------------- *)
(* 33-bit timestamps *)

Lemma ts33_b0_prefix fb x : fb < 16 -> ((fb * 16) mod 256 + x mod 8 * 2 + 1) / 16 = fb.
Proof. lia. Qed.
Lemma ts33_b0_marker fb x : ((fb * 16) mod 256 + x mod 8 * 2 + 1) mod 2 = 1.
Proof. lia. Qed.
Lemma ts33_b0_bits fb x : (((fb * 16) mod 256 + x mod 8 * 2 + 1) / 2) mod 8 = x mod 8.
Proof. lia. Qed.
Lemma ts33_lo_marker x : ((x mod 32768 * 2 + 1) mod 256) mod 2 = 1.
Proof. lia. Qed.
Lemma ts33_lo_bits x :
  ((x mod 32768 * 2 + 1) / 256 mod 256 * 256 + (x mod 32768 * 2 + 1) mod 256) / 2 = x mod 32768.
Proof. lia. Qed.
Lemma ts33_sum pts :
  (pts / 1073741824) mod 8 * 1073741824 + (pts / 32768) mod 32768 * 32768 + pts mod 32768
  = pts mod 8589934592.
Proof. lia. Qed.

Lemma parse_ts33_pack_pts fb pts : fb < 16 ->
  parse_ts33 fb (pack_pts fb pts) = Some (pts mod 8589934592).
Proof.
  intro Hfb. unfold pack_pts, pack_pts_q, parse_ts33. cbn [q_pts30 fixed_tree].
  rewrite (ts33_b0_prefix _ _ Hfb), ts33_b0_marker, !ts33_lo_marker, ts33_b0_bits, !ts33_lo_bits.
  rewrite !N.eqb_refl. cbn [andb]. now rewrite ts33_sum.
Qed.

Lemma pack_pts_length fb pts : length (pack_pts fb pts) = 5%nat.
Proof. reflexivity. Qed.

Lemma pack_pts_ok fb pts : fb < 16 -> bytes_ok (pack_pts fb pts).
Proof.
  intro Hfb. unfold pack_pts, pack_pts_q. cbn [q_pts30 fixed_tree].
  repeat (apply bytes_ok_cons; [lia|]). constructor.
Qed.

(* ---------------------------------------------------------------------- *)
(* PCR *)
Lemma pcr_base pcr :
  (pcr / 33554432) mod 256 * 33554432 + (pcr / 131072) mod 256 * 131072 + (pcr / 512) mod 256 * 512
  + (pcr / 2) mod 256 * 2 + (pcr mod 2 * 128 + 126) / 128 = pcr mod 8589934592.
Proof. lia. Qed.
Lemma pcr_ext pcr : (pcr mod 2 * 128 + 126) mod 2 * 256 + 0 = 0.
Proof. lia. Qed.
Lemma pack_pcr_ok pcr : bytes_ok (pack_pcr pcr).
Proof. unfold pack_pcr. repeat (apply bytes_ok_cons; [lia|]). constructor. Qed.

(* ---------------------------------------------------------------------- *)
(* adaptation field *)
Lemma all_ff_repeat k : all_ff (repeat 255 k) = true.
Proof. induction k; [reflexivity|]. cbn [repeat all_ff forallb]. exact IHk. Qed.

Lemma repeat_ff_ok k : bytes_ok (repeat 255 k).
Proof. induction k; constructor; [lia|assumption]. Qed.

Lemma parse_adaptation_pcr pcr stuff :
  parse_adaptation (80 :: pack_pcr pcr ++ repeat 255 stuff) = Some (true, Some (pcr mod 8589934592 * 300)).
Proof.
  unfold parse_adaptation.
  change ((80 / 64) mod 2 =? 1) with true. change (80 mod 16 =? 0) with true.
  change ((80 / 16) mod 2 =? 1) with true. cbn [negb].
  unfold pack_pcr. cbn [app]. rewrite all_ff_repeat.
  rewrite pcr_base, pcr_ext, N.add_0_r. reflexivity.
Qed.

Lemma parse_adaptation_stuff k : parse_adaptation (0 :: repeat 255 k) = Some (false, None).
Proof.
  unfold parse_adaptation.
  change ((0 / 64) mod 2 =? 1) with false. change (0 mod 16 =? 0) with true.
  change ((0 / 16) mod 2 =? 1) with false. cbn [negb]. now rewrite all_ff_repeat.
Qed.

(* ---------------------------------------------------------------------- *)
(* transport packet header *)
Definition b1_of (pusi : bool) (pid : N) : N := (if pusi then 64 else 0) + (pid / 256) mod 32.

Lemma hdr_b1_tei pusi pid : b1_of pusi pid / 128 = 0.
Proof. unfold b1_of. destruct pusi; lia. Qed.
Lemma hdr_b1_pusi pusi pid : ((b1_of pusi pid / 64) mod 2 =? 1) = pusi.
Proof. unfold b1_of. destruct pusi; lia. Qed.
Lemma hdr_pid pusi pid : pid < 8192 -> b1_of pusi pid mod 32 * 256 + pid mod 256 = pid.
Proof. unfold b1_of. destruct pusi; lia. Qed.
Lemma hdr_b3_tsc afc cc : afc = 16 \/ afc = 48 -> (afc + cc mod 16) / 64 = 0.
Proof. lia. Qed.
Lemma hdr_b3_afc afc cc : afc = 16 \/ afc = 48 -> ((afc + cc mod 16) / 16) mod 4 = afc / 16.
Proof. intros [-> | ->]; lia. Qed.
Lemma hdr_b3_cc afc cc : afc = 16 \/ afc = 48 -> (afc + cc mod 16) mod 16 = cc mod 16.
Proof. lia. Qed.

Lemma ts_header_ok pusi pid afc cc : afc = 16 \/ afc = 48 -> bytes_ok (ts_header pusi pid afc cc).
Proof.
  intro Ha. unfold ts_header.
  repeat (apply bytes_ok_cons; [try (destruct pusi); lia|]). constructor.
Qed.

Lemma ts_header_length pusi pid afc cc : length (ts_header pusi pid afc cc) = 4%nat.
Proof. reflexivity. Qed.

Lemma bytes_okb_true l : bytes_ok l -> bytes_okb l = true.
Proof. apply bytes_okb_spec. Qed.

Lemma parse_ts_packet_payload_only pusi pid cc payload :
  pid < 8192 -> length payload = 184%nat -> bytes_ok payload ->
  parse_ts_packet (ts_header pusi pid 16 cc ++ payload)
  = Some {| tp_pusi := pusi; tp_pid := pid; tp_afc := 1; tp_cc := cc mod 16;
            tp_rai := false; tp_pcr := None; tp_payload := payload |}.
Proof.
  intros Hpid Hlen Hok. unfold parse_ts_packet.
  rewrite app_length, ts_header_length, Hlen. cbn [Nat.add Nat.eqb negb].
  rewrite bytes_okb_true by (apply bytes_ok_app; [apply ts_header_ok; now left|assumption]).
  cbn [negb]. unfold ts_header. cbn [app]. fold (b1_of pusi pid).
  change (71 =? 71) with true. cbn [negb].
  rewrite hdr_b1_tei, hdr_b3_tsc by now left. change (0 =? 0) with true. cbn [negb].
  rewrite hdr_b3_afc by now left. change (16 / 16 =? 1) with true. cbv iota.
  rewrite hdr_b1_pusi, (hdr_pid _ _ Hpid), hdr_b3_cc by now left. reflexivity.
Qed.

Lemma parse_ts_packet_adapt pusi pid cc afl afbody payload rai pcr :
  pid < 8192 -> lenN afbody = afl -> afl <= 182 ->
  length (afl :: afbody ++ payload) = 184%nat ->
  bytes_ok afbody -> bytes_ok payload ->
  parse_adaptation afbody = Some (rai, pcr) ->
  parse_ts_packet (ts_header pusi pid 48 cc ++ (afl :: afbody) ++ payload)
  = Some {| tp_pusi := pusi; tp_pid := pid; tp_afc := 3; tp_cc := cc mod 16;
            tp_rai := rai; tp_pcr := pcr; tp_payload := payload |}.
Proof.
  intros Hpid Hafl Hle Hlen Hoka Hokp Hpa. unfold parse_ts_packet.
  rewrite app_length, ts_header_length. rewrite <- app_comm_cons, Hlen.
  cbn [Nat.add Nat.eqb negb].
  rewrite bytes_okb_true.
  2:{ apply bytes_ok_app; [apply ts_header_ok; now right|].
      apply bytes_ok_cons; [lia|]. now apply bytes_ok_app. }
  cbn [negb]. unfold ts_header. cbn [app]. fold (b1_of pusi pid).
  change (71 =? 71) with true. cbn [negb].
  rewrite hdr_b1_tei, hdr_b3_tsc by now right. change (0 =? 0) with true. cbn [negb].
  rewrite hdr_b3_afc by now right. change (48 / 16 =? 1) with false.
  change (48 / 16 =? 2) with false. change (48 / 16 =? 3) with true. cbn [orb]. cbv iota.
  assert (Hle' : (afl <=? 182) = true) by lia. rewrite Hle'.
  subst afl. rewrite split_exactN_app, Hpa.
  rewrite hdr_b1_pusi, (hdr_pid _ _ Hpid), hdr_b3_cc by now right. reflexivity.
Qed.

(* ---------------------------------------------------------------------- *)
(* PES header *)
Definition frame_wf (f : frame) : Prop :=
  f_pts f < 18446744073709551616 /\ f_dts f < 18446744073709551616 /\ f_cc f < 256 /\
  f_pid f < 8192 /\ f_sid f < 256 /\ sid_without_header (f_sid f) = false /\
  bytes_ok (f_raw f) /\ f_raw f <> [].

Lemma be16_join x : x < 65536 -> (x / 256) mod 256 * 256 + x mod 256 = x.
Proof. lia. Qed.
Lemma u64_mod33 x : u64 x mod 8589934592 = x mod 8589934592.
Proof. unfold u64. lia. Qed.

Lemma firstn5_pack_pts fb x r : firstn 5 (pack_pts fb x ++ r) = pack_pts fb x.
Proof. reflexivity. Qed.
Lemma firstn5_pack_pts0 fb x : firstn 5 (pack_pts fb x) = pack_pts fb x.
Proof. reflexivity. Qed.
Lemma skipn5_pack_pts fb x r : skipn 5 (pack_pts fb x ++ r) = r.
Proof. reflexivity. Qed.

Lemma pes_header_length f : length (pes_header f) = if has_dts f then 19%nat else 14%nat.
Proof. unfold pes_header, pes_header_q. destruct (has_dts f); reflexivity. Qed.

Lemma pes_header_ok f : f_sid f < 256 -> bytes_ok (pes_header f).
Proof.
  intro Hs. unfold pes_header, pes_header_q. fold pack_pts.
  destruct (has_dts f).
  - change (192 / 64) with 3.
    repeat apply bytes_ok_app; try (apply pack_pts_ok; lia).
    repeat (apply bytes_ok_cons; [lia|]). constructor.
  - change (128 / 64) with 2.
    rewrite app_nil_r.
    repeat apply bytes_ok_app; try (apply pack_pts_ok; lia).
    repeat (apply bytes_ok_cons; [lia|]). constructor.
Qed.

Definition pes_size_of (f : frame) : N :=
  let hs := if has_dts f then 10 else 5 in
  if 65535 <? lenN (f_raw f) + hs + 3 then 0 else lenN (f_raw f) + hs + 3.

Lemma parse_pes_pack f : frame_wf f ->
  parse_pes (pes_header f ++ f_raw f)
  = Some {| pp_sid := f_sid f;
            pp_pts := Some ((f_pts f + 63000) mod 8589934592);
            pp_dts := if has_dts f then Some ((f_dts f + 63000) mod 8589934592) else None;
            pp_payload := f_raw f |}.
Proof.
  intros (Hpts & Hdts & Hcc & Hpid & Hsid & Hsp & Hraw & Hne).
  unfold pes_header, pes_header_q. fold pack_pts. unfold ts_delay.
  destruct (has_dts f) eqn:Hd.
  - set (ps := if 65535 <? lenN (f_raw f) + 10 + 3 then 0 else lenN (f_raw f) + 10 + 3).
    assert (Hps : ps < 65536) by (unfold ps; destruct (65535 <? lenN (f_raw f) + 10 + 3) eqn:E; lia).
    change (192 / 64) with 3.
    cbn [app]. unfold parse_pes. rewrite Hsp. cbn [negb].
    change (128 / 64 =? 2) with true. change ((128 / 16) mod 4 =? 0) with true. cbn [negb].
    change 10 with (lenN (pack_pts 3 (u64 (f_pts f + 63000)) ++ pack_pts 1 (u64 (f_dts f + 63000)))) at 1.
    rewrite split_exactN_app.
    rewrite (be16_join _ Hps).
    assert (Hchk : ((ps =? 0) || (ps =? 3 + 10 + lenN (f_raw f))) = true).
    { unfold ps. destruct (65535 <? lenN (f_raw f) + 10 + 3); lia. }
    rewrite Hchk. cbn [negb].
    change (192 / 64 =? 0) with false. change (192 / 64 =? 2) with false. change (192 / 64 =? 3) with true.
    cbv iota.
    rewrite firstn5_pack_pts, skipn5_pack_pts.
    rewrite firstn5_pack_pts0.
    rewrite !parse_ts33_pack_pts by lia. rewrite !u64_mod33. reflexivity.
  - set (ps := if 65535 <? lenN (f_raw f) + 5 + 3 then 0 else lenN (f_raw f) + 5 + 3).
    assert (Hps : ps < 65536) by (unfold ps; destruct (65535 <? lenN (f_raw f) + 5 + 3) eqn:E; lia).
    change (128 / 64) with 2. rewrite app_nil_r.
    cbn [app]. unfold parse_pes. rewrite Hsp. cbn [negb].
    change (128 / 64 =? 2) with true. change ((128 / 16) mod 4 =? 0) with true. cbn [negb].
    change 5 with (lenN (pack_pts 2 (u64 (f_pts f + 63000)))) at 1.
    rewrite split_exactN_app.
    rewrite (be16_join _ Hps).
    assert (Hchk : ((ps =? 0) || (ps =? 3 + 5 + lenN (f_raw f))) = true).
    { unfold ps. destruct (65535 <? lenN (f_raw f) + 5 + 3); lia. }
    rewrite Hchk. cbn [negb].
    change (128 / 64 =? 0) with false. change (128 / 64 =? 2) with true.
    cbv iota.
    rewrite firstn5_pack_pts0.
    rewrite !parse_ts33_pack_pts by lia. rewrite !u64_mod33. reflexivity.
Qed.

(* ---------------------------------------------------------------------- *)
(* stuffing by a new adaptation field *)
Definition pkt_ok (p : bytes) : Prop := length p = 188%nat /\ bytes_ok p.

Lemma stuffing_new_spec s : (1 <= s <= 184)%nat ->
  exists body, stuffing_new s = N.of_nat (s - 1) :: body /\ lenN body = N.of_nat (s - 1) /\
               bytes_ok body /\ parse_adaptation body = Some (false, None).
Proof.
  intros Hs. destruct s as [|[|k]]; [lia| |].
  - exists []. repeat split; constructor.
  - exists (0 :: repeat 255 k). cbn [stuffing_new]. repeat split.
    + f_equal. unfold u8. rewrite N.mod_small by lia. lia.
    + unfold lenN. cbn [length]. rewrite repeat_length. lia.
    + apply bytes_ok_cons; [lia|apply repeat_ff_ok].
    + apply parse_adaptation_stuff.
Qed.

Lemma parse_ts_packet_stuffed pusi pid cc s payload :
  pid < 8192 -> (1 <= s)%nat -> (s + length payload = 184)%nat -> payload <> [] -> bytes_ok payload ->
  parse_ts_packet (ts_header pusi pid 48 cc ++ stuffing_new s ++ payload)
  = Some {| tp_pusi := pusi; tp_pid := pid; tp_afc := 3; tp_cc := cc mod 16;
            tp_rai := false; tp_pcr := None; tp_payload := payload |}
  /\ pkt_ok (ts_header pusi pid 48 cc ++ stuffing_new s ++ payload).
Proof.
  intros Hpid Hs Hlen Hne Hok.
  assert (Hpl : (1 <= length payload)%nat) by (destruct payload; [congruence|cbn [length]; lia]).
  destruct (stuffing_new_spec s) as (body & -> & Hbl & Hbok & Hpa); [lia|].
  assert (Hbl' : length body = (s - 1)%nat) by (unfold lenN in Hbl; lia).
  split.
  - apply parse_ts_packet_adapt; try assumption; try lia.
    cbn [length]. rewrite app_length. lia.
  - split.
    + rewrite app_length, ts_header_length. cbn [app length]. rewrite app_length. lia.
    + apply bytes_ok_app; [apply ts_header_ok; now right|].
      cbn [app]. apply bytes_ok_cons; [lia|]. now apply bytes_ok_app.
Qed.

Lemma cc_nibble_step cc : u8 (cc + 1) mod 16 = (cc mod 16 + 1) mod 16.
Proof. unfold u8. lia. Qed.

Lemma bytes_ok_firstn n l : bytes_ok l -> bytes_ok (firstn n l).
Proof. unfold bytes_ok. revert l. induction n; intros l H; [constructor|]. destruct H; [constructor|]. cbn [firstn]. constructor; auto. Qed.
Lemma bytes_ok_skipn n l : bytes_ok l -> bytes_ok (skipn n l).
Proof. unfold bytes_ok. revert l. induction n; intros l H; [assumption|]. destruct H; [constructor|]. cbn [skipn]. auto. Qed.

Lemma pack_rest_spec fuel : forall n pid cc raw,
  n = length raw -> (n <= fuel)%nat -> pid < 8192 -> bytes_ok raw ->
  demux_cont pid (cc mod 16) (pack_rest fuel n pid cc raw) = Some (raw, [])
  /\ Forall pkt_ok (pack_rest fuel n pid cc raw).
Proof.
  induction fuel as [|fuel IH]; intros n pid cc raw Hn Hfuel Hpid Hok.
  - assert (n = 0%nat) by lia. subst n. destruct raw; [|discriminate]. cbn. split; [reflexivity|constructor].
  - cbn [pack_rest]. destruct n as [|n'].
    + destruct raw; [|discriminate]. cbn. split; [reflexivity|constructor].
    + set (n := S n') in *.
      destruct (Nat.leb 184 n) eqn:Hle.
      * apply Nat.leb_le in Hle.
        assert (Hl1 : length (firstn 184 raw) = 184%nat) by (rewrite firstn_length; lia).
        destruct (IH (n - 184)%nat pid (u8 (cc + 1)) (skipn 184 raw)) as (IHd & IHf);
          [rewrite skipn_length; lia|lia|assumption|now apply bytes_ok_skipn|].
        split.
        -- cbn [demux_cont].
           rewrite parse_ts_packet_payload_only by (try assumption; now apply bytes_ok_firstn).
           cbn [tp_pusi tp_pid tp_afc tp_cc tp_rai tp_pcr tp_payload negb andb].
           rewrite N.eqb_refl. change (1 =? 1) with true. cbn [orb andb].
           rewrite IHd. rewrite cc_nibble_step, N.eqb_refl. cbn [andb].
           cbn [pcr_list app]. now rewrite firstn_skipn.
        -- constructor; [|exact IHf]. split.
           ++ rewrite app_length, ts_header_length, Hl1. reflexivity.
           ++ apply bytes_ok_app; [apply ts_header_ok; now left|now apply bytes_ok_firstn].
      * apply Nat.leb_gt in Hle.
        destruct (parse_ts_packet_stuffed false pid (u8 (cc + 1)) (184 - n) raw) as (Hp & Hk);
          [assumption|lia|lia|destruct raw; [discriminate|congruence]|assumption|].
        split.
        -- cbn [demux_cont]. rewrite Hp.
           cbn [tp_pusi tp_pid tp_afc tp_cc tp_rai tp_pcr tp_payload negb andb].
           rewrite N.eqb_refl. change (3 =? 1) with false. change (3 =? 3) with true. cbn [orb andb].
           rewrite cc_nibble_step, N.eqb_refl. cbn [andb pcr_list app]. now rewrite app_nil_r.
        -- constructor; [exact Hk|constructor].
Qed.

(* ---------------------------------------------------------------------- *)
(* the key-frame adaptation field, grown by [s] stuffing bytes *)
Lemma parse_ts_packet_key pid cc f s payload :
  pid < 8192 -> (12 + s + length payload = 188)%nat -> payload <> [] -> bytes_ok payload ->
  parse_ts_packet (ts_header true pid 48 cc ++ adapt_pcr f s ++ payload)
  = Some {| tp_pusi := true; tp_pid := pid; tp_afc := 3; tp_cc := cc mod 16;
            tp_rai := true; tp_pcr := Some (frame_pcr f mod 8589934592 * 300); tp_payload := payload |}
  /\ pkt_ok (ts_header true pid 48 cc ++ adapt_pcr f s ++ payload).
Proof.
  intros Hpid Hlen Hne Hok.
  assert (Hpl : (1 <= length payload)%nat) by (destruct payload; [congruence|cbn [length]; lia]).
  assert (Hsh : adapt_pcr f s = (7 + N.of_nat s) :: (80 :: pack_pcr (frame_pcr f) ++ repeat 255 s)).
  { unfold adapt_pcr, u8. rewrite N.mod_small by lia. reflexivity. }
  rewrite Hsh.
  assert (Hbl : length (80 :: pack_pcr (frame_pcr f) ++ repeat 255 s) = (7 + s)%nat).
  { cbn [length]. rewrite app_length, repeat_length. reflexivity. }
  assert (Hbok : bytes_ok (80 :: pack_pcr (frame_pcr f) ++ repeat 255 s)).
  { apply bytes_ok_cons; [lia|]. apply bytes_ok_app; [apply pack_pcr_ok|apply repeat_ff_ok]. }
  split.
  - apply parse_ts_packet_adapt; try assumption.
    + unfold lenN. rewrite Hbl. lia.
    + lia.
    + change (length ((7 + N.of_nat s) :: (80 :: pack_pcr (frame_pcr f) ++ repeat 255 s) ++ payload))
        with (S (length ((80 :: pack_pcr (frame_pcr f) ++ repeat 255 s) ++ payload))).
      rewrite app_length, Hbl. lia.
    + apply parse_adaptation_pcr.
  - split.
    + rewrite app_length, ts_header_length.
      change (length (((7 + N.of_nat s) :: 80 :: pack_pcr (frame_pcr f) ++ repeat 255 s) ++ payload))
        with (S (length ((80 :: pack_pcr (frame_pcr f) ++ repeat 255 s) ++ payload))).
      rewrite app_length, Hbl. lia.
    + apply bytes_ok_app; [apply ts_header_ok; now right|].
      apply bytes_ok_app; [|assumption]. apply bytes_ok_cons; [lia|assumption].
Qed.

Definition first_tp (f : frame) (afc : N) (used : nat) : ts_packet :=
  {| tp_pusi := true; tp_pid := f_pid f; tp_afc := afc; tp_cc := u8 (f_cc f + 1) mod 16;
     tp_rai := f_key f;
     tp_pcr := if f_key f then Some (frame_pcr f mod 8589934592 * 300) else None;
     tp_payload := pes_header f ++ firstn used (f_raw f) |}.

Lemma pack_first_spec f : frame_wf f ->
  exists afc, (afc = 1 \/ afc = 3) /\
  (snd (pack_first_q fixed_tree f (length (f_raw f))) <= length (f_raw f))%nat /\
  pkt_ok (fst (pack_first_q fixed_tree f (length (f_raw f)))) /\
  parse_ts_packet (fst (pack_first_q fixed_tree f (length (f_raw f))))
  = Some (first_tp f afc (snd (pack_first_q fixed_tree f (length (f_raw f))))).
Proof.
  intros (Hpts & Hdts & Hcc & Hpid & Hsid & Hsp & Hraw & Hne).
  unfold pack_first_q. cbn [q_f04 fixed_tree]. fold (pes_header f).
  pose proof (pes_header_length f) as Hpl.
  pose proof (pes_header_ok f Hsid) as Hpok.
  set (n := length (f_raw f)).
  assert (Hn : (1 <= n)%nat) by (unfold n; destruct (f_raw f); [congruence|cbn [length]; lia]).
  unfold first_tp.
  destruct (f_key f) eqn:Hkey.
  - (* key frame: adaptation field with PCR *)
    set (body := (188 - (4 + 8 + length (pes_header f)))%nat).
    assert (Hbody : (body + length (pes_header f) = 176)%nat) by (unfold body; destruct (has_dts f); lia).
    destruct (Nat.leb body n) eqn:Hle.
    + apply Nat.leb_le in Hle. cbn [fst snd].
      destruct (parse_ts_packet_key (f_pid f) (u8 (f_cc f + 1)) f 0 (pes_header f ++ firstn body (f_raw f))) as (Hp & Hk).
      * assumption.
      * rewrite app_length, firstn_length. fold n. lia.
      * destruct (pes_header f); [cbn [length] in Hpl; destruct (has_dts f); discriminate|discriminate].
      * apply bytes_ok_app; [assumption|now apply bytes_ok_firstn].
      * exists 3. repeat split; [now right|exact Hle|apply Hk|apply Hk|exact Hp].
    + apply Nat.leb_gt in Hle. cbn [fst snd].
      destruct (parse_ts_packet_key (f_pid f) (u8 (f_cc f + 1)) f (body - n) (pes_header f ++ f_raw f)) as (Hp & Hk).
      * assumption.
      * rewrite app_length. fold n. lia.
      * destruct (pes_header f); [cbn [length] in Hpl; destruct (has_dts f); discriminate|discriminate].
      * now apply bytes_ok_app.
      * exists 3. repeat split; [now right|lia|apply Hk|apply Hk|].
        rewrite Hp. unfold n. now rewrite firstn_all.
  - set (body := (188 - (4 + 0 + length (pes_header f)))%nat).
    assert (Hbody : (body + length (pes_header f) = 184)%nat) by (unfold body; destruct (has_dts f); lia).
    destruct (Nat.leb body n) eqn:Hle.
    + apply Nat.leb_le in Hle. cbn [fst snd app].
      exists 1. repeat split; [now left|exact Hle| | |].
      * rewrite !app_length, ts_header_length, firstn_length. fold n. lia.
      * apply bytes_ok_app; [apply ts_header_ok; now left|].
        apply bytes_ok_app; [assumption|now apply bytes_ok_firstn].
      * apply parse_ts_packet_payload_only; [assumption| |].
        -- rewrite app_length, firstn_length. fold n. lia.
        -- apply bytes_ok_app; [assumption|now apply bytes_ok_firstn].
    + apply Nat.leb_gt in Hle. cbn [fst snd].
      destruct (parse_ts_packet_stuffed true (f_pid f) (u8 (f_cc f + 1)) (body - n) (pes_header f ++ f_raw f)) as (Hp & Hk).
      * assumption.
      * lia.
      * rewrite app_length. fold n. lia.
      * destruct (pes_header f); [cbn [length] in Hpl; destruct (has_dts f); discriminate|discriminate].
      * now apply bytes_ok_app.
      * exists 3. repeat split; [now right|lia|apply Hk|apply Hk|].
        rewrite Hp. unfold n. now rewrite firstn_all.
Qed.

(* ---------------------------------------------------------------------- *)
(* the whole frame *)
Definition expected_unit (f : frame) : access_unit :=
  {| au_pid := f_pid f; au_sid := f_sid f;
     au_pts := Some ((f_pts f + 63000) mod 8589934592);
     au_dts := if f_dts f =? f_pts f then None else Some ((f_dts f + 63000) mod 8589934592);
     au_rai := f_key f;
     au_pcrs := if f_key f then [frame_pcr f mod 8589934592 * 300] else [];
     au_cc_first := (f_cc f + 1) mod 16;
     au_payload := f_raw f |}.

Lemma u8_mod16 x : u8 x mod 16 = x mod 16.
Proof. unfold u8. lia. Qed.

Theorem pack_wellformed_lossless f : frame_wf f ->
  Forall pkt_ok (fst (pack f)) /\ demux_unit (fst (pack f)) = Some (expected_unit f).
Proof.
  intro Hwf. pose proof Hwf as (Hpts & Hdts & Hcc & Hpid & Hsid & Hsp & Hraw & Hne).
  destruct (pack_first_spec f Hwf) as (afc & Hafc & Hused & Hk0 & Hp0).
  unfold pack, pack_q.
  destruct (length (f_raw f)) as [|n'] eqn:Hn; [destruct (f_raw f); [congruence|discriminate]|].
  rewrite <- Hn in *. clear n' Hn.
  destruct (pack_first_q fixed_tree f (length (f_raw f))) as [p0 used] eqn:E.
  cbn [fst snd] in *.
  destruct (pack_rest_spec (length (f_raw f) - used) (length (f_raw f) - used) (f_pid f) (u8 (f_cc f + 1))
              (skipn used (f_raw f))) as (Hd & Hf);
    [now rewrite skipn_length|lia|assumption|now apply bytes_ok_skipn|].
  split; [constructor; assumption|].
  unfold demux_unit. rewrite Hp0. unfold first_tp at 1 2 3.
  cbn [tp_pusi tp_pid tp_afc tp_cc tp_rai tp_pcr tp_payload andb].
  assert (Hafcb : ((afc =? 1) || (afc =? 3)) = true) by (destruct Hafc as [-> | ->]; reflexivity).
  rewrite Hafcb. unfold first_tp. cbn [tp_pusi tp_pid tp_afc tp_cc tp_rai tp_pcr tp_payload].
  rewrite Hd. rewrite <- app_assoc, firstn_skipn.
  rewrite (parse_pes_pack f Hwf). cbn [pp_sid pp_pts pp_dts pp_payload].
  unfold expected_unit. rewrite u8_mod16, app_nil_r.
  f_equal. f_equal.
  - unfold has_dts. destruct (f_dts f =? f_pts f); reflexivity.
  - destruct (f_key f); reflexivity.
Qed.

(* every packet is 188 bytes of byte values *)
Corollary pack_all_188 f : frame_wf f -> Forall (fun p => length p = 188%nat /\ bytes_ok p) (fst (pack f)).
Proof. intro H. exact (proj1 (pack_wellformed_lossless f H)). Qed.

(* ---------------------------------------------------------------------- *)
(* continuity counters *)
Lemma some_inj {A} (a b : A) : Some a = Some b -> a = b.
Proof. congruence. Qed.

Lemma pkt_cc_header pusi pid afc cc r : afc = 16 \/ afc = 48 ->
  pkt_cc (ts_header pusi pid afc cc ++ r) = cc mod 16.
Proof. intro Ha. unfold pkt_cc, ts_header. cbn [app nth]. now apply hdr_b3_cc. Qed.

Lemma pack_first_cc f n : pkt_cc (fst (pack_first_q fixed_tree f n)) = (f_cc f + 1) mod 16.
Proof.
  unfold pack_first_q. cbn [q_f04 fixed_tree].
  destruct (f_key f); match goal with |- context [Nat.leb ?a ?b] => destruct (Nat.leb a b) end;
    cbn [fst]; rewrite pkt_cc_header by (now left + now right); apply u8_mod16.
Qed.

Lemma pack_rest_cc fuel : forall n pid cc raw i p,
  nth_error (pack_rest fuel n pid cc raw) i = Some p -> pkt_cc p = (cc + 1 + N.of_nat i) mod 16.
Proof.
  induction fuel as [|fuel IH]; intros n pid cc raw i p H.
  - destruct i; discriminate.
  - cbn [pack_rest] in H. destruct n as [|n']; [destruct i; discriminate|].
    destruct (Nat.leb 184 (S n')).
    + destruct i as [|i].
      * cbn [nth_error] in H. apply some_inj in H. subst p. rewrite pkt_cc_header by now left. rewrite u8_mod16. f_equal. lia.
      * cbn [nth_error] in H. apply IH in H. rewrite H. unfold u8. lia.
    + destruct i as [|[|i]]; [|discriminate|discriminate].
      cbn [nth_error] in H. apply some_inj in H. subst p. rewrite pkt_cc_header by now right. rewrite u8_mod16. f_equal. lia.
Qed.

Theorem pack_cc f : f_cc f < 256 ->
  (forall i p, nth_error (fst (pack f)) i = Some p -> pkt_cc p = (f_cc f + 1 + N.of_nat i) mod 16)
  /\ snd (pack f) = (f_cc f + N.of_nat (length (fst (pack f)))) mod 256.
Proof.
  intro Hcc. unfold pack, pack_q.
  destruct (length (f_raw f)) as [|n'] eqn:Hn.
  - cbn [fst snd length]. split; [intros [|i] p H; discriminate|]. rewrite N.mod_small; lia.
  - pose proof (pack_first_cc f (S n')) as H0.
    destruct (pack_first_q fixed_tree f (S n')) as [p0 used]. cbn [fst snd] in *.
    split.
    + intros [|i] p H.
      * cbn [nth_error] in H. apply some_inj in H. subst p. rewrite H0. f_equal. lia.
      * cbn [nth_error] in H. apply pack_rest_cc in H. rewrite H. unfold u8. lia.
    + unfold u8. cbn [length]. f_equal. lia.
Qed.

(* any sequence of frames of one PID, counter carried from frame to frame *)
Lemma pack_seq_cc fs : forall cc, cc < 256 ->
  (forall i p, nth_error (concat (fst (pack_seq cc fs))) i = Some p -> pkt_cc p = (cc + 1 + N.of_nat i) mod 16)
  /\ snd (pack_seq cc fs) = (cc + N.of_nat (length (concat (fst (pack_seq cc fs))))) mod 256.
Proof.
  induction fs as [|f t IH]; intros cc Hcc.
  - cbn. split; [intros [|i] p H; discriminate|]. rewrite N.mod_small; lia.
  - unfold pack_seq in *. cbn [pack_seq_q]. fold (pack (with_cc f cc)).
    destruct (pack_cc (with_cc f cc) Hcc) as (Hi & Hs). cbn [with_cc f_cc] in Hi, Hs.
    destruct (pack (with_cc f cc)) as [pk cc1]. cbn [fst snd] in *.
    assert (Hcc1 : cc1 < 256) by (subst cc1; apply N.mod_lt; discriminate).
    destruct (IH cc1 Hcc1) as (IHi & IHs).
    destruct (pack_seq_q fixed_tree cc1 t) as [rest cc2]. cbn [fst snd concat] in *.
    split.
    + intros i p H. destruct (Nat.ltb i (length pk)) eqn:Hlt.
      * apply Nat.ltb_lt in Hlt. rewrite nth_error_app1 in H by assumption. now apply Hi.
      * apply Nat.ltb_ge in Hlt. rewrite nth_error_app2 in H by assumption.
        apply IHi in H. rewrite H, Hs. lia.
    + rewrite IHs, Hs, app_length. lia.
Qed.

(* ---------------------------------------------------------------------- *)
(* the pinned tree (before the two repairs) does not have the property *)

(* F-04: key frame of 5 bytes, PTS = DTS = 1 s *)
Definition f04_witness : frame :=
  {| f_pts := 90000; f_dts := 90000; f_cc := 0; f_pid := 256; f_sid := 224; f_key := true;
     f_raw := [1; 2; 3; 4; 5] |}.
(* PTS bit 30: non-key frame of 1 byte stamped 2^30 ticks (3 h 18 min 50 s) *)
Definition pts30_witness : frame :=
  {| f_pts := 1073741824; f_dts := 1073741824; f_cc := 0; f_pid := 256; f_sid := 224; f_key := false;
     f_raw := [1] |}.

Lemma f04_witness_wf : frame_wf f04_witness.
Proof. unfold frame_wf, f04_witness; cbn. repeat split; try reflexivity; try discriminate.
  repeat (apply bytes_ok_cons; [reflexivity|]). constructor. Qed.
Lemma pts30_witness_wf : frame_wf pts30_witness.
Proof. unfold frame_wf, pts30_witness; cbn. repeat split; try reflexivity; try discriminate.
  repeat (apply bytes_ok_cons; [reflexivity|]). constructor. Qed.

Lemma pack_pinned_refuted_f04 :
  exists f, frame_wf f /\ demux_unit (fst (pack_pinned f)) = None.
Proof. exists f04_witness. split; [exact f04_witness_wf|vm_compute; reflexivity]. Qed.

Lemma pack_pinned_refuted_pts30 :
  exists f, frame_wf f /\
    exists u, demux_unit (fst (pack_pinned f)) = Some u /\ au_pts u = Some 63000
              /\ au_pts (expected_unit f) = Some 1073804824.
Proof.
  exists pts30_witness. split; [exact pts30_witness_wf|].
  eexists. split; [vm_compute; reflexivity|]. split; vm_compute; reflexivity.
Qed.
