(* Reference ISO/IEC 13818-1 demultiplexer, written from the standard and
   independent of lal's packer: transport packet (2.4.3.2), adaptation field
   (2.4.3.4/5), PES packet header (2.4.3.6/7), PSI sections (2.4.4) with the
   CRC-32 of annex A computed bit by bit.  This is the SPECIFICATION side of
   C09.  No proofs in this file. *)
From Lal Require Import Common.LBytes.
Open Scope N_scope.

(* ---------------------------------------------------------------------- *)
(* transport packet *)

Record ts_packet := mk_ts_packet {
  tp_pusi : bool;            (* payload_unit_start_indicator *)
  tp_pid : N;                (* 13 bits *)
  tp_afc : N;                (* adaptation_field_control: 1 payload, 2 adaptation, 3 both *)
  tp_cc : N;                 (* continuity_counter, 4 bits *)
  tp_rai : bool;             (* random_access_indicator *)
  tp_pcr : option N;         (* program_clock_reference = base * 300 + extension *)
  tp_payload : bytes
}.

Definition all_ff (l : bytes) : bool := forallb (N.eqb 255) l.

(* the adaptation_field_length bytes that follow the length byte.  Only the
   PCR optional field is supported (OPCR, splice countdown, private data and
   extension are refused); everything after the optional fields must be
   stuffing_byte = 0xFF. *)
Definition parse_adaptation (af : bytes) : option (bool * option N) :=
  match af with
  | [] => Some (false, None)
  | flags :: rest =>
    let rai := (flags / 64) mod 2 =? 1 in
    if negb (flags mod 16 =? 0) then None else
    if (flags / 16) mod 2 =? 1 then
      match rest with
      | b0 :: b1 :: b2 :: b3 :: b4 :: b5 :: stuff =>
        if all_ff stuff then
          let base := b0 * 33554432 + b1 * 131072 + b2 * 512 + b3 * 2 + b4 / 128 in
          let ext := (b4 mod 2) * 256 + b5 in
          Some (rai, Some (base * 300 + ext))
        else None
      | _ => None
      end
    else if all_ff rest then Some (rai, None) else None
  end.

Definition parse_ts_packet (p : bytes) : option ts_packet :=
  if negb (Nat.eqb (length p) 188) then None else
  if negb (bytes_okb p) then None else
  match p with
  | sync :: b1 :: b2 :: b3 :: rest =>
    if negb (sync =? 71) then None else                    (* sync_byte *)
    if negb (b1 / 128 =? 0) then None else                 (* transport_error_indicator *)
    if negb (b3 / 64 =? 0) then None else                  (* transport_scrambling_control *)
    let pusi := (b1 / 64) mod 2 =? 1 in
    let pid := (b1 mod 32) * 256 + b2 in
    let afc := (b3 / 16) mod 4 in
    let cc := b3 mod 16 in
    if afc =? 1 then
      Some {| tp_pusi := pusi; tp_pid := pid; tp_afc := afc; tp_cc := cc;
              tp_rai := false; tp_pcr := None; tp_payload := rest |}
    else if (afc =? 2) || (afc =? 3) then
      match rest with
      | afl :: rest' =>
        (* 2.4.3.5: 0..182 when a payload follows, exactly 183 otherwise *)
        if (if afc =? 3 then afl <=? 182 else afl =? 183) then
          match split_exactN afl rest' with
          | Some (af, payload) =>
            match parse_adaptation af with
            | Some (rai, pcr) =>
              Some {| tp_pusi := pusi; tp_pid := pid; tp_afc := afc; tp_cc := cc;
                      tp_rai := rai; tp_pcr := pcr; tp_payload := payload |}
            | None => None
            end
          | None => None
          end
        else None
      | [] => None
      end
    else None                                               (* afc = 0 is reserved *)
  | _ => None
  end.

(* ---------------------------------------------------------------------- *)
(* PES packet *)

(* '0010' / '0011' / '0001' prefix, 3 + 15 + 15 bits with three marker bits *)
Definition parse_ts33 (prefix : N) (l : bytes) : option N :=
  match l with
  | [b0; b1; b2; b3; b4] =>
    if (b0 / 16 =? prefix) && (b0 mod 2 =? 1) && (b2 mod 2 =? 1) && (b4 mod 2 =? 1)
    then Some (((b0 / 2) mod 8) * 1073741824 + ((b1 * 256 + b2) / 2) * 32768 + (b3 * 256 + b4) / 2)
    else None
  | _ => None
  end.

Record pes_packet := mk_pes_packet {
  pp_sid : N;
  pp_pts : option N;
  pp_dts : option N;
  pp_payload : bytes
}.

(* stream ids without the optional PES header (table 2-18): program_stream_map,
   padding_stream, private_stream_2, ECM, EMM, DSMCC, H.222.1 type E,
   program_stream_directory *)
Definition sid_without_header (sid : N) : bool :=
  (sid =? 188) || (sid =? 190) || (sid =? 191) || (sid =? 240) || (sid =? 241)
  || (sid =? 242) || (sid =? 248) || (sid =? 255).

(* one complete PES packet.  PES_packet_length = 0 means "unbounded" (the
   standard allows it for video elementary streams carried in transport
   packets; the reference accepts it for every stream id, see design.d/C09.md) *)
Definition parse_pes (l : bytes) : option pes_packet :=
  match l with
  | 0 :: 0 :: 1 :: sid :: l1 :: l0 :: f1 :: f2 :: hdl :: rest =>
    if sid_without_header sid then None else
    if negb (f1 / 64 =? 2) then None else                  (* '10' *)
    if negb ((f1 / 16) mod 4 =? 0) then None else          (* PES_scrambling_control *)
    match split_exactN hdl rest with
    | None => None
    | Some (hd, payload) =>
      let plen := l1 * 256 + l0 in
      if negb ((plen =? 0) || (plen =? 3 + hdl + lenN payload)) then None else
      let fl := f2 / 64 in                                  (* PTS_DTS_flags *)
      if fl =? 0 then Some {| pp_sid := sid; pp_pts := None; pp_dts := None; pp_payload := payload |}
      else if fl =? 2 then
        match parse_ts33 2 (firstn 5 hd) with
        | Some pts => Some {| pp_sid := sid; pp_pts := Some pts; pp_dts := None; pp_payload := payload |}
        | None => None
        end
      else if fl =? 3 then
        match parse_ts33 3 (firstn 5 hd), parse_ts33 1 (firstn 5 (skipn 5 hd)) with
        | Some pts, Some dts =>
          Some {| pp_sid := sid; pp_pts := Some pts; pp_dts := Some dts; pp_payload := payload |}
        | _, _ => None
        end
      else None                                             (* '01' is forbidden *)
    end
  | _ => None
  end.

(* ---------------------------------------------------------------------- *)
(* one access unit = the transport packets of one PES packet of one PID *)

Record access_unit := mk_access_unit {
  au_pid : N;
  au_sid : N;
  au_pts : option N;
  au_dts : option N;
  au_rai : bool;             (* random_access_indicator of the first packet *)
  au_pcrs : list N;          (* every PCR carried by the packets of the unit, in order *)
  au_cc_first : N;           (* continuity counter of the first packet *)
  au_payload : bytes
}.

Definition pcr_list (o : option N) : list N := match o with Some v => [v] | None => [] end.

(* continuation packets: same PID, no unit start, a payload, the counter
   advancing by one modulo 16, no random-access mark *)
Fixpoint demux_cont (pid cc : N) (pkts : list bytes) : option (bytes * list N) :=
  match pkts with
  | [] => Some ([], [])
  | p :: t =>
    match parse_ts_packet p with
    | None => None
    | Some tp =>
      if negb (tp_pusi tp) && (tp_pid tp =? pid) && ((tp_afc tp =? 1) || (tp_afc tp =? 3))
         && (tp_cc tp =? (cc + 1) mod 16) && negb (tp_rai tp)
      then
        match demux_cont pid (tp_cc tp) t with
        | Some (more, pcrs) => Some (tp_payload tp ++ more, pcr_list (tp_pcr tp) ++ pcrs)
        | None => None
        end
      else None
    end
  end.

Definition demux_unit (pkts : list bytes) : option access_unit :=
  match pkts with
  | [] => None
  | p :: t =>
    match parse_ts_packet p with
    | None => None
    | Some tp =>
      if tp_pusi tp && ((tp_afc tp =? 1) || (tp_afc tp =? 3)) then
        match demux_cont (tp_pid tp) (tp_cc tp) t with
        | None => None
        | Some (more, pcrs) =>
          match parse_pes (tp_payload tp ++ more) with
          | None => None
          | Some pes =>
            Some {| au_pid := tp_pid tp; au_sid := pp_sid pes; au_pts := pp_pts pes; au_dts := pp_dts pes;
                    au_rai := tp_rai tp; au_pcrs := pcr_list (tp_pcr tp) ++ pcrs;
                    au_cc_first := tp_cc tp; au_payload := pp_payload pes |}
          end
        end
      else None
    end
  end.

(* a whole single-PID stream: a new unit starts at every packet with
   payload_unit_start_indicator = 1; [cur] holds the packets (reversed) of the
   unit being collected *)
Definition pkt_starts (p : bytes) : bool :=      (* payload_unit_start_indicator *)
  match p with _ :: b1 :: _ => (b1 / 64) mod 2 =? 1 | _ => false end.
Definition pkt_cc (p : bytes) : N := nth 3 p 0 mod 16.   (* continuity_counter *)

Fixpoint split_units (cur : list bytes) (pkts : list bytes) : list (list bytes) :=
  match pkts with
  | [] => match cur with [] => [] | _ => [rev cur] end
  | p :: t =>
    if pkt_starts p then
      match cur with
      | [] => split_units [p] t
      | _ => rev cur :: split_units [p] t
      end
    else split_units (p :: cur) t
  end.

Fixpoint all_some {A} (l : list (option A)) : option (list A) :=
  match l with
  | [] => Some []
  | None :: _ => None
  | Some a :: t => match all_some t with Some r => Some (a :: r) | None => None end
  end.

(* counters must also be continuous from the last packet of a unit to the
   first packet of the next one *)
Fixpoint cc_chain_ok (prev : option N) (pkts : list bytes) : bool :=
  match pkts with
  | [] => true
  | p :: t =>
    let cc := pkt_cc p in
    (match prev with None => true | Some c => cc =? (c + 1) mod 16 end) && cc_chain_ok (Some cc) t
  end.

Definition demux_stream (pkts : list bytes) : option (list access_unit) :=
  if cc_chain_ok None pkts then all_some (map demux_unit (split_units [] pkts)) else None.

(* ---------------------------------------------------------------------- *)
(* PSI sections *)

(* CRC-32 of annex A (polynomial 0x04C11DB7, register preset to all ones,
   msb first, no final complement), one bit at a time *)
Definition crc_bit (crc : N) (bit : bool) : N :=
  let top := N.testbit crc 31 in
  let sh := (crc * 2) mod 4294967296 in
  if xorb top bit then N.lxor sh 79764919 else sh.
Definition crc_byte (crc b : N) : N :=
  fold_left (fun c k => crc_bit c (N.testbit b k)) [7; 6; 5; 4; 3; 2; 1; 0] crc.
Definition spec_crc32 (l : bytes) : N := fold_left crc_byte l 4294967295.

Record section := mk_section {
  s_table_id : N;
  s_tid_ext : N;             (* transport_stream_id / program_number *)
  s_version : N;
  s_current_next : N;
  s_secnum : N;
  s_lastsec : N;
  s_data : bytes             (* between last_section_number and CRC_32 *)
}.

(* a transport packet that carries exactly one complete section: PUSI set,
   pointer_field, the section with section_syntax_indicator = 1, a zero CRC
   residue over the whole section, 0xFF up to the end of the packet *)
Definition parse_section_packet (p : bytes) : option (N * section) :=
  match parse_ts_packet p with
  | None => None
  | Some tp =>
    if negb (tp_pusi tp) then None else
    match tp_payload tp with
    | pointer :: rest0 =>
      match split_exactN pointer rest0 with
      | None => None
      | Some (_, table_id :: b1 :: b2 :: rest) =>
        let slen := (b1 mod 16) * 256 + b2 in
        if negb ((b1 / 128 =? 1) && ((b1 / 64) mod 2 =? 0)) then None else
        if negb ((9 <=? slen) && (slen <=? 1021)) then None else
        match split_exactN slen rest with
        | None => None
        | Some (body, tail) =>
          if negb (all_ff tail) then None else
          if negb (spec_crc32 (table_id :: b1 :: b2 :: body) =? 0) then None else
          match body with
          | e1 :: e0 :: vb :: sn :: lsn :: rest2 =>
            Some (tp_pid tp,
                  {| s_table_id := table_id; s_tid_ext := e1 * 256 + e0;
                     s_version := (vb / 2) mod 32; s_current_next := vb mod 2;
                     s_secnum := sn; s_lastsec := lsn;
                     s_data := firstn (length rest2 - 4) rest2 |})
          | _ => None
          end
        end
      | Some (_, _) => None
      end
    | [] => None
    end
  end.

(* program_association_section: (program_number, PID) entries *)
Fixpoint parse_pat_entries (fuel : nat) (d : bytes) : option (list (N * N)) :=
  match d with
  | [] => Some []
  | n1 :: n0 :: p1 :: p0 :: t =>
    match fuel with
    | O => None
    | S f => match parse_pat_entries f t with
             | Some r => Some ((n1 * 256 + n0, (p1 mod 32) * 256 + p0) :: r)
             | None => None
             end
    end
  | _ => None
  end.

(* descriptor loop: (tag, body) *)
Fixpoint parse_descriptors (fuel : nat) (d : bytes) : option (list (N * bytes)) :=
  match d with
  | [] => Some []
  | tag :: len :: t =>
    match fuel with
    | O => None
    | S f =>
      match split_exactN len t with
      | None => None
      | Some (body, t') => match parse_descriptors f t' with
                           | Some r => Some ((tag, body) :: r)
                           | None => None
                           end
      end
    end
  | _ => None
  end.

Record es_info := mk_es_info { es_stream_type : N; es_pid : N; es_descriptors : list (N * bytes) }.

Fixpoint parse_pmt_streams (fuel : nat) (d : bytes) : option (list es_info) :=
  match d with
  | [] => Some []
  | st :: p1 :: p0 :: i1 :: i0 :: t =>
    match fuel with
    | O => None
    | S f =>
      match split_exactN ((i1 mod 16) * 256 + i0) t with
      | None => None
      | Some (ds, t') =>
        match parse_descriptors (length ds) ds, parse_pmt_streams f t' with
        | Some dl, Some r => Some ({| es_stream_type := st; es_pid := (p1 mod 32) * 256 + p0; es_descriptors := dl |} :: r)
        | _, _ => None
        end
      end
    end
  | _ => None
  end.

Record pat_info := mk_pat_info { pat_ts_pid : N; pat_tsid : N; pat_programs : list (N * N) }.
Record pmt_info := mk_pmt_info { pmt_ts_pid : N; pmt_program : N; pmt_pcr_pid : N; pmt_streams_of : list es_info }.

Definition section_single_current (s : section) : bool :=
  (s_current_next s =? 1) && (s_secnum s =? 0) && (s_lastsec s =? 0).

Definition parse_pat_packet (p : bytes) : option pat_info :=
  match parse_section_packet p with
  | Some (pid, s) =>
    if (s_table_id s =? 0) && section_single_current s then
      match parse_pat_entries (length (s_data s)) (s_data s) with
      | Some l => Some {| pat_ts_pid := pid; pat_tsid := s_tid_ext s; pat_programs := l |}
      | None => None
      end
    else None
  | None => None
  end.

Definition parse_pmt_packet (p : bytes) : option pmt_info :=
  match parse_section_packet p with
  | Some (pid, s) =>
    if (s_table_id s =? 2) && section_single_current s then
      match s_data s with
      | c1 :: c0 :: l1 :: l0 :: t =>
        match split_exactN ((l1 mod 16) * 256 + l0) t with
        | Some (_, streams) =>
          match parse_pmt_streams (length streams) streams with
          | Some l => Some {| pmt_ts_pid := pid; pmt_program := s_tid_ext s;
                              pmt_pcr_pid := (c1 mod 32) * 256 + c0; pmt_streams_of := l |}
          | None => None
          end
        | None => None
        end
      | _ => None
      end
    else None
  | None => None
  end.

(* what a PMT has to declare for lal's codec ids (ISO 13818-1 table 2-34 stream
   types; Opus as private data with the 'Opus' registration descriptor and the
   channel-configuration extension descriptor of the "Opus in MPEG-TS" mapping):
   video 7 = AVC, 12 = HEVC on PID 0x100; audio 10 = AAC, 13 = Opus on PID 0x101;
   any other id declares nothing *)
Definition expected_streams (v a : Z) : list es_info :=
  (if Z.eqb v 7 then [{| es_stream_type := 27; es_pid := 256; es_descriptors := [] |}]
   else if Z.eqb v 12 then [{| es_stream_type := 36; es_pid := 256; es_descriptors := [] |}]
   else [])
  ++
  (if Z.eqb a 10 then [{| es_stream_type := 15; es_pid := 257; es_descriptors := [] |}]
   else if Z.eqb a 13 then [{| es_stream_type := 6; es_pid := 257;
                               es_descriptors := [(5, [79; 112; 117; 115]); (127, [128; 2])] |}]
   else []).
