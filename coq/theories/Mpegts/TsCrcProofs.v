(* C09: lal's CalcCrc32 (reflected table loop over a byte-swapped table and
   register) is the CRC-32 of ISO/IEC 13818-1 annex A for every buffer, and
   every section PsiSection.Pack emits carries a verifying CRC_32. *)
From Lal Require Import Common.LBytes Common.LBytesProofs Common.BitsProofs Mpegts.TsPsi Mpegts.TsDemux Mpegts.TsPsiProofs.
From Coq Require Import Lia ZifyN ZifyNat ZifyBool.
Open Scope N_scope.

(* ---- xor algebra on N ---- *)
Lemma mod_lxor x y n : (N.lxor x y) mod 2 ^ n = N.lxor (x mod 2 ^ n) (y mod 2 ^ n).
Proof.
  apply N.bits_inj. intro m. rewrite N.lxor_spec.
  destruct (N.lt_ge_cases m n) as [H|H].
  - rewrite !N.mod_pow2_bits_low by assumption. apply N.lxor_spec.
  - rewrite !N.mod_pow2_bits_high by assumption. reflexivity.
Qed.
Lemma div_lxor x y n : (N.lxor x y) / 2 ^ n = N.lxor (x / 2 ^ n) (y / 2 ^ n).
Proof. rewrite <- !N.shiftr_div_pow2. apply N.shiftr_lxor. Qed.
Lemma mul_lxor x y n : (N.lxor x y) * 2 ^ n = N.lxor (x * 2 ^ n) (y * 2 ^ n).
Proof. rewrite <- !N.shiftl_mul_pow2. apply N.shiftl_lxor. Qed.
Lemma lxor_lt x y n : x < 2 ^ n -> y < 2 ^ n -> N.lxor x y < 2 ^ n.
Proof.
  intros Hx Hy. rewrite <- (N.mod_small x (2 ^ n)), <- (N.mod_small y (2 ^ n)) by assumption.
  rewrite <- mod_lxor. apply N.mod_lt. apply N.pow_nonzero. discriminate.
Qed.
Lemma add_disjoint_lxor r x n : x < 2 ^ n -> r * 2 ^ n + x = N.lxor (r * 2 ^ n) x.
Proof. intro H. apply N.add_nocarry_lxor. now apply land_shift_small. Qed.

Ltac lxor_ac := apply N.bits_inj; intro; rewrite ?N.lxor_spec, ?N.bits_0;
  repeat match goal with |- context [N.testbit ?a ?m] => destruct (N.testbit a m) end; reflexivity.

(* ---- the bit-serial register is xor-linear ---- *)
Definition sh (c : N) : N := (c * 2) mod 4294967296.
Lemma sh_lxor x y : sh (N.lxor x y) = N.lxor (sh x) (sh y).
Proof.
  assert (E : forall c, sh c = (c * 2 ^ 1) mod 2 ^ 32) by reflexivity.
  rewrite !E. now rewrite mul_lxor, mod_lxor.
Qed.

Lemma crc_bit_unfold c b : crc_bit c b = if xorb (N.testbit c 31) b then N.lxor (sh c) 79764919 else sh c.
Proof. reflexivity. Qed.

Lemma crc_bit_lxor x y a b : crc_bit (N.lxor x y) (xorb a b) = N.lxor (crc_bit x a) (crc_bit y b).
Proof.
  rewrite !crc_bit_unfold, N.lxor_spec, sh_lxor.
  destruct (N.testbit x 31), (N.testbit y 31), a, b; cbn [xorb]; lxor_ac.
Qed.

Lemma crc_byte_lxor x y a b : crc_byte (N.lxor x y) (N.lxor a b) = N.lxor (crc_byte x a) (crc_byte y b).
Proof.
  unfold crc_byte. cbn [fold_left]. rewrite !N.lxor_spec. now rewrite !crc_bit_lxor.
Qed.

(* ---- zero data: the register just shifts while its top byte is clear ---- *)
Lemma testbit31_small x : x < 2147483648 -> N.testbit x 31 = false.
Proof.
  intro H. rewrite <- (N.mod_small x (2 ^ 31)) by exact H.
  apply N.mod_pow2_bits_high. lia.
Qed.
Lemma crc_bit_small x : x < 2147483648 -> crc_bit x false = 2 * x.
Proof.
  intro H. rewrite crc_bit_unfold, (testbit31_small x H). cbn [xorb]. unfold sh.
  rewrite N.mod_small; lia.
Qed.
Lemma crc_byte_low lo : lo < 16777216 -> crc_byte lo 0 = lo * 256.
Proof.
  intro H. unfold crc_byte. cbn [fold_left]. rewrite !N.bits_0.
  rewrite (crc_bit_small lo) by lia.
  rewrite (crc_bit_small (2 * lo)) by lia.
  rewrite (crc_bit_small (2 * (2 * lo))) by lia.
  rewrite (crc_bit_small (2 * (2 * (2 * lo)))) by lia.
  rewrite (crc_bit_small (2 * (2 * (2 * (2 * lo))))) by lia.
  rewrite (crc_bit_small (2 * (2 * (2 * (2 * (2 * lo)))))) by lia.
  rewrite (crc_bit_small (2 * (2 * (2 * (2 * (2 * (2 * lo))))))) by lia.
  rewrite (crc_bit_small (2 * (2 * (2 * (2 * (2 * (2 * (2 * lo)))))))) by lia.
  lia.
Qed.

(* a data byte equal to the top byte of the register cancels it *)
Lemma crc_byte_cancel_all : forallb (fun b => crc_byte (b * 16777216) b =? 0) (upto 256) = true.
Proof. vm_compute. reflexivity. Qed.
Lemma crc_byte_cancel b : b < 256 -> crc_byte (b * 16777216) b = 0.
Proof.
  intro Hb. pose proof crc_byte_cancel_all as H. rewrite forallb_forall in H.
  specialize (H b (in_upto 256 b ltac:(lia))). now apply N.eqb_eq in H.
Qed.

(* the table-driven form of one byte step *)
Lemma crc_byte_table c b : c < 4294967296 -> b < 256 ->
  crc_byte c b = N.lxor (crc_byte (N.lxor (c / 16777216) b * 16777216) 0) (c mod 16777216 * 256).
Proof.
  intros Hc Hb.
  set (hi := c / 16777216). set (lo := c mod 16777216).
  assert (Hlo : lo < 2 ^ 24) by (unfold lo; apply N.mod_lt; discriminate).
  assert (Ec : c = N.lxor (hi * 2 ^ 24) lo).
  { rewrite <- add_disjoint_lxor by exact Hlo. unfold hi, lo. change (2 ^ 24) with 16777216. lia. }
  assert (Eh : hi * 2 ^ 24 = N.lxor (N.lxor hi b * 2 ^ 24) (b * 2 ^ 24)).
  { rewrite <- mul_lxor. f_equal. lxor_ac. }
  rewrite Ec at 1. rewrite <- (N.lxor_0_r b) at 1.
  rewrite crc_byte_lxor, (crc_byte_low lo Hlo).
  rewrite Eh. rewrite <- (N.lxor_0_l b) at 3.
  rewrite crc_byte_lxor. change (2 ^ 24) with 16777216.
  rewrite (crc_byte_cancel b Hb), N.lxor_0_r. reflexivity.
Qed.

Lemma crc_bit_lt c b : crc_bit c b < 4294967296.
Proof.
  rewrite crc_bit_unfold. assert (Hs : sh c < 2 ^ 32) by (apply N.mod_lt; discriminate).
  destruct (xorb (N.testbit c 31) b); [|exact Hs]. apply (lxor_lt _ _ 32); [exact Hs|reflexivity].
Qed.
Lemma crc_byte_lt c b : crc_byte c b < 4294967296.
Proof. unfold crc_byte. cbn [fold_left]. apply crc_bit_lt. Qed.

(* ---- the byte-swapped register of lal ---- *)
Ltac Zify.zify_post_hook ::= Z.div_mod_to_equations.

Lemma bswap32_arith x :
  bswap32 x = (x / 16777216) mod 256 + 256 * ((x / 65536) mod 256 + 256 * ((x / 256) mod 256 + 256 * (x mod 256 + 256 * 0))).
Proof.
  unfold bswap32. cbn [be_put le_get].
  change (256 ^ N.of_nat 3) with 16777216. change (256 ^ N.of_nat 2) with 65536.
  change (256 ^ N.of_nat 1) with 256. change (256 ^ N.of_nat 0) with 1. now rewrite N.div_1_r.
Qed.

Lemma byte_lxor x y k : (N.lxor x y / 2 ^ k) mod 2 ^ 8 = N.lxor ((x / 2 ^ k) mod 2 ^ 8) ((y / 2 ^ k) mod 2 ^ 8).
Proof. now rewrite div_lxor, mod_lxor. Qed.

Lemma le_cons_lxor a a' r r' : a < 256 -> a' < 256 ->
  N.lxor (a + 256 * r) (a' + 256 * r') = N.lxor a a' + 256 * N.lxor r r'.
Proof.
  intros Ha Ha'.
  assert (E : forall u v, u < 2 ^ 8 -> u + 256 * v = N.lxor (v * 2 ^ 8) u).
  { intros u v Hu. rewrite <- add_disjoint_lxor by exact Hu. change (2 ^ 8) with 256. lia. }
  rewrite (E a r Ha), (E a' r' Ha'), (E (N.lxor a a') (N.lxor r r')) by (now apply (lxor_lt _ _ 8)).
  rewrite mul_lxor. lxor_ac.
Qed.

Definition byt (k z : N) : N := (z / 2 ^ k) mod 2 ^ 8.
Lemma byt_lt k z : byt k z < 256.
Proof. unfold byt. apply N.mod_lt. discriminate. Qed.
Lemma byt_lxor k x y : byt k (N.lxor x y) = N.lxor (byt k x) (byt k y).
Proof. apply byte_lxor. Qed.
Lemma bswap32_bytes x :
  bswap32 x = byt 24 x + 256 * (byt 16 x + 256 * (byt 8 x + 256 * (byt 0 x + 256 * 0))).
Proof.
  rewrite bswap32_arith. unfold byt. change (2 ^ 0) with 1. rewrite N.div_1_r. reflexivity.
Qed.

Lemma bswap32_lxor x y : bswap32 (N.lxor x y) = N.lxor (bswap32 x) (bswap32 y).
Proof.
  rewrite !bswap32_bytes, !byt_lxor.
  rewrite !le_cons_lxor by apply byt_lt. reflexivity.
Qed.

(* register facts *)
Lemma bswap32_low c : c < 4294967296 -> bswap32 c mod 256 = c / 16777216.
Proof. intro H. rewrite bswap32_arith. lia. Qed.
Lemma div_cons a r : a < 256 -> (a + 256 * r) / 256 = r.
Proof. lia. Qed.
Lemma shl8_b3 c : ((c mod 16777216 * 256) / 16777216) mod 256 = (c / 65536) mod 256.
Proof. lia. Qed.
Lemma shl8_b2 c : ((c mod 16777216 * 256) / 65536) mod 256 = (c / 256) mod 256.
Proof. lia. Qed.
Lemma shl8_b1 c : ((c mod 16777216 * 256) / 256) mod 256 = c mod 256.
Proof. lia. Qed.
Lemma shl8_b0 c : (c mod 16777216 * 256) mod 256 = 0.
Proof. lia. Qed.
Lemma bswap32_high c : bswap32 c / 256 = bswap32 (c mod 16777216 * 256).
Proof.
  rewrite !bswap32_arith. rewrite div_cons by (apply N.mod_lt; discriminate).
  rewrite shl8_b3, shl8_b2, shl8_b1, shl8_b0. lia.
Qed.

(* one byte: lal's table step on the byte-swapped register = the bit-serial step *)
Lemma crc_step_bswap c b : c < 4294967296 -> b < 256 ->
  crc_step (bswap32 c) b = bswap32 (crc_byte c b).
Proof.
  intros Hc Hb. unfold crc_step.
  rewrite (bswap32_low c Hc), bswap32_high.
  assert (Hi : N.lxor (c / 16777216) b < 256).
  { apply (lxor_lt _ _ 8); [|exact Hb]. change (2 ^ 8) with 256. lia. }
  rewrite (crc32_table_correct _ Hi).
  rewrite <- bswap32_lxor. f_equal. symmetry. now apply crc_byte_table.
Qed.

Theorem calc_crc32_bswap buf : forall c, c < 4294967296 -> bytes_ok buf ->
  calc_crc32 (bswap32 c) buf = bswap32 (fold_left crc_byte buf c).
Proof.
  unfold calc_crc32. induction buf as [|b t IH]; intros c Hc Hok; [reflexivity|].
  inversion Hok as [|? ? Hb Ht]; subst. cbn [fold_left].
  rewrite (crc_step_bswap c b Hc Hb). apply IH; [apply crc_byte_lt|exact Ht].
Qed.

Lemma fold_crc_lt buf : forall c, c < 4294967296 -> fold_left crc_byte buf c < 4294967296.
Proof. induction buf as [|b t IH]; intros c Hc; [exact Hc|]. cbn [fold_left]. apply IH, crc_byte_lt. Qed.

(* the four bytes lal stores with LePutUint32 are the big-endian CRC_32 field *)
Lemma le_put4_bswap y : y < 4294967296 -> le_put 4 (bswap32 y) = be_put 4 y.
Proof.
  intro Hy. rewrite bswap32_arith. cbn [le_put be_put].
  change (256 ^ N.of_nat 3) with 16777216. change (256 ^ N.of_nat 2) with 65536.
  change (256 ^ N.of_nat 1) with 256. change (256 ^ N.of_nat 0) with 1. rewrite N.div_1_r.
  set (b3 := (y / 16777216) mod 256). set (b2 := (y / 65536) mod 256).
  set (b1 := (y / 256) mod 256). set (b0 := y mod 256).
  assert (H3 : b3 < 256) by (apply N.mod_lt; discriminate).
  assert (H2 : b2 < 256) by (apply N.mod_lt; discriminate).
  assert (H1 : b1 < 256) by (apply N.mod_lt; discriminate).
  assert (H0 : b0 < 256) by (apply N.mod_lt; discriminate).
  clearbody b3 b2 b1 b0. clear Hy.
  repeat f_equal; lia.
Qed.

Theorem calc_crc32_is_annex_a buf : bytes_ok buf ->
  le_put 4 (calc_crc32 4294967295 buf) = be_put 4 (spec_crc32 buf).
Proof.
  intro Hok. change 4294967295 with (bswap32 4294967295) at 1.
  rewrite calc_crc32_bswap by (reflexivity || assumption).
  apply le_put4_bswap. apply fold_crc_lt. reflexivity.
Qed.

(* feeding the register's own big-endian bytes drives it to zero: the residue
   over data ++ CRC_32 is 0 *)
Lemma crc_byte_self c : c < 4294967296 -> crc_byte c (c / 16777216) = c mod 16777216 * 256.
Proof.
  intro Hc. rewrite crc_byte_table by lia.
  rewrite N.lxor_nilpotent. change (0 * 16777216) with 0.
  change (crc_byte 0 0) with 0. apply N.lxor_0_l.
Qed.

Definition rstep (c : N) : N := c mod 16777216 * 256.
Lemma rstep_lt c : rstep c < 4294967296.
Proof. unfold rstep. lia. Qed.
Lemma rstep_mulmod c : rstep c = (c * 256) mod 4294967296.
Proof. unfold rstep. lia. Qed.
Lemma top_rstep c : rstep c / 16777216 = (c / 65536) mod 256.
Proof. unfold rstep. lia. Qed.
Lemma rstep2 c : rstep (rstep c) = c mod 65536 * 65536.
Proof. unfold rstep. lia. Qed.
Lemma rstep4 c : rstep (rstep (rstep (rstep c))) = 0.
Proof. rewrite rstep2, rstep2. lia. Qed.

Lemma crc_residue c : c < 4294967296 -> fold_left crc_byte (be_put 4 c) c = 0.
Proof.
  intro Hc. cbn [be_put fold_left].
  change (256 ^ N.of_nat 3) with 16777216. change (256 ^ N.of_nat 2) with 65536.
  change (256 ^ N.of_nat 1) with 256. change (256 ^ N.of_nat 0) with 1. rewrite N.div_1_r.
  assert (E3 : (c / 16777216) mod 256 = c / 16777216) by lia.
  (* byte k of c is the top byte of the register after 3-k shifts *)
  assert (E2 : (c / 65536) mod 256 = rstep c / 16777216) by (now rewrite top_rstep).
  assert (E1 : (c / 256) mod 256 = rstep (rstep c) / 16777216).
  { rewrite top_rstep. unfold rstep at 1. now rewrite shl8_b2. }
  assert (E0 : c mod 256 = rstep (rstep (rstep c)) / 16777216).
  { rewrite top_rstep. unfold rstep at 1. rewrite shl8_b2. unfold rstep at 1. now rewrite shl8_b1. }
  rewrite E3, E2, E1, E0. clear E3 E2 E1 E0.
  rewrite (crc_byte_self c Hc). fold (rstep c).
  rewrite (crc_byte_self (rstep c) (rstep_lt c)). fold (rstep (rstep c)).
  rewrite (crc_byte_self _ (rstep_lt (rstep c))). fold (rstep (rstep (rstep c))).
  rewrite (crc_byte_self _ (rstep_lt (rstep (rstep c)))). fold (rstep (rstep (rstep (rstep c)))).
  apply rstep4.
Qed.

Theorem calc_crc32_residue buf : bytes_ok buf ->
  spec_crc32 (buf ++ le_put 4 (calc_crc32 4294967295 buf)) = 0.
Proof.
  intro Hok. rewrite (calc_crc32_is_annex_a buf Hok). unfold spec_crc32.
  rewrite fold_left_app. apply crc_residue. apply fold_crc_lt. reflexivity.
Qed.

(* ---- every section Psi.Pack emits verifies ---- *)
Lemma byte_of_bits_bound bs : forall acc, byte_of_bits bs acc < (acc + 1) * 2 ^ N.of_nat (length bs).
Proof.
  induction bs as [|b t IH]; intro acc.
  - cbn [byte_of_bits length]. change (2 ^ N.of_nat 0) with 1. lia.
  - cbn [byte_of_bits length]. specialize (IH (2 * acc + (if b then 1 else 0))).
    rewrite Nat2N.inj_succ, N.pow_succ_r'. destruct b; nia.
Qed.

Lemma bits_to_bytes_ok fuel : forall bs, bytes_ok (bits_to_bytes fuel bs).
Proof.
  induction fuel as [|f IH]; intro bs; [constructor|].
  cbn [bits_to_bytes]. destruct bs as [|b t]; [constructor|].
  apply bytes_ok_cons; [|apply IH].
  set (g := firstn 8 (b :: t)).
  assert (Hg : (length g <= 8)%nat) by (unfold g; rewrite firstn_length; lia).
  pose proof (byte_of_bits_bound (g ++ repeat false (8 - length g)) 0) as H.
  rewrite app_length, repeat_length in H.
  replace (length g + (8 - length g))%nat with 8%nat in H by lia. exact H.
Qed.

Lemma bytes_ok_firstn_l n l : bytes_ok l -> bytes_ok (firstn n l).
Proof. unfold bytes_ok. revert l. induction n; intros l H; [constructor|]. destruct H; [constructor|]. cbn [firstn]. constructor; auto. Qed.

Lemma fit_ok n pad l : pad < 256 -> bytes_ok l -> bytes_ok (fit n pad l).
Proof.
  intros Hp Hl. unfold fit. apply bytes_ok_firstn_l.
  apply bytes_ok_app; [exact Hl|]. clear -Hp. induction n; constructor; assumption.
Qed.

Theorem psi_pack_crc_valid p : 0 < calc_psi_section_length p ->
  spec_crc32 (skipn 1 (psi_pack p)) = 0.
Proof.
  intro Hl. unfold psi_pack.
  set (body := fit (4 + N.to_nat (calc_psi_section_length p) - 4) 0 (bw_bytes (psi_fields p))).
  assert (Hok : bytes_ok body) by (apply fit_ok; [reflexivity|apply bits_to_bytes_ok]).
  assert (Hlen : length body = N.to_nat (calc_psi_section_length p)).
  { unfold body, fit. rewrite firstn_length, app_length, repeat_length. lia. }
  destruct body as [|b0 rest]; [cbn [length] in Hlen; lia|].
  cbn [skipn app]. apply calc_crc32_residue. now inversion Hok.
Qed.
