(* Model of pkg/mpegts/psi.go (PsiSection.Pack through nazabits.BitWriter),
   pat.go (PackPat), pmt.go (PackPmt) and crc32.go (CalcCrc32).
   No proofs in this file. *)
From Lal Require Import Common.LBytes.
Open Scope N_scope.

(* ---- crc32.go: the literal table (byte-swapped CRC-32/MPEG-2 table used with
   Go's reflected update loop) ---- *)
Definition crc32_table : list N := [
  0; 3072180484; 1849393673; 3643163405; 3698721811; 1802224919; 2991425050; 89147166;
  3102541862; 267438370; 3604384303; 1640713003; 1687882805; 3548826929; 178294332; 3183300408;
  1893405004; 3351695432; 518034245; 2851951169; 2897024351; 464573531; 3264649046; 1972065874;
  3358988650; 2133579886; 2785909603; 286284391; 339746169; 2740837501; 2054922096; 3446038132;
  3770033048; 1470882460; 2391646609; 965763221; 1019225995; 2346575503; 1392223618; 3857081478;
  1482369982; 4014402234; 912304567; 2172479667; 2217553837; 858844841; 3927354788; 1561029792;
  2423075540; 661713872; 4267094237; 1229681113; 1276851911; 4211537859; 572568782; 2503833034;
  679492338; 2677930998; 1186707707; 4054219263; 4109778657; 1139539941; 2597174504; 768638444;
  2003863092; 3228387120; 424346685; 2924922169; 2869330471; 471548707; 3309109294; 1914749226;
  3483209234; 2021674774; 2712013851; 381406495; 334203393; 2767604485; 2110785544; 3402483980;
  128685944; 2964739708; 1771050353; 3733836917; 3688731499; 1824543343; 3051753826; 50057318;
  3209076574; 140205658; 3514637655; 1717623891; 1664129869; 3559742025; 218831172; 3122059328;
  2546378156; 551249064; 4194117541; 1323361953; 1269866943; 4239220923; 629875638; 2459361970;
  791391626; 2553703566; 1091579779; 4128108167; 4083001753; 1145071773; 2640718736; 712764052;
  3877483744; 1342207460; 2300983017; 1044117485; 996913395; 2356572663; 1431319290; 3796759550;
  1609612486; 3907878338; 835403471; 2262237131; 2206644437; 882604497; 3988601564; 1520499672;
  4007660649; 1509805421; 2161872480; 935743332; 848693370; 2240530814; 1554877043; 3954199415;
  1443693647; 3775972683; 943097414; 2401978178; 2323316828; 1030144344; 3829432917; 1398621009;
  2654674213; 690412577; 4026572588; 1193106984; 1112348982; 4115716146; 745970495; 2607503931;
  651564291; 2446054407; 1223530250; 4293940750; 4204794128; 1304285204; 2493223705; 596005405;
  240529393; 3108761333; 1617800696; 3614469372; 3525323746; 1698556646; 3155929579; 184969455;
  3065718743; 27715283; 3632309726; 1872585946; 1791828932; 3721454272; 83272141; 3018547401;
  2123185853; 3381723065; 280411316; 2813033904; 2734373550; 367459242; 3435182247; 2078112163;
  3328194203; 1904080799; 2824582290; 524711318; 437662344; 2903241612; 1949151361; 3274731909;
  2576386653; 781011801; 4155181140; 1085720912; 1172737614; 4076556106; 735906887; 2629881155;
  561873531; 2522891135; 1329987698; 4166762870; 4245390952; 1242974060; 2469397601; 606979429;
  3914046225; 1582717461; 2272270616; 812505116; 893230850; 2183159302; 1527127307; 3961248783;
  1369871159; 3871035955; 1067258174; 2290143290; 2379257636; 986535456; 3823834413; 1425462313;
  2032576965; 3459999937; 387787724; 2684414664; 2773528022; 307064018; 3412799455; 2088169179;
  3251347939; 1993760999; 2951750634; 418243310; 498968048; 2862638324; 1938171897; 3298551549;
  167622793; 3202382221; 1741044352; 3504077700; 3582704794; 1654029726; 3148889747; 212729751;
  2970661039; 101544363; 3744150182; 1748431778; 1835447484; 3665524152; 56440501; 3024156593 ].

(* hash/crc32 simpleUpdate: crc = tab[byte(crc)^v] ^ (crc >> 8).  CalcCrc32
   complements before and after the call and Update complements inside, so the
   net effect is the bare loop started at [crc]. *)
Definition crc_step (crc b : N) : N :=
  N.lxor (nth (N.to_nat (N.lxor (crc mod 256) b)) crc32_table 0) (crc / 256).
Definition calc_crc32 (crc : N) (buf : bytes) : N := fold_left crc_step buf crc.

(* ---- nazabits.BitWriter: each write puts the low [w] bits of v, msb first ---- *)
Fixpoint field_bits (w : nat) (v : N) : list bool :=
  match w with
  | O => []
  | S k => N.testbit v (N.of_nat k) :: field_bits k v
  end.
Definition bw_bits (fields : list (nat * N)) : list bool :=
  flat_map (fun wv => field_bits (fst wv) (snd wv)) fields.
Fixpoint byte_of_bits (bs : list bool) (acc : N) : N :=
  match bs with
  | [] => acc
  | b :: t => byte_of_bits t (2 * acc + (if b then 1 else 0))
  end.
Fixpoint bits_to_bytes (fuel : nat) (bs : list bool) : bytes :=
  match fuel with
  | O => []
  | S f =>
    match bs with
    | [] => []
    | _ => let g := firstn 8 bs in
           byte_of_bits (g ++ repeat false (8 - length g)) 0 :: bits_to_bytes f (skipn 8 bs)
    end
  end.
Definition bw_bytes (fields : list (nat * N)) : bytes :=
  let bs := bw_bits fields in bits_to_bytes (length bs) bs.

(* ---- psi.go data ---- *)
Record pat_elem := mk_pat_elem { pe_pn : N; pe_pmpid : N }.
Record descriptor := mk_descriptor {
  d_length : N; d_tag : N;
  d_reg_addl : bytes; d_reg_fmt : N;          (* DescriptorRegistration *)
  d_ext_tag : N; d_ext_unknown : bytes }.     (* DescriptorExtension *)
Record pmt_elem := mk_pmt_elem { pm_stream_type : N; pm_pid : N; pm_descs : list descriptor }.
Record psi := mk_psi {
  psi_pointer : N; psi_table_id : N; psi_ssi : N;
  psi_tid_ext : N; psi_version : N; psi_cni : N; psi_secnum : N; psi_lastsec : N;
  psi_pat : list pat_elem;
  psi_pcr_pid : N; psi_prog_info_len : N; psi_pmt : list pmt_elem }.

Definition descriptor_tag_registration : N := 5.
Definition descriptor_tag_extension : N := 127.

Definition calc_descriptor_length (d : descriptor) : N :=
  if d_length d =? 0 then 0
  else if d_tag d =? descriptor_tag_registration then u8 (4 + lenN (d_reg_addl d))
  else if d_tag d =? descriptor_tag_extension then u8 (1 + lenN (d_ext_unknown d))
  else 0.
Definition calc_descriptors_length (ds : list descriptor) : N :=
  fold_left (fun acc d => u16 (u16 (acc + 2) + calc_descriptor_length d)) ds 0.
Definition calc_pmt_section_length (p : psi) : N :=
  fold_left (fun acc pe =>
               let acc := u16 (acc + 5) in
               match pm_descs pe with
               | [] => acc
               | ds => u16 (acc + calc_descriptors_length ds)
               end) (psi_pmt p) 4.
Definition calc_pat_section_length (p : psi) : N := u16 (4 * lenN (psi_pat p)).
Definition calc_psi_section_length (p : psi) : N :=
  let tid := psi_table_id p in
  let l0 := if (tid =? 0) || (tid =? 2) then 5 else 0 in
  let l1 := if tid =? 0 then u16 (l0 + calc_pat_section_length p)
            else if tid =? 2 then u16 (l0 + calc_pmt_section_length p) else l0 in
  u16 (l1 + 4).

Definition descriptor_fields (d : descriptor) : list (nat * N) :=
  [(8%nat, d_tag d); (8%nat, calc_descriptor_length d)]
  ++ (if d_tag d =? descriptor_tag_registration then
        [(16%nat, (d_reg_fmt d / 65536) mod 65536); (16%nat, d_reg_fmt d mod 65536)]
        ++ map (fun b => (8%nat, b)) (d_reg_addl d)
      else if d_tag d =? descriptor_tag_extension then
        (8%nat, d_ext_tag d) :: map (fun b => (8%nat, b)) (d_ext_unknown d)
      else []).

Definition psi_fields (p : psi) : list (nat * N) :=
  let tid := psi_table_id p in
  [(8%nat, psi_pointer p);
   (* writePsiTableHeader *)
   (8%nat, tid); (1%nat, psi_ssi p); (1%nat, 0); (2%nat, 255); (12%nat, calc_psi_section_length p);
   (* writePsiTableSyntaxSectionHeader *)
   (16%nat, psi_tid_ext p); (2%nat, 255); (5%nat, psi_version p); (1%nat, psi_cni p);
   (8%nat, psi_secnum p); (8%nat, psi_lastsec p)]
  ++ (if tid =? 0 then
        flat_map (fun pe => [(16%nat, pe_pn pe); (3%nat, 255); (13%nat, pe_pmpid pe)]) (psi_pat p)
      else if tid =? 2 then
        [(3%nat, 255); (13%nat, psi_pcr_pid p); (4%nat, 255); (12%nat, psi_prog_info_len p)]
        ++ flat_map (fun pe =>
             [(8%nat, pm_stream_type pe); (3%nat, 255); (13%nat, pm_pid pe);
              (4%nat, 255); (12%nat, calc_descriptors_length (pm_descs pe))]
             ++ flat_map descriptor_fields (pm_descs pe)) (psi_pmt p)
      else []).

(* make(n) then write: shorter output is zero padded, longer would panic in Go
   (never for PAT/PMT: the length calculation matches the writer) *)
Definition fit (n : nat) (pad : N) (l : bytes) : bytes := firstn n (l ++ repeat pad n).

(* PsiSection.Pack : (1 + 3 + sectionLength) bytes, CRC over [1, len-4),
   stored with LePutUint32 *)
Definition psi_pack (p : psi) : bytes :=
  let sl := N.to_nat (calc_psi_section_length p) in
  let body := fit (4 + sl - 4) 0 (bw_bytes (psi_fields p)) in
  body ++ le_put 4 (calc_crc32 4294967295 (skipn 1 body)).

Definition new_psi : psi :=
  {| psi_pointer := 0; psi_table_id := 0; psi_ssi := 0; psi_tid_ext := 0; psi_version := 0;
     psi_cni := 0; psi_secnum := 0; psi_lastsec := 0; psi_pat := [];
     psi_pcr_pid := 0; psi_prog_info_len := 0; psi_pmt := [] |}.

Definition pid_pmt : N := 4097.
Definition pid_video : N := 256.
Definition pid_audio : N := 257.

Definition pat_psi : psi :=
  {| psi_pointer := 0; psi_table_id := 0; psi_ssi := 1; psi_tid_ext := 1; psi_version := 0;
     psi_cni := 1; psi_secnum := 0; psi_lastsec := 0;
     psi_pat := [{| pe_pn := 1; pe_pmpid := pid_pmt |}];
     psi_pcr_pid := 0; psi_prog_info_len := 0; psi_pmt := [] |}.

(* PackPat *)
Definition pack_pat : bytes := fit 188 255 ([71; 64; 0; 16] ++ psi_pack pat_psi).

(* base.RtmpCodecIdAvc = 7, RtmpCodecIdHevc = 12, RtmpSoundFormatAac = 10, RtmpSoundFormatOpus = 13 *)
Definition stream_type_avc : N := 27.
Definition stream_type_hevc : N := 36.
Definition stream_type_aac : N := 15.
Definition stream_type_private : N := 6.
Definition opus_identifier : N := 1332770163.   (* 0x4f707573 "Opus" *)

Definition opus_descriptors : list descriptor :=
  [ {| d_length := 4; d_tag := descriptor_tag_registration; d_reg_addl := []; d_reg_fmt := opus_identifier;
       d_ext_tag := 0; d_ext_unknown := [] |};
    {| d_length := 2; d_tag := descriptor_tag_extension; d_reg_addl := []; d_reg_fmt := 0;
       d_ext_tag := 128; d_ext_unknown := [2] |} ].

Definition pmt_streams (v a : Z) : list pmt_elem :=
  (if Z.eqb v 7 then [{| pm_stream_type := stream_type_avc; pm_pid := pid_video; pm_descs := [] |}]
   else if Z.eqb v 12 then [{| pm_stream_type := stream_type_hevc; pm_pid := pid_video; pm_descs := [] |}]
   else [])
  ++
  (if Z.eqb a 10 then [{| pm_stream_type := stream_type_aac; pm_pid := pid_audio; pm_descs := [] |}]
   else if Z.eqb a 13 then [{| pm_stream_type := stream_type_private; pm_pid := pid_audio; pm_descs := opus_descriptors |}]
   else []).

Definition pmt_psi (v a : Z) : psi :=
  {| psi_pointer := 0; psi_table_id := 2; psi_ssi := 1; psi_tid_ext := 1; psi_version := 0;
     psi_cni := 1; psi_secnum := 0; psi_lastsec := 0; psi_pat := [];
     psi_pcr_pid := 256; psi_prog_info_len := 0; psi_pmt := pmt_streams v a |}.

(* PackPmt(videoCodecId, audioCodecId int) *)
Definition pack_pmt (v a : Z) : bytes := fit 188 255 ([71; 80; 1; 16] ++ psi_pack (pmt_psi v a)).

(* PackPmtWithVersion(videoCodecId, audioCodecId, version) (added by the C06 fix
   "a track that starts after the probe window is announced by a new version of
   the pmt"): version_number = version & 0x1f.  PackPmt is version 0. *)
Definition pmt_psi_ver (v a : Z) (ver : N) : psi :=
  {| psi_pointer := 0; psi_table_id := 2; psi_ssi := 1; psi_tid_ext := 1; psi_version := ver mod 32;
     psi_cni := 1; psi_secnum := 0; psi_lastsec := 0; psi_pat := [];
     psi_pcr_pid := 256; psi_prog_info_len := 0; psi_pmt := pmt_streams v a |}.
Definition pack_pmt_ver (v a : Z) (ver : N) : bytes := fit 188 255 ([71; 80; 1; 16] ++ psi_pack (pmt_psi_ver v a ver)).
