(* C09, stream level: the packets of any sequence of frames (counter carried
   across frames) are split again at payload_unit_start_indicator and every
   unit is recovered, with the counters continuous over the whole stream. *)
From Lal Require Import Common.LBytes Common.LBytesProofs Mpegts.TsPack Mpegts.TsDemux Mpegts.TsPackProofs.
From Coq Require Import Lia ZifyN ZifyNat ZifyBool.
Ltac Zify.zify_post_hook ::= Z.div_mod_to_equations.
Open Scope N_scope.

Lemma pkt_starts_header pusi pid afc cc r : pkt_starts (ts_header pusi pid afc cc ++ r) = pusi.
Proof. unfold pkt_starts, ts_header. cbn [app]. apply hdr_b1_pusi. Qed.

Lemma pack_first_starts f n : pkt_starts (fst (pack_first_q fixed_tree f n)) = true.
Proof.
  unfold pack_first_q. cbn [q_f04 fixed_tree].
  destruct (f_key f); match goal with |- context [Nat.leb ?a ?b] => destruct (Nat.leb a b) end;
    cbn [fst]; apply pkt_starts_header.
Qed.

Lemma pack_rest_no_start fuel : forall n pid cc raw,
  Forall (fun p => pkt_starts p = false) (pack_rest fuel n pid cc raw).
Proof.
  induction fuel as [|fuel IH]; intros n pid cc raw; [constructor|].
  cbn [pack_rest]. destruct n as [|n']; [constructor|].
  destruct (Nat.leb 184 (S n')).
  - constructor; [apply pkt_starts_header|apply IH].
  - constructor; [apply pkt_starts_header|constructor].
Qed.

Definition unit_shape (g : list bytes) : Prop :=
  exists p0 rest, g = p0 :: rest /\ pkt_starts p0 = true /\ Forall (fun p => pkt_starts p = false) rest.

Lemma pack_shape f : f_raw f <> [] -> unit_shape (fst (pack f)).
Proof.
  intro Hne. unfold pack, pack_q.
  destruct (length (f_raw f)) as [|n'] eqn:Hn; [destruct (f_raw f); [congruence|discriminate]|].
  pose proof (pack_first_starts f (S n')) as H0.
  destruct (pack_first_q fixed_tree f (S n')) as [p0 used]. cbn [fst] in *.
  eexists; eexists; split; [reflexivity|]. split; [exact H0|apply pack_rest_no_start].
Qed.

(* ---- split_units recovers the groups ---- *)
Lemma split_units_cont rest : forall cur more,
  Forall (fun p => pkt_starts p = false) rest ->
  split_units cur (rest ++ more) = split_units (rev rest ++ cur) more.
Proof.
  induction rest as [|p t IH]; intros cur more H; [reflexivity|].
  inversion H as [|? ? Hp Ht]; subst. cbn [app split_units]. rewrite Hp.
  rewrite IH by assumption. cbn [rev]. now rewrite <- app_assoc.
Qed.

Lemma split_units_groups groups : Forall unit_shape groups ->
  forall cur, cur <> [] -> split_units cur (concat groups) = rev cur :: groups.
Proof.
  induction groups as [|g gs IH]; intros Hall cur Hcur.
  - cbn [concat split_units]. destruct cur; [congruence|reflexivity].
  - inversion Hall as [|? ? (p0 & rest & -> & Hs & Hr) Hgs]; subst.
    cbn [concat app split_units]. rewrite Hs.
    destruct cur as [|c0 cur']; [congruence|].
    rewrite split_units_cont by assumption.
    rewrite IH; [|assumption|destruct (rev rest); discriminate].
    rewrite rev_app_distr, rev_involutive. reflexivity.
Qed.

Lemma split_units_groups_nil groups : Forall unit_shape groups ->
  split_units [] (concat groups) = groups.
Proof.
  destruct groups as [|g gs]; intro Hall; [reflexivity|].
  inversion Hall as [|? ? (p0 & rest & -> & Hs & Hr) Hgs]; subst.
  cbn [concat app split_units]. rewrite Hs.
  rewrite split_units_cont by assumption.
  rewrite split_units_groups; [|assumption|destruct (rev rest); discriminate].
  rewrite rev_app_distr, rev_involutive. reflexivity.
Qed.

(* ---- counters over the whole stream ---- *)
Lemma cc_chain_from l : forall c,
  (forall i p, nth_error l i = Some p -> pkt_cc p = (c + 1 + N.of_nat i) mod 16) ->
  cc_chain_ok (Some (c mod 16)) l = true.
Proof.
  induction l as [|p t IH]; intros c H; [reflexivity|].
  cbn [cc_chain_ok]. pose proof (H 0%nat p eq_refl) as H0. rewrite H0.
  assert (E : ((c + 1 + N.of_nat 0) mod 16 =? (c mod 16 + 1) mod 16) = true) by lia.
  rewrite E. cbn [andb].
  replace ((c + 1 + N.of_nat 0) mod 16) with ((c + 1) mod 16) by lia.
  apply IH. intros i q Hq. rewrite (H (S i) q Hq). lia.
Qed.

Lemma cc_chain_none l c :
  (forall i p, nth_error l i = Some p -> pkt_cc p = (c + 1 + N.of_nat i) mod 16) ->
  cc_chain_ok None l = true.
Proof.
  destruct l as [|p t]; intro H; [reflexivity|].
  cbn [cc_chain_ok andb]. pose proof (H 0%nat p eq_refl) as H0. rewrite H0.
  replace ((c + 1 + N.of_nat 0) mod 16) with ((c + 1) mod 16) by lia.
  apply cc_chain_from. intros i q Hq. rewrite (H (S i) q Hq). lia.
Qed.

(* ---- the units a demultiplexer must return for a frame sequence ---- *)
Fixpoint expected_units (cc : N) (fs : list frame) : list access_unit :=
  match fs with
  | [] => []
  | f :: t => expected_unit (with_cc f cc) :: expected_units (snd (pack (with_cc f cc))) t
  end.

(* well-formedness of a frame apart from its counter field *)
Definition frame_wf_nocc (f : frame) : Prop :=
  f_pts f < 18446744073709551616 /\ f_dts f < 18446744073709551616 /\
  f_pid f < 8192 /\ f_sid f < 256 /\ sid_without_header (f_sid f) = false /\
  bytes_ok (f_raw f) /\ f_raw f <> [].

Lemma frame_wf_with_cc f cc : frame_wf_nocc f -> cc < 256 -> frame_wf (with_cc f cc).
Proof. intros (H1 & H2 & H3 & H4 & H5 & H6 & H7) Hcc. unfold frame_wf, with_cc; cbn. repeat split; assumption. Qed.

Lemma pack_seq_units fs : forall cc, cc < 256 -> Forall frame_wf_nocc fs ->
  Forall unit_shape (fst (pack_seq cc fs)) /\
  all_some (map demux_unit (fst (pack_seq cc fs))) = Some (expected_units cc fs).
Proof.
  induction fs as [|f t IH]; intros cc Hcc Hall.
  - cbn. split; [constructor|reflexivity].
  - inversion Hall as [|? ? Hf Ht]; subst.
    pose proof (frame_wf_with_cc f cc Hf Hcc) as Hwf.
    destruct (pack_wellformed_lossless _ Hwf) as (_ & Hd).
    assert (Hsh : unit_shape (fst (pack (with_cc f cc)))) by (apply pack_shape; cbn; apply Hf).
    destruct (pack_cc (with_cc f cc) Hcc) as (_ & Hs). cbn [with_cc f_cc] in Hs.
    unfold pack_seq in *. cbn [pack_seq_q expected_units]. fold (pack (with_cc f cc)).
    destruct (pack (with_cc f cc)) as [pk cc1]. cbn [fst snd] in *.
    assert (Hcc1 : cc1 < 256) by (subst cc1; apply N.mod_lt; discriminate).
    destruct (IH cc1 Hcc1 Ht) as (IHs & IHd).
    destruct (pack_seq_q fixed_tree cc1 t) as [rest cc2]. cbn [fst snd] in *.
    split; [constructor; assumption|].
    cbn [map all_some]. rewrite Hd, IHd. reflexivity.
Qed.

Theorem pack_seq_stream_lossless fs cc : cc < 256 -> Forall frame_wf_nocc fs ->
  demux_stream (concat (fst (pack_seq cc fs))) = Some (expected_units cc fs).
Proof.
  intros Hcc Hall. unfold demux_stream.
  destruct (pack_seq_units fs cc Hcc Hall) as (Hsh & Hd).
  destruct (pack_seq_cc fs cc Hcc) as (Hi & _).
  rewrite (cc_chain_none _ cc Hi).
  now rewrite split_units_groups_nil.
Qed.
