(* Model of pkg/mpegts/pack.go : Frame.Pack, packPcr, packPts.
   No proofs in this file.

   The packet layout is written as an explicit concatenation
     ts_header ++ adaptation ++ pes_header ++ body slice
   whose part lengths are the closed forms the Go code computes with
   wpos / bodySize / inSize / stuffSize.

   Two defects of the pinned tree are kept behind a [quirks] record so that the
   pinned arithmetic stays executable (and refutable) next to the repaired one:
     q_f04   : the "has adaptation" stuffing branch (base one short, body
               written over the shifted PES header)            -- DESIGN F-04
     q_pts30 : packPts writes PTS[32..30] without the <<1      -- found here
   [pack] (the function the correspondence check ties to the working tree)
   is [pack_q fixed_tree]; [pack_pinned] is [pack_q pinned_tree]. *)
From Lal Require Import Common.LBytes.
Open Scope N_scope.

Definition ts_delay : N := 63000.   (* mpegts.delay *)

Record frame := mk_frame {
  f_pts : N;      (* uint64 *)
  f_dts : N;      (* uint64 *)
  f_cc  : N;      (* uint8  continuity counter carried in and out *)
  f_pid : N;      (* uint16 *)
  f_sid : N;      (* uint8  *)
  f_key : bool;
  f_raw : bytes
}.

Record quirks := mk_quirks { q_f04 : bool; q_pts30 : bool }.
Definition pinned_tree : quirks := {| q_f04 := true; q_pts30 := true |}.
Definition fixed_tree : quirks := {| q_f04 := false; q_pts30 := false |}.

(* packet[0..3]: sync, PUSI | PID high 5 bits, PID low 8 bits,
   adaptation_field_control (0x10 payload only, 0x30 adaptation + payload) | cc & 0x0f *)
Definition ts_header (pusi : bool) (pid afc cc : N) : bytes :=
  [71; (if pusi then 64 else 0) + (pid / 256) mod 32; pid mod 256; afc + cc mod 16].

(* packPcr: 33-bit base, 6 reserved bits set, 9-bit extension = 0 *)
Definition pack_pcr (pcr : N) : bytes :=
  [(pcr / 33554432) mod 256; (pcr / 131072) mod 256; (pcr / 512) mod 256; (pcr / 2) mod 256;
   (pcr mod 2) * 128 + 126; 0].

(* packPts(out, fb, pts) *)
Definition pack_pts_q (q : quirks) (fb pts : N) : bytes :=
  let v1 := ((pts / 32768) mod 32768) * 2 + 1 in
  let v0 := (pts mod 32768) * 2 + 1 in
  (if q_pts30 q
   then N.lor (N.lor ((fb * 16) mod 256) ((pts / 1073741824) mod 8)) 1   (* pinned: no <<1 *)
   else (fb * 16) mod 256 + ((pts / 1073741824) mod 8) * 2 + 1)
  :: [(v1 / 256) mod 256; v1 mod 256; (v0 / 256) mod 256; v0 mod 256].

(* pcr := 0; if frame.Dts > delay { pcr = frame.Dts - delay } *)
Definition frame_pcr (f : frame) : N :=
  if ts_delay <? f_dts f then f_dts f - ts_delay else 0.

(* the key-frame adaptation field: length byte, flags 0x50 (random access +
   PCR), PCR, then [stuff] bytes of 0xFF when it has been grown *)
Definition adapt_pcr (f : frame) (stuff : nat) : bytes :=
  [u8 (7 + N.of_nat stuff); 80] ++ pack_pcr (frame_pcr f) ++ repeat 255 stuff.

Definition has_dts (f : frame) : bool := negb (f_dts f =? f_pts f).

(* PES header: start code, stream id, PES_packet_length (0 when > 0xFFFF),
   0x80, PTS/DTS flags, header data length, PTS [, DTS] *)
Definition pes_header_q (q : quirks) (f : frame) : bytes :=
  let hs := if has_dts f then 10 else 5 in
  let flags := if has_dts f then 192 else 128 in
  let pes_size0 := lenN (f_raw f) + hs + 3 in
  let pes_size := if 65535 <? pes_size0 then 0 else pes_size0 in
  [0; 0; 1; f_sid f; (pes_size / 256) mod 256; pes_size mod 256; 128; flags; hs]
    ++ pack_pts_q q (flags / 64) (u64 (f_pts f + ts_delay))
    ++ (if has_dts f then pack_pts_q q 1 (u64 (f_dts f + ts_delay)) else []).

(* a new adaptation field of [stuff] >= 1 bytes in total: length byte
   stuff-1, then (when stuff >= 2) a zero flags byte and 0xFF fill *)
Definition stuffing_new (stuff : nat) : bytes :=
  match stuff with
  | O => []
  | S O => [0]
  | S (S k) => u8 (N.of_nat (S k)) :: 0 :: repeat 255 k
  end.

(* ---- in-place buffer operations, used only for the pinned F-04 branch ---- *)
(* Go copy(p[dst:], src): truncated to the room left in p *)
Definition buf_blit (p : bytes) (dst : nat) (src : bytes) : bytes :=
  let src' := firstn (length p - dst) src in
  firstn dst p ++ src' ++ skipn (dst + length src') p.
Definition buf_set (p : bytes) (i : nat) (v : N) : bytes := buf_blit p i [v].

(* pinned tree, first packet of a key frame that does not fill the packet:
     base := int(4 + packet[4]); copy(packet[base+stuffSize:], packet[base:wpos]);
     wpos = base + stuffSize; packet[4] += uint8(stuffSize); fill 0xFF; copy body *)
Definition first_key_stuff_pinned (hdr adapt pes raw : bytes) (stuff : nat) : bytes :=
  let wpos := (length hdr + length adapt + length pes)%nat in
  let pkt0 := hdr ++ adapt ++ pes ++ repeat 0 (188 - wpos) in      (* fresh buffer: zeros *)
  let base := (4 + N.to_nat (nth 4 pkt0 0%N))%nat in
  let pkt1 := if Nat.ltb base wpos
              then buf_blit pkt0 (base + stuff) (firstn (wpos - base) (skipn base pkt0))
              else pkt0 in
  let pkt2 := buf_set pkt1 4 (u8 (nth 4 pkt1 0 + u8 (N.of_nat stuff))) in
  let pkt3 := buf_blit pkt2 base (repeat 255 stuff) in
  buf_blit pkt3 (base + stuff) raw.

(* first packet of a frame with n = len(raw) > 0; returns the packet and the
   number of body bytes it consumed *)
Definition pack_first_q (q : quirks) (f : frame) (n : nat) : bytes * nat :=
  let cc1 := u8 (f_cc f + 1) in
  let pes := pes_header_q q f in
  let wpos := (4 + (if f_key f then 8 else 0) + length pes)%nat in
  let body := (188 - wpos)%nat in                    (* bodySize *)
  if Nat.leb body n then
    (ts_header true (f_pid f) (if f_key f then 48 else 16) cc1
       ++ (if f_key f then adapt_pcr f 0 else []) ++ pes ++ firstn body (f_raw f), body)
  else
    let stuff := (body - n)%nat in                   (* stuffSize *)
    if f_key f then
      ((if q_f04 q
        then first_key_stuff_pinned (ts_header true (f_pid f) 48 cc1) (adapt_pcr f 0) pes (f_raw f) stuff
        else ts_header true (f_pid f) 48 cc1 ++ adapt_pcr f stuff ++ pes ++ f_raw f), n)
    else
      (ts_header true (f_pid f) 48 cc1 ++ stuffing_new stuff ++ pes ++ f_raw f, n).

(* the packets after the first one; n = length raw (kept as a number so that
   a 200 KiB frame is not measured once per packet), cc = counter of the
   previous packet *)
Fixpoint pack_rest (fuel n : nat) (pid cc : N) (raw : bytes) : list bytes :=
  match fuel with
  | O => []
  | S fuel' =>
    match n with
    | O => []
    | _ =>
      let cc1 := u8 (cc + 1) in
      if Nat.leb 184 n then
        (ts_header false pid 16 cc1 ++ firstn 184 raw)
          :: pack_rest fuel' (n - 184) pid cc1 (skipn 184 raw)
      else
        [ts_header false pid 48 cc1 ++ stuffing_new (184 - n) ++ raw]
    end
  end.

(* Frame.Pack: the packets and the value of frame.Cc afterwards *)
Definition pack_q (q : quirks) (f : frame) : list bytes * N :=
  let n := length (f_raw f) in
  match n with
  | O => ([], f_cc f)
  | _ =>
    let (p0, used) := pack_first_q q f n in
    let rest := pack_rest (n - used) (n - used) (f_pid f) (u8 (f_cc f + 1)) (skipn used (f_raw f)) in
    (p0 :: rest, u8 (f_cc f + 1 + N.of_nat (length rest)))
  end.

Definition pack : frame -> list bytes * N := pack_q fixed_tree.
Definition pack_pinned : frame -> list bytes * N := pack_q pinned_tree.
Definition pes_header : frame -> bytes := pes_header_q fixed_tree.
Definition pack_pts : N -> N -> bytes := pack_pts_q fixed_tree.

(* a sequence of frames of one PID, the counter carried from frame to frame
   as remux.Rtmp2MpegtsRemuxer does (frame.Cc = s.videoCc; Pack; s.videoCc = frame.Cc) *)
Definition with_cc (f : frame) (cc : N) : frame :=
  {| f_pts := f_pts f; f_dts := f_dts f; f_cc := cc; f_pid := f_pid f; f_sid := f_sid f;
     f_key := f_key f; f_raw := f_raw f |}.

Fixpoint pack_seq_q (q : quirks) (cc : N) (fs : list frame) : list (list bytes) * N :=
  match fs with
  | [] => ([], cc)
  | f :: t =>
    let (pk, cc1) := pack_q q (with_cc f cc) in
    let (rest, cc2) := pack_seq_q q cc1 t in
    (pk :: rest, cc2)
  end.
Definition pack_seq := pack_seq_q fixed_tree.
Definition pack_seq_pinned := pack_seq_q pinned_tree.
