(* Proofs for the PSI part of C09: PackPat / PackPmt against the reference
   section parser (with the bit-by-bit CRC-32 of annex A), and lal's CRC table
   against the polynomial. *)
From Lal Require Import Common.LBytes Common.LBytesProofs Mpegts.TsPsi Mpegts.TsDemux.
From Coq Require Import Lia ZifyN ZifyNat ZifyBool.
Open Scope N_scope.

Lemma pack_pat_ok :
  length pack_pat = 188%nat /\
  parse_pat_packet pack_pat = Some {| pat_ts_pid := 0; pat_tsid := 1; pat_programs := [(1, 4097)] |}.
Proof. split; vm_compute; reflexivity. Qed.

(* all Go ints, not only the ids lal knows: the packer only ever compares the
   ids with 7 / 12 and 10 / 13, so 16 closed cases cover Z x Z *)
Lemma pack_pmt_ok v a :
  length (pack_pmt v a) = 188%nat /\
  parse_pmt_packet (pack_pmt v a)
  = Some {| pmt_ts_pid := 4097; pmt_program := 1; pmt_pcr_pid := 256; pmt_streams_of := expected_streams v a |}.
Proof.
  unfold pack_pmt, pmt_psi, pmt_streams, expected_streams.
  destruct (Z.eqb v 7), (Z.eqb v 12), (Z.eqb a 10), (Z.eqb a 13); split; vm_compute; reflexivity.
Qed.

(* ... and every version of the PMT (C06: the late-track fix sends version 1, 2): 16 x 32 closed cases *)
Lemma pack_pmt_ver_0 v a : pack_pmt_ver v a 0 = pack_pmt v a.
Proof. reflexivity. Qed.

Lemma N_lt32_cases (P : N -> Prop) :
  (forall i, In i (map N.of_nat (seq 0 32)) -> P i) -> forall k, k < 32 -> P k.
Proof.
  intros H k Hk. apply H. apply in_map_iff. exists (N.to_nat k). split; [lia|]. apply in_seq. lia.
Qed.

Lemma pack_pmt_ver_ok v a k :
  length (pack_pmt_ver v a k) = 188%nat /\
  parse_pmt_packet (pack_pmt_ver v a k)
  = Some {| pmt_ts_pid := 4097; pmt_program := 1; pmt_pcr_pid := 256; pmt_streams_of := expected_streams v a |}.
Proof.
  unfold pack_pmt_ver, pmt_psi_ver, pmt_streams, expected_streams.
  assert (Hk : k mod 32 < 32) by (apply N.mod_lt; discriminate).
  revert Hk. generalize (k mod 32). clear k.
  destruct (Z.eqb v 7), (Z.eqb v 12), (Z.eqb a 10), (Z.eqb a 13);
    (apply N_lt32_cases; intros i Hi; cbn [map seq In N.of_nat] in Hi;
     repeat (destruct Hi as [<-|Hi]; [split; vm_compute; reflexivity|]); destruct Hi).
Qed.

(* the declared elementary streams are exactly the known codecs *)
Lemma expected_streams_exact v a :
  map es_stream_type (expected_streams v a)
  = (if Z.eqb v 7 then [27] else if Z.eqb v 12 then [36] else [])
    ++ (if Z.eqb a 10 then [15] else if Z.eqb a 13 then [6] else []).
Proof. unfold expected_streams. destruct (Z.eqb v 7), (Z.eqb v 12), (Z.eqb a 10), (Z.eqb a 13); reflexivity. Qed.

(* ---- lal's literal CRC table = byte-swapped CRC-32/MPEG-2 table ---- *)
Definition bswap32 (x : N) : N := le_get (be_put 4 x).

Definition table_entry_ok (i : N) : bool :=
  nth (N.to_nat i) crc32_table 0 =? bswap32 (crc_byte (i * 16777216) 0).

Fixpoint upto (n : nat) : list N := match n with O => [] | S k => upto k ++ [N.of_nat k] end.

Lemma crc32_table_all : forallb table_entry_ok (upto 256) = true.
Proof. vm_compute. reflexivity. Qed.

Lemma in_upto n i : (N.to_nat i < n)%nat -> In i (upto n).
Proof.
  induction n as [|k IH]; intro H; [lia|]. cbn [upto]. apply in_or_app.
  destruct (Nat.eq_dec (N.to_nat i) k) as [E|E].
  - right. left. subst k. now rewrite N2Nat.id.
  - left. apply IH. lia.
Qed.

Lemma crc32_table_correct i : i < 256 ->
  nth (N.to_nat i) crc32_table 0 = bswap32 (crc_byte (i * 16777216) 0).
Proof.
  intro Hi. pose proof crc32_table_all as H. rewrite forallb_forall in H.
  specialize (H i (in_upto 256 i ltac:(lia))). unfold table_entry_ok in H. now apply N.eqb_eq in H.
Qed.
