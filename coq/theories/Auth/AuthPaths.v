(* Model of the path derivations:
   - path/filepath.Clean and Join (unix) as [clean] / [join_clean];
   - pkg/base/url.go parseUrlPath + UrlContext.GetFileType / GetFilenameWithoutType;
   - pkg/hls/path_strategy.go DefaultPathStrategy (GetRequestInfo, GetMuxerOutPath,
     Get*M3u8FileName, GetTsFileName, GetTsFileNameWithPath, getStreamNameFromTsFileName);
   - the request check of hls.ServerHandler.ServeHTTPWithUrlCtx (which file is opened);
   - record file names of pkg/logic/group__record_flv.go / group__record_mpegts.go.
   Strings are lists of byte values.  No proofs in this file. *)
From Lal Require Import Common.LBytes Auth.AuthStr.
Open Scope N_scope.

Definition slash : N := 47.
Definition s_dot : bytes := [46].
Definition s_dotdot : bytes := [46; 46].
Definition s_m3u8 : bytes := [109; 51; 117; 56].                                             (* "m3u8" *)
Definition s_ts : bytes := [116; 115].                                                       (* "ts" *)
Definition s_playlist_m3u8 : bytes := [112; 108; 97; 121; 108; 105; 115; 116; 46; 109; 51; 117; 56]. (* "playlist.m3u8" *)
Definition s_record_m3u8 : bytes := [114; 101; 99; 111; 114; 100; 46; 109; 51; 117; 56].     (* "record.m3u8" *)
Definition s_dot_ts : bytes := [46; 116; 115].                                               (* ".ts" *)
Definition s_dot_flv : bytes := [46; 102; 108; 118].                                         (* ".flv" *)
Definition dash : N := 45.

(* ---- filepath.Clean / filepath.Join --------------------------------------- *)

Definition rooted (s : bytes) : bool := match s with x :: _ => x =? slash | [] => false end.

(* Clean's loop over the '/'-separated elements; [stack] holds the elements
   written so far, last one first. *)
Fixpoint clean_comps (rt : bool) (stack : list bytes) (cs : list bytes) : list bytes :=
  match cs with
  | [] => stack
  | c :: t =>
      if is_empty c || beq c s_dot then clean_comps rt stack t
      else if beq c s_dotdot then
        match stack with
        | top :: rest =>
            if beq top s_dotdot then clean_comps rt (c :: stack) t   (* only ".." so far: keep it *)
            else clean_comps rt rest t                               (* backtrack one element *)
        | [] => if rt then clean_comps rt [] t else clean_comps rt [c] t
        end
      else clean_comps rt (c :: stack) t
  end.

(* the elements of the cleaned path *)
Definition path_comps (s : bytes) : list bytes :=
  rev (clean_comps (rooted s) [] (split_byte slash s)).

(* a cleaned path from rootedness and elements *)
Definition render (rt : bool) (comps : list bytes) : bytes :=
  if rt then slash :: join_with slash comps
  else match comps with [] => s_dot | _ => join_with slash comps end.

(* filepath.Clean *)
Definition clean (s : bytes) : bytes := render (rooted s) (path_comps s).

(* filepath.Join : leading empty elements are ignored; "" when all are empty *)
Fixpoint join_clean (elems : list bytes) : bytes :=
  match elems with
  | [] => []
  | e :: t => if is_empty e then join_clean t else clean (join_with slash elems)
  end.

(* ---- base.UrlContext ---------------------------------------------------- *)

(* parseUrlPath : LastItemOfPath of a (decoded) URL path *)
Definition last_item_of_path (path : bytes) : bytes :=
  match split_last slash path with
  | None => []
  | Some (_, item) => item
  end.

(* calcFilenameAndTypeIfNeeded : (filenameWithoutType, fileType) *)
Definition filename_and_type (last_item : bytes) : bytes * bytes :=
  match split_last 46 last_item with
  | None => ([], [])
  | Some (a, b) => (a, b)
  end.

(* ---- hls.DefaultPathStrategy ----------------------------------------------- *)

(* getStreamNameFromTsFileName : the part before the second '-' from the end *)
Definition stream_name_from_ts (file : bytes) : bytes :=
  match split_last dash file with
  | None => file
  | Some (a, _) =>
      match split_last dash a with
      | None => file
      | Some (b, _) => b
      end
  end.

Record request_info := mk_request_info { ri_stream : bytes; ri_file : bytes }.

(* uriItems[len(uriItems)-2] of strings.Split(path, "/") *)
Definition second_last (l : list bytes) : bytes :=
  match rev l with
  | _ :: x :: _ => x
  | _ => []
  end.

(* [fixed = false]: the pinned tree.  [fixed = true]: stream names that are not a
   plain path element ("..", or containing a separator) are not mapped. *)
Definition name_is_plain (n : bytes) : bool :=
  negb (beq n s_dotdot) && negb (contains_byte slash n) && negb (contains_byte 92 n).

Definition get_request_info_gen (fixed : bool) (path root : bytes) : request_info :=
  let filename := last_item_of_path path in
  let '(noext, ftype) := filename_and_type filename in
  let ri :=
    if beq ftype s_m3u8 then
      if beq filename s_playlist_m3u8 || beq filename s_record_m3u8 then
        let sn := second_last (split_byte slash path) in
        mk_request_info sn (join_clean [root; sn; filename])
      else mk_request_info noext (join_clean [root; noext; s_playlist_m3u8])
    else if beq ftype s_ts then
      let sn := stream_name_from_ts filename in
      mk_request_info sn (join_clean [root; sn; filename])
    else mk_request_info [] [] in
  if fixed && negb (name_is_plain (ri_stream ri)) then mk_request_info [] [] else ri.

(* ServeHTTPWithUrlCtx (sub-session mode off): the file handed to ReadFile,
   None when the request is answered without opening a file *)
Definition hls_serve_file_gen (fixed : bool) (path root : bytes) : option bytes :=
  let filename := last_item_of_path path in
  let ftype := snd (filename_and_type filename) in
  let ri := get_request_info_gen fixed path root in
  if is_empty filename || (negb (beq ftype s_m3u8) && negb (beq ftype s_ts))
     || is_empty (ri_stream ri) || is_empty (ri_file ri)
  then None else Some (ri_file ri).

(* the write side.  [fixed = true]: the stream name is first made a plain path
   element (hls.confineName / base.ConfineStreamName in the fixed tree). *)
Definition confine_name (n : bytes) : bytes :=
  let m := map (fun b => if (b =? slash) || (b =? 92) then 95 else b) n in
  if beq m s_dotdot then [95; 95] else m.

Definition wname (fixed : bool) (n : bytes) : bytes := if fixed then confine_name n else n.

Definition get_muxer_out_path_gen (fixed : bool) (root name : bytes) : bytes :=
  join_clean [root; wname fixed name].
Definition get_live_m3u8 (out_path : bytes) : bytes := join_clean [out_path; s_playlist_m3u8].
Definition get_record_m3u8 (out_path : bytes) : bytes := join_clean [out_path; s_record_m3u8].
(* fmt.Sprintf("%s-%d-%d.ts", streamName, timestamp, index), index and timestamp >= 0 *)
Definition get_ts_file_name_gen (fixed : bool) (name : bytes) (index ts : N) : bytes :=
  wname fixed name ++ dash :: dec ts ++ dash :: dec index ++ s_dot_ts.
Definition get_ts_file_with_path (out_path file : bytes) : bytes := join_clean [out_path; file].

(* the four paths hls.Muxer derives for a stream: directory, live playlist,
   record playlist, fragment file *)
Definition muxer_paths_gen (fixed : bool) (root name : bytes) (index ts : N) : list bytes :=
  let op := get_muxer_out_path_gen fixed root name in
  [op; get_live_m3u8 op; get_record_m3u8 op;
   get_ts_file_with_path op (get_ts_file_name_gen fixed name index ts)].

(* Group.startRecordFlvIfNeeded / startRecordMpegtsIfNeeded :
   filepath.Join(outPath, fmt.Sprintf("%s-%d.flv", streamName, nowUnix)).
   [stamp] is the rendered %d (the model does not need the clock) *)
Definition record_file_gen (fixed : bool) (root name stamp ext : bytes) : bytes :=
  join_clean [root; wname fixed name ++ dash :: stamp ++ ext].

Definition get_request_info := get_request_info_gen true.
Definition hls_serve_file := hls_serve_file_gen true.
Definition muxer_paths := muxer_paths_gen true.
Definition record_file := record_file_gen true.
