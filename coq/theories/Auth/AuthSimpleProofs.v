(* Proofs about the simple-auth model (AuthSimple.v) against AuthSpec.v *)
From Lal Require Import Common.LBytes Auth.AuthStr Auth.AuthStrProofs Auth.AuthSimple Auth.AuthSpec.
Open Scope N_scope.

Section SimpleProofs.
  Variable md5raw : bytes -> bytes.
  Variable parse_query : bytes -> option (list (bytes * bytes)).
  Variable lower_uni : bytes -> bytes.

  Notation to_lower := (to_lower lower_uni).
  Notation md5hex := (md5hex md5raw).

  (* the derived secret is lower-case hex: lower-casing leaves it alone *)
  Lemma to_lower_md5hex x : to_lower (md5hex x) = md5hex x.
  Proof.
    unfold AuthSimple.to_lower, AuthSimple.md5hex.
    destruct (hex_lower_is_lower (md5raw x)) as [H1 H2]. now rewrite H2.
  Qed.

  Lemma md5hex_nonempty_or x : md5raw x <> [] -> md5hex x <> [].
  Proof. unfold AuthSimple.md5hex. destruct (md5raw x); [congruence|]. cbn [hex_lower]. discriminate. Qed.

  (* the decision is "flag on => check" *)
  Lemma sa_decide_gen_eq fixed cfg dir proto stream param :
    sa_decide_gen md5raw parse_query lower_uni fixed cfg dir proto stream param =
    if flag_for cfg dir proto then check_gen md5raw parse_query lower_uni fixed cfg stream param else SaOk.
  Proof.
    unfold sa_decide_gen, flag_for.
    destruct dir as [|[p|p|]]; try reflexivity.
    - (* publish *)
      unfold on_pub_start_gen.
      destruct (beq proto proto_rtmp) eqn:E1.
      + apply beq_eq in E1. subst proto. replace (beq proto_rtmp proto_rtsp) with false by reflexivity.
        rewrite andb_true_r, andb_false_r, orb_false_r. reflexivity.
      + rewrite andb_false_r. cbn [orb]. destruct (beq proto proto_rtsp); [now rewrite andb_true_r|now rewrite andb_false_r].
    - (* play *)
      unfold on_sub_start_gen.
      destruct (beq proto proto_rtmp) eqn:E1.
      + apply beq_eq in E1. subst proto.
        replace (beq proto_rtmp proto_flv) with false by reflexivity.
        replace (beq proto_rtmp proto_ts) with false by reflexivity.
        replace (beq proto_rtmp proto_rtsp) with false by reflexivity.
        rewrite andb_true_r, !andb_false_r, !orb_false_r. reflexivity.
      + rewrite andb_false_r. cbn [orb].
        destruct (beq proto proto_flv) eqn:E2.
        * apply beq_eq in E2. subst proto.
          replace (beq proto_flv proto_ts) with false by reflexivity.
          replace (beq proto_flv proto_rtsp) with false by reflexivity.
          rewrite andb_true_r, !andb_false_r, !orb_false_r. reflexivity.
        * rewrite andb_false_r. cbn [orb].
          destruct (beq proto proto_ts) eqn:E3.
          -- apply beq_eq in E3. subst proto. replace (beq proto_ts proto_rtsp) with false by reflexivity.
             rewrite andb_true_r, !andb_false_r, !orb_false_r. reflexivity.
          -- rewrite andb_false_r. cbn [orb]. destruct (beq proto proto_rtsp); [now rewrite andb_true_r|now rewrite andb_false_r].
  Qed.

  (* check admits exactly the requests that carry the derived or the override secret *)
  Lemma check_iff cfg stream param :
    check md5raw parse_query lower_uni cfg stream param = SaOk <->
    carries_secret md5raw parse_query lower_uni cfg stream param.
  Proof.
    unfold check, check_gen, carries_secret, same_fold, override_matches, calc_secret.
    destruct (parse_query param) as [q|] eqn:Eq.
    2:{ split; [discriminate|]. intros (q & v & H & _). discriminate. }
    set (v := query_get q secret_name).
    destruct (is_empty v) eqn:Ev.
    { apply is_empty_spec in Ev. split; [discriminate|].
      intros (q' & v' & H & Hv & Hne & _). inversion H; subst q'. fold v in Hv. congruence. }
    apply is_empty_false in Ev.
    rewrite to_lower_md5hex.
    destruct (is_empty (sa_override cfg)) eqn:Eo; cbn [negb andb].
    - apply is_empty_spec in Eo.
      destruct (beq (to_lower v) (md5hex (sa_key cfg ++ stream))) eqn:Eb.
      + apply beq_eq in Eb. split; [intros _|reflexivity]. exists q, v. repeat split; auto.
      + apply beq_neq in Eb. split; [discriminate|].
        intros (q' & v' & H & Hv & Hne & [Hm|[Ho _]]); inversion H; subst q'; fold v in Hv; subst v'; congruence.
    - apply is_empty_false in Eo.
      destruct (beq (to_lower v) (to_lower (sa_override cfg))) eqn:Eb1.
      + apply beq_eq in Eb1. split; [intros _|reflexivity]. exists q, v. repeat split; auto.
      + apply beq_neq in Eb1.
        destruct (beq (to_lower v) (md5hex (sa_key cfg ++ stream))) eqn:Eb.
        * apply beq_eq in Eb. split; [intros _|reflexivity]. exists q, v. repeat split; auto.
        * apply beq_neq in Eb. split; [discriminate|].
          intros (q' & v' & H & Hv & Hne & [Hm|[_ Hm]]); inversion H; subst q'; fold v in Hv; subst v'; congruence.
  Qed.

  Theorem simple_iff cfg dir proto stream param :
    sa_decide md5raw parse_query lower_uni cfg dir proto stream param = SaOk <->
    (flag_for cfg dir proto = false \/ carries_secret md5raw parse_query lower_uni cfg stream param).
  Proof.
    unfold sa_decide. rewrite sa_decide_gen_eq.
    destruct (flag_for cfg dir proto).
    - fold (check md5raw parse_query lower_uni cfg stream param). rewrite check_iff.
      split; [now right|]. intros [H|H]; [discriminate|exact H].
    - split; [now left|reflexivity].
  Qed.

  (* a protocol/direction whose flag is off is admitted whatever the other flags,
     the key, the secrets and the URL are *)
  Theorem flag_off_admits cfg dir proto stream param :
    flag_for cfg dir proto = false ->
    sa_decide md5raw parse_query lower_uni cfg dir proto stream param = SaOk.
  Proof. intros H. apply simple_iff. now left. Qed.

  (* the decision for one protocol/direction depends on its own flag only *)
  Theorem flags_independent cfg cfg' dir proto stream param :
    sa_key cfg = sa_key cfg' -> sa_override cfg = sa_override cfg' ->
    flag_for cfg dir proto = flag_for cfg' dir proto ->
    sa_decide md5raw parse_query lower_uni cfg dir proto stream param =
    sa_decide md5raw parse_query lower_uni cfg' dir proto stream param.
  Proof.
    intros Hk Ho Hf. unfold sa_decide. rewrite !sa_decide_gen_eq, Hf.
    destruct (flag_for cfg' dir proto); [|reflexivity].
    unfold check_gen, override_matches, calc_secret. now rewrite Hk, Ho.
  Qed.

  (* "right in either letter case": an ASCII value that lower-cases to the derived secret *)
  Corollary either_case_admitted cfg dir proto stream param q v :
    parse_query param = Some q -> v = query_get q secret_name ->
    is_ascii v = true -> map ascii_lower v = md5hex (sa_key cfg ++ stream) -> md5raw (sa_key cfg ++ stream) <> [] ->
    sa_decide md5raw parse_query lower_uni cfg dir proto stream param = SaOk.
  Proof.
    intros Hq Hv Ha Hm Hne. apply simple_iff. right. exists q, v. repeat split; auto.
    - intro E. subst v. rewrite E in Hm. cbn in Hm. symmetry in Hm. now apply md5hex_nonempty_or in Hm.
    - left. unfold same_fold. rewrite to_lower_md5hex. unfold AuthSimple.to_lower. now rewrite Ha.
  Qed.
End SimpleProofs.

(* the pinned tree: an override secret with an upper-case letter can never be matched (F-19) *)
Lemma simple_pinned_refuted :
  exists md5raw parse_query lower_uni cfg dir proto stream param,
    flag_for cfg dir proto = true /\
    carries_secret md5raw parse_query lower_uni cfg stream param /\
    sa_decide_gen md5raw parse_query lower_uni false cfg dir proto stream param <> SaOk.
Proof.
  (* dangerous_lal_secret = "ABC", URL ?lal_secret=ABC, publish over RTMP *)
  exists (fun _ => [0]), (fun _ => Some [(secret_name, [65; 66; 67])]), (fun s => s),
    (mk_sa_config [107] [65; 66; 67] true false false false false false false), 0, proto_rtmp, [115], [].
  split; [reflexivity|]. split.
  - exists [(secret_name, [65; 66; 67])], [65; 66; 67]. repeat split; try discriminate.
    right. split; [discriminate|reflexivity].
  - vm_compute. discriminate.
Qed.
