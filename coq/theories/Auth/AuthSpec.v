(* What C14 asks for, stated independently of lal's control flow.
   Definitions only (no proofs). *)
From Lal Require Import Common.LBytes Auth.AuthStr Auth.AuthSimple Auth.AuthRtsp Auth.AuthPaths Auth.AuthBlacklist Auth.AuthServeHls.
Open Scope N_scope.

(* ---- simple auth ---------------------------------------------------------- *)

(* "simple-auth is enabled for this protocol and direction"
   dir: 0 = publish, 1 = play, 2 = HLS playlist; proto = base.SessionProtocol*Str *)
Definition flag_for (cfg : sa_config) (dir : N) (proto : bytes) : bool :=
  match dir with
  | 0 => if beq proto proto_rtmp then sa_pub_rtmp cfg
         else if beq proto proto_rtsp then sa_pub_rtsp cfg else false
  | 1 => if beq proto proto_rtmp then sa_sub_rtmp cfg
         else if beq proto proto_flv then sa_sub_flv cfg
         else if beq proto proto_ts then sa_sub_ts cfg
         else if beq proto proto_rtsp then sa_sub_rtsp cfg else false
  | _ => sa_hls_m3u8 cfg
  end.

Section SimpleSpec.
  Variable md5raw : bytes -> bytes.
  Variable parse_query : bytes -> option (list (bytes * bytes)).
  Variable lower_uni : bytes -> bytes.

  (* two strings that differ at most in letter case *)
  Definition same_fold (a b : bytes) : Prop := to_lower lower_uni a = to_lower lower_uni b.

  (* "the URL carries the lal_secret derived from the configured key and the stream
     name, or the configured override secret" - in either letter case *)
  Definition carries_secret (cfg : sa_config) (stream param : bytes) : Prop :=
    exists q v,
      parse_query param = Some q /\ v = query_get q secret_name /\ v <> [] /\
      (same_fold v (md5hex md5raw (sa_key cfg ++ stream))
       \/ (sa_override cfg <> [] /\ same_fold v (sa_override cfg))).
End SimpleSpec.

(* ---- RTSP ----------------------------------------------------------------- *)
Section RtspSpec.
  Variable md5raw : bytes -> bytes.
  Variable b64dec : bytes -> option bytes.

  (* RFC 7617: scheme Basic, base64 of user-id ":" password *)
  Definition valid_basic (user pass hdr : bytes) : Prop :=
    exists payload, hdr = s_basic_sp ++ payload /\ b64dec payload = Some (user ++ colon :: pass).

  (* RFC 2617 without qop: response = MD5(MD5(user:realm:pass):nonce:MD5(method:uri)) with the
     realm / nonce / uri carried in the header, method DESCRIBE *)
  Definition valid_digest (user pass hdr : bytes) : Prop :=
    exists d, hdr = s_digest_sp ++ d /\
      get_v d k_response =
        digest_response md5raw user (get_v d k_realm) pass s_describe (get_v d k_uri) (get_v d k_nonce).

  (* valid credentials of the configured method (0 = Basic, 1 = Digest) *)
  Definition valid_credentials (c : rtsp_conf) (hdr : bytes) : Prop :=
    (rc_method c = 0%Z /\ valid_basic (rc_user c) (rc_pass c) hdr)
    \/ (rc_method c = 1%Z /\ valid_digest (rc_user c) (rc_pass c) hdr).
End RtspSpec.

(* ---- paths ---------------------------------------------------------------- *)

(* an ordinary path element: not empty, not ".", not "..", no separator *)
Definition plain (c : bytes) : Prop :=
  c <> [] /\ c <> s_dot /\ c <> s_dotdot /\ ~ In slash c.

(* p is the (cleaned) directory root itself or a path below it: the cleaned root
   followed by ordinary path elements *)
Definition inside (root p : bytes) : Prop :=
  exists rest, Forall plain rest /\ p = render (rooted root) (path_comps root ++ rest).

(* ---- black-list ------------------------------------------------------------- *)
Fixpoint bl_lookup (ip : bytes) (t : bl_table) : option Z :=
  match t with
  | [] => None
  | (k, u) :: r => if beq k ip then Some u else bl_lookup ip r
  end.

(* the history with the address each Has asked about *)
Fixpoint bl_run_tagged (t : bl_table) (now : Z) (ops : list bl_op) : list (bytes * bool) :=
  match ops with
  | [] => []
  | BlAdd ip dur :: r => bl_run_tagged (bl_add t ip dur now) now r
  | BlHas ip :: r => let '(t', b) := bl_has t ip now in (ip, b) :: bl_run_tagged t' now r
  | BlSleep s :: r => bl_run_tagged t (now + s)%Z r
  end.

Fixpoint total_sleep (ops : list bl_op) : Z :=
  match ops with
  | [] => 0%Z
  | BlSleep s :: r => (s + total_sleep r)%Z
  | _ :: r => total_sleep r
  end.

Definition op_ok (ip : bytes) (o : bl_op) : Prop :=
  match o with
  | BlAdd k _ => k <> ip           (* the address is not added again (that would replace its expiry) *)
  | BlHas _ => True
  | BlSleep s => (0 <= s)%Z        (* the clock does not go backwards *)
  end.

(* ---- serveHls histories ------------------------------------------------------ *)
Section ServeHlsSpec.
  Variable md5raw : bytes -> bytes.
  Variable parse_query : bytes -> option (list (bytes * bytes)).
  Variable lower_uni : bytes -> bytes.
  Variable parse_query_all : bytes -> list (bytes * bytes).

  (* the history with the operation each answer belongs to *)
  Fixpoint sh_trace (cfg : sa_config) (sub_on : bool) (root : bytes) (timeout_ms phase : Z)
    (st : hls_state) (now_ms : Z) (ops : list sh_op) : list (sh_op * hls_resp) :=
    match ops with
    | [] => []
    | o :: r =>
        let '(st', t, resp) := sh_step md5raw parse_query lower_uni parse_query_all cfg sub_on root timeout_ms phase st now_ms o in
        match resp with
        | Some x => (o, x) :: sh_trace cfg sub_on root timeout_ms phase st' t r
        | None => sh_trace cfg sub_on root timeout_ms phase st' t r
        end
    end.

  (* state and clock after a history *)
  Fixpoint sh_exec (cfg : sa_config) (sub_on : bool) (root : bytes) (timeout_ms phase : Z)
    (st : hls_state) (now_ms : Z) (ops : list sh_op) : hls_state * Z :=
    match ops with
    | [] => (st, now_ms)
    | o :: r =>
        let '(st', t, _) := sh_step md5raw parse_query lower_uni parse_query_all cfg sub_on root timeout_ms phase st now_ms o in
        sh_exec cfg sub_on root timeout_ms phase st' t r
    end.
End ServeHlsSpec.

Fixpoint sh_total_sleep (ops : list sh_op) : Z :=
  match ops with
  | [] => 0%Z
  | ShSleep s :: r => (s + sh_total_sleep r)%Z
  | _ :: r => sh_total_sleep r
  end.

Definition sh_op_ok (ip : bytes) (o : sh_op) : Prop :=
  match o with
  | ShBlacklist k _ => k <> ip
  | ShSleep s => (0 <= s)%Z
  | _ => True
  end.

(* "HLS content" = the handler opened a file; a black-listed address is not even given a session *)
Definition no_content (r : hls_resp) : Prop := (forall p, r <> HrFile p) /\ (forall sid, r <> HrRedirect sid).

(* the request got past simple auth and the black-list, i.e. hls.ServerHandler saw it *)
Definition reaches_handler (r : hls_resp) : Prop := r <> HrAuthFail /\ r <> HrBlocked.

(* the answers to the requests of address ip / to the requests that carry session id sid *)
Definition from_ip (ip : bytes) (P : hls_resp -> Prop) (e : sh_op * hls_resp) : Prop :=
  match fst e with ShGet k _ _ => k = ip -> P (snd e) | _ => True end.
