(* Model of pkg/logic/simple_auth.go : SimpleAuthCtx.OnPubStart / OnSubStart /
   OnHls / check and SimpleAuthCalcSecret.  External code is a Section
   variable: crypto/md5 (raw 16-byte digest), net/url.ParseQuery (None = it
   returned an error) and the non-ASCII path of strings.ToLower.
   No proofs in this file. *)
From Lal Require Import Common.LBytes Auth.AuthStr.
Open Scope N_scope.

Record sa_config := mk_sa_config {
  sa_key : bytes;
  sa_override : bytes;          (* DangerousLalSecret *)
  sa_pub_rtmp : bool;
  sa_sub_rtmp : bool;
  sa_sub_flv : bool;
  sa_sub_ts : bool;
  sa_pub_rtsp : bool;
  sa_sub_rtsp : bool;
  sa_hls_m3u8 : bool }.

(* error values of check: nil / url.ParseQuery error / ErrSimpleAuthParamNotFound / ErrSimpleAuthFailed *)
Inductive sa_result := SaOk | SaErrParse | SaErrNotFound | SaErrFailed.
Definition sa_code (r : sa_result) : N :=
  match r with SaOk => 0 | SaErrParse => 1 | SaErrNotFound => 2 | SaErrFailed => 3 end.

(* base.SessionProtocol*Str *)
Definition proto_rtmp : bytes := [82; 84; 77; 80].          (* "RTMP" *)
Definition proto_rtsp : bytes := [82; 84; 83; 80].          (* "RTSP" *)
Definition proto_flv : bytes := [70; 76; 86].               (* "FLV" *)
Definition proto_ts : bytes := [84; 83].                    (* "TS" *)
Definition secret_name : bytes := [108; 97; 108; 95; 115; 101; 99; 114; 101; 116].  (* "lal_secret" *)

(* url.Values.Get : first value stored under the key, "" when absent *)
Fixpoint query_get (q : list (bytes * bytes)) (key : bytes) : bytes :=
  match q with
  | [] => []
  | (k, v) :: t => if beq k key then v else query_get t key
  end.

Section SimpleAuth.
  Variable md5raw : bytes -> bytes.
  Variable parse_query : bytes -> option (list (bytes * bytes)).
  Variable lower_uni : bytes -> bytes.

  (* nazamd5.Md5 = hex.EncodeToString(md5.Sum) *)
  Definition md5hex (x : bytes) : bytes := hex_lower (md5raw x).

  (* strings.ToLower *)
  Definition to_lower (s : bytes) : bytes :=
    if is_ascii s then map ascii_lower s else lower_uni s.

  (* SimpleAuthCalcSecret(key, streamName) *)
  Definition calc_secret (key stream : bytes) : bytes := md5hex (key ++ stream).

  (* the comparison against DangerousLalSecret.
     [fixed = false] is the pinned tree (`v == s.config.DangerousLalSecret`, only the
     request side lower-cased); [fixed = true] is the tree after
     "fix: compare dangerous_lal_secret case-insensitively". *)
  Definition override_matches (fixed : bool) (cfg : sa_config) (v : bytes) : bool :=
    negb (is_empty (sa_override cfg)) &&
    beq v (if fixed then to_lower (sa_override cfg) else sa_override cfg).

  (* SimpleAuthCtx.check(streamName, urlParam) *)
  Definition check_gen (fixed : bool) (cfg : sa_config) (stream param : bytes) : sa_result :=
    match parse_query param with
    | None => SaErrParse
    | Some q =>
        let v := query_get q secret_name in
        if is_empty v then SaErrNotFound
        else
          let v := to_lower v in
          if override_matches fixed cfg v then SaOk
          else if beq v (calc_secret (sa_key cfg) stream) then SaOk
          else SaErrFailed
    end.

  Definition check := check_gen true.
  Definition check_pinned := check_gen false.

  (* OnPubStart(info) : info.Protocol, info.StreamName, info.UrlParam *)
  Definition on_pub_start_gen (fixed : bool) (cfg : sa_config) (proto stream param : bytes) : sa_result :=
    if (sa_pub_rtmp cfg && beq proto proto_rtmp) || (sa_pub_rtsp cfg && beq proto proto_rtsp)
    then check_gen fixed cfg stream param else SaOk.

  (* OnSubStart(info) *)
  Definition on_sub_start_gen (fixed : bool) (cfg : sa_config) (proto stream param : bytes) : sa_result :=
    if (sa_sub_rtmp cfg && beq proto proto_rtmp) || (sa_sub_flv cfg && beq proto proto_flv)
       || (sa_sub_ts cfg && beq proto proto_ts) || (sa_sub_rtsp cfg && beq proto proto_rtsp)
    then check_gen fixed cfg stream param else SaOk.

  (* OnHls(streamName, urlParam) *)
  Definition on_hls_gen (fixed : bool) (cfg : sa_config) (stream param : bytes) : sa_result :=
    if sa_hls_m3u8 cfg then check_gen fixed cfg stream param else SaOk.

  Definition on_pub_start := on_pub_start_gen true.
  Definition on_sub_start := on_sub_start_gen true.
  Definition on_hls := on_hls_gen true.

  (* One entry point for the three callbacks.  dir: 0 = publish, 1 = play, 2 = HLS playlist *)
  Definition sa_decide_gen (fixed : bool) (cfg : sa_config) (dir : N) (proto stream param : bytes) : sa_result :=
    match dir with
    | 0 => on_pub_start_gen fixed cfg proto stream param
    | 1 => on_sub_start_gen fixed cfg proto stream param
    | _ => on_hls_gen fixed cfg stream param
    end.
  Definition sa_decide := sa_decide_gen true.
End SimpleAuth.
