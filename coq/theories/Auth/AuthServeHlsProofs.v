(* Proofs about the serveHls composition (AuthServeHls.v) *)
From Lal Require Import Common.LBytes Auth.AuthStr Auth.AuthStrProofs Auth.AuthSimple Auth.AuthPaths Auth.AuthBlacklist
  Auth.AuthServeHls Auth.AuthSpec Auth.AuthBlacklistProofs Auth.AuthPathsProofs Auth.AuthSimpleProofs.
From Coq Require Import Lia.
Open Scope Z_scope.

Section ServeHlsProofs.
  Variable md5raw : bytes -> bytes.
  Variable parse_query : bytes -> option (list (bytes * bytes)).
  Variable lower_uni : bytes -> bytes.
  Variable parse_query_all : bytes -> list (bytes * bytes).
  Notation serve := (serve_hls md5raw parse_query lower_uni parse_query_all).
  Notation handler := (hls_handler parse_query_all).

  Lemma sh_run_tagged_snd cfg sub root ops : forall st now,
    map snd (sh_run_tagged md5raw parse_query lower_uni parse_query_all cfg sub root st now ops)
    = sh_run md5raw parse_query lower_uni parse_query_all cfg sub root st now ops.
  Proof.
    induction ops as [|o r IH]; intros st now; [reflexivity|].
    destruct o as [ip path q|ip d|s]; cbn [sh_run_tagged sh_run]; try apply IH.
    destruct (serve cfg sub root st now ip path q) as [st' resp]. cbn [map snd]. now rewrite IH.
  Qed.

  (* the handler never touches the black-list, and answers neither "auth failed" nor "blocked" *)
  Lemma handler_spec sub root st path q :
    hs_bl (fst (handler sub root st path q)) = hs_bl st /\
    reaches_handler (snd (handler sub root st path q)) /\
    (forall p, snd (handler sub root st path q) = HrFile p -> hls_serve_file path root = Some p).
  Proof.
    unfold hls_handler, reaches_handler.
    destruct (hls_serve_file path root) as [f|] eqn:Ef;
      destruct sub; cbn [fst snd];
      repeat match goal with |- context [if ?b then _ else _] => destruct b; cbn [fst snd hs_bl] end;
      repeat split; try discriminate; intros p H; now inversion H.
  Qed.

  (* one request: a listed address whose expiry has not passed gets neither content nor a
     session - whatever it asks for (playlist or fragment, either URL form, any query,
     sub-session feature on or off) - and every live entry stays listed *)
  Lemma serve_listed cfg sub root st now ip k path q u :
    bl_lookup ip (hs_bl st) = Some u -> now <= u ->
    bl_lookup ip (hs_bl (fst (serve cfg sub root st now k path q))) = Some u /\
    (k = ip -> no_content (snd (serve cfg sub root st now k path q))).
  Proof.
    intros Hl Hle. unfold serve_hls.
    match goal with |- context [negb ?b] => destruct b end; cbn [negb].
    - destruct (has_live (hs_bl st) ip k u now Hl Hle) as [H1 _].
      destruct (bl_has (hs_bl st) k now) as [t' b] eqn:E. cbn [fst] in H1.
      destruct b.
      + cbn [fst snd hs_bl]. split; [exact H1|]. intros _. split; intros ?; discriminate.
      + destruct (handler_spec sub root (mk_hls_state t' (hs_sessions st) (hs_next st)) path q) as (Hb & _ & _).
        rewrite Hb. cbn [hs_bl]. split; [exact H1|]. intros ->.
        destruct (has_live (hs_bl st) ip ip u now Hl Hle) as [_ H2]. rewrite E in H2. discriminate.
    - cbn [fst snd]. split; [exact Hl|]. intros _. split; intros ?; discriminate.
  Qed.

  Lemma sh_total_sleep_nonneg ip ops : Forall (sh_op_ok ip) ops -> 0 <= sh_total_sleep ops.
  Proof.
    induction 1 as [|o r Ho Hr IH]; [cbn; lia|]. destruct o; cbn [sh_total_sleep]; try exact IH. cbn in Ho. lia.
  Qed.

  Theorem hls_blacklisted_no_content cfg sub root ops : forall st now ip u,
    bl_lookup ip (hs_bl st) = Some u -> Forall (sh_op_ok ip) ops -> now + sh_total_sleep ops <= u ->
    Forall (fun kr => fst kr = ip -> no_content (snd kr))
           (sh_run_tagged md5raw parse_query lower_uni parse_query_all cfg sub root st now ops).
  Proof.
    induction ops as [|o r IH]; intros st now ip u Hl Hok Hle; [constructor|].
    inversion Hok as [|? ? Ho Hr]; subst.
    pose proof (sh_total_sleep_nonneg ip r Hr) as Hnn.
    destruct o as [k path q|k d|s]; cbn [sh_run_tagged sh_total_sleep] in *.
    - assert (Hnow : now <= u) by lia.
      destruct (serve_listed cfg sub root st now ip k path q u Hl Hnow) as [H1 H2].
      destruct (serve cfg sub root st now k path q) as [st' resp]. cbn [fst snd] in *.
      constructor; [exact H2|]. apply (IH _ _ ip u); auto.
    - apply (IH _ _ ip u); auto. cbn [hs_bl]. cbn in Ho. now rewrite lookup_add_other.
    - cbn in Ho. apply (IH _ _ ip u); auto. lia.
  Qed.

  (* admission: a request is seen by hls.ServerHandler <-> (for a playlist: the hls flag is
     off or the URL carries the secret) and the address is not black-listed.  Nothing else in
     the query string, the session table or the sub-session switch takes part. *)
  Theorem hls_admission cfg sub root st now ip path q :
    reaches_handler (snd (serve cfg sub root st now ip path q)) <->
    ((beq (snd (filename_and_type (last_item_of_path path))) s_m3u8 = true ->
      sa_hls_m3u8 cfg = false \/
      carries_secret md5raw parse_query lower_uni cfg (ri_stream (get_request_info path root)) q)
     /\ snd (bl_has (hs_bl st) ip now) = false).
  Proof.
    unfold serve_hls.
    set (stream := ri_stream (get_request_info path root)).
    assert (Hauth : on_hls md5raw parse_query lower_uni cfg stream q = SaOk <->
                    (sa_hls_m3u8 cfg = false \/ carries_secret md5raw parse_query lower_uni cfg stream q)).
    { unfold on_hls, on_hls_gen. destruct (sa_hls_m3u8 cfg).
      - fold (check md5raw parse_query lower_uni cfg stream q). rewrite check_iff.
        split; [now right|]. intros [H|H]; [discriminate|exact H].
      - split; [now left|reflexivity]. }
    destruct (beq (snd (filename_and_type (last_item_of_path path))) s_m3u8) eqn:Em.
    - destruct (on_hls md5raw parse_query lower_uni cfg stream q) eqn:Ea; cbn [negb].
      + destruct (bl_has (hs_bl st) ip now) as [t' b] eqn:Eb. cbn [snd]. destruct b.
        * cbn [snd]. unfold reaches_handler. split; [intros [_ H]; congruence|intros [_ H]; discriminate].
        * destruct (handler_spec sub root (mk_hls_state t' (hs_sessions st) (hs_next st)) path q) as (_ & Hr & _).
          split; [intros _|intros _; exact Hr]. split; [intros _; now apply Hauth|reflexivity].
      + cbn [snd]. unfold reaches_handler. split; [intros [H _]; congruence|].
        intros [H _]. specialize (H eq_refl). apply Hauth in H. discriminate.
      + cbn [snd]. unfold reaches_handler. split; [intros [H _]; congruence|].
        intros [H _]. specialize (H eq_refl). apply Hauth in H. discriminate.
      + cbn [snd]. unfold reaches_handler. split; [intros [H _]; congruence|].
        intros [H _]. specialize (H eq_refl). apply Hauth in H. discriminate.
    - cbn [negb]. destruct (bl_has (hs_bl st) ip now) as [t' b] eqn:Eb. cbn [snd]. destruct b.
      + cbn [snd]. unfold reaches_handler. split; [intros [_ H]; congruence|intros [_ H]; discriminate].
      + destruct (handler_spec sub root (mk_hls_state t' (hs_sessions st) (hs_next st)) path q) as (_ & Hr & _).
        split; [intros _|intros _; exact Hr]. split; [discriminate|reflexivity].
  Qed.

  (* the decision about the secret looks at the first lal_secret value only: two query
     strings whose parses agree on it are treated alike, whatever else they contain
     (session_id, arbitrary keys, duplicates, order) *)
  Lemma carries_secret_first_value cfg stream q1 q2 l1 l2 :
    parse_query q1 = Some l1 -> parse_query q2 = Some l2 ->
    query_get l1 secret_name = query_get l2 secret_name ->
    (carries_secret md5raw parse_query lower_uni cfg stream q1 <-> carries_secret md5raw parse_query lower_uni cfg stream q2).
  Proof.
    intros H1 H2 He. unfold carries_secret.
    split; intros (l & v & Hp & Hv & Hr); [exists l2|exists l1]; exists v.
    - rewrite H1 in Hp. inversion Hp; subst l. rewrite He in Hv. auto.
    - rewrite H2 in Hp. inversion Hp; subst l. rewrite <- He in Hv. auto.
  Qed.

  (* whatever is served lies inside the root, came past the black-list, and - for a
     playlist - past simple auth *)
  Theorem hls_served_confined cfg sub root st now ip path q st' p :
    root <> [] -> serve cfg sub root st now ip path q = (st', HrFile p) ->
    inside root p /\ reaches_handler (snd (serve cfg sub root st now ip path q)).
  Proof.
    intros Hr H. split; [|rewrite H; split; discriminate].
    revert H. unfold serve_hls.
    match goal with |- context [negb ?b] => destruct b end; cbn [negb]; [|discriminate].
    destruct (bl_has (hs_bl st) ip now) as [t1 b]. destruct b; [discriminate|].
    intros H.
    destruct (handler_spec sub root (mk_hls_state t1 (hs_sessions st) (hs_next st)) path q) as (_ & _ & Hf).
    rewrite H in Hf. cbn [snd] in Hf. apply (serve_confined root path); auto.
  Qed.
End ServeHlsProofs.
