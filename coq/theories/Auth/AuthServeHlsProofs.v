(* Proofs about the serveHls composition and the HLS sub-session life cycle (AuthServeHls.v) *)
From Lal Require Import Common.LBytes Auth.AuthStr Auth.AuthStrProofs Auth.AuthSimple Auth.AuthPaths Auth.AuthBlacklist
  Auth.AuthServeHls Auth.AuthSpec Auth.AuthBlacklistProofs Auth.AuthPathsProofs Auth.AuthSimpleProofs.
From Coq Require Import Lia DecimalN.
Open Scope Z_scope.

(* ---- session ids are distinct ---------------------------------------------------- *)
Lemma uint_bytes_inj u : forall v, uint_bytes u = uint_bytes v -> u = v.
Proof.
  induction u; destruct v; cbn [uint_bytes]; intros H; try discriminate; try reflexivity;
    inversion H as [H1]; f_equal; auto.
Qed.

Lemma new_session_id_inj a b : new_session_id a = new_session_id b -> a = b.
Proof.
  unfold new_session_id, dec. intros H. inversion H as [H1]. apply uint_bytes_inj in H1.
  rewrite <- (DecimalN.Unsigned.of_to a), <- (DecimalN.Unsigned.of_to b). now rewrite H1.
Qed.

(* ---- the session list operations ------------------------------------------------- *)
Lemma sess_mem_spec x l : sess_mem x l = true <-> exists y, In y l /\ hx_id y = x.
Proof.
  induction l as [|y t IH]; cbn [sess_mem In].
  - split; [discriminate|intros (y & [] & _)].
  - rewrite orb_true_iff, IH, beq_eq. split.
    + intros [H|(z & Hz & E)]; [exists y; auto|exists z; auto].
    + intros (z & [->|Hz] & E); [now left|right; eauto].
Qed.

(* every element of l' comes from an element of l with the same id, and disposed stays disposed *)
Definition sub_of (l' l : list hsess) : Prop :=
  forall y', In y' l' -> exists y, In y l /\ hx_id y' = hx_id y /\ (hx_disposed y = true -> hx_disposed y' = true).

Lemma sub_of_refl l : sub_of l l.
Proof. intros y H. exists y. auto. Qed.

Lemma sub_of_trans a b c : sub_of a b -> sub_of b c -> sub_of a c.
Proof.
  intros H1 H2 y Hy. destruct (H1 y Hy) as (z & Hz & E1 & D1). destruct (H2 z Hz) as (w & Hw & E2 & D2).
  exists w. repeat split; [exact Hw|congruence|auto].
Qed.

Lemma sub_of_touch x t l : sub_of (sess_touch x t l) l.
Proof.
  induction l as [|y r IH]; intros y' H; cbn [sess_touch] in H; [destruct H|].
  destruct (beq (hx_id y) x); destruct H as [<-|H].
  - exists y. cbn. auto.
  - destruct (IH y' H) as (z & Hz & E). exists z. split; [now right|exact E].
  - exists y. cbn. auto.
  - destruct (IH y' H) as (z & Hz & E). exists z. split; [now right|exact E].
Qed.

Lemma sub_of_dispose x l : sub_of (sess_dispose x l) l.
Proof.
  induction l as [|y r IH]; intros y' H; cbn [sess_dispose] in H; [destruct H|].
  destruct (beq (hx_id y) x); destruct H as [<-|H].
  - exists y. cbn. auto.
  - destruct (IH y' H) as (z & Hz & E). exists z. split; [now right|exact E].
  - exists y. cbn. auto.
  - destruct (IH y' H) as (z & Hz & E). exists z. split; [now right|exact E].
Qed.

Lemma sub_of_remove x l : sub_of (sess_remove x l) l.
Proof.
  induction l as [|y r IH]; intros y' H; cbn [sess_remove] in H; [destruct H|].
  destruct (beq (hx_id y) x).
  - destruct (IH y' H) as (z & Hz & E). exists z. split; [now right|exact E].
  - destruct H as [<-|H]; [exists y; cbn; auto|].
    destruct (IH y' H) as (z & Hz & E). exists z. split; [now right|exact E].
Qed.

Lemma sub_of_sweep to t l : sub_of (sess_sweep to t l) l.
Proof. intros y H. apply filter_In in H as [H _]. exists y. auto. Qed.

(* all entries with id sid are disposed / there is no entry with id sid *)
Definition all_disposed (sid : bytes) (l : list hsess) : Prop :=
  forall y, In y l -> hx_id y = sid -> hx_disposed y = true.
Definition absent (sid : bytes) (l : list hsess) : Prop := sess_mem sid l = false.

Lemma all_disposed_sub sid l' l : sub_of l' l -> all_disposed sid l -> all_disposed sid l'.
Proof. intros Hs H y Hy E. destruct (Hs y Hy) as (z & Hz & E1 & D). apply D, (H z Hz). congruence. Qed.

Lemma absent_sub sid l' l : sub_of l' l -> absent sid l -> absent sid l'.
Proof.
  unfold absent. intros Hs H. destruct (sess_mem sid l') eqn:E; [|reflexivity].
  apply sess_mem_spec in E as (y & Hy & Ey). destruct (Hs y Hy) as (z & Hz & E1 & _).
  assert (Hm : sess_mem sid l = true) by (apply sess_mem_spec; exists z; split; [exact Hz|congruence]). congruence.
Qed.

Lemma absent_all_disposed sid l : absent sid l -> all_disposed sid l.
Proof.
  intros H y Hy E. assert (Hm : sess_mem sid l = true) by (apply sess_mem_spec; eauto). unfold absent in H. congruence.
Qed.

Lemma all_disposed_cons sid y l : hx_id y <> sid -> all_disposed sid l -> all_disposed sid (y :: l).
Proof. intros Hn H z [<-|Hz] E; [contradiction|now apply H]. Qed.

Lemma absent_cons sid y l : hx_id y <> sid -> absent sid l -> absent sid (y :: l).
Proof. unfold absent. intros Hn H. cbn [sess_mem]. apply beq_neq in Hn. now rewrite Hn, H. Qed.

Lemma dispose_all_disposed sid l : all_disposed sid (sess_dispose sid l).
Proof.
  induction l as [|y r IH]; intros z H E; cbn [sess_dispose] in H; [destruct H|].
  destruct (beq (hx_id y) sid) eqn:Eb; destruct H as [<-|H]; try (now apply IH).
  - reflexivity.
  - cbn in E. apply beq_neq in Eb. contradiction.
Qed.

(* a sweep removes what is disposed *)
Lemma sweep_absent sid to t l : all_disposed sid l -> absent sid (sess_sweep to t l).
Proof.
  intros H. unfold absent. destruct (sess_mem sid (sess_sweep to t l)) eqn:E; [|reflexivity].
  apply sess_mem_spec in E as (y & Hy & Ey). apply filter_In in Hy as [Hy Hf].
  rewrite (H y Hy Ey) in Hf. discriminate.
Qed.

(* ... and what has expired *)
Lemma sweep_expired sid to t l :
  (forall y, In y l -> hx_id y = sid -> hx_disposed y = true \/ hx_last y + to < t) -> absent sid (sess_sweep to t l).
Proof.
  intros H. unfold absent. destruct (sess_mem sid (sess_sweep to t l)) eqn:E; [|reflexivity].
  apply sess_mem_spec in E as (y & Hy & Ey). apply filter_In in Hy as [Hy Hf].
  destruct (H y Hy Ey) as [D|X]; [rewrite D in Hf; discriminate|].
  apply Z.ltb_lt in X. rewrite X, orb_true_r in Hf. discriminate.
Qed.

Section ServeHlsProofs.
  Variable md5raw : bytes -> bytes.
  Variable parse_query : bytes -> option (list (bytes * bytes)).
  Variable lower_uni : bytes -> bytes.
  Variable parse_query_all : bytes -> list (bytes * bytes).
  Notation serve := (serve_hls md5raw parse_query lower_uni parse_query_all).
  Notation handler := (hls_handler parse_query_all).
  Notation step := (sh_step md5raw parse_query lower_uni parse_query_all).
  Notation trace := (sh_trace md5raw parse_query lower_uni parse_query_all).
  Notation exec := (sh_exec md5raw parse_query lower_uni parse_query_all).
  Notation sid_of := (session_id_of parse_query_all).

  Lemma trace_snd cfg sub root to ph ops : forall st now,
    map snd (trace cfg sub root to ph st now ops) = sh_run md5raw parse_query lower_uni parse_query_all cfg sub root to ph st now ops.
  Proof.
    induction ops as [|o r IH]; intros st now; [reflexivity|]. cbn [sh_trace sh_run].
    destruct (step cfg sub root to ph st now o) as [[st' t] [x|]]; cbn [map snd]; now rewrite IH.
  Qed.

  Lemma trace_app cfg sub root to ph a : forall st now b,
    trace cfg sub root to ph st now (a ++ b) =
    trace cfg sub root to ph st now a ++
    trace cfg sub root to ph (fst (exec cfg sub root to ph st now a)) (snd (exec cfg sub root to ph st now a)) b.
  Proof.
    induction a as [|o r IH]; intros st now b; [reflexivity|]. cbn [app sh_trace sh_exec].
    destruct (step cfg sub root to ph st now o) as [[st' t] [x|]]; cbn [app]; now rewrite IH.
  Qed.

  Lemma exec_app cfg sub root to ph a : forall st now b,
    exec cfg sub root to ph st now (a ++ b) =
    exec cfg sub root to ph (fst (exec cfg sub root to ph st now a)) (snd (exec cfg sub root to ph st now a)) b.
  Proof.
    induction a as [|o r IH]; intros st now b; [reflexivity|]. cbn [app sh_exec].
    destruct (step cfg sub root to ph st now o) as [[st' t] x]. apply IH.
  Qed.

  Lemma serve_file_type path root p : hls_serve_file path root = Some p ->
    beq (snd (filename_and_type (last_item_of_path path))) s_m3u8 = true \/
    beq (snd (filename_and_type (last_item_of_path path))) s_ts = true.
  Proof.
    unfold hls_serve_file, hls_serve_file_gen.
    destruct (beq (snd (filename_and_type (last_item_of_path path))) s_m3u8); [now left|].
    destruct (beq (snd (filename_and_type (last_item_of_path path))) s_ts); [now right|].
    cbn [negb andb]. rewrite orb_true_r. cbn [orb]. discriminate.
  Qed.

  (* the handler never touches the black-list, answers neither "auth failed" nor "blocked",
     opens only the file the path maps to, and its session list is the old one (touched)
     plus possibly one new session with the next id *)
  Lemma handler_spec sub root st now path q :
    hs_bl (fst (handler sub root st now path q)) = hs_bl st /\
    reaches_handler (snd (handler sub root st now path q)) /\
    (forall p, snd (handler sub root st now path q) = HrFile p -> hls_serve_file path root = Some p) /\
    ((sub_of (hs_sessions (fst (handler sub root st now path q))) (hs_sessions st) /\
      hs_next (fst (handler sub root st now path q)) = hs_next st) \/
     (exists y l, hs_sessions (fst (handler sub root st now path q)) = y :: l /\ hx_id y = new_session_id (hs_next st) /\
                  sub_of l (hs_sessions st) /\ hs_next (fst (handler sub root st now path q)) = (hs_next st + 1)%N)).
  Proof.
    unfold hls_handler, reaches_handler.
    assert (Hser : forall p, (match hls_serve_file path root with Some p0 => HrFile p0 | None => HrInvalid end) = HrFile p ->
                             hls_serve_file path root = Some p).
    { intros p. destruct (hls_serve_file path root); intros H; now inversion H. }
    assert (Hne : forall r, r = (match hls_serve_file path root with Some p0 => HrFile p0 | None => HrInvalid end) ->
                            r <> HrAuthFail /\ r <> HrBlocked).
    { intros r ->. destruct (hls_serve_file path root); split; discriminate. }
    destruct sub; cbn [fst snd].
    2:{ repeat split; try (now apply Hne); [exact Hser|]. left. split; [apply sub_of_refl|reflexivity]. }
    set (sid := sid_of q).
    destruct (beq (snd (filename_and_type (last_item_of_path path))) s_ts && negb (is_empty sid)).
    { destruct (sess_mem sid (hs_sessions st)); cbn [fst snd hs_bl hs_sessions hs_next].
      - repeat split; try (now apply Hne); [exact Hser|]. left. split; [apply sub_of_touch|reflexivity].
      - repeat split; try discriminate. left. split; [apply sub_of_refl|reflexivity]. }
    destruct (beq (snd (filename_and_type (last_item_of_path path))) s_m3u8).
    - destruct (negb (is_empty sid)).
      + destruct (sess_mem sid (hs_sessions st)); cbn [fst snd hs_bl hs_sessions hs_next].
        * repeat split; try (now apply Hne); [exact Hser|]. left. split; [apply sub_of_touch|reflexivity].
        * repeat split; try discriminate. left. split; [apply sub_of_refl|reflexivity].
      + cbn [fst snd hs_bl hs_sessions hs_next]. repeat split; try discriminate.
        right. eexists _, _. repeat split; [apply sub_of_refl].
    - cbn [fst snd]. repeat split; try (now apply Hne); [exact Hser|]. left. split; [apply sub_of_refl|reflexivity].
  Qed.

  (* ---- black-list ------------------------------------------------------------------ *)
  Lemma serve_listed cfg sub root st now ip k path q u :
    bl_lookup ip (hs_bl st) = Some u -> now / 1000 <= u ->
    bl_lookup ip (hs_bl (fst (serve cfg sub root st now k path q))) = Some u /\
    (k = ip -> no_content (snd (serve cfg sub root st now k path q))).
  Proof.
    intros Hl Hle. unfold serve_hls.
    match goal with |- context [negb ?b] => destruct b end; cbn [negb].
    - destruct (has_live (hs_bl st) ip k u (now / 1000) Hl Hle) as [H1 _].
      destruct (bl_has (hs_bl st) k (now / 1000)) as [t' b] eqn:E. cbn [fst] in H1.
      destruct b.
      + cbn [fst snd hs_bl]. split; [exact H1|]. intros _. split; intros ?; discriminate.
      + destruct (handler_spec sub root (mk_hls_state t' (hs_sessions st) (hs_next st)) now path q) as (Hb & _).
        rewrite Hb. cbn [hs_bl]. split; [exact H1|]. intros ->.
        destruct (has_live (hs_bl st) ip ip u (now / 1000) Hl Hle) as [_ H2]. rewrite E in H2. discriminate.
    - cbn [fst snd]. split; [exact Hl|]. intros _. split; intros ?; discriminate.
  Qed.

  Lemma sh_total_sleep_nonneg ip ops : Forall (sh_op_ok ip) ops -> 0 <= sh_total_sleep ops.
  Proof.
    induction 1 as [|o r Ho Hr IH]; [cbn; lia|]. destruct o; cbn [sh_total_sleep]; try exact IH. cbn in Ho. lia.
  Qed.

  Lemma advance_time n to ph : forall l now, snd (advance_secs n to ph l now) = now + 1000 * Z.of_nat n.
  Proof.
    induction n as [|n IH]; intros l now; cbn [advance_secs snd]; [lia|]. rewrite IH. lia.
  Qed.

  Theorem hls_blacklisted_no_content cfg sub root to ph ops : forall st now ip u,
    bl_lookup ip (hs_bl st) = Some u -> Forall (sh_op_ok ip) ops -> now / 1000 + sh_total_sleep ops <= u ->
    Forall (from_ip ip no_content) (trace cfg sub root to ph st now ops).
  Proof.
    induction ops as [|o r IH]; intros st now ip u Hl Hok Hle; [constructor|].
    inversion Hok as [|? ? Ho Hr]; subst.
    pose proof (sh_total_sleep_nonneg ip r Hr) as Hnn.
    destruct o as [k path q|k d|s|x|]; cbn [sh_trace sh_step sh_total_sleep] in *.
    - assert (Hnow : now / 1000 <= u) by lia.
      destruct (serve_listed cfg sub root st now ip k path q u Hl Hnow) as [H1 H2].
      destruct (serve cfg sub root st now k path q) as [st' resp]. cbn [fst snd] in *.
      constructor; [exact H2|]. apply (IH _ _ ip u); auto.
    - apply (IH _ _ ip u); auto. cbn [hs_bl]. cbn in Ho. now rewrite lookup_add_other.
    - cbn in Ho. pose proof (advance_time (Z.to_nat s) to ph (hs_sessions st) now) as Ht.
      destruct (advance_secs (Z.to_nat s) to ph (hs_sessions st) now) as [l t]. cbn [snd] in Ht.
      apply (IH _ _ ip u); auto. subst t. rewrite Z2Nat.id by exact Ho.
      replace (now + 1000 * s) with (now + s * 1000) by lia. rewrite Z.div_add by lia. lia.
    - constructor; [exact I|]. apply (IH _ _ ip u); auto.
    - constructor; [exact I|]. apply (IH _ _ ip u); auto.
  Qed.

  (* ---- admission -------------------------------------------------------------------- *)
  Theorem hls_admission cfg sub root st now ip path q :
    reaches_handler (snd (serve cfg sub root st now ip path q)) <->
    ((beq (snd (filename_and_type (last_item_of_path path))) s_m3u8 = true ->
      sa_hls_m3u8 cfg = false \/
      carries_secret md5raw parse_query lower_uni cfg (ri_stream (get_request_info path root)) q)
     /\ snd (bl_has (hs_bl st) ip (now / 1000)) = false).
  Proof.
    unfold serve_hls.
    set (stream := ri_stream (get_request_info path root)).
    assert (Hauth : on_hls md5raw parse_query lower_uni cfg stream q = SaOk <->
                    (sa_hls_m3u8 cfg = false \/ carries_secret md5raw parse_query lower_uni cfg stream q)).
    { unfold on_hls, on_hls_gen. destruct (sa_hls_m3u8 cfg).
      - fold (check md5raw parse_query lower_uni cfg stream q). rewrite check_iff.
        split; [now right|]. intros [H|H]; [discriminate|exact H].
      - split; [now left|reflexivity]. }
    destruct (beq (snd (filename_and_type (last_item_of_path path))) s_m3u8) eqn:Em.
    - destruct (on_hls md5raw parse_query lower_uni cfg stream q) eqn:Ea; cbn [negb].
      + destruct (bl_has (hs_bl st) ip (now / 1000)) as [t' b] eqn:Eb. cbn [snd]. destruct b.
        * cbn [snd]. unfold reaches_handler. split; [intros [_ H]; congruence|intros [_ H]; discriminate].
        * destruct (handler_spec sub root (mk_hls_state t' (hs_sessions st) (hs_next st)) now path q) as (_ & Hr & _).
          split; [intros _|intros _; exact Hr]. split; [intros _; now apply Hauth|reflexivity].
      + cbn [snd]. unfold reaches_handler. split; [intros [H _]; congruence|].
        intros [H _]. specialize (H eq_refl). apply Hauth in H. discriminate.
      + cbn [snd]. unfold reaches_handler. split; [intros [H _]; congruence|].
        intros [H _]. specialize (H eq_refl). apply Hauth in H. discriminate.
      + cbn [snd]. unfold reaches_handler. split; [intros [H _]; congruence|].
        intros [H _]. specialize (H eq_refl). apply Hauth in H. discriminate.
    - cbn [negb]. destruct (bl_has (hs_bl st) ip (now / 1000)) as [t' b] eqn:Eb. cbn [snd]. destruct b.
      + cbn [snd]. unfold reaches_handler. split; [intros [_ H]; congruence|intros [_ H]; discriminate].
      + destruct (handler_spec sub root (mk_hls_state t' (hs_sessions st) (hs_next st)) now path q) as (_ & Hr & _).
        split; [intros _|intros _; exact Hr]. split; [discriminate|reflexivity].
  Qed.

  Lemma carries_secret_first_value cfg stream q1 q2 l1 l2 :
    parse_query q1 = Some l1 -> parse_query q2 = Some l2 ->
    query_get l1 secret_name = query_get l2 secret_name ->
    (carries_secret md5raw parse_query lower_uni cfg stream q1 <-> carries_secret md5raw parse_query lower_uni cfg stream q2).
  Proof.
    intros H1 H2 He. unfold carries_secret.
    split; intros (l & v & Hp & Hv & Hr); [exists l2|exists l1]; exists v.
    - rewrite H1 in Hp. inversion Hp; subst l. rewrite He in Hv. auto.
    - rewrite H2 in Hp. inversion Hp; subst l. rewrite <- He in Hv. auto.
  Qed.

  Theorem hls_served_confined cfg sub root st now ip path q st' p :
    root <> [] -> serve cfg sub root st now ip path q = (st', HrFile p) ->
    inside root p /\ reaches_handler (snd (serve cfg sub root st now ip path q)).
  Proof.
    intros Hr H. split; [|rewrite H; split; discriminate].
    revert H. unfold serve_hls.
    match goal with |- context [negb ?b] => destruct b end; cbn [negb]; [|discriminate].
    destruct (bl_has (hs_bl st) ip (now / 1000)) as [t1 b]. destruct b; [discriminate|].
    intros H.
    destruct (handler_spec sub root (mk_hls_state t1 (hs_sessions st) (hs_next st)) now path q) as (_ & _ & Hf & _).
    rewrite H in Hf. cbn [snd] in Hf. apply (serve_confined root path); auto.
  Qed.

  (* ---- kicked / expired sessions ------------------------------------------------------ *)
  (* sid was handed out before: it differs from every id still to come *)
  Definition issued (sid : bytes) (st : hls_state) : Prop :=
    exists k0, sid = new_session_id k0 /\ (k0 < hs_next st)%N.

  Section Invariant.
    Variable sid : bytes.
    Variable R : list hsess -> Prop.     (* all_disposed sid, or absent sid *)
    Hypothesis R_sub : forall l' l, sub_of l' l -> R l -> R l'.
    Hypothesis R_cons : forall y l, hx_id y <> sid -> R l -> R (y :: l).

    Lemma serve_keeps cfg sub root st now ip path q :
      issued sid st -> R (hs_sessions st) ->
      issued sid (fst (serve cfg sub root st now ip path q)) /\ R (hs_sessions (fst (serve cfg sub root st now ip path q))).
    Proof.
      intros Hi Hr. unfold serve_hls.
      match goal with |- context [negb ?b] => destruct b end; cbn [negb]; [|now split].
      destruct (bl_has (hs_bl st) ip (now / 1000)) as [t' b]. destruct b.
      - cbn [fst hs_sessions]. split; [exact Hi|]. apply (R_sub _ _ (sub_of_remove _ _) Hr).
      - destruct (handler_spec sub root (mk_hls_state t' (hs_sessions st) (hs_next st)) now path q) as (_ & _ & _ & [[Hs Hn]|(y & l & El & Ey & Hs & Hn)]);
          cbn [hs_sessions hs_next] in *.
        + split; [|now apply (R_sub _ _ Hs)]. destruct Hi as (k0 & E & Hk). exists k0. rewrite Hn. auto.
        + destruct Hi as (k0 & E & Hk). split; [exists k0; rewrite Hn; split; [exact E|lia]|].
          rewrite El. apply R_cons; [|now apply (R_sub _ _ Hs)].
          rewrite Ey, E. intros Heq. apply new_session_id_inj in Heq. lia.
    Qed.

    Lemma advance_keeps n to ph : forall l now, R l -> R (fst (advance_secs n to ph l now)).
    Proof.
      induction n as [|n IH]; intros l now H; cbn [advance_secs]; [exact H|].
      apply IH. apply (R_sub _ _ (sub_of_sweep _ _ _) H).
    Qed.

    Lemma step_keeps cfg sub root to ph st now o :
      issued sid st -> R (hs_sessions st) ->
      issued sid (fst (fst (step cfg sub root to ph st now o))) /\ R (hs_sessions (fst (fst (step cfg sub root to ph st now o)))).
    Proof.
      intros Hi Hr. destruct o as [k path q|k d|s|x|]; cbn [sh_step].
      - pose proof (serve_keeps cfg sub root st now k path q Hi Hr) as H.
        destruct (serve cfg sub root st now k path q) as [st' resp]. exact H.
      - cbn [fst hs_sessions]. now split.
      - pose proof (advance_keeps (Z.to_nat s) to ph (hs_sessions st) now Hr) as H.
        destruct (advance_secs (Z.to_nat s) to ph (hs_sessions st) now) as [l t]. cbn [fst hs_sessions] in *. now split.
      - cbn [fst hs_sessions]. split; [exact Hi|]. apply (R_sub _ _ (sub_of_dispose _ _) Hr).
      - cbn [fst]. now split.
    Qed.

    Lemma exec_keeps cfg sub root to ph ops : forall st now,
      issued sid st -> R (hs_sessions st) ->
      issued sid (fst (exec cfg sub root to ph st now ops)) /\ R (hs_sessions (fst (exec cfg sub root to ph st now ops))).
    Proof.
      induction ops as [|o r IH]; intros st now Hi Hr; [now split|]. cbn [sh_exec].
      destruct (step_keeps cfg sub root to ph st now o Hi Hr) as [Hi' Hr'].
      destruct (step cfg sub root to ph st now o) as [[st' t] x]. cbn [fst] in *. now apply IH.
    Qed.
  End Invariant.

  (* a request that carries an id that is not registered gets no content *)
  Lemma serve_absent cfg root st now ip path q :
    sid_of q <> [] -> absent (sid_of q) (hs_sessions st) ->
    forall p, snd (serve cfg true root st now ip path q) <> HrFile p.
  Proof.
    intros Hne Ha p. unfold serve_hls.
    match goal with |- context [negb ?b] => destruct b end; cbn [negb]; [|discriminate].
    destruct (bl_has (hs_bl st) ip (now / 1000)) as [t' b]. destruct b; [discriminate|].
    unfold hls_handler. cbn [hs_sessions]. unfold absent in Ha. rewrite Ha.
    apply is_empty_false in Hne. rewrite Hne. cbn [negb]. rewrite andb_true_r.
    destruct (beq (snd (filename_and_type (last_item_of_path path))) s_ts) eqn:Ets; [discriminate|].
    destruct (beq (snd (filename_and_type (last_item_of_path path))) s_m3u8) eqn:Em; [discriminate|].
    cbn [snd]. destruct (hls_serve_file path root) as [f|] eqn:Ef; [|discriminate].
    apply serve_file_type in Ef as [E|E]; congruence.
  Qed.

  Definition carrying (sid : bytes) (e : sh_op * hls_resp) : Prop :=
    match fst e with ShGet _ _ q => sid_of q = sid -> forall p, snd e <> HrFile p | _ => True end.

  Lemma trace_absent cfg root to ph sid ops : forall st now,
    issued sid st -> absent sid (hs_sessions st) ->
    Forall (carrying sid) (trace cfg true root to ph st now ops).
  Proof.
    induction ops as [|o r IH]; intros st now Hi Ha; [constructor|]. cbn [sh_trace].
    destruct (step_keeps sid (absent sid) (absent_sub sid) (absent_cons sid) cfg true root to ph st now o Hi Ha) as [Hi' Ha'].
    assert (Hhead : forall x, snd (step cfg true root to ph st now o) = Some x -> carrying sid (o, x)).
    { intros x Hx. unfold carrying. cbn [fst snd]. destruct o as [k path q|k d|s|y|]; try exact I.
      intros Eq p. cbn [sh_step] in Hx.
      pose proof (serve_absent cfg root st now k path q) as Hs. rewrite Eq in Hs.
      destruct (serve cfg true root st now k path q) as [st' resp]. cbn [snd] in *. inversion Hx; subst x.
      apply Hs; [|exact Ha]. destruct Hi as (k0 & -> & _). discriminate. }
    destruct (step cfg true root to ph st now o) as [[st' t] [x|]]; cbn [fst snd] in *.
    - constructor; [now apply Hhead|now apply IH].
    - now apply IH.
  Qed.

  (* a kick cannot be undone: after kick(sid), whatever happens before the next sweep
     (requests carrying sid included - the handler still serves them, KeepAlive does not
     clear the disposed flag), once the clock has advanced by at least one second (one
     sweep) sid is gone, and from then on no request carrying sid is served *)
  Theorem hls_kick_final cfg root to ph sid st now window s later :
    issued sid st -> 1 <= s ->
    let after := exec cfg true root to ph st now (ShKick sid :: window ++ [ShSleep s]) in
    absent sid (hs_sessions (fst after)) /\
    Forall (carrying sid) (trace cfg true root to ph (fst after) (snd after) later).
  Proof.
    intros Hi Hs after.
    assert (Ha : issued sid (fst after) /\ absent sid (hs_sessions (fst after))).
    { subst after. cbn [sh_exec sh_step]. rewrite exec_app.
      set (st1 := mk_hls_state (hs_bl st) (sess_dispose sid (hs_sessions st)) (hs_next st)).
      assert (Hi1 : issued sid st1) by exact Hi.
      assert (Hd1 : all_disposed sid (hs_sessions st1)) by apply dispose_all_disposed.
      destruct (exec_keeps sid (all_disposed sid) (all_disposed_sub sid) (all_disposed_cons sid) cfg true root to ph window st1 now Hi1 Hd1) as [Hi2 Hd2].
      destruct (exec cfg true root to ph st1 now window) as [st2 t2]. cbn [fst snd] in *.
      cbn [sh_exec sh_step].
      destruct (Z.to_nat s) as [|n] eqn:En; [lia|]. cbn [advance_secs].
      pose proof (advance_keeps (absent sid) (absent_sub sid) n to ph
                    (sess_sweep to (next_tick ph t2) (hs_sessions st2)) (t2 + 1000)
                    (sweep_absent sid to _ _ Hd2)) as Hab.
      destruct (advance_secs n to ph (sess_sweep to (next_tick ph t2) (hs_sessions st2)) (t2 + 1000)) as [l t].
      cbn [fst snd hs_sessions] in *. split; [exact Hi2|exact Hab]. }
    destruct Ha as [Hi' Ha']. split; [exact Ha'|]. now apply trace_absent.
  Qed.

  (* expiry: if at the next sweep every entry of sid is idle for longer than the timeout,
     that sweep removes it and from then on no request carrying sid is served *)
  Theorem hls_expiry_final cfg root to ph sid st now s later :
    issued sid st -> 1 <= s ->
    (forall y, In y (hs_sessions st) -> hx_id y = sid -> hx_disposed y = true \/ hx_last y + to < next_tick ph now) ->
    let after := exec cfg true root to ph st now [ShSleep s] in
    absent sid (hs_sessions (fst after)) /\
    Forall (carrying sid) (trace cfg true root to ph (fst after) (snd after) later).
  Proof.
    intros Hi Hs Hx after.
    assert (Ha : issued sid (fst after) /\ absent sid (hs_sessions (fst after))).
    { subst after. cbn [sh_exec sh_step].
      destruct (Z.to_nat s) as [|n] eqn:En; [lia|]. cbn [advance_secs].
      pose proof (advance_keeps (absent sid) (absent_sub sid) n to ph
                    (sess_sweep to (next_tick ph now) (hs_sessions st)) (now + 1000)
                    (sweep_expired sid to _ _ Hx)) as Hab.
      destruct (advance_secs n to ph (sess_sweep to (next_tick ph now) (hs_sessions st)) (now + 1000)) as [l t].
      cbn [fst snd hs_sessions] in *. split; [exact Hi|exact Hab]. }
    destruct Ha as [Hi' Ha']. split; [exact Ha'|]. now apply trace_absent.
  Qed.
End ServeHlsProofs.
