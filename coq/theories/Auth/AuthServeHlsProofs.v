(* Proofs about the serveHls composition (AuthServeHls.v) *)
From Lal Require Import Common.LBytes Auth.AuthStr Auth.AuthStrProofs Auth.AuthSimple Auth.AuthPaths Auth.AuthBlacklist
  Auth.AuthServeHls Auth.AuthSpec Auth.AuthBlacklistProofs Auth.AuthPathsProofs.
From Coq Require Import Lia.
Open Scope Z_scope.

Section ServeHlsProofs.
  Variable md5raw : bytes -> bytes.
  Variable parse_query : bytes -> option (list (bytes * bytes)).
  Variable lower_uni : bytes -> bytes.
  Notation serve := (serve_hls md5raw parse_query lower_uni).

  Lemma sh_run_tagged_snd cfg root ops : forall t now,
    map snd (sh_run_tagged md5raw parse_query lower_uni cfg root t now ops) = sh_run md5raw parse_query lower_uni cfg root t now ops.
  Proof.
    induction ops as [|o r IH]; intros t now; [reflexivity|].
    destruct o as [ip path q|ip d|s]; cbn [sh_run_tagged sh_run]; try apply IH.
    destruct (serve cfg root t now ip path q) as [t' resp]. cbn [map snd]. now rewrite IH.
  Qed.

  (* one request: a listed address whose expiry has not passed gets no content - whatever
     it asks for (playlist or fragment, either URL form, any query) - and every live
     entry stays listed *)
  Lemma serve_listed cfg root t now ip k path q u :
    bl_lookup ip t = Some u -> now <= u ->
    bl_lookup ip (fst (serve cfg root t now k path q)) = Some u /\
    (k = ip -> no_content (snd (serve cfg root t now k path q))).
  Proof.
    intros Hl Hle. unfold serve_hls.
    match goal with |- context [negb ?b] => destruct b end; cbn [negb].
    - destruct (has_live t ip k u now Hl Hle) as [H1 _].
      destruct (bl_has t k now) as [t' b] eqn:E. cbn [fst] in H1.
      destruct b; cbn [fst snd].
      + split; [exact H1|]. intros _ p. discriminate.
      + split; [exact H1|]. intros ->. destruct (has_live t ip ip u now Hl Hle) as [_ H2]. rewrite E in H2. discriminate.
    - cbn [fst snd]. split; [exact Hl|]. intros _ p. discriminate.
  Qed.

  Lemma sh_total_sleep_nonneg ip ops : Forall (sh_op_ok ip) ops -> 0 <= sh_total_sleep ops.
  Proof.
    induction 1 as [|o r Ho Hr IH]; [cbn; lia|]. destruct o; cbn [sh_total_sleep]; try exact IH. cbn in Ho. lia.
  Qed.

  Theorem hls_blacklisted_no_content cfg root ops : forall t now ip u,
    bl_lookup ip t = Some u -> Forall (sh_op_ok ip) ops -> now + sh_total_sleep ops <= u ->
    Forall (fun kr => fst kr = ip -> no_content (snd kr))
           (sh_run_tagged md5raw parse_query lower_uni cfg root t now ops).
  Proof.
    induction ops as [|o r IH]; intros t now ip u Hl Hok Hle; [constructor|].
    inversion Hok as [|? ? Ho Hr]; subst.
    pose proof (sh_total_sleep_nonneg ip r Hr) as Hnn.
    destruct o as [k path q|k d|s]; cbn [sh_run_tagged sh_total_sleep] in *.
    - assert (Hnow : now <= u) by lia.
      destruct (serve_listed cfg root t now ip k path q u Hl Hnow) as [H1 H2].
      destruct (serve cfg root t now k path q) as [t' resp]. cbn [fst snd] in *.
      constructor; [exact H2|]. apply (IH _ _ ip u); auto.
    - apply (IH _ _ ip u); auto. cbn in Ho. now rewrite lookup_add_other.
    - cbn in Ho. apply (IH _ _ ip u); auto. lia.
  Qed.

  (* whatever is served lies inside the root, came past the black-list, and - for a
     playlist - past simple auth *)
  Theorem hls_served_confined cfg root t now ip path q t' p :
    root <> [] -> serve cfg root t now ip path q = (t', HrFile p) ->
    inside root p /\ snd (bl_has t ip now) = false /\
    (beq (snd (filename_and_type (last_item_of_path path))) s_m3u8 = true ->
     on_hls md5raw parse_query lower_uni cfg (ri_stream (get_request_info path root)) q = SaOk).
  Proof.
    intros Hr. unfold serve_hls.
    destruct (beq (snd (filename_and_type (last_item_of_path path))) s_m3u8) eqn:Em.
    - destruct (on_hls md5raw parse_query lower_uni cfg (ri_stream (get_request_info path root)) q) eqn:Ea; cbn [negb]; try discriminate.
      destruct (bl_has t ip now) as [t1 b] eqn:Eb. destruct b; [discriminate|].
      destruct (hls_serve_file path root) as [f|] eqn:Ef; [|discriminate].
      intros H. inversion H; subst. repeat split; auto. now apply (serve_confined root path).
    - cbn [negb]. destruct (bl_has t ip now) as [t1 b] eqn:Eb. destruct b; [discriminate|].
      destruct (hls_serve_file path root) as [f|] eqn:Ef; [|discriminate].
      intros H. inversion H; subst. repeat split; auto; [now apply (serve_confined root path)|discriminate].
  Qed.
End ServeHlsProofs.
