(* Lemmas about the string operations of AuthStr.v *)
From Lal Require Import Common.LBytes Auth.AuthStr.
From Coq Require Import Lia.
Open Scope N_scope.

Lemma beq_refl a : beq a a = true.
Proof. induction a as [|x a IH]; cbn [beq]; [reflexivity|]. now rewrite N.eqb_refl, IH. Qed.

Lemma beq_eq a b : beq a b = true <-> a = b.
Proof.
  split; [|intros ->; apply beq_refl].
  revert b; induction a as [|x a IH]; intros [|y b] H; cbn [beq] in H; try discriminate; [reflexivity|].
  apply andb_prop in H as [H1 H2]. apply N.eqb_eq in H1. subst y. f_equal. now apply IH.
Qed.

Lemma beq_neq a b : beq a b = false <-> a <> b.
Proof.
  split.
  - intros H E. subst b. rewrite beq_refl in H. discriminate.
  - intros H. destruct (beq a b) eqn:E; [|reflexivity]. apply beq_eq in E. contradiction.
Qed.

Lemma is_empty_spec s : is_empty s = true <-> s = [].
Proof. destruct s; cbn; split; intro H; congruence. Qed.

Lemma is_empty_false s : is_empty s = false <-> s <> [].
Proof. destruct s; cbn; split; intro H; congruence. Qed.

Lemma has_prefix_app p s : has_prefix p (p ++ s) = true.
Proof. induction p as [|x p IH]; cbn [has_prefix app]; [reflexivity|]. now rewrite N.eqb_refl, IH. Qed.

Lemma has_prefix_spec p s : has_prefix p s = true <-> exists r, s = p ++ r.
Proof.
  split.
  - revert s; induction p as [|x p IH]; intros s H; cbn [has_prefix] in H.
    + now exists s.
    + destruct s as [|y s]; [discriminate|]. apply andb_prop in H as [H1 H2]. apply N.eqb_eq in H1. subst y.
      destruct (IH _ H2) as [r ->]. now exists r.
  - intros [r ->]. apply has_prefix_app.
Qed.

Lemma skipn_app_exact {A} (p s : list A) : skipn (length p) (p ++ s) = s.
Proof. induction p; cbn; auto. Qed.

Lemma trim_prefix_app p s : trim_prefix p (p ++ s) = s.
Proof. unfold trim_prefix. rewrite has_prefix_app. apply skipn_app_exact. Qed.

(* ---- split ---------------------------------------------------------------- *)
Lemma split_byte_nonnil c s : split_byte c s <> [].
Proof. destruct s as [|x t]; cbn [split_byte]; [discriminate|]. destruct (x =? c); [discriminate|]. destruct (split_byte c t); discriminate. Qed.

Lemma split_byte_cons_ne c x t : (x =? c) = false ->
  exists h r, split_byte c t = h :: r /\ split_byte c (x :: t) = (x :: h) :: r.
Proof.
  intros H. cbn [split_byte]. rewrite H. destruct (split_byte c t) as [|h r] eqn:E.
  - exfalso. now apply (split_byte_nonnil c t).
  - now exists h, r.
Qed.

Lemma split_byte_noc c s : ~ In c s -> split_byte c s = [s].
Proof.
  induction s as [|x t IH]; intros H; [reflexivity|].
  assert (Hx : (x =? c) = false). { apply N.eqb_neq. intro E. apply H. now left. }
  destruct (split_byte_cons_ne c x t Hx) as (h & r & E1 & E2). rewrite E2.
  rewrite IH in E1 by (intro Hc; apply H; now right). now inversion E1.
Qed.

Lemma split_byte_app c a b : split_byte c (a ++ c :: b) = split_byte c a ++ split_byte c b.
Proof.
  induction a as [|x a IH].
  - cbn [app split_byte]. now rewrite N.eqb_refl.
  - cbn [app]. destruct (x =? c) eqn:Hx.
    + cbn [split_byte]. rewrite Hx. cbn [app]. now rewrite IH.
    + destruct (split_byte_cons_ne c x (a ++ c :: b) Hx) as (h & r & E1 & E2).
      destruct (split_byte_cons_ne c x a Hx) as (h' & r' & E1' & E2').
      rewrite E2, E2'. rewrite IH, E1' in E1. cbn [app] in E1. inversion E1. reflexivity.
Qed.

Lemma split_byte_no_sep c s : Forall (fun p => ~ In c p) (split_byte c s).
Proof.
  induction s as [|x t IH]; cbn [split_byte].
  - constructor; [intros []|constructor].
  - destruct (x =? c) eqn:Hx.
    + constructor; [intros []|exact IH].
    + destruct (split_byte c t) as [|h r]; [constructor; [|constructor]|].
      * intros [E|[]]. subst. now rewrite N.eqb_refl in Hx.
      * inversion IH as [|? ? Hh Hr]; subst. constructor; [|exact Hr].
        intros [E|Hin]; [subst; now rewrite N.eqb_refl in Hx|now apply Hh].
Qed.

Lemma split_last_spec c s a b : split_last c s = Some (a, b) -> s = a ++ c :: b /\ ~ In c b.
Proof.
  revert a b; induction s as [|x t IH]; intros a b H; cbn [split_last] in H; [discriminate|].
  destruct (split_last c t) as [[a' b']|] eqn:E.
  - inversion H; subst. destruct (IH _ _ eq_refl) as [-> Hn]. now split.
  - destruct (x =? c) eqn:Hx; [|discriminate]. inversion H; subst. apply N.eqb_eq in Hx. subst x.
    split; [reflexivity|].
    clear -E. revert E. induction b as [|y b IHb]; intros E; [intros []|].
    cbn [split_last] in E. destruct (split_last c b) as [[? ?]|] eqn:E2; [discriminate|].
    destruct (y =? c) eqn:Hy; [discriminate|]. intros [->|Hin]; [now rewrite N.eqb_refl in Hy|now apply IHb].
Qed.

Lemma split_last_none c s : split_last c s = None -> ~ In c s.
Proof.
  induction s as [|y b IHb]; intros E; [intros []|].
  cbn [split_last] in E. destruct (split_last c b) as [[? ?]|] eqn:E2; [discriminate|].
  destruct (y =? c) eqn:Hy; [discriminate|]. intros [->|Hin]; [now rewrite N.eqb_refl in Hy|now apply IHb].
Qed.

Lemma split_once_spec c u p : ~ In c u -> split_once c (u ++ c :: p) = [u; p].
Proof.
  induction u as [|x u IH]; intros H; cbn [app split_once].
  - now rewrite N.eqb_refl.
  - assert (Hx : (x =? c) = false). { apply N.eqb_neq. intro E. apply H. now left. }
    rewrite Hx, IH; [reflexivity|]. intro Hc. apply H. now right.
Qed.

Lemma split_once_inv c s u p : split_once c s = [u; p] -> s = u ++ c :: p /\ ~ In c u.
Proof.
  revert u; induction s as [|x t IH]; intros u H; cbn [split_once] in H; [discriminate|].
  destruct (x =? c) eqn:Hx.
  - inversion H; subst. apply N.eqb_eq in Hx. subst. split; [reflexivity|intros []].
  - destruct (split_once c t) as [|h r] eqn:E; [discriminate|]. inversion H; subst.
    destruct (IH h eq_refl) as [-> Hn]. split; [reflexivity|].
    intros [->|Hin]; [now rewrite N.eqb_refl in Hx|now apply Hn].
Qed.

(* ---- join ---------------------------------------------------------------- *)
Lemma join_with_cons c x y t : join_with c (x :: y :: t) = x ++ c :: join_with c (y :: t).
Proof. reflexivity. Qed.

(* ---- lower-casing, hex ----------------------------------------------------- *)
Lemma hex_digit_lower d : d < 16 -> ascii_lower (hex_digit d) = hex_digit d /\ hex_digit d < 128.
Proof.
  intros H. unfold hex_digit, ascii_lower.
  destruct (d <? 10) eqn:E.
  - apply N.ltb_lt in E. assert (H1 : (65 <=? 48 + d) = false) by (apply N.leb_gt; lia). rewrite H1. cbn [andb]. split; [reflexivity|lia].
  - apply N.ltb_ge in E. assert (H2 : (87 + d <=? 90) = false) by (apply N.leb_gt; lia). rewrite H2, andb_false_r. split; [reflexivity|lia].
Qed.

Lemma hex_lower_is_lower l : map ascii_lower (hex_lower l) = hex_lower l /\ is_ascii (hex_lower l) = true.
Proof.
  induction l as [|b t [IH1 IH2]]; cbn [hex_lower map is_ascii forallb]; [split; reflexivity|].
  assert (Ha : (b / 16) mod 16 < 16) by (apply N.mod_lt; discriminate).
  assert (Hb : b mod 16 < 16) by (apply N.mod_lt; discriminate).
  destruct (hex_digit_lower _ Ha) as [A1 A2], (hex_digit_lower _ Hb) as [B1 B2].
  rewrite A1, B1, IH1. split; [reflexivity|].
  apply N.ltb_lt in A2, B2. rewrite A2, B2. exact IH2.
Qed.

Lemma uint_bytes_no c u : c < 48 -> ~ In c (uint_bytes u).
Proof.
  intros Hc. induction u; cbn [uint_bytes]; try (intros [E|Hin]; [subst; lia|now apply IHu]). intros [].
Qed.

Lemma dec_no_slash n : ~ In 47 (dec n).
Proof. apply uint_bytes_no. lia. Qed.
