(* Model of pkg/rtsp/auth.go (Auth.ParseAuthorization, CheckAuthorization,
   MakeAuthorization, getV) and of ServerCommandSession.handleAuthorized /
   handleDescribe (pkg/rtsp/server_command_session.go) as far as the decision
   "is this DESCRIBE answered with the stream description" goes.
   External code = Section variables: crypto/md5 (raw digest) and
   base64.StdEncoding.DecodeString / EncodeToString.  No proofs in this file. *)
From Lal Require Import Common.LBytes Auth.AuthStr.
Open Scope N_scope.

Definition s_basic : bytes := [66; 97; 115; 105; 99].                   (* "Basic" *)
Definition s_digest : bytes := [68; 105; 103; 101; 115; 116].           (* "Digest" *)
Definition s_basic_sp : bytes := s_basic ++ [32].                       (* "Basic " *)
Definition s_digest_sp : bytes := s_digest ++ [32].                     (* "Digest " *)
Definition s_describe : bytes := [68; 69; 83; 67; 82; 73; 66; 69].      (* "DESCRIBE" *)
Definition colon : N := 58.
Definition dquote : N := 34.

(* the literal key, an equals sign and an opening double quote *)
Definition k_username : bytes := [117; 115; 101; 114; 110; 97; 109; 101; 61; 34].
Definition k_realm : bytes := [114; 101; 97; 108; 109; 61; 34].
Definition k_nonce : bytes := [110; 111; 110; 99; 101; 61; 34].
Definition k_uri : bytes := [117; 114; 105; 61; 34].
Definition k_algorithm : bytes := [97; 108; 103; 111; 114; 105; 116; 104; 109; 61; 34].
Definition k_response : bytes := [114; 101; 115; 112; 111; 110; 115; 101; 61; 34].
Definition k_opaque : bytes := [111; 112; 97; 113; 117; 101; 61; 34].
Definition k_stale : bytes := [115; 116; 97; 108; 101; 61; 34].

(* rtsp.Auth *)
Record auth := mk_auth {
  au_username : bytes; au_password : bytes; au_typ : bytes; au_realm : bytes; au_nonce : bytes;
  au_algorithm : bytes; au_uri : bytes; au_response : bytes; au_opaque : bytes; au_stale : bytes }.
Definition auth_zero : auth := mk_auth [] [] [] [] [] [] [] [] [] [].

(* rtsp.ServerAuthConfig *)
Record rtsp_conf := mk_rtsp_conf {
  rc_enable : bool; rc_method : Z; rc_user : bytes; rc_pass : bytes }.

(* Auth.getV(s, pre) *)
Definition get_v (s pre : bytes) : bytes :=
  match after_first pre s with
  | None => []
  | Some r => match until_byte dquote r with None => [] | Some v => v end
  end.

Inductive describe_result :=
| DrSdp                 (* 200 with the stream description *)
| DrChallengeBasic      (* 401 WWW-Authenticate: Basic *)
| DrChallengeDigest     (* 401 WWW-Authenticate: Digest *)
| DrClosed              (* handler returns an error: connection closed, nothing written *)
| DrAnnounced.          (* ANNOUNCE accepted: 200, the connection now carries a publish session *)
Definition dr_code (r : describe_result) : N :=
  match r with DrSdp => 0 | DrChallengeBasic => 1 | DrChallengeDigest => 2 | DrClosed => 3 | DrAnnounced => 4 end.

(* a request on an RTSP command connection, as far as this model goes *)
Inductive rtsp_req :=
| RqDescribe (hdr : bytes)        (* DESCRIBE with this Authorization header value ("" = none) *)
| RqAnnounce (observer_ok : bool). (* ANNOUNCE; whether the observer (ServerManager.OnNewRtspPubSession) accepts the publisher *)

(* the answer means that the connection carries a play / publish session from now on *)
Definition is_admitted (r : describe_result) : bool :=
  match r with DrSdp => true | DrAnnounced => true | _ => false end.

Section RtspAuth.
  Variable md5raw : bytes -> bytes.
  Variable b64dec : bytes -> option bytes.
  Variable b64enc : bytes -> bytes.

  Definition md5hex_r (x : bytes) : bytes := hex_lower (md5raw x).

  (* Auth.ParseAuthorization(authStr) : (receiver after the call, err != nil).
     [fixed = false] is the pinned tree: the Basic branch stores AuthTypeDigest
     and splits user:password with strings.Split (must give exactly 2 pieces).
     [fixed = true]: AuthTypeBasic and strings.SplitN(.., 2). *)
  Definition parse_authorization_gen (fixed : bool) (a : auth) (s : bytes) : auth * bool :=
    if has_prefix s_basic_sp s then
      let a1 := mk_auth (au_username a) (au_password a) (if fixed then s_basic else s_digest)
                        (au_realm a) (au_nonce a) (au_algorithm a) (au_uri a) (au_response a)
                        (au_opaque a) (au_stale a) in
      match b64dec (trim_prefix s_basic_sp s) with
      | None => (a1, true)
      | Some info =>
          match (if fixed then split_once colon info else split_byte colon info) with
          | [u; p] =>
              (mk_auth u p (au_typ a1) (au_realm a) (au_nonce a) (au_algorithm a) (au_uri a)
                       (au_response a) (au_opaque a) (au_stale a), false)
          | _ => (a1, true)
          end
      end
    else if has_prefix s_digest_sp s then
      let d := trim_prefix s_digest_sp s in
      (mk_auth (get_v d k_username) (au_password a) s_digest (get_v d k_realm) (get_v d k_nonce)
               (get_v d k_algorithm) (get_v d k_uri) (get_v d k_response) (get_v d k_opaque)
               (get_v d k_stale), false)
    else (a, false).

  (* the Digest response value of RFC 2617 without qop, as lal computes it *)
  Definition digest_response (user realm pass method uri nonce : bytes) : bytes :=
    let ha1 := md5hex_r (user ++ colon :: realm ++ colon :: pass) in
    let ha2 := md5hex_r (method ++ colon :: uri) in
    md5hex_r (ha1 ++ colon :: nonce ++ colon :: ha2).

  (* Auth.CheckAuthorization(method, username, password) *)
  Definition check_authorization (a : auth) (method user pass : bytes) : bool :=
    if beq (au_typ a) s_basic then beq user (au_username a) && beq pass (au_password a)
    else if beq (au_typ a) s_digest then
      beq (au_response a) (digest_response user (au_realm a) pass method (au_uri a) (au_nonce a))
    else false.

  (* Auth.MakeAuthorization(method, uri) : client side *)
  Definition make_authorization (a : auth) (method uri : bytes) : bytes :=
    if is_empty (au_username a) then []
    else if beq (au_typ a) s_basic then
      s_basic_sp ++ b64enc (au_username a ++ colon :: au_password a)
    else if beq (au_typ a) s_digest then
      let q s := s ++ [dquote] in
      s_digest_sp ++ k_username ++ q (au_username a) ++ [44; 32] ++ k_realm ++ q (au_realm a) ++ [44; 32]
        ++ k_nonce ++ q (au_nonce a) ++ [44; 32] ++ k_uri ++ q uri ++ [44; 32]
        ++ k_response ++ q (digest_response (au_username a) (au_realm a) (au_password a) method uri (au_nonce a))
        ++ [44; 32] ++ k_algorithm ++ q (au_algorithm a)
    else [].

  (* ServerCommandSession.handleAuthorized for a DESCRIBE whose Authorization
     header value is [hdr] ("" = header absent): (session.auth afterwards, outcome).
     [fixed2 = false] is the pinned tree: session.auth is reused from the previous
     request of the connection and the error of ParseAuthorization is dropped.
     [fixed2 = true]: the context is reset first and a parse error rejects. *)
  Definition handle_authorized_gen (fixed fixed2 : bool) (c : rtsp_conf) (a : auth) (hdr : bytes)
    : auth * describe_result :=
    if negb (is_empty hdr) then
      let '(a1, err) := parse_authorization_gen fixed (if fixed2 then auth_zero else a) hdr in
      if (negb (fixed2 && err)) &&
         ((beq (au_typ a1) s_basic && (rc_method c =? 0)%Z) || (beq (au_typ a1) s_digest && (rc_method c =? 1)%Z)) &&
         check_authorization a1 s_describe (rc_user c) (rc_pass c)
      then (a1, DrSdp) else (a1, DrClosed)
    else if (rc_method c =? 0)%Z then (a, DrChallengeBasic)
    else if (rc_method c =? 1)%Z then (a, DrChallengeDigest)
    else (a, DrClosed).

  (* handleDescribe, with an observer that has a description for every stream *)
  Definition handle_describe_gen (fixed fixed2 : bool) (c : rtsp_conf) (a : auth) (hdr : bytes)
    : auth * describe_result :=
    if rc_enable c then handle_authorized_gen fixed fixed2 c a hdr else (a, DrSdp).

  (* a connection: DESCRIBE requests one after the other until the handler
     returns an error (runCmdLoop breaks and closes the connection) *)
  Fixpoint describe_session_gen (fixed fixed2 : bool) (c : rtsp_conf) (a : auth) (hdrs : list bytes)
    : list describe_result :=
    match hdrs with
    | [] => []
    | h :: t =>
        let '(a1, r) := handle_describe_gen fixed fixed2 c a h in
        match r with
        | DrClosed => [DrClosed]
        | _ => r :: describe_session_gen fixed fixed2 c a1 t
        end
    end.

  (* the same sequence on the trees before "a second ANNOUNCE / DESCRIBE on an RTSP command
     connection that already carries a publish or play session is an error" is
     [describe_session_gen] above.  Since that change handleDescribe and handleAnnounce start
     with `if session.pubSession != nil || session.subSession != nil { return ErrRtsp }`
     - before any authentication - so one command connection carries at most one session:
     [has] = the connection already carries one.  ANNOUNCE is not subject to RTSP
     authentication in lal (only to simple auth, through the observer). *)
  Fixpoint rtsp_conn (c : rtsp_conf) (a : auth) (has : bool) (reqs : list rtsp_req) : list describe_result :=
    match reqs with
    | [] => []
    | q :: t =>
        if has then [DrClosed]
        else
          match q with
          | RqDescribe h =>
              let '(a1, r) := handle_describe_gen true true c a h in
              match r with
              | DrClosed => [DrClosed]
              | _ => r :: rtsp_conn c a1 (is_admitted r) t
              end
          | RqAnnounce ok =>
              if ok then DrAnnounced :: rtsp_conn c a true t else [DrClosed]
          end
    end.

  Definition parse_authorization := parse_authorization_gen true.
  Definition handle_describe := handle_describe_gen true true.
End RtspAuth.
