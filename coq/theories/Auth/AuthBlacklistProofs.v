(* Proofs about the IP black-list model (AuthBlacklist.v) *)
From Lal Require Import Common.LBytes Auth.AuthStr Auth.AuthStrProofs Auth.AuthBlacklist Auth.AuthSpec.
From Coq Require Import Lia.
Open Scope Z_scope.

Lemma bl_run_tagged_snd ops : forall t now, map snd (bl_run_tagged t now ops) = bl_run t now ops.
Proof.
  induction ops as [|o r IH]; intros t now; [reflexivity|].
  destruct o as [ip d|ip|s]; cbn [bl_run_tagged bl_run].
  - apply IH.
  - destruct (bl_has t ip now) as [t' b]. cbn [map snd]. now rewrite IH.
  - apply IH.
Qed.

Lemma lookup_remove_other k ip t : k <> ip -> bl_lookup ip (bl_remove k t) = bl_lookup ip t.
Proof.
  intros Hne. induction t as [|[k' u] r IH]; [reflexivity|]. cbn [bl_remove bl_lookup].
  destruct (beq k' k) eqn:E1.
  - apply beq_eq in E1. subst k'. assert (E : beq k ip = false) by now apply beq_neq. now rewrite E.
  - cbn [bl_lookup]. now rewrite IH.
Qed.

Lemma lookup_add_same t ip d now : bl_lookup ip (bl_add t ip d now) = Some (now + d).
Proof. unfold bl_add. cbn [bl_lookup]. now rewrite beq_refl. Qed.

Lemma lookup_add_other t k ip d now : k <> ip -> bl_lookup ip (bl_add t k d now) = bl_lookup ip t.
Proof.
  intros Hne. unfold bl_add. cbn [bl_lookup]. assert (E : beq k ip = false) by now apply beq_neq.
  rewrite E. now apply lookup_remove_other.
Qed.

Lemma lookup_erase_live t ip u now :
  bl_lookup ip t = Some u -> now <= u -> bl_lookup ip (bl_erase_stale t now) = Some u.
Proof.
  intros H Hle. induction t as [|[k u'] r IH]; [discriminate|]. cbn [bl_lookup] in H.
  unfold bl_erase_stale. cbn [filter snd]. fold (bl_erase_stale r now).
  destruct (beq k ip) eqn:E.
  - inversion H; subst u'. assert (Hl : (u <? now) = false) by (apply Z.ltb_ge; lia). rewrite Hl. cbn [negb bl_lookup]. now rewrite E.
  - destruct (negb (u' <? now)); [cbn [bl_lookup]; rewrite E|]; now apply IH.
Qed.

Lemma mem_of_lookup t ip u : bl_lookup ip t = Some u -> bl_mem ip t = true.
Proof.
  induction t as [|[k u'] r IH]; [discriminate|]. cbn [bl_lookup bl_mem].
  destruct (beq k ip); [reflexivity|]. exact IH.
Qed.

(* a listed address whose expiry has not passed is refused, and stays listed *)
Lemma has_live t ip k u now :
  bl_lookup ip t = Some u -> now <= u ->
  bl_lookup ip (fst (bl_has t k now)) = Some u /\ snd (bl_has t ip now) = true.
Proof.
  intros H Hle. unfold bl_has. cbn [fst snd].
  pose proof (lookup_erase_live t ip u now H Hle) as H1. split; [exact H1|]. now apply (mem_of_lookup _ _ u).
Qed.

Lemma total_sleep_nonneg ip ops : Forall (op_ok ip) ops -> 0 <= total_sleep ops.
Proof.
  induction 1 as [|o r Ho Hr IH]; [cbn; lia|]. destruct o; cbn [total_sleep]; try exact IH. cbn in Ho. lia.
Qed.

Theorem blacklist_until_expiry ops : forall t now ip u,
  bl_lookup ip t = Some u -> Forall (op_ok ip) ops -> now + total_sleep ops <= u ->
  Forall (fun kb => fst kb = ip -> snd kb = true) (bl_run_tagged t now ops).
Proof.
  induction ops as [|o r IH]; intros t now ip u Hl Hok Hle; [constructor|].
  inversion Hok as [|? ? Ho Hr]; subst.
  pose proof (total_sleep_nonneg ip r Hr) as Hnn.
  destruct o as [k d|k|s]; cbn [bl_run_tagged total_sleep] in *.
  - apply (IH _ _ ip u); auto. cbn in Ho. now rewrite lookup_add_other.
  - destruct (bl_has t k now) as [t' b] eqn:E.
    assert (Hnow : now <= u) by lia.
    destruct (has_live t ip k u now Hl Hnow) as [H1 H2]. rewrite E in H1. cbn [fst] in H1.
    constructor.
    + cbn [fst snd]. intros ->. rewrite E in H2. exact H2.
    + apply (IH _ _ ip u); auto.
  - cbn in Ho. apply (IH _ _ ip u); auto. lia.
Qed.

(* ---- after expiry (needs: at most one entry per address) --------------------- *)

Lemma mem_none t ip : bl_lookup ip t = None -> bl_mem ip t = false.
Proof.
  induction t as [|[k u] r IH]; [reflexivity|]. cbn [bl_lookup bl_mem]. destruct (beq k ip); [discriminate|]. exact IH.
Qed.

Lemma mem_filter_false (f : bytes * Z -> bool) t ip : bl_mem ip t = false -> bl_mem ip (filter f t) = false.
Proof.
  induction t as [|[k u] r IH]; [reflexivity|]. cbn [bl_mem filter]. intros H. apply orb_false_elim in H as [H1 H2].
  destruct (f (k, u)); [cbn [bl_mem]; rewrite H1|]; now apply IH.
Qed.

Lemma mem_remove ip t : bl_mem ip (bl_remove ip t) = false.
Proof.
  induction t as [|[k u] r IH]; [reflexivity|]. cbn [bl_remove]. destruct (beq k ip) eqn:E; [exact IH|].
  cbn [bl_mem]. now rewrite E.
Qed.

Lemma mem_remove_other k ip t : bl_mem ip t = false -> bl_mem ip (bl_remove k t) = false.
Proof.
  induction t as [|[k' u] r IH]; [reflexivity|]. cbn [bl_mem bl_remove]. intros H. apply orb_false_elim in H as [H1 H2].
  destruct (beq k' k); [now apply IH|]. cbn [bl_mem]. rewrite H1. now apply IH.
Qed.

(* every entry for an address other than the first one is absent: tables built by Add have
   one entry per address *)
Fixpoint bl_uniq (t : bl_table) : Prop :=
  match t with [] => True | (k, _) :: r => bl_mem k r = false /\ bl_uniq r end.

Lemma uniq_remove k t : bl_uniq t -> bl_uniq (bl_remove k t).
Proof.
  induction t as [|[k' u] r IH]; [trivial|]. cbn [bl_uniq bl_remove]. intros [H1 H2].
  destruct (beq k' k); [now apply IH|]. cbn [bl_uniq]. split; [now apply mem_remove_other|now apply IH].
Qed.

Lemma uniq_add t ip d now : bl_uniq t -> bl_uniq (bl_add t ip d now).
Proof. intros H. unfold bl_add. cbn [bl_uniq]. split; [apply mem_remove|now apply uniq_remove]. Qed.

Lemma uniq_filter f t : bl_uniq t -> bl_uniq (filter f t).
Proof.
  induction t as [|[k u] r IH]; [trivial|]. cbn [bl_uniq filter]. intros [H1 H2].
  destruct (f (k, u)); [cbn [bl_uniq]; split; [now apply mem_filter_false|now apply IH]|now apply IH].
Qed.

Lemma uniq_has t ip now : bl_uniq t -> bl_uniq (fst (bl_has t ip now)).
Proof. intros H. unfold bl_has. cbn [fst]. now apply uniq_filter. Qed.

(* once the expiry has passed the address is served again *)
Theorem blacklist_expired t ip u now :
  bl_uniq t -> bl_lookup ip t = Some u -> u < now -> snd (bl_has t ip now) = false.
Proof.
  intros Hu Hl Hlt. unfold bl_has. cbn [snd]. unfold bl_erase_stale.
  induction t as [|[k u'] r IH]; [discriminate|]. cbn [bl_lookup] in Hl. cbn [bl_uniq] in Hu. destruct Hu as [Hm Hr].
  cbn [filter snd]. destruct (beq k ip) eqn:E.
  - inversion Hl; subst u'. assert (Hs : (u <? now) = true) by (apply Z.ltb_lt; lia). rewrite Hs. cbn [negb].
    apply beq_eq in E. subst k. now apply mem_filter_false.
  - destruct (negb (u' <? now)); [cbn [bl_mem]; rewrite E; cbn [orb]|]; now apply IH.
Qed.

(* an address that was never added is served *)
Theorem blacklist_absent t ip now : bl_lookup ip t = None -> snd (bl_has t ip now) = false.
Proof. intros H. unfold bl_has. cbn [snd]. apply mem_filter_false. now apply mem_none. Qed.
