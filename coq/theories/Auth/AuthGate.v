(* Model of the admission step of ServerManager.OnNewHttpflvSubSession /
   OnNewHttptsSubSession (pkg/logic/server_manager__.go; the other OnNew*Session
   callbacks have the same shape): the authentication callback is consulted
   first and its error returned; only then is the session attached to its group,
   which is what makes it appear in the stat API and receive the HTTP response
   header and media.  No proofs in this file. *)
From Lal Require Import Common.LBytes Auth.AuthSimple.
Open Scope N_scope.

Record gate_out := mk_gate_out {
  go_code : N;          (* error returned to the protocol server (0 = nil) *)
  go_listed : N;        (* entries for this session in StatGroup(stream).StatSubs *)
  go_wrote : bool;      (* anything written to the subscriber's connection *)
  go_kicked : bool;     (* CtrlKickSession(stream, session id) afterwards reports success *)
  go_closed : bool }.   (* ... and the session's connection has been closed by it *)

(* Group.KickSession looks the id up among the attached sessions of its kind and
   disposes the one it finds; a session that was never attached is not found *)
Definition sm_on_new_http_sub (d : sa_result) : gate_out :=
  match d with
  | SaOk => mk_gate_out 0 1 true true true
  | r => mk_gate_out (sa_code r) 0 false false false
  end.
