(* Model of the admission step of ServerManager.OnNewHttpflvSubSession /
   OnNewHttptsSubSession (pkg/logic/server_manager__.go; the other OnNew*Session
   callbacks have the same shape): the authentication callback is consulted
   first and its error returned; only then is the session attached to its group,
   which is what makes it appear in the stat API and receive the HTTP response
   header and media.  No proofs in this file. *)
From Lal Require Import Common.LBytes Auth.AuthSimple.
Open Scope N_scope.

Record gate_out := mk_gate_out {
  go_code : N;          (* error returned to the protocol server (0 = nil) *)
  go_listed : N;        (* entries for this session in StatGroup(stream).StatSubs *)
  go_wrote : bool;      (* anything written to the subscriber's connection *)
  go_kicked : bool;     (* CtrlKickSession(stream, session id) afterwards reports success *)
  go_closed : bool }.   (* ... and the session's connection has been closed by it *)

(* Group.KickSession looks the id up among the attached sessions of its kind and
   disposes the one it finds; a session that was never attached is not found *)
Definition sm_on_new_http_sub (d : sa_result) : gate_out :=
  match d with
  | SaOk => mk_gate_out 0 1 true true true
  | r => mk_gate_out (sa_code r) 0 false false false
  end.

(* which direction and protocol string each ServerManager callback presents to the
   authentication callback (base.Session2PubStartInfo / Session2SubStartInfo of the
   session it is given): 0 OnNewRtmpPubSession, 1 OnNewRtmpSubSession,
   2 OnNewHttpflvSubSession, 3 OnNewHttptsSubSession, 4 OnNewRtspPubSession,
   5 OnNewRtspSubSessionDescribe *)
Definition callback_dir (cb : N) : N :=
  match cb with 0 => 0 | 4 => 0 | _ => 1 end.
Definition callback_proto (cb : N) : bytes :=
  match cb with
  | 0 => proto_rtmp | 1 => proto_rtmp | 2 => proto_flv | 3 => proto_ts | _ => proto_rtsp
  end.

(* the callback's outcome: error code, and whether the session ends up attached to its
   group (listed by the stat API) *)
Definition sm_callback (cb : N) (d : sa_result) : N * bool :=
  match d with SaOk => (0, true) | r => (sa_code r, false) end.
