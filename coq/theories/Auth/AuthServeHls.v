(* Model of ServerManager.serveHls (pkg/logic/server_manager__.go) together with the
   session handling of hls.ServerHandler.ServeHTTPWithUrlCtx / CloseSubSessionIfExist
   (pkg/hls/server_handler.go): how the HLS entry point composes the decision
   functions - simple auth for playlist requests (OnHls on the stream name
   GetRequestInfo derives, on the WHOLE raw query), then the IP black-list for EVERY
   request, then the handler, which with the sub-session feature on
   (hls.sub_session_hash_key != "") looks at the session_id query parameter -
   and histories of requests / add_ip_blacklist calls / clock advances.
   No proofs in this file. *)
From Lal Require Import Common.LBytes Auth.AuthStr Auth.AuthSimple Auth.AuthPaths Auth.AuthBlacklist.
Open Scope N_scope.

Inductive hls_resp :=
| HrFile (p : bytes)     (* the handler opens p (200 + content when it exists, else 404) *)
| HrInvalid              (* the handler refuses the request path (302 without Location, no content) *)
| HrBlocked              (* black-listed: 404, handler not reached *)
| HrAuthFail             (* simple auth failed: empty answer, neither black-list nor handler reached *)
| HrNoSession            (* sub-session mode: unknown session_id, 404 *)
| HrRedirect (sid : bytes). (* sub-session mode: a session is created, 302 to the same URL plus session_id=sid *)

Definition s_session_id : bytes := [115; 101; 115; 115; 105; 111; 110; 95; 105; 100].   (* "session_id" *)

(* black-list + hls.ServerHandler.sessionMap (ids) + number of sessions created so far *)
Record hls_state := mk_hls_state { hs_bl : bl_table; hs_sessions : list bytes; hs_next : N }.
Definition hls_state0 : hls_state := mk_hls_state [] [] 0.

(* the id of the n-th session (the real one is md5(unique key + hash key); the harness
   maps it to this name) *)
Definition new_session_id (n : N) : bytes := 64 :: dec n.

Fixpoint mem_bytes (x : bytes) (l : list bytes) : bool :=
  match l with [] => false | y :: t => beq y x || mem_bytes x t end.
Fixpoint remove_bytes (x : bytes) (l : list bytes) : list bytes :=
  match l with [] => [] | y :: t => if beq y x then remove_bytes x t else y :: remove_bytes x t end.

Section ServeHls.
  Variable md5raw : bytes -> bytes.
  Variable parse_query : bytes -> option (list (bytes * bytes)).
  Variable lower_uni : bytes -> bytes.
  (* url.URL.Query(): the values ParseQuery returns next to its error (malformed pairs dropped) *)
  Variable parse_query_all : bytes -> list (bytes * bytes).

  Definition session_id_of (query : bytes) : bytes := query_get (parse_query_all query) s_session_id.

  (* ServeHTTPWithUrlCtx *)
  Definition hls_handler (sub_on : bool) (root : bytes) (st : hls_state) (path query : bytes)
    : hls_state * hls_resp :=
    let ftype := snd (filename_and_type (last_item_of_path path)) in
    let serve := match hls_serve_file path root with Some p => HrFile p | None => HrInvalid end in
    if sub_on then
      let sid := session_id_of query in
      if beq ftype s_ts && negb (is_empty sid) then
        (st, if mem_bytes sid (hs_sessions st) then serve else HrNoSession)
      else if beq ftype s_m3u8 then
        if negb (is_empty sid) then
          (st, if mem_bytes sid (hs_sessions st) then serve else HrNoSession)
        else
          let sid' := new_session_id (hs_next st) in
          (mk_hls_state (hs_bl st) (sid' :: hs_sessions st) (hs_next st + 1), HrRedirect sid')
      else (st, serve)
    else (st, serve).

  (* serveHls for a request with decoded path [path], raw query [query] from address [ip] at time [now] *)
  Definition serve_hls (cfg : sa_config) (sub_on : bool) (root : bytes) (st : hls_state) (now : Z)
    (ip path query : bytes) : hls_state * hls_resp :=
    let ftype := snd (filename_and_type (last_item_of_path path)) in
    let auth_ok :=
      if beq ftype s_m3u8 then
        match on_hls md5raw parse_query lower_uni cfg (ri_stream (get_request_info path root)) query with
        | SaOk => true
        | _ => false
        end
      else true in
    if negb auth_ok then (st, HrAuthFail)
    else
      let '(t', b) := bl_has (hs_bl st) ip now in
      if b then
        (* CloseSubSessionIfExist *)
        (mk_hls_state t' (remove_bytes (session_id_of query) (hs_sessions st)) (hs_next st), HrBlocked)
      else hls_handler sub_on root (mk_hls_state t' (hs_sessions st) (hs_next st)) path query.

  Inductive sh_op :=
  | ShGet (ip path query : bytes)
  | ShBlacklist (ip : bytes) (dur : Z)      (* /api/ctrl/add_ip_blacklist *)
  | ShSleep (sec : Z).

  Fixpoint sh_run (cfg : sa_config) (sub_on : bool) (root : bytes) (st : hls_state) (now : Z) (ops : list sh_op)
    : list hls_resp :=
    match ops with
    | [] => []
    | ShGet ip path query :: r =>
        let '(st', resp) := serve_hls cfg sub_on root st now ip path query in resp :: sh_run cfg sub_on root st' now r
    | ShBlacklist ip dur :: r =>
        sh_run cfg sub_on root (mk_hls_state (bl_add (hs_bl st) ip dur now) (hs_sessions st) (hs_next st)) now r
    | ShSleep s :: r => sh_run cfg sub_on root st (now + s)%Z r
    end.
End ServeHls.
