(* Model of ServerManager.serveHls (pkg/logic/server_manager__.go) together with the
   session handling of hls.ServerHandler.ServeHTTPWithUrlCtx / CloseSubSessionIfExist
   (pkg/hls/server_handler.go): how the HLS entry point composes the decision
   functions - simple auth for playlist requests (OnHls on the stream name
   GetRequestInfo derives, on the WHOLE raw query), then the IP black-list for EVERY
   request, then the handler, which with the sub-session feature on
   (hls.sub_session_hash_key != "") looks at the session_id query parameter -
   and histories of requests / add_ip_blacklist calls / clock advances.
   No proofs in this file. *)
From Lal Require Import Common.LBytes Auth.AuthStr Auth.AuthSimple Auth.AuthPaths Auth.AuthBlacklist.
Open Scope N_scope.

Inductive hls_resp :=
| HrFile (p : bytes)     (* the handler opens p (200 + content when it exists, else 404) *)
| HrInvalid              (* the handler refuses the request path (302 without Location, no content) *)
| HrBlocked              (* black-listed: 404, handler not reached *)
| HrAuthFail             (* simple auth failed: empty answer, neither black-list nor handler reached *)
| HrNoSession            (* sub-session mode: unknown session_id, 404 *)
| HrRedirect (sid : bytes) (* sub-session mode: a session is created, 302 to the same URL plus session_id=sid *)
| HrKick (ok : bool)     (* answer of /api/ctrl/kick_session: session found (and disposed) or not *)
| HrListed (n : N).      (* number of HLS sub sessions the stat API lists *)

Definition s_session_id : bytes := [115; 101; 115; 115; 105; 111; 110; 95; 105; 100].   (* "session_id" *)

(* hls.SubSession as far as the handler looks at it: id (sessionIdHash), LastRequestTime
   (unix ms), disposedFlag *)
Record hsess := mk_hsess { hx_id : bytes; hx_last : Z; hx_disposed : bool }.

(* black-list + hls.ServerHandler.sessionMap (= the group's hls sub session set) + number of
   sessions created so far *)
Record hls_state := mk_hls_state { hs_bl : bl_table; hs_sessions : list hsess; hs_next : N }.
Definition hls_state0 : hls_state := mk_hls_state [] [] 0.

(* the id of the n-th session (the real one is md5(unique key + hash key); the harness
   maps it to this name) *)
Definition new_session_id (n : N) : bytes := 64 :: dec n.

Fixpoint sess_mem (x : bytes) (l : list hsess) : bool :=
  match l with [] => false | y :: t => beq (hx_id y) x || sess_mem x t end.
Fixpoint sess_remove (x : bytes) (l : list hsess) : list hsess :=
  match l with [] => [] | y :: t => if beq (hx_id y) x then sess_remove x t else y :: sess_remove x t end.
(* keepSessionAlive: KeepAlive() on the session found - it does not look at the disposed flag *)
Fixpoint sess_touch (x : bytes) (now_ms : Z) (l : list hsess) : list hsess :=
  match l with
  | [] => []
  | y :: t => if beq (hx_id y) x then mk_hsess (hx_id y) now_ms (hx_disposed y) :: sess_touch x now_ms t
              else y :: sess_touch x now_ms t
  end.
(* Group.KickSession -> SubSession.Dispose(): the flag is set, nothing else *)
Fixpoint sess_dispose (x : bytes) (l : list hsess) : list hsess :=
  match l with
  | [] => []
  | y :: t => if beq (hx_id y) x then mk_hsess (hx_id y) (hx_last y) true :: sess_dispose x t
              else y :: sess_dispose x t
  end.
(* clearExpireSession at time t_ms: IsExpired() || IsDisposed() *)
Definition sess_sweep (timeout_ms t_ms : Z) (l : list hsess) : list hsess :=
  filter (fun y => negb (hx_disposed y || (hx_last y + timeout_ms <? t_ms)%Z)) l.

Section ServeHls.
  Variable md5raw : bytes -> bytes.
  Variable parse_query : bytes -> option (list (bytes * bytes)).
  Variable lower_uni : bytes -> bytes.
  (* url.URL.Query(): the values ParseQuery returns next to its error (malformed pairs dropped) *)
  Variable parse_query_all : bytes -> list (bytes * bytes).

  Definition session_id_of (query : bytes) : bytes := query_get (parse_query_all query) s_session_id.

  (* ServeHTTPWithUrlCtx at time now_ms *)
  Definition hls_handler (sub_on : bool) (root : bytes) (st : hls_state) (now_ms : Z) (path query : bytes)
    : hls_state * hls_resp :=
    let ftype := snd (filename_and_type (last_item_of_path path)) in
    let serve := match hls_serve_file path root with Some p => HrFile p | None => HrInvalid end in
    let alive sid :=
      if sess_mem sid (hs_sessions st)
      then (mk_hls_state (hs_bl st) (sess_touch sid now_ms (hs_sessions st)) (hs_next st), serve)
      else (st, HrNoSession) in
    if sub_on then
      let sid := session_id_of query in
      if beq ftype s_ts && negb (is_empty sid) then alive sid
      else if beq ftype s_m3u8 then
        if negb (is_empty sid) then alive sid
        else
          let sid' := new_session_id (hs_next st) in
          (mk_hls_state (hs_bl st) (mk_hsess sid' now_ms false :: hs_sessions st) (hs_next st + 1), HrRedirect sid')
      else (st, serve)
    else (st, serve).

  (* serveHls for a request with decoded path [path], raw query [query] from address [ip] at
     time [now_ms] (the black-list works on whole unix seconds) *)
  Definition serve_hls (cfg : sa_config) (sub_on : bool) (root : bytes) (st : hls_state) (now_ms : Z)
    (ip path query : bytes) : hls_state * hls_resp :=
    let ftype := snd (filename_and_type (last_item_of_path path)) in
    let auth_ok :=
      if beq ftype s_m3u8 then
        match on_hls md5raw parse_query lower_uni cfg (ri_stream (get_request_info path root)) query with
        | SaOk => true
        | _ => false
        end
      else true in
    if negb auth_ok then (st, HrAuthFail)
    else
      let '(t', b) := bl_has (hs_bl st) ip (now_ms / 1000)%Z in
      if b then
        (* CloseSubSessionIfExist *)
        (mk_hls_state t' (sess_remove (session_id_of query) (hs_sessions st)) (hs_next st), HrBlocked)
      else hls_handler sub_on root (mk_hls_state t' (hs_sessions st) (hs_next st)) now_ms path query.

  Inductive sh_op :=
  | ShGet (ip path query : bytes)
  | ShBlacklist (ip : bytes) (dur : Z)      (* /api/ctrl/add_ip_blacklist *)
  | ShSleep (sec : Z)                       (* the clock advances by whole seconds; ServerHandler.runLoop sweeps once a second *)
  | ShKick (sid : bytes)                    (* /api/ctrl/kick_session for the HLS sub session with this id *)
  | ShList.                                 (* stat API *)

  (* the one sweep inside (now_ms, now_ms + 1000]: the ticker fires at the times = phase (mod 1000) *)
  Definition next_tick (phase now_ms : Z) : Z := (now_ms + ((phase - now_ms - 1) mod 1000) + 1)%Z.

  Fixpoint advance_secs (n : nat) (timeout_ms phase : Z) (l : list hsess) (now_ms : Z) : list hsess * Z :=
    match n with
    | O => (l, now_ms)
    | S k => advance_secs k timeout_ms phase (sess_sweep timeout_ms (next_tick phase now_ms) l) (now_ms + 1000)%Z
    end.

  Definition sh_step (cfg : sa_config) (sub_on : bool) (root : bytes) (timeout_ms phase : Z)
    (st : hls_state) (now_ms : Z) (o : sh_op) : hls_state * Z * option hls_resp :=
    match o with
    | ShGet ip path query =>
        let '(st', resp) := serve_hls cfg sub_on root st now_ms ip path query in (st', now_ms, Some resp)
    | ShBlacklist ip dur =>
        (mk_hls_state (bl_add (hs_bl st) ip dur (now_ms / 1000)%Z) (hs_sessions st) (hs_next st), now_ms, None)
    | ShSleep s =>
        let '(l, t) := advance_secs (Z.to_nat s) timeout_ms phase (hs_sessions st) now_ms in
        (mk_hls_state (hs_bl st) l (hs_next st), t, None)
    | ShKick sid =>
        (mk_hls_state (hs_bl st) (sess_dispose sid (hs_sessions st)) (hs_next st), now_ms,
         Some (HrKick (sess_mem sid (hs_sessions st))))
    | ShList => (st, now_ms, Some (HrListed (lenN (hs_sessions st))))
    end.

  Fixpoint sh_run (cfg : sa_config) (sub_on : bool) (root : bytes) (timeout_ms phase : Z)
    (st : hls_state) (now_ms : Z) (ops : list sh_op) : list hls_resp :=
    match ops with
    | [] => []
    | o :: r =>
        let '(st', t, resp) := sh_step cfg sub_on root timeout_ms phase st now_ms o in
        match resp with
        | Some x => x :: sh_run cfg sub_on root timeout_ms phase st' t r
        | None => sh_run cfg sub_on root timeout_ms phase st' t r
        end
    end.
End ServeHls.
