(* Model of ServerManager.serveHls (pkg/logic/server_manager__.go): how the HLS
   entry point composes the decision functions - simple auth for playlist
   requests (OnHls on the stream name GetRequestInfo derives), then the IP
   black-list for EVERY request, then hls.ServerHandler - and of histories of
   requests / add_ip_blacklist calls / clock advances.  No proofs in this file. *)
From Lal Require Import Common.LBytes Auth.AuthStr Auth.AuthSimple Auth.AuthPaths Auth.AuthBlacklist.
Open Scope N_scope.

Inductive hls_resp :=
| HrFile (p : bytes)     (* the handler is reached and opens p (200 + content when it exists, else 404) *)
| HrInvalid              (* the handler is reached and refuses the request path (302, no content) *)
| HrBlocked              (* black-listed: 404, handler not reached *)
| HrAuthFail.            (* simple auth failed: empty answer, neither black-list nor handler reached *)

Section ServeHls.
  Variable md5raw : bytes -> bytes.
  Variable parse_query : bytes -> option (list (bytes * bytes)).
  Variable lower_uni : bytes -> bytes.

  (* serveHls for a request with decoded path [path], raw query [query] from address [ip] at time [now] *)
  Definition serve_hls (cfg : sa_config) (root : bytes) (t : bl_table) (now : Z) (ip path query : bytes)
    : bl_table * hls_resp :=
    let ftype := snd (filename_and_type (last_item_of_path path)) in
    let auth_ok :=
      if beq ftype s_m3u8 then
        match on_hls md5raw parse_query lower_uni cfg (ri_stream (get_request_info path root)) query with
        | SaOk => true
        | _ => false
        end
      else true in
    if negb auth_ok then (t, HrAuthFail)
    else
      let '(t', b) := bl_has t ip now in
      if b then (t', HrBlocked)
      else (t', match hls_serve_file path root with Some p => HrFile p | None => HrInvalid end).

  Inductive sh_op :=
  | ShGet (ip path query : bytes)
  | ShBlacklist (ip : bytes) (dur : Z)      (* /api/ctrl/add_ip_blacklist *)
  | ShSleep (sec : Z).

  Fixpoint sh_run (cfg : sa_config) (root : bytes) (t : bl_table) (now : Z) (ops : list sh_op) : list hls_resp :=
    match ops with
    | [] => []
    | ShGet ip path query :: r =>
        let '(t', resp) := serve_hls cfg root t now ip path query in resp :: sh_run cfg root t' now r
    | ShBlacklist ip dur :: r => sh_run cfg root (bl_add t ip dur now) now r
    | ShSleep s :: r => sh_run cfg root t (now + s)%Z r
    end.
End ServeHls.
