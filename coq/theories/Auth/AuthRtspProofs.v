(* Proofs about the RTSP authentication model (AuthRtsp.v) against AuthSpec.v *)
From Lal Require Import Common.LBytes Auth.AuthStr Auth.AuthStrProofs Auth.AuthRtsp Auth.AuthSpec.
Open Scope N_scope.

Section RtspProofs.
  Variable md5raw : bytes -> bytes.
  Variable b64dec : bytes -> option bytes.

  Lemma basic_not_digest p d : s_basic_sp ++ p <> s_digest_sp ++ d.
  Proof. cbn. discriminate. Qed.

  (* the outcome of handleAuthorized for a non-empty header, by shape of the header *)
  Lemma authorized_basic c a payload :
    snd (handle_authorized_gen md5raw b64dec true true c a (s_basic_sp ++ payload)) = DrSdp <->
    rc_method c = 0%Z /\ exists u p, b64dec payload = Some (u ++ colon :: p) /\ ~ In colon u /\ u = rc_user c /\ p = rc_pass c.
  Proof.
    unfold handle_authorized_gen.
    replace (negb (is_empty (s_basic_sp ++ payload))) with true by reflexivity.
    unfold parse_authorization_gen. rewrite has_prefix_app, trim_prefix_app.
    destruct (b64dec payload) as [info|] eqn:Ed.
    2:{ cbn. split; [discriminate|]. intros (_ & u & p & H & _). discriminate. }
    destruct (split_once colon info) as [|u [|p [|x r]]] eqn:Es; cbn [snd fst andb negb].
    1,2,4: (split; [cbn; discriminate|]; intros (_ & u' & p' & H & Hn & _); inversion H; subst info;
            rewrite (split_once_spec colon u' p' Hn) in Es; discriminate).
    apply split_once_inv in Es as [-> Hn].
    cbn [au_typ]. replace (beq s_basic s_basic) with true by reflexivity.
    replace (beq s_basic s_digest) with false by reflexivity. cbn [andb orb].
    unfold check_authorization. cbn [au_typ au_username au_password].
    replace (beq s_basic s_basic) with true by reflexivity.
    destruct (rc_method c =? 0)%Z eqn:Em; cbn [andb].
    2:{ split; [discriminate|]. intros (Hm & _). apply Z.eqb_neq in Em. contradiction. }
    apply Z.eqb_eq in Em.
    destruct (beq (rc_user c) u) eqn:E1; cbn [andb].
    2:{ apply beq_neq in E1. split; [discriminate|]. intros (_ & u' & p' & H & Hn' & Hu & Hp). inversion H as [H1].
        assert (Hs : split_once colon (u ++ colon :: p) = [u; p]) by now apply split_once_spec.
        rewrite H1 in Hs. rewrite (split_once_spec colon u' p' Hn') in Hs. inversion Hs. congruence. }
    apply beq_eq in E1.
    destruct (beq (rc_pass c) p) eqn:E2; cbn [snd].
    - apply beq_eq in E2. split; [intros _|reflexivity]. split; [exact Em|]. exists u, p. repeat split; auto.
    - apply beq_neq in E2. split; [discriminate|]. intros (_ & u' & p' & H & Hn' & Hu & Hp). inversion H as [H1].
      assert (Hs : split_once colon (u ++ colon :: p) = [u; p]) by now apply split_once_spec.
      rewrite H1 in Hs. rewrite (split_once_spec colon u' p' Hn') in Hs. inversion Hs. congruence.
  Qed.

  Lemma authorized_digest c a d :
    snd (handle_authorized_gen md5raw b64dec true true c a (s_digest_sp ++ d)) = DrSdp <->
    rc_method c = 1%Z /\
    get_v d k_response = digest_response md5raw (rc_user c) (get_v d k_realm) (rc_pass c) s_describe (get_v d k_uri) (get_v d k_nonce).
  Proof.
    unfold handle_authorized_gen.
    replace (negb (is_empty (s_digest_sp ++ d))) with true by reflexivity.
    unfold parse_authorization_gen.
    replace (has_prefix s_basic_sp (s_digest_sp ++ d)) with false by reflexivity.
    rewrite has_prefix_app, trim_prefix_app. cbn [snd fst andb negb au_typ].
    replace (beq s_digest s_basic) with false by reflexivity.
    replace (beq s_digest s_digest) with true by reflexivity. cbn [andb orb].
    unfold check_authorization. cbn [au_typ au_response au_realm au_uri au_nonce].
    replace (beq s_digest s_basic) with false by reflexivity.
    replace (beq s_digest s_digest) with true by reflexivity.
    destruct (rc_method c =? 1)%Z eqn:Em; cbn [andb].
    2:{ split; [discriminate|]. intros (Hm & _). apply Z.eqb_neq in Em. contradiction. }
    apply Z.eqb_eq in Em.
    match goal with |- snd (if beq ?x ?y then _ else _) = _ <-> _ => destruct (beq x y) eqn:Eb end; cbn [snd].
    - apply beq_eq in Eb. split; [intros _; now split|reflexivity].
    - apply beq_neq in Eb. split; [discriminate|]. intros [_ H]. contradiction.
  Qed.

  Lemma authorized_other c a hdr :
    hdr <> [] -> has_prefix s_basic_sp hdr = false -> has_prefix s_digest_sp hdr = false ->
    snd (handle_authorized_gen md5raw b64dec true true c a hdr) = DrClosed.
  Proof.
    intros Hne Hb Hd. unfold handle_authorized_gen.
    apply is_empty_false in Hne. rewrite Hne. cbn [negb].
    unfold parse_authorization_gen. rewrite Hb, Hd. cbn [au_typ auth_zero andb negb]. reflexivity.
  Qed.

  (* DESCRIBE is answered with the stream description <-> the request carries valid
     credentials of the configured method *)
  Theorem rtsp_iff c a hdr :
    rc_enable c = true -> ~ In colon (rc_user c) ->
    (snd (handle_describe md5raw b64dec c a hdr) = DrSdp <-> valid_credentials md5raw b64dec c hdr).
  Proof.
    intros He Hu. unfold handle_describe, handle_describe_gen. rewrite He.
    destruct (has_prefix s_basic_sp hdr) eqn:Hb.
    { apply has_prefix_spec in Hb as [payload ->]. rewrite authorized_basic. unfold valid_credentials, valid_basic, valid_digest.
      split.
      - intros (Hm & u & p & Hd & Hn & -> & ->). left. split; [exact Hm|]. now exists payload.
      - intros [[Hm (payload' & Heq & Hd)]|[_ (d & Heq & _)]].
        + apply app_inv_head in Heq. subst payload'. split; [exact Hm|]. now exists (rc_user c), (rc_pass c).
        + exfalso. now apply basic_not_digest in Heq. }
    destruct (has_prefix s_digest_sp hdr) eqn:Hd.
    { apply has_prefix_spec in Hd as [d ->]. rewrite authorized_digest. unfold valid_credentials, valid_basic, valid_digest.
      split.
      - intros [Hm H]. right. split; [exact Hm|]. now exists d.
      - intros [[_ (payload & Heq & _)]|[Hm (d' & Heq & H)]].
        + exfalso. symmetry in Heq. now apply basic_not_digest in Heq.
        + apply app_inv_head in Heq. subst d'. now split. }
    split.
    - destruct hdr as [|x t] eqn:Eh.
      + unfold handle_authorized_gen. cbn [is_empty negb]. destruct (rc_method c =? 0)%Z; [discriminate|]. destruct (rc_method c =? 1)%Z; discriminate.
      + rewrite authorized_other by (try discriminate; assumption). discriminate.
    - intros [[_ (payload & Heq & _)]|[_ (d & Heq & _)]]; subst hdr.
      + rewrite has_prefix_app in Hb. discriminate.
      + rewrite has_prefix_app in Hd. discriminate.
  Qed.

  (* with authentication off every DESCRIBE is answered *)
  Lemma rtsp_disabled c a hdr : rc_enable c = false -> snd (handle_describe md5raw b64dec c a hdr) = DrSdp.
  Proof. intros He. unfold handle_describe, handle_describe_gen. now rewrite He. Qed.

  (* a request without credentials is challenged with the configured method and gets no description *)
  Lemma rtsp_challenge c a :
    rc_enable c = true ->
    snd (handle_describe md5raw b64dec c a []) =
      if (rc_method c =? 0)%Z then DrChallengeBasic else if (rc_method c =? 1)%Z then DrChallengeDigest else DrClosed.
  Proof.
    intros He. unfold handle_describe, handle_describe_gen, handle_authorized_gen. rewrite He. cbn [is_empty negb].
    destruct (rc_method c =? 0)%Z; [reflexivity|]. destruct (rc_method c =? 1)%Z; reflexivity.
  Qed.

  (* the decision does not depend on what earlier requests of the connection left behind *)
  Lemma rtsp_stateless c a a' hdr :
    snd (handle_describe md5raw b64dec c a hdr) = snd (handle_describe md5raw b64dec c a' hdr).
  Proof.
    unfold handle_describe, handle_describe_gen. destruct (rc_enable c); [|reflexivity].
    unfold handle_authorized_gen. destruct (negb (is_empty hdr)).
    - destruct (parse_authorization_gen b64dec true auth_zero hdr) as [a1 err].
      match goal with |- snd (if ?b then _ else _) = snd (if ?b then _ else _) => destruct b end; reflexivity.
    - destruct (rc_method c =? 0)%Z; [reflexivity|]. destruct (rc_method c =? 1)%Z; reflexivity.
  Qed.

  (* handleDescribe never answers "announced" *)
  Lemma describe_not_announced c a h : snd (handle_describe md5raw b64dec c a h) <> DrAnnounced.
  Proof.
    unfold handle_describe, handle_describe_gen. destruct (rc_enable c); [|discriminate].
    unfold handle_authorized_gen. destruct (negb (is_empty h)).
    - destruct (parse_authorization_gen b64dec true auth_zero h) as [a1 err].
      match goal with |- snd (if ?b then _ else _) <> _ => destruct b end; discriminate.
    - destruct (rc_method c =? 0)%Z; [discriminate|]. destruct (rc_method c =? 1)%Z; discriminate.
  Qed.

  (* a whole command connection, any sequence of DESCRIBE / ANNOUNCE requests (replays
     included), started in state [has] (= it already carries a session): for the i-th
     processed request,
     - if the connection carries a session by then (it did at the start, or an earlier
       request was admitted) the request closes the connection, whatever its credentials;
     - otherwise a DESCRIBE is answered with the description exactly when its own header
       is valid, and an ANNOUNCE is accepted exactly when the observer accepts it;
     processing stops at the first closed request. *)
  Theorem rtsp_conn_spec c : rc_enable c = true -> ~ In colon (rc_user c) ->
    forall reqs a has i r,
      nth_error (rtsp_conn md5raw b64dec c a has reqs) i = Some r ->
      exists q, nth_error reqs i = Some q /\
        if has || existsb is_admitted (firstn i (rtsp_conn md5raw b64dec c a has reqs)) then r = DrClosed
        else match q with
             | RqDescribe h => (r = DrSdp <-> valid_credentials md5raw b64dec c h)
             | RqAnnounce ok => (r = DrAnnounced <-> ok = true)
             end.
  Proof.
    intros He Hu. induction reqs as [|q t IH]; intros a has i r H.
    - destruct i; discriminate.
    - cbn [rtsp_conn] in H |- *. destruct has.
      + destruct i as [|i]; [|destruct i; discriminate]. cbn in H. inversion H; subst r.
        exists q. split; reflexivity.
      + cbn [orb]. destruct q as [h|ok].
        * pose proof (rtsp_iff c a h He Hu) as Hiff. pose proof (describe_not_announced c a h) as Hna.
          unfold handle_describe in Hiff, Hna.
          destruct (handle_describe_gen md5raw b64dec true true c a h) as [a1 r1] eqn:E. cbn [snd] in Hiff, Hna.
          destruct r1; try congruence;
            (destruct i as [|i]; cbn [nth_error firstn existsb] in *;
             [inversion H; subst r; exists (RqDescribe h); split; [reflexivity|exact Hiff]|]);
            try (destruct i; discriminate);
            try (destruct (IH a1 _ i r H) as (q' & Hq & Hs); exists q'; split; [exact Hq|]; cbn [is_admitted orb] in *; exact Hs).
        * destruct ok.
          -- destruct i as [|i]; cbn [nth_error firstn existsb] in *.
             ++ inversion H; subst r. exists (RqAnnounce true). split; [reflexivity|]. split; reflexivity.
             ++ destruct (IH a true i r H) as (q' & Hq & Hs). exists q'. split; [exact Hq|]. cbn [is_admitted orb] in *. exact Hs.
          -- destruct i as [|i]; [|destruct i; discriminate]. cbn in H. inversion H; subst r.
             exists (RqAnnounce false). split; [reflexivity|]. cbn. split; discriminate.
  Qed.

  (* once the connection carries a session every further DESCRIBE / ANNOUNCE closes it *)
  Corollary rtsp_conn_one_session c a q t : rtsp_conn md5raw b64dec c a true (q :: t) = [DrClosed].
  Proof. reflexivity. Qed.

  (* client side: the Basic header lal's own client builds is accepted (base64 round trip as law) *)
  Variable b64enc : bytes -> bytes.
  Hypothesis b64_roundtrip : forall x, b64dec (b64enc x) = Some x.

  Theorem rtsp_basic_client_accepted c a cl :
    rc_enable c = true -> rc_method c = 0%Z -> ~ In colon (rc_user c) -> rc_user c <> [] ->
    au_typ cl = s_basic -> au_username cl = rc_user c -> au_password cl = rc_pass c ->
    forall method uri,
    snd (handle_describe md5raw b64dec c a (make_authorization md5raw b64enc cl method uri)) = DrSdp.
  Proof.
    intros He Hm Hn Hne Ht Hu Hp method uri. apply rtsp_iff; auto.
    left. split; [exact Hm|]. unfold make_authorization. rewrite Hu, Hp, Ht.
    apply is_empty_false in Hne. rewrite Hne. replace (beq s_basic s_basic) with true by reflexivity.
    exists (b64enc (rc_user c ++ colon :: rc_pass c)). split; [reflexivity|apply b64_roundtrip].
  Qed.
End RtspProofs.

(* the pinned tree rejects valid Basic credentials (F-17): user "u", password "p",
   Authorization: Basic dTpw *)
Lemma rtsp_pinned_basic_refuted :
  exists md5raw b64dec c hdr,
    rc_enable c = true /\ ~ In colon (rc_user c) /\ valid_credentials md5raw b64dec c hdr /\
    snd (handle_describe_gen md5raw b64dec false false c auth_zero hdr) <> DrSdp.
Proof.
  exists (fun _ => [1]), (fun _ => Some [117; 58; 112]), (mk_rtsp_conf true 0 [117] [112]), (s_basic_sp ++ [100; 84; 112; 119]).
  split; [reflexivity|]. split; [intros [H|[]]; discriminate|]. split.
  - left. split; [reflexivity|]. exists [100; 84; 112; 119]. split; reflexivity.
  - vm_compute. discriminate.
Qed.

(* the pinned tree (even with the Basic branch repaired) answers a DESCRIBE whose
   Authorization header is of an unknown scheme when it follows a valid one on the
   same connection: the second request is judged on the fields of the first *)
Lemma rtsp_pinned_stale_refuted :
  exists md5raw b64dec c h1 h2,
    rc_enable c = true /\ ~ In colon (rc_user c) /\ ~ valid_credentials md5raw b64dec c h2 /\
    describe_session_gen md5raw b64dec true false c auth_zero [h1; h2] = [DrSdp; DrSdp].
Proof.
  (* method Basic; h1 = "Basic dTpw" (u:p), h2 = "x" *)
  exists (fun _ => [1]), (fun _ => Some [117; 58; 112]), (mk_rtsp_conf true 0 [117] [112]), (s_basic_sp ++ [100; 84; 112; 119]), [120].
  split; [reflexivity|]. split; [intros [H|[]]; discriminate|]. split.
  - intros [[_ (p & H & _)]|[H _]]; discriminate.
  - vm_compute. reflexivity.
Qed.
